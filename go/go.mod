module gowarcverif

go 1.23.0

require (
	github.com/google/uuid v1.6.0
	github.com/klauspost/compress v1.18.0
	github.com/nlnwa/gowarc/v2 v2.0.0
	github.com/nlnwa/whatwg-url v0.6.2
)

require (
	github.com/bits-and-blooms/bitset v1.22.0 // indirect
	github.com/prometheus/prometheus v0.302.1 // indirect
	golang.org/x/net v0.38.0 // indirect
	golang.org/x/sys v0.31.0 // indirect
	golang.org/x/text v0.23.0 // indirect
)

replace github.com/nlnwa/gowarc/v2 => /repo
