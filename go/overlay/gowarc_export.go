//go:build verif

package gowarc

import "github.com/nlnwa/gowarc/v2/internal/diskbuffer"

// Exports for the /verif correspondence harness. This file is NOT part of /repo: it is compiled into the
// package through `go build -overlay` only, together with -tags verif.

func VerifNormalizeName(name string) string {
	n, _ := normalizeName(name)
	return n
}

// ---- diskbuffer (internal package) made reachable for the harness

type VerifBuffer = diskbuffer.Buffer
type VerifSlice = diskbuffer.Slice

func VerifNewBuffer(maxMem, hint int64, tmpDir string) VerifBuffer {
	opts := []diskbuffer.Option{diskbuffer.WithTmpDir(tmpDir)}
	if maxMem > 0 {
		opts = append(opts, diskbuffer.WithMaxMemBytes(maxMem))
	}
	if hint >= 0 {
		opts = append(opts, diskbuffer.WithMemBufferSizeHint(hint))
	}
	return diskbuffer.New(opts...)
}
