//go:build verif

package gowarc

// Exports for the /verif correspondence harness. This file is NOT part of /repo: it is compiled into the
// package through `go build -overlay` only, together with -tags verif.

func VerifNormalizeName(name string) string {
	n, _ := normalizeName(name)
	return n
}
