//go:build verif

package gowarc

import (
	"bufio"
	"errors"
	"io"
	"strings"
	"time"

	"github.com/nlnwa/gowarc/v2/internal/diskbuffer"
)

// Exports for the /verif correspondence harness. This file is NOT part of /repo: it is compiled into the
// package through `go build -overlay` only, together with -tags verif.

func VerifNormalizeName(name string) string {
	n, _ := normalizeName(name)
	return n
}

// ---- diskbuffer (internal package) made reachable for the harness

type VerifBuffer = diskbuffer.Buffer
type VerifSlice = diskbuffer.Slice

func VerifNewBuffer(maxMem, hint int64, tmpDir string) VerifBuffer {
	opts := []diskbuffer.Option{diskbuffer.WithTmpDir(tmpDir)}
	if maxMem > 0 {
		opts = append(opts, diskbuffer.WithMaxMemBytes(maxMem))
	}
	if hint >= 0 {
		opts = append(opts, diskbuffer.WithMemBufferSizeHint(hint))
	}
	return diskbuffer.New(opts...)
}

// ---- digest.go

// VerifDigest: parse a digest field value, feed data, report (name, normalised hash, encoding, valid, format()).
func VerifDigest(value string, dflt uint8, data []byte) (name, hash string, enc uint8, valid bool, format string, err error) {
	d, e := newDigest(value, digestEncoding(dflt))
	if e != nil {
		return "", "", 0, false, "", e
	}
	_, _ = d.Write(data)
	return d.name, d.hash, uint8(d.encoding), d.validate() == nil, d.format(), nil
}

func VerifEncode(enc uint8, alg string, data []byte) string {
	d, _ := newDigest(alg, digestEncoding(enc))
	_, _ = d.Write(data)
	return digestEncoding(enc).encode(d)
}

func VerifDecode(enc uint8, s string) ([]byte, error) { return digestEncoding(enc).decode(s) }

// ---- header parser

var ErrVerifFault = errors.New("verif: injected reader fault")

// VerifStream delivers data and then io.EOF, or — if Fault — ErrVerifFault on every further call (sticky).
type VerifStream struct {
	Data  []byte
	Fault bool
	Style int // 0 whole, 1 one byte at a time, 2 half of the request, 3 data together with the end condition
	pos   int
}

func (s *VerifStream) Read(p []byte) (int, error) {
	end := io.EOF
	if s.Fault {
		end = ErrVerifFault
	}
	if s.pos >= len(s.Data) {
		return 0, end
	}
	n := len(p)
	switch s.Style {
	case 1:
		n = 1
	case 2:
		n = (len(p) + 1) / 2
	}
	if n > len(s.Data)-s.pos {
		n = len(s.Data) - s.pos
	}
	copy(p, s.Data[s.pos:s.pos+n])
	s.pos += n
	if s.Style == 3 && s.pos >= len(s.Data) {
		return n, end
	}
	return n, nil
}

func (s *VerifStream) Remaining() int { return len(s.Data) - s.pos }

// VerifClassify maps an error of gowarc to the small class the correspondence compares.
func VerifClassify(err error) string {
	if err == nil {
		return "nil"
	}
	if err == io.EOF {
		return "eof"
	}
	if err == io.ErrUnexpectedEOF {
		return "reader" // a source that ended in the middle of something: same class as a failing reader
	}
	if strings.HasPrefix(err.Error(), "gzip:") || strings.HasPrefix(err.Error(), "flate:") {
		if strings.Contains(err.Error(), "invalid header") {
			return "other"
		}
		return "reader"
	}
	if strings.HasPrefix(err.Error(), "not a http block") {
		return "notHttp"
	}
	if errors.Is(err, ErrVerifFault) {
		return "reader"
	}
	if err == errEndOfHeaders {
		return "eoh"
	}
	msg := err.Error()
	var se *SyntaxError
	if errors.As(err, &se) {
		m := se.msg
		if m == "error in warc fields block" {
			return "wfBlock"
		}
		switch {
		case strings.HasPrefix(m, "missing carriage return"):
			return "synMissingCR"
		case m == "missing newline":
			return "synMissingNewline"
		case m == "error decoding line":
			return "synDecode"
		case strings.HasPrefix(m, "could not parse header line"):
			return "synMissingColon"
		case strings.HasPrefix(m, "record was found"):
			return "synJunk"
		case m == "expected start of record":
			return "synStart"
		case m == "missing record version":
			return "versionMissing"
		}
		return "other-syntax:" + m
	}
	var he *HeaderFieldError
	if errors.As(err, &he) {
		switch {
		case he.msg == "field occurs more than once":
			return "hdrDuplicate"
		case strings.HasPrefix(he.msg, "missing required field: "+ContentType):
			return "hdrMissingCT"
		case strings.HasPrefix(he.msg, "missing required field"):
			return "hdrMissing"
		case strings.HasPrefix(he.msg, "not allowed for record type"):
			return "hdrConcurrent"
		}
		return "hdrField"
	}
	switch {
	case msg == "missing End of WARC-Fields marker":
		return "missingEofMarker"
	case msg == "missing required field WARC-Type":
		return "hdrNoType"
	case strings.HasPrefix(msg, "unrecognized value"):
		return "hdrUnknownType"
	case strings.HasPrefix(msg, "unsupported WARC version"):
		return "specVersion"
	case strings.HasPrefix(msg, "content length mismatch"):
		return "length"
	case strings.HasPrefix(msg, "block: "):
		return "digestBlock"
	case strings.HasPrefix(msg, "payload: "):
		return "digestPayload"
	case strings.HasPrefix(msg, "unsupported digest algorithm"):
		return "digestAlg"
	case strings.HasPrefix(msg, "not a http block"):
		return "notHttp"
	case err == errMissingEndOfHeaders:
		return "httpEoh"
	case strings.HasPrefix(msg, "error in http"):
		return "httpParse"
	case strings.Contains(msg, "end of record marker") || strings.HasPrefix(msg, "unexpected end of record"):
		return "specTrailer"
	case strings.Contains(msg, "unexpected EOF"):
		return "reader"
	}
	return "other"
}

func VerifOptions(syn, spec, unk, blk int, extra ...WarcRecordOption) []WarcRecordOption {
	o := []WarcRecordOption{WithSyntaxErrorPolicy(errorPolicy(syn)), WithSpecViolationPolicy(errorPolicy(spec)),
		WithUnknownRecordTypePolicy(errorPolicy(unk)), WithBlockErrorPolicy(errorPolicy(blk))}
	return append(o, extra...)
}

// VerifParseFields runs warcfieldsParser.Parse.
func VerifParseFields(syn int, s *VerifStream) (pairs [][2]string, findings []string, rest int, errTag string) {
	p := &warcfieldsParser{Options: newOptions(WithSyntaxErrorPolicy(errorPolicy(syn)))}
	v := &Validation{}
	br := bufio.NewReaderSize(s, 16)
	wf, err := p.Parse(br, v, &position{})
	for _, e := range *v {
		findings = append(findings, VerifClassify(e))
	}
	if err != nil {
		return nil, findings, 0, VerifClassify(err)
	}
	for _, nv := range *wf {
		pairs = append(pairs, [2]string{nv.Name, nv.Value})
	}
	return pairs, findings, br.Buffered() + s.Remaining(), ""
}

// ---- records

func VerifBlockKind(b Block) string {
	switch b.(type) {
	case *genericBlock:
		return "generic"
	case *httpRequestBlock:
		return "httpReq"
	case *httpResponseBlock:
		return "httpResp"
	case *revisitBlock:
		return "revisit"
	case *warcFieldsBlock:
		return "warcFields"
	case nil:
		return "nil"
	}
	return "other"
}

func VerifPairs(wf *WarcFields) [][2]string {
	var p [][2]string
	if wf == nil {
		return p
	}
	for _, nv := range *wf {
		p = append(p, [2]string{nv.Name, nv.Value})
	}
	return p
}

func VerifEncodingOption(enc int) WarcRecordOption { return WithDefaultDigestEncoding(digestEncoding(enc)) }

func VerifVersion(txt string) *WarcVersion {
	if txt == "1.0" {
		return V1_0
	}
	return V1_1
}

func VerifVersionTxt(v *WarcVersion) string {
	if v == nil {
		return ""
	}
	return v.txt
}

// ---- validateHeader alone

func VerifValidateHeader(opts []WarcRecordOption, verTxt string, pairs [][2]string) (rt RecordType, after [][2]string, findings []string, errTag string) {
	o := newOptions(opts...)
	wf := &WarcFields{}
	for _, nv := range pairs {
		wf.Add(nv[0], nv[1])
	}
	var v *WarcVersion
	switch verTxt {
	case "1.0":
		v = V1_0
	case "1.1":
		v = V1_1
	default:
		v = &WarcVersion{txt: verTxt}
	}
	val := &Validation{}
	rt, err := validateHeader(wf, v, val, o)
	for _, e := range *val {
		findings = append(findings, VerifClassify(e))
	}
	if err != nil {
		errTag = VerifClassify(err)
	}
	return rt, VerifPairs(wf), findings, errTag
}

// ---- blocks constructed directly (the lazy digest state machine, incl. uncached sources)

type verifPlainReader struct{ r io.Reader }

func (p verifPlainReader) Read(b []byte) (int, error) { return p.r.Read(b) }

// VerifNewBlock builds a generic block (head == nil) or an http block over head+payload.
// cached: the source is a diskbuffer (seekable); otherwise a plain one-shot reader.
func VerifNewBlock(http bool, content []byte, cached bool, maxMem int64) (Block, error) {
	o := newOptions(WithBufferMaxMemBytes(maxMem))
	var src io.Reader
	if cached {
		buf := diskbuffer.New(o.bufferOptions...)
		_, _ = buf.Write(content)
		src = buf
	} else {
		src = verifPlainReader{strings.NewReader(string(content))}
	}
	bd, _ := newDigest("sha1", Base32)
	if !http {
		return newGenericBlock(o, src, bd), nil
	}
	pd, _ := newDigest("sha1", Base32)
	wf := &WarcFields{}
	v := &Validation{}
	return newHttpBlock(o, wf, src, bd, pd, v)
}

// VerifSetNow fixes the package clock (the `now` variable warcfile.go already keeps for its own tests).
func VerifSetNow(t time.Time) { now = func() time.Time { return t } }

// VerifSetHost fixes what the name generator takes for the node's IP address and host name (package variables that
// warcfile.go keeps for exactly this purpose).
func VerifSetHost(h, i string) {
	host = func() string { return h }
	hostOrIp = func() string { return h }
	ip = func() string { return i }
}
