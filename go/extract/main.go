// extract regenerates /verif/lean/Gowarc/Gen/*.lean from the Go sources of /repo.
//
// It is the "translator" half of the tie between the Lean model and the code: tables and
// synchronisation skeletons are read from the source with go/ast on every run, emitted as plain Lean
// data, and the theorems that mention the generated constants are re-checked against them.
// When a construct has changed shape the extractor refuses (exit 3) instead of guessing.
package main

import (
	"crypto/sha256"
	"encoding/hex"
	"encoding/json"
	"fmt"
	"go/ast"
	"go/parser"
	"go/printer"
	"go/token"
	"os"
	"path/filepath"
	"sort"
	"strconv"
	"strings"
)

type pkgInfo struct {
	fset   *token.FileSet
	files  map[string]*ast.File
	consts map[string]ast.Expr // package level const/var name -> value expression
}

func die(format string, a ...any) {
	fmt.Fprintf(os.Stderr, "extract: "+format+"\n", a...)
	os.Exit(3)
}

func load(dir string) *pkgInfo {
	p := &pkgInfo{fset: token.NewFileSet(), files: map[string]*ast.File{}, consts: map[string]ast.Expr{}}
	ents, err := os.ReadDir(dir)
	if err != nil {
		die("%v", err)
	}
	for _, e := range ents {
		n := e.Name()
		if e.IsDir() || !strings.HasSuffix(n, ".go") || strings.HasSuffix(n, "_test.go") {
			continue
		}
		f, err := parser.ParseFile(p.fset, filepath.Join(dir, n), nil, parser.ParseComments)
		if err != nil {
			die("parse %s: %v", n, err)
		}
		// honour build constraints of our own hook files: skip files guarded by the verif tag being ON
		skip := false
		for _, cg := range f.Comments {
			for _, c := range cg.List {
				if strings.HasPrefix(c.Text, "//go:build") && strings.Contains(c.Text, "verif") && !strings.Contains(c.Text, "!verif") {
					skip = true
				}
			}
		}
		if skip {
			continue
		}
		p.files[n] = f
		for _, d := range f.Decls {
			gd, ok := d.(*ast.GenDecl)
			if !ok || (gd.Tok != token.CONST && gd.Tok != token.VAR) {
				continue
			}
			for _, s := range gd.Specs {
				vs := s.(*ast.ValueSpec)
				for i, name := range vs.Names {
					if i < len(vs.Values) {
						p.consts[name.Name] = vs.Values[i]
					}
				}
			}
		}
	}
	return p
}

func (p *pkgInfo) src(n ast.Node) string {
	var sb strings.Builder
	_ = printer.Fprint(&sb, p.fset, n)
	return sb.String()
}

// evalString resolves an expression to a string constant.
func (p *pkgInfo) evalString(e ast.Expr) string {
	switch v := e.(type) {
	case *ast.BasicLit:
		if v.Kind == token.STRING {
			s, err := strconv.Unquote(v.Value)
			if err != nil {
				die("bad string literal %s", v.Value)
			}
			return s
		}
		if v.Kind == token.CHAR {
			s, err := strconv.Unquote(v.Value)
			if err != nil {
				die("bad char literal %s", v.Value)
			}
			return s
		}
	case *ast.Ident:
		if c, ok := p.consts[v.Name]; ok {
			return p.evalString(c)
		}
	case *ast.ParenExpr:
		return p.evalString(v.X)
	}
	die("cannot resolve string expression %s", p.src(e))
	return ""
}

// evalInt resolves an integer expression made of literals, named constants, |, *, +, and X.id selectors on
// WarcVersion variables.
func (p *pkgInfo) evalInt(e ast.Expr) int64 {
	switch v := e.(type) {
	case *ast.BasicLit:
		if v.Kind == token.INT {
			n, err := strconv.ParseInt(v.Value, 0, 64)
			if err != nil {
				die("bad int literal %s", v.Value)
			}
			return n
		}
	case *ast.Ident:
		if c, ok := p.consts[v.Name]; ok {
			return p.evalInt(c)
		}
	case *ast.ParenExpr:
		return p.evalInt(v.X)
	case *ast.BinaryExpr:
		a, b := p.evalInt(v.X), p.evalInt(v.Y)
		switch v.Op {
		case token.OR:
			return a | b
		case token.MUL:
			return a * b
		case token.ADD:
			return a + b
		case token.SUB:
			return a - b
		}
	case *ast.CallExpr: // conversions such as RecordType(1)
		if len(v.Args) == 1 {
			return p.evalInt(v.Args[0])
		}
	case *ast.SelectorExpr:
		// V1_0.id  -> look at composite literal &WarcVersion{id: 1, ...}
		if id, ok := v.X.(*ast.Ident); ok {
			if c, ok := p.consts[id.Name]; ok {
				if u, ok := c.(*ast.UnaryExpr); ok {
					c = u.X
				}
				if cl, ok := c.(*ast.CompositeLit); ok {
					for _, el := range cl.Elts {
						if kv, ok := el.(*ast.KeyValueExpr); ok {
							if k, ok := kv.Key.(*ast.Ident); ok && k.Name == v.Sel.Name {
								return p.evalInt(kv.Value)
							}
						}
					}
				}
			}
		}
	}
	die("cannot resolve integer expression %s", p.src(e))
	return 0
}

func (p *pkgInfo) funcDecl(name, recv string) *ast.FuncDecl {
	for _, f := range p.files {
		for _, d := range f.Decls {
			fd, ok := d.(*ast.FuncDecl)
			if !ok || fd.Name.Name != name {
				continue
			}
			r := ""
			if fd.Recv != nil && len(fd.Recv.List) == 1 {
				t := fd.Recv.List[0].Type
				if s, ok := t.(*ast.StarExpr); ok {
					t = s.X
				}
				if id, ok := t.(*ast.Ident); ok {
					r = id.Name
				}
			}
			if r == recv {
				return fd
			}
		}
	}
	return nil
}

func leanStr(s string) string {
	var sb strings.Builder
	sb.WriteByte('"')
	for _, r := range s {
		switch {
		case r == '"':
			sb.WriteString("\\\"")
		case r == '\\':
			sb.WriteString("\\\\")
		case r == '\n':
			sb.WriteString("\\n")
		case r == '\r':
			sb.WriteString("\\r")
		case r == '\t':
			sb.WriteString("\\t")
		case r < 32 || r > 126:
			die("non-ascii in extracted string %q", s)
		default:
			sb.WriteRune(r)
		}
	}
	sb.WriteByte('"')
	return sb.String()
}

func leanBool(b bool) string {
	if b {
		return "true"
	}
	return "false"
}

// ---------------------------------------------------------------------------------------------
// Gen/FieldTable.lean

func genFieldTable(p *pkgInfo) string {
	var sb strings.Builder
	sb.WriteString("-- GENERATED by /verif/go/extract from /repo/headerfielddef.go, record.go. Do not edit.\n")
	sb.WriteString("import Gowarc.Model.FieldDef\nnamespace Gowarc.Gen\n\n")

	fd, ok := p.consts["fieldDefs"].(*ast.CompositeLit)
	if !ok {
		die("fieldDefs is not a composite literal any more")
	}
	sb.WriteString("def fieldDefs : List FieldDef := [\n")
	// The rows are emitted in the order of their names: the Go code reaches a row through a map keyed by the lower-cased
	// name only (lcHdrNameToDef, filled by init from this slice; "" is the row for unknown fields), so the order of the
	// literal means nothing as long as no two rows have the same name: theorem C18_gen_names_nodup
	var rows []string
	var rowNames []string
	for i, el := range fd.Elts {
		cl, ok := el.(*ast.CompositeLit)
		if !ok || len(cl.Elts) != 5 {
			die("fieldDefs row %d has unexpected shape: %s", i, p.src(el))
		}
		name := p.evalString(cl.Elts[0])
		val, ok := cl.Elts[1].(*ast.Ident)
		if !ok {
			die("fieldDefs row %d: validator is not an identifier", i)
		}
		rep, ok := cl.Elts[2].(*ast.Ident)
		if !ok || (rep.Name != "true" && rep.Name != "false") {
			die("fieldDefs row %d: repeatable flag is not a literal", i)
		}
		rec := p.evalInt(cl.Elts[3])
		spec := p.evalInt(cl.Elts[4])
		rows = append(rows, fmt.Sprintf("  { name := %s, validator := %s, repeatable := %s, recMask := %d, specMask := %d }",
			leanStr(name), leanStr(val.Name), rep.Name, rec, spec))
		rowNames = append(rowNames, name)
	}
	order := make([]int, len(rows))
	for i := range order {
		order[i] = i
	}
	sort.SliceStable(order, func(a, b int) bool { return rowNames[order[a]] < rowNames[order[b]] })
	for k, i := range order {
		sep := ","
		if k == len(order)-1 {
			sep = ""
		}
		sb.WriteString(rows[i] + sep + "\n")
	}
	sb.WriteString("]\n\n")

	// validator bodies: classify each validation func by what it does after checkLegal.
	// kind: "none" (value returned as is), "legal" (only checkLegal), "legal+<check>"
	sb.WriteString("/-- validator identifier ↦ (calls checkLegal, value check performed when checkLegal says so) -/\n")
	sb.WriteString("def validators : List (String × Bool × String) := [\n")
	var vnames []string
	for name, e := range p.consts {
		if fl, ok := e.(*ast.FuncLit); ok && strings.HasPrefix(name, "p") && len(fl.Type.Params.List) >= 5 {
			vnames = append(vnames, name)
		}
	}
	sort.Strings(vnames)
	for i, name := range vnames {
		fl := p.consts[name].(*ast.FuncLit)
		body := p.src(fl.Body)
		legal := strings.Contains(body, "checkLegal(")
		check := "none"
		switch {
		case strings.Contains(body, "urlParser.Parse(value)"):
			check = "uri"
		case strings.Contains(body, "net.ParseIP(value)"):
			check = "ip"
		case strings.Contains(body, "time.Parse(time.RFC3339, value)"):
			check = "time"
		case strings.Contains(body, "strings.Trim(value, \"<>\")") && strings.Contains(body, "url.Parse(v)"):
			check = "warcid"
		case strings.Contains(body, "strconv.ParseUint(value, 10, strconv.IntSize-1)"):
			check = "uint"
		case strings.Contains(body, "strconv.ParseUint(value, 10, 63)"):
			check = "ulong"
		case strings.Contains(body, "strconv.Atoi(value)"):
			check = "atoi"
		case strings.Contains(body, "strconv.ParseInt(value, 0, 64)"):
			check = "parseint0"
		case strings.Contains(body, "strconv.") || strings.Contains(body, "Parse"):
			die("validator %s performs a check the extractor does not know: %s", name, body)
		}
		// shape of the result on error: returns "" (value erased by the caller?) is decided in validateHeader
		sep := ","
		if i == len(vnames)-1 {
			sep = ""
		}
		fmt.Fprintf(&sb, "  (%s, %s, %s)%s\n", leanStr(name), leanBool(legal), leanStr(check), sep)
	}
	sb.WriteString("]\n\n")

	rf, ok := p.consts["requiredFields"].(*ast.CompositeLit)
	if !ok {
		die("requiredFields is not a composite literal")
	}
	sb.WriteString("def requiredFields : List String := [")
	for i, el := range rf.Elts {
		if i > 0 {
			sb.WriteString(", ")
		}
		sb.WriteString(leanStr(p.evalString(el)))
	}
	sb.WriteString("]\n\n")

	// stringToRecordType switch
	f := p.funcDecl("stringToRecordType", "")
	if f == nil {
		die("stringToRecordType not found")
	}
	sb.WriteString("/-- arms of stringToRecordType -/\ndef stringToRecordType : List (String × Nat) := [")
	first := true
	ast.Inspect(f.Body, func(n ast.Node) bool {
		cc, ok := n.(*ast.CaseClause)
		if !ok || len(cc.List) == 0 {
			return true
		}
		if len(cc.Body) != 1 {
			die("stringToRecordType arm has unexpected body")
		}
		ret, ok := cc.Body[0].(*ast.ReturnStmt)
		if !ok || len(ret.Results) != 1 {
			die("stringToRecordType arm has unexpected body")
		}
		for _, l := range cc.List {
			if !first {
				sb.WriteString(", ")
			}
			first = false
			fmt.Fprintf(&sb, "(%s, %d)", leanStr(p.evalString(l)), p.evalInt(ret.Results[0]))
		}
		return true
	})
	sb.WriteString("]\n\n")

	f = p.funcDecl("String", "RecordType")
	if f == nil {
		die("RecordType.String not found")
	}
	sb.WriteString("/-- arms of RecordType.String -/\ndef recordTypeString : List (Nat × String) := [")
	first = true
	ast.Inspect(f.Body, func(n ast.Node) bool {
		cc, ok := n.(*ast.CaseClause)
		if !ok || len(cc.List) == 0 {
			return true
		}
		ret, ok := cc.Body[0].(*ast.ReturnStmt)
		if !ok || len(ret.Results) != 1 {
			die("RecordType.String arm has unexpected body")
		}
		for _, l := range cc.List {
			if !first {
				sb.WriteString(", ")
			}
			first = false
			fmt.Fprintf(&sb, "(%d, %s)", p.evalInt(l), leanStr(p.evalString(ret.Results[0])))
		}
		return true
	})
	sb.WriteString("]\n\n")

	// named record type constants
	sb.WriteString("def recordTypeConsts : List (String × Nat) := [")
	for i, n := range []string{"Warcinfo", "Response", "Resource", "Request", "Metadata", "Revisit", "Conversion", "Continuation"} {
		if i > 0 {
			sb.WriteString(", ")
		}
		if _, ok := p.consts[n]; !ok {
			die("record type constant %s missing", n)
		}
		fmt.Fprintf(&sb, "(%s, %d)", leanStr(n), p.evalInt(p.consts[n]))
	}
	sb.WriteString("]\n\n")

	// versions
	sb.WriteString("def versions : List (String × Nat) := [")
	for i, n := range []string{"V1_0", "V1_1"} {
		if i > 0 {
			sb.WriteString(", ")
		}
		c := p.consts[n]
		if u, ok := c.(*ast.UnaryExpr); ok {
			c = u.X
		}
		cl, ok := c.(*ast.CompositeLit)
		if !ok {
			die("%s is not a composite literal", n)
		}
		var id int64
		var txt string
		for _, el := range cl.Elts {
			kv := el.(*ast.KeyValueExpr)
			switch kv.Key.(*ast.Ident).Name {
			case "id":
				id = p.evalInt(kv.Value)
			case "txt":
				txt = p.evalString(kv.Value)
			}
		}
		fmt.Fprintf(&sb, "(%s, %d)", leanStr(txt), id)
	}
	sb.WriteString("]\n\n")

	for _, n := range []string{"sphtcrlf", "crlf", "crlfcrlf", "ApplicationWarcFields", "ApplicationHttp"} {
		if _, ok := p.consts[n]; !ok {
			die("constant %s missing", n)
		}
		fmt.Fprintf(&sb, "def c_%s : String := %s\n", n, leanStr(p.evalString(p.consts[n])))
	}
	for _, n := range []string{"cr", "lf", "sp", "ht"} {
		s := p.evalString(p.consts[n])
		fmt.Fprintf(&sb, "def c_%s : Nat := %d\n", n, s[0])
	}
	// which record types get an HTTP block: mask in parseBlock
	pb := p.funcDecl("parseBlock", "warcRecord")
	if pb == nil {
		die("parseBlock not found")
	}
	var httpMask int64 = -1
	ast.Inspect(pb.Body, func(n ast.Node) bool {
		be, ok := n.(*ast.BinaryExpr)
		if ok && be.Op == token.AND {
			if sel, ok := be.X.(*ast.SelectorExpr); ok && sel.Sel.Name == "recordType" {
				httpMask = p.evalInt(be.Y)
			}
		}
		return true
	})
	if httpMask < 0 {
		die("parseBlock: record type mask for http blocks not found")
	}
	fmt.Fprintf(&sb, "def httpBlockMask : Nat := %d\n", httpMask)
	sb.WriteString("\nend Gowarc.Gen\n")
	return sb.String()
}

// ---------------------------------------------------------------------------------------------
// Gen/Defaults.lean

func structLitFields(p *pkgInfo, fn *ast.FuncDecl) map[string]ast.Expr {
	out := map[string]ast.Expr{}
	var found bool
	ast.Inspect(fn.Body, func(n ast.Node) bool {
		ret, ok := n.(*ast.ReturnStmt)
		if !ok || len(ret.Results) != 1 {
			return true
		}
		cl, ok := ret.Results[0].(*ast.CompositeLit)
		if !ok {
			return true
		}
		found = true
		for _, el := range cl.Elts {
			kv, ok := el.(*ast.KeyValueExpr)
			if !ok {
				die("%s: positional struct literal", fn.Name.Name)
			}
			out[kv.Key.(*ast.Ident).Name] = kv.Value
		}
		return false
	})
	if !found {
		die("%s: no struct literal returned", fn.Name.Name)
	}
	return out
}

func genDefaults(p, db *pkgInfo) string {
	var sb strings.Builder
	sb.WriteString("-- GENERATED by /verif/go/extract from /repo/options.go, warcfile.go, internal/diskbuffer. Do not edit.\n")
	sb.WriteString("namespace Gowarc.Gen\n\n")
	fn := p.funcDecl("defaultWarcRecordOptions", "")
	if fn == nil {
		die("defaultWarcRecordOptions missing")
	}
	m := structLitFields(p, fn)
	pol := func(e ast.Expr) int64 { return p.evalInt(e) }
	boolOf := func(name string) string {
		e, ok := m[name]
		if !ok {
			return "false"
		}
		id, ok := e.(*ast.Ident)
		if !ok {
			die("default option %s is not a literal", name)
		}
		return id.Name
	}
	for _, n := range []string{"errSyntax", "errSpec", "errUnknownRecordType", "errBlock"} {
		e, ok := m[n]
		if !ok {
			die("default option %s missing", n)
		}
		fmt.Fprintf(&sb, "def d_%s : Nat := %d\n", n, pol(e))
	}
	for _, n := range []string{"skipParseBlock", "addMissingRecordId", "addMissingContentLength", "addMissingDigest", "fixContentLength", "fixDigest", "fixSyntaxErrors", "fixWarcFieldsBlockErrors"} {
		fmt.Fprintf(&sb, "def d_%s : Bool := %s\n", n, boolOf(n))
	}
	fmt.Fprintf(&sb, "def d_defaultDigestAlgorithm : String := %s\n", leanStr(p.evalString(m["defaultDigestAlgorithm"])))
	fmt.Fprintf(&sb, "def d_defaultDigestEncoding : Nat := %d\n", p.evalInt(m["defaultDigestEncoding"]))
	fmt.Fprintf(&sb, "def d_warcVersion : String := %s\n", leanStr(p.src(m["warcVersion"])))
	for _, n := range []string{"ErrIgnore", "ErrWarn", "ErrFail", "Base16", "Base32", "Base64"} {
		fmt.Fprintf(&sb, "def c_%s : Nat := %d\n", n, p.evalInt(p.consts[n]))
	}

	fn = p.funcDecl("defaultwarcFileWriterOptions", "")
	if fn == nil {
		die("defaultwarcFileWriterOptions missing")
	}
	m = structLitFields(p, fn)
	fmt.Fprintf(&sb, "def w_maxFileSize : Nat := %d\n", p.evalInt(m["maxFileSize"]))
	fmt.Fprintf(&sb, "def w_compress : Bool := %s\n", p.src(m["compress"]))
	fmt.Fprintf(&sb, "def w_compressSuffix : String := %s\n", leanStr(p.evalString(m["compressSuffix"])))
	fmt.Fprintf(&sb, "def w_openFileSuffix : String := %s\n", leanStr(p.evalString(m["openFileSuffix"])))
	fmt.Fprintf(&sb, "def w_maxConcurrentWriters : Nat := %d\n", p.evalInt(m["maxConcurrentWriters"]))
	fmt.Fprintf(&sb, "def w_defaultPattern : String := %s\n", leanStr(p.evalString(p.consts["defaultPattern"])))
	fmt.Fprintf(&sb, "def w_defaultExtension : String := %s\n", leanStr(p.evalString(p.consts["defaultExtension"])))

	fn = db.funcDecl("defaultOptions", "")
	if fn == nil {
		die("diskbuffer.defaultOptions missing")
	}
	m = structLitFields(db, fn)
	fmt.Fprintf(&sb, "def b_maxMemBytes : Nat := %d\n", db.evalInt(m["maxMemBytes"]))
	fmt.Fprintf(&sb, "def b_maxTotalBytes : Nat := %d\n", db.evalInt(m["maxTotalBytes"]))
	fmt.Fprintf(&sb, "def b_memBufferSizeHint : Nat := %d\n", db.evalInt(m["memBufferSizeHint"]))
	fmt.Fprintf(&sb, "def b_smallBufferSize : Nat := %d\n", db.evalInt(db.consts["smallBufferSize"]))
	fmt.Fprintf(&sb, "def b_MinRead : Nat := %d\n", db.evalInt(db.consts["MinRead"]))
	sb.WriteString("\nend Gowarc.Gen\n")
	return sb.String()
}

// ---------------------------------------------------------------------------------------------

// funcHashes: hash of the normalised source of every function (for change-directed search).
func funcHashes(pkgs map[string]*pkgInfo) map[string]string {
	out := map[string]string{}
	for pn, p := range pkgs {
		for _, f := range p.files {
			for _, d := range f.Decls {
				fd, ok := d.(*ast.FuncDecl)
				if !ok {
					continue
				}
				name := fd.Name.Name
				if fd.Recv != nil && len(fd.Recv.List) == 1 {
					t := fd.Recv.List[0].Type
					if s, ok := t.(*ast.StarExpr); ok {
						t = s.X
					}
					if id, ok := t.(*ast.Ident); ok {
						name = id.Name + "." + name
					}
				}
				h := sha256.Sum256([]byte(p.src(fd)))
				out[pn+"."+name] = hex.EncodeToString(h[:8])
			}
			// function-valued package variables (validators)
			for _, d := range f.Decls {
				gd, ok := d.(*ast.GenDecl)
				if !ok || gd.Tok != token.VAR {
					continue
				}
				for _, s := range gd.Specs {
					vs := s.(*ast.ValueSpec)
					for i, n := range vs.Names {
						if i < len(vs.Values) {
							h := sha256.Sum256([]byte(p.src(vs.Values[i])))
							out[pn+".var."+n.Name] = hex.EncodeToString(h[:8])
						}
					}
				}
			}
		}
	}
	return out
}

func writeIfChanged(path, content string) bool {
	old, err := os.ReadFile(path)
	if err == nil && string(old) == content {
		return false
	}
	if err := os.WriteFile(path, []byte(content), 0o644); err != nil {
		die("%v", err)
	}
	return true
}

func main() {
	repo := "/repo"
	out := "/verif/lean/Gowarc/Gen"
	if len(os.Args) > 1 {
		repo = os.Args[1]
	}
	if len(os.Args) > 2 {
		out = os.Args[2]
	}
	p := load(repo)
	db := load(filepath.Join(repo, "internal/diskbuffer"))
	_ = os.MkdirAll(out, 0o755)
	changed := []string{}
	gens := map[string]string{
		"FieldTable.lean":   genFieldTable(p),
		"Defaults.lean":     genDefaults(p, db),
		"PolicySites.lean":  genPolicySites(p),
		"SyncSkeleton.lean": genSyncSkeleton(p),
		"WriterSkeleton.lean": genWriterSkeleton(p),
		"UnmarshalSkeleton.lean": genUnmarshalSkeleton(p),
		"SharedAccess.lean": genSharedAccess(p, db),
	}
	names := []string{}
	for n := range gens {
		names = append(names, n)
	}
	sort.Strings(names)
	hashes := map[string]string{}
	for _, n := range names {
		if writeIfChanged(filepath.Join(out, n), gens[n]) {
			changed = append(changed, n)
		}
		h := sha256.Sum256([]byte(gens[n]))
		hashes[n] = hex.EncodeToString(h[:8])
	}
	res := map[string]any{
		"changed":     changed,
		"gen_hashes":  hashes,
		"func_hashes": funcHashes(map[string]*pkgInfo{"gowarc": p, "diskbuffer": db}),
	}
	b, _ := json.MarshalIndent(res, "", " ")
	fmt.Println(string(b))
}
