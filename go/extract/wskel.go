package main

import (
	"fmt"
	"go/ast"
	"strings"
)

// The file-effect skeleton of the per-file writer (warcfile.go singleWarcFileWriter): for write, writeRecord, createFile,
// createWarcInfoRecord and close, in syntactic order with nesting: every assignment to the writer's state fields
// (currentFile, currentFileName, currentFileSize, currentWarcInfoId) and to the fields of the response, every call that
// touches the file or hands control to user code or to another of these functions, every branch that contains one of those
// (with its condition) and every return. The sequential writer model `SW` (Model/Writer.lean) was written from this
// skeleton; `C04_writer_skeleton` states that the skeleton extracted now is still that one.

var wskelFuncs = []string{"write", "writeRecord", "createFile", "createWarcInfoRecord", "close"}

var wskelCalls = map[string]bool{"Truncate": true, "Seek": true, "Stat": true, "Sync": true, "Close": true, "Rename": true,
	"Marshal": true, "SetId": true, "NewWarcfileName": true, "OpenFile": true, "Reset": true, "createFile": true,
	"createWarcInfoRecord": true, "writeRecord": true, "write": true, "close": true, "afterFileCreationHook": true,
	"beforeFileCreationHook": true, "Build": true, "warcInfoFunc": true, "Size": true, "ParseInt": true, "Get": true, "GetId": true}

// calls whose arguments decide what happens to the file or what user code is told
var wskelArgs = map[string]bool{"Truncate": true, "Seek": true, "afterFileCreationHook": true, "SetId": true, "writeRecord": true, "write": true, "Rename": true}

var wskelState = []string{"w.currentFile", "w.currentFileName", "w.currentFileSize", "w.currentWarcInfoId", "response.", "res.",
	// how the name on disk is put together (generated name, compression suffix, directory, in-progress suffix) and taken apart again
	"suffix", "fileName", "path", "finalFileName"}

type skelCfg struct {
	calls, args map[string]bool
	state       []string
}

var writerCfg = &skelCfg{calls: wskelCalls, args: wskelArgs, state: wskelState}

// The same kind of skeleton for the record parser (unmarshaler.go Unmarshal, resolveRecordVersion): reads, peeks and
// discards on the stream, the gzip member handling, the calls into header parser / header validation / block parser /
// digest validation, every assignment to the outcome (record, offset, validation, err) and to the unmarshaler's own
// state, the policy switches and every return with its operands. The model `unmarshal` (Model/Record.lean) was written
// from it; `C05_unmarshal_skeleton` states that the skeleton extracted now is still that one.
var unmarshalCfg = &skelCfg{
	calls: map[string]bool{"Peek": true, "Discard": true, "ReadFull": true, "ReadBytes": true, "NewReader": true, "NewReaderSize": true, "Reset": true,
		"Multistream": true, "Close": true, "Copy": true, "NewLimited": true, "Parse": true, "validateHeader": true, "parseBlock": true,
		"ValidateDigest": true, "resolveRecordVersion": true, "addError": true, "GetInt64": true, "Errorf": true, "newSyntaxError": true},
	args:  map[string]bool{"Peek": true, "Discard": true, "NewLimited": true, "Copy": true, "parseBlock": true, "validateHeader": true, "Parse": true, "ReadBytes": true, "resolveRecordVersion": true},
	state: []string{"validation", "offset", "r", "isGzip", "err", "record", "record.", "u.", "magic", "l", "length", "content", "version"},
}

type wskel struct {
	p   *pkgInfo
	cfg *skelCfg
	out []string
}

func (s *wskel) emit(format string, a ...any) { s.out = append(s.out, fmt.Sprintf(format, a...)) }

func oneLine(x string) string { return strings.Join(strings.Fields(x), " ") }

func (s *wskel) calls(e ast.Expr) {
	if e == nil {
		return
	}
	ast.Inspect(e, func(n ast.Node) bool {
		if c, ok := n.(*ast.CallExpr); ok {
			for _, a := range c.Args {
				s.calls(a)
			}
			switch f := c.Fun.(type) {
			case *ast.SelectorExpr:
				s.calls(f.X)
				if s.cfg.calls[f.Sel.Name] {
					if s.cfg.args[f.Sel.Name] {
						var as []string
						for _, a := range c.Args {
							as = append(as, oneLine(s.p.src(a)))
						}
						s.emit("call %s.%s(%s)", oneLine(s.p.src(f.X)), f.Sel.Name, strings.Join(as, ", "))
					} else {
						s.emit("call %s.%s", oneLine(s.p.src(f.X)), f.Sel.Name)
					}
				}
			case *ast.Ident:
				if s.cfg.calls[f.Name] {
					if s.cfg.args[f.Name] {
						var as []string
						for _, a := range c.Args {
							as = append(as, oneLine(s.p.src(a)))
						}
						s.emit("call %s(%s)", f.Name, strings.Join(as, ", "))
					} else {
						s.emit("call %s", f.Name)
					}
				}
			}
			return false
		}
		return true
	})
}

func (s *wskel) isState(lhs string) bool {
	for _, p := range s.cfg.state {
		if lhs == p || (strings.HasSuffix(p, ".") && strings.HasPrefix(lhs, p)) {
			return true
		}
	}
	return false
}

func (s *wskel) stmt(st ast.Stmt) {
	switch v := st.(type) {
	case nil:
	case *ast.BlockStmt:
		s.block(v)
	case *ast.ExprStmt:
		s.calls(v.X)
	case *ast.AssignStmt:
		for _, r := range v.Rhs {
			s.calls(r)
		}
		var lhs []string
		state := false
		for _, l := range v.Lhs {
			t := oneLine(s.p.src(l))
			lhs = append(lhs, t)
			if s.isState(t) {
				state = true
			}
		}
		var rhs []string
		reads := false
		for _, r := range v.Rhs {
			t := oneLine(s.p.src(r))
			rhs = append(rhs, t)
			if strings.Contains(t, "w.currentFile") || strings.Contains(t, "w.currentWarcInfoId") {
				reads = true
			}
		}
		if state {
			s.emit("set %s %s %s", strings.Join(lhs, ", "), v.Tok.String(), strings.Join(rhs, ", "))
		} else if reads {
			// a local that captures a state field (e.g. the size handed to the hook after the field was reset)
			s.emit("let %s %s %s", strings.Join(lhs, ", "), v.Tok.String(), strings.Join(rhs, ", "))
		}
	case *ast.DeclStmt:
		if gd, ok := v.Decl.(*ast.GenDecl); ok {
			for _, sp := range gd.Specs {
				if vs, ok := sp.(*ast.ValueSpec); ok {
					for _, e := range vs.Values {
						s.calls(e)
					}
				}
			}
		}
	case *ast.DeferStmt:
		s.emit("defer[")
		s.calls(v.Call)
		s.emit("]")
	case *ast.ReturnStmt:
		var rs []string
		for _, r := range v.Results {
			s.calls(r)
			rs = append(rs, oneLine(s.p.src(r)))
		}
		s.emit("return %s", strings.Join(rs, ", "))
	case *ast.IfStmt:
		s.stmt(v.Init)
		before := len(s.out)
		s.emit("if %s [", oneLine(s.p.src(v.Cond)))
		mark := len(s.out)
		s.calls(v.Cond)
		condCalls := len(s.out) - mark
		s.block(v.Body)
		if v.Else != nil {
			s.emit("]else[")
			s.stmt(v.Else)
		}
		s.emit("]")
		// a branch that only returns an error it was handed, without touching the state, is error plumbing: keep the calls
		// of its condition, drop the branch
		inner := s.out[mark+condCalls : len(s.out)-1]
		plumbing := true
		for _, e := range inner {
			if !(strings.HasPrefix(e, "return") || e == "]else[") {
				plumbing = false
			}
		}
		if plumbing && isErrCond(oneLine(s.p.src(v.Cond))) {
			cc := append([]string{}, s.out[mark:mark+condCalls]...)
			s.out = append(s.out[:before], cc...)
			s.emit("onerr-return")
		} else {
			// a branch without any effect inside is data handling: keep the calls of its condition, drop the branch
			empty := true
			for _, e := range inner {
				if e != "]else[" {
					empty = false
				}
			}
			if empty {
				cc := append([]string{}, s.out[mark:mark+condCalls]...)
				s.out = append(s.out[:before], cc...)
			}
		}
	case *ast.ForStmt:
		cond := ""
		if v.Cond != nil {
			cond = oneLine(s.p.src(v.Cond))
		}
		s.emit("for %s [", cond)
		s.stmt(v.Init)
		s.calls(v.Cond)
		s.block(v.Body)
		s.stmt(v.Post)
		s.emit("]")
	case *ast.RangeStmt:
		s.emit("range[")
		s.block(v.Body)
		s.emit("]")
	case *ast.SwitchStmt:
		s.stmt(v.Init)
		tag := ""
		if v.Tag != nil {
			tag = oneLine(s.p.src(v.Tag))
		}
		s.emit("switch %s [", tag)
		s.block(v.Body)
		s.emit("]")
	case *ast.CaseClause:
		var cs []string
		for _, e := range v.List {
			cs = append(cs, oneLine(s.p.src(e)))
		}
		if v.List == nil {
			cs = []string{"default"}
		}
		s.emit("case %s [", strings.Join(cs, ", "))
		for _, b := range v.Body {
			s.stmt(b)
		}
		s.emit("]")
	case *ast.IncDecStmt:
		if t := oneLine(s.p.src(v.X)); s.isState(t) {
			s.emit("set %s %s", t, v.Tok.String())
		}
	}
}

func isErrCond(c string) bool {
	return c == "err != nil" || strings.HasSuffix(c, "; err != nil") || c == "response.Err != nil" || strings.HasSuffix(c, "response.Err != nil")
}

func (s *wskel) block(b *ast.BlockStmt) {
	if b == nil {
		return
	}
	for _, st := range b.List {
		s.stmt(st)
	}
}

func genWriterSkeleton(p *pkgInfo) string {
	var sb strings.Builder
	sb.WriteString("-- GENERATED by /verif/go/extract from /repo/warcfile.go: do not edit\nnamespace Gowarc.Gen\n\n")
	sb.WriteString("/-- function of singleWarcFileWriter ↦ its file and state effects in syntactic order -/\ndef writerSkeleton : List (String × List String) := [\n")
	for i, fn := range wskelFuncs {
		fd := p.funcDecl(fn, "singleWarcFileWriter")
		var evs []string
		if fd != nil {
			s := &wskel{p: p, cfg: writerCfg}
			s.block(fd.Body)
			evs = s.out
		} else {
			evs = []string{"absent"}
		}
		q := make([]string, len(evs))
		for j, e := range evs {
			q[j] = leanStr(e)
		}
		sep := ","
		if i == len(wskelFuncs)-1 {
			sep = ""
		}
		fmt.Fprintf(&sb, "  (%s, [%s])%s\n", leanStr(fn), strings.Join(q, ",\n    "), sep)
	}
	sb.WriteString("]\n\nend Gowarc.Gen\n")
	return sb.String()
}

func genUnmarshalSkeleton(p *pkgInfo) string {
	var sb strings.Builder
	sb.WriteString("-- GENERATED by /verif/go/extract from /repo/unmarshaler.go: do not edit\nnamespace Gowarc.Gen\n\n")
	sb.WriteString("/-- function of unmarshaler ↦ its stream operations, calls, outcome assignments, policy switches and returns in syntactic order -/\ndef unmarshalSkeleton : List (String × List String) := [\n")
	fns := []string{"Unmarshal", "resolveRecordVersion"}
	for i, fn := range fns {
		fd := p.funcDecl(fn, "unmarshaler")
		var evs []string
		if fd != nil {
			s := &wskel{p: p, cfg: unmarshalCfg}
			s.block(fd.Body)
			evs = s.out
		} else {
			evs = []string{"absent"}
		}
		q := make([]string, len(evs))
		for j, e := range evs {
			q[j] = leanStr(e)
		}
		sep := ","
		if i == len(fns)-1 {
			sep = ""
		}
		fmt.Fprintf(&sb, "  (%s, [%s])%s\n", leanStr(fn), strings.Join(q, ",\n    "), sep)
	}
	sb.WriteString("]\n\nend Gowarc.Gen\n")
	return sb.String()
}
