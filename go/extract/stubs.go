package main

func genSyncSkeleton(p *pkgInfo) string {
	return "-- GENERATED (stub)\nnamespace Gowarc.Gen\nend Gowarc.Gen\n"
}
func genSharedAccess(p, db *pkgInfo) string {
	return "-- GENERATED (stub)\nnamespace Gowarc.Gen\nend Gowarc.Gen\n"
}
