package main

func genSharedAccess(p, db *pkgInfo) string {
	return "-- GENERATED (stub)\nnamespace Gowarc.Gen\nend Gowarc.Gen\n"
}
