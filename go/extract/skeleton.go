package main

import (
	"fmt"
	"go/ast"
	"go/token"
	"strings"
)

// The synchronisation skeleton of warcfile.go: for each function of the writer's protocol the channel operations, selects,
// closes, lock and wait-group operations, goroutine starts, calls into the other protocol functions and returns, in
// syntactic order with their nesting. Everything else (data handling) is dropped. The Lean model `Proto` was written
// from this skeleton; `C10_skeleton` states that the skeleton extracted now is still that one.

var skeletonFuncs = [][2]string{
	{"NewWarcFileWriter", ""}, {"worker", ""}, {"Write", "WarcFileWriter"}, {"createWriteJob", "WarcFileWriter"},
	{"Rotate", "WarcFileWriter"}, {"Close", "WarcFileWriter"},
	{"Write", "singleWarcFileWriter"}, {"write", "singleWarcFileWriter"}, {"Close", "singleWarcFileWriter"},
	{"close", "singleWarcFileWriter"}, {"writeRecord", "singleWarcFileWriter"},
}

var protoCalls = map[string]bool{"Write": true, "write": true, "Close": true, "close": true, "exit": true, "worker": true,
	"createWriteJob": true, "writeRecord": true, "createFile": true, "createWarcInfoRecord": true}

type skel struct {
	p   *pkgInfo
	out []string
}

func (s *skel) emit(format string, a ...any) { s.out = append(s.out, fmt.Sprintf(format, a...)) }

func (s *skel) expr(e ast.Expr) {
	if e == nil {
		return
	}
	ast.Inspect(e, func(n ast.Node) bool {
		switch v := n.(type) {
		case *ast.FuncLit:
			s.emit("func[")
			s.block(v.Body)
			s.emit("]")
			return false
		case *ast.UnaryExpr:
			if v.Op == token.ARROW {
				s.emit("recv %s", s.p.src(v.X))
			}
		case *ast.CallExpr:
			switch f := v.Fun.(type) {
			case *ast.Ident:
				switch f.Name {
				case "close":
					s.emit("close %s", s.p.src(v.Args[0]))
				case "make":
					if len(v.Args) > 0 {
						if ct, ok := v.Args[0].(*ast.ChanType); ok {
							buf := "0"
							if len(v.Args) > 1 {
								buf = s.p.src(v.Args[1])
							}
							s.emit("makechan %s buffered=%s", s.p.src(ct.Value), buf)
						}
					}
				default:
					if protoCalls[f.Name] {
						for _, a := range v.Args {
							s.expr(a)
						}
						s.emit("call %s", f.Name)
						return false
					}
				}
			case *ast.SelectorExpr:
				recv := s.p.src(f.X)
				switch f.Sel.Name {
				case "Lock", "Unlock", "RLock", "RUnlock":
					s.emit("%s %s", strings.ToLower(f.Sel.Name), recv)
				case "Add", "Done", "Wait":
					if strings.Contains(recv, "shutWriters") {
						s.emit("wg.%s %s", strings.ToLower(f.Sel.Name), recv)
					}
				default:
					if protoCalls[f.Sel.Name] && (strings.HasPrefix(recv, "w") || recv == "writer") && f.Sel.Name != "Write" || (f.Sel.Name == "Write" && (recv == "w" || recv == "writer")) {
						for _, a := range v.Args {
							s.expr(a)
						}
						s.emit("call %s.%s", recv, f.Sel.Name)
						return false
					}
				}
			}
		}
		return true
	})
}

func (s *skel) stmt(st ast.Stmt) {
	switch v := st.(type) {
	case nil:
	case *ast.BlockStmt:
		s.block(v)
	case *ast.ExprStmt:
		s.expr(v.X)
	case *ast.SendStmt:
		s.expr(v.Value)
		s.emit("send %s", s.p.src(v.Chan))
	case *ast.AssignStmt:
		for _, r := range v.Rhs {
			s.expr(r)
		}
	case *ast.DeclStmt:
		if gd, ok := v.Decl.(*ast.GenDecl); ok {
			for _, sp := range gd.Specs {
				if vs, ok := sp.(*ast.ValueSpec); ok {
					for _, e := range vs.Values {
						s.expr(e)
					}
				}
			}
		}
	case *ast.GoStmt:
		s.emit("go[")
		s.expr(v.Call)
		s.emit("]")
	case *ast.DeferStmt:
		s.emit("defer[")
		s.expr(v.Call)
		s.emit("]")
	case *ast.ReturnStmt:
		for _, r := range v.Results {
			s.expr(r)
		}
		if len(v.Results) == 1 {
			if id, ok := v.Results[0].(*ast.Ident); ok && id.Name == "nil" {
				s.emit("return nil")
				return
			}
		}
		s.emit("return")
	case *ast.IfStmt:
		s.stmt(v.Init)
		before := len(s.out)
		s.emit("if[")
		s.expr(v.Cond)
		s.block(v.Body)
		if v.Else != nil {
			s.emit("]else[")
			s.stmt(v.Else)
		}
		s.emit("]")
		// an if without any synchronisation inside is data handling: drop it
		if !hasSync(s.out[before:]) {
			s.out = s.out[:before]
		}
	case *ast.ForStmt:
		before := len(s.out)
		s.emit("for[")
		s.stmt(v.Init)
		s.expr(v.Cond)
		s.block(v.Body)
		s.stmt(v.Post)
		s.emit("]")
		if !hasSync(s.out[before:]) {
			s.out = s.out[:before]
		}
	case *ast.RangeStmt:
		before := len(s.out)
		s.emit("range %s[", s.p.src(v.X))
		s.block(v.Body)
		s.emit("]")
		if !hasSync(s.out[before+1:]) && !strings.Contains(s.p.src(v.X), "jobs") {
			s.out = s.out[:before]
		}
	case *ast.SelectStmt:
		s.emit("select[")
		for _, c := range v.Body.List {
			cc := c.(*ast.CommClause)
			if cc.Comm == nil {
				s.emit("default[")
			} else {
				s.emit("case[")
				s.stmt(cc.Comm)
				s.emit("]then[")
			}
			for _, b := range cc.Body {
				s.stmt(b)
			}
			s.emit("]")
		}
		s.emit("]")
	case *ast.SwitchStmt:
		s.stmt(v.Init)
		s.block(v.Body)
	case *ast.CaseClause:
		for _, b := range v.Body {
			s.stmt(b)
		}
	case *ast.LabeledStmt:
		s.stmt(v.Stmt)
	}
}

func hasSync(l []string) bool {
	for _, e := range l {
		switch {
		case strings.HasPrefix(e, "if["), strings.HasPrefix(e, "]"), strings.HasPrefix(e, "for["), e == "return", e == "return nil":
		default:
			return true
		}
	}
	return false
}

func (s *skel) block(b *ast.BlockStmt) {
	if b == nil {
		return
	}
	for _, st := range b.List {
		s.stmt(st)
	}
}

func genSyncSkeleton(p *pkgInfo) string {
	var sb strings.Builder
	sb.WriteString("-- GENERATED by /verif/go/extract from /repo/warcfile.go: do not edit\nnamespace Gowarc.Gen\n\n")
	sb.WriteString("/-- function ↦ its synchronisation events in syntactic order -/\ndef syncSkeleton : List (String × List String) := [\n")
	for i, fn := range skeletonFuncs {
		fd := p.funcDecl(fn[0], fn[1])
		name := fn[0]
		if fn[1] != "" {
			name = fn[1] + "." + fn[0]
		}
		var evs []string
		if fd != nil {
			s := &skel{p: p}
			s.block(fd.Body)
			evs = s.out
		} else {
			evs = []string{"absent"}
		}
		q := make([]string, len(evs))
		for j, e := range evs {
			q[j] = leanStr(e)
		}
		sep := ","
		if i == len(skeletonFuncs)-1 {
			sep = ""
		}
		fmt.Fprintf(&sb, "  (%s, [%s])%s\n", leanStr(name), strings.Join(q, ", "), sep)
	}
	sb.WriteString("]\n\nend Gowarc.Gen\n")
	return sb.String()
}
