package main

import (
	"fmt"
	"go/ast"
	"go/token"
	"sort"
	"strings"
)

// The shared-access table for C11: everything in gowarc (and diskbuffer) that more than one goroutine of a supported
// client program can touch, with the facts the lock discipline is checked against.

type sharedTab struct {
	pkgVarWrites   [][3]string // package, variable, function that assigns to it (outside its declaration)
	writerWrites   [][2]string // field of singleWarcFileWriter, method that assigns it
	writerReads    [][2]string // field of singleWarcFileWriter, method (or its unlocked part "m!") that reads it
	lockHolders    []string    // methods of singleWarcFileWriter that take writeLock
	innerCalls     [][2]string // caller method -> callee method, both of singleWarcFileWriter
	outerCalls     [][2]string // function outside the type -> method of singleWarcFileWriter it calls
	unsafeExternal [][2]string // function, external call that is documented as not safe for concurrent use
	genWrites      [][2]string // field of PatternNameGenerator, method that assigns it non-atomically
	wfwWrites      [][2]string // field of WarcFileWriter, function that assigns it (other than the constructor)
	readerWrites   [][2]string // field of WarcFileReader, method that assigns it
	optsWrites     [][2]string // field of an options object reached through a `.opts` field, function that assigns it
	poolPuts       [][3]string // function, pool, "niled"/"kept": is the reference dropped right after Put
	splitMethods   []string    // lock holders with statements outside the locked region: "m!" is entered whenever "m" is
}

var unsafeExternals = map[string]bool{"uuid.EnableRandPool": true, "uuid.DisableRandPool": true, "uuid.SetRand": true, "uuid.SetNodeID": true,
	"uuid.SetNodeInterface": true, "uuid.SetClockSequence": true, "rand.Seed": true}

func recvOf(fd *ast.FuncDecl) (name, typ string) {
	if fd.Recv == nil || len(fd.Recv.List) != 1 {
		return "", ""
	}
	t := fd.Recv.List[0].Type
	if s, ok := t.(*ast.StarExpr); ok {
		t = s.X
	}
	if id, ok := t.(*ast.Ident); ok {
		typ = id.Name
	}
	if len(fd.Recv.List[0].Names) == 1 {
		name = fd.Recv.List[0].Names[0].Name
	}
	return
}

func rootIdent(e ast.Expr) *ast.Ident {
	for {
		switch v := e.(type) {
		case *ast.Ident:
			return v
		case *ast.SelectorExpr:
			e = v.X
		case *ast.IndexExpr:
			e = v.X
		case *ast.StarExpr:
			e = v.X
		case *ast.ParenExpr:
			e = v.X
		default:
			return nil
		}
	}
}

func localNames(fd *ast.FuncDecl) map[string]bool {
	m := map[string]bool{}
	add := func(fl *ast.FieldList) {
		if fl == nil {
			return
		}
		for _, f := range fl.List {
			for _, n := range f.Names {
				m[n.Name] = true
			}
		}
	}
	add(fd.Recv)
	add(fd.Type.Params)
	add(fd.Type.Results)
	ast.Inspect(fd.Body, func(n ast.Node) bool {
		switch v := n.(type) {
		case *ast.AssignStmt:
			if v.Tok == token.DEFINE {
				for _, l := range v.Lhs {
					if id, ok := l.(*ast.Ident); ok {
						m[id.Name] = true
					}
				}
			}
		case *ast.ValueSpec:
			for _, id := range v.Names {
				m[id.Name] = true
			}
		case *ast.RangeStmt:
			if v.Tok == token.DEFINE {
				if id, ok := v.Key.(*ast.Ident); ok {
					m[id.Name] = true
				}
				if id, ok := v.Value.(*ast.Ident); ok {
					m[id.Name] = true
				}
			}
		case *ast.FuncLit:
			if v.Type.Params != nil {
				for _, f := range v.Type.Params.List {
					for _, n := range f.Names {
						m[n.Name] = true
					}
				}
			}
		}
		return true
	})
	return m
}

func collectShared(pkgName string, p *pkgInfo, t *sharedTab) {
	pkgVars := map[string]bool{}
	for _, f := range p.files {
		for _, d := range f.Decls {
			if gd, ok := d.(*ast.GenDecl); ok && gd.Tok == token.VAR {
				for _, s := range gd.Specs {
					for _, n := range s.(*ast.ValueSpec).Names {
						pkgVars[n.Name] = true
					}
				}
			}
		}
	}
	fnames := make([]string, 0, len(p.files))
	for n := range p.files {
		fnames = append(fnames, n)
	}
	sort.Strings(fnames)
	// the methods and the fields of the per-file writer: every call among the methods and every access to a field counts,
	// whatever the names are
	swMethods := map[string]bool{}
	swFields := map[string]bool{}
	for _, fname := range fnames {
		for _, d := range p.files[fname].Decls {
			switch v := d.(type) {
			case *ast.FuncDecl:
				if _, rt := recvOf(v); rt == "singleWarcFileWriter" {
					swMethods[v.Name.Name] = true
				}
			case *ast.GenDecl:
				for _, sp := range v.Specs {
					if ts, ok := sp.(*ast.TypeSpec); ok && ts.Name.Name == "singleWarcFileWriter" {
						if st, ok := ts.Type.(*ast.StructType); ok {
							for _, f := range st.Fields.List {
								for _, n := range f.Names {
									swFields[n.Name] = true
								}
							}
						}
					}
				}
			}
		}
	}
	for _, fname := range fnames {
		for _, d := range p.files[fname].Decls {
			fd, ok := d.(*ast.FuncDecl)
			if !ok || fd.Body == nil {
				continue
			}
			rname, rtype := recvOf(fd)
			fn := fd.Name.Name
			if rtype != "" {
				fn = rtype + "." + fd.Name.Name
			}
			locals := localNames(fd)
			// which part of a method of the per-file writer runs under writeLock: canonical form is Lock() directly followed
			// by defer Unlock(); with an explicit Unlock() the statements before Lock() and after Unlock() form the
			// unlocked part of the method, reported under the name "<method>!"
			unlockedPart := map[ast.Node]bool{}
			hasUnlockedPart := false
			if rtype == "singleWarcFileWriter" {
				isLockCall := func(st ast.Stmt, name string, deferred bool) bool {
					var call *ast.CallExpr
					switch v := st.(type) {
					case *ast.ExprStmt:
						if deferred {
							return false
						}
						call, _ = v.X.(*ast.CallExpr)
					case *ast.DeferStmt:
						if !deferred {
							return false
						}
						call = v.Call
					}
					if call == nil {
						return false
					}
					sel, ok := call.Fun.(*ast.SelectorExpr)
					return ok && sel.Sel.Name == name && strings.HasSuffix(p.src(sel.X), "writeLock")
				}
				takesLock := false
				ast.Inspect(fd.Body, func(n ast.Node) bool {
					if c, ok := n.(*ast.CallExpr); ok {
						if sel, ok := c.Fun.(*ast.SelectorExpr); ok && sel.Sel.Name == "Lock" && strings.HasSuffix(p.src(sel.X), "writeLock") {
							takesLock = true
						}
					}
					return true
				})
				if takesLock {
					held, forGood := false, false
					for _, st := range fd.Body.List {
						switch {
						case isLockCall(st, "Lock", false):
							held = true
						case isLockCall(st, "Unlock", true):
							if held {
								forGood = true
							}
						case isLockCall(st, "Unlock", false):
							if !forGood {
								held = false
							}
						default:
							if !held {
								unlockedPart[st] = true
								hasUnlockedPart = true
							}
						}
					}
					if !held && !forGood && !hasUnlockedPart {
						// Lock() somewhere in a nested block only: nothing is known to be covered
						for _, st := range fd.Body.List {
							unlockedPart[st] = true
						}
						hasUnlockedPart = true
					}
				}
			}
			// the name under which an access or a call at node n is reported
			var curStmt ast.Stmt
			here := func() string {
				if curStmt != nil && unlockedPart[curStmt] {
					return fd.Name.Name + "!"
				}
				return fd.Name.Name
			}
			_ = hasUnlockedPart
			lhsNodes := map[ast.Node]bool{}
			written := func(lhs ast.Expr) {
				id := rootIdent(lhs)
				if id == nil {
					return
				}
				if pkgVars[id.Name] && !locals[id.Name] {
					t.pkgVarWrites = append(t.pkgVarWrites, [3]string{pkgName, id.Name, fn})
				}
				// x.opts.f = ... : the options object is shared by a reader / unmarshaler / builder and every record it produces
				if sel, ok := lhs.(*ast.SelectorExpr); ok {
					if inner, ok := sel.X.(*ast.SelectorExpr); ok && inner.Sel.Name == "opts" && pkgName == "gowarc" {
						t.optsWrites = append(t.optsWrites, [2]string{sel.Sel.Name, fn})
					}
				}
				if sel, ok := lhs.(*ast.SelectorExpr); ok && id.Name == rname && rname != "" {
					if x, ok := sel.X.(*ast.Ident); ok && x.Name == rname {
						switch rtype {
						case "singleWarcFileWriter":
							t.writerWrites = append(t.writerWrites, [2]string{sel.Sel.Name, here()})
							lhsNodes[sel] = true
						case "PatternNameGenerator":
							t.genWrites = append(t.genWrites, [2]string{sel.Sel.Name, fd.Name.Name})
						case "WarcFileWriter":
							t.wfwWrites = append(t.wfwWrites, [2]string{sel.Sel.Name, fd.Name.Name})
						case "WarcFileReader":
							t.readerWrites = append(t.readerWrites, [2]string{sel.Sel.Name, fd.Name.Name})
						}
					}
				}
			}
			var walkBlock func(stmts []ast.Stmt)
			walkBlock = func(stmts []ast.Stmt) {
				for i, st := range stmts {
					// pool puts and whether the next statement drops the reference
					if es, ok := st.(*ast.ExprStmt); ok {
						if call, ok := es.X.(*ast.CallExpr); ok {
							if sel, ok := call.Fun.(*ast.SelectorExpr); ok && sel.Sel.Name == "Put" && len(call.Args) == 1 {
								if id, ok := sel.X.(*ast.Ident); ok && pkgVars[id.Name] {
									arg := p.src(call.Args[0])
									state := "kept"
									for _, nx := range stmts[i+1:] {
										if as, ok := nx.(*ast.AssignStmt); ok && len(as.Lhs) == 1 && p.src(as.Lhs[0]) == arg && p.src(as.Rhs[0]) == "nil" {
											state = "niled"
										}
									}
									if _, isIdent := call.Args[0].(*ast.Ident); isIdent {
										state = "niled" // a local variable: the reference dies with the function
									}
									t.poolPuts = append(t.poolPuts, [3]string{fn, id.Name, state})
								}
							}
						}
					}
				}
			}
			topLevel := map[ast.Node]bool{}
			for _, st := range fd.Body.List {
				topLevel[st] = true
			}
			ast.Inspect(fd.Body, func(n ast.Node) bool {
				if st, ok := n.(ast.Stmt); ok && topLevel[st] {
					curStmt = st
				}
				switch v := n.(type) {
				case *ast.SelectorExpr:
					// a field of the per-file writer that is read (the assigned ones were noted when their statement was visited)
					if rtype == "singleWarcFileWriter" && rname != "" && swFields[v.Sel.Name] && !lhsNodes[v] {
						if x, ok := v.X.(*ast.Ident); ok && x.Name == rname {
							t.writerReads = append(t.writerReads, [2]string{v.Sel.Name, here()})
						}
					}
				case *ast.BlockStmt:
					walkBlock(v.List)
				case *ast.AssignStmt:
					if v.Tok != token.DEFINE {
						for _, l := range v.Lhs {
							written(l)
						}
					}
				case *ast.IncDecStmt:
					written(v.X)
				case *ast.CallExpr:
					// delete(m, k), clear(x), copy(x, …) and the in-place sorts change the object their first argument holds
					if f, ok := v.Fun.(*ast.Ident); ok && len(v.Args) > 0 && (f.Name == "delete" || f.Name == "clear" || f.Name == "copy") {
						written(v.Args[0])
					}
					if sel, ok := v.Fun.(*ast.SelectorExpr); ok && len(v.Args) > 0 {
						if x, ok := sel.X.(*ast.Ident); ok && (x.Name == "sort" || x.Name == "slices") && !locals[x.Name] &&
							(strings.HasPrefix(sel.Sel.Name, "Sort") || sel.Sel.Name == "Strings" || sel.Sel.Name == "Ints" || sel.Sel.Name == "Slice" || sel.Sel.Name == "SliceStable" || sel.Sel.Name == "Stable" || sel.Sel.Name == "Reverse") {
							written(v.Args[0])
						}
					}
					if sel, ok := v.Fun.(*ast.SelectorExpr); ok {
						if x, ok := sel.X.(*ast.Ident); ok {
							full := x.Name + "." + sel.Sel.Name
							if unsafeExternals[full] && !locals[x.Name] {
								t.unsafeExternal = append(t.unsafeExternal, [2]string{fn, full})
							}
							// calls on / into singleWarcFileWriter
							if rtype == "singleWarcFileWriter" && x.Name == rname {
								if swMethods[sel.Sel.Name] {
									t.innerCalls = append(t.innerCalls, [2]string{here(), sel.Sel.Name})
								}
							} else if rtype != "singleWarcFileWriter" && pkgName == "gowarc" && swMethods[sel.Sel.Name] {
								if ast.IsExported(sel.Sel.Name) {
									// exported names are shared with other types: only receivers known to be per-file writers count
									if x.Name == "writer" || (fd.Name.Name == "worker" && x.Name == "w") {
										t.outerCalls = append(t.outerCalls, [2]string{fn, sel.Sel.Name})
									}
								} else if x.Name != rname {
									// unexported names that only singleWarcFileWriter has: any receiver expression counts
									t.outerCalls = append(t.outerCalls, [2]string{fn, sel.Sel.Name})
								}
							}
						}
						// lock holders
						if rtype == "singleWarcFileWriter" && sel.Sel.Name == "Lock" && strings.HasSuffix(p.src(sel.X), "writeLock") {
							t.lockHolders = append(t.lockHolders, fd.Name.Name)
							if hasUnlockedPart {
								t.splitMethods = append(t.splitMethods, fd.Name.Name)
							}
						}
					}
				}
				return true
			})
		}
	}
}

func leanPairs(l [][2]string) string {
	q := make([]string, len(l))
	for i, e := range l {
		q[i] = fmt.Sprintf("(%s, %s)", leanStr(e[0]), leanStr(e[1]))
	}
	return "[" + strings.Join(q, ", ") + "]"
}

func leanTriples(l [][3]string) string {
	q := make([]string, len(l))
	for i, e := range l {
		q[i] = fmt.Sprintf("(%s, %s, %s)", leanStr(e[0]), leanStr(e[1]), leanStr(e[2]))
	}
	return "[" + strings.Join(q, ", ") + "]"
}

func uniq2(l [][2]string) [][2]string {
	seen := map[[2]string]bool{}
	var out [][2]string
	for _, e := range l {
		if !seen[e] {
			seen[e] = true
			out = append(out, e)
		}
	}
	return out
}

// pkgObjects: package-level variables that hold an OBJECT (their initialiser is a call, a composite literal or the address
// of one): state shared by every goroutine that uses the package. Recorded as (package, variable, how it is made); the
// discipline allows only makers whose results are immutable or documented as safe for concurrent use.
func collectPkgObjects(pkgName string, p *pkgInfo) [][3]string {
	var out [][3]string
	for _, f := range p.files {
		for _, d := range f.Decls {
			gd, ok := d.(*ast.GenDecl)
			if !ok || gd.Tok != token.VAR {
				continue
			}
			for _, sp := range gd.Specs {
				vs := sp.(*ast.ValueSpec)
				for i, n := range vs.Names {
					if i >= len(vs.Values) || n.Name == "_" {
						continue
					}
					e := vs.Values[i]
					if u, ok := e.(*ast.UnaryExpr); ok && u.Op == token.AND {
						e = u.X
					}
					kind := ""
					switch v := e.(type) {
					case *ast.CallExpr:
						kind = "call " + strings.Join(strings.Fields(p.src(v.Fun)), "")
					case *ast.CompositeLit:
						kind = "lit " + strings.Join(strings.Fields(p.src(v.Type)), "")
					}
					if kind != "" {
						out = append(out, [3]string{pkgName, n.Name, kind})
					}
				}
			}
		}
	}
	sort.SliceStable(out, func(i, j int) bool { return out[i][1] < out[j][1] })
	return out
}

func genSharedAccess(p, db *pkgInfo) string {
	t := &sharedTab{}
	collectShared("gowarc", p, t)
	collectShared("diskbuffer", db, t)
	var lh []string
	seen := map[string]bool{}
	for _, x := range t.lockHolders {
		if !seen[x] {
			seen[x] = true
			lh = append(lh, leanStr(x))
		}
	}
	// whoever enters a method with an unlocked part enters that part as well
	for _, m := range t.splitMethods {
		for _, c := range append([][2]string{}, t.outerCalls...) {
			if c[1] == m {
				t.outerCalls = append(t.outerCalls, [2]string{c[0], m + "!"})
			}
		}
		for _, c := range append([][2]string{}, t.innerCalls...) {
			if c[1] == m {
				t.innerCalls = append(t.innerCalls, [2]string{c[0], m + "!"})
			}
		}
	}
	// only accesses to fields that some method assigns can race
	mutable := map[string]bool{}
	for _, w := range t.writerWrites {
		mutable[w[0]] = true
	}
	var reads [][2]string
	for _, r := range t.writerReads {
		if mutable[r[0]] {
			reads = append(reads, r)
		}
	}
	t.writerReads = reads
	var sb strings.Builder
	sb.WriteString("-- GENERATED by /verif/go/extract from /repo: do not edit\nnamespace Gowarc.Gen\n\n")
	sb.WriteString("/-- (package, variable, function) : assignments to package-level variables outside their declaration -/\n")
	fmt.Fprintf(&sb, "def pkgVarWrites : List (String × String × String) := %s\n\n", leanTriples(t.pkgVarWrites))
	sb.WriteString("/-- (field, method) : assignments to fields of singleWarcFileWriter -/\n")
	fmt.Fprintf(&sb, "def writerFieldWrites : List (String × String) := %s\n\n", leanPairs(uniq2(t.writerWrites)))
	sb.WriteString("/-- (field, method) : reads of fields of singleWarcFileWriter that some method assigns; `m!` is the part of m outside its locked region -/\n")
	fmt.Fprintf(&sb, "def writerFieldReads : List (String × String) := %s\n\n", leanPairs(uniq2(t.writerReads)))
	fmt.Fprintf(&sb, "/-- methods of singleWarcFileWriter that take writeLock -/\ndef lockHolders : List String := [%s]\n\n", strings.Join(lh, ", "))
	fmt.Fprintf(&sb, "/-- (caller, callee) among the methods of singleWarcFileWriter -/\ndef innerCalls : List (String × String) := %s\n\n", leanPairs(uniq2(t.innerCalls)))
	fmt.Fprintf(&sb, "/-- (function outside the type, method of singleWarcFileWriter it calls) -/\ndef outerCalls : List (String × String) := %s\n\n", leanPairs(uniq2(t.outerCalls)))
	fmt.Fprintf(&sb, "/-- (function, external call documented as not safe for concurrent use) -/\ndef unsafeExternalCalls : List (String × String) := %s\n\n", leanPairs(uniq2(t.unsafeExternal)))
	fmt.Fprintf(&sb, "/-- (field, method) : non-atomic assignments to fields of PatternNameGenerator in its methods -/\ndef generatorFieldWrites : List (String × String) := %s\n\n", leanPairs(uniq2(t.genWrites)))
	fmt.Fprintf(&sb, "/-- (field, method) : assignments to fields of WarcFileWriter in its methods (the constructor builds a literal) -/\ndef writerStructWrites : List (String × String) := %s\n\n", leanPairs(uniq2(t.wfwWrites)))
	fmt.Fprintf(&sb, "/-- (function, pool, niled|kept) : sync.Pool Put calls and whether the reference is dropped afterwards -/\ndef poolPuts : List (String × String × String) := %s\n\n", leanTriples(t.poolPuts))
	sb.WriteString("/-- (field, method) : assignments to fields of WarcFileReader in its methods: what a reader keeps between calls -/\n")
	fmt.Fprintf(&sb, "def readerFieldWrites : List (String × String) := %s\n\n", leanPairs(uniq2(t.readerWrites)))
	sb.WriteString("/-- (field, function) : assignments to a field of an options object through an `.opts` field (after construction) -/\n")
	fmt.Fprintf(&sb, "def optsFieldWrites : List (String × String) := %s\n\n", leanPairs(uniq2(t.optsWrites)))
	objs := append(collectPkgObjects("gowarc", p), collectPkgObjects("diskbuffer", db)...)
	sb.WriteString("/-- (package, variable, maker) : package-level variables holding an object -/\n")
	fmt.Fprintf(&sb, "def pkgObjects : List (String × String × String) := %s\n\n", leanTriples(objs))
	sb.WriteString("end Gowarc.Gen\n")
	return sb.String()
}
