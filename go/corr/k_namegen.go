package main

import (
	"fmt"
	"strconv"
	"strings"
	"time"

	gowarc "github.com/nlnwa/gowarc/v2"
)

// ---- C13 "names are unique": PatternNameGenerator.NewWarcfileName / internal.Sprintt against Model/NameGen.lean
//
// namegen <prefix> <serial> <pattern> <ext> <params> <n> <host> <ip>     (hex strings; params: name=s<hex>|name=i<int>)
// output: the n names, hex, '|'-separated, then the serial the generator is left with
func kNamegen(args []string) (string, string) {
	prefix, pattern, ext := string(unhx(args[0])), string(unhx(args[2])), string(unhx(args[3]))
	serial, _ := strconv.Atoi(args[1])
	n, _ := strconv.Atoi(args[5])
	params := map[string]interface{}{}
	if args[4] != "-" {
		for _, kv := range strings.Split(args[4], "|") {
			f := strings.SplitN(kv, "=", 2)
			if len(f) != 2 || len(f[1]) == 0 {
				continue
			}
			k := string(unhx(f[0]))
			if f[1][0] == 'i' {
				v, _ := strconv.Atoi(f[1][1:])
				params[k] = v
			} else {
				params[k] = string(unhx(f[1][1:]))
			}
		}
	}
	gowarc.VerifSetNow(time.Date(2021, 2, 3, 4, 5, 6, 0, time.UTC))
	gowarc.VerifSetHost(string(unhx(args[6])), string(unhx(args[7])))
	g := &gowarc.PatternNameGenerator{Directory: "d", Prefix: prefix, Serial: int32(serial), Pattern: pattern, Extension: ext}
	if len(params) > 0 {
		g.Params = params
	}
	var names []string
	seen := map[string]bool{}
	oracle := "ok"
	for i := 0; i < n; i++ {
		dir, name := g.NewWarcfileName()
		if dir != "d" && oracle == "ok" {
			oracle = "VIOL c13-name-directory " + sanitize(dir)
		}
		// the default pattern contains the serial: two calls must not return the same name
		if pattern == "" && seen[name] && oracle == "ok" {
			oracle = "VIOL c13-name-repeated " + sanitize(name)
		}
		seen[name] = true
		names = append(names, hxs(name))
	}
	return fmt.Sprintf("%s serial=%d", strings.Join(names, "|"), g.Serial), oracle
}

func genNames(r *rng, n int, tier string, emit func(string, ...string)) {
	patterns := []string{"", "", "", "%{prefix}s%{ts}s-%04{serial}d-%{hostOrIp}s.%{ext}s", "%{prefix}s-%{serial}d.%{ext}s", "%{ts}s_%06{serial}d_%{ip}s_%{host}s.%{ext}s",
		"%{prefix}s%-6{serial}d|%3{ext}s|%%|%{x}v|%{y}s", "%08{prefix}s-%{serial}v-%-8{ext}s.", "%{x}d-%02{x}d-%-4{x}d-%{y}v", "plain-name", "%{serial}d%%%{serial}d"}
	for i := 0; i < n; i++ {
		pat := pick(r, patterns)
		prefix := pick(r, []string{"", "pre-", "crawl 2021 ", "100%", "a{b}c", "x-"})
		ext := pick(r, []string{"", "warc", "arc", "warc.x", "w%d"})
		serial := pick(r, []int{0, 0, 1, 7, 98, 99, 9997, 9998, 99998, 123456, -1, -3, -12})
		var ps []string
		if strings.Contains(pat, "{x}") || r.chance(1, 4) {
			ps = append(ps, hxs("x")+"=i"+strconv.Itoa(pick(r, []int{0, 5, -5, 42, 1234, -1234})))
		}
		if strings.Contains(pat, "{y}") || r.chance(1, 4) {
			ps = append(ps, hxs("y")+"=s"+hxs(pick(r, []string{"", "why", "a b", "%d"})))
		}
		if r.chance(1, 5) {
			// a custom parameter with the name of a built-in one: the built-in value wins
			ps = append(ps, hxs(pick(r, []string{"prefix", "ext", "ts", "host"}))+"=s"+hxs("CUSTOM"))
		}
		if r.chance(1, 8) {
			ps = append(ps, hxs("serial")+"=i777")
		}
		p := "-"
		if len(ps) > 0 {
			p = strings.Join(ps, "|")
		}
		stat("namegen-pattern", map[bool]string{true: "default", false: "custom"}[pat == ""])
		emit("namegen", hxs(prefix), strconv.Itoa(serial), hxs(pat), hxs(ext), p, strconv.Itoa(r.rangeInt(1, 5)), hxs(pick(r, []string{"node1", "host.example.com", "unknown"})), hxs(pick(r, []string{"192.0.2.7", "2001:db8::1", "unknown"})))
	}
}

func init() {
	kinds["namegen"] = kNamegen
}
