package main

import (
	"crypto/sha256"
	"encoding/hex"
	"io"
	"bufio"
	"bytes"
	"fmt"
	"os"
	"os/exec"
	"path/filepath"
	"regexp"
	"sort"
	"strings"
	"sync"
	"time"

	gowarc "github.com/nlnwa/gowarc/v2"
)

// ---- C11: supported concurrent use under the race detector. The workload runs in the -race build of this harness
// (bin/corr-race racechild ...); every report of the detector is a violation.

func raceChild(args []string) {
	dir := args[1]
	gowarc.VerifSetNow(time.Date(2021, 2, 3, 4, 5, 6, 0, time.UTC))
	var wg sync.WaitGroup
	run := func(n int, f func(g int)) {
		for g := 0; g < n; g++ {
			wg.Add(1)
			go func(g int) { defer wg.Done(); f(g) }(g)
		}
	}
	input := filepath.Join(dir, "in.warc")
	_ = os.WriteFile(input, append(recordBytes("resource", 30), recordBytes("http", 50)...), 0o644)
	for _, part := range strings.Split(args[0], ",") {
		f := strings.Split(part, ":")
		n := 4
		if len(f) > 1 {
			fmt.Sscan(f[1], &n)
		}
		switch f[0] {
		case "builders":
			run(n, func(g int) {
				for i := 0; i < 20; i++ {
					rb := gowarc.NewRecordBuilder(gowarc.Resource)
					rb.AddWarcHeader("Content-Type", "text/plain")
					rb.AddWarcHeader("WARC-Target-URI", "http://example.com/")
					rb.AddWarcHeader("WARC-Date", "2020-01-01T00:00:00Z")
					rb.AddWarcHeader(fmt.Sprintf("x-custom-note-%d-%d", g, i), "v") // a name outside the table, not in canonical spelling
					_, _ = rb.Write(bytes.Repeat([]byte("x"), 100+g))
					if rec, _, err := rb.Build(); err == nil {
						_ = rec.Close()
					} else {
						_ = rb.Close()
					}
				}
			})
		case "opts":
			run(n, func(g int) {
				sub := filepath.Join(dir, fmt.Sprintf("tmp%d", g))
				_ = os.MkdirAll(sub, 0o755)
				for i := 0; i < 10; i++ {
					rb := gowarc.NewRecordBuilder(gowarc.Resource, gowarc.WithBufferTmpDir(sub), gowarc.WithBufferMaxMemBytes(int64(8+g)), gowarc.WithStrictValidation())
					rb.AddWarcHeader("Content-Type", "text/plain")
					rb.AddWarcHeader("WARC-Target-URI", "http://example.com/")
					rb.AddWarcHeader("WARC-Date", "2020-01-01T00:00:00Z")
					_, _ = rb.Write(bytes.Repeat([]byte("y"), 64))
					if rec, _, err := rb.Build(); err == nil {
						_ = rec.Close()
					} else {
						_ = rb.Close()
					}
					u := gowarc.NewUnmarshaler(gowarc.WithBufferTmpDir(sub), gowarc.WithBufferMaxMemBytes(int64(4+g)))
					if rec, _, _, err := u.Unmarshal(bufio.NewReader(bytes.NewReader(recordBytes("http", 80)))); err == nil && rec != nil {
						_ = rec.Block().Cache()
						_ = rec.Close()
					}
				}
			})
		case "unmarshal":
			run(n, func(g int) {
				u := gowarc.NewUnmarshaler()
				for i := 0; i < 20; i++ {
					kind := []string{"resource", "http", "wf", "revisit"}[(g+i)%4]
					size := 40 + i
					if i%3 == 0 {
						size = 0 // empty block / an http message without body (a bodiless request, a redirect, a 304)
					}
					data := recordBytes(kind, size)
					data = bytes.Replace(data, []byte("WARC-Date:"), []byte(fmt.Sprintf("x-seen-by-%d-%d: u\r\nWARC-Date:", g, i)), 1)
					rec, _, _, err := u.Unmarshal(bufio.NewReader(bytes.NewReader(data)))
					if err == nil && rec != nil {
						_ = rec.WarcHeader().Get(fmt.Sprintf("x-other-%d", g))
						// the goroutine that owns the record reads it again: copies it out with its own marshaler
						_, _, _ = gowarc.NewMarshaler().Marshal(io.Discard, rec, 0)
						if rb, err := rec.Block().RawBytes(); err == nil {
							_, _ = io.ReadAll(rb)
						}
						_ = rec.Close()
					}
				}
			})
		case "mergers":
			// each goroutine reads ITS OWN response and revisit records, merges them, closes everything it holds (the merged
			// record shares the referenced record's block: both Close calls reach the same buffer), then builds records
			run(n, func(g int) {
				for i := 0; i < 6; i++ {
					u := gowarc.NewUnmarshaler()
					resp, _, _, err1 := u.Unmarshal(bufio.NewReader(bytes.NewReader(recordBytes("http", 60+g))))
					rev, _, _, err2 := u.Unmarshal(bufio.NewReader(bytes.NewReader(recordBytes("revisit", 0))))
					if err1 == nil && err2 == nil && resp != nil && rev != nil {
						if merged, err := rev.Merge(resp); err == nil && merged != nil {
							_ = merged.Close()
						}
					}
					if resp != nil {
						_ = resp.Close()
					}
					if rev != nil {
						_ = rev.Close()
					}
					rb := gowarc.NewRecordBuilder(gowarc.Resource)
					rb.AddWarcHeader("Content-Type", "text/plain")
					rb.AddWarcHeader("WARC-Target-URI", "http://example.com/")
					rb.AddWarcHeader("WARC-Date", "2020-01-01T00:00:00Z")
					_, _ = rb.Write(bytes.Repeat([]byte{byte('a' + g)}, 200+g))
					if rec, _, err := rb.Build(); err == nil {
						if rd, err := rec.Block().RawBytes(); err == nil {
							_, _ = io.ReadAll(rd)
						}
						_ = rec.Close()
					} else {
						_ = rb.Close()
					}
				}
			})
		case "readers":
			run(n, func(g int) {
				for i := 0; i < 10; i++ {
					rd, err := gowarc.NewWarcFileReader(input, 0)
					if err != nil {
						continue
					}
					for {
						rec, _, _, err := rd.Next()
						if err != nil {
							break
						}
						_ = rec.Close()
					}
					_ = rd.Close()
					if f[0] == "readers" && len(f) > 2 && f[2] == "twice" {
						_ = rd.Close() // a reader closed twice by its owner
					}
				}
			})
		case "handoff":
			// the supported pipeline: ONE goroutine owns a file reader and calls Next; every record it gets is handed to a
			// worker goroutine, which from then on owns it: reads the whole block, looks at header fields, closes it - while
			// the reader goroutine goes on with Next and finally closes the reader. Blocks larger than the memory limit
			// (f[2] == "spill") live in temp files. A worker that does not get its complete block reports HANDOFF-BAD.
			var big []byte
			sizes := []int{40, 3000, 70, 5000, 16384, 9, 2048, 4097}
			for i, sz := range sizes {
				kind := []string{"resource", "http"}[i%2]
				rec := recordBytes(kind, sz)
				// a block digest in an algorithm that is not the configured default (sha256 instead of sha1)
				if k := bytes.Index(rec, []byte("\r\n\r\n")); k > 0 && len(rec) >= k+8 {
					sum := sha256.Sum256(rec[k+4 : len(rec)-4])
					rec = bytes.Replace(rec, []byte("WARC-Date:"), []byte("WARC-Block-Digest: sha256:"+hex.EncodeToString(sum[:])+"\r\nWARC-Date:"), 1)
				}
				big = append(big, rec...)
			}
			hfile := filepath.Join(dir, "handoff.warc")
			_ = os.WriteFile(hfile, big, 0o644)
			spill := len(f) > 2 && f[2] == "spill"
			for g := 0; g < n; g++ {
				wg.Add(1)
				go func(g int) {
					defer wg.Done()
					var opts []gowarc.WarcRecordOption
					if spill {
						opts = append(opts, gowarc.WithBufferMaxMemBytes(1024), gowarc.WithBufferTmpDir(dir))
					}
					rd, err := gowarc.NewWarcFileReader(hfile, 0, opts...)
					if err != nil {
						return
					}
					type item struct {
						rec  gowarc.WarcRecord
						want int
					}
					ch := make(chan item)
					var workers sync.WaitGroup
					for wk := 0; wk < 3; wk++ {
						workers.Add(1)
						go func() {
							defer workers.Done()
							for it := range ch {
								_ = it.rec.WarcHeader().Get("WARC-Target-URI")
								got := -1
								if rb, err := it.rec.Block().RawBytes(); err == nil {
									data, err := io.ReadAll(rb)
									if err == nil {
										got = len(data)
									}
								}
								if got != it.want {
									fmt.Fprintf(os.Stderr, "HANDOFF-BAD block of %d bytes, want %d\n", got, it.want)
								}
								// the owner derives a revisit record from its record (http records only; others are refused)
								if rv, err := it.rec.ToRevisitRecord(&gowarc.RevisitRef{Profile: gowarc.ProfileIdenticalPayloadDigestV1_1, TargetRecordId: "<urn:uuid:aaaaaaaa-0000-4000-8000-00000000beef>"}); err == nil && rv != nil {
									_ = rv.Close()
								}
								_ = it.rec.Close()
							}
						}()
					}
					for i := 0; ; i++ {
						rec, _, _, err := rd.Next()
						if err != nil {
							break
						}
						want, _ := rec.WarcHeader().GetInt64("Content-Length")
						ch <- item{rec, int(want)}
					}
					_ = rd.Close()
					close(ch)
					workers.Wait()
				}(g)
			}
		case "writer":
			k := 2
			if len(f) > 2 {
				fmt.Sscan(f[2], &k)
			}
			ng := &gowarc.PatternNameGenerator{Directory: filepath.Join(dir, "out"), Prefix: "r-"}
			_ = os.MkdirAll(filepath.Join(dir, "out"), 0o755)
			w := gowarc.NewWarcFileWriter(gowarc.WithFileNameGenerator(ng), gowarc.WithMaxConcurrentWriters(k), gowarc.WithMaxFileSize(900), gowarc.WithCompression(false),
				gowarc.WithWarcInfoFunc(func(rb gowarc.WarcRecordBuilder) error { return nil }),
				// hooks are user code run by the writer: with them set, whatever the writer hands to them is read on the calling goroutine
				gowarc.WithBeforeFileCreationHook(func(string) error { return nil }),
				gowarc.WithAfterFileCreationHook(func(string, int64, string) error { return nil }))
			var inner sync.WaitGroup
			for g := 0; g < n; g++ {
				inner.Add(1)
				wg.Add(1)
				go func(g int) {
					defer wg.Done()
					defer inner.Done()
					for i := 0; i < 8; i++ {
						wr := &wrec{tok: g*100 + i + 1, kind: "r", size: 50, decl: "t"}
						if buildWrec(wr) == nil {
							w.Write(wr.rec)
						}
						if i == 2+g%5 {
							_ = w.Rotate()
						}
					}
				}(g)
			}
			wg.Add(1)
			go func() { defer wg.Done(); inner.Wait(); _ = w.Close() }()
		}
	}
	wg.Wait()
}

var reRaceFrame = regexp.MustCompile(`^\s+([\w./()*\-]+)\(\)$`)

// race <scenario>
func kRace(args []string) (string, string) {
	self, _ := os.Executable()
	bin := filepath.Join(filepath.Dir(self), "corr-race")
	if _, err := os.Stat(bin); err != nil {
		return "infra-no-race-binary", "ok"
	}
	dir, err := os.MkdirTemp("", "vrc")
	if err != nil {
		return "infra-tmp", "ok"
	}
	defer os.RemoveAll(dir)
	cmd := exec.Command(bin, "racechild", args[0], dir)
	cmd.Env = append(os.Environ(), "GORACE=halt_on_error=0 log_path="+filepath.Join(dir, "race")+" history_size=2", "GOMAXPROCS=8")
	var stderr bytes.Buffer
	cmd.Stderr = &stderr
	done := make(chan error, 1)
	if err := cmd.Start(); err != nil {
		return "infra-start", "ok"
	}
	go func() { done <- cmd.Wait() }()
	select {
	case <-done:
	case <-time.After(50 * time.Second):
		_ = cmd.Process.Kill()
		return "races=timeout", "VIOL c11-timeout race-workload-did-not-finish"
	}
	// collect reports: the first gowarc frame of each of the two conflicting accesses
	var pairs []string
	seen := map[string]bool{}
	logs, _ := filepath.Glob(filepath.Join(dir, "race.*"))
	for _, lf := range logs {
		data, _ := os.ReadFile(lf)
		for _, rep := range strings.Split(string(data), "WARNING: DATA RACE")[1:] {
			var tops []string
			section := ""
			got := false
			for _, ln := range strings.Split(rep, "\n") {
				t := strings.TrimSpace(ln)
				if strings.HasPrefix(t, "Read at") || strings.HasPrefix(t, "Write at") || strings.HasPrefix(t, "Previous read at") || strings.HasPrefix(t, "Previous write at") ||
					strings.HasPrefix(t, "Atomic") || strings.HasPrefix(t, "Previous atomic") {
					section = t
					got = false
					continue
				}
				if strings.HasPrefix(t, "Goroutine") {
					section = ""
				}
				if section != "" && !got {
					if m := reRaceFrame.FindStringSubmatch(ln); m != nil {
						fn := m[1]
						if strings.Contains(fn, "nlnwa/gowarc") || strings.Contains(fn, "google/uuid") {
							fn = strings.TrimPrefix(fn, "github.com/nlnwa/gowarc/v2")
							fn = strings.TrimPrefix(fn, "github.com/")
							tops = append(tops, fn)
							got = true
						}
					}
				}
			}
			sort.Strings(tops)
			key := strings.Join(tops, "|")
			if key == "" {
				key = "unattributed"
			}
			if !seen[key] {
				seen[key] = true
				pairs = append(pairs, key)
			}
		}
	}
	sort.Strings(pairs)
	if strings.Contains(stderr.String(), "HANDOFF-BAD") {
		// a record handed from the reader's goroutine to a worker did not give the worker its complete block
		ln := stderr.String()
		ln = ln[strings.Index(ln, "HANDOFF-BAD"):]
		if i := strings.IndexByte(ln, '\n'); i >= 0 {
			ln = ln[:i]
		}
		return "races=" + sanitize(strings.Join(pairs, ";")) + " handoff=bad", "VIOL c11-handoff " + sanitize(ln)
	}
	if len(pairs) == 0 {
		return "races=-", "ok"
	}
	return "races=" + sanitize(strings.Join(pairs, ";")), "VIOL c11-race " + sanitize(strings.Join(pairs, ";"))
}

func genRace(r *rng, n int, tier string, emit func(string, ...string)) {
	base := []string{"builders:4", "opts:4", "unmarshal:4", "readers:4", "readers:4:twice", "writer:4:2", "writer:6:3", "writer:3:1", "mergers:4", "mergers:3,builders:3",
		"builders:3,unmarshal:3,readers:3:twice,writer:3:2", "opts:6,builders:2", "readers:6:twice,unmarshal:2",
		"handoff:3", "handoff:3:spill", "handoff:2:spill,builders:2"}
	for i := 0; i < n; i++ {
		if i < len(base) {
			emit("race", base[i])
			stat("race-scenario", strings.Split(base[i], ":")[0])
			continue
		}
		parts := []string{}
		for _, k := range []string{"builders", "opts", "unmarshal", "readers", "writer", "mergers", "handoff"} {
			if r.chance(1, 2) {
				p := fmt.Sprintf("%s:%d", k, r.rangeInt(2, 6))
				if k == "handoff" && r.chance(1, 2) {
					p += ":spill"
				}
				if k == "readers" && r.chance(1, 2) {
					p += ":twice"
				}
				if k == "writer" {
					p += fmt.Sprintf(":%d", r.rangeInt(1, 4))
				}
				parts = append(parts, p)
			}
		}
		if len(parts) == 0 {
			parts = []string{"writer:4:2"}
		}
		emit("race", strings.Join(parts, ","))
		stat("race-scenario", "mixed")
	}
}

func init() {
	kinds["race"] = kRace
	gens["C11"] = genRace
}
