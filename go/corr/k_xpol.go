package main

import (
	"fmt"
	"strconv"
	"strings"
)

// ---- C08 / C07: the same input under many policy settings

type polOutcome struct {
	err  string
	fnd  []string
	hdr  string
	blk  string
	kind string
}

func unmarshalUnder(o ropts, data []byte, fault bool) polOutcome {
	res := runUnmarshal(o, data, fault, 0)
	out := polOutcome{err: res.errTag, fnd: res.fnd}
	if res.rec != nil {
		if res.errTag == "" {
			out.kind, out.blk = readAllBlock(res.rec)
			out.hdr = showPairs(pairsOf(res.rec))
		}
		res.rec.Close()
	}
	return out
}

func buildUnder(o ropts, ver string, rt0 int, hdr [][2]string, content []byte) polOutcome {
	res := runBuild(o, ver, rt0, hdr, content, "w")
	out := polOutcome{err: res.errTag, fnd: res.fnd}
	if res.rec != nil {
		out.kind, out.blk = readAllBlock(res.rec)
		out.hdr = showPairs(pairsOf(res.rec))
		res.rec.Close()
	}
	return out
}

func summarize(run func(o ropts) polOutcome, base ropts) (string, string, []polOutcome) {
	var parts []string
	uni := make([]polOutcome, 3)
	for l := 0; l <= 2; l++ {
		o := base
		o.syn, o.spec, o.unk, o.blk = l, l, l, l
		uni[l] = run(o)
		e := uni[l].err
		if e == "" {
			e = "-"
		}
		parts = append(parts, fmt.Sprintf("L%d=%s/%s", l, e, showList(uni[l].fnd)))
	}
	// all 81 combinations: error bit
	bits := make([]byte, 81)
	errAt := func(s, p, u, b int) bool { return bits[((s*3+p)*3+u)*3+b] == '1' }
	for i := 0; i < 81; i++ {
		o := base
		o.syn, o.spec, o.unk, o.blk = i/27, (i/9)%3, (i/3)%3, i%3
		r := run(o)
		if r.err != "" {
			bits[i] = '1'
		} else {
			bits[i] = '0'
		}
	}
	parts = append(parts, "E="+string(bits))
	oracle := "ok"
	viol := func(s string) {
		if oracle == "ok" {
			oracle = s
		}
	}
	if len(uni[0].fnd) != 0 {
		viol("VIOL c08-ignore-has-findings " + showList(uni[0].fnd))
	}
	if uni[2].err == "" && len(uni[2].fnd) != 0 {
		viol("VIOL c08-fail-ok-with-findings " + showList(uni[2].fnd))
	}
	failErr := uni[2].err != ""
	warnBad := uni[1].err != "" || len(uni[1].fnd) > 0
	if failErr != warnBad {
		viol(fmt.Sprintf("VIOL c08-fail-iff-warn fail=%s warn=%s/%s", uni[2].err, uni[1].err, showList(uni[1].fnd)))
	}
	// axis-wise monotonicity
	for i := 0; i < 81 && oracle == "ok"; i++ {
		s, p, u, b := i/27, (i/9)%3, (i/3)%3, i%3
		if !errAt(s, p, u, b) {
			continue
		}
		if s < 2 && !errAt(s+1, p, u, b) {
			viol(fmt.Sprintf("VIOL c08-monotone axis=syn at=%d%d%d%d", s, p, u, b))
		}
		if p < 2 && !errAt(s, p+1, u, b) {
			viol(fmt.Sprintf("VIOL c08-monotone axis=spec at=%d%d%d%d", s, p, u, b))
		}
		if u < 2 && !errAt(s, p, u+1, b) {
			viol(fmt.Sprintf("VIOL c08-monotone axis=unk at=%d%d%d%d", s, p, u, b))
		}
		if b < 2 && !errAt(s, p, u, b+1) {
			viol(fmt.Sprintf("VIOL c08-monotone axis=blk at=%d%d%d%d", s, p, u, b))
		}
	}
	return strings.Join(parts, " "), oracle, uni
}

// xpol <baseopts> <fault> <data> <oracles>: Unmarshal under the three uniform levels and all 81 combinations
func kXpol(args []string) (string, string) {
	base := parseRopts(args[0])
	fault := args[1] == "t"
	data := unhx(args[2])
	line, oracle, _ := summarize(func(o ropts) polOutcome { return unmarshalUnder(o, data, fault) }, base)
	// C07: with the repair options off, header and block do not depend on the policy
	if oracle == "ok" {
		norep := base
		norep.fixcl, norep.fixdig, norep.fixsyn, norep.fixwf, norep.adddig = false, false, false, false, false
		var ref *polOutcome
		for i := 0; i < 81; i++ {
			o := norep
			o.syn, o.spec, o.unk, o.blk = i/27, (i/9)%3, (i/3)%3, i%3
			r := unmarshalUnder(o, data, fault)
			if r.err != "" {
				continue
			}
			if ref == nil {
				rr := r
				ref = &rr
				continue
			}
			if r.hdr != ref.hdr || r.blk != ref.blk {
				oracle = fmt.Sprintf("VIOL c07-observe policy=%d%d%d%d differs", o.syn, o.spec, o.unk, o.blk)
				break
			}
		}
	}
	return line, oracle
}

// xpolb <baseopts> <ver> <rt0> <hdr> <content> <id> <oracles>: Build under uniform levels and all combinations
func kXpolBuild(args []string) (string, string) {
	base := parseRopts(args[0])
	rt0, _ := strconv.Atoi(args[2])
	hdr := splitPairsArg(args[3])
	content := unhx(args[4])
	line, oracle, _ := summarize(func(o ropts) polOutcome { return buildUnder(o, args[1], rt0, hdr, content) }, base)
	return line, oracle
}

func genC07(r *rng, n int, tier string, emit func(string, ...string)) {
	genC08(r, n/2, tier, emit)
	// plus plain parses of clean records with small spill thresholds: the declared block must be readable completely
	genUnmarshalCases(r, n, emit, func(r *rng) ropts {
		o := genRopts(r)
		o.maxMem = pick(r, []int{1, 2, 3, 5, 8, 16, 33, 64})
		return o
	})
}

func genC08(r *rng, n int, tier string, emit func(string, ...string)) {
	genUnmarshalCases(r, n, func(kind string, args ...string) {
		emit("xpol", args[0], args[1], args[2], args[3])
	}, func(r *rng) ropts {
		o := genRopts(r)
		return o
	})
	for i := 0; i < n/3; i++ {
		sub := r.fork()
		c := genBuildCase(sub)
		o := genRopts(sub)
		emit("xpolb", o.String(), c.ver, strconv.Itoa(c.rt0), pairsArg(c.hdr), hx(c.content), hxs(fixedId), oraclesForBuild(c))
	}
	// warc-fields blocks with an inner defect, a caller-supplied Content-Length that is the length of the REPAIRED block (or of
	// the block as given), and the block repair option on or off: the repair must not make acceptance depend on the policy level
	// in a non-monotone way
	defective := [][2]string{{"a: b\n", "A: b\r\n"}, {"k: v\nx: y\n", "K: v\r\nX: y\r\n"}, {"a: b\r\n c\n", "A: b c\r\n"}, {"nocolon\r\na: b\r\n", "A: b\r\n"}}
	for i := 0; i < n/12+4; i++ {
		sub := r.fork()
		d := pick(sub, defective)
		cl := len(d[1])
		if sub.chance(1, 3) {
			cl = len(d[0])
		}
		c := bcase{ver: pick(sub, []string{"1.0", "1.1"}), rt0: 16, content: []byte(d[0]), class: "wf-defect", hdr: [][2]string{
			{"WARC-Record-ID", "<urn:uuid:00000000-0000-4000-8000-000000000001>"}, {"WARC-Date", "2020-01-01T00:00:00Z"},
			{"Content-Type", "application/warc-fields"}, {"WARC-Refers-To", "<urn:uuid:00000000-0000-4000-8000-000000000002>"},
			{"Content-Length", strconv.Itoa(cl)}}}
		o := genRopts(sub)
		o.fixwf = sub.chance(3, 4)
		stat("xpolb-class", "wf-defect")
		emit("xpolb", o.String(), c.ver, strconv.Itoa(c.rt0), pairsArg(c.hdr), hx(c.content), hxs(fixedId), oraclesForBuild(c))
	}
}

func init() {
	kinds["xpol"] = kXpol
	kinds["xpolb"] = kXpolBuild
	gens["C08"] = genC08
	gens["C07"] = genC07
}
