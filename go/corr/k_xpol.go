package main

import (
	"bufio"
	"bytes"
	"io"

	gowarc "github.com/nlnwa/gowarc/v2"
	"fmt"
	"strconv"
	"strings"
)

// ---- C08 / C07: the same input under many policy settings

type polOutcome struct {
	err  string
	fnd  []string
	hdr  string
	blk  string
	kind string
	cl   int64 // the Content-Length of the returned record's header (-1: none or not a number)
}

func unmarshalUnder(o ropts, data []byte, fault bool) polOutcome {
	res := runUnmarshal(o, data, fault, 0)
	out := polOutcome{err: res.errTag, fnd: res.fnd}
	if res.rec != nil {
		if res.errTag == "" {
			out.kind, out.blk = readAllBlock(res.rec)
			out.hdr = showPairs(pairsOf(res.rec))
			out.cl = -1
			if n, err := strconv.ParseInt(res.rec.WarcHeader().Get("Content-Length"), 10, 64); err == nil && n >= 0 {
				out.cl = n
			}
		}
		res.rec.Close()
	}
	return out
}

func buildUnder(o ropts, ver string, rt0 int, hdr [][2]string, content []byte) polOutcome {
	res := runBuild(o, ver, rt0, hdr, content, "w")
	out := polOutcome{err: res.errTag, fnd: res.fnd}
	if res.rec != nil {
		out.kind, out.blk = readAllBlock(res.rec)
		out.hdr = showPairs(pairsOf(res.rec))
		res.rec.Close()
	}
	return out
}

func summarize(run func(o ropts) polOutcome, base ropts) (string, string, []polOutcome) {
	var parts []string
	uni := make([]polOutcome, 3)
	for l := 0; l <= 2; l++ {
		o := base
		o.syn, o.spec, o.unk, o.blk = l, l, l, l
		uni[l] = run(o)
		e := uni[l].err
		if e == "" {
			e = "-"
		}
		parts = append(parts, fmt.Sprintf("L%d=%s/%s", l, e, showList(uni[l].fnd)))
	}
	// all 81 combinations: error bit
	bits := make([]byte, 81)
	errAt := func(s, p, u, b int) bool { return bits[((s*3+p)*3+u)*3+b] == '1' }
	for i := 0; i < 81; i++ {
		o := base
		o.syn, o.spec, o.unk, o.blk = i/27, (i/9)%3, (i/3)%3, i%3
		r := run(o)
		if r.err != "" {
			bits[i] = '1'
		} else {
			bits[i] = '0'
		}
	}
	parts = append(parts, "E="+string(bits))
	oracle := "ok"
	viol := func(s string) {
		if oracle == "ok" {
			oracle = s
		}
	}
	if len(uni[0].fnd) != 0 {
		viol("VIOL c08-ignore-has-findings " + showList(uni[0].fnd))
	}
	if uni[2].err == "" && len(uni[2].fnd) != 0 {
		viol("VIOL c08-fail-ok-with-findings " + showList(uni[2].fnd))
	}
	failErr := uni[2].err != ""
	warnBad := uni[1].err != "" || len(uni[1].fnd) > 0
	if failErr != warnBad {
		viol(fmt.Sprintf("VIOL c08-fail-iff-warn fail=%s warn=%s/%s", uni[2].err, uni[1].err, showList(uni[1].fnd)))
	}
	// axis-wise monotonicity
	for i := 0; i < 81 && oracle == "ok"; i++ {
		s, p, u, b := i/27, (i/9)%3, (i/3)%3, i%3
		if !errAt(s, p, u, b) {
			continue
		}
		if s < 2 && !errAt(s+1, p, u, b) {
			viol(fmt.Sprintf("VIOL c08-monotone axis=syn at=%d%d%d%d", s, p, u, b))
		}
		if p < 2 && !errAt(s, p+1, u, b) {
			viol(fmt.Sprintf("VIOL c08-monotone axis=spec at=%d%d%d%d", s, p, u, b))
		}
		if u < 2 && !errAt(s, p, u+1, b) {
			viol(fmt.Sprintf("VIOL c08-monotone axis=unk at=%d%d%d%d", s, p, u, b))
		}
		if b < 2 && !errAt(s, p, u, b+1) {
			viol(fmt.Sprintf("VIOL c08-monotone axis=blk at=%d%d%d%d", s, p, u, b))
		}
	}
	return strings.Join(parts, " "), oracle, uni
}

// xpol <baseopts> <fault> <data> <oracles>: Unmarshal under the three uniform levels and all 81 combinations
func kXpol(args []string) (string, string) {
	base := parseRopts(args[0])
	fault := args[1] == "t"
	data := unhx(args[2])
	line, oracle, _ := summarize(func(o ropts) polOutcome { return unmarshalUnder(o, data, fault) }, base)
	// C07: with the repair options off, header and block do not depend on the policy
	if oracle == "ok" {
		norep := base
		norep.fixcl, norep.fixdig, norep.fixsyn, norep.fixwf, norep.adddig = false, false, false, false, false
		var ref *polOutcome
		for i := 0; i < 81; i++ {
			o := norep
			o.syn, o.spec, o.unk, o.blk = i/27, (i/9)%3, (i/3)%3, i%3
			r := unmarshalUnder(o, data, fault)
			if r.err != "" {
				continue
			}
			plain := !(len(data) > 2 && data[0] == 0x1f && data[1] == 0x8b) // inside a gzip member the block ends with the member, not at the fault
			if fault && plain && r.cl >= 0 && r.blk != "-" && !strings.HasPrefix(r.blk, "err:") && int64(len(r.blk)/2) != r.cl {
				// the stream ends in a read ERROR (not in EOF): a record handed out without an error holds its complete declared
				// block - an I/O error while the block is read is never swallowed, under no policy
				oracle = fmt.Sprintf("VIOL c07-fault-swallowed policy=%d%d%d%d block=%d declared=%d and no error", o.syn, o.spec, o.unk, o.blk, len(r.blk)/2, r.cl)
				break
			}
			if ref == nil {
				rr := r
				ref = &rr
				continue
			}
			if r.hdr != ref.hdr || r.blk != ref.blk {
				oracle = fmt.Sprintf("VIOL c07-observe policy=%d%d%d%d differs", o.syn, o.spec, o.unk, o.blk)
				break
			}
		}
	}
	return line, oracle
}

// xpolb <baseopts> <ver> <rt0> <hdr> <content> <id> <oracles>: Build under uniform levels and all combinations
func kXpolBuild(args []string) (string, string) {
	base := parseRopts(args[0])
	rt0, _ := strconv.Atoi(args[2])
	hdr := splitPairsArg(args[3])
	content := unhx(args[4])
	line, oracle, _ := summarize(func(o ropts) polOutcome { return buildUnder(o, args[1], rt0, hdr, content) }, base)
	return line, oracle
}

// onceFaultReader delivers data[:at], then fails ONCE with a non-EOF error, then goes on with the rest: a transient fault of
// the underlying reader (a timeout, an interrupted read).
type onceFaultReader struct {
	data  []byte
	pos   int
	at    int
	fired bool
}

func (f *onceFaultReader) Read(p []byte) (int, error) {
	if !f.fired && f.pos >= f.at {
		f.fired = true
		return 0, fmt.Errorf("verif: transient read fault")
	}
	if f.pos >= len(f.data) {
		return 0, io.EOF
	}
	end := len(f.data)
	if !f.fired && f.at < end {
		end = f.at
	}
	n := copy(p, f.data[f.pos:end])
	f.pos += n
	return n, nil
}

// xpolf <baseopts> <at> <data>: the same input and the same transient reader fault under all 81 policy combinations.
// Judged on the implementation alone (the model's stream ends in EOF or in a STICKY fault; it has no transient one): an
// input rejected with an error under a more lenient setting of one axis is rejected under every stricter one.
func kXpolFault(args []string) (string, string) {
	base := parseRopts(args[0])
	at, _ := strconv.Atoi(args[1])
	data := unhx(args[2])
	bits := make([]byte, 81)
	for i := 0; i < 81; i++ {
		o := base
		o.syn, o.spec, o.unk, o.blk = i/27, (i/9)%3, (i/3)%3, i%3
		br := bufio.NewReaderSize(&onceFaultReader{data: data, at: at}, 16)
		rec, _, _, err := gowarc.NewUnmarshaler(o.options()...).Unmarshal(br)
		if rec != nil {
			_ = rec.Close()
		}
		if err != nil {
			bits[i] = '1'
		} else {
			bits[i] = '0'
		}
	}
	errAt := func(s, p, u, b int) bool { return bits[((s*3+p)*3+u)*3+b] == '1' }
	oracle := "ok"
	for i := 0; i < 81 && oracle == "ok"; i++ {
		s, p, u, b := i/27, (i/9)%3, (i/3)%3, i%3
		if !errAt(s, p, u, b) {
			continue
		}
		switch {
		case s < 2 && !errAt(s+1, p, u, b):
			oracle = fmt.Sprintf("VIOL c08-monotone-transient-fault axis=syn at=%d%d%d%d fault-at=%d", s, p, u, b, at)
		case p < 2 && !errAt(s, p+1, u, b):
			oracle = fmt.Sprintf("VIOL c08-monotone-transient-fault axis=spec at=%d%d%d%d fault-at=%d", s, p, u, b, at)
		case u < 2 && !errAt(s, p, u+1, b):
			oracle = fmt.Sprintf("VIOL c08-monotone-transient-fault axis=unk at=%d%d%d%d fault-at=%d", s, p, u, b, at)
		case b < 2 && !errAt(s, p, u, b+1):
			oracle = fmt.Sprintf("VIOL c08-monotone-transient-fault axis=blk at=%d%d%d%d fault-at=%d", s, p, u, b, at)
		}
	}
	return "impl-only", oracle
}

func genXpolFault(r *rng, n int, emit func(string, ...string)) {
	for i := 0; i < n; i++ {
		sub := r.fork()
		g := genRecord(sub)
		g.declare(sub, false)
		data := g.serialize()
		if sub.chance(1, 2) {
			// header lines that end in a bare LF: the syntax axis has something to say right where the fault strikes
			data = bytes.Replace(data, []byte("\r\n"), []byte("\n"), 1+sub.intn(3))
		}
		if sub.chance(1, 3) {
			data = mutateRecord(sub, data)
		}
		if len(data) > 3000 {
			continue
		}
		// fault positions: right behind a line feed, or anywhere
		var ends []int
		for p, c := range data {
			if c == '\n' {
				ends = append(ends, p+1)
			}
		}
		at := sub.intn(len(data) + 1)
		if len(ends) > 0 && sub.chance(2, 3) {
			at = pick(sub, ends)
		}
		stat("xpolf", "case")
		emit("xpolf", genRopts(sub).String(), strconv.Itoa(at), hx(data))
	}
}

// unmpair <opts> <first> <second>: ONE Unmarshaler parses `first` and then `second`; a fresh Unmarshaler parses `second`
// alone. What the caller reads from the second record - header fields, block, findings, error - must be the same: nothing
// the parser did to an earlier record (a repair, a finding) may show up in a later one. Judged on the implementation alone
// (the model of Unmarshal has no state between calls by construction).
func kUnmPair(args []string) (string, string) {
	o := parseRopts(args[0])
	first, second := unhx(args[1]), unhx(args[2])
	show := func(u gowarc.Unmarshaler, data []byte) string {
		br := bufio.NewReaderSize(bytes.NewReader(data), 64)
		rec, off, val, err := u.Unmarshal(br)
		line := fmt.Sprintf("off=%d fnd=%s", off, showList(classifyAll(val)))
		if err != nil {
			line += " err=" + gowarc.VerifClassify(err)
		}
		if rec != nil {
			if err == nil {
				line += " " + showRec(rec)
			}
			_ = rec.Close()
		}
		return line
	}
	shared := gowarc.NewUnmarshaler(o.options()...)
	_ = show(shared, first)
	after := show(shared, second)
	alone := show(gowarc.NewUnmarshaler(o.options()...), second)
	if after != alone {
		return "impl-only", "VIOL c07-state-leak the same record parses differently after another record: " + sanitize(after) + " VS " + sanitize(alone)
	}
	// policy coherence on a REUSED Unmarshaler (C08): with all axes at warn and at fail, the second call fails under fail
	// exactly when it earns a finding or an error under warn
	second2 := func(level int) (bool, bool) {
		ol := o
		ol.syn, ol.spec, ol.unk, ol.blk = level, level, level, level
		u := gowarc.NewUnmarshaler(ol.options()...)
		for i, data := range [][]byte{first, second} {
			br := bufio.NewReaderSize(bytes.NewReader(data), 64)
			rec, _, val, err := u.Unmarshal(br)
			if rec != nil {
				_ = rec.Close()
			}
			if i == 1 {
				return err != nil, val != nil && !val.Valid()
			}
		}
		return false, false
	}
	wErr, wFnd := second2(1)
	fErr, _ := second2(2)
	if fErr != (wErr || wFnd) {
		return "impl-only", fmt.Sprintf("VIOL c08-fail-iff-warn on the second record of one Unmarshaler: fail error=%v, warn error=%v findings=%v", fErr, wErr, wFnd)
	}
	return "impl-only", "ok"
}

func genUnmPair(r *rng, n int, emit func(string, ...string)) {
	for i := 0; i < n; i++ {
		sub := r.fork()
		g := genRecord(sub)
		g.declare(sub, false)
		second := g.serialize()
		// the first record shares header lines with the second and needs a repair or earns findings
		g1 := *g
		g1.hdr = append([][2]string{}, g.hdr...)
		var first []byte
		if sub.chance(1, 4) {
			// a version this library does not know, the same in both records (a file written by other software holds many)
			g.version = pick(sub, []string{"0.18", "0.17", "2.0", "1.2"})
			g1.version = g.version
			second = g.serialize()
		}
		switch sub.intn(6) {
		case 5:
			// the first record ends inside its header section (a truncated file, a dropped connection): the Unmarshaler is used again
			full := g.serialize()
			if k := bytes.Index(full, []byte("\r\n\r\n")); k > 12 {
				first = full[:sub.rangeInt(10, k)]
			} else {
				first = full
			}
		case 4:
			// the same record twice
			first = second
		case 0:
			// same headers (same Content-Length line), an HTTP-looking block of the same length without header terminator
			if len(g.block) >= 24 {
				blk := "GET / HTTP/1.1\r\nX-Pad: "
				blk += strings.Repeat("p", len(g.block)-len(blk)-2) + "\r\n"
				g1.block = []byte(blk)
				for k := range g1.hdr {
					if g1.hdr[k][0] == "Content-Type" {
						g1.hdr[k][1] = "application/http;msgtype=request"
					}
					if g1.hdr[k][0] == "WARC-Type" {
						g1.hdr[k][1] = "request"
					}
				}
			}
			first = g1.serialize()
		case 1:
			// same headers, wrong digests
			g1.blockDigest = "sha1:AAAAAAAAAAAAAAAAAAAAAAAAAAAAAAAA"
			g1.payDigest = "sha1:BBBBBBBBBBBBBBBBBBBBBBBBBBBBBBBB"
			first = g1.serialize()
		case 2:
			// same headers, one byte more in the block than declared
			first = bytes.Replace(g.serialize(), []byte("\r\n\r\n"), []byte("\r\n\r\nX"), 1)
		default:
			first = mutateRecord(sub, g.serialize())
		}
		o := genRopts(sub)
		if sub.chance(1, 2) {
			o.fixcl, o.fixdig, o.fixsyn, o.adddig = true, true, true, true
		}
		stat("unmpair", "case")
		emit("unmpair", o.String(), hx(first), hx(second))
	}
}

func genC07(r *rng, n int, tier string, emit func(string, ...string)) {
	genUnmPair(r, n/5, emit)
	// the file reader: records looked at only after the following Next (every second stream), blocks spilled to disk
	genCuts(r, n/300+6, tier, emit)
	genC08(r, n/2, tier, emit)
	// plus plain parses of clean records with small spill thresholds: the declared block must be readable completely
	genUnmarshalCases(r, n, emit, func(r *rng) ropts {
		o := genRopts(r)
		o.maxMem = pick(r, []int{1, 2, 3, 5, 8, 16, 33, 64})
		return o
	})
}

func genC08(r *rng, n int, tier string, emit func(string, ...string)) {
	genXpolFault(r, n/6, emit)
	genUnmPair(r, n/12+8, emit)
	genUnmarshalCases(r, n, func(kind string, args ...string) {
		emit("xpol", args[0], args[1], args[2], args[3])
	}, func(r *rng) ropts {
		o := genRopts(r)
		return o
	})
	for i := 0; i < n/3; i++ {
		sub := r.fork()
		c := genBuildCase(sub)
		o := genRopts(sub)
		emit("xpolb", o.String(), c.ver, strconv.Itoa(c.rt0), pairsArg(c.hdr), hx(c.content), hxs(fixedId), oraclesForBuild(c))
	}
	// warc-fields blocks with an inner defect, a caller-supplied Content-Length that is the length of the REPAIRED block (or of
	// the block as given), and the block repair option on or off: the repair must not make acceptance depend on the policy level
	// in a non-monotone way
	defective := [][2]string{{"a: b\n", "A: b\r\n"}, {"k: v\nx: y\n", "K: v\r\nX: y\r\n"}, {"a: b\r\n c\n", "A: b c\r\n"}, {"nocolon\r\na: b\r\n", "A: b\r\n"}}
	for i := 0; i < n/12+4; i++ {
		sub := r.fork()
		d := pick(sub, defective)
		cl := len(d[1])
		if sub.chance(1, 3) {
			cl = len(d[0])
		}
		c := bcase{ver: pick(sub, []string{"1.0", "1.1"}), rt0: 16, content: []byte(d[0]), class: "wf-defect", hdr: [][2]string{
			{"WARC-Record-ID", "<urn:uuid:00000000-0000-4000-8000-000000000001>"}, {"WARC-Date", "2020-01-01T00:00:00Z"},
			{"Content-Type", "application/warc-fields"}, {"WARC-Refers-To", "<urn:uuid:00000000-0000-4000-8000-000000000002>"},
			{"Content-Length", strconv.Itoa(cl)}}}
		o := genRopts(sub)
		o.fixwf = sub.chance(3, 4)
		stat("xpolb-class", "wf-defect")
		emit("xpolb", o.String(), c.ver, strconv.Itoa(c.rt0), pairsArg(c.hdr), hx(c.content), hxs(fixedId), oraclesForBuild(c))
	}
}

func init() {
	kinds["xpol"] = kXpol
	kinds["xpolb"] = kXpolBuild
	kinds["xpolf"] = kXpolFault
	kinds["unmpair"] = kUnmPair
	gens["C08"] = genC08
	gens["C07"] = genC07
}
