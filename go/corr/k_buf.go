package main

import (
	"bytes"
	"errors"
	"fmt"
	"io"
	"os"
	"strconv"
	"strings"

	gowarc "github.com/nlnwa/gowarc/v2"
)

// ---- C14: the spill buffer against the Lean model (line protocol) and a plain byte-slice reference (oracle)

// chunkReader delivers data in a given style and ends with EOF or an error.
type chunkReader struct {
	data    []byte
	style   string // whole | one | half | eofwith
	fail    bool
	r       *rng
	done    bool
	errSent bool
}

var errSrc = errors.New("source failed")

func (c *chunkReader) Read(p []byte) (int, error) {
	if len(c.data) == 0 {
		if c.fail {
			return 0, errSrc
		}
		return 0, io.EOF
	}
	n := len(p)
	switch c.style {
	case "one":
		n = 1
	case "half":
		n = (len(p) + 1) / 2
	case "rand":
		n = 1 + c.r.intn(len(p))
	}
	if n > len(c.data) {
		n = len(c.data)
	}
	if n > len(p) {
		n = len(p)
	}
	copy(p, c.data[:n])
	c.data = c.data[n:]
	if len(c.data) == 0 && c.style == "eofwith" {
		if c.fail {
			return n, errSrc
		}
		return n, io.EOF
	}
	return n, nil
}

func tmpCount(dir string) int {
	ents, err := os.ReadDir(dir)
	if err != nil {
		return -1
	}
	return len(ents)
}

func rdRes(b []byte, err error) (string, bool) {
	if err != nil && err != io.EOF {
		return "err:" + sanitize(err.Error()), false
	}
	return hx(b) + "," + tf(err == io.EOF), err == io.EOF
}

func kBuf(args []string) (string, string) {
	cfg := kvParse(args[0])
	max, _ := strconv.ParseInt(cfg["max"], 10, 64)
	hint, _ := strconv.ParseInt(cfg["hint"], 10, 64)
	dir, err := os.MkdirTemp("", "verif-buf-")
	if err != nil {
		return "infra-tmpdir", "ok"
	}
	defer os.RemoveAll(dir)
	buf := gowarc.VerifNewBuffer(max, hint, dir)
	defer buf.Close()
	var sl gowarc.VerifSlice = buf.Slice(0, 0)
	// reference
	var ref []byte
	refOff := 0
	slOff, slLen, slPos := 0, 0, 0
	refSlice := func() []byte {
		if slOff > len(ref) {
			return nil
		}
		v := ref[slOff:]
		if slLen > 0 && slLen < len(v) {
			v = v[:slLen]
		}
		return v
	}
	oracle := "ok"
	viol := func(step int, op, what string) {
		if oracle == "ok" {
			oracle = fmt.Sprintf("VIOL buf step=%d op=%s %s", step, op, what)
		}
	}
	// checkRead: impl returned (got, eof) for a request of n bytes on remaining data `rem`
	checkRead := func(step int, op string, got []byte, eof bool, n int, rem []byte) {
		want := rem
		if n < len(want) {
			want = want[:n]
		}
		if !bytes.Equal(got, want) {
			viol(step, op, "bytes impl="+hx(got)+" ref="+hx(want))
		}
		if eof && len(want) < len(rem) {
			viol(step, op, "eof-while-data-remains")
		}
		if n > 0 && len(got) == 0 && !eof {
			viol(step, op, "empty-read-without-eof")
		}
	}
	checkLine := func(step int, op string, got []byte, eof bool, d byte, rem []byte) {
		i := bytes.IndexByte(rem, d)
		want := rem
		wantEof := true
		if i >= 0 {
			want = rem[:i+1]
			wantEof = false
		}
		if !bytes.Equal(got, want) || eof != wantEof {
			viol(step, op, "line impl="+hx(got)+","+tf(eof)+" ref="+hx(want)+","+tf(wantEof))
		}
	}
	var outs []string
	for step, op := range strings.Split(args[1], ";") {
		f := strings.Split(op, ":")
		res := ""
		switch f[0] {
		case "w":
			d := unhx(f[1])
			var n int
			var e error
			if step%2 == 0 {
				n, e = buf.Write(d)
			} else {
				n, e = buf.WriteString(string(d))
			}
			if e != nil {
				res = "err:" + sanitize(e.Error())
			} else {
				res = strconv.Itoa(n)
			}
			ref = append(ref, d...)
			if n != len(d) || e != nil {
				viol(step, op, "short-write")
			}
		case "rf":
			d := unhx(f[1])
			cr := &chunkReader{data: append([]byte{}, d...), style: f[2], fail: f[3] == "t", r: newRng(uint64(len(d)) + 7)}
			n, e := buf.ReadFrom(cr)
			res = strconv.FormatInt(n, 10) + "," + tf(e != nil)
			ref = append(ref, d...)
			if int(n) != len(d) || (e != nil) != (f[3] == "t") {
				viol(step, op, fmt.Sprintf("readfrom n=%d err=%v", n, e))
			}
		case "r":
			n, _ := strconv.Atoi(f[1])
			p := make([]byte, n)
			k, e := buf.Read(p)
			var eof bool
			res, eof = rdRes(p[:k], e)
			rem := ref[min(refOff, len(ref)):]
			checkRead(step, op, p[:k], eof, n, rem)
			refOff += k
		case "pk":
			n, _ := strconv.Atoi(f[1])
			p, e := buf.Peek(n)
			var eof bool
			res, eof = rdRes(p, e)
			checkRead(step, op, p, eof, n, ref[min(refOff, len(ref)):])
		case "rb":
			d, _ := strconv.Atoi(f[1])
			var line []byte
			var e error
			if step%2 == 0 {
				line, e = buf.ReadBytes(byte(d))
			} else {
				var s string
				s, e = buf.ReadString(byte(d))
				line = []byte(s)
			}
			var eof bool
			res, eof = rdRes(line, e)
			checkLine(step, op, line, eof, byte(d), ref[min(refOff, len(ref)):])
			refOff += len(line)
		case "seek0":
			_, _ = buf.Seek(0, io.SeekStart)
			refOff = 0
			res = "."
		case "size":
			res = strconv.FormatInt(buf.Size(), 10)
			if int(buf.Size()) != len(ref) {
				viol(step, op, "size")
			}
		case "sl":
			slOff, _ = strconv.Atoi(f[1])
			slLen, _ = strconv.Atoi(f[2])
			slPos = 0
			sl = buf.Slice(int64(slOff), int64(slLen))
			res = "."
		case "sr":
			n, _ := strconv.Atoi(f[1])
			p := make([]byte, n)
			k, e := sl.Read(p)
			var eof bool
			res, eof = rdRes(p[:k], e)
			v := refSlice()
			checkRead(step, op, p[:k], eof, n, v[min(slPos, len(v)):])
			slPos += k
		case "spk":
			n, _ := strconv.Atoi(f[1])
			p, e := sl.Peek(n)
			var eof bool
			res, eof = rdRes(p, e)
			v := refSlice()
			checkRead(step, op, p, eof, n, v[min(slPos, len(v)):])
		case "srb":
			d, _ := strconv.Atoi(f[1])
			var line []byte
			var e error
			if step%2 == 0 {
				line, e = sl.ReadBytes(byte(d))
			} else {
				var s string
				s, e = sl.ReadString(byte(d))
				line = []byte(s)
			}
			var eof bool
			res, eof = rdRes(line, e)
			v := refSlice()
			checkLine(step, op, line, eof, byte(d), v[min(slPos, len(v)):])
			slPos += len(line)
		case "sseek0":
			_, _ = sl.Seek(0, io.SeekStart)
			slPos = 0
			res = "."
		case "ssize":
			res = strconv.FormatInt(sl.Size(), 10)
			if slOff <= len(ref) && (slLen == 0 || slOff+slLen <= len(ref)) && int(sl.Size()) != len(refSlice()) {
				viol(step, op, fmt.Sprintf("slice-size impl=%d ref=%d", sl.Size(), len(refSlice())))
			}
		default:
			res = "bad-op"
		}
		flag := "m"
		if tmpCount(dir) > 0 {
			flag = "f"
		}
		outs = append(outs, res+"|"+flag)
	}
	return strings.Join(outs, ";"), oracle
}

func genBufData(r *rng, max int) []byte {
	var n int
	switch r.intn(8) {
	case 0:
		n = 0
	case 1:
		n = max // exactly the threshold
	case 2:
		n = max + 1
	case 3:
		if max > 1 {
			n = max - 1
		}
	case 4:
		n = r.rangeInt(90, 230) // around the 100-byte line chunk
	default:
		n = r.rangeInt(1, 40)
	}
	b := make([]byte, n)
	for i := range b {
		switch r.intn(6) {
		case 0:
			b[i] = '\n'
		case 1:
			b[i] = 0
		default:
			b[i] = byte('a' + r.intn(4))
		}
	}
	return b
}

func genC14(r *rng, n int, tier string, emit func(string, ...string)) {
	for i := 0; i < n; i++ {
		sub := r.fork()
		max := sub.rangeInt(1, 64)
		if sub.chance(1, 6) {
			max = sub.rangeInt(90, 210)
		}
		if sub.chance(1, 30) {
			max = 0 // default (1 MiB)
		}
		hint := sub.rangeInt(0, 80)
		if sub.chance(1, 4) {
			hint = -1
		}
		// thresholds well above the initial capacity of the memory part (512 bytes or the hint): the memory part has to GROW
		// while it is being filled, with writes larger than what is allocated so far
		big := sub.chance(1, 10)
		if big {
			max = pick(sub, []int{1500, 4000, 20000, 0})
			hint = pick(sub, []int{-1, 0, 100, 600, 3000})
			stat("buf-class", "big")
		}
		total := 0
		var ops []string
		nw := sub.rangeInt(1, 5)
		for j := 0; j < nw; j++ {
			m := max
			if m == 0 {
				m = 30
			}
			d := genBufData(sub, m)
			if big {
				d = sub.bytes(pick(sub, []int{1, 300, 511, 512, 513, 600, 900, 1200, 2500, 5000}))
				for i := 0; i < len(d); i += 97 {
					d[i] = '\n'
				}
			}
			total += len(d)
			if sub.chance(1, 3) {
				style := pick(sub, []string{"whole", "one", "half", "eofwith", "rand"})
				fail := sub.chance(1, 12)
				ops = append(ops, fmt.Sprintf("rf:%s:%s:%s", hx(d), style, tf(fail)))
				stat("buf-op", "rf-"+style)
			} else {
				ops = append(ops, "w:"+hx(d))
				stat("buf-op", "w")
			}
		}
		nr := sub.rangeInt(1, 14)
		sliced := false
		for j := 0; j < nr; j++ {
			var op string
			switch k := sub.intn(16); {
			case k < 4:
				op = fmt.Sprintf("r:%d", pick(sub, []int{0, 1, 2, 3, 7, 10, 50, 100, 101, 300, 2000, 20000}))
			case k < 6:
				op = fmt.Sprintf("pk:%d", pick(sub, []int{0, 1, 4, 5, 10, 100, 300}))
			case k < 8:
				op = fmt.Sprintf("rb:%d", pick(sub, []int{10, 0, 97, 122}))
			case k < 9:
				op = "seek0"
			case k < 10:
				op = "size"
			case k < 11 || !sliced:
				off := sub.intn(total + 1)
				ln := 0
				if sub.chance(1, 2) && total-off > 0 {
					ln = sub.rangeInt(1, total-off)
				}
				op = fmt.Sprintf("sl:%d:%d", off, ln)
				sliced = true
			case k < 13:
				op = fmt.Sprintf("sr:%d", pick(sub, []int{0, 1, 2, 5, 10, 100, 300}))
			case k < 14:
				op = fmt.Sprintf("srb:%d", pick(sub, []int{10, 0, 97}))
			case k < 15:
				op = fmt.Sprintf("spk:%d", pick(sub, []int{0, 1, 4, 10, 300}))
			default:
				op = pick(sub, []string{"sseek0", "ssize"})
			}
			stat("buf-op", strings.SplitN(op, ":", 2)[0])
			ops = append(ops, op)
		}
		emit("buf", fmt.Sprintf("max=%d;hint=%d", max, hint), strings.Join(ops, ";"))
	}
	if tier == "thorough" {
		// exhaustive small scope: every max <= 6, every sequence of length <= 4 over a small alphabet
		alphabet := []string{"w:610a62", "w:61", "rf:6162630a:eofwith:f", "rf:61:whole:f", "r:2", "pk:3", "rb:10", "seek0", "sl:1:0", "sr:2", "srb:10", "ssize"}
		for max := 1; max <= 6; max++ {
			var rec func(prefix []string, depth int)
			rec = func(prefix []string, depth int) {
				if len(prefix) > 0 {
					emit("buf", fmt.Sprintf("max=%d;hint=-1", max), strings.Join(prefix, ";"))
				}
				if depth == 0 {
					return
				}
				for _, a := range alphabet {
					rec(append(append([]string{}, prefix...), a), depth-1)
				}
			}
			rec(nil, 4)
		}
	}
}

func init() {
	kinds["buf"] = kBuf
	gens["C14"] = genC14
}
