package main

import (
	"bytes"
	"fmt"
	"strconv"
	"strings"

	gowarc "github.com/nlnwa/gowarc/v2"
)

// ---- C04, last sentence: arbitrary streams with junk and rejected records before and between plain or gzip records.
// Whatever offset the reader reports for a record - also when the caller goes on after a Next that failed - is a position
// from which a fresh reader returns that same record.
//
// The model side is the cuts handler on the whole stream (Next until the first error); what happens when the caller goes
// on after an error is judged on the implementation only (the model does not say how many bytes a failed call consumed).

func recSummary(rec gowarc.WarcRecord, val *gowarc.Validation) string {
	_, block := readAllBlock(rec)
	bl := unhxOrEmpty(block)
	// the findings are not part of "the same record": the sequential reader reports the junk it skipped, the fresh one starts behind it
	_ = val
	return fmt.Sprintf("%d,%d,%d,%d", rec.Type(), hdrSum(gowarc.VerifPairs(rec.WarcHeader())), len(bl), cksum(bl))
}

// stream <opts> <data> <len> <len> <oracles> <bounds> <gz>   (argument layout of cuts)
func kStream(args []string) (string, string) {
	o := parseRopts(args[0])
	data := unhx(args[1])
	var bounds []int
	for _, b := range strings.Split(args[5], ",") {
		n, _ := strconv.Atoi(b)
		bounds = append(bounds, n)
	}
	items := readAllItems(o, data)
	nrec := len(bounds) - 1
	wf := len(items) == nrec+1
	for i := 0; wf && i <= nrec; i++ {
		it := items[i]
		if it.err != "" {
			wf = it.err == "eof" && bounds[i] == len(data) && it.off == int64(bounds[i])
		} else {
			wf = it.clean && it.off == int64(bounds[i])
		}
	}
	impl := "wf=" + tf(wf) + " " + joinItems(items)

	viol := ""
	setViol := func(sig, detail string) {
		if viol == "" {
			viol = "VIOL " + sig + " " + sanitize(detail)
		}
	}
	rd, err := gowarc.NewWarcFileReaderFromStream(srcFor(data), 0, o.options()...)
	if err != nil {
		return impl, "ok"
	}
	defer rd.Close()
	errs, nrecs, afterErr := 0, 0, 0
	lastOff := int64(-1)
	for i := 0; i < 300 && errs < 40; i++ {
		rec, off, val, err := rd.Next()
		if err != nil {
			if rec != nil {
				_ = rec.Close()
			}
			if gowarc.VerifClassify(err) == "eof" {
				break
			}
			errs++
			continue
		}
		if rec == nil {
			break
		}
		sum := recSummary(rec, val)
		_ = rec.Close()
		nrecs++
		if errs > 0 {
			afterErr++
		}
		if off < 0 || off > int64(len(data)) {
			setViol("c04-reported-offset", fmt.Sprintf("record %d reported at %d outside the stream of %d bytes", nrecs, off, len(data)))
			continue
		}
		if off <= lastOff {
			setViol("c04-reported-offset", fmt.Sprintf("record %d reported at %d, not behind the previous record at %d", nrecs, off, lastOff))
		}
		lastOff = off
		// a seekable source is positioned at the offset by the constructor itself
		fr, err := gowarc.NewWarcFileReaderFromStream(bytes.NewReader(data), off, o.options()...)
		if err != nil {
			continue
		}
		rec2, off2, val2, err2 := fr.Next()
		switch {
		case err2 != nil || rec2 == nil:
			setViol("c04-reported-offset", fmt.Sprintf("record %d (after %d failed calls) reported at %d: a fresh reader there fails: %v", nrecs, errs, off, err2))
		case off2 != off:
			setViol("c04-reported-offset", fmt.Sprintf("record %d (after %d failed calls) reported at %d: a fresh reader there finds its record at %d", nrecs, errs, off, off2))
		default:
			if sum2 := recSummary(rec2, val2); sum2 != sum {
				setViol("c04-reported-offset", fmt.Sprintf("record %d (after %d failed calls) reported at %d: a fresh reader there returns another record: %s vs %s", nrecs, errs, off, sum2, sum))
			}
		}
		if rec2 != nil {
			_ = rec2.Close()
		}
		_ = fr.Close()
	}
	if viol != "" {
		return impl, viol
	}
	return impl, "ok"
}

var junkAlphabet = []byte("abcdefghijklmnopqrstuvxyz0123456789 :\r\n")

func safeJunk(r *rng, n int) []byte {
	b := make([]byte, n)
	for i := range b {
		b[i] = junkAlphabet[r.intn(len(junkAlphabet))]
	}
	return b
}

// oraclesForSegments: verdicts of the external validators and of the gzip codec for everything the model may ask about
// while reading the whole stream.
func oraclesForSegments(file []byte, bounds []int, syn int) string {
	t := &oracleTab{}
	n := 0
	for p := 0; p+5 <= len(file) && n < 16; p++ {
		if bytes.HasPrefix(file[p:], []byte("WARC/")) {
			n++
			t.scanPlain(file[p:], syn)
		}
	}
	for i := 0; i+1 < len(bounds); i++ {
		p := bounds[i]
		if p+1 < len(file) && file[p] == 0x1f && file[p+1] == 0x8b {
			st, content, consumed := gunzipAt(file[p:])
			t.out = append(t.out, fmt.Sprintf("z:%d:%s:%d:%s", p, st, consumed, hx(content)))
			t.out = append(t.out, fmt.Sprintf("zc:%d:%d:%s:%d:%d", len(file), p, st, consumed, len(content)))
			m := 0
			for q := 0; q+5 <= len(content) && m < 4; q++ {
				if bytes.HasPrefix(content[q:], []byte("WARC/")) {
					m++
					t.scanPlain(content[q:], syn)
				}
			}
		}
	}
	return t.String()
}

func genStream(r *rng, n int, tier string, emit func(string, ...string)) {
	for i := 0; i < n; i++ {
		gz := r.chance(1, 2)
		nseg := r.rangeInt(2, 6)
		var file []byte
		bounds := []int{0}
		var shape []string
		for k := 0; k < nseg; k++ {
			var seg []byte
			c := r.intn(10)
			switch {
			case c < 7:
				var g *grec
				for tries := 0; tries < 50; tries++ {
					g = genRecord(r)
					if !g.badHead && len(g.block) < 300 && g.rtNum != 0 && g.hdr[0][1] == g.rtype {
						break
					}
				}
				kind := "rec"
				if c >= 5 {
					// a record a strict reader rejects and a lenient one reports: a mandatory field is missing, or the version is unknown
					if r.chance(1, 2) {
						var h [][2]string
						for _, nv := range g.hdr {
							if nv[0] != "WARC-Date" {
								h = append(h, nv)
							}
						}
						g.hdr = h
						kind = "nodate"
					} else {
						g.version = "0.9"
						kind = "badversion"
					}
				}
				g.declare(r, false)
				seg = g.serialize()
				if gz {
					seg = gzMember(seg)
				}
				shape = append(shape, kind)
			case c < 8:
				seg = safeJunk(r, r.rangeInt(1, 40))
				if r.chance(1, 3) {
					seg = safeJunk(r, pick(r, []int{63, 64, 65, 100, 129, 300, 700})) // longer than one read of a chunked source
				}
				if tier == "thorough" && r.chance(1, 40) {
					seg = safeJunk(r, 1<<20+r.rangeInt(1, 5000)) // longer than the file reader's 1 MiB buffer
				}
				shape = append(shape, "junk")
			case c < 9:
				// junk that starts like a gzip member
				seg = append([]byte{0x1f, 0x8b}, safeJunk(r, r.rangeInt(0, 30))...)
				shape = append(shape, "gzjunk")
			default:
				// junk that starts like a record
				seg = append([]byte("WARC/"), safeJunk(r, r.rangeInt(0, 30))...)
				shape = append(shape, "warcjunk")
			}
			file = append(file, seg...)
			bounds = append(bounds, len(file))
		}
		o := defaultRopts()
		pol := r.intn(3)
		o.syn, o.spec, o.unk, o.blk = pol, pol, pol, pol
		if r.chance(1, 3) {
			o.spec = 2 // strict about the specification only
		}
		if r.chance(1, 2) {
			o.maxMem = pick(r, []int{1, 7, 64, 300})
		}
		stat("stream-cfg", fmt.Sprintf("gz=%s,pol=%d%d", tf(gz), o.syn, o.spec))
		stat("stream-shape", strings.Join(shape, "+"))
		var bs []string
		for _, b := range bounds {
			bs = append(bs, strconv.Itoa(b))
		}
		l := strconv.Itoa(len(file))
		emit("stream", o.String(), hx(file), l, l, oraclesForSegments(file, bounds, o.syn), strings.Join(bs, ","), tf(gz))
	}
}

func init() {
	kinds["stream"] = kStream
}
