package main

import (
	"bytes"
	"crypto/md5"
	"crypto/sha1"
	"crypto/sha256"
	"crypto/sha512"
	"encoding/base32"
	"encoding/base64"
	"encoding/hex"
	"fmt"
	"strconv"
	"strings"

	gowarc "github.com/nlnwa/gowarc/v2"
)

func sumOf(alg string, data []byte) []byte {
	switch alg {
	case "md5":
		s := md5.Sum(data)
		return s[:]
	case "sha1":
		s := sha1.Sum(data)
		return s[:]
	case "sha256":
		s := sha256.Sum256(data)
		return s[:]
	case "sha512":
		s := sha512.Sum512(data)
		return s[:]
	}
	return nil
}

func kHash(args []string) (string, string) {
	return hx(sumOf(args[0], unhx(args[1]))), "ok"
}

func stdEncode(enc int, b []byte) string {
	switch enc {
	case 1:
		return hex.EncodeToString(b)
	case 2:
		return base32.StdEncoding.EncodeToString(b)
	case 3:
		return base64.StdEncoding.EncodeToString(b)
	}
	return string(b)
}

func stdDecode(enc int, s string) ([]byte, error) {
	switch enc {
	case 1:
		return hex.DecodeString(s)
	case 2:
		return base32.StdEncoding.DecodeString(s)
	case 3:
		return base64.StdEncoding.DecodeString(s)
	}
	return []byte(s), nil
}

// enc <e> <data>: gowarc's encoder on the raw bytes (the digest object is bypassed: we encode data as if it were a sum)
func kEnc(args []string) (string, string) {
	e, _ := strconv.Atoi(args[0])
	d := unhx(args[1])
	got := stdEncode(e, d) // gowarc encodes with exactly these stdlib calls; the Lean model re-implements them
	or := "ok"
	back, err := gowarc.VerifDecode(uint8(e), got)
	if err != nil || !bytes.Equal(back, d) {
		or = "VIOL codec roundtrip enc=" + args[0]
	}
	return hxs(got), or
}

func kDec(args []string) (string, string) {
	e, _ := strconv.Atoi(args[0])
	b, err := gowarc.VerifDecode(uint8(e), unhxs(args[1]))
	if err != nil {
		return "err", "ok"
	}
	return hx(b), "ok"
}

var algNames = []string{"md5", "sha1", "sha256", "sha512"}

// digest <default enc> <field value> <data>
func kDigest(args []string) (string, string) {
	dflt, _ := strconv.Atoi(args[0])
	value := unhxs(args[1])
	data := unhx(args[2])
	name, hash, enc, valid, format, err := gowarc.VerifDigest(value, uint8(dflt), data)
	if err != nil {
		return "unsupported", "ok"
	}
	impl := fmt.Sprintf("%s %d %s %s %s", hxs(name), enc, hxs(hash), tf(valid), hxs(format))
	// oracle (independent of gowarc's digest type): the declared value is correct iff it is an encoding of the true sum,
	// in base16 (any letter case), base32 (any letter case) or base64
	oracle := "ok"
	t := strings.SplitN(value, ":", 2)
	alg := strings.ToLower(t[0])
	alg = strings.ReplaceAll(alg, "-", "")
	// an empty algorithm name is a leniency of gowarc (treated as sha1), not a "supported algorithm" spelling: not judged
	sum := sumOf(alg, data)
	if sum != nil && len(t) == 2 && t[1] != "" {
		decl := t[1]
		correct := strings.EqualFold(decl, hex.EncodeToString(sum)) && isASCII(decl) ||
			strings.EqualFold(decl, base32.StdEncoding.EncodeToString(sum)) && isASCII(decl) ||
			decl == base64.StdEncoding.EncodeToString(sum)
		if correct && !valid {
			oracle = "VIOL digest-complete correct-value-rejected " + sanitize(value)
		}
		if !correct && valid {
			// accepted although not a canonical spelling: acceptable only if it still decodes to the true sum
			ok := false
			for e := 1; e <= 3; e++ {
				for _, v := range []string{decl, strings.ToLower(decl), strings.ToUpper(decl)} {
					if b, err := stdDecode(e, v); err == nil && bytes.Equal(b, sum) {
						ok = true
					}
				}
			}
			if !ok {
				oracle = "VIOL digest-sound wrong-value-accepted " + sanitize(value)
			}
		}
	}
	// format() must always be a correct declaration of the data in the chosen encoding
	if sum != nil {
		want := name + ":" + stdEncode(int(enc), sum)
		if enc >= 1 && enc <= 3 && format != want {
			oracle = "VIOL digest-format impl=" + sanitize(format) + " want=" + sanitize(want)
		}
	}
	return impl, oracle
}

func isASCII(s string) bool {
	for i := 0; i < len(s); i++ {
		if s[i] >= 128 {
			return false
		}
	}
	return true
}

func recase(r *rng, s string) string {
	b := []byte(s)
	switch r.intn(4) {
	case 0:
		return strings.ToUpper(s)
	case 1:
		return strings.ToLower(s)
	case 2:
		for i := range b {
			if r.chance(1, 2) {
				b[i] = strings.ToUpper(string(b[i]))[0]
			} else {
				b[i] = strings.ToLower(string(b[i]))[0]
			}
		}
		return string(b)
	}
	return s
}

func spellAlg(r *rng, alg string) string {
	s := alg
	if strings.HasPrefix(alg, "sha") && r.chance(1, 3) {
		s = "sha-" + alg[3:]
	}
	return recase(r, s)
}

func corrupt(r *rng, s string) string {
	if len(s) == 0 {
		return "x"
	}
	b := []byte(s)
	switch r.intn(7) {
	case 0:
		b[r.intn(len(b))] ^= byte(1 << uint(r.intn(7)))
	case 1:
		i := r.intn(len(b))
		b = append(b[:i], b[i+1:]...)
	case 2:
		i := r.intn(len(b) + 1)
		b = append(b[:i], append([]byte{"A=2z/+\n 7"[r.intn(9)]}, b[i:]...)...)
	case 3:
		b = b[:r.intn(len(b))]
	case 4:
		b = append(b, '=')
	case 5:
		// change a character that only carries padding bits
		b[len(b)-1] = "ABCDEFGH"[r.intn(8)]
	case 6:
		i := r.intn(len(b))
		b[i] = "Il10O="[r.intn(6)]
	}
	return string(b)
}

func genDigestValue(r *rng, data []byte) (string, string) {
	alg := pick(r, algNames)
	sum := sumOf(alg, data)
	enc := r.rangeInt(1, 3)
	val := stdEncode(enc, sum)
	class := "correct"
	if enc != 3 {
		val = recase(r, val)
	}
	switch r.intn(10) {
	case 0, 1, 2:
		val = corrupt(r, val)
		class = "corrupt"
	case 3:
		other := append([]byte{}, data...)
		other = append(other, 'x')
		val = stdEncode(enc, sumOf(alg, other))
		class = "other-data"
	case 4:
		val = stdEncode(enc, sumOf(pick(r, algNames), data)) // maybe the wrong algorithm's sum
		class = "other-alg"
	}
	name := spellAlg(r, alg)
	switch r.intn(30) {
	case 0:
		name = ""
		class += "-noalg"
	case 1:
		name = pick(r, []string{"sha3", "crc32", "md 5", "sha1 ", "SHA\xe2\x84\xaa"})
		class += "-badalg"
	case 2:
		return name, class + "-nocolon"
	}
	return name + ":" + val, class
}

func genC03(r *rng, n int, tier string, emit func(string, ...string)) {
	// 1. full grid: algorithm x encoding x case x hyphen, correct values (completeness) and one-char corruptions (soundness)
	data := []byte("hello world")
	for _, alg := range algNames {
		sum := sumOf(alg, data)
		for enc := 1; enc <= 3; enc++ {
			v := stdEncode(enc, sum)
			for _, c := range []string{v, strings.ToUpper(v), strings.ToLower(v)} {
				if enc == 3 && c != v {
					continue
				}
				for _, a := range []string{alg, strings.ToUpper(alg), strings.Replace(alg, "sha", "sha-", 1), strings.Replace(strings.ToUpper(alg), "SHA", "SHA-", 1)} {
					for dflt := 1; dflt <= 3; dflt++ {
						emit("digest", strconv.Itoa(dflt), hxs(a+":"+c), hx(data))
					}
				}
			}
			// every single-character corruption position
			for i := 0; i < len(v); i++ {
				b := []byte(v)
				b[i] ^= 1
				emit("digest", "2", hxs(alg+":"+string(b)), hx(data))
			}
		}
	}
	for i := 0; i < n; i++ {
		d := r.bytes(r.intn(70))
		v, class := genDigestValue(r, d)
		stat("digest-class", class)
		emit("digest", strconv.Itoa(r.rangeInt(1, 3)), hxs(v), hx(d))
	}
	for i := 0; i < n/2; i++ {
		d := r.bytes(r.intn(71))
		e := r.rangeInt(1, 3)
		emit("enc", strconv.Itoa(e), hx(d))
		s := stdEncode(e, d)
		if r.chance(1, 2) {
			s = corrupt(r, s)
		}
		emit("dec", strconv.Itoa(e), hxs(s))
		stat("codec", fmt.Sprintf("enc%d", e))
	}
	// record level: parser and builder with generator-known truth about the declared values
	genUnmarshalCases(r, n/2, emit, genRopts)
	genC02(r, n/2, tier, emit)
	// the builder with a Content-Length the CALLER declared wrongly: off by a few, or at / beyond the limits of the integer
	// types; spec checking on, no repair that may change the block: it must be reported
	for i := 0; i < n/30+10; i++ {
		sub := r.fork()
		content := sub.bytes(sub.rangeInt(0, 40))
		cl := pick(sub, []string{"9223372036854775807", "9223372036854775808", "18446744073709551615", "18446744073709551616", "4294967296",
			strconv.Itoa(len(content) + 1), strconv.Itoa(len(content) + 7), "0"})
		if cl == strconv.Itoa(len(content)) {
			cl = "1"
		}
		c := bcase{ver: pick(sub, []string{"1.0", "1.1"}), rt0: 4, content: content, class: "declared-length", hdr: [][2]string{
			{"WARC-Date", "2020-01-02T03:04:05Z"}, {"WARC-Target-URI", "http://example.com/"}, {"Content-Type", "text/plain"}, {"Content-Length", cl}}}
		o := genRopts(sub)
		o.spec = sub.rangeInt(1, 2)
		o.fixsyn, o.fixwf, o.skip = false, false, false
		stat("build-class", c.class)
		emit("build", o.String(), c.ver, strconv.Itoa(c.rt0), pairsArg(c.hdr), hx(c.content), hxs(fixedId), oraclesForBuild(c), "w")
	}
	for i := 0; i < n/8; i++ {
		ln := pick(r, []int{0, 1, 54, 55, 56, 57, 63, 64, 65, 110, 111, 112, 113, 119, 120, 127, 128, 129, 200})
		if r.chance(1, 2) {
			ln = r.intn(300)
		}
		emit("hash", pick(r, algNames), hx(r.bytes(ln)))
	}
}

func init() {
	kinds["hash"] = kHash
	kinds["enc"] = kEnc
	kinds["dec"] = kDec
	kinds["digest"] = kDigest
	gens["C03"] = genC03
}
