package main

import (
	"bufio"
	"bytes"
	"compress/gzip"
	"errors"
	"io"
	"strconv"
	"strings"
)

// An independent, strict WARC scanner (standard library only): it does not share code with gowarc's reader and is
// what the writer checks use to decide whether bytes on disk are a sequence of whole records.

type scanMember struct {
	off    int64 // offset of the member in the file
	length int64 // bytes the member occupies in the file
	ulen   int64 // uncompressed serialized length
	ver    string
	hdr    [][2]string
	block  []byte
}

func (m *scanMember) get(name string) string {
	for _, p := range m.hdr {
		if strings.EqualFold(p[0], name) {
			return p[1]
		}
	}
	return ""
}

func (m *scanMember) has(name string) bool {
	for _, p := range m.hdr {
		if strings.EqualFold(p[0], name) {
			return true
		}
	}
	return false
}

// scanPlainRecord parses exactly one record from the start of data and returns the bytes it occupies.
func scanPlainRecord(data []byte) (*scanMember, int, error) {
	m := &scanMember{}
	pos := 0
	line := func() (string, error) {
		i := bytes.Index(data[pos:], []byte("\r\n"))
		if i < 0 {
			return "", errors.New("line without CRLF")
		}
		s := string(data[pos : pos+i])
		pos += i + 2
		return s, nil
	}
	v, err := line()
	if err != nil {
		return nil, 0, err
	}
	if v != "WARC/1.0" && v != "WARC/1.1" {
		return nil, 0, errors.New("bad version line")
	}
	m.ver = v
	for {
		l, err := line()
		if err != nil {
			return nil, 0, err
		}
		if l == "" {
			break
		}
		i := strings.IndexByte(l, ':')
		if i <= 0 {
			return nil, 0, errors.New("header line without colon")
		}
		m.hdr = append(m.hdr, [2]string{l[:i], strings.TrimSpace(l[i+1:])})
	}
	cl := m.get("Content-Length")
	n, err := strconv.ParseUint(cl, 10, 63)
	if err != nil {
		return nil, 0, errors.New("bad content-length")
	}
	if uint64(len(data)-pos) < n+4 {
		return nil, 0, errors.New("block or trailer cut")
	}
	m.block = data[pos : pos+int(n)]
	pos += int(n)
	if string(data[pos:pos+4]) != "\r\n\r\n" {
		return nil, 0, errors.New("missing record trailer")
	}
	pos += 4
	return m, pos, nil
}

// scanFile returns the members of a file, or the members up to the first position that is not the start of a whole
// record together with an error.
func scanFile(data []byte, compressed bool) ([]*scanMember, error) {
	var out []*scanMember
	off := 0
	for off < len(data) {
		if compressed {
			br := bytes.NewReader(data[off:])
			bb := bufio.NewReader(br)
			zr, err := gzip.NewReader(bb)
			if err != nil {
				return out, errors.New("gzip header: " + err.Error())
			}
			zr.Multistream(false)
			content, err := io.ReadAll(zr)
			if err != nil {
				return out, errors.New("gzip member: " + err.Error())
			}
			consumed := len(data[off:]) - br.Len() - bb.Buffered()
			m, n, err := scanPlainRecord(content)
			if err != nil {
				return out, err
			}
			if n != len(content) {
				return out, errors.New("gzip member holds more than one record")
			}
			m.off, m.length, m.ulen = int64(off), int64(consumed), int64(n)
			out = append(out, m)
			off += consumed
		} else {
			m, n, err := scanPlainRecord(data[off:])
			if err != nil {
				return out, err
			}
			m.off, m.length, m.ulen = int64(off), int64(n), int64(n)
			out = append(out, m)
			off += n
		}
	}
	return out, nil
}
