package main

import (
	"bufio"
	"bytes"
	"fmt"
	"io"
	"strconv"
	"strings"

	gowarc "github.com/nlnwa/gowarc/v2"
)

// ---- C16: block accessors in any order

func sha1b32(b []byte) string { return "sha1:" + stdEncode(2, sumOf("sha1", b)) }

func drainN(r io.Reader, n int) ([]byte, error) {
	p := make([]byte, n)
	k, err := io.ReadFull(r, p)
	if err == io.EOF || err == io.ErrUnexpectedEOF {
		err = nil
	}
	return p[:k], err
}

// block <cfg> <contenthex> <ops>   cfg: src=direct-cached|direct-uncached|built|parsed;http=t|f;mem=N
// ops: bd | pd | size | cache | iscached | raw:<drain> | pay:<drain>    (drain "all" = read to the end)
func kBlock(args []string) (string, string) {
	cfg := kvParse(args[0])
	content := unhx(args[1])
	isHttp := cfg["http"] == "t"
	mem, _ := strconv.Atoi(cfg["mem"])
	if mem == 0 {
		mem = 1 << 20
	}
	// fix=t: the record is made with the syntax repair on; an HTTP head without its terminating blank line then gets a CRLF
	// appended, and every accessor has to describe the block WITH it
	fix := cfg["fix"] == "t" && (cfg["src"] == "built" || cfg["src"] == "parsed")
	var blk gowarc.Block
	switch cfg["src"] {
	case "direct-cached", "direct-uncached":
		b, err := gowarc.VerifNewBlock(isHttp, content, cfg["src"] == "direct-cached", int64(mem))
		if err != nil {
			return "construct-error", "ok"
		}
		blk = b
	case "built":
		rt := gowarc.Resource
		ct := "text/plain"
		if isHttp {
			rt, ct = gowarc.Response, "application/http;msgtype=response"
			if !bytes.HasPrefix(content, []byte("HTTP")) {
				rt, ct = gowarc.Request, "application/http;msgtype=request"
			}
		}
		// the accessors must describe the block whatever options the record was made under (add-missing / repair flags, policies)
		rb := gowarc.NewRecordBuilder(rt, gowarc.WithBufferMaxMemBytes(int64(mem)), gowarc.WithFixSyntaxErrors(fix), gowarc.WithSpecViolationPolicy(gowarc.ErrIgnore), gowarc.WithSyntaxErrorPolicy(gowarc.ErrIgnore),
			gowarc.WithAddMissingDigest(cfg["adddig"] != "f"), gowarc.WithFixDigest(cfg["fixdig"] != "f"), gowarc.WithAddMissingContentLength(true))
		rb.AddWarcHeader("Content-Type", ct)
		_, _ = rb.Write(content)
		rec, _, err := rb.Build()
		if err != nil {
			return "build-error", "ok"
		}
		defer rec.Close()
		blk = rec.Block()
	case "parsed":
		ct, typ := "text/plain", "resource"
		if isHttp {
			typ, ct = "response", "application/http;msgtype=response"
			if !bytes.HasPrefix(content, []byte("HTTP")) {
				typ = "request"
				ct = "application/http;msgtype=request"
			}
		}
		raw := fmt.Sprintf("WARC/1.1\r\nWARC-Type: %s\r\nWARC-Record-ID: <urn:uuid:1>\r\nWARC-Date: 2020-01-01T00:00:00Z\r\nContent-Type: %s\r\nContent-Length: %d\r\n\r\n", typ, ct, len(content))
		data := append(append([]byte(raw), content...), "\r\n\r\n"...)
		spec, _ := strconv.Atoi(cfg["spec"])
		rec, _, _, err := gowarc.NewUnmarshaler(gowarc.VerifOptions(0, spec, 0, 0, gowarc.WithBufferMaxMemBytes(int64(mem)), gowarc.WithFixSyntaxErrors(fix),
			gowarc.WithAddMissingDigest(cfg["adddig"] != "f"), gowarc.WithFixDigest(cfg["fixdig"] != "f"))...).Unmarshal(bufio.NewReader(bytes.NewReader(data)))
		if err != nil || rec == nil {
			return "parse-error", "ok"
		}
		defer rec.Close()
		blk = rec.Block()
	}
	if blk == nil {
		return "no-block", "ok"
	}
	defer blk.Close()
	kind := gowarc.VerifBlockKind(blk)
	headLen := 0
	if pb, ok := blk.(gowarc.ProtocolHeaderBlock); ok && (kind == "httpReq" || kind == "httpResp") {
		headLen = len(pb.ProtocolHeaderBytes())
	}
	if _, found := splitHead(content); fix && isHttp && !found {
		content = append(append([]byte{}, content...), '\r', '\n')
	}
	full := content
	payload := content[headLen:]
	oracle := "ok"
	viol := func(step int, op, what string) {
		if oracle == "ok" {
			oracle = fmt.Sprintf("VIOL block step=%d op=%s %s", step, op, what)
		}
	}
	var outs []string
	accessed := false // a content reader has been handed out before
	for step, op := range strings.Split(args[2], ";") {
		f := strings.Split(op, ":")
		res := ""
		drainOf := func(total int) int {
			if f[1] == "all" {
				return total
			}
			n, _ := strconv.Atoi(f[1])
			return n
		}
		switch f[0] {
		case "bd":
			if !blk.IsCached() {
				accessed = true // on an uncached block the digest getters drain the one-shot source
			}
			d := blk.BlockDigest()
			res = "digest:" + hxs(d)
			if d != sha1b32(full) {
				viol(step, op, "block digest does not describe the complete block")
			}
		case "pd":
			pb, ok := blk.(gowarc.PayloadBlock)
			if !ok {
				res = "na"
				break
			}
			if !blk.IsCached() {
				accessed = true
			}
			d := pb.PayloadDigest()
			res = "digest:" + hxs(d)
			if (kind == "httpReq" || kind == "httpResp") && d != sha1b32(payload) {
				viol(step, op, "payload digest does not describe the complete payload")
			}
		case "size":
			if !blk.IsCached() {
				accessed = true
			}
			n := blk.Size()
			res = "size:" + strconv.FormatInt(n, 10)
			if int(n) != len(full) {
				viol(step, op, "size")
			}
		case "iscached":
			res = "flag:" + tf(blk.IsCached())
		case "cache":
			was := blk.IsCached()
			err := blk.Cache()
			if err != nil {
				res = "err:" + sanitize(err.Error())
				if was || !accessed {
					viol(step, op, "cache failed although nothing was consumed")
				}
			} else {
				res = "ok"
			}
		case "raw", "pay":
			var r io.Reader
			var err error
			var want []byte
			cachedBefore := blk.IsCached()
			if f[0] == "raw" {
				r, err = blk.RawBytes()
				want = full
			} else {
				pb, ok := blk.(gowarc.PayloadBlock)
				if !ok || !(kind == "httpReq" || kind == "httpResp") {
					res = "na"
					break
				}
				r, err = pb.PayloadBytes()
				want = payload
			}
			if err != nil {
				res = "err:" + sanitize(err.Error())
				if cachedBefore || !accessed {
					viol(step, op, "content access failed on a cached or untouched block")
				}
				break
			}
			n := drainOf(len(want))
			// every other drain reads in pieces of exactly the spill threshold (a Read that ends where the part in memory ends),
			// the others with one buffer for everything
			var b []byte
			var rerr error
			if mem > 0 && n > mem && step%2 == 1 {
				for len(b) < n && rerr == nil {
					k := mem
					if n-len(b) < k {
						k = n - len(b)
					}
					var part []byte
					part, rerr = drainN(r, k)
					b = append(b, part...)
					if len(part) < k {
						break
					}
				}
			} else {
				b, rerr = drainN(r, n)
			}
			if rerr != nil {
				res = "readerr"
				break
			}
			res = "bytes:" + hx(b)
			exp := want
			if n < len(exp) {
				exp = exp[:n]
			}
			if !bytes.Equal(b, exp) {
				viol(step, op, fmt.Sprintf("reader yields different or partial data: got %d bytes, want %d", len(b), len(exp)))
			}
			accessed = true
		default:
			res = "bad-op"
		}
		outs = append(outs, res)
	}
	return kind + " " + strconv.Itoa(headLen) + " " + strings.Join(outs, ";"), oracle
}

func genC16(r *rng, n int, tier string, emit func(string, ...string)) {
	gen := func(sub *rng, opsN int) {
		isHttp := sub.chance(1, 2)
		var content []byte
		if isHttp {
			head := pick(sub, append(append([]string{}, httpRespHeads...), httpReqHeads...))
			content = []byte(head + pick(sub, payloadPool))
		} else {
			content = []byte(pick(sub, blockPool))
		}
		src := pick(sub, []string{"direct-cached", "direct-uncached", "direct-uncached", "built", "parsed"})
		fix := sub.chance(1, 2)
		if isHttp && (src == "built" || src == "parsed") && sub.chance(1, 3) {
			// a head without its terminating blank line (and then nothing behind it): with the repair on the block grows by a CRLF
			content = []byte(pick(sub, []string{"HTTP/1.1 200 OK\r\nServer: x\r\n", "HTTP/1.1 200 OK\r\nServer: x", "GET / HTTP/1.1\r\nHost: example.com\r\n",
				"GET / HTTP/1.1\r\nHost: example.com\r\nX-Pad: " + strings.Repeat("p", sub.intn(60)), "HTTP/1.0 404 Not Found\n", "POST /a HTTP/1.1\nHost: h\nContent-Length: 0\n"}))
			stat("block-head", "unterminated fix="+tf(fix))
		}
		mem := pick(sub, []int{1, 2, 5, 16, 40, 0})
		var ops []string
		for j := 0; j < opsN; j++ {
			var op string
			switch k := sub.intn(12); {
			case k < 2:
				op = "bd"
			case k < 3:
				op = "pd"
			case k < 4:
				op = "size"
			case k < 6:
				op = "cache"
			case k < 7:
				op = "iscached"
			case k < 10:
				op = "raw:" + pick(sub, []string{"all", "0", "1", "3", "20", "all", "1000"})
			default:
				op = "pay:" + pick(sub, []string{"all", "0", "2", "all"})
			}
			stat("block-op", strings.SplitN(op, ":", 2)[0])
			ops = append(ops, op)
		}
		stat("block-src", src)
		emit("block", fmt.Sprintf("src=%s;http=%s;mem=%d;spec=%d;adddig=%s;fixdig=%s;fix=%s", src, tf(isHttp), mem, sub.intn(3), tf(sub.chance(2, 3)), tf(sub.chance(2, 3)), tf(fix)), hx(content), strings.Join(ops, ";"))
	}
	for i := 0; i < n; i++ {
		sub := r.fork()
		gen(sub, sub.rangeInt(1, 8))
	}
	if tier == "thorough" {
		alphabet := []string{"bd", "pd", "size", "cache", "iscached", "raw:all", "raw:3", "raw:0", "pay:all", "pay:1"}
		for _, src := range []string{"direct-cached", "direct-uncached", "built", "parsed"} {
			for _, http := range []string{"t", "f"} {
				content := "hello world, generic block"
				if http == "t" {
					content = httpRespHeads[0] + "hello"
				}
				var rec func(prefix []string, depth int)
				rec = func(prefix []string, depth int) {
					if len(prefix) > 0 {
						emit("block", fmt.Sprintf("src=%s;http=%s;mem=7;spec=1", src, http), hxs(content), strings.Join(prefix, ";"))
					}
					if depth == 0 {
						return
					}
					for _, a := range alphabet {
						rec(append(append([]string{}, prefix...), a), depth-1)
					}
				}
				rec(nil, 4)
			}
		}
	}
}

func init() {
	kinds["block"] = kBlock
	gens["C16"] = genC16
}
