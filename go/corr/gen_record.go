package main

import (
	"bytes"
	"fmt"
	"strings"
)

type grec struct {
	version string
	rtype   string // WARC-Type value
	rtNum   int
	hdr     [][2]string // in order, including WARC-Type, excluding Content-Length / digests (added by serialize)
	block   []byte
	httpHead int // length of the http head inside block, -1 when the block is not http
	badHead  bool
	// declared values
	declLen     string // "" = truthful
	blockDigest string // "" = none, else field value
	payDigest   string
	truth       string
}

var rtNums = map[string]int{"warcinfo": 1, "response": 2, "resource": 4, "request": 8, "metadata": 16, "revisit": 32, "conversion": 64, "continuation": 128}

var blockPool = []string{
	"", "x", "hello world", "line1\nline2\n", "\r\n", "\r\n\r\n", "WARC/1.1\r\n", "\x1f\x8b\x08\x00", "a\r\n\r\nWARC/1.0\r\nWARC-Type: resource\r\nContent-Length: 0\r\n\r\n\r\n\r\n",
	"\x00\x01\x02\xff\xfe", strings.Repeat("abcdefghij", 12), "=?utf-8?q?x?=", "  lead and trail  ",
}

var httpRespHeads = []string{
	"HTTP/1.1 200 OK\r\nContent-Type: text/html\r\nContent-Length: 5\r\n\r\n",
	"HTTP/1.0 404 Not Found\r\n\r\n",
	"HTTP/1.1 200 OK\nServer: x\n\n",
	"HTTP/1.1 301 Moved\r\nLocation: http://example.com/\r\n\r\n",
	"HTTP/1.1 200 OK\r\nX-A: b\r\n \r\nX-C: d\r\n\r\n",          // a blank-only line of three bytes inside the head (a folded continuation, not the end)
	"HTTP/1.1 200 OK\r\nX-A: b\r\n \t \r\nX-C: d\r\n\r\n",       // ... of five bytes
	"HTTP/1.1 200 OK\r\nX-A: b\r\n folded\r\n\tmore\r\n\r\n", // folded header value
	"HTTP/1.1 204 No Content\r\nServer: x\r\n\r\n",
	"HTTP/1.1 200 OK\r\nX-A: b\n  \nX-C: d\n\n",
	"HTTP/1.1 200 OK\nServer: x\n\r\n",     // LF lines, CRLF blank line
	"HTTP/1.1 200 OK\r\nServer: x\r\n\n",   // CRLF lines, LF blank line
	"HTTP/1.1 200 OK\r\nServer: x\n\r\n",
}
var httpReqHeads = []string{
	"GET / HTTP/1.1\r\nHost: example.com\r\n\r\n",
	"POST /x?y=1 HTTP/1.0\r\nHost: example.com\r\nContent-Length: 3\r\n\r\n",
	"GET /a HTTP/1.1\nHost: h\n\n",
	"GET / HTTP/1.1\r\nHost: example.com\r\n \r\nX-C: d\r\n\r\n",
	"GET / HTTP/1.1\r\nHost: example.com\r\nX-F: a\r\n  b\r\n\r\n",
	"GET /m HTTP/1.1\nHost: h\n\r\n",
	"GET /m HTTP/1.1\r\nHost: h\r\n\n",
}

// bigHead: an HTTP head that does not fit a 4096-byte read buffer (or sits right at its edge)
func bigHead(r *rng, resp bool) string {
	var sb strings.Builder
	if resp {
		sb.WriteString("HTTP/1.1 200 OK\r\n")
	} else {
		sb.WriteString("GET /big HTTP/1.1\r\nHost: example.com\r\n")
	}
	target := pick(r, []int{3300, 3500, 4000, 4090, 4096, 4100, 5000, 6500})
	if r.chance(1, 3) {
		// ONE header line that is longer than a 4096-byte read buffer (or sits at its edge)
		fmt.Fprintf(&sb, "X-Long-Line: %s\r\n\r\n", strings.Repeat("q", pick(r, []int{4000, 4078, 4079, 4080, 4081, 5000, 20000})))
		return sb.String()
	}
	i := 0
	for sb.Len() < target {
		fmt.Fprintf(&sb, "Set-Cookie: c%d=%s; Path=/\r\n", i, strings.Repeat("v", 60+i%17))
		i++
	}
	sb.WriteString("\r\n")
	return sb.String()
}
var httpBadHeads = []string{
	"HTTP/1.1 200 OK\r\nContent-Type: text/html\r\n", // no terminator
	"GET / HTTP/1.1\r\nHost: example.com",             // no terminator, no newline
	"garbage\r\n\r\n", "HTTP\r\n\r\n", "GE", "HTTP/1.1 200 OK\r\nbad header line\r\n\r\n",
	// status lines cut at every position behind the protocol name (and request lines likewise)
	"HTTP/\r\n\r\n", "HTTP/1\r\n\r\n", "HTTP/1.1\r\n\r\n", "HTTP/1.1 \r\n\r\n", "HTTP/1.1 2\r\n\r\n", "HTTP/1.1 20\r\n\r\n", "HTTP/1.1 200\r\n\r\n",
	"HTTP/1.1 2", "HTTP/1.1 20", "HTTP/1.1  \r\n\r\n", "GET\r\n\r\n", "GET \r\n\r\n", "GET /\r\n\r\n", "GET / \r\n\r\n", "GET / HTTP\r\n\r\n",
}
var payloadPool = []string{"", "hello", "<html>\r\n\r\n</html>", "\x00\xff", strings.Repeat("p", 70), "WARC/1.1\r\n"}

func genRecord(r *rng) *grec {
	g := &grec{version: "1.1", httpHead: -1}
	if r.chance(1, 4) {
		g.version = "1.0"
	}
	types := []string{"warcinfo", "response", "resource", "request", "metadata", "revisit", "conversion", "continuation"}
	g.rtype = pick(r, types)
	g.rtNum = rtNums[g.rtype]
	typeSpelling := g.rtype
	switch r.intn(20) {
	case 0:
		typeSpelling = strings.ToUpper(g.rtype)
	case 2:
		typeSpelling = strings.ToUpper(g.rtype[:1]) + g.rtype[1:] // Response, Request, ...
	case 3:
		typeSpelling = g.rtype[:1] + strings.ToUpper(g.rtype[1:])
	case 1:
		g.rtype = pick(r, []string{"foo", "x-custom", "Response2"})
		typeSpelling = g.rtype
		g.rtNum = 0
	}
	add := func(n, v string) { g.hdr = append(g.hdr, [2]string{n, v}) }
	add("WARC-Type", typeSpelling)
	add("WARC-Record-ID", fmt.Sprintf("<urn:uuid:%08x-0000-4000-8000-%012x>", uint32(r.next()), r.next()&0xffffffffffff))
	date := pick(r, []string{"2020-01-02T03:04:05Z", "2017-03-06T04:03:53Z", "2022-12-31T23:59:59.123456Z", "2020-01-02T03:04:05+01:00"})
	if g.version == "1.0" {
		date = "2020-01-02T03:04:05Z"
	}
	add("WARC-Date", date)
	ct := ""
	switch g.rtype {
	case "warcinfo":
		ct = "application/warc-fields"
		g.block = []byte(pick(r, []string{"software: verif\r\nformat: WARC File Format 1.1\r\n", "software: x\r\n", ""}))
		if r.chance(1, 2) {
			add("WARC-Filename", "test.warc")
		}
	case "metadata":
		ct = "application/warc-fields"
		if r.chance(1, 6) {
			ct = pick(r, []string{"application/warc-fields ; charset=utf-8", "Application/WARC-Fields", "application/warc-fields;x=y", "application/warc-fields\t"})
		}
		g.block = []byte(pick(r, []string{"via: http://example.com/\r\nhopsFromSeed: P\r\n", "a: b\r\n"}))
		add("WARC-Refers-To", "<urn:uuid:aaaaaaaa-0000-4000-8000-000000000001>")
		if r.chance(1, 2) {
			add("WARC-Target-URI", "http://example.com/")
		}
	case "response", "request":
		isResp := g.rtype == "response"
		head := pick(r, httpRespHeads)
		if !isResp {
			head = pick(r, httpReqHeads)
		}
		if r.chance(1, 5) {
			head = pick(r, httpBadHeads) // no terminator, garbage, too short ...
			g.badHead = true
		} else if r.chance(1, 14) {
			head = bigHead(r, isResp)
		}
		ct = "application/http;msgtype=" + g.rtype
		if r.chance(1, 5) {
			ct = pick(r, []string{"application/http; msgtype=" + g.rtype, "Application/HTTP", "application/http",
				// optional white space around the ';' (RFC 7231 3.1.1.1), other letter case, further parameters
				"application/http ; msgtype=" + g.rtype, "application/http ;msgtype=" + g.rtype, "Application/HTTP\t; msgtype=" + g.rtype,
				"APPLICATION/HTTP;MSGTYPE=" + strings.ToUpper(g.rtype), "application/http;msgtype=" + g.rtype + ";charset=utf-8", "application/http "})
		}
		pl := pick(r, payloadPool)
		if !strings.HasSuffix(head, "\n\r\n") && !strings.HasSuffix(head, "\n\n") {
			pl = "" // a head without terminator swallows everything that follows
		}
		g.block = []byte(head + pl)
		g.httpHead = len(head)
		add("WARC-Target-URI", pick(r, []string{"http://example.com/", "https://www.example.org/a/b?c=d", "http://example.com/%7Euser", "HTTP://EXAMPLE.com:80/a/../b", "http://example.com/%7euser?q=a+b#frag"}))
		if r.chance(1, 2) {
			add("WARC-IP-Address", pick(r, []string{"192.0.2.1", "2001:db8::1", "2001:DB8:0:0:0:0:0:1", "2001:0db8::0001", "::ffff:192.0.2.1", "2001:db8::"}))
		}
		if r.chance(1, 6) {
			ct = "text/plain" // http-looking block with another content type: generic
			g.httpHead = -1
		}
	case "revisit":
		head := pick(r, httpRespHeads)
		if r.chance(1, 10) {
			head = bigHead(r, true)
		}
		g.block = []byte(head)
		ct = "application/http;msgtype=response"
		add("WARC-Target-URI", "http://example.com/")
		add("WARC-Profile", pick(r, []string{"http://netpreserve.org/warc/1.1/revisit/identical-payload-digest", "http://netpreserve.org/warc/1.0/revisit/server-not-modified"}))
		add("WARC-Refers-To", "<urn:uuid:aaaaaaaa-0000-4000-8000-000000000002>")
		if g.version == "1.1" && r.chance(1, 2) {
			add("WARC-Refers-To-Target-URI", "http://example.com/")
			add("WARC-Refers-To-Date", "2019-01-01T00:00:00Z")
		}
		if r.chance(1, 2) {
			add("WARC-Truncated", "length")
		}
	case "continuation":
		ct = ""
		g.block = []byte(pick(r, blockPool))
		add("WARC-Target-URI", "http://example.com/")
		add("WARC-Segment-Origin-ID", "<urn:uuid:aaaaaaaa-0000-4000-8000-000000000003>")
		// valid spellings that are not the canonical rendering of the number: a validator must not hand back a re-rendered value
		add("WARC-Segment-Number", pick(r, []string{"2", "2", "2", "007", "02", "10"}))
		if r.chance(1, 2) {
			add("WARC-Segment-Total-Length", pick(r, []string{"1234", "1234", "01234", "0"}))
		}
	default: // resource, conversion, unknown
		ct = pick(r, []string{"text/plain", "application/octet-stream", "image/png", "text/html; charset=utf-8"})
		g.block = []byte(pick(r, blockPool))
		if r.chance(1, 8) {
			g.block = r.bytes(r.rangeInt(0, 150))
		} else if r.chance(1, 20) {
			g.block = r.bytes(r.rangeInt(4000, 9000)) // larger than the read buffers in front of the parser
		}
		add("WARC-Target-URI", pick(r, []string{"http://example.com/", "file:///tmp/x", "urn:x:y"}))
		if g.rtype == "conversion" && r.chance(1, 2) {
			add("WARC-Refers-To", "<urn:uuid:aaaaaaaa-0000-4000-8000-000000000004>")
		}
	}
	if ct != "" {
		add("Content-Type", ct)
	}
	if r.chance(1, 5) {
		add(pick(r, []string{"X-Custom", "x-foo", "WARC-Identified-Payload-Type", "WARC-Page-ID"}), pick(r, []string{"v", "a b", "text/html", "a: b", "form feed at end\f", "nbsp\xc2\xa0", "\xe3\x80\x80", "\vvt",
			"=?windows-1252?Q?caf=E9_du_coin?=", "=?utf-8?q?caf=C3=A9?=", "=?koi8-r?b?8NLJ18XU?="}))
	}
	if r.chance(1, 30) {
		add("X-Long", strings.Repeat("L", r.rangeInt(4000, 5200))) // a header line that does not fit a 4096-byte read buffer
	}
	if g.rtNum != 1 && r.chance(1, 4) {
		add("WARC-Warcinfo-ID", "<urn:uuid:aaaaaaaa-0000-4000-8000-00000000000f>")
	}
	if r.chance(1, 6) && g.rtNum&62 != 0 {
		add("WARC-Concurrent-To", "<urn:uuid:aaaaaaaa-0000-4000-8000-0000000000c1>")
		if r.chance(1, 2) {
			add("WARC-Concurrent-To", "<urn:uuid:aaaaaaaa-0000-4000-8000-0000000000c2>")
		}
	}
	return g
}

// declare adds (truthful or wrong) digest fields and length according to the draws; records the truth.
func (g *grec) declare(r *rng, allowWrong bool) {
	lenT, bdT, pdT := "ok", "none", "na"
	isHttpKind := g.httpHead >= 0 && g.rtNum&(2|8|4|64|128) != 0
	payloadRelevant := isHttpKind || g.rtNum == 4
	if payloadRelevant {
		pdT = "none"
	}
	if r.chance(1, 2) {
		alg := pick(r, algNames)
		enc := r.rangeInt(1, 3)
		v := stdEncode(enc, sumOf(alg, g.block))
		if enc != 3 {
			v = recase(r, v)
		}
		bdT = "ok"
		if allowWrong && r.chance(1, 4) {
			v = stdEncode(enc, sumOf(alg, append(append([]byte{}, g.block...), 'x')))
			bdT = "bad"
		}
		g.blockDigest = spellAlg(r, alg) + ":" + v
		if r.chance(1, 14) {
			g.blockDigest = spellAlg(r, alg) + ":" + pick(r, []string{" ", "\t", "  "}) + v // white space behind the colon: not a digest value
			if bdT == "ok" {
				bdT = "bad"
			}
		}
	}
	if payloadRelevant && g.rtNum != 32 && r.chance(1, 2) {
		alg := pick(r, algNames)
		enc := r.rangeInt(1, 3)
		pl := g.block
		if isHttpKind {
			pl = g.block[g.httpHead:]
		}
		v := stdEncode(enc, sumOf(alg, pl))
		pdT = "ok"
		if allowWrong && r.chance(1, 4) {
			v = stdEncode(enc, sumOf(alg, append(append([]byte{}, pl...), 'y')))
			pdT = "bad"
		}
		g.payDigest = spellAlg(r, alg) + ":" + v
	}
	if allowWrong && r.chance(1, 6) {
		d := pick(r, []int{-3, -2, -1, 1, 2, 3})
		n := len(g.block) + d
		if n >= 0 {
			g.declLen = fmt.Sprint(n)
			lenT = "bad"
			// a shorter length whose cut is followed by CR LF CR LF is a well-formed record followed by junk
			// (DESIGN 5.0, reading of C03): not judged
			tail := append(append([]byte{}, g.block...), '\r', '\n', '\r', '\n')
			if d < 0 && bytes.HasPrefix(tail[n:], []byte("\r\n\r\n")) {
				lenT = "ambiguous"
			}
		}
	}
	g.truth = fmt.Sprintf("len=%s;bd=%s;pd=%s;clean=%s", lenT, bdT, pdT, tf(!g.badHead))
}

func (g *grec) fields() [][2]string {
	h := append([][2]string{}, g.hdr...)
	cl := fmt.Sprint(len(g.block))
	if g.declLen != "" {
		cl = g.declLen
	}
	h = append(h, [2]string{"Content-Length", cl})
	if g.blockDigest != "" {
		h = append(h, [2]string{"WARC-Block-Digest", g.blockDigest})
	}
	if g.payDigest != "" {
		h = append(h, [2]string{"WARC-Payload-Digest", g.payDigest})
	}
	return h
}

func (g *grec) serialize() []byte {
	var sb bytes.Buffer
	sb.WriteString("WARC/" + g.version + "\r\n")
	for _, nv := range g.fields() {
		sb.WriteString(nv[0] + ": " + nv[1] + "\r\n")
	}
	sb.WriteString("\r\n")
	sb.Write(g.block)
	sb.WriteString("\r\n\r\n")
	return sb.Bytes()
}

func pairsArg(p [][2]string) string {
	if len(p) == 0 {
		return "-"
	}
	var l []string
	for _, nv := range p {
		l = append(l, hxs(nv[0])+":"+hxs(nv[1]))
	}
	return strings.Join(l, ",")
}
