package main

import (
	"bytes"
	"fmt"
	"io"
	"strconv"
	"strings"

	gowarc "github.com/nlnwa/gowarc/v2"
)

// onceFailWriter accepts `at` bytes in total, fails ONCE on the write that would go beyond them (after taking the part
// that still fits, like a volume that is full for a moment or an interrupted write), and accepts everything afterwards.
type onceFailWriter struct {
	got    bytes.Buffer
	at     int
	failed bool
}

func (w *onceFailWriter) Write(p []byte) (int, error) {
	if !w.failed && w.got.Len()+len(p) > w.at {
		w.failed = true
		k := w.at - w.got.Len()
		if k < 0 {
			k = 0
		}
		w.got.Write(p[:k])
		return k, fmt.Errorf("verif: write fault after %d bytes", w.at)
	}
	return w.got.Write(p)
}

// writeFaultCheck runs a serializer against writers that fail once at a few positions of the output: it must either
// report an error, or have delivered the complete output and the right count. A swallowed write error leaves a hole in
// what reached the writer while the caller is told all is well. Returns "" or a description.
func writeFaultCheck(full []byte, ser func(w io.Writer) (int64, error)) string {
	if len(full) == 0 {
		return ""
	}
	for _, at := range []int{0, 1, len(full) / 3, len(full) / 2, len(full) - 1} {
		if at < 0 || at >= len(full) {
			continue
		}
		fw := &onceFailWriter{at: at}
		n, err := ser(fw)
		if err == nil && (!bytes.Equal(fw.got.Bytes(), full) || n != int64(len(full))) {
			return fmt.Sprintf("writer failed once after %d of %d bytes: no error returned, count=%d, %d bytes reached the writer", at, len(full), n, fw.got.Len())
		}
	}
	return ""
}

// wfault <fields> <budget>: the fields are added through the API and written to a writer that fails once after <budget>
// bytes: the count Write returns, whether it returns an error, and what reached the writer (model: Fields.writeTo,
// theorem C19_write_all_or_error)
func kWfault(args []string) (string, string) {
	wf := &gowarc.WarcFields{}
	if args[0] != "-" {
		for _, kv := range strings.Split(args[0], ",") {
			f := strings.Split(kv, ":")
			wf.Add(unhxs(f[0]), unhxs(f[1]))
		}
	}
	budget, _ := strconv.Atoi(args[1])
	full := wf.String()
	fw := &onceFailWriter{at: budget}
	n, err := wf.Write(fw)
	oracle := "ok"
	if err == nil && (fw.got.String() != full || n != int64(len(full))) {
		oracle = fmt.Sprintf("VIOL api-roundtrip-write-fault no error, count=%d, %d of %d bytes reached the writer", n, fw.got.Len(), len(full))
	}
	if err != nil && (int64(fw.got.Len()) != n || !strings.HasPrefix(full, fw.got.String())) {
		oracle = fmt.Sprintf("VIOL api-roundtrip-write-count error returned with count=%d but %d bytes reached the writer", n, fw.got.Len())
	}
	return fmt.Sprintf("n=%d err=%s got=%d:%s", n, tf(err != nil), fw.got.Len(), hx(fw.got.Bytes())), oracle
}

func genWfault(r *rng, n int, emit func(string, ...string)) {
	names := []string{"WARC-Type", "warc-date", "X-Foo", "Content-Length", "WARC-Target-URI", "x", "WARC-Record-ID"}
	for i := 0; i < n; i++ {
		var l []string
		total := 0
		for k := r.rangeInt(0, 6); k > 0; k-- {
			nm := pick(r, names)
			v := string(r.bytes(r.intn(30)))
			v = strings.Map(func(c rune) rune {
				if c == '\r' || c == '\n' {
					return 'x'
				}
				return c
			}, v)
			l = append(l, hxs(nm)+":"+hxs(v))
			total += len(nm) + len(v) + 4
		}
		arg := "-"
		if len(l) > 0 {
			arg = strings.Join(l, ",")
		}
		emit("wfault", arg, strconv.Itoa(r.intn(total+3)))
		stat("wfault", "case")
	}
}

func init() { kinds["wfault"] = kWfault }
