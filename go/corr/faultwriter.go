package main

import (
	"bytes"
	"fmt"
	"io"
)

// onceFailWriter accepts `at` bytes in total, fails ONCE on the write that would go beyond them (after taking the part
// that still fits, like a volume that is full for a moment or an interrupted write), and accepts everything afterwards.
type onceFailWriter struct {
	got    bytes.Buffer
	at     int
	failed bool
}

func (w *onceFailWriter) Write(p []byte) (int, error) {
	if !w.failed && w.got.Len()+len(p) > w.at {
		w.failed = true
		k := w.at - w.got.Len()
		if k < 0 {
			k = 0
		}
		w.got.Write(p[:k])
		return k, fmt.Errorf("verif: write fault after %d bytes", w.at)
	}
	return w.got.Write(p)
}

// writeFaultCheck runs a serializer against writers that fail once at a few positions of the output: it must either
// report an error, or have delivered the complete output and the right count. A swallowed write error leaves a hole in
// what reached the writer while the caller is told all is well. Returns "" or a description.
func writeFaultCheck(full []byte, ser func(w io.Writer) (int64, error)) string {
	if len(full) == 0 {
		return ""
	}
	for _, at := range []int{0, 1, len(full) / 3, len(full) / 2, len(full) - 1} {
		if at < 0 || at >= len(full) {
			continue
		}
		fw := &onceFailWriter{at: at}
		n, err := ser(fw)
		if err == nil && (!bytes.Equal(fw.got.Bytes(), full) || n != int64(len(full))) {
			return fmt.Sprintf("writer failed once after %d of %d bytes: no error returned, count=%d, %d bytes reached the writer", at, len(full), n, fw.got.Len())
		}
	}
	return ""
}
