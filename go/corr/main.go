// corr is the correspondence harness: it generates cases, runs the real gowarc implementation on them
// (built from /repo's working tree with -tags verif and the export overlay), evaluates the property
// oracles on the implementation's behaviour, and writes the case lines that the Lean driver replays.
//
//	corr run <prop> <seed> <n> <outdir> [tier]   generate + execute (child worker processes)
//	corr worker                                    stdin: "id kind args..." -> stdout: "id\timpl\toracle"
//	corr exec <file>                               run the cases of a file in-process (replay)
package main

import (
	"bufio"
	"encoding/json"
	"fmt"
	"os"
	"os/exec"
	"runtime"
	"runtime/debug"
	"sort"
	"strconv"
	"strings"
	"sync"
	"syscall"
	"time"
)

// A kind executes one case line against the implementation.
// It returns the canonical implementation outcome and the oracle verdict ("ok" or "VIOL <sig> <detail>").
type kindFunc func(args []string) (impl string, oracle string)

var kinds = map[string]kindFunc{}

// A generator produces the case lines (without id) of one property.
type genFunc func(r *rng, n int, tier string, emit func(kind string, args ...string))

var gens = map[string]genFunc{}

func runCase(line string) (id, impl, oracle string) {
	parts := strings.Split(line, " ")
	if len(parts) < 2 {
		return "?", "bad-line", "ok"
	}
	id = parts[0]
	k, ok := kinds[parts[1]]
	if !ok {
		return id, "unknown-kind", "ok"
	}
	defer func() {
		if rec := recover(); rec != nil {
			impl = "panic " + panicSite(debug.Stack())
			oracle = "VIOL panic " + sanitize(fmt.Sprint(rec))
		}
	}()
	impl, oracle = k(parts[2:])
	return
}

func sanitize(s string) string {
	s = strings.Map(func(r rune) rune {
		if r < 32 || r > 126 {
			return '_'
		}
		if r == ' ' || r == '\t' {
			return '_'
		}
		return r
	}, s)
	if len(s) > 160 {
		s = s[:160]
	}
	return s
}

// panicSite returns the first gowarc frame (function name) of a stack trace.
func panicSite(stack []byte) string {
	lines := strings.Split(string(stack), "\n")
	for _, l := range lines {
		if strings.HasPrefix(l, "github.com/nlnwa/gowarc/v2") && !strings.Contains(l, "Verif") {
			if i := strings.LastIndex(l, "("); i > 0 {
				l = l[:i]
			}
			l = strings.TrimPrefix(l, "github.com/nlnwa/gowarc/v2")
			return sanitize(l)
		}
	}
	return "unknown"
}

func workerMain() {
	// cap the address space so a runaway case cannot take the machine down
	var lim syscall.Rlimit
	lim.Cur, lim.Max = 6<<30, 6<<30
	_ = syscall.Setrlimit(syscall.RLIMIT_AS, &lim)
	debug.SetMemoryLimit(3 << 30)
	in := bufio.NewReaderSize(os.Stdin, 1<<20)
	out := bufio.NewWriter(os.Stdout)
	for {
		line, err := in.ReadString('\n')
		if line == "" && err != nil {
			return
		}
		line = strings.TrimRight(line, "\r\n")
		if line == "" {
			continue
		}
		id, impl, oracle := runCase(line)
		fmt.Fprintf(out, "%s\t%s\t%s\n", id, impl, oracle)
		out.Flush()
	}
}

type result struct {
	id     int
	impl   string
	oracle string
}

type worker struct {
	cmd *exec.Cmd
	in  *bufio.Writer
	out *bufio.Reader
	pw  interface{ Close() error }
}

func startWorker() *worker {
	cmd := exec.Command(os.Args[0], "worker")
	cmd.Stderr = os.Stderr
	cmd.Env = append(os.Environ(), "GOTRACEBACK=single")
	stdin, _ := cmd.StdinPipe()
	stdout, _ := cmd.StdoutPipe()
	if err := cmd.Start(); err != nil {
		fmt.Fprintln(os.Stderr, "corr: cannot start worker:", err)
		os.Exit(2)
	}
	return &worker{cmd: cmd, in: bufio.NewWriter(stdin), out: bufio.NewReaderSize(stdout, 1<<20), pw: stdin}
}

func (w *worker) kill() {
	_ = w.cmd.Process.Kill()
	_, _ = w.cmd.Process.Wait()
}

func (w *worker) stop() {
	_ = w.pw.Close()
	done := make(chan struct{})
	go func() { _ = w.cmd.Wait(); close(done) }()
	select {
	case <-done:
	case <-time.After(2 * time.Second):
		w.kill()
	}
}

// runAll executes the case lines on a pool of child processes with a per-case deadline.
func runAll(lines []string, deadline time.Duration) []result {
	nw := runtime.NumCPU()
	if nw > 16 {
		nw = 16
	}
	if len(lines) < 64 {
		nw = 1
	}
	res := make([]result, len(lines))
	var wg sync.WaitGroup
	next := make(chan int, len(lines))
	for i := range lines {
		next <- i
	}
	close(next)
	for k := 0; k < nw; k++ {
		wg.Add(1)
		go func() {
			defer wg.Done()
			w := startWorker()
			defer func() { w.stop() }()
			for i := range next {
				line := lines[i]
				type rd struct {
					s   string
					err error
				}
				ch := make(chan rd, 1)
				_, _ = w.in.WriteString(line + "\n")
				_ = w.in.Flush()
				go func(out *bufio.Reader) {
					s, err := out.ReadString('\n')
					ch <- rd{s, err}
				}(w.out)
				select {
				case r := <-ch:
					if r.err != nil {
						// worker died (fatal error, OOM): restart
						w.kill()
						res[i] = result{i, "crash", "VIOL crash worker-died"}
						w = startWorker()
						continue
					}
					f := strings.SplitN(strings.TrimRight(r.s, "\n"), "\t", 3)
					if len(f) != 3 {
						res[i] = result{i, "garbled", "VIOL garbled " + sanitize(r.s)}
						continue
					}
					res[i] = result{i, f[1], f[2]}
				case <-time.After(deadline):
					w.kill()
					res[i] = result{i, "hang", "VIOL hang no-answer-within-" + deadline.String()}
					w = startWorker()
				}
			}
		}()
	}
	wg.Wait()
	return res
}

func main() {
	if len(os.Args) < 2 {
		fmt.Fprintln(os.Stderr, "usage: corr run|worker|exec ...")
		os.Exit(2)
	}
	switch os.Args[1] {
	case "worker":
		workerMain()
	case "crashchild":
		crashChild(os.Args[2:])
	case "racechild":
		raceChild(os.Args[2:])
	case "exec":
		// in-process, for replay: prints "id impl oracle"
		data, err := os.ReadFile(os.Args[2])
		if err != nil {
			fmt.Fprintln(os.Stderr, err)
			os.Exit(2)
		}
		var lines []string
		for _, l := range strings.Split(string(data), "\n") {
			l = strings.TrimSpace(l)
			if l == "" || strings.HasPrefix(l, "#") {
				continue
			}
			lines = append(lines, l)
		}
		rs := runAll(lines, 20*time.Second)
		for i, r := range rs {
			impl, _ := splitAug(r.impl)
			fmt.Printf("%s\t%s\t%s\n", strings.SplitN(lines[i], " ", 2)[0], impl, r.oracle)
		}
	case "run":
		if len(os.Args) < 6 {
			fmt.Fprintln(os.Stderr, "usage: corr run <prop> <seed> <n> <outdir> [tier] [corpusfile...]")
			os.Exit(2)
		}
		prop := os.Args[2]
		seed, _ := strconv.ParseUint(os.Args[3], 10, 64)
		n, _ := strconv.Atoi(os.Args[4])
		outdir := os.Args[5]
		tier := "quick"
		if len(os.Args) > 6 {
			tier = os.Args[6]
		}
		g, ok := gens[prop]
		if !ok {
			fmt.Fprintln(os.Stderr, "corr: no generator for", prop)
			os.Exit(2)
		}
		var lines []string
		kindCount := map[string]int{}
		// corpus first
		var corpusFiles []string
		if len(os.Args) > 7 {
			corpusFiles = os.Args[7:]
		}
		for _, cf := range corpusFiles {
			data, err := os.ReadFile(cf)
			if err != nil {
				continue
			}
			for _, l := range strings.Split(string(data), "\n") {
				l = strings.TrimSpace(l)
				if l == "" || strings.HasPrefix(l, "#") {
					continue
				}
				f := strings.SplitN(l, " ", 2)
				if len(f) == 2 {
					lines = append(lines, fmt.Sprintf("%d %s", len(lines), f[1]))
					kindCount["corpus"]++
				}
			}
		}
		r := newRng(seed)
		g(r, n, tier, func(kind string, args ...string) {
			lines = append(lines, fmt.Sprintf("%d %s %s", len(lines), kind, strings.Join(args, " ")))
			kindCount[kind]++
		})
		t0 := time.Now()
		rs := runAll(lines, caseDeadline(prop))
		_ = os.MkdirAll(outdir, 0o755)
		cf, _ := os.Create(outdir + "/cases.txt")
		cw := bufio.NewWriterSize(cf, 1<<20)
		imf, _ := os.Create(outdir + "/impl.txt")
		iw := bufio.NewWriterSize(imf, 1<<20)
		of, _ := os.Create(outdir + "/oracle.txt")
		ow := bufio.NewWriterSize(of, 1<<20)
		outcomeHist := map[string]int{}
		viol := 0
		for i, l := range lines {
			// a kind may hand data it measured on the implementation to the model (sizes of compressed members, ...):
			// "<outcome> @@ <extra case argument>"
			var aug string
			rs[i].impl, aug = splitAug(rs[i].impl)
			if aug != "" {
				l += " " + aug
			}
			fmt.Fprintln(cw, l)
			fmt.Fprintf(iw, "%d %s\n", i, rs[i].impl)
			fmt.Fprintf(ow, "%d %s\n", i, rs[i].oracle)
			outcomeHist[outcomeClass(rs[i].impl)]++
			if rs[i].oracle != "ok" {
				viol++
			}
		}
		cw.Flush()
		iw.Flush()
		ow.Flush()
		cf.Close()
		imf.Close()
		of.Close()
		st := map[string]any{
			"cases":         len(lines),
			"kinds":         kindCount,
			"outcome_hist":  topN(outcomeHist, 40),
			"oracle_viol":   viol,
			"impl_wall_s":   time.Since(t0).Seconds(),
			"gen_stats":     genStats,
		}
		b, _ := json.MarshalIndent(st, "", " ")
		_ = os.WriteFile(outdir+"/stats.json", b, 0o644)
	default:
		fmt.Fprintln(os.Stderr, "unknown mode", os.Args[1])
		os.Exit(2)
	}
}

func splitAug(impl string) (string, string) {
	if i := strings.Index(impl, " @@ "); i >= 0 {
		return impl[:i], impl[i+4:]
	}
	return impl, ""
}

// genStats is filled by generators with the distribution they actually produced.
var genStats = map[string]map[string]int{}

func stat(group, key string) {
	m, ok := genStats[group]
	if !ok {
		m = map[string]int{}
		genStats[group] = m
	}
	m[key]++
}

func caseDeadline(prop string) time.Duration {
	switch prop {
	case "C09", "C10", "C11", "C12":
		return 60 * time.Second
	}
	return 10 * time.Second
}

// outcomeClass reduces an outcome line to its leading tokens for the histogram.
func outcomeClass(s string) string {
	f := strings.Fields(s)
	if len(f) == 0 {
		return "empty"
	}
	c := f[0]
	if len(c) > 24 {
		c = c[:24]
	}
	if (c == "err" || c == "panic") && len(f) > 1 {
		c += " " + f[1]
	}
	return c
}

func topN(m map[string]int, n int) map[string]int {
	type kv struct {
		k string
		v int
	}
	var l []kv
	for k, v := range m {
		l = append(l, kv{k, v})
	}
	sort.Slice(l, func(i, j int) bool { return l[i].v > l[j].v })
	out := map[string]int{}
	for i, e := range l {
		if i >= n {
			out["(other)"] += e.v
			continue
		}
		out[e.k] = e.v
	}
	return out
}
