package main

import (
	"bytes"
	"strings"
	"strconv"

	kgzip "github.com/klauspost/compress/gzip"
)

// mutateRecord: structural and byte-level damage to a serialized record
func mutateRecord(r *rng, b []byte) []byte {
	n := 1
	if r.chance(1, 4) {
		n = r.rangeInt(2, 4)
	}
	for i := 0; i < n; i++ {
		b = mutate(r, b)
	}
	if r.chance(1, 6) && len(b) > 0 {
		b = b[:r.intn(len(b))]
	}
	return b
}

// genUnmarshalCases: valid records (with tails), declared-value variants with truth, mutated records
func genUnmarshalCases(r *rng, n int, emit func(string, ...string), forceOpts func(*rng) ropts) {
	for i := 0; i < n; i++ {
		sub := r.fork()
		g := genRecord(sub)
		o := forceOpts(sub)
		fault := false
		var data []byte
		truth := ""
		switch k := sub.intn(13); {
		case k == 12: // a clean, truthful HTTP record with ONE header line around / beyond the size of a 4096-byte read buffer:
			// nothing is missing, so no repair may touch it (syntax repair on or off)
			for tries := 0; tries < 60 && !(g.httpHead >= 0 && (g.rtype == "response" || g.rtype == "request") && !g.badHead); tries++ {
				g = genRecord(sub)
			}
			if g.httpHead >= 0 && !g.badHead {
				first := "HTTP/1.1 200 OK\r\n"
				if g.rtype == "request" {
					first = "GET /long HTTP/1.1\r\nHost: example.com\r\n"
				}
				n := pick(sub, []int{4078, 4079, 4080, 4081, 4082, 4083, 4084, 5000, 8179, 8180, 8181, 20000})
				head := first + "X-Long-Line: " + strings.Repeat("q", n) + "\r\n\r\n"
				g.block = []byte(head + pick(sub, payloadPool))
				g.httpHead = len(head)
			}
			g.declare(sub, false)
			data = g.serialize()
			truth = g.truth
			o.fixsyn = sub.chance(3, 4)
			stat("unm-class", "http-long-line")
		case k == 11: // an HTTP record whose Content-Type is spelled unusually (white space around ';', letter case, further
			// parameters), with a WRONG payload digest and everything else truthful: the block must still be taken for HTTP
			for tries := 0; tries < 60 && !(g.httpHead >= 0 && (g.rtype == "response" || g.rtype == "request") && !g.badHead); tries++ {
				g = genRecord(sub)
			}
			for k := range g.hdr {
				if g.hdr[k][0] == "Content-Type" && g.httpHead >= 0 {
					g.hdr[k][1] = pick(sub, []string{"application/http ; msgtype=" + g.rtype, "application/http ;msgtype=" + g.rtype, "Application/HTTP\t; msgtype=" + g.rtype,
						"APPLICATION/HTTP;MSGTYPE=" + strings.ToUpper(g.rtype), "application/http;msgtype=" + g.rtype + ";charset=utf-8", "application/http ", "application/http"})
				}
			}
			for tries := 0; tries < 60; tries++ {
				g.blockDigest, g.payDigest, g.declLen = "", "", ""
				g.declare(sub, true)
				if strings.Contains(g.truth, "pd=bad") && strings.Contains(g.truth, "len=ok") && !strings.Contains(g.truth, "bd=bad") {
					break
				}
			}
			data = g.serialize()
			truth = g.truth
			if o.spec == 0 {
				o.spec = sub.rangeInt(1, 2)
			}
			stat("unm-class", "http-ct-spelling")
		case k == 10: // a warc-fields block (warcinfo / metadata) that is itself damaged, with and without the block repair
			for tries := 0; tries < 40 && g.rtype != "warcinfo" && g.rtype != "metadata"; tries++ {
				g = genRecord(sub)
			}
			g.block = []byte(pick(sub, []string{"a: b\r\n c", "a: b\r\n\tcont", "no colon line\r\n", "no colon", "", "\r\n", " leading continuation\r\n",
				"a: b\n", "a: b\r\nc", "x", ":\r\n", "a: =?utf-8?q?=ZZ?=\r\n", "a: b\r\n\r\nafter: end\r\n", "\x00\xff: \x01\r\n", "a: b\r\n \r\n", "\t\r\n",
				"x\r\n\rfoo", "a: b\r\n\r", "nocolon\r\n\rX\r\n", "a b\n\nrest", "x\n\nyyy\n"}))
			o.fixwf = sub.chance(2, 3)
			o.blk = sub.intn(3)
			g.declare(sub, false)
			data = g.serialize()
			stat("unm-class", "wf-damaged")
		case k < 3: // clean record with truthful or wrong declarations
			g.declare(sub, true)
			data = g.serialize()
			truth = g.truth
			stat("unm-class", "declared")
		case k < 5: // clean, followed by something
			g.declare(sub, false)
			data = g.serialize()
			truth = g.truth
			data = append(data, pick(sub, []string{"", "WARC/1.1\r\n", "junk", "\r\n", "\x1f\x8b"})...)
			stat("unm-class", "clean+tail")
		case k < 6: // leading junk
			g.declare(sub, false)
			junk := pick(sub, []string{"\r\n", "xx", "\n", "WARC", "junk junk ", "\x1f", "ab\x1f", "\x1f\x1f", "\x8b\x1f", "junk\x1fjunk", strings.Repeat("j", 62) + "\x1f", strings.Repeat("j", 63)})
			rec := g.serialize()
			if sub.chance(1, 3) {
				// junk in front of a gzip member: a read chunk may split the two magic bytes
				var zb bytes.Buffer
				zw := kgzip.NewWriter(&zb)
				_, _ = zw.Write(rec)
				_ = zw.Close()
				rec = zb.Bytes()
			}
			data = append([]byte(junk), rec...)
			if sub.chance(1, 4) {
				data = append(data, pick(sub, []string{"\x1f", "zz\x1f", "\x1f\x8b"})...)
			}
			stat("unm-class", "junk+clean")
		case k < 7: // hostile Content-Length
			g.declare(sub, false)
			g.declLen = pick(sub, []string{"9223372036854775807", "9223372036854775808", "99999999999999999999", "-1", "-513", "-9223372036854775808",
				"268435456", "4294967296", "00000000000000000005", "1e3", "0x10", " 12"})
			data = g.serialize()
			stat("unm-class", "hostile-length")
		default:
			g.declare(sub, false)
			data = mutateRecord(sub, g.serialize())
			fault = sub.chance(1, 8)
			stat("unm-class", "mutated")
		}
		if sub.chance(1, 5) {
			// the same bytes as one gzip member (what the file writer produces), possibly damaged
			var zb bytes.Buffer
			zw := kgzip.NewWriter(&zb)
			_, _ = zw.Write(data)
			_ = zw.Close()
			z := zb.Bytes()
			switch sub.intn(6) {
			case 0:
				z = z[:sub.intn(len(z))] // truncated member
				truth = ""
			case 1:
				z = mutate(sub, z)
				truth = ""
			case 2:
				z = append(z, pick(sub, []string{"tail", "\x1f\x8b", "WARC/1.1\r\n"})...)
			}
			data = z
			stat("unm-class2", "gzip")
		}
		stat("unm-type", g.rtype)
		stat("unm-len", strconv.Itoa(len(data)/100*100))
		args := []string{o.String(), tf(fault), hx(data), oraclesForStream(data, o.syn)}
		if truth != "" && !fault {
			args = append(args, truth)
		}
		emit("unmarshal", args...)
	}
}
