package main

import (
	"bufio"
	"fmt"
	"io"
	"os"
	"os/exec"
	"path/filepath"
	"regexp"
	"sort"
	"strconv"
	"strings"
	"syscall"
	"time"

	gowarc "github.com/nlnwa/gowarc/v2"
)

// ---- C12: file-system effects of the writer and what a kill leaves behind

// killMarshaler passes the record to the default marshaler through a writer that SIGKILLs the process after a byte budget.
type killMarshaler struct {
	inner  gowarc.Marshaler
	budget *int64 // < 0: never
}

type killWriter struct {
	w      io.Writer
	budget *int64
}

func (k *killWriter) Write(p []byte) (int, error) {
	if *k.budget >= 0 && int64(len(p)) > *k.budget {
		n, _ := k.w.Write(p[:*k.budget])
		_ = n
		_ = syscall.Kill(os.Getpid(), syscall.SIGKILL)
		time.Sleep(10 * time.Second)
	}
	if *k.budget >= 0 {
		*k.budget -= int64(len(p))
	}
	return k.w.Write(p)
}

func (m *killMarshaler) Marshal(w io.Writer, record gowarc.WarcRecord, maxSize int64) (gowarc.WarcRecord, int64, error) {
	return m.inner.Marshal(&killWriter{w: w, budget: m.budget}, record, maxSize)
}

// crashChild runs the workload: crashchild <cfg> <ops> <dir> <killAfterBytes>
func crashChild(args []string) {
	cfg := kvParse(args[0])
	dir := args[2]
	budget, _ := strconv.ParseInt(args[3], 10, 64)
	max, _ := strconv.ParseInt(cfg["max"], 10, 64)
	comp := cfg["comp"] == "t"
	rnum, _ := strconv.Atoi(cfg["rnum"])
	rden, _ := strconv.Atoi(cfg["rden"])
	if rden == 0 {
		rnum, rden = 1, 1
	}
	out := filepath.Join(dir, "out")
	acks, err := os.OpenFile(filepath.Join(dir, "acks.log"), os.O_CREATE|os.O_WRONLY|os.O_APPEND, 0o644)
	if err != nil {
		os.Exit(3)
	}
	gowarc.VerifSetNow(time.Date(2021, 2, 3, 4, 5, 6, 0, time.UTC))
	ng := &seqNames{dir: out, ext: cfg["next"]}
	wopts := []gowarc.WarcFileWriterOption{
		gowarc.WithMaxFileSize(max), gowarc.WithCompression(comp), gowarc.WithFileNameGenerator(ng),
		gowarc.WithMaxConcurrentWriters(1), gowarc.WithExpectedCompressionRatio(float64(rnum) / float64(rden)),
		gowarc.WithFlush(cfg["flush"] == "t"),
	}
	// records the marshaler fails on (op F): the partial bytes are written through the same kill writer, then taken back
	fm := &failAfterMarshaler{inner: gowarc.NewMarshaler(), failAt: map[int]int{}, segAt: map[int]int{}}
	wopts = append(wopts, gowarc.WithMarshaler(&killMarshaler{inner: fm, budget: &budget}))
	if cfg["info"] == "t" {
		wopts = append(wopts, gowarc.WithWarcInfoFunc(func(rb gowarc.WarcRecordBuilder) error {
			rb.AddWarcHeader("WARC-Record-ID", fmt.Sprintf("<urn:uuid:99%06d-0000-4000-8000-000000000000>", len(ng.names)))
			_, _ = rb.Write([]byte("software: verif\r\n"))
			return nil
		}))
	}
	w := gowarc.NewWarcFileWriter(wopts...)
	for _, op := range strings.Split(args[1], ";") {
		if op == "R" {
			_ = w.Rotate()
			continue
		}
		failing := strings.HasPrefix(op, "F:")
		f := strings.Split(strings.TrimPrefix(strings.TrimPrefix(op, "B:"), "F:"), ",")
		if len(f) != 4 {
			os.Exit(4)
		}
		tok, _ := strconv.Atoi(f[0])
		size, _ := strconv.Atoi(f[2])
		if failing {
			k, _ := strconv.Atoi(f[3])
			fm.failAt[tok] = k
		}
		wr := &wrec{tok: tok, kind: f[1], size: size, decl: "t"}
		if err := buildWrec(wr); err != nil {
			os.Exit(5)
		}
		rr := w.Write(wr.rec)
		for _, r := range rr {
			if r.Err == nil {
				// the acknowledgement: Write has returned
				_, _ = acks.Write([]byte(fmt.Sprintf("%d %s %d %d\n", tok, r.FileName, r.FileOffset, r.BytesWritten)))
			}
		}
	}
	_ = w.Close()
	_ = acks.Close()
}

type traceEff struct {
	kind string // C W S X R A T
	path string
	n    int64
	to   string
}

var reSys = regexp.MustCompile(`^(\d+)\s+(\w+)\((.*)\)\s+= (-?\d+)`)
var rePathFd = regexp.MustCompile(`^\d+<([^>]*)>`)

// parseTrace extracts the effects on files below outDir and the acknowledgement writes.
func parseTrace(path, outDir, ackPath string) ([]traceEff, error) {
	f, err := os.Open(path)
	if err != nil {
		return nil, err
	}
	defer f.Close()
	var effs []traceEff
	pending := map[string]string{} // pid -> unfinished prefix
	sc := bufio.NewScanner(f)
	sc.Buffer(make([]byte, 1<<20), 1<<24)
	for sc.Scan() {
		line := sc.Text()
		sp := strings.IndexByte(line, ' ')
		if sp < 0 {
			continue
		}
		pid := line[:sp]
		rest := strings.TrimSpace(line[sp:])
		if strings.HasSuffix(rest, "<unfinished ...>") {
			pending[pid] = strings.TrimSuffix(rest, "<unfinished ...>")
			continue
		}
		if strings.HasPrefix(rest, "<... ") {
			i := strings.Index(rest, "resumed>")
			if i < 0 {
				continue
			}
			rest = pending[pid] + rest[i+len("resumed>"):]
			delete(pending, pid)
		}
		m := reSys.FindStringSubmatch(pid + " " + rest)
		if m == nil {
			continue
		}
		name, argstr, ret := m[2], m[3], m[4]
		rv, _ := strconv.ParseInt(ret, 10, 64)
		if rv < 0 {
			continue
		}
		switch name {
		case "openat":
			if strings.Contains(argstr, "O_CREAT") {
				q := strings.Split(argstr, "\"")
				if len(q) >= 2 && strings.HasPrefix(q[1], outDir+"/") {
					effs = append(effs, traceEff{kind: "C", path: q[1]})
				}
			}
		case "write", "pwrite64":
			pm := rePathFd.FindStringSubmatch(argstr)
			if pm == nil {
				continue
			}
			p := strings.TrimSuffix(pm[1], " (deleted)")
			if p == ackPath {
				effs = append(effs, traceEff{kind: "A"})
			} else if strings.HasPrefix(p, outDir+"/") {
				effs = append(effs, traceEff{kind: "W", path: p, n: rv})
			}
		case "ftruncate":
			pm := rePathFd.FindStringSubmatch(argstr)
			if pm != nil && strings.HasPrefix(pm[1], outDir+"/") {
				if i := strings.LastIndex(argstr, ","); i >= 0 {
					n, _ := strconv.ParseInt(strings.TrimSpace(argstr[i+1:]), 10, 64)
					effs = append(effs, traceEff{kind: "T", path: pm[1], n: n})
				}
			}
		case "fsync":
			pm := rePathFd.FindStringSubmatch(argstr)
			if pm != nil && strings.HasPrefix(pm[1], outDir+"/") {
				effs = append(effs, traceEff{kind: "S", path: pm[1]})
			}
		case "close":
			pm := rePathFd.FindStringSubmatch(argstr)
			if pm != nil && strings.HasPrefix(pm[1], outDir+"/") {
				effs = append(effs, traceEff{kind: "X", path: pm[1]})
			}
		case "rename", "renameat", "renameat2":
			q := strings.Split(argstr, "\"")
			if len(q) >= 4 && strings.HasPrefix(q[1], outDir+"/") {
				effs = append(effs, traceEff{kind: "R", path: q[1], to: q[3]})
			}
		}
	}
	return effs, nil
}

func runChild(strace bool, tracePath string, cfgArg, opsArg, dir string, kill int64) error {
	self, _ := os.Executable()
	childArgs := []string{self, "crashchild", cfgArg, opsArg, dir, strconv.FormatInt(kill, 10)}
	var cmd *exec.Cmd
	if strace {
		a := append([]string{"-f", "-y", "-s", "0", "-e", "trace=openat,write,pwrite64,fsync,close,rename,renameat,renameat2,ftruncate", "-o", tracePath}, childArgs...)
		cmd = exec.Command("strace", a...)
	} else {
		cmd = exec.Command(childArgs[0], childArgs[1:]...)
	}
	cmd.Env = append(os.Environ(), "GOMAXPROCS=2")
	done := make(chan error, 1)
	if err := cmd.Start(); err != nil {
		return err
	}
	go func() { done <- cmd.Wait() }()
	select {
	case err := <-done:
		return err
	case <-time.After(30 * time.Second):
		_ = cmd.Process.Kill()
		return fmt.Errorf("child timeout")
	}
}

type ackRec struct {
	tok      int
	file     string
	off, len int64
}

func readAcks(path string) []ackRec {
	data, _ := os.ReadFile(path)
	var l []ackRec
	for _, ln := range strings.Split(string(data), "\n") {
		f := strings.Fields(ln)
		if len(f) != 4 {
			continue // a torn last line cannot happen (one write per line), but be lenient
		}
		tok, _ := strconv.Atoi(f[0])
		off, _ := strconv.ParseInt(f[2], 10, 64)
		n, _ := strconv.ParseInt(f[3], 10, 64)
		l = append(l, ackRec{tok, f[1], off, n})
	}
	return l
}

// judgeDisk checks the property's clauses on a directory state: name -> content
func judgeDisk(files map[string][]byte, acks []ackRec, comp bool, where string) string {
	names := make([]string, 0, len(files))
	for n := range files {
		names = append(names, n)
	}
	sort.Strings(names)
	for _, n := range names {
		data := files[n]
		ms, err := scanFile(data, comp)
		if !strings.HasSuffix(n, ".open") {
			if err != nil {
				return fmt.Sprintf("VIOL c12-final-incomplete %s file=%s %s", where, n, sanitize(err.Error()))
			}
			continue
		}
		// in-progress: whole records, then at most one partial record: the scanner stops at the first position that is
		// not a whole record; what follows must not contain the start of a further record
		var consumed int64
		for _, m := range ms {
			consumed = m.off + m.length
		}
		tail := data[consumed:]
		if err == nil && len(tail) != 0 {
			return fmt.Sprintf("VIOL c12-open-shape %s file=%s scanner-inconsistent", where, n)
		}
		if err != nil && !comp {
			// a partial plain record never contains a complete later record: "WARC/1." occurs at most once at a line start
			if c := strings.Count("\n"+string(tail), "\nWARC/1."); c > 1 {
				return fmt.Sprintf("VIOL c12-open-shape %s file=%s more-than-one-record-start-in-the-tail", where, n)
			}
		}
	}
	for _, a := range acks {
		var data []byte
		found := false
		for _, cand := range []string{a.file, a.file + ".open"} {
			if d, ok := files[cand]; ok {
				data, found = d, true
			}
		}
		if !found {
			return fmt.Sprintf("VIOL c12-acked-missing %s tok=%d file=%s not-on-disk", where, a.tok, a.file)
		}
		if a.off > int64(len(data)) {
			return fmt.Sprintf("VIOL c12-acked-missing %s tok=%d offset=%d beyond-file-length=%d", where, a.tok, a.off, len(data))
		}
		ms, _ := scanFile(data[a.off:], comp)
		if len(ms) == 0 || ms[0].get("WARC-Record-ID") != tokId(a.tok) || ms[0].ulen != a.len {
			return fmt.Sprintf("VIOL c12-acked-missing %s tok=%d file=%s offset=%d record-not-complete-there", where, a.tok, a.file, a.off)
		}
	}
	return ""
}

// crash <cfg> <ops> <kills>      ops as in `writer` but one record per Write; kills: ','-separated byte budgets for real SIGKILLs
func kCrash(args []string) (string, string) {
	cfg := kvParse(args[0])
	comp := cfg["comp"] == "t"
	tmp, err := os.MkdirTemp("", "vcr")
	if err != nil {
		return "infra-tmp", "ok"
	}
	defer os.RemoveAll(tmp)
	mk := func(name string) (string, string) {
		d := filepath.Join(tmp, name)
		_ = os.MkdirAll(filepath.Join(d, "out"), 0o755)
		return d, filepath.Join(d, "out")
	}
	// 1. traced run
	dir, out := mk("t")
	tracePath := filepath.Join(tmp, "trace.txt")
	if err := runChild(true, tracePath, args[0], args[1], dir, -1); err != nil {
		return "infra-child " + sanitize(err.Error()), "ok"
	}
	effs, err := parseTrace(tracePath, out, filepath.Join(dir, "acks.log"))
	if err != nil {
		return "infra-trace", "ok"
	}
	acks := readAcks(filepath.Join(dir, "acks.log"))
	final := map[string][]byte{}
	ents, _ := os.ReadDir(out)
	for _, e := range ents {
		final[e.Name()], _ = os.ReadFile(filepath.Join(out, e.Name()))
	}
	suffix := ""
	if comp {
		suffix = ".gz"
	}
	idOf := func(p string) int {
		b := strings.TrimPrefix(filepath.Base(p), "w-")
		k := 0
		for k < len(b) && b[k] >= '0' && b[k] <= '9' {
			k++
		}
		n, _ := strconv.Atoi(b[:k])
		return n
	}
	// the names on disk: generated name + compression suffix (+ the in-progress suffix while open), nothing else
	ext := cfg["next"]
	if ext == "" {
		ext = ".warc"
	}
	nameViol := ""
	for n := range final {
		want := fmt.Sprintf("w-%04d%s%s", idOf(n), ext, suffix)
		if strings.TrimSuffix(n, ".open") != want {
			nameViol = fmt.Sprintf("VIOL c12-final-name file %s on disk, the generated name with its suffixes is %s", n, want)
		}
	}
	// canonical effect string, consecutive writes merged; and the walk over all crash states
	viol := nameViol
	var toks []string
	written := map[string]int64{} // path (current name) -> bytes so far
	ackIdx := 0
	var ackSoFar []ackRec
	finalNameOf := func(p string) string { return strings.TrimSuffix(filepath.Base(p), ".open") }
	renamed := map[string]bool{}
	state := func(extra string, extraN int64) map[string][]byte {
		m := map[string][]byte{}
		for p, n := range written {
			fn := finalNameOf(p)
			name := filepath.Base(p)
			if renamed[p] {
				name = fn
			}
			k := n
			if p == extra {
				k += extraN
			}
			content := final[fn]
			if int64(len(content)) < k {
				k = int64(len(content))
			}
			m[name] = content[:k]
		}
		return m
	}
	check := func(where string, extra string, extraN int64) {
		if viol == "" {
			viol = judgeDisk(state(extra, extraN), ackSoFar, comp, where)
		}
	}
	lastW := -1
	for i, e := range effs {
		switch e.kind {
		case "C":
			toks = append(toks, fmt.Sprintf("C%d", idOf(e.path)))
			written[e.path] = 0
			lastW = -1
		case "W":
			if e.n == 0 {
				continue // a write of no bytes (the failing marshaler of op F with k = 0) has no effect on the file
			}
			if renamed[e.path] || !strings.HasSuffix(e.path, ".open") {
				if viol == "" {
					viol = fmt.Sprintf("VIOL c12-final-written effect=%d write-to-%s-after-it-got-its-final-name", i, filepath.Base(e.path))
				}
			}
			// every byte inside this write is a kill point
			step := int64(1)
			if e.n > 400 {
				step = e.n / 200
			}
			for j := int64(1); j < e.n; j += step {
				check(fmt.Sprintf("effect=%d+%d", i, j), e.path, j)
			}
			written[e.path] += e.n
			if lastW >= 0 && strings.HasPrefix(toks[lastW], fmt.Sprintf("W%d:", idOf(e.path))) && lastW == len(toks)-1 {
				prev, _ := strconv.ParseInt(strings.SplitN(toks[lastW], ":", 2)[1], 10, 64)
				toks[lastW] = fmt.Sprintf("W%d:%d", idOf(e.path), prev+e.n)
			} else {
				toks = append(toks, fmt.Sprintf("W%d:%d", idOf(e.path), e.n))
				lastW = len(toks) - 1
			}
		case "T":
			// the writer takes back what a failed record left in the file: the bytes are no longer part of the log of what
			// stays on disk (the model's effect log has no effect for them)
			delta := written[e.path] - e.n
			if delta < 0 {
				if viol == "" {
					viol = fmt.Sprintf("VIOL c12-open-shape effect=%d file=%s truncated-to-%d-beyond-its-length-%d", i, filepath.Base(e.path), e.n, written[e.path])
				}
				delta = 0
			}
			written[e.path] = e.n
			if delta > 0 && lastW >= 0 && lastW == len(toks)-1 && strings.HasPrefix(toks[lastW], fmt.Sprintf("W%d:", idOf(e.path))) {
				prev, _ := strconv.ParseInt(strings.SplitN(toks[lastW], ":", 2)[1], 10, 64)
				if prev-delta > 0 {
					toks[lastW] = fmt.Sprintf("W%d:%d", idOf(e.path), prev-delta)
				} else {
					toks = toks[:lastW]
					lastW = -1
					// the write before the failed record may be the token to merge the next write with
					if n := len(toks); n > 0 && strings.HasPrefix(toks[n-1], fmt.Sprintf("W%d:", idOf(e.path))) {
						lastW = n - 1
					}
				}
			}
		case "S":
			toks = append(toks, fmt.Sprintf("S%d", idOf(e.path)))
		case "X":
			toks = append(toks, fmt.Sprintf("X%d", idOf(e.path)))
		case "R":
			toks = append(toks, fmt.Sprintf("R%d", idOf(e.path)))
			renamed[e.path] = true
		case "A":
			if ackIdx < len(acks) {
				a := acks[ackIdx]
				ackSoFar = append(ackSoFar, a)
				toks = append(toks, fmt.Sprintf("A%d@%d", a.tok, a.off))
				ackIdx++
			}
		}
		check(fmt.Sprintf("effect=%d", i), "", 0)
	}
	impl := strings.Join(toks, ";")

	// 2. real kills
	if len(args) > 2 && args[2] != "-" && viol == "" {
		for _, ks := range strings.Split(args[2], ",") {
			budget, _ := strconv.ParseInt(ks, 10, 64)
			kd, kout := mk("k" + ks)
			_ = runChild(false, "", args[0], args[1], kd, budget) // expected to die
			files := map[string][]byte{}
			ents, _ := os.ReadDir(kout)
			for _, e := range ents {
				files[e.Name()], _ = os.ReadFile(filepath.Join(kout, e.Name()))
			}
			if v := judgeDisk(files, readAcks(filepath.Join(kd, "acks.log")), comp, "sigkill-after-"+ks+"-bytes"); v != "" {
				viol = v
				break
			}
			// a final-named file never changes again: it equals the file of the uninterrupted run
			for n, d := range files {
				if !strings.HasSuffix(n, ".open") {
					if string(final[n]) != string(d) {
						viol = fmt.Sprintf("VIOL c12-final-incomplete sigkill-after-%s-bytes file=%s differs-from-the-complete-run", ks, n)
					}
				}
			}
			_ = os.RemoveAll(kd)
		}
	}

	// the files for the model: id, open?, members (tok+len) from the independent scanner
	var fdesc []string
	names := make([]string, 0, len(final))
	for n := range final {
		names = append(names, n)
	}
	sort.Slice(names, func(i, j int) bool { return idOf(names[i]) < idOf(names[j]) })
	for _, n := range names {
		ms, err := scanFile(final[n], comp)
		if err != nil {
			return "final-file-not-whole " + n, "VIOL c12-final-incomplete end-of-run file=" + n
		}
		var l []string
		for _, m := range ms {
			tok := tokOfId(m.get("WARC-Record-ID"))
			if m.get("WARC-Type") == "warcinfo" {
				tok = 0
			}
			l = append(l, fmt.Sprintf("%d+%d", tok, m.length))
		}
		fdesc = append(fdesc, fmt.Sprintf("%d:%s:%s", idOf(n), tf(strings.HasSuffix(n, ".open")), strings.Join(l, ",")))
	}
	oracle := "ok"
	if viol != "" {
		oracle = viol
	}
	if len(args) > 3 {
		return impl, oracle
	}
	aug := strings.Join(fdesc, "|")
	if aug == "" {
		aug = "-" // nothing was written at all
	}
	return impl + " @@ " + aug, oracle
}

func genCrash(r *rng, n int, tier string, emit func(string, ...string)) {
	tok := 0
	for i := 0; i < n; i++ {
		comp := r.chance(1, 2)
		info := r.chance(1, 2)
		max := 0
		if r.chance(3, 4) {
			max = r.rangeInt(300, 1800)
		}
		cfg := fmt.Sprintf("max=%d;comp=%s;info=%s;rnum=1;rden=2;flush=%s", max, tf(comp), tf(info), tf(r.chance(1, 2)))
		if r.chance(1, 5) {
			// generated names that contain the text of the in-progress suffix before their end
			cfg += ";next=" + pick(r, []string{".opendata.warc", ".open.warc", ".openstack.internal.warc"})
		}
		stat("crash-cfg", fmt.Sprintf("comp=%s,info=%s", tf(comp), tf(info)))
		var ops []string
		total := 0
		for k := r.rangeInt(2, 7); k > 0; k-- {
			if r.chance(1, 6) {
				ops = append(ops, "R")
				continue
			}
			tok++
			size := r.rangeInt(0, 700)
			if r.chance(1, 8) {
				// a record the marshaler fails on: refused before the first byte, inside the header, inside the block
				ops = append(ops, fmt.Sprintf("F:%d,%s,%d,%d", tok%90000000, pick(r, []string{"r", "h", "m"}), size, pick(r, []int{-1, 0, 9, 150, 100000})))
				stat("crash-op", "failed-record")
				total += 200
				continue
			}
			total += size + 400
			ops = append(ops, fmt.Sprintf("B:%d,%s,%d,t", tok%90000000, pick(r, []string{"r", "h", "q", "m"}), size))
		}
		var kills []string
		for k := 0; k < 3; k++ {
			kills = append(kills, strconv.Itoa(r.intn(total+1)))
		}
		emit("crash", cfg, strings.Join(ops, ";"), strings.Join(kills, ","))
	}
}

func init() {
	kinds["crash"] = kCrash
	gens["C12"] = genCrash
}
