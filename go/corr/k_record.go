package main

import (
	"bufio"
	"bytes"
	"runtime"
	"fmt"
	"io"
	"net"
	"net/http"
	"strconv"
	"strings"
	"time"

	kgzip "github.com/klauspost/compress/gzip"
	gowarc "github.com/nlnwa/gowarc/v2"
	"github.com/nlnwa/whatwg-url/url"
)

// ---- options

type ropts struct {
	syn, spec, unk, blk                                              int
	skip, addid, addcl, adddig, fixcl, fixdig, fixsyn, fixwf         bool
	alg                                                              string
	enc                                                              int
	maxMem                                                           int
}

func defaultRopts() ropts {
	return ropts{syn: 1, spec: 1, unk: 1, blk: 0, addid: true, addcl: true, adddig: true, fixcl: true, fixdig: true, fixsyn: true, alg: "sha1", enc: 2}
}

func (o ropts) String() string {
	return fmt.Sprintf("syn=%d;spec=%d;unk=%d;blk=%d;skip=%s;addid=%s;addcl=%s;adddig=%s;fixcl=%s;fixdig=%s;fixsyn=%s;fixwf=%s;alg=%s;enc=%d;mem=%d",
		o.syn, o.spec, o.unk, o.blk, tf(o.skip), tf(o.addid), tf(o.addcl), tf(o.adddig), tf(o.fixcl), tf(o.fixdig), tf(o.fixsyn), tf(o.fixwf), o.alg, o.enc, o.maxMem)
}

func parseRopts(s string) ropts {
	m := kvParse(s)
	o := defaultRopts()
	geti := func(k string, d int) int {
		if v, ok := m[k]; ok {
			i, _ := strconv.Atoi(v)
			return i
		}
		return d
	}
	getb := func(k string, d bool) bool {
		if v, ok := m[k]; ok {
			return v == "t"
		}
		return d
	}
	o.syn, o.spec, o.unk, o.blk = geti("syn", 1), geti("spec", 1), geti("unk", 1), geti("blk", 0)
	o.skip, o.addid, o.addcl, o.adddig = getb("skip", false), getb("addid", true), getb("addcl", true), getb("adddig", true)
	o.fixcl, o.fixdig, o.fixsyn, o.fixwf = getb("fixcl", true), getb("fixdig", true), getb("fixsyn", true), getb("fixwf", false)
	if v, ok := m["alg"]; ok {
		o.alg = v
	}
	o.enc = geti("enc", 2)
	o.maxMem = geti("mem", 0)
	return o
}

const fixedId = "urn:uuid:11111111-2222-3333-4444-555555555555"

func (o ropts) options(extra ...gowarc.WarcRecordOption) []gowarc.WarcRecordOption {
	l := gowarc.VerifOptions(o.syn, o.spec, o.unk, o.blk,
		gowarc.WithAddMissingRecordId(o.addid), gowarc.WithAddMissingContentLength(o.addcl), gowarc.WithAddMissingDigest(o.adddig),
		gowarc.WithFixContentLength(o.fixcl), gowarc.WithFixDigest(o.fixdig), gowarc.WithFixSyntaxErrors(o.fixsyn),
		gowarc.WithFixWarcFieldsBlockErrors(o.fixwf), gowarc.WithDefaultDigestAlgorithm(o.alg), gowarc.VerifEncodingOption(o.enc),
		gowarc.WithRecordIdFunc(func() (string, error) { return fixedId, nil }))
	if o.skip {
		l = append(l, gowarc.WithSkipParseBlock())
	}
	if o.maxMem > 0 {
		l = append(l, gowarc.WithBufferMaxMemBytes(int64(o.maxMem)))
	}
	return append(l, extra...)
}

func genRopts(r *rng) ropts {
	o := defaultRopts()
	switch r.intn(6) {
	case 0: // defaults
	case 1: // uniform level
		l := r.intn(3)
		o.syn, o.spec, o.unk, o.blk = l, l, l, l
	case 2: // strict as the repo's tests define it
		o.syn, o.spec, o.unk = 2, 2, r.intn(3)
	default:
		o.syn, o.spec, o.unk, o.blk = r.intn(3), r.intn(3), r.intn(3), r.intn(3)
	}
	if r.chance(1, 2) {
		o.skip = r.chance(1, 6)
		o.addid, o.addcl, o.adddig = r.chance(3, 4), r.chance(3, 4), r.chance(3, 4)
		o.fixcl, o.fixdig, o.fixsyn, o.fixwf = r.chance(1, 2), r.chance(1, 2), r.chance(1, 2), r.chance(1, 2)
	}
	if r.chance(1, 3) {
		o.alg = pick(r, algNames)
		o.enc = r.rangeInt(1, 3)
	}
	if r.chance(1, 2) {
		o.maxMem = pick(r, []int{1, 2, 3, 5, 8, 16, 33, 64, 100})
	}
	return o
}

// ---- oracle tables (verdicts of the external validators for every value the model may ask about)

type oracleTab struct {
	seen map[string]bool
	out  []string
}

func (t *oracleTab) add(kind, v string, bit bool) {
	k := kind + ":" + hxs(v)
	if t.seen == nil {
		t.seen = map[string]bool{}
	}
	if t.seen[k] {
		return
	}
	t.seen[k] = true
	b := "0"
	if bit {
		b = "1"
	}
	t.out = append(t.out, k+":"+b)
}

func (t *oracleTab) String() string {
	if len(t.out) == 0 {
		return "-"
	}
	return strings.Join(t.out, ",")
}

func uriOK(v string) bool {
	_, err := url.Parse(v)
	return err == nil
}

func (t *oracleTab) addValue(v string) {
	_, e := time.Parse(time.RFC3339, v)
	t.add("t", v, e == nil)
	t.add("i", v, net.ParseIP(v) != nil)
	t.add("u", v, uriOK(v))
	tv := strings.Trim(v, "<>")
	t.add("u", tv, uriOK(tv))
}

func httpOK(resp bool, head []byte) bool {
	if resp {
		_, err := http.ReadResponse(bufio.NewReader(bytes.NewReader(head)), nil)
		return err == nil
	}
	_, err := http.ReadRequest(bufio.NewReader(bytes.NewReader(head)))
	return err == nil
}

// splitHead: lines up to and including the first one shorter than 3 bytes (independent of gowarc's headerBytes)
func splitHead(content []byte) (head []byte, found bool) {
	pos := 0
	for pos < len(content) {
		i := bytes.IndexByte(content[pos:], '\n')
		if i < 0 {
			return content, false
		}
		line := content[pos : pos+i+1]
		pos += i + 1
		if len(line) < 3 {
			return content[:pos], true
		}
	}
	return content, false
}

func (t *oracleTab) addContent(content []byte) {
	head, _ := splitHead(content)
	for _, h := range [][]byte{head, append(append([]byte{}, head...), '\r', '\n'), append(append([]byte{}, head...), '\r', '\n', '\r', '\n')} {
		t.add("h1", string(h), httpOK(true, h))
		t.add("h0", string(h), httpOK(false, h))
	}
}

// gunzipAt decodes ONE gzip member starting at data[p:] the way gowarc reads it (klauspost gzip, Multistream(false)).
// status: ok | bad (error after delivering content) | header error class
func gunzipAt(data []byte) (status string, content []byte, consumed int) {
	src := bytes.NewReader(data)
	br := bufio.NewReaderSize(src, 16)
	zr, err := kgzip.NewReader(br)
	if err != nil {
		return gowarc.VerifClassify(err), nil, 0
	}
	zr.Multistream(false)
	content, err = io.ReadAll(zr)
	consumed = len(data) - (br.Buffered() + src.Len())
	if err != nil {
		return "bad", content, consumed
	}
	return "ok", content, consumed
}

func (t *oracleTab) scanPlain(data []byte, syn int) {
	start := bytes.Index(data, []byte("WARC/"))
	if start < 0 {
		return
	}
	nl := bytes.IndexByte(data[start:], '\n')
	if nl < 0 {
		return
	}
	hdrStart := start + nl + 1
	for _, s := range []int{syn, 0} {
		pairs, _, rest, errTag := gowarc.VerifParseFields(s, &gowarc.VerifStream{Data: data[hdrStart:]})
		if errTag != "" {
			continue
		}
		var cl int64
		for _, nv := range pairs {
			t.addValue(nv[1])
			if nv[0] == gowarc.ContentLength && cl == 0 {
				cl, _ = strconv.ParseInt(nv[1], 10, 64)
			}
		}
		content := data[len(data)-rest:]
		if cl >= 0 && cl < int64(len(content)) {
			content = content[:cl]
		}
		t.addContent(content)
		// the http repair changes Content-Length by 2
		if cl >= 0 && cl < int64(len(data)) && cl+2 <= int64(len(data[len(data)-rest:])) {
			t.addContent(data[len(data)-rest:][:cl+2])
		}
	}
}

// oraclesForStream computes the table for an input to Unmarshal: header values and HTTP heads the model may ask about
// (located with gowarc's own tokenizer — only to find WHICH values to ask about), and the gzip codec's verdict at every
// position where a member could be opened.
func oraclesForStream(data []byte, syn int) string {
	t := &oracleTab{}
	t.scanPlain(data, syn)
	n := 0
	for p := 0; p+1 < len(data) && n < 6; p++ {
		if data[p] == 0x1f && data[p+1] == 0x8b {
			n++
			st, content, consumed := gunzipAt(data[p:])
			t.out = append(t.out, fmt.Sprintf("z:%d:%s:%d:%s", p, st, consumed, hx(content)))
			if content != nil {
				t.scanPlain(content, syn)
			}
		}
	}
	return t.String()
}

// ---- running the implementation

func readAllBlock(rec gowarc.WarcRecord) (string, string) {
	if rec == nil || rec.Block() == nil {
		return "nil", "-"
	}
	r, err := rec.Block().RawBytes()
	if err != nil {
		return gowarc.VerifBlockKind(rec.Block()), "err:" + gowarc.VerifClassify(err)
	}
	b, err := io.ReadAll(r)
	if err != nil {
		return gowarc.VerifBlockKind(rec.Block()), "err:" + gowarc.VerifClassify(err)
	}
	return gowarc.VerifBlockKind(rec.Block()), hx(b)
}

func classifyAll(v *gowarc.Validation) []string {
	var l []string
	if v == nil {
		return l
	}
	for _, e := range *v {
		l = append(l, gowarc.VerifClassify(e))
	}
	return l
}

func showRec(rec gowarc.WarcRecord) string {
	kind, block := readAllBlock(rec)
	return fmt.Sprintf("ver=%s rt=%d hdr=%s kind=%s block=%s", hxs(gowarc.VerifVersionTxt(rec.Version())), rec.Type(), showPairs(gowarc.VerifPairs(rec.WarcHeader())), kind, block)
}

type uresult struct {
	rec    gowarc.WarcRecord
	off    int64
	fnd    []string
	errTag string
	rest   int
	line   string
}

func runUnmarshal(o ropts, data []byte, fault bool, style int) uresult {
	s := &gowarc.VerifStream{Data: data, Fault: fault, Style: style}
	br := bufio.NewReaderSize(s, 64)
	u := gowarc.NewUnmarshaler(o.options()...)
	rec, off, val, err := u.Unmarshal(br)
	res := uresult{rec: rec, off: off, fnd: classifyAll(val), rest: br.Buffered() + s.Remaining()}
	if err != nil {
		res.errTag = gowarc.VerifClassify(err)
		res.line = fmt.Sprintf("err %s off=%d fnd=%s", res.errTag, off, showList(res.fnd))
		return res
	}
	if rec == nil {
		res.line = "ok-without-record"
		return res
	}
	res.line = fmt.Sprintf("ok off=%d %s fnd=%s rest=%d", off, showRec(rec), showList(res.fnd), res.rest)
	return res
}

// unmarshal <opts> <fault> <data> <oracles> [truth]
func kUnmarshal(args []string) (string, string) {
	o := parseRopts(args[0])
	fault := args[1] == "t"
	data := unhx(args[2])
	var m0, m1 runtime.MemStats
	runtime.ReadMemStats(&m0)
	res := runUnmarshal(o, data, fault, 0)
	runtime.ReadMemStats(&m1)
	if res.rec != nil {
		defer res.rec.Close()
	}
	oracle := "ok"
	// C05: memory proportional to the data (allocation volume of this call, generous constant)
	if grown := m1.TotalAlloc - m0.TotalAlloc; grown > uint64(64*len(data))+(8<<20) {
		oracle = fmt.Sprintf("VIOL blowup allocated=%d input=%d", grown, len(data))
	}
	// C05: chunking independence and progress
	for style := 1; style <= 3; style++ {
		if fault && style == 3 {
			// a read ERROR handed over together with the last bytes is sticky inside bufio.Reader and surfaces where the buffer
			// runs dry, which may be earlier than where a separate (0, err) would have been met: either outcome is "a record or
			// an error". Only for EOF is the way of delivery required to be invisible. (False alarm found by the thorough tier.)
			continue
		}
		r2 := runUnmarshal(o, data, fault, style)
		if r2.rec != nil {
			r2.rec.Close()
		}
		if r2.line != res.line {
			oracle = fmt.Sprintf("VIOL chunking style=%d other=%s", style, sanitize(r2.line))
		}
	}
	if res.errTag == "" && res.rest >= len(data) && len(data) > 0 {
		oracle = "VIOL no-progress record-returned-without-consuming-input"
	}
	if len(args) > 4 && oracle == "ok" {
		oracle = judgeTruth(o, args[4], res)
	}
	if len(args) > 4 && oracle == "ok" && res.errTag == "" && res.rec != nil {
		// C07: the complete declared block can be read from the returned record (clean records with a truthful length)
		t := kvParse(args[4])
		if t["clean"] == "t" && t["len"] == "ok" {
			if want, ok := declaredBlockOf(data); ok {
				_, got := readAllBlock(res.rec)
				// repairs off: nothing may differ. Repairs on: only the documented ones, and a clean record (HTTP head properly
				// terminated - that is what clean=t says) needs none: the syntax repair must leave its block alone as well
				noRepair := !o.fixwf
				if noRepair && got != hx(want) {
					oracle = fmt.Sprintf("VIOL c07-block-incomplete read=%d declared=%d", len(unhxOrEmpty(got)), len(want))
				}
			}
		}
	}
	return res.line, oracle
}

// judgeTruth: C03 record level. truth = "len=ok|bad;bd=ok|bad|none;pd=ok|bad|none|na;clean=t|f"
func judgeTruth(o ropts, truth string, res uresult) string {
	t := kvParse(truth)
	if o.spec == 0 {
		return "ok"
	}
	has := func(tag string) bool {
		if res.errTag == tag {
			return true
		}
		for _, f := range res.fnd {
			if f == tag {
				return true
			}
		}
		return false
	}
	c03tags := []string{"length", "digestBlock", "digestPayload", "specTrailer"}
	isC03 := func(tag string) bool {
		for _, x := range c03tags {
			if x == tag {
				return true
			}
		}
		return false
	}
	// "reported" = a finding (warn) or the error (fail) about length/digest/trailer
	reportedAny := isC03(res.errTag)
	for _, f := range res.fnd {
		if isC03(f) {
			reportedAny = true
		}
	}
	_ = has
	// an error that is not about length/digests (unknown type under a failing policy, ...) ends the parse before the checks:
	// nothing can be concluded
	if res.errTag != "" && !isC03(res.errTag) {
		return "ok"
	}
	if t["clean"] != "t" {
		return "ok"
	}
	pd := t["pd"]
	if o.skip && pd == "bad" {
		pd = "na" // WithSkipParseBlock: documented "no payload digest can be computed"
	}
	if (t["len"] == "bad" || t["bd"] == "bad" || pd == "bad") && !reportedAny {
		return "VIOL c03-sound wrong-declaration-not-reported " + truth
	}
	if t["len"] == "ok" && t["bd"] != "bad" && t["pd"] != "bad" && reportedAny {
		return "VIOL c03-complete correct-record-reported err=" + res.errTag + " fnd=" + showList(res.fnd)
	}
	if o.spec == 1 && res.errTag == "" && res.rec != nil && t["len"] == "ok" {
		// repairs: afterwards the header tells the truth
		h := res.rec.WarcHeader()
		_, block := readAllBlock(res.rec)
		bl := unhx(block)
		if o.fixcl && h.Get(gowarc.ContentLength) != strconv.Itoa(len(bl)) {
			return "VIOL c03-repair content-length-not-truthful"
		}
		if o.fixdig && t["bd"] == "bad" {
			if !digestTruthful(h.Get(gowarc.WarcBlockDigest), bl) {
				return "VIOL c03-repair block-digest-not-truthful"
			}
		}
	}
	return "ok"
}

// digestTruthful: value is alg:enc(sum(data)) for some supported algorithm/encoding
func digestTruthful(v string, data []byte) bool {
	t := strings.SplitN(v, ":", 2)
	if len(t) != 2 {
		return false
	}
	alg := strings.ReplaceAll(strings.ToLower(t[0]), "-", "")
	sum := sumOf(alg, data)
	if sum == nil {
		return false
	}
	for e := 1; e <= 3; e++ {
		if strings.EqualFold(t[1], stdEncode(e, sum)) && (e != 3 || t[1] == stdEncode(e, sum)) {
			return true
		}
	}
	return false
}

func init() {
	kinds["unmarshal"] = kUnmarshal
}

func genC05(r *rng, n int, tier string, emit func(string, ...string)) {
	genUnmarshalCases(r, n-n/5, emit, genRopts)
	// "the same holds for building a record from arbitrary content and headers": builder cases with small spill thresholds
	// and every feeding manner, including running totals that land exactly on the threshold
	for i := 0; i < n/5; i++ {
		sub := r.fork()
		c := genBuildCase(sub)
		o := genRopts(sub)
		if sub.chance(1, 2) {
			o.maxMem = pick(sub, []int{1, 2, 7, 16, 33, 64})
		}
		if sub.chance(1, 4) {
			c.content = sub.bytes(sub.rangeInt(0, 400))
		}
		stat("build-class", c.class)
		emit("build", o.String(), c.ver, strconv.Itoa(c.rt0), pairsArg(c.hdr), hx(c.content), hxs(fixedId), oraclesForBuild(c), pick(sub, []string{"w", "ws", "rf-one", "rf-eofwith", "mix", "exact", "exact"}))
	}
}

func init() {
	gens["C05"] = genC05
}

func pairsOf(rec gowarc.WarcRecord) [][2]string { return gowarc.VerifPairs(rec.WarcHeader()) }


func unhxOrEmpty(s string) []byte {
	if strings.HasPrefix(s, "err:") || s == "-" {
		return nil
	}
	return unhx(s)
}

// declaredBlockOf: the bytes framed by Content-Length in a serialized record, found with an independent scan
// (first record of the stream, plain or one gzip member).
func declaredBlockOf(data []byte) ([]byte, bool) {
	if len(data) > 2 && data[0] == 0x1f && data[1] == 0x8b {
		st, content, _ := gunzipAt(data)
		if st != "ok" {
			return nil, false
		}
		data = content
	}
	start := bytes.Index(data, []byte("WARC/"))
	if start < 0 {
		return nil, false
	}
	end := bytes.Index(data[start:], []byte("\r\n\r\n"))
	if end < 0 {
		return nil, false
	}
	hdr := data[start : start+end]
	cl := -1
	for _, line := range bytes.Split(hdr, []byte("\r\n")) {
		if i := bytes.Index(line, []byte(": ")); i > 0 && strings.EqualFold(string(line[:i]), "Content-Length") {
			n, err := strconv.Atoi(string(line[i+2:]))
			if err != nil {
				return nil, false
			}
			cl = n
		}
	}
	body := data[start+end+4:]
	if cl < 0 || cl > len(body) {
		return nil, false
	}
	return body[:cl], true
}
