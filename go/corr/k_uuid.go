package main

import (
	"bytes"
	"fmt"
	"strconv"
	"sync"

	"github.com/google/uuid"
	gowarc "github.com/nlnwa/gowarc/v2"
)

// ---- C02 record-id clause: the DEFAULT id generator (options.go defaultIdGenerator) through the builder, against
// Model/RecordId.lean.
//
// uuid <hex of 16 random bytes>   the random source of google/uuid is replaced by exactly these bytes; a record is built
//                                 with default options and no WARC-Record-ID; output: the header value, hex
// uuidconc <builders> <each>      real random source; <builders> goroutines build <each> records each, then the same
//                                 number sequentially: every id well-formed, no id twice (implementation only: the
//                                 model says what ONE draw becomes, C02_id_injective says distinct draws give distinct ids)
func buildDefaultId() (string, error) {
	rb := gowarc.NewRecordBuilder(gowarc.Resource)
	defer rb.Close()
	rb.AddWarcHeader(gowarc.WarcDate, "2020-01-02T03:04:05Z")
	rb.AddWarcHeader(gowarc.WarcTargetURI, "http://example.com/")
	rb.AddWarcHeader(gowarc.ContentType, "text/plain")
	_, _ = rb.WriteString("x")
	rec, _, err := rb.Build()
	if err != nil {
		return "", err
	}
	defer rec.Close()
	if !rec.WarcHeader().Has(gowarc.WarcRecordID) {
		return "", nil
	}
	return rec.WarcHeader().Get(gowarc.WarcRecordID), nil
}

type cyclic struct {
	b []byte
	i *int
}

func (c cyclic) Read(p []byte) (int, error) {
	for k := range p {
		p[k] = c.b[*c.i%len(c.b)]
		*c.i++
	}
	return len(p), nil
}

func kUuid(args []string) (string, string) {
	rnd := unhx(args[0])
	// gowarc enables the random pool of google/uuid (options.go init): flush it so that the next draw refills it from the case bytes
	uuid.DisableRandPool()
	uuid.EnableRandPool()
	uuid.SetRand(cyclic{rnd, new(int)}) // every draw of this case delivers the same 16 bytes
	id, err := buildDefaultId()
	// a case of 256 bytes fills the pool exactly once: sixteen consecutive builders get its sixteen slices in order
	var ids []string
	for k := 1; err == nil && k < len(rnd)/16; k++ {
		var more string
		more, err = buildDefaultId()
		ids = append(ids, more)
	}
	uuid.SetRand(nil)
	uuid.DisableRandPool() // nothing of the fixed bytes stays in the pool
	uuid.EnableRandPool()
	if err != nil {
		return "err", "ok"
	}
	oracle := "ok"
	if !idRe.MatchString(id) || id[24] != '4' || !bytes.ContainsRune([]byte("89ab"), rune(id[29])) {
		oracle = "VIOL c02-record-id not a bracketed version-4 uuid URN: " + sanitize(id)
	}
	out := hxs(id)
	for _, more := range ids {
		if !idRe.MatchString(more) && oracle == "ok" {
			oracle = "VIOL c02-record-id not a bracketed version-4 uuid URN: " + sanitize(more)
		}
		out += "|" + hxs(more)
	}
	return out, oracle
}

func kUuidConc(args []string) (string, string) {
	nb, _ := strconv.Atoi(args[0])
	each, _ := strconv.Atoi(args[1])
	var mu sync.Mutex
	seen := map[string]int{}
	bad := ""
	note := func(id string, err error) {
		mu.Lock()
		defer mu.Unlock()
		if err != nil || !idRe.MatchString(id) {
			if bad == "" {
				bad = fmt.Sprintf("%q err=%v", id, err)
			}
			return
		}
		seen[id]++
	}
	var wg sync.WaitGroup
	start := make(chan struct{})
	for b := 0; b < nb; b++ {
		wg.Add(1)
		go func() {
			defer wg.Done()
			<-start
			for i := 0; i < each; i++ {
				note(buildDefaultId())
			}
		}()
	}
	close(start)
	wg.Wait()
	for i := 0; i < nb*each; i++ {
		note(buildDefaultId())
	}
	if bad != "" {
		return "impl-only", "VIOL c02-record-id malformed id from the default generator: " + sanitize(bad)
	}
	rep := 0
	for _, n := range seen {
		if n > 1 {
			rep += n - 1
		}
	}
	if rep > 0 {
		return "impl-only", fmt.Sprintf("VIOL c02-record-id-repeat %d of %d ids from %d concurrent builders (+ as many sequential builds) occur more than once", rep, 2*nb*each, nb)
	}
	return "impl-only", "ok"
}

func genUuid(r *rng, n int, tier string, emit func(string, ...string)) {
	for i := 0; i < n; i++ {
		b := r.bytes(16)
		switch i % 8 {
		case 0:
			b = bytes.Repeat([]byte{0xff}, 16)
		case 1:
			b = make([]byte, 16)
		case 2:
			b[6], b[8] = byte(i), byte(i>>3) // every value of the stamped bytes over a run
		}
		if i%8 == 3 {
			b = r.bytes(256)
			stat("uuid-kind", "fixed-pool-of-16-draws")
		} else {
			stat("uuid-kind", "fixed-draw")
		}
		emit("uuid", hx(b))
	}
	k := 2
	if tier == "thorough" {
		k = 12
	}
	for i := 0; i < k; i++ {
		stat("uuid-kind", "concurrent-builders")
		emit("uuidconc", strconv.Itoa(pick(r, []int{4, 8, 16})), strconv.Itoa(pick(r, []int{300, 1000})))
	}
}

func init() {
	kinds["uuid"] = kUuid
	kinds["uuidconc"] = kUuidConc
}
