package main

import (
	"fmt"
	"net"
	"strconv"
	"strings"
	"time"

	gowarc "github.com/nlnwa/gowarc/v2"
)

// ---- C17: the WARC field table of the standards (WARC 1.0 / 1.1), transcribed here independently of headerfielddef.go

type specField struct {
	name       string
	typ        string // string | long | int | time | ip | id | uri | digest
	repeatable bool
	rec        int // allowed record types (bit set), 255 = all
	vers       int // defining versions: 1 = 1.0, 2 = 1.1, 0 = extension field (never checked)
}

const (
	tWarcinfo = 1 << iota
	tResponse
	tResource
	tRequest
	tMetadata
	tRevisit
	tConversion
	tContinuation
)

var specTable = []specField{
	{"Content-Length", "long", false, 255, 3},
	{"Content-Type", "string", false, 255, 3},
	{"WARC-Block-Digest", "digest", false, 255, 3},
	{"WARC-Concurrent-To", "id", true, tResponse | tResource | tRequest | tMetadata | tRevisit, 3},
	{"WARC-Date", "time", false, 255, 3},
	{"WARC-Filename", "string", false, tWarcinfo, 3},
	{"WARC-IP-Address", "ip", false, tResponse | tResource | tRequest | tMetadata | tRevisit, 3},
	{"WARC-Identified-Payload-Type", "string", false, 255, 3},
	{"WARC-Payload-Digest", "digest", false, 255, 3},
	{"WARC-Profile", "uri", false, tRevisit, 3},
	{"WARC-Record-ID", "id", false, 255, 3},
	{"WARC-Refers-To", "id", false, tMetadata | tRevisit | tConversion, 3},
	{"WARC-Refers-To-Date", "time", false, tRevisit, 2},
	{"WARC-Refers-To-Target-URI", "uri", false, tRevisit, 2},
	{"WARC-Segment-Number", "int", false, 255, 3},
	{"WARC-Segment-Origin-ID", "id", false, tContinuation, 3},
	{"WARC-Segment-Total-Length", "long", false, tContinuation, 3},
	{"WARC-Target-URI", "uri", false, 255 &^ tWarcinfo, 3}, // "shall not be used in warcinfo records"
	{"WARC-Truncated", "string", false, 255, 3},
	{"WARC-Type", "string", false, 255, 3},
	{"WARC-Warcinfo-ID", "id", false, 255 &^ tWarcinfo, 3},
	{"WARC-Page-ID", "string", false, 255 &^ tWarcinfo, 0},
	{"WARC-Resource-Type", "string", false, 255 &^ tWarcinfo, 0},
	{"WARC-JSON-Metadata", "string", false, 255 &^ tWarcinfo, 0},
}

func specLookup(name string) *specField {
	for i := range specTable {
		if strings.EqualFold(specTable[i].name, name) {
			return &specTable[i]
		}
	}
	return nil
}

func nonNegDecimal(v string) bool {
	if v == "" {
		return false
	}
	for i := 0; i < len(v); i++ {
		if v[i] < '0' || v[i] > '9' {
			return false
		}
	}
	_, err := strconv.ParseUint(v, 10, 63)
	return err == nil
}

func specWellTyped(typ, v string) bool {
	switch typ {
	case "long", "int":
		return nonNegDecimal(v)
	case "time":
		_, err := time.Parse(time.RFC3339, v)
		return err == nil
	case "ip":
		return net.ParseIP(v) != nil
	case "id":
		t := strings.Trim(v, "<>")
		return len(v) == len(t)+2 && uriOK(t)
	case "uri":
		return uriOK(v)
	}
	return true
}

// specDefects lists the defects of a header set according to the standard's table. verBit: 1, 2 or 0 (unknown version).
func specDefects(verBit int, pairs [][2]string) (rt int, defects []string) {
	typeVal := ""
	for _, nv := range pairs {
		if strings.EqualFold(nv[0], "WARC-Type") {
			typeVal = nv[1]
			break
		}
	}
	if typeVal == "" {
		defects = append(defects, "no-type")
	}
	rt = rtNums[strings.ToLower(typeVal)]
	count := map[string]int{}
	for _, nv := range pairs {
		f := specLookup(nv[0])
		if f == nil {
			continue
		}
		count[f.name]++
		if f.vers&verBit == 0 {
			continue // not defined in this version: not judged
		}
		if rt != 0 && f.rec&rt == 0 {
			defects = append(defects, "illegal:"+f.name)
			continue
		}
		if !specWellTyped(f.typ, nv[1]) {
			defects = append(defects, "illtyped:"+f.name)
		}
	}
	for _, f := range specTable {
		if !f.repeatable && count[f.name] > 1 {
			defects = append(defects, "duplicate:"+f.name)
		}
	}
	for _, m := range []string{"WARC-Record-ID", "Content-Length", "WARC-Date", "WARC-Type"} {
		if count[m] == 0 {
			defects = append(defects, "missing:"+m)
		}
	}
	cl := int64(0)
	for _, nv := range pairs {
		if strings.EqualFold(nv[0], "Content-Length") {
			cl, _ = strconv.ParseInt(nv[1], 10, 64)
			break
		}
	}
	if rt != tContinuation && cl > 0 && count["Content-Type"] == 0 {
		defects = append(defects, "missing:Content-Type")
	}
	return rt, defects
}

// valhdr <opts> <ver> <hdr> <oracles>
func kValHdr(args []string) (string, string) {
	o := parseRopts(args[0])
	pairs := splitPairsArg(args[2])
	rt, after, fnd, errTag := gowarc.VerifValidateHeader(o.options(), args[1], pairs)
	var impl string
	if errTag != "" {
		impl = fmt.Sprintf("err %s fnd=%s", errTag, showList(fnd))
	} else {
		impl = fmt.Sprintf("ok rt=%d fnd=%s", rt, showList(fnd))
	}
	oracle := "ok"
	verBit := map[string]int{"1.0": 1, "1.1": 2}[args[1]]
	srt, defects := specDefects(verBit, pairs)
	// values must never be altered by validation (C07)
	before := [][2]string{}
	wf := &gowarc.WarcFields{}
	for _, nv := range pairs {
		wf.Add(nv[0], nv[1])
	}
	before = gowarc.VerifPairs(wf)
	if showPairs(before) != showPairs(after) {
		oracle = "VIOL c07-header-altered"
	}
	unknownOnly := len(defects) == 0 && srt == 0 // only the unknown-type axis may speak
	specFnd := 0
	for _, f := range fnd {
		if f != "hdrUnknownType" {
			specFnd++
		}
	}
	switch {
	case verBit == 0:
		// an unsupported WARC version: the field table of the standards says nothing about it; not judged
	case o.spec == 2 && oracle == "ok":
		rejected := errTag != "" && errTag != "hdrUnknownType"
		if len(defects) > 0 && !rejected && !(errTag == "hdrUnknownType") {
			oracle = "VIOL c17-strict-accepts " + sanitize(strings.Join(defects, ","))
		}
		if len(defects) == 0 && rejected {
			oracle = "VIOL c17-strict-rejects-valid err=" + errTag
		}
		_ = unknownOnly
	case o.spec == 1 && oracle == "ok":
		if errTag != "" && errTag != "hdrUnknownType" {
			oracle = "VIOL c17-warn-returns-error " + errTag
		} else if errTag == "" {
			if len(defects) > 0 && specFnd < len(defects) {
				oracle = fmt.Sprintf("VIOL c17-warn-too-few-findings defects=%s findings=%s", sanitize(strings.Join(defects, ",")), showList(fnd))
			}
			if len(defects) == 0 && specFnd > 0 {
				oracle = "VIOL c17-warn-findings-on-valid " + showList(fnd)
			}
		}
	}
	return impl, oracle
}

var validValue = map[string]string{"long": "42", "int": "3", "time": "2020-01-02T03:04:05Z", "ip": "192.0.2.7", "id": "<urn:uuid:12345678-0000-4000-8000-000000000001>", "uri": "http://example.com/x", "digest": "sha1:3I42H3S6NNFQ2MSVX7XZKYAYSCX5QBYJ", "string": "text/plain"}
var invalidValues = map[string][]string{
	"long": {"-1", "0x10", "1_0", "+5", "", "12a", "9223372036854775808", " 7"},
	"int":  {"-1", "0x10", "1_0", "+5", "", "x"},
	"time": {"yesterday", "2020-13-01T00:00:00Z", "2020-01-02 03:04:05", ""},
	"ip":   {"999.1.1.1", "notanip", "1.2.3", ""},
	"id":   {"urn:uuid:1", "<urn:uuid:1", "urn:uuid:1>", "<>", "<<urn:x>>", ""},
	"uri":  {"http://[::1", ""},
}

func baseHeader(rtName string) [][2]string {
	return [][2]string{{"WARC-Type", rtName}, {"WARC-Record-ID", "<urn:uuid:aaaaaaaa-0000-4000-8000-000000000000>"},
		{"WARC-Date", "2020-01-02T03:04:05Z"}, {"Content-Length", "0"}}
}

func oraclesForPairs(p [][2]string) string {
	t := &oracleTab{}
	for _, nv := range p {
		t.addValue(nv[1])
	}
	return t.String()
}

func emitValHdr(emit func(string, ...string), o ropts, ver string, p [][2]string) {
	emit("valhdr", o.String(), ver, pairsArg(p), oraclesForPairs(p))
}

func genC17(r *rng, n int, tier string, emit func(string, ...string)) {
	types := []string{"warcinfo", "response", "resource", "request", "metadata", "revisit", "conversion", "continuation", "foo"}
	strict, warn := defaultRopts(), defaultRopts()
	strict.syn, strict.spec, strict.unk = 2, 2, 0
	warn.unk = 0
	// (a) EVERY field x record type x version cell, with a valid and an invalid value
	for _, f := range specTable {
		for _, t := range types {
			for _, ver := range []string{"1.0", "1.1"} {
				vals := []string{validValue[f.typ]}
				vals = append(vals, invalidValues[f.typ]...)
				for _, v := range vals {
					h := baseHeader(t)
					replaced := false
					for i := range h {
						if strings.EqualFold(h[i][0], f.name) {
							h[i][1] = v
							if f.name == "WARC-Type" {
								h[i][1] = t
							}
							replaced = true
						}
					}
					if !replaced {
						h = append(h, [2]string{f.name, v})
					}
					emitValHdr(emit, strict, ver, h)
					emitValHdr(emit, warn, ver, h)
					stat("valhdr", "cell")
				}
			}
		}
		// (b) multiplicities 0..3, and around the sizes at which a narrow counter would wrap (for a few fields)
		mults := []int{0, 1, 2, 3}
		if f.name == "WARC-Date" || f.name == "WARC-Filename" || f.name == "WARC-Concurrent-To" || f.name == "Content-Type" {
			mults = append(mults, 255, 256, 257)
		}
		for _, k := range mults {
			h := [][2]string{}
			for _, nv := range baseHeader("revisit") {
				if !strings.EqualFold(nv[0], f.name) {
					h = append(h, nv)
				}
			}
			for i := 0; i < k; i++ {
				name := f.name
				if i == 1 {
					name = strings.ToLower(f.name)
				}
				v := validValue[f.typ]
				if f.name == "WARC-Type" {
					v = "revisit"
				}
				h = append(h, [2]string{name, v})
			}
			emitValHdr(emit, strict, "1.1", h)
			emitValHdr(emit, warn, "1.1", h)
			stat("valhdr", "multiplicity")
		}
	}
	// (d) typed values around the boundaries of their value space, judged by the independent oracle (time.Parse, net.ParseIP,
	// strconv): calendar days that do not exist (Feb 29 outside leap years, Feb 30, Apr 31), components one beyond their
	// range, other shapes of RFC 3339 (fractions, offsets, lower-case letters); addresses and numbers at their limits
	years := []string{"1900", "2000", "2016", "2017", "2020", "2100", "9999", "0000", "0001"}
	months := []string{"00", "01", "02", "03", "04", "06", "09", "11", "12", "13"}
	days := []string{"00", "01", "28", "29", "30", "31", "32"}
	hours := []string{"00", "12", "23", "24"}
	mins := []string{"00", "59", "60"}
	suffixes := []string{"Z", "Z", "Z", "z", "+01:00", "-00:00", "+00:00", ".5Z", ".123456789Z", "", "+0100", "+24:00", "Z "}
	ipVals := []string{"256.1.1.1", "255.255.255.255", "0.0.0.0", "1.2.3.4.5", "01.2.3.4", "1.2.3.04", "::1", "::", "::ffff:1.2.3.4", "1::2::3", "fe80::1%eth0", "2001:db8::g", "1.2.3.4 ", "[::1]", "2001:0db8:0000:0000:0000:0000:0000:0001", "1:2:3:4:5:6:7:8:9"}
	longVals := []string{"9223372036854775807", "9223372036854775808", "18446744073709551616", "007", "00", "0", "1e3", "٣", "1 ", "４２"}
	for i := 0; i < n/2+60; i++ {
		var name, v, t string
		switch r.intn(6) {
		case 0, 1, 2, 3:
			name = pick(r, []string{"WARC-Date", "WARC-Date", "WARC-Refers-To-Date"})
			t = pick(r, []string{"revisit", "response", "resource"})
			sep := "T"
			if r.chance(1, 12) {
				sep = pick(r, []string{"t", " "})
			}
			v = pick(r, years) + "-" + pick(r, months) + "-" + pick(r, days) + sep + pick(r, hours) + ":" + pick(r, mins) + ":" + pick(r, mins) + pick(r, suffixes)
			if r.chance(1, 2) {
				// the neighbourhood of the end of February and of the 30-day months, all other components ordinary
				v = pick(r, years) + "-" + pick(r, []string{"02", "02", "04", "06", "09", "11"}) + "-" + pick(r, []string{"28", "29", "30", "31"}) + "T04:03:53Z"
			}
			stat("valhdr-typed", "time")
		case 4:
			name, t, v = "WARC-IP-Address", "response", pick(r, ipVals)
			stat("valhdr-typed", "ip")
		default:
			name, t, v = pick(r, []string{"Content-Length", "WARC-Segment-Number", "WARC-Segment-Total-Length"}), "continuation", pick(r, longVals)
			stat("valhdr-typed", "number")
		}
		h := baseHeader(t)
		replaced := false
		for k := range h {
			if h[k][0] == name {
				h[k][1] = v
				replaced = true
			}
		}
		if !replaced {
			h = append(h, [2]string{name, v})
		}
		ver := pick(r, []string{"1.0", "1.1"})
		emitValHdr(emit, strict, ver, h)
		emitValHdr(emit, warn, ver, h)
	}
	// (c) random mixes of defects, all policy settings
	for i := 0; i < n; i++ {
		t := pick(r, types)
		h := baseHeader(t)
		k := r.rangeInt(0, 4)
		for j := 0; j < k; j++ {
			f := pick(r, specTable)
			v := validValue[f.typ]
			if r.chance(1, 3) && len(invalidValues[f.typ]) > 0 {
				v = pick(r, invalidValues[f.typ])
			}
			if f.name == "WARC-Type" {
				v = t
			}
			switch r.intn(4) {
			case 0:
				// drop a field
				if len(h) > 1 {
					i := r.intn(len(h))
					h = append(h[:i], h[i+1:]...)
				}
			default:
				h = append(h, [2]string{recase(r, f.name), v})
			}
		}
		if r.chance(1, 4) {
			for i := range h {
				if h[i][0] == "Content-Length" {
					h[i][1] = pick(r, []string{"5", "0", "12"})
				}
			}
		}
		o := genRopts(r)
		if r.chance(1, 2) {
			o.spec = r.rangeInt(1, 2)
		}
		emitValHdr(emit, o, pick(r, []string{"1.0", "1.1", "1.1", "0.9"}), h)
		stat("valhdr", "random")
	}
}

func init() {
	kinds["valhdr"] = kValHdr
	gens["C17"] = genC17
}

func parseTime(v string) (time.Time, error) { return time.Parse(time.RFC3339, v) }
