package main

import (
	"bufio"
	"bytes"
	"fmt"
	"io"
	"os"
	"path/filepath"
	"sort"
	"strconv"
	"strings"
	"time"

	gowarc "github.com/nlnwa/gowarc/v2"
)

// failAfterMarshaler: for the record tokens listed in `failAt` the marshaler writes the first k bytes of the serialized
// record and then fails - what happens when the record's block reader returns an error half way (k < 0: before a byte
// is written). Every other record goes to the default marshaler untouched.
//
// segAt: for the record tokens listed there the marshaler SEGMENTS the record: it writes a first segment holding the
// first `cut` block bytes under the record's own id and hands a continuation record (id = token + segTokOffset) with the
// rest of the block back to the file writer, which writes it through its own write path (warcfile.go writeRecord).
type failAfterMarshaler struct {
	inner  gowarc.Marshaler
	failAt map[int]int
	segAt  map[int]int
	segErr error
}

const segTokOffset = 40000000

func (m *failAfterMarshaler) segment(w io.Writer, record gowarc.WarcRecord, cut int, maxSize int64) (gowarc.WarcRecord, int64, error) {
	h := record.WarcHeader()
	raw, err := record.Block().RawBytes()
	if err != nil {
		m.segErr = err
		return nil, 0, err
	}
	data, err := io.ReadAll(raw)
	if err != nil {
		m.segErr = err
		return nil, 0, err
	}
	if cut > len(data) {
		cut = len(data)
	}
	tok := tokOfId(h.Get("WARC-Record-ID"))
	first := gowarc.NewRecordBuilder(record.Type())
	for _, name := range []string{"WARC-Record-ID", "WARC-Date", "WARC-Target-URI", "Content-Type", "WARC-Warcinfo-ID", "WARC-Concurrent-To"} {
		for _, v := range h.GetAll(name) {
			first.AddWarcHeader(name, v)
		}
	}
	first.AddWarcHeaderInt("WARC-Segment-Number", 1)
	_, _ = first.Write(data[:cut])
	firstRec, _, err := first.Build()
	if err != nil {
		m.segErr = err
		return nil, 0, err
	}
	cont := gowarc.NewRecordBuilder(gowarc.Continuation)
	cont.AddWarcHeader("WARC-Record-ID", tokId(tok+segTokOffset))
	cont.AddWarcHeader("WARC-Date", h.Get("WARC-Date"))
	cont.AddWarcHeader("WARC-Target-URI", h.Get("WARC-Target-URI"))
	cont.AddWarcHeader("WARC-Segment-Origin-ID", h.Get("WARC-Record-ID"))
	cont.AddWarcHeaderInt("WARC-Segment-Number", 2)
	cont.AddWarcHeaderInt64("WARC-Segment-Total-Length", int64(len(data)))
	_, _ = cont.Write(data[cut:])
	contRec, _, err := cont.Build()
	if err != nil {
		m.segErr = err
		return nil, 0, err
	}
	_, size, err := m.inner.Marshal(w, firstRec, maxSize)
	return contRec, size, err
}

func (m *failAfterMarshaler) Marshal(w io.Writer, record gowarc.WarcRecord, maxSize int64) (gowarc.WarcRecord, int64, error) {
	tk := tokOfId(record.WarcHeader().Get("WARC-Record-ID"))
	if cut, ok := m.segAt[tk]; ok {
		return m.segment(w, record, cut, maxSize)
	}
	k, ok := m.failAt[tk]
	if !ok {
		return m.inner.Marshal(w, record, maxSize)
	}
	var buf bytes.Buffer
	_, _, _ = m.inner.Marshal(&buf, record, maxSize)
	if k < 0 {
		return nil, 0, fmt.Errorf("verif: block reader failed")
	}
	if k > buf.Len() {
		k = buf.Len()
	}
	n, _ := w.Write(buf.Bytes()[:k])
	return nil, int64(n), fmt.Errorf("verif: block reader failed after %d bytes", k)
}

// ---- C04 / C13: the file writer, one worker, driven through the public API; files read back with the independent
// scanner and with gowarc's own reader (sequentially, and freshly opened at every reported offset).

type seqNames struct {
	dir   string
	names []string
	dup   map[int]bool // hand out the previous name again at these calls (collision path)
	ext   string       // what the generated names end with (default ".warc"): a generator is free to end its names in ".gz", ".WARC.GZ", ...
}

func (g *seqNames) NewWarcfileName() (string, string) {
	ext := g.ext
	if ext == "" {
		ext = ".warc"
	}
	n := fmt.Sprintf("w-%04d%s", len(g.names)+1, ext)
	g.names = append(g.names, n)
	return g.dir, n
}

func tokId(tok int) string { return fmt.Sprintf("<urn:uuid:%08d-0000-4000-8000-000000000000>", tok) }

func tokOfId(id string) int {
	if len(id) < 18 || !strings.HasPrefix(id, "<urn:uuid:") {
		return -1
	}
	n, err := strconv.Atoi(id[10:18])
	if err != nil {
		return -1
	}
	return n
}

type wrec struct {
	tok   int
	kind  string // r = resource, h = http response, q = http request, m = metadata (warc-fields block)
	size  int
	decl  string // t truthful, e removed, b garbage, z "0", g huge
	rec   gowarc.WarcRecord
	lying bool
	seg   bool // written through the segmenting marshaler: a continuation record (token + segTokOffset) follows it
}

func buildWrec(w *wrec) error {
	var rb gowarc.WarcRecordBuilder
	body := bytes.Repeat([]byte{byte('a' + w.tok%26)}, w.size)
	// some variety so that compressed sizes differ
	for i := range body {
		if (i*7+w.tok)%5 == 0 {
			body[i] = byte('A' + (i+w.tok)%23)
		}
	}
	switch w.kind {
	case "h":
		rb = gowarc.NewRecordBuilder(gowarc.Response)
		rb.AddWarcHeader("Content-Type", "application/http;msgtype=response")
		rb.AddWarcHeader("WARC-Target-URI", "http://example.com/")
		_, _ = rb.Write([]byte("HTTP/1.1 200 OK\r\nContent-Type: text/plain\r\n\r\n"))
		_, _ = rb.Write(body)
	case "q":
		rb = gowarc.NewRecordBuilder(gowarc.Request)
		rb.AddWarcHeader("Content-Type", "application/http;msgtype=request")
		rb.AddWarcHeader("WARC-Target-URI", "http://example.com/")
		_, _ = rb.Write([]byte("GET / HTTP/1.1\r\nHost: example.com\r\n\r\n"))
		_, _ = rb.Write(body)
	case "m":
		rb = gowarc.NewRecordBuilder(gowarc.Metadata)
		rb.AddWarcHeader("Content-Type", "application/warc-fields")
		rb.AddWarcHeader("WARC-Target-URI", "http://example.com/")
		_, _ = rb.Write([]byte("k: " + string(bytes.ReplaceAll(body, []byte("\n"), []byte("x"))) + "\r\n"))
	default:
		rb = gowarc.NewRecordBuilder(gowarc.Resource)
		rb.AddWarcHeader("Content-Type", "text/plain")
		rb.AddWarcHeader("WARC-Target-URI", "http://example.com/")
		_, _ = rb.Write(body)
	}
	rb.AddWarcHeader("WARC-Record-ID", tokId(w.tok))
	rb.AddWarcHeader("WARC-Date", "2020-01-01T00:00:00Z")
	rec, _, err := rb.Build()
	if err != nil {
		return err
	}
	switch w.decl {
	case "e":
		rec.WarcHeader().Delete("Content-Length")
		w.lying = true
	case "b":
		rec.WarcHeader().Set("Content-Length", "12x")
		w.lying = true
	case "z":
		rec.WarcHeader().Set("Content-Length", "0")
		w.lying = true
	case "g":
		rec.WarcHeader().Set("Content-Length", "99999999")
		w.lying = true
	case "w":
		// a record that already carries a WARC-Warcinfo-ID (copied from another file, or written a second time)
		rec.WarcHeader().Set("WARC-Warcinfo-ID", foreignInfoId)
	}
	w.rec = rec
	return nil
}

const foreignInfoId = "<urn:uuid:77777777-0000-4000-8000-000000000000>"

type cbRec struct {
	name string
	size int64
	info string
}

// writer <cfg> <ops> [aug]    cfg: max=N;comp=t|f;info=t|f;rnum=a;rden=b;flush=t|f;conc=t|f;level=n
// ops (';'-separated): R | B:<tok>,<kind>,<size>,<decl>|<tok>,...   (one Write call with that batch)
func kWriter(args []string) (string, string) {
	cfg := kvParse(args[0])
	max, _ := strconv.ParseInt(cfg["max"], 10, 64)
	comp := cfg["comp"] == "t"
	info := cfg["info"] == "t"
	rnum, _ := strconv.Atoi(cfg["rnum"])
	rden, _ := strconv.Atoi(cfg["rden"])
	if rden == 0 {
		rnum, rden = 1, 1
	}
	dir, err := os.MkdirTemp("", "vw")
	if err != nil {
		return "infra-tmp", "ok"
	}
	defer os.RemoveAll(dir)
	gowarc.VerifSetNow(time.Date(2021, 2, 3, 4, 5, 6, 0, time.UTC))
	ng := &seqNames{dir: dir, ext: cfg["next"]}
	var cbs []cbRec
	var before []string
	infoSerial := 0
	fm := &failAfterMarshaler{inner: gowarc.NewMarshaler(), failAt: map[int]int{}, segAt: map[int]int{}}
	wopts := []gowarc.WarcFileWriterOption{
		gowarc.WithMarshaler(fm),
		gowarc.WithMaxFileSize(max), gowarc.WithCompression(comp), gowarc.WithFileNameGenerator(ng),
		gowarc.WithMaxConcurrentWriters(1), gowarc.WithExpectedCompressionRatio(float64(rnum) / float64(rden)),
		gowarc.WithFlush(cfg["flush"] == "t"), gowarc.WithAddWarcConcurrentToHeader(cfg["conc"] == "t"),
		gowarc.WithAfterFileCreationHook(func(name string, size int64, infoId string) error {
			cbs = append(cbs, cbRec{name, size, infoId})
			return nil
		}),
		gowarc.WithBeforeFileCreationHook(func(name string) error { before = append(before, name); return nil }),
		gowarc.WithRecordOptions(gowarc.WithRecordIdFunc(func() (string, error) {
			infoSerial++
			return fmt.Sprintf("urn:uuid:99%06d-0000-4000-8000-000000000000", infoSerial), nil
		})),
	}
	if info {
		wopts = append(wopts, gowarc.WithWarcInfoFunc(func(rb gowarc.WarcRecordBuilder) error {
			rb.AddWarcHeader("WARC-Record-ID", fmt.Sprintf("<urn:uuid:99%06d-0000-4000-8000-000000000000>", len(ng.names)))
			_, _ = rb.Write([]byte("software: verif\r\n"))
			if n, _ := strconv.Atoi(cfg["infosz"]); n > 0 {
				// a generator that adds a lot of (compressible) content
				_, _ = rb.Write([]byte("description: " + strings.Repeat("all work and no play ", n/21+1)[:n] + "\r\n"))
			}
			return nil
		}))
	}
	if l, ok := cfg["level"]; ok {
		lv, _ := strconv.Atoi(l)
		wopts = append(wopts, gowarc.WithCompressionLevel(lv))
	}
	w := gowarc.NewWarcFileWriter(wopts...)

	suffix := ""
	if comp {
		suffix = ".gz"
	}
	fileIdx := func(name string) int {
		name = strings.TrimSuffix(filepath.Base(name), ".open")
		name = strings.TrimSuffix(name, suffix)
		for i, n := range ng.names {
			if n == name {
				return i + 1
			}
		}
		return -1
	}

	type respRec struct {
		w     *wrec
		resp  gowarc.WriteResponse
		batch int // which Write call the record belonged to
	}
	nBatch := 0
	var resps []string
	var all []respRec
	viol := ""
	setViol := func(sig, detail string) {
		if viol == "" {
			viol = "VIOL " + sig + " " + sanitize(detail)
		}
	}
	anyLying := false
	var modelOps []string
	listing := func(step int) {
		ents, _ := os.ReadDir(dir)
		open := 0
		for _, e := range ents {
			n := e.Name()
			if strings.HasSuffix(n, ".open") {
				open++
				n = strings.TrimSuffix(n, ".open")
			}
			// the name on disk is the generated name plus the compression suffix exactly when compressing
			gen := strings.TrimSuffix(n, suffix)
			known := false
			for _, g := range ng.names {
				if g == gen {
					known = true
				}
			}
			if (comp && !strings.HasSuffix(n, suffix)) || !known {
				setViol("writer-name-suffix", fmt.Sprintf("step=%d name=%s compress=%v", step, e.Name(), comp))
			}
		}
		if open > 1 {
			setViol("writer-open-files", fmt.Sprintf("step=%d open=%d with one worker", step, open))
		}
	}
	for step, op := range strings.Split(args[1], ";") {
		if op == "R" {
			if err := w.Rotate(); err != nil {
				setViol("writer-rotate-error", err.Error())
			}
			resps = append(resps, "R")
			modelOps = append(modelOps, "R")
			listing(step)
			// after Rotate nothing is open
			ents, _ := os.ReadDir(dir)
			for _, e := range ents {
				if strings.HasSuffix(e.Name(), ".open") {
					setViol("writer-open-after-rotate", e.Name())
				}
			}
			continue
		}
		if strings.HasPrefix(op, "F:") {
			// F:<tok>,<kind>,<size>,<k>: a Write whose record fails to marshal after k bytes. The response must carry the
			// error; in the model (op `failed`) the fit test and a file creation happen, no member is added
			f := strings.Split(op[2:], ",")
			if len(f) != 4 {
				return "bad-op", "ok"
			}
			tok, _ := strconv.Atoi(f[0])
			size, _ := strconv.Atoi(f[2])
			k, _ := strconv.Atoi(f[3])
			wr := &wrec{tok: tok, kind: f[1], size: size, decl: "t"}
			if err := buildWrec(wr); err != nil {
				return "build-error " + sanitize(err.Error()), "ok"
			}
			fm.failAt[tok] = k
			declF := wr.rec.WarcHeader().Get("Content-Length")
			rr := w.Write(wr.rec)
			if len(rr) != 1 || rr[0].Err == nil {
				setViol("writer-error-swallowed", fmt.Sprintf("record %d failed to marshal but the response carries no error", tok))
			}
			resps = append(resps, "err")
			// the model is told: a Write that failed in the marshaler; `!n` = the file that is current afterwards (its warcinfo
			// member, if this call created it, is measured once the files are read back)
			modelOps = append(modelOps, fmt.Sprintf("F:%d:%s:!%d", tok, declF, len(ng.names)))
			listing(step)
			continue
		}
		if strings.HasPrefix(op, "S:") {
			// S:<tok>,<kind>,<size>,<cut>: a Write whose record the marshaler splits into a first segment (cut block bytes) and
			// a continuation record. One response: the position of the first segment, the byte counts added (model op `seg`)
			f := strings.Split(op[2:], ",")
			if len(f) != 4 {
				return "bad-op", "ok"
			}
			tok, _ := strconv.Atoi(f[0])
			size, _ := strconv.Atoi(f[2])
			cut, _ := strconv.Atoi(f[3])
			wr := &wrec{tok: tok, kind: f[1], size: size, decl: "t", seg: true}
			if err := buildWrec(wr); err != nil {
				return "build-error " + sanitize(err.Error()), "ok"
			}
			fm.segAt[tok] = cut
			declS := wr.rec.WarcHeader().Get("Content-Length")
			rr := w.Write(wr.rec)
			if fm.segErr != nil {
				return "build-error segment " + sanitize(fm.segErr.Error()), "ok"
			}
			if len(rr) != 1 {
				setViol("writer-response-count", fmt.Sprintf("%d responses for a segmented record", len(rr)))
				return "response-count", viol
			}
			all = append(all, respRec{wr, rr[0], 0})
			if rr[0].Err != nil {
				resps = append(resps, "err")
				modelOps = append(modelOps, fmt.Sprintf("W:%d:%s:0:0:0", tok, declS))
			} else {
				resps = append(resps, fmt.Sprintf("%d@%d+%d", fileIdx(rr[0].FileName), rr[0].FileOffset, rr[0].BytesWritten))
				// lengths of both members and of the warcinfo records of their files are measured once the files are read back
				modelOps = append(modelOps, fmt.Sprintf("S:%d:%s:@%d", tok, declS, len(all)-1))
			}
			listing(step)
			continue
		}
		if !strings.HasPrefix(op, "B:") {
			return "bad-op", "ok"
		}
		var batch []*wrec
		var recs []gowarc.WarcRecord
		for _, rs := range strings.Split(op[2:], "|") {
			f := strings.Split(rs, ",")
			if len(f) != 4 {
				return "bad-op", "ok"
			}
			tok, _ := strconv.Atoi(f[0])
			size, _ := strconv.Atoi(f[2])
			wr := &wrec{tok: tok, kind: f[1], size: size, decl: f[3]}
			if err := buildWrec(wr); err != nil {
				return "build-error " + sanitize(err.Error()), "ok"
			}
			if wr.lying {
				anyLying = true
			}
			batch = append(batch, wr)
			recs = append(recs, wr.rec)
		}
		declared := make([]string, len(batch))
		for i, wr := range batch {
			declared[i] = wr.rec.WarcHeader().Get("Content-Length")
		}
		rr := w.Write(recs...)
		nBatch++
		if len(rr) != len(batch) {
			setViol("writer-response-count", fmt.Sprintf("%d responses for %d records", len(rr), len(batch)))
			return "response-count", viol
		}
		for i, r := range rr {
			wr := batch[i]
			all = append(all, respRec{wr, r, nBatch})
			d := "e"
			if declared[i] != "" {
				if _, err := strconv.ParseInt(declared[i], 10, 64); err != nil {
					d = "b"
				} else {
					d = declared[i]
				}
			}
			if r.Err != nil {
				resps = append(resps, "err")
				modelOps = append(modelOps, fmt.Sprintf("W:%d:%s:0:0:0", wr.tok, d))
				continue
			}
			idx := fileIdx(r.FileName)
			resps = append(resps, fmt.Sprintf("%d@%d+%d", idx, r.FileOffset, r.BytesWritten))
			// member lengths are filled in from the files once they are read back
			modelOps = append(modelOps, fmt.Sprintf("W:%d:%s:@%d:%d:@", wr.tok, d, len(all)-1, r.BytesWritten))
		}
		listing(step)
	}
	if err := w.Close(); err != nil {
		setViol("writer-close-error", err.Error())
	}
	modelOps = append(modelOps, "R")
	resps = append(resps, "R")

	// ---- read back
	type fileView struct {
		idx     int
		name    string
		data    []byte
		members []*scanMember
		scanErr error
	}
	var views []*fileView
	ents, _ := os.ReadDir(dir)
	seen := map[string]bool{}
	for _, e := range ents {
		n := e.Name()
		if strings.HasSuffix(n, ".open") {
			setViol("writer-open-after-close", n)
		}
		if seen[n] {
			setViol("writer-name-dup", n)
		}
		seen[n] = true
		data, _ := os.ReadFile(filepath.Join(dir, n))
		v := &fileView{idx: fileIdx(n), name: n, data: data}
		v.members, v.scanErr = scanFile(data, comp)
		views = append(views, v)
	}
	sort.Slice(views, func(i, j int) bool { return views[i].idx < views[j].idx })
	infoIdOf := map[int]string{}
	for _, v := range views {
		if len(v.members) > 0 && v.members[0].get("WARC-Type") == "warcinfo" {
			infoIdOf[v.idx] = v.members[0].get("WARC-Record-ID")
		}
	}
	stampOf := func(m *scanMember) string {
		if !m.has("WARC-Warcinfo-ID") {
			return "-"
		}
		id := m.get("WARC-Warcinfo-ID")
		if id == foreignInfoId {
			return "-" // the caller's own value, untouched by the writer
		}
		for k, v := range infoIdOf {
			if v == id {
				return strconv.Itoa(k)
			}
		}
		return "?"
	}
	// measured member lengths for the model: from the scanner, else from the distance to the next reported offset
	memberLen := func(a respRec) (int64, int64) {
		idx := fileIdx(a.resp.FileName)
		for _, v := range views {
			if v.idx != idx {
				continue
			}
			var infoLen int64
			if v.scanErr == nil {
				if len(v.members) > 0 && v.members[0].get("WARC-Type") == "warcinfo" {
					infoLen = v.members[0].length
				}
				for _, m := range v.members {
					if m.get("WARC-Record-ID") == tokId(a.w.tok) {
						return m.length, infoLen
					}
				}
				return 0, infoLen
			}
			end := int64(len(v.data))
			first := int64(-1)
			for _, b := range all {
				if b.resp.Err == nil && fileIdx(b.resp.FileName) == idx {
					if first < 0 || b.resp.FileOffset < first {
						first = b.resp.FileOffset
					}
					if b.resp.FileOffset > a.resp.FileOffset && b.resp.FileOffset < end {
						end = b.resp.FileOffset
					}
				}
			}
			if info && first > 0 {
				infoLen = first
			}
			return end - a.resp.FileOffset, infoLen
		}
		return 0, 0
	}
	for i, op := range modelOps {
		f := strings.Split(op, ":")
		if len(f) == 4 && f[0] == "F" && strings.HasPrefix(f[3], "!") {
			idx, _ := strconv.Atoi(f[3][1:])
			il := int64(0)
			for _, v := range views {
				if v.idx == idx && v.scanErr == nil && len(v.members) > 0 && v.members[0].get("WARC-Type") == "warcinfo" {
					il = v.members[0].length
				}
			}
			modelOps[i] = fmt.Sprintf("F:%s:%s:%d", f[1], f[2], il)
			continue
		}
		if len(f) == 4 && f[0] == "S" && strings.HasPrefix(f[3], "@") {
			k, _ := strconv.Atoi(f[3][1:])
			ml, il := memberLen(all[k])
			var ul, ml2, ul2, il2 int64
			decl2 := "e"
			for _, v := range views {
				if v.scanErr != nil {
					continue
				}
				for _, m := range v.members {
					if m.get("WARC-Record-ID") == tokId(all[k].w.tok) {
						ul = m.ulen
					}
					if m.get("WARC-Record-ID") == tokId(all[k].w.tok+segTokOffset) {
						ml2, ul2 = m.length, m.ulen
						if m.has("Content-Length") {
							decl2 = m.get("Content-Length")
						}
						if len(v.members) > 0 && v.members[0].get("WARC-Type") == "warcinfo" {
							il2 = v.members[0].length
						}
					}
				}
			}
			modelOps[i] = fmt.Sprintf("S:%s:%s:%d:%d:%d:%d:%s:%d:%d:%d", f[1], f[2], ml, ul, il, all[k].w.tok+segTokOffset, decl2, ml2, ul2, il2)
			continue
		}
		if len(f) == 6 && strings.HasPrefix(f[3], "@") {
			k, _ := strconv.Atoi(f[3][1:])
			ml, il := memberLen(all[k])
			modelOps[i] = fmt.Sprintf("W:%s:%s:%d:%s:%d", f[1], f[2], ml, f[4], il)
		}
	}
	var fileStrs []string
	for _, v := range views {
		var ms []string
		if v.scanErr == nil {
			for _, m := range v.members {
				tok := tokOfId(m.get("WARC-Record-ID"))
				if m.get("WARC-Type") == "warcinfo" {
					tok = 0
				}
				ms = append(ms, fmt.Sprintf("%d+%d^%s", tok, m.length, stampOf(m)))
			}
		} else {
			// a file holding records whose Content-Length the caller falsified cannot be scanned: members from the responses
			if !anyLying {
				setViol("writer-file-not-whole", fmt.Sprintf("file=%s: %v", v.name, v.scanErr))
			}
			var offs []int64
			var toks []int
			var stamps []string
			if info {
				offs, toks, stamps = append(offs, 0), append(toks, 0), append(stamps, "-")
			}
			for _, a := range all {
				if a.resp.Err == nil && fileIdx(a.resp.FileName) == v.idx {
					offs = append(offs, a.resp.FileOffset)
					toks = append(toks, a.w.tok)
					s := "-"
					if a.w.rec.WarcHeader().Has("WARC-Warcinfo-ID") && a.w.rec.WarcHeader().Get("WARC-Warcinfo-ID") != foreignInfoId {
						s = "?"
						id := a.w.rec.WarcHeader().Get("WARC-Warcinfo-ID")
						for k, vv := range infoIdOf {
							if vv == id {
								s = strconv.Itoa(k)
							}
						}
						if s == "?" && info {
							// the file's own warcinfo could not be scanned either: take the id the writer reported to the callback
							for _, c := range cbs {
								if fileIdx(c.name) == v.idx && c.info == strings.Trim(id, "<>") {
									s = strconv.Itoa(v.idx)
								}
							}
						}
					}
					stamps = append(stamps, s)
				}
			}
			for i := range offs {
				end := int64(len(v.data))
				if i+1 < len(offs) {
					end = offs[i+1]
				}
				ms = append(ms, fmt.Sprintf("%d+%d^%s", toks[i], end-offs[i], stamps[i]))
			}
		}
		fileStrs = append(fileStrs, fmt.Sprintf("%d,f,%d,%s", v.idx, len(v.data), strings.Join(ms, "|")))
	}
	var cbStrs []string
	for _, c := range cbs {
		idx := fileIdx(c.name)
		s := "-"
		if c.info != "" {
			s = "?"
			for k, v := range infoIdOf {
				if strings.Trim(v, "<>") == c.info {
					s = strconv.Itoa(k)
				}
			}
			if s == "?" && anyLying {
				s = strconv.Itoa(idx)
			}
		}
		cbStrs = append(cbStrs, fmt.Sprintf("%d,%d,%s", idx, c.size, s))
	}
	impl := fmt.Sprintf("%s files=%s cb=%s", strings.Join(resps, ";"), strings.Join(fileStrs, ";"), strings.Join(cbStrs, ";"))

	// ---- property oracle on the implementation (C04 + C13)
	viewOf := func(idx int) *fileView {
		for _, v := range views {
			if v.idx == idx {
				return v
			}
		}
		return nil
	}
	if !anyLying {
		for _, a := range all {
			if a.resp.Err != nil {
				setViol("writer-unexpected-error", a.resp.Err.Error())
				continue
			}
			v := viewOf(fileIdx(a.resp.FileName))
			if v == nil {
				setViol("writer-offset", fmt.Sprintf("tok=%d: reported file %s does not exist", a.w.tok, a.resp.FileName))
				continue
			}
			if strings.TrimSuffix(v.name, ".open") != a.resp.FileName {
				setViol("writer-filename", fmt.Sprintf("reported %s, file is %s", a.resp.FileName, v.name))
			}
			var at *scanMember
			for _, m := range v.members {
				if m.off == a.resp.FileOffset {
					at = m
				}
			}
			if at == nil || at.get("WARC-Record-ID") != tokId(a.w.tok) {
				got := "no member starts there"
				if at != nil {
					got = at.get("WARC-Record-ID")
				}
				setViol("writer-offset", fmt.Sprintf("tok=%d file=%d reported offset %d: %s", a.w.tok, v.idx, a.resp.FileOffset, got))
				continue
			}
			wantWritten := at.ulen
			if a.w.seg {
				// a segmented record: the one response counts both segments; the continuation lies behind the first segment
				// in the same file, or first (behind the warcinfo) in the next one
				found := 0
				for _, vv := range views {
					for _, m := range vv.members {
						if m.get("WARC-Record-ID") == tokId(a.w.tok+segTokOffset) {
							found++
							wantWritten += m.ulen
							if m.get("WARC-Type") != "continuation" {
								setViol("writer-seg-continuation", fmt.Sprintf("tok=%d: the continuation has type %s", a.w.tok, m.get("WARC-Type")))
							}
							if !(vv.idx == v.idx && m.off == at.off+at.length) && !(vv.idx > v.idx) {
								setViol("writer-seg-order", fmt.Sprintf("tok=%d first segment at %d:%d, continuation at %d:%d", a.w.tok, v.idx, at.off, vv.idx, m.off))
							}
						}
					}
				}
				if found != 1 {
					setViol("writer-seg-continuation", fmt.Sprintf("tok=%d: %d continuation records in the files", a.w.tok, found))
				}
			}
			if wantWritten != a.resp.BytesWritten {
				setViol("writer-bytes-written", fmt.Sprintf("tok=%d BytesWritten=%d serialized=%d", a.w.tok, a.resp.BytesWritten, wantWritten))
			}
			// the record's bytes: block as built
			// a fresh gowarc reader at the reported offset returns exactly that record
			if d := freshReadId(filepath.Join(dir, v.name), a.resp.FileOffset); d != tokId(a.w.tok) {
				setViol("writer-fresh-reader", fmt.Sprintf("tok=%d file=%d offset=%d: fresh reader returned %s", a.w.tok, v.idx, a.resp.FileOffset, d))
			}
		}
		for _, v := range views {
			// sequential reader: same offsets as the scanner, EOF at the file length
			offs, eofOff, err := seqRead(filepath.Join(dir, v.name))
			var want []string
			for _, m := range v.members {
				want = append(want, strconv.FormatInt(m.off, 10))
			}
			if strings.Join(offs, ",") != strings.Join(want, ",") {
				setViol("reader-offsets", fmt.Sprintf("file=%d reader=%s scanner=%s", v.idx, strings.Join(offs, ","), strings.Join(want, ",")))
			}
			if err != io.EOF || eofOff != int64(len(v.data)) {
				setViol("reader-eof", fmt.Sprintf("file=%d err=%v offset=%d length=%d", v.idx, err, eofOff, len(v.data)))
			}
			// C13: warcinfo linkage
			nInfo := 0
			for i, m := range v.members {
				if m.get("WARC-Type") == "warcinfo" {
					nInfo++
					if i != 0 {
						setViol("writer-warcinfo-position", fmt.Sprintf("file=%d member=%d", v.idx, i))
					}
					if m.get("WARC-Filename") != v.name {
						setViol("writer-warcinfo-filename", fmt.Sprintf("file=%s names %s", v.name, m.get("WARC-Filename")))
					}
				} else if info {
					if m.get("WARC-Warcinfo-ID") != infoIdOf[v.idx] || infoIdOf[v.idx] == "" {
						setViol("writer-warcinfo-id", fmt.Sprintf("file=%d tok=%d carries %s, file's warcinfo is %s", v.idx, tokOfId(m.get("WARC-Record-ID")), m.get("WARC-Warcinfo-ID"), infoIdOf[v.idx]))
					}
				} else if m.has("WARC-Warcinfo-ID") && m.get("WARC-Warcinfo-ID") != foreignInfoId {
					setViol("writer-warcinfo-id", fmt.Sprintf("file=%d tok=%d stamped without generator", v.idx, tokOfId(m.get("WARC-Record-ID"))))
				}
			}
			if info && nInfo != 1 || !info && nInfo != 0 {
				setViol("writer-warcinfo-count", fmt.Sprintf("file=%d warcinfo records=%d generator=%v", v.idx, nInfo, info))
			}
			// C13: fit rule
			if max > 0 {
				nonInfo := 0
				for _, m := range v.members {
					if m.get("WARC-Type") == "warcinfo" {
						continue
					}
					if nonInfo > 0 {
						cl, _ := strconv.ParseInt(m.get("Content-Length"), 10, 64)
						sz := cl
						if comp {
							sz = int64(float64(cl) * (float64(rnum) / float64(rden)))
						}
						if m.off+sz > max {
							setViol("writer-fit", fmt.Sprintf("file=%d tok=%d appended at %d with declared(scaled) %d over limit %d", v.idx, tokOfId(m.get("WARC-Record-ID")), m.off, sz, max))
						}
					}
					nonInfo++
				}
			}
		}
		// C13: fit rule, the other direction. Inside ONE Write call nothing but the fit test opens a fresh file: when the
		// next record of the call went to another file, the file it left plus the record's declared (ratio-scaled) length
		// must have been over the limit
		if max > 0 && cfg["conc"] != "t" {
			for i := 0; i+1 < len(all); i++ {
				a, b := all[i], all[i+1]
				if a.batch == 0 || a.batch != b.batch || a.resp.Err != nil || b.resp.Err != nil || a.resp.FileName == b.resp.FileName {
					continue
				}
				va := viewOf(fileIdx(a.resp.FileName))
				if va == nil || len(va.members) == 0 {
					continue
				}
				last := va.members[len(va.members)-1]
				if last.off != a.resp.FileOffset {
					continue // judged by writer-offset
				}
				cl, perr := strconv.ParseInt(b.w.rec.WarcHeader().Get("Content-Length"), 10, 64)
				if perr != nil {
					continue
				}
				sz := cl
				if comp {
					sz = int64(float64(cl) * (float64(rnum) / float64(rden)))
				}
				if end := last.off + last.length; end+sz <= max {
					setViol("writer-early-rotation", fmt.Sprintf("tok=%d started a fresh file although file %d held %d bytes and its declared(scaled) length %d fits the limit %d", b.w.tok, va.idx, end, sz, max))
				}
			}
		}
		// batches: contiguous and in order in one file when they fit -- order at least
		// callbacks: final name, true size, warcinfo id
		if len(cbs) != len(views) {
			setViol("writer-callback-count", fmt.Sprintf("%d callbacks for %d files", len(cbs), len(views)))
		}
		for _, c := range cbs {
			v := viewOf(fileIdx(c.name))
			if v == nil || filepath.Base(c.name) != v.name {
				setViol("writer-callback-name", c.name)
				continue
			}
			if c.size != int64(len(v.data)) {
				setViol("writer-callback-size", fmt.Sprintf("file=%d callback size %d, file length %d", v.idx, c.size, len(v.data)))
			}
			if c.info != strings.Trim(infoIdOf[v.idx], "<>") && info {
				setViol("writer-callback-info", fmt.Sprintf("file=%d callback id %s, file's warcinfo %s", v.idx, c.info, infoIdOf[v.idx]))
			}
		}
		if len(before) != len(ng.names) {
			setViol("writer-before-hook", fmt.Sprintf("%d before-hooks for %d names", len(before), len(ng.names)))
		}
	}
	oracle := "ok"
	if viol != "" {
		oracle = viol
	}
	if len(args) > 2 {
		// replayed case line: the measured sizes are already in it
		return impl, oracle
	}
	return impl + " @@ " + strings.Join(modelOps, ";"), oracle
}

// freshReadId opens gowarc's reader at the offset and returns the id of the first record (or a description).
func freshReadId(path string, off int64) string {
	rd, err := gowarc.NewWarcFileReader(path, off, gowarc.WithStrictValidation())
	if err != nil {
		return "open-error:" + err.Error()
	}
	defer rd.Close()
	rec, o, val, err := rd.Next()
	if err != nil {
		return "error:" + err.Error()
	}
	defer rec.Close()
	if o != off {
		return fmt.Sprintf("offset-%d", o)
	}
	if val != nil && !val.Valid() {
		return "findings:" + val.String()
	}
	return rec.WarcHeader().Get("WARC-Record-ID")
}

// seqRead reads a file sequentially from a chunking stream and returns the record offsets and the final (offset, err).
func seqRead(path string) ([]string, int64, error) {
	data, err := os.ReadFile(path)
	if err != nil {
		return nil, 0, err
	}
	var firstOffs []string
	var firstEof int64
	var firstErr error
	for style := 0; style < 3; style++ {
		var src io.Reader
		switch style {
		case 0:
			src = bytes.NewReader(data)
		case 1:
			src = &dataEOFReader{data: data, chunk: 37}
		default:
			src = bufio.NewReaderSize(&dataEOFReader{data: data, chunk: 1 << 16}, 16)
		}
		rd, err := gowarc.NewWarcFileReaderFromStream(src, 0)
		if err != nil {
			return nil, 0, err
		}
		var offs []string
		var eofOff int64
		var endErr error
		for i := 0; i < 100000; i++ {
			rec, o, _, err := rd.Next()
			if err != nil {
				eofOff, endErr = o, err
				break
			}
			offs = append(offs, strconv.FormatInt(o, 10))
			// drain so that the next record starts after this one
			if rec != nil {
				_ = rec.Close()
			}
		}
		_ = rd.Close()
		if style == 0 {
			firstOffs, firstEof, firstErr = offs, eofOff, endErr
		} else if strings.Join(offs, ",") != strings.Join(firstOffs, ",") || eofOff != firstEof || endErr != firstErr {
			// report the deviating style
			return offs, eofOff, fmt.Errorf("style %d differs from plain: offsets %v eof %d err %v", style, offs, eofOff, endErr)
		}
	}
	return firstOffs, firstEof, firstErr
}

// dataEOFReader delivers the last chunk together with io.EOF (legal io.Reader behaviour).
type dataEOFReader struct {
	data  []byte
	pos   int
	chunk int
}

func (d *dataEOFReader) Read(p []byte) (int, error) {
	if d.pos >= len(d.data) {
		return 0, io.EOF
	}
	n := d.chunk
	if n > len(p) {
		n = len(p)
	}
	if n > len(d.data)-d.pos {
		n = len(d.data) - d.pos
	}
	copy(p, d.data[d.pos:d.pos+n])
	d.pos += n
	if d.pos >= len(d.data) {
		return n, io.EOF
	}
	return n, nil
}

func genWriter(r *rng, n int, tier string, emit func(string, ...string)) {
	tok := 0
	for i := 0; i < n; i++ {
		comp := r.chance(1, 2)
		info := r.chance(1, 2)
		var max int
		switch r.intn(6) {
		case 0:
			max = 0
		case 1:
			max = r.rangeInt(1, 300)
		default:
			max = r.rangeInt(400, 2500)
		}
		ratios := [][2]int{{1, 2}, {1, 1}, {1, 4}, {2, 1}, {3, 4}}
		rt := pick(r, ratios)
		infosz := 0
		if info && r.chance(1, 3) {
			infosz = pick(r, []int{200, 1500, 6000, 20000})
		}
		cfg := fmt.Sprintf("max=%d;comp=%s;info=%s;rnum=%d;rden=%d;flush=%s;conc=%s;infosz=%d", max, tf(comp), tf(info), rt[0], rt[1], tf(r.chance(1, 4)), tf(r.chance(1, 5)), infosz)
		if r.chance(1, 8) {
			// a name generator whose names already end like a compressed file, in either letter case, or contain the text of the
			// in-progress suffix (a host name like crawler1.openstack.internal, a prefix like www.opendata.example)
			cfg += ";next=" + pick(r, []string{".warc.gz", ".WARC.GZ", ".gz", ".Gz", ".warc.gzip", ".opendata.warc", ".open.warc", ".openstack.internal.warc"})
		}
		stat("writer-infosz", strconv.Itoa(infosz))
		stat("writer-cfg", fmt.Sprintf("comp=%s,info=%s,max=%s", tf(comp), tf(info), map[bool]string{true: "0", false: "pos"}[max == 0]))
		nops := r.rangeInt(1, 12)
		var ops []string
		lying := r.chance(1, 6)
		for k := 0; k < nops; k++ {
			if r.chance(1, 6) {
				ops = append(ops, "R")
				stat("writer-op", "rotate")
				continue
			}
			if !lying && r.chance(1, 12) {
				// a record that fails to marshal (its block reader fails): before the first byte, inside the header, inside the block
				tok++
				ops = append(ops, fmt.Sprintf("F:%d,%s,%d,%d", tok%90000000, pick(r, []string{"r", "h", "m"}), r.rangeInt(0, 600), pick(r, []int{-1, 0, 9, 150, 100000})))
				stat("writer-op", "failed-record")
				continue
			}
			if !lying && r.chance(1, 9) {
				// a record the marshaler splits into a first segment and a continuation record; sizes around the limit so that
				// the continuation's own fit test decides between the same file and a fresh one
				tok++
				var size int
				switch r.intn(3) {
				case 0:
					size = r.rangeInt(max/2, max+400)
				case 1:
					size = r.rangeInt(max, 2*max+100)
				default:
					size = r.rangeInt(2, 900)
				}
				ops = append(ops, fmt.Sprintf("S:%d,r,%d,%d", tok%30000000, size, r.rangeInt(0, size)))
				stat("writer-op", "segmented-record")
				continue
			}
			bs := 1
			if r.chance(1, 3) {
				bs = r.rangeInt(2, 4)
			}
			var recs []string
			for b := 0; b < bs; b++ {
				tok++
				var size int
				switch r.intn(5) {
				case 0:
					size = r.intn(20)
				case 1:
					size = r.rangeInt(max/2, max+50)
				default:
					size = r.rangeInt(0, 900)
				}
				decl := "t"
				if r.chance(1, 8) {
					decl = "w"
				}
				if lying && r.chance(1, 3) {
					decl = pick(r, []string{"e", "b", "z", "g"})
				}
				stat("writer-decl", decl)
				recs = append(recs, fmt.Sprintf("%d,%s,%d,%s", tok%90000000, pick(r, []string{"r", "r", "h", "q", "m"}), size, decl))
			}
			stat("writer-op", fmt.Sprintf("batch%d", bs))
			ops = append(ops, "B:"+strings.Join(recs, "|"))
		}
		emit("writer", cfg, strings.Join(ops, ";"))
	}
}

func init() {
	kinds["writer"] = kWriter
	gens["C04"] = func(r *rng, n int, tier string, emit func(string, ...string)) {
		// three quarters writer scenarios, one quarter arbitrary streams (junk and rejected records between records)
		genWriter(r, n-n/4, tier, emit)
		genStream(r, n/4, tier, emit)
	}
	gens["C13"] = func(r *rng, n int, tier string, emit func(string, ...string)) {
		genWriter(r, n-n/6, tier, emit)
		genNames(r, n/6, tier, emit)
	}
}
