package main

import (
	"bytes"
	"compress/gzip"
	"fmt"
	"io"
	"strconv"
	"strings"

	gowarc "github.com/nlnwa/gowarc/v2"
)

// ---- C06: every prefix of a well-formed file

func cksum(b []byte) int {
	a := 7
	for _, x := range b {
		a = (a*31 + int(x)) % 1000003
	}
	return a
}

func hdrSum(p [][2]string) int {
	var sb bytes.Buffer
	for _, nv := range p {
		sb.WriteString(nv[0])
		sb.WriteByte(':')
		sb.WriteString(nv[1])
		sb.WriteByte('\n')
	}
	return cksum(sb.Bytes())
}

type nextItem struct {
	off   int64
	err   string // "" = record returned
	fnd   []string
	sum   string
	clean bool
	late  string // what the Validation handed out with this item says once the whole stream has been read, if that differs
}

func (n nextItem) String() string {
	if n.err != "" {
		return fmt.Sprintf("e%d,%s,%s", n.off, n.err, showList(n.fnd))
	}
	return fmt.Sprintf("o%d,%s,%s", n.off, n.sum, showList(n.fnd))
}

// readAllItems drives WarcFileReader.Next until it returns an error.
// chunkSrc delivers at most `n` bytes per Read and cannot seek: what a pipe or a socket does. The reader's buffer is then
// refilled many times inside one record (and inside junk between records).
type chunkSrc struct {
	data []byte
	pos  int
	n    int
}

func (c *chunkSrc) Read(p []byte) (int, error) {
	if c.pos >= len(c.data) {
		return 0, io.EOF
	}
	k := c.n
	if k > len(p) {
		k = len(p)
	}
	if k > len(c.data)-c.pos {
		k = len(c.data) - c.pos
	}
	copy(p, c.data[c.pos:c.pos+k])
	c.pos += k
	return k, nil
}

// srcFor picks the source behaviour from the input itself (so that a case replays exactly): whole-buffer reads for inputs
// of even length, 64-byte (or 7-byte) reads for inputs of odd length
func srcFor(data []byte) io.Reader {
	switch len(data) % 4 {
	case 1:
		return &chunkSrc{data: data, n: 64}
	case 3:
		return &chunkSrc{data: data, n: 7}
	}
	return bytes.NewReader(data)
}

func readAllItems(o ropts, data []byte) []nextItem {
	rd, err := gowarc.NewWarcFileReaderFromStream(srcFor(data), 0, o.options()...)
	if err != nil {
		return []nextItem{{err: "open"}}
	}
	defer rd.Close()
	var items []nextItem
	// the Validation objects handed out, looked at AGAIN when reading is over: what a caller collected for a record must not
	// change because the reader went on (a client that reads to the end and then inspects what it got)
	var vals []*gowarc.Validation
	finish := func() []nextItem {
		for i := range items {
			if i < len(vals) {
				if now := showList(classifyAll(vals[i])); now != showList(items[i].fnd) {
					items[i].late = now
				}
			}
		}
		return items
	}
	// every second stream is read the way a pairing consumer does it: a record is looked at only AFTER the following Next has
	// returned (a response kept until its revisit has been seen); a record belongs to whoever received it, whatever the
	// reader does next
	late := len(data)%2 == 1
	var heldRec gowarc.WarcRecord
	heldIdx := -1
	settle := func() {
		if heldRec != nil {
			_, block := readAllBlock(heldRec)
			bl := unhxOrEmpty(block)
			items[heldIdx].sum = fmt.Sprintf("%d,%d,%d,%d", heldRec.Type(), hdrSum(gowarc.VerifPairs(heldRec.WarcHeader())), len(bl), cksum(bl))
			_ = heldRec.Close()
			heldRec, heldIdx = nil, -1
		}
	}
	for i := 0; i < 200; i++ {
		rec, off, val, err := rd.Next()
		settle()
		fnd := classifyAll(val)
		vals = append(vals, val)
		if err != nil {
			items = append(items, nextItem{off: off, err: gowarc.VerifClassify(err), fnd: fnd})
			if rec != nil {
				_ = rec.Close()
			}
			return finish()
		}
		if rec == nil {
			items = append(items, nextItem{off: off, err: "nil-record"})
			return finish()
		}
		if late {
			items = append(items, nextItem{off: off, fnd: fnd, clean: len(fnd) == 0})
			heldRec, heldIdx = rec, len(items)-1
			continue
		}
		_, block := readAllBlock(rec)
		bl := unhxOrEmpty(block)
		items = append(items, nextItem{off: off, fnd: fnd, clean: len(fnd) == 0,
			sum: fmt.Sprintf("%d,%d,%d,%d", rec.Type(), hdrSum(gowarc.VerifPairs(rec.WarcHeader())), len(bl), cksum(bl))})
		_ = rec.Close()
	}
	settle()
	items = append(items, nextItem{err: "endless"})
	return finish()
}

// lateChange reports the first item whose findings changed after it had been handed out
func lateChange(items []nextItem) string {
	for i, it := range items {
		if it.late != "" {
			return fmt.Sprintf("item=%d handed out with findings [%s], later reads [%s]", i, showList(it.fnd), it.late)
		}
	}
	return ""
}

func joinItems(items []nextItem) string {
	l := make([]string, len(items))
	for i, it := range items {
		l[i] = it.String()
	}
	return strings.Join(l, ";")
}

// cuts <opts> <file> <from> <to> <oracles> <bounds> <gz>
func kCuts(args []string) (string, string) {
	o := parseRopts(args[0])
	data := unhx(args[1])
	from, _ := strconv.Atoi(args[2])
	to, _ := strconv.Atoi(args[3])
	var bounds []int
	for _, b := range strings.Split(args[5], ",") {
		n, _ := strconv.Atoi(b)
		bounds = append(bounds, n)
	}
	full := readAllItems(o, data)
	viol := ""
	setViol := func(sig, detail string) {
		if viol == "" {
			viol = "VIOL " + sig + " " + sanitize(detail)
		}
	}
	if d := lateChange(full); d != "" {
		setViol("c06-findings-not-stable", "uncut file: "+d)
	}
	// the uncut file: n clean records at the boundaries, EOF at the end (the generator filters on this; a failure here is C01's business)
	nrec := len(bounds) - 1
	wellFormed := len(full) == nrec+1 && full[nrec].err == "eof"
	for i := 0; wellFormed && i < nrec; i++ {
		if !full[i].clean || full[i].err != "" || full[i].off != int64(bounds[i]) {
			wellFormed = false
		}
	}
	var outs []string
	for k := from; k <= to && k <= len(data); k++ {
		items := readAllItems(o, data[:k])
		if d := lateChange(items); d != "" {
			setViol("c06-findings-not-stable", fmt.Sprintf("cut=%d: %s", k, d))
		}
		outs = append(outs, joinItems(items))
		if !wellFormed {
			continue
		}
		j := 0
		for j+1 < len(bounds) && bounds[j+1] <= k {
			j++
		}
		// survive: the j complete records come back unaltered, clean, at their offsets
		for i := 0; i < j; i++ {
			if i >= len(items) || items[i].err != "" || !items[i].clean || items[i].off != full[i].off || items[i].sum != full[i].sum {
				got := "missing"
				if i < len(items) {
					got = items[i].String()
				}
				setViol("c06-survive", fmt.Sprintf("cut=%d record=%d expected=%s got=%s", k, i, full[i].String(), got))
			}
		}
		// nothing after them is returned as a clean record
		for i := j; i < len(items); i++ {
			if items[i].err == "" && items[i].clean {
				setViol("c06-nothing-after", fmt.Sprintf("cut=%d item=%d %s", k, i, items[i].String()))
			}
		}
		// the cut is visible
		if k != bounds[j] {
			visible := false
			for i := j; i < len(items); i++ {
				if items[i].err != "" && items[i].err != "eof" {
					visible = true
				}
				if len(items[i].fnd) > 0 {
					visible = true
				}
				if items[i].err == "eof" && items[i].off < int64(k) {
					visible = true
				}
			}
			if !visible {
				setViol("c06-visible", fmt.Sprintf("cut=%d inside record %d: %s", k, j, joinItems(items)))
			}
		} else {
			// a cut at a record boundary is a well-formed shorter file
			last := items[len(items)-1]
			if len(items) != j+1 || last.err != "eof" || last.off != int64(k) {
				setViol("c06-boundary", fmt.Sprintf("cut=%d at boundary: %s", k, joinItems(items)))
			}
		}
	}
	oracle := "ok"
	if viol != "" {
		oracle = viol
	}
	if !wellFormed {
		// not an input of this property (the file itself does not read as clean records): correspondence only
		return "wf=f " + strings.Join(outs, "|"), "ok"
	}
	return "wf=t " + strings.Join(outs, "|"), oracle
}

func gzMember(b []byte) []byte {
	var buf bytes.Buffer
	zw := gzip.NewWriter(&buf)
	_, _ = zw.Write(b)
	_ = zw.Close()
	return buf.Bytes()
}

// oraclesForCuts: verdicts of the external validators for everything the model may ask about on any prefix in [from, to].
func oraclesForCuts(data []byte, bounds []int, gz bool, from, to int, syn int) string {
	t := &oracleTab{}
	// complete members / records
	for i := 0; i+1 < len(bounds); i++ {
		seg := data[bounds[i]:bounds[i+1]]
		if gz {
			st, content, consumed := gunzipAt(seg)
			t.out = append(t.out, fmt.Sprintf("z:%d:%s:%d:%s", bounds[i], st, consumed, hx(content)))
			t.scanPlain(content, syn)
		} else {
			t.scanPlain(seg, syn)
		}
	}
	ks := []int{}
	for k := from; k <= to && k <= len(data); k++ {
		ks = append(ks, k)
	}
	if to < len(data) {
		ks = append(ks, len(data)) // the uncut file is always read (is it an input of the property at all?)
	}
	for _, k := range ks {
		j := 0
		for j+1 < len(bounds) && bounds[j+1] <= k {
			j++
		}
		if gz {
			for i := 0; i < j; i++ {
				st, content, consumed := gunzipAt(data[bounds[i]:bounds[i+1]])
				t.out = append(t.out, fmt.Sprintf("zc:%d:%d:%s:%d:%d", k, bounds[i], st, consumed, len(content)))
			}
		}
		if k == bounds[j] {
			continue
		}
		part := data[bounds[j]:k]
		if gz {
			if len(part) >= 2 {
				st, content, consumed := gunzipAt(part)
				t.out = append(t.out, fmt.Sprintf("zc:%d:%d:%s:%d:%d", k, bounds[j], st, consumed, len(content)))
				t.scanPlain(content, syn)
			}
		} else {
			t.scanPlain(part, syn)
		}
	}
	return t.String()
}

func genCuts(r *rng, n int, tier string, emit func(string, ...string)) {
	// n = number of files; every cut of every file is read
	for i := 0; i < n; i++ {
		nrec := r.rangeInt(2, 4)
		gz := r.chance(1, 2)
		var file []byte
		bounds := []int{0}
		for k := 0; k < nrec; k++ {
			var g *grec
			for tries := 0; tries < 50; tries++ {
				g = genRecord(r)
				if !g.badHead && len(g.block) < 400 && g.rtNum != 0 && g.hdr[0][1] == g.rtype {
					break
				}
			}
			g.declare(r, false)
			ser := g.serialize()
			if gz {
				ser = gzMember(ser)
			}
			file = append(file, ser...)
			bounds = append(bounds, len(file))
			stat("cuts-rtype", g.rtype)
		}
		o := defaultRopts()
		pol := 1 + r.intn(2)
		o.syn, o.spec, o.unk, o.blk = pol, pol, pol, pol
		if r.chance(1, 2) {
			o.maxMem = pick(r, []int{1, 7, 64, 300})
		}
		stat("cuts-cfg", fmt.Sprintf("gz=%s,pol=%d", tf(gz), pol))
		var bs []string
		for _, b := range bounds {
			bs = append(bs, strconv.Itoa(b))
		}
		const chunk = 150
		for from := 0; from <= len(file); from += chunk {
			to := from + chunk - 1
			if to > len(file) {
				to = len(file)
			}
			emit("cuts", o.String(), hx(file), strconv.Itoa(from), strconv.Itoa(to), oraclesForCuts(file, bounds, gz, from, to, o.syn), strings.Join(bs, ","), tf(gz))
		}
	}
}

var _ = io.EOF

func init() {
	kinds["cuts"] = kCuts
	gens["C06"] = genCuts
}
