package main

import (
	"io"
	"bytes"
	"fmt"
	"mime"
	"strconv"
	"strings"

	gowarc "github.com/nlnwa/gowarc/v2"
)

func showPairs(p [][2]string) string {
	if len(p) == 0 {
		return "-"
	}
	var l []string
	for _, nv := range p {
		l = append(l, hxs(nv[0])+":"+hxs(nv[1]))
	}
	return strings.Join(l, ",")
}

func showList(l []string) string {
	if len(l) == 0 {
		return "-"
	}
	return strings.Join(l, ",")
}

func kDecHdr(args []string) (string, string) {
	d := mime.WordDecoder{}
	s, err := d.DecodeHeader(unhxs(args[0]))
	if err != nil {
		return "err", "ok"
	}
	return "ok " + hxs(s), "ok"
}

func serializePairs(p [][2]string) []byte {
	var sb bytes.Buffer
	for _, nv := range p {
		sb.WriteString(nv[0] + ": " + nv[1] + "\r\n")
	}
	return sb.Bytes()
}

// hdrparse <syn> <fault> <data>
// oracle C19: whatever the parser accepts must be a fixpoint: parse(write(parse x)) = parse x, with no findings,
// under every syntax policy.
func kHdrParse(args []string) (string, string) {
	syn, _ := strconv.Atoi(args[0])
	fault := args[1] == "t"
	data := unhx(args[2])
	pairs, findings, rest, errTag := gowarc.VerifParseFields(syn, &gowarc.VerifStream{Data: data, Fault: fault})
	// chunking independence of the implementation itself
	for style := 1; style <= 3; style++ {
		if fault && style == 3 {
			continue // see kUnmarshal: an error delivered together with data may surface earlier than a separate one
		}
		p2, f2, r2, e2 := gowarc.VerifParseFields(syn, &gowarc.VerifStream{Data: data, Fault: fault, Style: style})
		if showPairs(p2) != showPairs(pairs) || showList(f2) != showList(findings) || r2 != rest || e2 != errTag {
			return "chunking-dependent", fmt.Sprintf("VIOL chunking style=%d", style)
		}
	}
	if errTag != "" {
		return fmt.Sprintf("err %s %s", errTag, showList(findings)), "ok"
	}
	impl := fmt.Sprintf("ok %s %s %d", showPairs(pairs), showList(findings), rest)
	oracle := "ok"
	ser := serializePairs(pairs)
	for pol := 0; pol <= 2; pol++ {
		p2, f2, _, e2 := gowarc.VerifParseFields(pol, &gowarc.VerifStream{Data: ser})
		if e2 != "" || len(f2) != 0 || showPairs(p2) != showPairs(pairs) {
			sig := "other"
			// a value that comes out of the parser with white space at its edges is never a fixpoint, whatever produced it
			edge := false
			for _, nv := range pairs {
				if strings.Trim(nv[1], " \t\r\n") != nv[1] {
					edge = true
				}
			}
			if edge {
				sig = "parsed-edge-whitespace"
			} else if bytes.Contains(data, []byte("=?")) {
				sig = "encoded-word"
			}
			oracle = fmt.Sprintf("VIOL fixpoint-%s pol=%d err=%s findings=%s fields=%d->%d", sig, pol, e2, showList(f2), len(pairs), len(p2))
			break
		}
	}
	return impl, oracle
}

// apiparse <fields>: field sets built through the API from CR/LF-free values survive serialize-then-parse unchanged
func kApiRoundtrip(args []string) (string, string) {
	wf := &gowarc.WarcFields{}
	var want [][2]string
	if args[0] != "-" {
		for _, kv := range strings.Split(args[0], ",") {
			f := strings.Split(kv, ":")
			wf.Add(unhxs(f[0]), unhxs(f[1]))
		}
	}
	var sb bytes.Buffer
	_, _ = wf.Write(&sb)
	if d := writeFaultCheck(sb.Bytes(), func(w io.Writer) (int64, error) { return wf.Write(w) }); d != "" {
		return "write-fault-swallowed", "VIOL api-roundtrip-write-fault " + sanitize(d)
	}
	// what the API holds
	for _, line := range strings.Split(strings.TrimSuffix(wf.String(), "\r\n"), "\r\n") {
		if line == "" {
			continue
		}
		i := strings.Index(line, ": ")
		want = append(want, [2]string{line[:i], line[i+2:]})
	}
	oracle := "ok"
	var outs []string
	for pol := 0; pol <= 2; pol++ {
		p2, f2, _, e2 := gowarc.VerifParseFields(pol, &gowarc.VerifStream{Data: sb.Bytes()})
		outs = append(outs, fmt.Sprintf("%s/%s/%s", showPairs(p2), showList(f2), e2))
		if e2 != "" || len(f2) != 0 || showPairs(p2) != showPairs(want) {
			if oracle == "ok" {
				sig := "other"
				for _, nv := range want {
					if strings.Contains(nv[1], "=?") || strings.Contains(nv[0], "=?") {
						sig = "encoded-word"
					}
				}
				if sig == "other" {
					for _, nv := range want {
						if strings.Trim(nv[1], " \t") != nv[1] {
							sig = "edge-whitespace"
						}
					}
				}
				oracle = fmt.Sprintf("VIOL api-roundtrip-%s pol=%d err=%s findings=%s", sig, pol, e2, showList(f2))
			}
		}
	}
	return strings.Join(outs, ";"), oracle
}

var hdrLinePool = []string{
	"WARC-Type: response", "warc-date: 2020-01-01T00:00:00Z", "Content-Length: 12", "X-Foo: bar", "X-Foo:bar", "X-Foo :  bar  ",
	"WARC-Record-ID: <urn:uuid:e9a0ee48-0221-11e7-adb1-0242ac120008>", "a:b:c", "nocolon", "", " ", "\t", ": empty name", "X-Empty:",
	"X-Enc: =?utf-8?q?a=20b?=", "X-Enc: =?utf-8?b?YWJj?=", "X-Enc: =?iso-8859-1?q?=E6=F8=E5?=", "X-Enc: =?us-ascii?q?=FF?=", "X-Enc: =?x-unknown?q?abc?=",
	"X-Enc: =?utf-8?q?hello=0D=0A?=", "X-Enc: =?utf-8?q?hello_?=", "X-Enc: =?utf-8?b?aGVsbG8NCg==?=", "X-Enc: =?utf-8?q?=20lead?=", "X-Enc: =?utf-8?q?tab=09?=", "X-Enc: =?utf-8?q?=0A?=",
	"X-Enc: =?utf-8?q?a=0D=0AWARC-Evil:_x?=", "=?utf-8?q?X-Hidden=3A?= v", "X-Enc: =?utf-8?q?=3D=3Futf-8=3Fq=3Fa=3F=3D?=", "X-Enc: =?utf-8?q?a?= =?utf-8?q?b?=",
	"X-Enc: =?utf-8?q?a?= x =?utf-8?q?b?=", "X-Enc: =?utf-8?q?bad=zz?=", "X-Enc: =?utf-8?b?!!!?=", "X-Enc: =?utf-8?x?abc?=", "X-Enc: =?utf-8?q?", "X-Enc: =?", "X-Enc: =?a?b",
	"X-Enc: =?u\xc5\xbf-ascii?q?a?=", "X-Bin: \xff\xfe\x00", "WARC-Bloc\xe2\x84\xaa-Digest: sha1:AAAA", "X-Long: " + strings.Repeat("y", 40),
}

func genHeaderSection(r *rng) []byte {
	var sb bytes.Buffer
	n := r.rangeInt(0, 5)
	for i := 0; i < n; i++ {
		line := pick(r, hdrLinePool)
		if r.chance(1, 6) {
			line = string(mutate(r, []byte(line)))
		}
		sb.WriteString(line)
		sb.WriteString(genEol(r))
		// continuation lines
		for r.chance(1, 6) {
			sb.WriteString(pick(r, []string{" ", "\t", "  "}))
			sb.WriteString(pick(r, []string{"cont", "", " ", "x: y", "=?utf-8?q?c?="}))
			sb.WriteString(genEol(r))
		}
	}
	switch r.intn(8) {
	case 0: // no terminator at all (EOF)
	case 1:
		sb.WriteString("\n")
	case 2:
		sb.WriteString("\r\nrest")
	case 3:
		sb.WriteString("\r")
	case 4:
		sb.WriteString("\n\nrest")
	default:
		sb.WriteString("\r\n")
		if r.chance(1, 2) {
			sb.WriteString(pick(r, []string{"block", "\r\n", " x", "WARC/1.1\r\n"}))
		}
	}
	b := sb.Bytes()
	if r.chance(1, 8) {
		b = mutate(r, b)
	}
	if r.chance(1, 10) && len(b) > 0 {
		b = b[:r.intn(len(b))]
	}
	return b
}

func genEol(r *rng) string {
	switch r.intn(12) {
	case 0:
		return "\n"
	case 1:
		return "\r"
	case 2:
		return ""
	case 3:
		return " \r\n"
	default:
		return "\r\n"
	}
}

func mutate(r *rng, b []byte) []byte {
	b = append([]byte{}, b...)
	if len(b) == 0 {
		return []byte{byte(r.next())}
	}
	switch r.intn(6) {
	case 0:
		b[r.intn(len(b))] = byte(r.next())
	case 1:
		i := r.intn(len(b))
		b = append(b[:i], b[i+1:]...)
	case 2:
		i := r.intn(len(b) + 1)
		b = append(b[:i], append([]byte{"\r\n :=?\t\x00"[r.intn(8)]}, b[i:]...)...)
	case 3:
		i := r.intn(len(b))
		b[i] = "\r\n :=?\t"[r.intn(7)]
	case 4:
		i, j := r.intn(len(b)), r.intn(len(b))
		if i > j {
			i, j = j, i
		}
		b = append(b[:j], append(append([]byte{}, b[i:j]...), b[j:]...)...)
	case 5:
		b = bytes.ReplaceAll(b, []byte("\r\n"), []byte("\n"))
	}
	return b
}

var cleanNamePool = []string{"WARC-Type", "Content-Type", "X-Foo", "x-bar", "warc-date", "A", "X_1.a", "WARC-JSON-Metadata", "content-length"}
var cleanValuePool = []string{"", "v", "a b", "a: b", "a:b", "x=y", "=", "?", "= ?", "<urn:uuid:1>", "\x00bin\xff", "tab\tinside", "2020-01-01T00:00:00Z", "v ", " v", "\tv", "v\t", " ", "a =? b"}

func genC19(r *rng, n int, tier string, emit func(string, ...string)) {
	genWfault(r, n/10+20, emit)
	genUnmPair(r, n/12+10, emit) // one parser object for two header sections: nothing of the first may show in the second
	// logical header lines around the sizes at which a reader might give up (4 KiB, 64 KiB read buffers): one physical line
	// of exactly that length, or a folded field whose unfolded value exceeds it - the serialization puts it on ONE line
	for _, total := range []int{4095, 4096, 4097, 65535, 65536, 65537, 66000} {
		name := "X-Long:"
		line := name + strings.Repeat("v", total-len(name)-2) + "\r\n"
		for syn := 0; syn <= 2; syn++ {
			emit("hdrparse", strconv.Itoa(syn), "f", hx([]byte("WARC-Type: resource\r\n"+line+"\r\n")))
		}
		stat("hdr-class", "long-line")
	}
	{
		var sb strings.Builder
		sb.WriteString("X-Folded: start\r\n")
		for sb.Len() < 66100 {
			sb.WriteString(" " + strings.Repeat("f", 59) + "\r\n")
		}
		sb.WriteString("\r\n")
		for syn := 0; syn <= 2; syn++ {
			emit("hdrparse", strconv.Itoa(syn), "f", hx([]byte(sb.String())))
		}
		stat("hdr-class", "long-folded")
	}
	for i := 0; i < n; i++ {
		b := genHeaderSection(r)
		fault := r.chance(1, 15)
		stat("hdr-len", strconv.Itoa(len(b)/20*20))
		if bytes.Contains(b, []byte("=?")) {
			stat("hdr-class", "encoded-word")
		} else {
			stat("hdr-class", "plain")
		}
		for syn := 0; syn <= 2; syn++ {
			emit("hdrparse", strconv.Itoa(syn), tf(fault), hx(b))
		}
	}
	for i := 0; i < n/2; i++ {
		var s string
		switch r.intn(3) {
		case 0:
			s = pick(r, hdrLinePool)
		case 1:
			s = string(mutate(r, []byte(pick(r, hdrLinePool))))
		default:
			s = pick(r, hdrLinePool) + " " + pick(r, hdrLinePool)
		}
		emit("dechdr", hxs(s))
	}
	for i := 0; i < n/2; i++ {
		k := r.rangeInt(0, 4)
		var l []string
		for j := 0; j < k; j++ {
			l = append(l, hxs(pick(r, cleanNamePool))+":"+hxs(pick(r, cleanValuePool)))
		}
		if len(l) == 0 {
			emit("apiparse", "-")
		} else {
			emit("apiparse", strings.Join(l, ","))
		}
	}
	// values set through the API whose serialized line reaches the sizes of read buffers (4 KiB, 64 KiB)
	for _, vlen := range []int{4096 - 25, 4096 - 24, 65536 - 25, 65536 - 24, 65536 - 23, 65536, 70000} {
		emit("apiparse", hxs("WARC-Target-URI")+":"+hxs("http://example.com/"+strings.Repeat("u", vlen-19)))
		stat("hdr-class", "long-api-value")
	}
}

func init() {
	kinds["dechdr"] = kDecHdr
	kinds["hdrparse"] = kHdrParse
	kinds["apiparse"] = kApiRoundtrip
	gens["C19"] = genC19
}
