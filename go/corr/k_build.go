package main

import (
	"bufio"
	"bytes"
	"fmt"
	"io"
	"regexp"
	"strconv"
	"strings"

	gowarc "github.com/nlnwa/gowarc/v2"
)

func splitPairsArg(a string) [][2]string {
	var p [][2]string
	if a == "-" {
		return p
	}
	for _, kv := range strings.Split(a, ",") {
		f := strings.Split(kv, ":")
		p = append(p, [2]string{unhxs(f[0]), unhxs(f[1])})
	}
	return p
}

// feed the content to the builder in the given manner
func feed(rb gowarc.WarcRecordBuilder, content []byte, how string) error {
	switch {
	case how == "w":
		_, err := rb.Write(content)
		return err
	case how == "ws":
		_, err := rb.WriteString(string(content))
		return err
	case strings.HasPrefix(how, "rf"):
		style := strings.TrimPrefix(how, "rf-")
		_, err := rb.ReadFrom(&chunkReader{data: append([]byte{}, content...), style: style, r: newRng(uint64(len(content)))})
		return err
	case strings.HasPrefix(how, "exact-"):
		// several writes whose running total lands EXACTLY on the spill threshold, then one more byte, then the rest
		m, _ := strconv.Atoi(strings.TrimPrefix(how, "exact-"))
		if m <= 0 || len(content) <= m {
			_, err := rb.Write(content)
			return err
		}
		a := m / 2
		for _, part := range [][]byte{content[:a], content[a:m], content[m : m+1], content[m+1:]} {
			if _, err := rb.Write(part); err != nil {
				return err
			}
		}
		return nil
	case how == "w2": // a short write, then everything else in one large write (the buffer has to grow by more than it holds)
		k := 47
		if len(content) < k {
			k = len(content)
		}
		if _, err := rb.Write(content[:k]); err != nil {
			return err
		}
		_, err := rb.Write(content[k:])
		return err
	case how == "mix2": // ReadFrom, Write, ReadFrom, Write: every order of the two ways of appending, across the spill
		q := len(content) / 4
		parts := [][]byte{content[:q], content[q : 2*q], content[2*q : 3*q], content[3*q:]}
		for i, part := range parts {
			if i%2 == 0 {
				if _, err := rb.ReadFrom(&chunkReader{data: append([]byte{}, part...), style: "whole", r: newRng(uint64(i))}); err != nil {
					return err
				}
			} else if _, err := rb.Write(part); err != nil {
				return err
			}
		}
		return nil
	default: // mix: three parts, three methods
		a, b := len(content)/3, 2*len(content)/3
		if _, err := rb.Write(content[:a]); err != nil {
			return err
		}
		if _, err := rb.ReadFrom(&chunkReader{data: append([]byte{}, content[a:b]...), style: "eofwith", r: newRng(1)}); err != nil {
			return err
		}
		_, err := rb.WriteString(string(content[b:]))
		return err
	}
}

type bresult struct {
	rec    gowarc.WarcRecord
	fnd    []string
	errTag string
	line   string
}

func runBuild(o ropts, ver string, rt0 int, hdr [][2]string, content []byte, how string) bresult {
	rb := gowarc.NewRecordBuilder(gowarc.RecordType(rt0), o.options(gowarc.WithVersion(gowarc.VerifVersion(ver)))...)
	for _, nv := range hdr {
		rb.AddWarcHeader(nv[0], nv[1])
	}
	if how == "exact" {
		how = fmt.Sprintf("exact-%d", o.maxMem)
	}
	if err := feed(rb, content, how); err != nil {
		return bresult{errTag: "feed", line: "err feed"}
	}
	rec, val, err := rb.Build()
	res := bresult{rec: rec, fnd: classifyAll(val)}
	if err != nil {
		res.errTag = gowarc.VerifClassify(err)
		res.line = fmt.Sprintf("err %s fnd=%s", res.errTag, showList(res.fnd))
		if rec != nil {
			_ = rec.Close()
		} else {
			_ = rb.Close()
		}
		res.rec = nil
		return res
	}
	res.line = fmt.Sprintf("ok %s fnd=%s", showRec(rec), showList(res.fnd))
	return res
}

// strictScan: an independent reader of ONE serialized record: version, header pairs, block (by the final CRLFCRLF).
func strictScan(b []byte) (ver string, pairs [][2]string, block []byte, ok bool) {
	i := bytes.Index(b, []byte("\r\n"))
	if i < 0 || !bytes.HasPrefix(b, []byte("WARC/")) {
		return
	}
	ver = string(b[5:i])
	pos := i + 2
	for {
		j := bytes.Index(b[pos:], []byte("\r\n"))
		if j < 0 {
			return
		}
		line := b[pos : pos+j]
		pos += j + 2
		if len(line) == 0 {
			break
		}
		k := bytes.Index(line, []byte(": "))
		if k < 0 {
			return
		}
		pairs = append(pairs, [2]string{string(line[:k]), string(line[k+2:])})
	}
	if !bytes.HasSuffix(b, []byte("\r\n\r\n")) || len(b)-4 < pos {
		return
	}
	return ver, pairs, b[pos : len(b)-4], true
}

func marshalRec(rec gowarc.WarcRecord) ([]byte, error) {
	var sb bytes.Buffer
	_, _, err := gowarc.NewMarshaler().Marshal(&sb, rec, 0)
	return sb.Bytes(), err
}

var idRe = regexp.MustCompile(`^<urn:uuid:[0-9a-f]{8}-[0-9a-f]{4}-[0-9a-f]{4}-[0-9a-f]{4}-[0-9a-f]{12}>$`)

// build <opts> <ver> <rt0> <hdr> <content> <id-unused> <oracles> <feed>
func kBuild(args []string) (string, string) {
	o := parseRopts(args[0])
	rt0, _ := strconv.Atoi(args[2])
	hdr := splitPairsArg(args[3])
	content := unhx(args[4])
	how := "w"
	if len(args) > 7 {
		how = args[7]
	}
	res := runBuild(o, args[1], rt0, hdr, content, how)
	oracle := "ok"
	// C03 on the builder path: length / digests the caller did not declare are the builder's own and can never be "wrong"
	{
		suppliedAny := false
		for _, nv := range hdr {
			if strings.EqualFold(nv[0], "Content-Length") || strings.EqualFold(nv[0], "WARC-Block-Digest") || strings.EqualFold(nv[0], "WARC-Payload-Digest") {
				suppliedAny = true
			}
		}
		if !suppliedAny {
			all := append([]string{res.errTag}, res.fnd...)
			for _, t := range all {
				if t == "length" || t == "digestBlock" || t == "digestPayload" {
					oracle = "VIOL c03-builder-reports-own-values " + t
				}
			}
		}
	}
	// C03 soundness on the builder path: a Content-Length the CALLER declared that is not the decimal length of the content is
	// reported (finding under warn, error under fail) whenever spec checking is on and no repair option may change the block
	if oracle == "ok" && o.spec >= 1 && !o.fixsyn && !o.fixwf && res.errTag == "" {
		for _, nv := range hdr {
			if strings.EqualFold(nv[0], "Content-Length") && strings.TrimSpace(nv[1]) == nv[1] && nv[1] != strconv.Itoa(len(content)) {
				reported := false
				for _, t := range res.fnd {
					if t == "length" {
						reported = true
					}
				}
				if !reported {
					oracle = fmt.Sprintf("VIOL c03-sound builder: declared Content-Length %s for %d bytes of content is not reported", sanitize(nv[1]), len(content))
				}
			}
		}
	}
	if res.rec != nil {
		defer res.rec.Close()
		// C02: truthfulness of what the builder added, judged on the serialized bytes
		ser, err := marshalRec(res.rec)
		if err != nil {
			return res.line, "VIOL c02-marshal " + sanitize(err.Error())
		}
		_, pairs, block, ok := strictScan(ser)
		if !ok {
			// header values with line breaks etc.: serialization is not scannable, outside C02's claim
			return res.line, "ok"
		}
		supplied := func(name string) bool {
			for _, nv := range hdr {
				if strings.EqualFold(nv[0], name) {
					return true
				}
			}
			return false
		}
		get := func(name string) (string, int) {
			v, n := "", 0
			for _, nv := range pairs {
				if nv[0] == name {
					if n == 0 {
						v = nv[1]
					}
					n++
				}
			}
			return v, n
		}
		if o.addcl && !supplied("Content-Length") {
			if v, n := get("Content-Length"); n != 1 || v != strconv.Itoa(len(block)) {
				oracle = fmt.Sprintf("VIOL c02-length header=%s actual=%d", v, len(block))
			}
		}
		if o.adddig && !supplied("WARC-Block-Digest") && !supplied("Content-Length") {
			want := o.alg + ":" + stdEncode(o.enc, sumOf(o.alg, block))
			if v, n := get("WARC-Block-Digest"); n != 1 || v != want {
				oracle = fmt.Sprintf("VIOL c02-block-digest header=%s want=%s", sanitize(v), want)
			}
		}
		kind := gowarc.VerifBlockKind(res.rec.Block())
		// whether the block is an HTTP block is decided HERE, from the record type and the media type of the WARC Content-Type
		// (the part before ';', white space and letter case set aside), not taken from the implementation: a response or
		// request record whose content starts like an HTTP message and has a terminated head must be given a payload digest
		if oracle == "ok" && o.adddig && !o.skip && !supplied("WARC-Payload-Digest") && !supplied("Content-Length") && (rt0 == 2 || rt0 == 8) && kind != "httpReq" && kind != "httpResp" {
			ctv, _ := func() (string, int) {
				for _, nv := range hdr {
					if strings.EqualFold(nv[0], "Content-Type") {
						return nv[1], 1
					}
				}
				return "", 0
			}()
			mt := strings.ToLower(strings.TrimSpace(strings.SplitN(ctv, ";", 2)[0]))
			if head, found := splitHead(block); mt == "application/http" && found && httpOK(rt0 == 2, head) {
				oracle = fmt.Sprintf("VIOL c02-payload-digest a %s record with Content-Type %s and a well-formed HTTP head is not treated as an HTTP block (kind %s): no payload digest of the bytes after the head", map[int]string{2: "response", 8: "request"}[rt0], sanitize(ctv), kind)
			}
		}
		if o.adddig && (kind == "httpReq" || kind == "httpResp") && !supplied("WARC-Payload-Digest") && !supplied("Content-Length") {
			if _, n := get("WARC-Segment-Number"); n == 0 {
				head, _ := splitHead(block)
				want := o.alg + ":" + stdEncode(o.enc, sumOf(o.alg, block[len(head):]))
				if v, n := get("WARC-Payload-Digest"); n != 1 || v != want {
					oracle = fmt.Sprintf("VIOL c02-payload-digest header=%s want=%s", sanitize(v), want)
				}
			}
		}
		if o.addid && !supplied("WARC-Record-ID") {
			if v, n := get("WARC-Record-ID"); n != 1 || !idRe.MatchString(v) {
				oracle = "VIOL c02-record-id " + sanitize(v)
			}
		}
		// feeding manner and spill threshold must not matter
		for _, alt := range []string{"ws", "rf-one", "rf-eofwith", "mix", "mix2", "exact"} {
			o2 := o
			o2.maxMem = []int{1, 7, 0}[len(alt)%3]
			r2 := runBuild(o2, args[1], rt0, hdr, content, alt)
			if r2.rec != nil {
				r2.rec.Close()
			}
			if r2.line != res.line && oracle == "ok" {
				oracle = "VIOL c02-feed-dependence feed=" + alt
			}
		}
	}
	return res.line, oracle
}

func hasEdgeWs(hdr [][2]string) bool {
	for _, nv := range hdr {
		if strings.Trim(nv[1], " \t") != nv[1] {
			return true
		}
	}
	return false
}

func hasEncWord(hdr [][2]string) bool {
	for _, nv := range hdr {
		if strings.Contains(nv[1], "=?") || strings.Contains(nv[0], "=?") {
			return true
		}
	}
	return false
}

// roundtrip <bopts> <popts> <ver> <rt0> <hdr> <content> <tail> <oracles>
func kRoundtrip(args []string) (string, string) {
	bo := parseRopts(args[0])
	po := parseRopts(args[1])
	rt0, _ := strconv.Atoi(args[3])
	hdr := splitPairsArg(args[4])
	content := unhx(args[5])
	tail := unhx(args[6])
	// applicability: the builder accepts headers and content under the strict policy
	strict := bo
	strict.syn, strict.spec, strict.blk, strict.skip = 2, 2, 2, false // "accepts under strict policy": no axis may complain about the content
	sres := runBuild(strict, args[2], rt0, hdr, content, "w")
	applicable := sres.errTag == ""
	if sres.rec != nil {
		sres.rec.Close()
	}
	// how the content is fed to the builder (Write, WriteString, ReadFrom in several manners and mixes): invisible (C14)
	how := "w"
	if len(args) > 9 {
		how = args[9]
	}
	bres := runBuild(bo, args[2], rt0, hdr, content, how)
	if bres.rec == nil {
		return fmt.Sprintf("berr=%s bfnd=%s", bres.errTag, showList(bres.fnd)), "ok"
	}
	defer bres.rec.Close()
	ser, err := marshalRec(bres.rec)
	if err != nil {
		return "marshal-error", "VIOL roundtrip-marshal"
	}
	if d := writeFaultCheck(ser, func(w io.Writer) (int64, error) {
		_, n, err := gowarc.NewMarshaler().Marshal(w, bres.rec, 0)
		return n, err
	}); d != "" {
		return "marshal-fault-swallowed", "VIOL roundtrip-write-fault " + sanitize(d)
	}
	stream := &gowarc.VerifStream{Data: append(append([]byte{}, ser...), tail...)}
	br := bufio.NewReaderSize(stream, 64)
	prec, off, val, perr := gowarc.NewUnmarshaler(po.options()...).Unmarshal(br)
	ufnd := classifyAll(val)
	uerr := "-"
	eq, re := false, false
	rest := br.Buffered() + stream.Remaining()
	if perr != nil {
		uerr = gowarc.VerifClassify(perr)
	}
	if prec != nil {
		defer prec.Close()
	}
	if perr == nil && prec != nil {
		_, bblock := readAllBlock(bres.rec)
		_, pblock := readAllBlock(prec)
		eq = gowarc.VerifVersionTxt(prec.Version()) == gowarc.VerifVersionTxt(bres.rec.Version()) && prec.Type() == bres.rec.Type() &&
			showPairs(gowarc.VerifPairs(prec.WarcHeader())) == showPairs(gowarc.VerifPairs(bres.rec.WarcHeader())) && bblock == pblock
		ser2, err2 := marshalRec(prec)
		re = err2 == nil && bytes.Equal(ser2, ser)
	}
	restS := strconv.Itoa(rest)
	if uerr != "-" {
		restS = "-"
	}
	line := fmt.Sprintf("berr=- bfnd=%s uerr=%s off=%d ufnd=%s eq=%s re=%s rest=%s", showList(bres.fnd), uerr, off, showList(ufnd), tf(eq), tf(re), restS)
	oracle := "ok"
	// "any content": the block of the built record IS the content handed to the builder (no block repair option on): what is
	// written and read back must be what the caller wrote, not merely something self-consistent
	if !bo.fixsyn && !bo.fixwf || rt0 == 4 && !strings.HasPrefix(strings.ToLower(ctOf(hdr)), "application/") {
		if _, bblock := readAllBlock(bres.rec); bblock != hx(content) {
			oracle = fmt.Sprintf("VIOL roundtrip-content the built record's block has %d bytes, the builder was given %d", len(unhxOrEmpty(bblock)), len(content))
		}
	}
	unknownType := bres.rec.Type() == 0
	if applicable && !(unknownType && po.unk == 2) {
		okAll := uerr == "-" && len(ufnd) == 0 && eq && re && rest == len(tail) && off == 0
		if unknownType && po.unk == 1 {
			// the unknown-type axis at warn reports the type: that is the axis doing its job, not a lossy round trip
			okAll = uerr == "-" && eq && re && rest == len(tail) && off == 0 && showList(ufnd) == "hdrUnknownType"
		}
		if !okAll {
			sig := "other"
			switch {
			case hasEncWord(hdr):
				sig = "encoded-word"
			case hasEdgeWs(hdr):
				sig = "edge-whitespace"
			}
			oracle = fmt.Sprintf("VIOL roundtrip-%s uerr=%s ufnd=%s eq=%s re=%s rest=%d/%d", sig, uerr, showList(ufnd), tf(eq), tf(re), rest, len(tail))
		}
	}
	_ = io.EOF
	return line, oracle
}

func ctOf(hdr [][2]string) string {
	for _, nv := range hdr {
		if strings.EqualFold(nv[0], "Content-Type") {
			return nv[1]
		}
	}
	return ""
}

func init() {
	kinds["build"] = kBuild
	kinds["roundtrip"] = kRoundtrip
}


// ---- generators for the builder side

type bcase struct {
	ver     string
	rt0     int
	hdr     [][2]string
	content []byte
	class   string
}

func genBuildCase(r *rng) bcase {
	g := genRecord(r)
	c := bcase{ver: g.version, content: g.block, class: "plain"}
	byHeader := r.chance(1, 4) || g.rtNum == 0
	for _, nv := range g.hdr {
		if nv[0] == "WARC-Type" && !byHeader {
			continue
		}
		if nv[0] == "WARC-Record-ID" && r.chance(2, 3) {
			continue // let the builder generate it
		}
		c.hdr = append(c.hdr, nv)
	}
	if !byHeader {
		c.rt0 = g.rtNum
	} else {
		c.class = "type-by-header"
	}
	switch r.intn(12) {
	case 0:
		c.hdr = append(c.hdr, [2]string{"X-Ws", pick(r, []string{" v", "v ", "\tv", " ", "a  "})})
		c.class = "edge-ws"
	case 1:
		c.hdr = append(c.hdr, [2]string{"X-Enc", pick(r, []string{"=?utf-8?q?a?=", "a =?x", "=?", "=?utf-8?b?YQ==?= b"})})
		c.class = "enc-word"
	case 2:
		// caller-supplied length / digests (C03 on the builder path)
		g.declare(r, true)
		if g.declLen != "" || r.chance(1, 2) {
			cl := strconv.Itoa(len(g.block))
			if g.declLen != "" {
				cl = g.declLen
			}
			if r.chance(1, 6) {
				// lengths at and beyond the limits of the integer types
				cl = pick(r, []string{"9223372036854775807", "9223372036854775808", "18446744073709551615", "18446744073709551616", "4294967296", "2147483648"})
			}
			c.hdr = append(c.hdr, [2]string{"Content-Length", cl})
		}
		if g.blockDigest != "" {
			c.hdr = append(c.hdr, [2]string{"WARC-Block-Digest", g.blockDigest})
		}
		if g.payDigest != "" {
			c.hdr = append(c.hdr, [2]string{"WARC-Payload-Digest", g.payDigest})
		}
		c.class = "declared"
	case 3:
		// defects the strict builder rejects
		switch r.intn(4) {
		case 0:
			c.hdr = append(c.hdr, [2]string{"WARC-Date", "yesterday"})
		case 1:
			c.hdr = append(c.hdr, [2]string{"WARC-IP-Address", "999.1.1.1"})
		case 2:
			c.hdr = append(c.hdr, [2]string{"WARC-Filename", "x.warc"})
		case 3:
			c.hdr = append(c.hdr, [2]string{"Content-Type", "text/plain"})
		}
		c.class = "defect"
	}
	return c
}

func oraclesForBuild(c bcase) string {
	t := &oracleTab{}
	for _, nv := range c.hdr {
		t.addValue(nv[1])
		t.addValue(strings.Trim(nv[1], " \t\r\n"))
	}
	t.addValue("<" + fixedId + ">")
	t.addContent(c.content)
	return t.String()
}

func genC02(r *rng, n int, tier string, emit func(string, ...string)) {
	genUuid(r.fork(), 40+n/20, tier, emit)
	for i := 0; i < n; i++ {
		sub := r.fork()
		c := genBuildCase(sub)
		o := genRopts(sub)
		if sub.chance(1, 6) {
			// arbitrary content whatever the declared content type: a warc-fields block that needs the block repair, an
			// http block that is no http, ...
			c.content = sub.bytes(sub.rangeInt(0, 300))
			if sub.chance(1, 2) {
				c.content = []byte(pick(sub, []string{"a: b\n", "via: http://example.com/\nhops: P\n", "k: v\r\n c\n", "nocolon\r\na: b\r\n", "a: b"}))
			}
			c.class = "arbitrary-content"
		}
		if i%60 == 7 {
			// an http block that spills, with the spill threshold a whole number of read-buffer sizes (512 ... 32768) behind the
			// end of the protocol header, or one byte beside it: where the part in memory ends exactly at the end of a read
			head := "HTTP/1.1 200 OK\r\nContent-Type: text/plain\r\nX-Pad: " + strings.Repeat("p", sub.intn(40)) + "\r\n\r\n"
			payload := sub.bytes(3*8192 + 77 + sub.intn(9000))
			c = bcase{ver: "1.1", rt0: 2, class: "spill-boundary", content: append([]byte(head), payload...), hdr: [][2]string{
				{"WARC-Date", "2020-01-02T03:04:05Z"}, {"WARC-Target-URI", "http://example.com/"}, {"Content-Type", "application/http;msgtype=response"}}}
			o.maxMem = len(head) + pick(sub, []int{512, 4096, 8192, 16384, 24576, 32768}) + pick(sub, []int{-1, 0, 0, 0, 1})
			o.skip = false
		}
		stat("build-class", c.class)
		stat("build-content", strconv.Itoa(len(c.content)/50*50))
		emit("build", o.String(), c.ver, strconv.Itoa(c.rt0), pairsArg(c.hdr), hx(c.content), hxs(fixedId), oraclesForBuild(c), pick(sub, []string{"w", "ws", "rf-whole", "rf-one", "rf-half", "rf-eofwith", "mix", "mix2", "exact"}))
	}
}

func genC01(r *rng, n int, tier string, emit func(string, ...string)) {
	for i := 0; i < n; i++ {
		sub := r.fork()
		c := genBuildCase(sub)
		bo := genRopts(sub)
		po := genRopts(sub)
		if sub.chance(1, 2) {
			po.syn, po.spec = 2, 2 // strict parser
		}
		po.adddig = false // compare the header the builder produced with the header parsed (DESIGN 5.0)
		tail := pick(sub, []string{"", "", "WARC/1.1\r\n", "\r\n", "x"})
		stat("rt-class", c.class)
		how := pick(sub, []string{"w", "w", "ws", "rf-whole", "rf-one", "rf-half", "rf-eofwith", "mix", "mix2", "exact", "w2"})
		if i%100 == 5 {
			c = bcase{ver: "1.1", rt0: 4, class: "plain", hdr: [][2]string{{"WARC-Date", "2020-01-02T03:04:05Z"}, {"WARC-Target-URI", "http://example.com/"}, {"Content-Type", "text/plain"}}}
			// a block larger than twice the initial memory buffer (16 KiB size hint), memory limit left at its default: fed with a
			// short write and one large one
			c.content = sub.bytes(pick(sub, []int{32768 - 47 + 1, 33000, 70000, 102400}))
			bo.maxMem = 0
			how = "w2"
			stat("rt-class", "large-second-write")
		}
		emit("roundtrip", bo.String(), po.String(), c.ver, strconv.Itoa(c.rt0), pairsArg(c.hdr), hx(c.content), hxs(tail), oraclesForBuild(c), hxs(fixedId), how)
	}
}

func init() {
	gens["C02"] = genC02
	gens["C01"] = genC01
}
