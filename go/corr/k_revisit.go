package main

import (
	"bufio"
	"bytes"
	"fmt"
	"strconv"
	"strings"

	gowarc "github.com/nlnwa/gowarc/v2"
)

// ---- C20: revisit creation and merge

func showRRec(rec gowarc.WarcRecord) string {
	_, blk := readAllBlock(rec)
	return fmt.Sprintf("rt=%d hdr=%s block=%s", rec.Type(), showPairs(pairsOf(rec)), blk)
}

// revisit <opts> <ver> <rt0> <hdr> <content> <id> <oracles> <profile> <refid> <refuri> <refdate>
func kRevisit(args []string) (string, string) {
	o := parseRopts(args[0])
	rt0, _ := strconv.Atoi(args[2])
	hdr := splitPairsArg(args[3])
	content := unhx(args[4])
	b := runBuild(o, args[1], rt0, hdr, content, "w")
	if b.rec == nil {
		return "berr=" + b.errTag, "ok"
	}
	orig := b.rec
	defer orig.Close()
	origKind := gowarc.VerifBlockKind(orig.Block())
	_, origBlock := readAllBlock(orig)
	origBytes := unhxOrEmpty(origBlock)
	origType := orig.Type()
	origTypeField := orig.WarcHeader().Get(gowarc.WarcType)
	var head []byte
	origPD := ""
	if pb, ok := orig.Block().(gowarc.ProtocolHeaderBlock); ok && (origKind == "httpReq" || origKind == "httpResp") {
		head = append([]byte{}, pb.ProtocolHeaderBytes()...)
		origPD = orig.Block().(gowarc.PayloadBlock).PayloadDigest()
		// the protocol header is the content up to and including the first EMPTY line (a line holding only white space is a
		// folded continuation, not the end): judged against an independent splitter when the content has such a line
		if want, found := splitHead(content); found && !bytes.Equal(want, head) {
			return "orig=" + origKind + " head-split-differs", fmt.Sprintf("VIOL c20-block the protocol header of the original is %d bytes, the content up to its first empty line %d", len(head), len(want))
		}
	}
	var ref *gowarc.RevisitRef
	profile := unhxs(args[7])
	if profile == "auto11" {
		r, err := orig.CreateRevisitRef(gowarc.ProfileIdenticalPayloadDigestV1_1)
		if err != nil {
			return "orig=" + origKind + " referr", "ok"
		}
		ref = r
	} else {
		ref = &gowarc.RevisitRef{Profile: profile, TargetRecordId: unhxs(args[8]), TargetUri: unhxs(args[9]), TargetDate: unhxs(args[10])}
	}
	rev, err := orig.ToRevisitRecord(ref)
	if err != nil {
		tag := "unknownProfile"
		if strings.Contains(err.Error(), "payload digest is required") {
			tag = "needPayloadDigest"
		}
		if strings.Contains(err.Error(), "making revisit of") {
			tag = "unsupportedBlock"
		}
		return "orig=" + origKind + " reverr=" + tag, "ok"
	}
	defer rev.Close()
	line := "orig=" + origKind + " revisit " + showRRec(rev)
	oracle := "ok"
	viol := func(s string) {
		if oracle == "ok" {
			oracle = "VIOL " + s
		}
	}
	isHttp := origKind == "httpReq" || origKind == "httpResp"
	// --- the property, clause by clause, judged on the implementation
	_, rblk := readAllBlock(rev)
	rh := rev.WarcHeader()
	if isHttp {
		if rblk != hx(head) {
			viol("c20-block revisit block is not the original's protocol header")
		}
		if rh.Get(gowarc.ContentLength) != strconv.Itoa(len(head)) {
			viol("c20-length " + rh.Get(gowarc.ContentLength))
		}
		want := o.alg + ":" + stdEncode(o.enc, sumOf(o.alg, head))
		if rh.Get(gowarc.WarcBlockDigest) != want {
			viol("c20-block-digest")
		}
		if orig.WarcHeader().Has(gowarc.WarcPayloadDigest) && rh.Get(gowarc.WarcPayloadDigest) != orig.WarcHeader().Get(gowarc.WarcPayloadDigest) {
			viol("c20-payload-digest")
		}
		_ = origPD
	}
	if rh.Get(gowarc.WarcProfile) != ref.Profile {
		viol("c20-ref-profile")
	}
	if ref.TargetRecordId != "" && rh.GetId(gowarc.WarcRefersTo) != strings.Trim(ref.TargetRecordId, "<>") {
		viol("c20-ref-id")
	}
	if ref.TargetUri != "" && rh.Get(gowarc.WarcRefersToTargetURI) != ref.TargetUri {
		viol("c20-ref-uri")
	}
	if ref.TargetDate != "" && rh.Get(gowarc.WarcRefersToDate) != ref.TargetDate {
		viol("c20-ref-date")
	}
	if rev.Type() != gowarc.Revisit || strings.ToLower(rh.Get(gowarc.WarcType)) != "revisit" {
		viol("c20-type revisit record type disagrees with its WARC-Type field")
	}
	// strict validation after a serialize-then-parse round trip (for originals that are themselves strictly valid)
	if isHttp && b.errTag == "" && len(b.fnd) == 0 && args[1] == "1.1" {
		ser, merr := marshalRec(rev)
		if merr != nil {
			viol("c20-marshal")
		} else {
			strict := o
			strict.syn, strict.spec, strict.unk = 2, 2, 2
			strict.adddig = false
			p, _, val, perr := gowarc.NewUnmarshaler(strict.options()...).Unmarshal(bufio.NewReader(bytes.NewReader(ser)))
			if p != nil {
				p.Close()
			}
			// only originals that pass strict validation themselves can be expected to give strictly valid revisits
			so := runBuild(strict, args[1], rt0, hdr, content, "w")
			origStrictOK := so.errTag == ""
			if so.rec != nil {
				so.rec.Close()
			}
			cleanRef := uriOK(ref.TargetUri) || ref.TargetUri == ""
			if _, e := parseTime(ref.TargetDate); e != nil && ref.TargetDate != "" {
				cleanRef = false
			}
			if ref.TargetRecordId != "" && !uriOK(strings.Trim(ref.TargetRecordId, "<>")) {
				cleanRef = false
			}
			if origStrictOK && cleanRef && (perr != nil || (val != nil && !val.Valid())) {
				sig := "c20-strict"
				if hasEncWord(hdr) {
					// an encoded-word in a header value set through the API does not survive write-then-parse: finding C19-F15
					sig = "c20-strict-encoded-word"
				}
				viol(fmt.Sprintf("%s revisit fails strict validation after round trip: %v %v", sig, perr, val))
			}
		}
	}
	// merge
	merged, merr := rev.Merge(orig)
	if merr != nil {
		tag := "httpParse"
		switch {
		case strings.Contains(merr.Error(), "could not parse"):
			tag = "badLength"
		case strings.Contains(merr.Error(), "only implemented for http"):
			tag = "notHttp"
		case strings.Contains(merr.Error(), "segmentet records is not"):
			tag = "segmented"
		}
		line += " mergeerr=" + tag
		// an original whose own Content-Length is not a number the library can read (built under spec=ignore from a hostile
		// value) is refused explicitly: that is not a failure to reproduce a record
		_, clErr := strconv.ParseInt(orig.WarcHeader().Get(gowarc.ContentLength), 10, 64)
		if isHttp && httpOK(origKind == "httpResp", head) && orig.WarcHeader().Has(gowarc.ContentLength) && tag != "segmented" && !(tag == "badLength" && clErr != nil) {
			viol("c20-merge-failed " + sanitize(merr.Error()))
		}
	} else {
		line += " merged " + showRRec(merged)
		_, mblk := readAllBlock(merged)
		if !httpOK(origKind == "httpResp", head) {
			// a protocol header that only parses after the CR LF repair: the repaired bytes stay in the merged block
			// (pinned by the repository's own test "Missing empty line"); not judged
			return line, oracle
		}
		if mblk != hx(origBytes) {
			viol("c20-merge-block merged block differs from the original's block")
		}
		origTruthful := orig.WarcHeader().Get(gowarc.ContentLength) == strconv.Itoa(len(origBytes))
		if origTruthful && merged.WarcHeader().Get(gowarc.ContentLength) != strconv.Itoa(len(origBytes)) {
			viol("c20-merge-length " + merged.WarcHeader().Get(gowarc.ContentLength))
		}
		if merged.Type() != origType || merged.WarcHeader().Get(gowarc.WarcType) != origTypeField {
			viol(fmt.Sprintf("c20-type merged Type()=%d WARC-Type=%s original %d/%s", merged.Type(), merged.WarcHeader().Get(gowarc.WarcType), origType, origTypeField))
		}
	}
	return line, oracle
}

func genC20(r *rng, n int, tier string, emit func(string, ...string)) {
	profiles := []string{gowarc.ProfileIdenticalPayloadDigestV1_0, gowarc.ProfileIdenticalPayloadDigestV1_1, gowarc.ProfileServerNotModifiedV1_0, gowarc.ProfileServerNotModifiedV1_1}
	for i := 0; i < n; i++ {
		sub := r.fork()
		var c bcase
		for {
			c = genBuildCase(sub)
			// mostly http request/response records, some others to exercise the refusals
			if c.rt0 == 2 || c.rt0 == 8 || sub.chance(1, 6) {
				break
			}
		}
		// an original whose WARC-Type is not written in lower case (the type then comes from the header)
		if (c.rt0 == 2 || c.rt0 == 8) && sub.chance(1, 8) {
			name := map[int]string{2: "response", 8: "request"}[c.rt0]
			c.rt0 = 0
			c.hdr = append([][2]string{{"WARC-Type", pick(sub, []string{strings.ToUpper(name), strings.ToUpper(name[:1]) + name[1:], name[:3] + strings.ToUpper(name[3:])})}}, c.hdr...)
			stat("revisit-type-case", "mixed")
		}
		o := genRopts(sub)
		if sub.chance(2, 3) {
			o.skip = false
		}
		profile := pick(sub, profiles)
		switch sub.intn(12) {
		case 0:
			profile = "auto11"
		case 1:
			profile = "http://example.com/unknown-profile"
		}
		rid := pick(sub, []string{"urn:uuid:aaaaaaaa-0000-4000-8000-00000000beef", "<urn:uuid:aaaaaaaa-0000-4000-8000-00000000beef>", ""})
		ruri := pick(sub, []string{"http://example.com/orig", ""})
		rdate := pick(sub, []string{"2019-05-05T05:05:05Z", ""})
		stat("revisit-profile", profile[strings.LastIndex(profile, "/")+1:])
		stat("revisit-rt", strconv.Itoa(c.rt0))
		t := &oracleTab{}
		for _, nv := range c.hdr {
			t.addValue(nv[1])
		}
		t.addValue("<" + fixedId + ">")
		t.addContent(c.content)
		emit("revisit", o.String(), c.ver, strconv.Itoa(c.rt0), pairsArg(c.hdr), hx(c.content), hxs(fixedId), t.String(), hxs(profile), hxs(rid), hxs(ruri), hxs(rdate))
	}
}

func init() {
	kinds["revisit"] = kRevisit
	gens["C20"] = genC20
}
