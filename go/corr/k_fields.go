package main

import (
	"io"
	"fmt"
	"net/http"
	"sort"
	"strconv"
	"strings"

	gowarc "github.com/nlnwa/gowarc/v2"
)

// ---- C18: WarcFields against (a) the Lean model (via the line protocol) and (b) a reference multimap here.

var knownNames = []string{
	gowarc.ContentLength, gowarc.ContentType, gowarc.WarcBlockDigest, gowarc.WarcConcurrentTo, gowarc.WarcDate,
	gowarc.WarcFilename, gowarc.WarcIPAddress, gowarc.WarcIdentifiedPayloadType, gowarc.WarcPayloadDigest,
	gowarc.WarcProfile, gowarc.WarcRecordID, gowarc.WarcRefersTo, gowarc.WarcRefersToDate, gowarc.WarcRefersToTargetURI,
	gowarc.WarcSegmentNumber, gowarc.WarcSegmentOriginID, gowarc.WarcSegmentTotalLength, gowarc.WarcTargetURI,
	gowarc.WarcTruncated, gowarc.WarcType, gowarc.WarcWarcinfoID, gowarc.WarcPageID, gowarc.WarcResourceType, gowarc.WarcJSONMetadata,
}

// refCanon: canonical field name, written independently of normalizeName.
func refCanon(name string) string {
	lc := strings.ToLower(name)
	for _, k := range knownNames {
		if strings.ToLower(k) == lc {
			return k
		}
	}
	return http.CanonicalHeaderKey(name)
}

type refMM struct{ names, values []string }

func (m *refMM) add(n, v string) { m.names = append(m.names, refCanon(n)); m.values = append(m.values, v) }
func (m *refMM) set(n, v string) {
	k := refCanon(n)
	var nn, vv []string
	done := false
	for i := range m.names {
		if m.names[i] == k {
			if done {
				continue
			}
			done = true
			nn = append(nn, k)
			vv = append(vv, v)
			continue
		}
		nn = append(nn, m.names[i])
		vv = append(vv, m.values[i])
	}
	if !done {
		nn = append(nn, k)
		vv = append(vv, v)
	}
	m.names, m.values = nn, vv
}
func (m *refMM) del(n string) {
	k := refCanon(n)
	var nn, vv []string
	for i := range m.names {
		if m.names[i] != k {
			nn = append(nn, m.names[i])
			vv = append(vv, m.values[i])
		}
	}
	m.names, m.values = nn, vv
}
func (m *refMM) getAll(n string) []string {
	k := refCanon(n)
	var out []string
	for i := range m.names {
		if m.names[i] == k {
			out = append(out, m.values[i])
		}
	}
	return out
}
func (m *refMM) sortStable() {
	idx := make([]int, len(m.names))
	for i := range idx {
		idx[i] = i
	}
	sort.SliceStable(idx, func(a, b int) bool { return m.names[idx[a]] < m.names[idx[b]] })
	nn := make([]string, len(idx))
	vv := make([]string, len(idx))
	for i, j := range idx {
		nn[i], vv[i] = m.names[j], m.values[j]
	}
	m.names, m.values = nn, vv
}
func (m *refMM) write() string {
	var sb strings.Builder
	for i := range m.names {
		sb.WriteString(m.names[i] + ": " + m.values[i] + "\r\n")
	}
	return sb.String()
}

func idVal(v string) (string, bool) {
	if len(v) == 0 {
		return "", false
	}
	if v[0] != '<' && v[len(v)-1] != '>' {
		v = "<" + v + ">"
	}
	return v, true
}

func kFields(args []string) (string, string) {
	if len(args) != 1 {
		return "bad-args", "ok"
	}
	wf := &gowarc.WarcFields{}
	ref := &refMM{}
	var outs []string
	oracle := "ok"
	for stepNo, op := range strings.Split(args[0], ";") {
		f := strings.Split(op, ":")
		res, refRes := ".", "."
		switch f[0] {
		case "add":
			wf.Add(unhxs(f[1]), unhxs(f[2]))
			ref.add(unhxs(f[1]), unhxs(f[2]))
		case "addint":
			i, _ := strconv.ParseInt(f[2], 10, 64)
			if i >= -1<<31 && i < 1<<31 && i%2 == 0 {
				wf.AddInt(unhxs(f[1]), int(i))
			} else {
				wf.AddInt64(unhxs(f[1]), i)
			}
			ref.add(unhxs(f[1]), strconv.FormatInt(i, 10))
		case "addid":
			wf.AddId(unhxs(f[1]), unhxs(f[2]))
			if v, ok := idVal(unhxs(f[2])); ok {
				ref.add(unhxs(f[1]), v)
			}
		case "set":
			wf.Set(unhxs(f[1]), unhxs(f[2]))
			ref.set(unhxs(f[1]), unhxs(f[2]))
		case "setint":
			i, _ := strconv.ParseInt(f[2], 10, 64)
			if i >= -1<<31 && i < 1<<31 && i%2 == 0 {
				wf.SetInt(unhxs(f[1]), int(i))
			} else {
				wf.SetInt64(unhxs(f[1]), i)
			}
			ref.set(unhxs(f[1]), strconv.FormatInt(i, 10))
		case "setid":
			wf.SetId(unhxs(f[1]), unhxs(f[2]))
			if v, ok := idVal(unhxs(f[2])); ok {
				ref.set(unhxs(f[1]), v)
			}
		case "del":
			wf.Delete(unhxs(f[1]))
			ref.del(unhxs(f[1]))
		case "sort":
			wf.Sort()
			ref.sortStable()
		case "get":
			res = hxs(wf.Get(unhxs(f[1])))
			if a := ref.getAll(unhxs(f[1])); len(a) > 0 {
				refRes = hxs(a[0])
			} else {
				refRes = "-"
			}
		case "getall":
			var l []string
			for _, v := range wf.GetAll(unhxs(f[1])) {
				l = append(l, hxs(v))
			}
			res = strings.Join(l, ",")
			l = nil
			for _, v := range ref.getAll(unhxs(f[1])) {
				l = append(l, hxs(v))
			}
			refRes = strings.Join(l, ",")
		case "getid":
			res = hxs(wf.GetId(unhxs(f[1])))
			if a := ref.getAll(unhxs(f[1])); len(a) > 0 {
				refRes = hxs(strings.Trim(a[0], "<>"))
			} else {
				refRes = "-"
			}
		case "has":
			res = tf(wf.Has(unhxs(f[1])))
			refRes = tf(len(ref.getAll(unhxs(f[1]))) > 0)
		case "getint":
			if !wf.Has(unhxs(f[1])) {
				res = "missing"
			} else if i, err := wf.GetInt64(unhxs(f[1])); err != nil {
				res = "err"
			} else {
				res = "ok" + strconv.FormatInt(i, 10)
				if j, err2 := wf.GetInt(unhxs(f[1])); err2 != nil || int64(j) != i {
					res = "getint-differs"
				}
			}
			if a := ref.getAll(unhxs(f[1])); len(a) == 0 {
				refRes = "missing"
			} else if i, err := strconv.ParseInt(a[0], 10, 64); err != nil {
				refRes = "err"
			} else {
				refRes = "ok" + strconv.FormatInt(i, 10)
			}
		case "write":
			var sb strings.Builder
			n, err := wf.Write(&sb)
			if err != nil || int(n) != sb.Len() {
				res = "write-count-wrong"
			} else if d := writeFaultCheck([]byte(sb.String()), func(w io.Writer) (int64, error) { return wf.Write(w) }); d != "" {
				res = "write-fault-swallowed"
				oracle = "VIOL mm-write-fault " + sanitize(d)
			} else {
				res = hxs(sb.String())
			}
			refRes = hxs(ref.write())
		default:
			res = "bad-op"
			refRes = "bad-op"
		}
		st := wf.String()
		outs = append(outs, res+"|"+hxs(st))
		if oracle == "ok" && (res != refRes || st != ref.write()) {
			oracle = fmt.Sprintf("VIOL mm step=%d op=%s impl=%s ref=%s", stepNo, f[0], res, refRes)
		}
	}
	return strings.Join(outs, ";"), oracle
}

func kCanon(args []string) (string, string) {
	n := unhxs(args[0])
	got := gowarc.VerifNormalizeName(n)
	or := "ok"
	if got != refCanon(n) {
		or = "VIOL canon impl=" + hxs(got) + " ref=" + hxs(refCanon(n))
	}
	return hxs(got), or
}

var namePool = []string{
	"WARC-Type", "warc-type", "WARC-TYPE", "Warc-Record-Id", "content-length", "CONTENT-LENGTH", "Content-Type",
	"x-foo", "X-Foo", "X-FOO", "x-bar", "a", "A", "WARC-Concurrent-To", "warc-concurrent-to", "Warc-Date",
	"foo bar", "na\xc3\xafve", "WARC-Bloc\xe2\x84\xaa-Digest", "warc-record-\xc4\xb0d", "\xff-x", "", "x_y-z.w", "9a-b", "WARC-JSON-Metadata", "warc-page-id",
}

var valuePool = []string{"", "v", "1", "42", "-7", "+5", "0012", "9223372036854775807", "9223372036854775808", "-9223372036854775808", "1_0", "0x10", " 3", "abc", "<urn:uuid:1>", "<x", "x>", "urn:x", "<", ">", "<>", "a b", "a:b", "\xe2\x84\xaa", "abc\f", "\vabc", "x\xc2\xa0", "\xe3\x80\x80", "y\xc2\x85", "\f"}

func genName(r *rng) string {
	switch r.intn(10) {
	case 0:
		// random case variation of a known name
		b := []byte(pick(r, knownNames))
		for i := range b {
			if r.chance(1, 2) {
				b[i] = strings.ToUpper(string(b[i]))[0]
			} else {
				b[i] = strings.ToLower(string(b[i]))[0]
			}
		}
		return string(b)
	case 1:
		return string(r.bytes(r.rangeInt(0, 5)))
	default:
		return pick(r, namePool)
	}
}

func genFieldsOp(r *rng) string {
	n := hxs(genName(r))
	v := hxs(pick(r, valuePool))
	var op string
	switch k := r.intn(22); {
	case k < 4:
		op = "add:" + n + ":" + v
	case k < 5:
		op = "addint:" + n + ":" + strconv.FormatInt(int64(r.next()>>uint(r.intn(64)))*int64(1-2*r.intn(2)), 10)
	case k < 6:
		op = "addid:" + n + ":" + v
	case k < 10:
		op = "set:" + n + ":" + v
	case k < 11:
		op = "setint:" + n + ":" + strconv.Itoa(r.intn(2000)-1000)
	case k < 12:
		op = "setid:" + n + ":" + v
	case k < 14:
		op = "del:" + n
	case k < 15:
		op = "sort"
	case k < 16:
		op = "get:" + n
	case k < 17:
		op = "getall:" + n
	case k < 18:
		op = "getid:" + n
	case k < 19:
		op = "has:" + n
	case k < 20:
		op = "getint:" + n
	default:
		op = "write"
	}
	stat("fields-op", strings.SplitN(op, ":", 2)[0])
	return op
}

func genC18(r *rng, n int, tier string, emit func(string, ...string)) {
	// a few fixed shapes first: repeated names followed by another field (the Set loop's hard case)
	for _, c := range []string{
		"add:41:31;add:41:32;add:42:33;set:41:34;write",
		"add:41:31;add:61:32;add:41:33;set:41:34;getall:41",
		"add:41:31;add:42:32;add:41:33;add:43:34;add:41:35;set:61:36;write;sort;write",
	} {
		emit("fields", c)
	}
	for i := 0; i < n; i++ {
		if r.chance(1, 8) {
			// long headers with repeated names in unsorted order, then Sort: stability needs more than a dozen entries to matter
			sub := r.fork()
			names := []string{"WARC-Concurrent-To", "X-B", "Content-Type", "x-a", "WARC-Date", "Zz", "WARC-Concurrent-To", "X-B"}
			cnt := sub.rangeInt(13, 60)
			var ops []string
			for j := 0; j < cnt; j++ {
				ops = append(ops, "add:"+hxs(pick(sub, names))+":"+hxs(fmt.Sprintf("v%02d", j)))
			}
			ops = append(ops, "sort", "write", "getall:"+hxs("warc-concurrent-to"), "get:"+hxs("x-b"))
			stat("fields-len", "long-sort")
			emit("fields", strings.Join(ops, ";"))
			continue
		}
		l := r.rangeInt(1, 12)
		if r.chance(1, 10) {
			l = r.rangeInt(12, 40)
		}
		// bias: small name universe per case so names collide
		ops := make([]string, l)
		sub := r.fork()
		for j := range ops {
			ops[j] = genFieldsOp(sub)
		}
		stat("fields-len", strconv.Itoa(l/5*5))
		emit("fields", strings.Join(ops, ";"))
	}
	for i := 0; i < n/4+10; i++ {
		emit("canon", hxs(genName(r)))
	}
	if tier == "thorough" {
		// exhaustive: all sequences of length <= 4 over 3 names x 2 values x op kinds
		names := []string{"41", "61", "42"}
		var alphabet []string
		for _, nm := range names {
			alphabet = append(alphabet, "add:"+nm+":31", "set:"+nm+":32", "del:"+nm, "getall:"+nm)
		}
		alphabet = append(alphabet, "sort")
		var rec func(prefix []string, depth int)
		rec = func(prefix []string, depth int) {
			if len(prefix) > 0 {
				emit("fields", strings.Join(prefix, ";"))
			}
			if depth == 0 {
				return
			}
			for _, a := range alphabet {
				rec(append(append([]string{}, prefix...), a), depth-1)
			}
		}
		rec(nil, 4)
	}
}

func init() {
	kinds["fields"] = kFields
	kinds["canon"] = kCanon
	gens["C18"] = genC18
}
