package main

import (
	"encoding/hex"
	"strings"
)

// splitmix64: every random choice of a run derives from one state, so a case replays exactly.
type rng struct{ s uint64 }

func newRng(seed uint64) *rng { return &rng{s: seed*0x9E3779B97F4A7C15 + 0x1234567} }

func (r *rng) next() uint64 {
	r.s += 0x9E3779B97F4A7C15
	z := r.s
	z = (z ^ (z >> 30)) * 0xBF58476D1CE4E5B9
	z = (z ^ (z >> 27)) * 0x94D049BB133111EB
	return z ^ (z >> 31)
}

func (r *rng) intn(n int) int {
	if n <= 0 {
		return 0
	}
	return int(r.next() % uint64(n))
}

func (r *rng) rangeInt(lo, hi int) int { return lo + r.intn(hi-lo+1) }

func (r *rng) chance(num, den int) bool { return r.intn(den) < num }

func (r *rng) bytes(n int) []byte {
	b := make([]byte, n)
	for i := range b {
		b[i] = byte(r.next())
	}
	return b
}

func pick[T any](r *rng, l []T) T { return l[r.intn(len(l))] }

// fork derives an independent stream (used to make sub-generators stable under edits elsewhere).
func (r *rng) fork() *rng { return &rng{s: r.next()} }

func hx(b []byte) string {
	if len(b) == 0 {
		return "-"
	}
	return hex.EncodeToString(b)
}

func hxs(s string) string { return hx([]byte(s)) }

func unhx(s string) []byte {
	if s == "-" {
		return nil
	}
	b, err := hex.DecodeString(s)
	if err != nil {
		panic("bad hex in case line: " + s)
	}
	return b
}

func unhxs(s string) string { return string(unhx(s)) }

func tf(b bool) string {
	if b {
		return "t"
	}
	return "f"
}

func kvParse(s string) map[string]string {
	m := map[string]string{}
	for _, kv := range strings.Split(s, ";") {
		if i := strings.IndexByte(kv, '='); i > 0 {
			m[kv[:i]] = kv[i+1:]
		}
	}
	return m
}
