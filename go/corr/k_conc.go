package main

import (
	"fmt"
	"io"
	"os"
	"path/filepath"
	"sort"
	"strconv"
	"strings"
	"sync"
	"sync/atomic"
	"time"

	gowarc "github.com/nlnwa/gowarc/v2"
)

// ---- C09 / C10: real goroutines on one WarcFileWriter under seeded and steered schedules

type concMarshaler struct {
	inner gowarc.Marshaler
	mu    sync.Mutex
	// per record token
	sleepUs map[int]int
	gate    map[int]chan struct{} // wait here before marshalling
	midGate map[int]chan struct{} // wait here after the first write of the record reached the file
	cont    map[int]bool          // return a continuation record once (a marshaler that segments)
	fail    map[int]bool          // the marshaler fails for this record (an I/O error, a failing block reader)
	contDone map[int]bool
	entered chan int              // tokens whose marshalling has started
}

type midWriter struct {
	w    io.Writer
	gate chan struct{}
	done bool
}

func (m *midWriter) Write(p []byte) (int, error) {
	n, err := m.w.Write(p)
	if !m.done {
		m.done = true
		<-m.gate
	}
	return n, err
}

func (m *concMarshaler) Marshal(w io.Writer, record gowarc.WarcRecord, maxSize int64) (gowarc.WarcRecord, int64, error) {
	tok := tokOfId(record.WarcHeader().Get("WARC-Record-ID"))
	m.mu.Lock()
	us := m.sleepUs[tok]
	g := m.gate[tok]
	mg := m.midGate[tok]
	fl := m.fail[tok]
	ct := m.cont[tok]
	if ct {
		delete(m.cont, tok)
		m.contDone[tok] = true
	}
	m.mu.Unlock()
	select {
	case m.entered <- tok:
	default:
	}
	if us > 0 {
		time.Sleep(time.Duration(us) * time.Microsecond)
	}
	if g != nil {
		<-g
	}
	if mg != nil {
		w = &midWriter{w: w, gate: mg}
	}
	if fl {
		return nil, 0, fmt.Errorf("verif: marshaler failure for record %d", tok)
	}
	next, n, err := m.inner.Marshal(w, record, maxSize)
	if ct && err == nil && next == nil {
		// behave like a segmenting marshaler: hand back one more record to be written to the same writer
		wr := &wrec{tok: tok + 50000000, kind: "r", size: 10, decl: "t"}
		if buildWrec(wr) == nil {
			return wr.rec, n, nil
		}
	}
	return next, n, err
}

type concCall struct {
	caller  int
	op      string // W R C
	toks    []int
	start   time.Time
	end     time.Time
	resp    []gowarc.WriteResponse
	gotNil  bool
	err     error
	done    chan struct{}
	started chan struct{}
}

// conc <cfg> <programs> <steer>
//
//	cfg: k=<workers>;comp=t|f;max=N;info=t|f
//	programs: caller programs separated by '/', ops separated by ',': W<tok>+<tok>.. | R | C | S<us>
//	steer: ';'-separated directives: sleep:<tok>:<us> | gate:<tok> | mid:<tok> | cont:<tok> |
//	       release:<tok>:after:<callerIdx>.<opIdx>:<ms>  (release the gate of tok <ms> after that call has been issued)
func kConc(args []string) (string, string) {
	cfg := kvParse(args[0])
	k, _ := strconv.Atoi(cfg["k"])
	if k < 1 {
		k = 1
	}
	max, _ := strconv.ParseInt(cfg["max"], 10, 64)
	comp := cfg["comp"] == "t"
	dir, err := os.MkdirTemp("", "vcc")
	if err != nil {
		return "infra-tmp", "ok"
	}
	defer os.RemoveAll(dir)
	cm := &concMarshaler{inner: gowarc.NewMarshaler(), sleepUs: map[int]int{}, gate: map[int]chan struct{}{}, midGate: map[int]chan struct{}{}, cont: map[int]bool{}, fail: map[int]bool{}, contDone: map[int]bool{}, entered: make(chan int, 1000)}
	type release struct {
		tok, caller, op, ms int
	}
	var releases []release
	rmdirAt := []int{-1, 0, 0} // caller, op, ms: remove the output directory that long after the call was issued
	badcl := map[int]bool{}
	if len(args) > 2 && args[2] != "-" {
		for _, d := range strings.Split(args[2], ";") {
			f := strings.Split(d, ":")
			switch f[0] {
			case "sleep":
				t, _ := strconv.Atoi(f[1])
				us, _ := strconv.Atoi(f[2])
				cm.sleepUs[t] = us
			case "gate":
				t, _ := strconv.Atoi(f[1])
				cm.gate[t] = make(chan struct{})
			case "mid":
				t, _ := strconv.Atoi(f[1])
				cm.midGate[t] = make(chan struct{})
			case "cont":
				t, _ := strconv.Atoi(f[1])
				cm.cont[t] = true
			case "fail":
				t, _ := strconv.Atoi(f[1])
				cm.fail[t] = true
			case "badcl":
				// a record whose Content-Length cannot be parsed (the caller changed the header after Build): refused by the fit
				// test with an error in ITS response; the other records of the batch are written as usual
				t, _ := strconv.Atoi(f[1])
				badcl[t] = true
			case "rmdir":
				co := strings.Split(f[2], ".")
				c, _ := strconv.Atoi(co[0])
				o, _ := strconv.Atoi(co[1])
				ms, _ := strconv.Atoi(f[3])
				rmdirAt = []int{c, o, ms}
			case "release":
				t, _ := strconv.Atoi(f[1])
				co := strings.Split(f[3], ".")
				c, _ := strconv.Atoi(co[0])
				o, _ := strconv.Atoi(co[1])
				ms, _ := strconv.Atoi(f[4])
				releases = append(releases, release{t, c, o, ms})
			}
		}
	}
	gen := &lockedNames{dir: dir, fixed: cfg["fixedname"] == "t"}
	wopts := []gowarc.WarcFileWriterOption{
		gowarc.WithMaxFileSize(max), gowarc.WithCompression(comp), gowarc.WithFileNameGenerator(gen),
		gowarc.WithMaxConcurrentWriters(k), gowarc.WithMarshaler(cm), gowarc.WithExpectedCompressionRatio(0.5),
	}
	if cfg["info"] == "t" {
		var infoN int64
		wopts = append(wopts, gowarc.WithWarcInfoFunc(func(rb gowarc.WarcRecordBuilder) error {
			n := atomic.AddInt64(&infoN, 1)
			rb.AddWarcHeader("WARC-Record-ID", fmt.Sprintf("<urn:uuid:99%06d-0000-4000-8000-000000000000>", n))
			_, _ = rb.Write([]byte("software: verif\r\n"))
			return nil
		}))
	}
	w := gowarc.NewWarcFileWriter(wopts...)

	// programs
	var calls [][]*concCall
	for ci, prog := range strings.Split(args[1], "/") {
		var l []*concCall
		for _, op := range strings.Split(prog, ",") {
			if op == "" {
				continue
			}
			c := &concCall{caller: ci, op: op[:1], done: make(chan struct{}), started: make(chan struct{})}
			if c.op == "W" {
				for _, t := range strings.Split(op[1:], "+") {
					n, _ := strconv.Atoi(t)
					c.toks = append(c.toks, n)
				}
			}
			if c.op == "S" {
				n, _ := strconv.Atoi(op[1:])
				c.toks = []int{n}
			}
			l = append(l, c)
		}
		calls = append(calls, l)
	}
	// gate releases
	for _, r := range releases {
		r := r
		go func() {
			if r.caller < len(calls) && r.op < len(calls[r.caller]) {
				select {
				case <-calls[r.caller][r.op].started:
				case <-time.After(4 * time.Second):
				}
			}
			time.Sleep(time.Duration(r.ms) * time.Millisecond)
			cm.mu.Lock()
			g := cm.gate[r.tok]
			if g == nil {
				g = cm.midGate[r.tok]
			}
			cm.mu.Unlock()
			if g != nil {
				close(g)
			}
		}()
	}
	if rmdirAt[0] >= 0 && rmdirAt[0] < len(calls) && rmdirAt[1] < len(calls[rmdirAt[0]]) {
		go func() {
			select {
			case <-calls[rmdirAt[0]][rmdirAt[1]].started:
			case <-time.After(4 * time.Second):
			}
			time.Sleep(time.Duration(rmdirAt[2]) * time.Millisecond)
			_ = os.RemoveAll(dir)
		}()
	}
	var closeReturned int64 // unix nanos of the first Close return
	var openAtClose atomic.Value
	var wg sync.WaitGroup
	for ci := range calls {
		wg.Add(1)
		go func(ci int) {
			defer wg.Done()
			for _, c := range calls[ci] {
				c.start = time.Now()
				close(c.started)
				switch c.op {
				case "W":
					var recs []gowarc.WarcRecord
					for _, t := range c.toks {
						wr := &wrec{tok: t, kind: "r", size: 40 + t%300, decl: "t"}
						if buildWrec(wr) == nil {
							if badcl[t] {
								wr.rec.WarcHeader().Set("Content-Length", "5 ")
							}
							recs = append(recs, wr.rec)
						}
					}
					c.resp = w.Write(recs...)
					c.gotNil = c.resp == nil
				case "R":
					c.err = w.Rotate()
				case "C":
					c.err = w.Close()
					atomic.CompareAndSwapInt64(&closeReturned, 0, time.Now().UnixNano())
					// when Close has returned every worker's file carries its final name
					if ents, err := os.ReadDir(dir); err == nil {
						for _, e := range ents {
							if strings.HasSuffix(e.Name(), ".open") {
								openAtClose.Store(e.Name())
							}
						}
					}
				case "S":
					time.Sleep(time.Duration(c.toks[0]) * time.Microsecond)
				}
				c.end = time.Now()
				close(c.done)
			}
		}(ci)
	}
	allDone := make(chan struct{})
	go func() { wg.Wait(); close(allDone) }()
	hang := ""
	select {
	case <-allDone:
	case <-time.After(6 * time.Second):
		var stuck []string
		for ci, l := range calls {
			for oi, c := range l {
				select {
				case <-c.done:
				default:
					select {
					case <-c.started:
						stuck = append(stuck, fmt.Sprintf("caller%d.op%d=%s", ci, oi, c.op))
					default:
					}
				}
			}
		}
		hang = strings.Join(stuck, ",")
		// let the blocked goroutines go if they wait on our gates
		cm.mu.Lock()
		for _, g := range cm.gate {
			select {
			case <-g:
			default:
				close(g)
			}
		}
		for _, g := range cm.midGate {
			select {
			case <-g:
			default:
				close(g)
			}
		}
		cm.mu.Unlock()
	}
	if hang != "" {
		return "returned=not-all open=?", "VIOL c10-hang calls_did_not_return:" + hang
	}
	if rmdirAt[0] >= 0 || gen.fixed {
		// the files are gone with their directory (an environment fault), or every file gets the same name (a generator
		// without serial: creating the second file fails): only the clause that every call returns is judged
		ncalls := 0
		for _, l := range calls {
			for _, c := range l {
				if c.op != "S" {
					ncalls++
				}
			}
		}
		return fmt.Sprintf("returned=%d/%d open=0", ncalls, ncalls), "ok"
	}
	viol := ""
	// A record the marshaler fails on: every call still returns, the failure comes back in the response, nothing of the record
	// stays in the file (fix 29ef2be), so every other clause is judged as usual.
	setViol := func(sig, detail string) {
		if viol == "" {
			viol = "VIOL " + sig + " " + sanitize(detail)
		}
	}
	// was there a Close at all? then the writer must be shut at the end
	anyClose := false
	for _, l := range calls {
		for _, c := range l {
			if c.op == "C" {
				anyClose = true
			}
		}
	}
	if !anyClose {
		_ = w.Close()
	}
	// ---- files
	type member struct {
		file string
		m    *scanMember
	}
	byTok := map[int][]member{}
	ents, _ := os.ReadDir(dir)
	openLeft := 0
	for _, e := range ents {
		n := e.Name()
		if strings.HasSuffix(n, ".open") {
			openLeft++
		}
		data, _ := os.ReadFile(filepath.Join(dir, n))
		ms, err := scanFile(data, comp)
		if err != nil {
			setViol("c09-file-not-whole", fmt.Sprintf("file=%s: %v", n, err))
		}
		for _, m := range ms {
			t := tokOfId(m.get("WARC-Record-ID"))
			byTok[t] = append(byTok[t], member{strings.TrimSuffix(n, ".open"), m})
		}
	}
	if v := openAtClose.Load(); v != nil {
		setViol("c10-open-after-close", fmt.Sprintf("a Close call returned while %v was still in progress", v))
	}
	if openLeft != 0 {
		setViol("c10-open-after-close", fmt.Sprintf("%d in-progress files after Close returned", openLeft))
	}
	for _, l := range calls {
		for _, c := range l {
			if c.op != "W" {
				if c.err != nil {
					setViol("c10-call-error", c.op+":"+c.err.Error())
				}
				continue
			}
			if c.gotNil {
				for _, t := range c.toks {
					if len(byTok[t]) != 0 {
						setViol("c09-nil-but-written", fmt.Sprintf("Write returned no responses but record %d is in %s", t, byTok[t][0].file))
					}
				}
				continue
			}
			if len(c.resp) != len(c.toks) {
				setViol("c09-response-count", fmt.Sprintf("%d responses for %d records", len(c.resp), len(c.toks)))
				continue
			}
			for i, r := range c.resp {
				t := c.toks[i]
				if r.Err != nil {
					if cm.fail[t] || badcl[t] {
						continue // the marshaler failed / the fit test refused the record: the response says so
					}
					setViol("c09-write-error", fmt.Sprintf("tok=%d %v", t, r.Err))
					continue
				}
				if cm.fail[t] {
					viol = "VIOL c10-error-swallowed " + fmt.Sprintf("record %d failed to marshal but its response carries no error", t)
					continue
				}
				if badcl[t] {
					continue // no file was open when its turn came: no fit test, the record was written as it is
				}
				ms := byTok[t]
				if len(ms) != 1 {
					setViol("c09-exactly-once", fmt.Sprintf("record %d is on disk %d times", t, len(ms)))
					continue
				}
				if ms[0].file != r.FileName || ms[0].m.off != r.FileOffset {
					setViol("c09-misplaced", fmt.Sprintf("record %d reported at %s:%d, found at %s:%d", t, r.FileName, r.FileOffset, ms[0].file, ms[0].m.off))
				}
				if ms[0].m.ulen != r.BytesWritten && !cm.hadCont(t) {
					setViol("c09-bytes-written", fmt.Sprintf("record %d BytesWritten=%d serialized=%d", t, r.BytesWritten, ms[0].m.ulen))
				}
				if i > 0 && c.resp[i-1].Err == nil && c.resp[i-1].FileName == r.FileName {
					prev := byTok[c.toks[i-1]]
					if len(prev) == 1 && prev[0].m.off+prev[0].m.length != ms[0].m.off && !cm.hadCont(c.toks[i-1]) {
						setViol("c09-batch-not-contiguous", fmt.Sprintf("records %d and %d of one Write are in %s but not adjacent", c.toks[i-1], t, r.FileName))
					}
				}
			}
			// a Write that started after Close had returned must have got nil
			if cr := atomic.LoadInt64(&closeReturned); cr != 0 && c.start.UnixNano() > cr && !c.gotNil {
				setViol("c10-write-after-close", "a Write begun after Close returned was served")
			}
		}
	}
	// nothing on disk that nobody acknowledged (duplicates and stray records)
	acked := map[int]bool{}
	for _, l := range calls {
		for _, c := range l {
			if c.op == "W" && !c.gotNil {
				for _, t := range c.toks {
					acked[t] = true
				}
			}
		}
	}
	var stray []int
	for t := range byTok {
		if t > 0 && t < 50000000 && !acked[t] {
			stray = append(stray, t)
		}
	}
	sort.Ints(stray)
	if len(stray) > 0 {
		setViol("c09-nil-but-written", fmt.Sprintf("records on disk without a response: %v", stray))
	}
	oracle := "ok"
	if viol != "" {
		oracle = viol
	}
	ncalls := 0
	for _, l := range calls {
		for _, c := range l {
			if c.op != "S" {
				ncalls++
			}
		}
	}
	return fmt.Sprintf("returned=%d/%d open=0", ncalls, ncalls), oracle
}

func (m *concMarshaler) hadCont(tok int) bool {
	m.mu.Lock()
	defer m.mu.Unlock()
	return m.contDone[tok]
}

// lockedNames is a name generator that is safe for concurrent use (C11 covers PatternNameGenerator)
type lockedNames struct {
	mu    sync.Mutex
	dir   string
	n     int
	fixed bool // a generator whose pattern has no serial: the same name every time (a second file collides with the first)
}

func (g *lockedNames) NewWarcfileName() (string, string) {
	g.mu.Lock()
	defer g.mu.Unlock()
	g.n++
	if g.fixed {
		return g.dir, "w-fixed.warc"
	}
	return g.dir, fmt.Sprintf("w-%04d.warc", g.n)
}

func genConc(r *rng, n int, tier string, emit func(string, ...string)) {
	tok := 0
	next := func() int { tok++; return tok }
	for i := 0; i < n; i++ {
		k := r.rangeInt(1, 3)
		cfg := fmt.Sprintf("k=%d;comp=%s;max=%d;info=%s", k, tf(r.chance(1, 2)), pick(r, []int{0, 600, 1500}), tf(r.chance(1, 2)))
		switch r.intn(12) {
		case 11: // a batch with a record in the middle that the fit test refuses (unparsable Content-Length): its response carries
			// the error, every other record of the call is written and reported
			kk := 1
			cfg = fmt.Sprintf("k=%d;comp=%s;max=%d;info=%s", kk, tf(r.chance(1, 2)), pick(r, []int{100000, 1500}), tf(r.chance(1, 2)))
			a, b, c, d, e := next(), next(), next(), next(), next()
			emit("conc", cfg, fmt.Sprintf("W%d,W%d+%d+%d+%d,C", a, b, c, d, e), fmt.Sprintf("badcl:%d", pick(r, []int{c, d})))
			stat("conc-scenario", "batch-with-refused-record")
		case 10: // a name generator that hands out the same name every time: the second file cannot be created; every call returns
			kk := r.rangeInt(2, 3)
			cfg = fmt.Sprintf("k=%d;comp=%s;max=%d;info=%s;fixedname=t", kk, tf(r.chance(1, 2)), pick(r, []int{0, 600}), tf(r.chance(1, 2)))
			var progs, steer []string
			for c := 0; c < kk; c++ {
				t, t2 := next(), next()
				progs = append(progs, fmt.Sprintf("W%d,W%d", t, t2))
				steer = append(steer, fmt.Sprintf("sleep:%d:3000", t))
			}
			progs = append(progs, pick(r, []string{"S20000,C", "S20000,R,C", "S5000,R,S20000,C"}))
			emit("conc", cfg, strings.Join(progs, "/"), strings.Join(steer, ";"))
			stat("conc-scenario", "name-collision")
		case 9: // the output directory disappears: every worker's final close/rename fails; Close, Rotate and later Writes still return
			kk := r.rangeInt(2, 3)
			cfg = fmt.Sprintf("k=%d;comp=%s;max=%d;info=%s", kk, tf(r.chance(1, 2)), pick(r, []int{0, 1500}), tf(r.chance(1, 2)))
			var progs, steer []string
			for c := 0; c < kk; c++ {
				t := next()
				progs = append(progs, fmt.Sprintf("W%d", t))
				steer = append(steer, fmt.Sprintf("sleep:%d:3000", t))
			}
			last := pick(r, []string{"S30000,C", "S30000,R,C", "S30000,C,W" + strconv.Itoa(next())})
			progs = append(progs, last)
			steer = append(steer, fmt.Sprintf("rmdir:after:%d.0:15", kk))
			emit("conc", cfg, strings.Join(progs, "/"), strings.Join(steer, ";"))
			stat("conc-scenario", "close-fails")
		case 0: // Close while a Write is being written
			a := next()
			emit("conc", cfg, fmt.Sprintf("W%d/S2000,C", a), fmt.Sprintf("gate:%d;release:%d:after:1.1:20", a, a))
			stat("conc-scenario", "close-during-write")
		case 1: // a job accepted by the dispatcher while every worker is busy, then Close
			var progs, steer []string
			var first []int
			for w := 0; w < k; w++ {
				a := next()
				first = append(first, a)
				progs = append(progs, fmt.Sprintf("W%d", a))
				steer = append(steer, fmt.Sprintf("gate:%d", a))
			}
			b := next()
			progs = append(progs, fmt.Sprintf("S3000,W%d", b), "S8000,C")
			for _, a := range first {
				steer = append(steer, fmt.Sprintf("release:%d:after:%d.1:30", a, k+1))
			}
			emit("conc", cfg, strings.Join(progs, "/"), strings.Join(steer, ";"))
			stat("conc-scenario", "parked-job-then-close")
		case 2: // Write racing Close
			a, b := next(), next()
			emit("conc", cfg, fmt.Sprintf("W%d/C/S%d,W%d", a, r.intn(300), b), fmt.Sprintf("sleep:%d:%d", a, r.intn(500)))
			stat("conc-scenario", "write-races-close")
		case 3: // double and concurrent Close, Write afterwards
			a, b := next(), next()
			emit("conc", cfg, fmt.Sprintf("W%d,C,C,W%d/S%d,C", a, b, r.intn(400)), "-")
			stat("conc-scenario", "double-close")
		case 6: // two Close calls while a worker is still writing: the second must wait for the workers too
			a := next()
			emit("conc", cfg, fmt.Sprintf("W%d/S2000,C/S6000,C", a), fmt.Sprintf("mid:%d;release:%d:after:2.1:25", a, a))
			stat("conc-scenario", "two-closes-during-write")
		case 4: // Rotate while a record is half written
			a, b := next(), next()
			emit("conc", cfg, fmt.Sprintf("W%d,W%d/S2000,R", a, b), fmt.Sprintf("mid:%d;release:%d:after:1.1:20", a, a))
			stat("conc-scenario", "rotate-during-write")
		case 5: // a marshaler that hands back a continuation record
			a, b := next(), next()
			emit("conc", cfg, fmt.Sprintf("W%d,W%d,C", a, b), fmt.Sprintf("cont:%d", a))
			stat("conc-scenario", "continuation")
		case 7: // a record the marshaler cannot write: the error comes back in the response, every later call still returns
			a, b, c := next(), next(), next()
			if r.chance(1, 2) {
				emit("conc", cfg, fmt.Sprintf("W%d,W%d,R,W%d,C", a, b, c), fmt.Sprintf("fail:%d", a))
			} else {
				emit("conc", cfg, fmt.Sprintf("W%d+%d/S500,W%d,R/S3000,C", a, b, c), fmt.Sprintf("fail:%d", b))
			}
			stat("conc-scenario", "marshal-error")
		default: // random programs with random delays in the marshaler
			m := r.rangeInt(2, 4)
			var progs, steer []string
			for c := 0; c < m; c++ {
				var ops []string
				for o := r.rangeInt(1, 5); o > 0; o-- {
					switch r.intn(8) {
					case 0:
						ops = append(ops, "R")
					case 1:
						if r.chance(1, 2) {
							ops = append(ops, "C")
						}
					case 2:
						ops = append(ops, fmt.Sprintf("S%d", r.intn(800)))
					default:
						var ts []string
						for b := r.rangeInt(1, 3); b > 0; b-- {
							t := next()
							ts = append(ts, strconv.Itoa(t))
							if r.chance(1, 2) {
								steer = append(steer, fmt.Sprintf("sleep:%d:%d", t, r.intn(600)))
							}
						}
						ops = append(ops, "W"+strings.Join(ts, "+"))
					}
				}
				if len(ops) == 0 {
					ops = []string{"S10"}
				}
				progs = append(progs, strings.Join(ops, ","))
			}
			st := "-"
			if len(steer) > 0 {
				st = strings.Join(steer, ";")
			}
			emit("conc", cfg, strings.Join(progs, "/"), st)
			stat("conc-scenario", "random")
		}
	}
}

func init() {
	kinds["conc"] = kConc
	gens["C09"] = genConc
	gens["C10"] = genConc
}
