package main

import (
	"bufio"
	"errors"
	"fmt"
	"io"
	"os"
	"path/filepath"
	"strconv"
	"strings"

	gowarc "github.com/nlnwa/gowarc/v2"
)

// ---- C15: temp files and descriptors after every API step

// countFds counts this process's descriptors that point below dir (temp files, also deleted ones, and input files).
func countFds(dir string) int {
	ents, err := os.ReadDir("/proc/self/fd")
	if err != nil {
		return -1
	}
	n := 0
	for _, e := range ents {
		if t, err := os.Readlink("/proc/self/fd/" + e.Name()); err == nil && strings.HasPrefix(t, dir) {
			n++
		}
	}
	return n
}

type failWriter struct {
	left int
}

func (f *failWriter) Write(p []byte) (int, error) {
	if f.left < 0 {
		return len(p), nil
	}
	if len(p) > f.left {
		n := f.left
		f.left = 0
		return n, errors.New("verif: injected write fault")
	}
	f.left -= len(p)
	return len(p), nil
}

type resHandle struct {
	dir       string // the private temp directory of the buffer this handle's Close must release
	dead      *bool // shared between a builder and the records built from it: their buffer has been closed
	closer    io.Closer
	rec       gowarc.WarcRecord
	bld       gowarc.WarcRecordBuilder
	hasCloser bool // a record from Unmarshal or Build (ToRevisitRecord's has no closer)
	built     *bool // a record has been built from this builder (it shares the builder's buffer)
	closedOnce bool // Close has been called on this handle before
}

func recordBytes(kind string, n int) []byte {
	body := strings.Repeat("abcdefghijklmnopqrstuvwxyz012345", n/32+1)[:n]
	switch kind {
	case "http":
		block := "HTTP/1.1 200 OK\r\nContent-Type: text/plain\r\n\r\n" + body
		return []byte(fmt.Sprintf("WARC/1.1\r\nWARC-Type: response\r\nWARC-Record-ID: <urn:uuid:00000000-0000-4000-8000-000000000001>\r\nWARC-Date: 2020-01-01T00:00:00Z\r\nWARC-Target-URI: http://example.com/\r\nContent-Type: application/http;msgtype=response\r\nContent-Length: %d\r\n\r\n%s\r\n\r\n", len(block), block))
	case "wf":
		block := "k: " + body + "\r\n"
		return []byte(fmt.Sprintf("WARC/1.1\r\nWARC-Type: metadata\r\nWARC-Record-ID: <urn:uuid:00000000-0000-4000-8000-000000000002>\r\nWARC-Date: 2020-01-01T00:00:00Z\r\nWARC-Target-URI: http://example.com/\r\nContent-Type: application/warc-fields\r\nContent-Length: %d\r\n\r\n%s\r\n\r\n", len(block), block))
	case "revisit":
		block := "HTTP/1.1 200 OK\r\nContent-Type: text/plain\r\n\r\n"
		return []byte(fmt.Sprintf("WARC/1.1\r\nWARC-Type: revisit\r\nWARC-Record-ID: <urn:uuid:00000000-0000-4000-8000-000000000003>\r\nWARC-Date: 2020-01-01T00:00:00Z\r\nWARC-Target-URI: http://example.com/\r\nWARC-Profile: http://netpreserve.org/warc/1.1/revisit/identical-payload-digest\r\nWARC-Refers-To: <urn:uuid:00000000-0000-4000-8000-000000000001>\r\nWARC-Payload-Digest: sha1:AAAAAAAAAAAAAAAAAAAAAAAAAAAAAAAA\r\nContent-Type: application/http;msgtype=response\r\nContent-Length: %d\r\n\r\n%s\r\n\r\n", len(block), block))
	case "badtype":
		return []byte(fmt.Sprintf("WARC/1.1\r\nWARC-Type: resource\r\nWARC-Date: not-a-date\r\nContent-Length: %d\r\n\r\n%s\r\n\r\n", len(body), body))
	}
	return []byte(fmt.Sprintf("WARC/1.1\r\nWARC-Type: resource\r\nWARC-Record-ID: <urn:uuid:00000000-0000-4000-8000-000000000004>\r\nWARC-Date: 2020-01-01T00:00:00Z\r\nWARC-Target-URI: http://example.com/\r\nContent-Type: text/plain\r\nContent-Length: %d\r\n\r\n%s\r\n\r\n", len(body), body))
}

// res <ops>   (see genRes for the op language)
func kRes(args []string) (string, string) {
	tmp, err := os.MkdirTemp("", "vres")
	if err != nil {
		return "infra-tmp", "ok"
	}
	defer os.RemoveAll(tmp)
	spill := filepath.Join(tmp, "spill")
	inputs := filepath.Join(tmp, "in")
	_ = os.Mkdir(spill, 0o755)
	_ = os.Mkdir(inputs, 0o755)
	warcFile := filepath.Join(inputs, "a.warc")
	_ = os.WriteFile(warcFile, append(recordBytes("resource", 10), recordBytes("http", 20)...), 0o644)

	var handles []*resHandle
	var outs []string
	var model []string
	baseFds := countFds(tmp)
	countFiles := func(d string) int {
		n := 0
		_ = filepath.Walk(d, func(_ string, fi os.FileInfo, err error) error {
			if err == nil && !fi.IsDir() {
				n++
			}
			return nil
		})
		return n
	}
	measure := func() string {
		return fmt.Sprintf("%d/%d", countFiles(spill), countFds(tmp)-baseFds)
	}
	leak := ""
	nsub := 0
	subdir := func() string {
		nsub++
		d := filepath.Join(spill, fmt.Sprintf("b%d", nsub))
		_ = os.Mkdir(d, 0o755)
		return d
	}
	get := func(s string) *resHandle {
		i, err := strconv.Atoi(s)
		if err != nil || i < 0 || i >= len(handles) {
			return nil
		}
		return handles[i]
	}
	recOpts := func(mem int, pol int, d string) []gowarc.WarcRecordOption {
		return gowarc.VerifOptions(pol, pol, pol, pol, gowarc.WithBufferTmpDir(d), gowarc.WithBufferMaxMemBytes(int64(mem)))
	}
	for _, op := range strings.Split(args[0], ";") {
		f := strings.Split(op, ":")
		m := "nop"
		switch f[0] {
		case "nb": // nb:<mem>:<pol>:<kind>
			mem, _ := strconv.Atoi(f[1])
			pol, _ := strconv.Atoi(f[2])
			rt := gowarc.Resource
			ct := "text/plain"
			switch f[3] {
			case "http":
				rt, ct = gowarc.Response, "application/http;msgtype=response"
			case "wf":
				rt, ct = gowarc.Metadata, "application/warc-fields"
			}
			bdir := subdir()
			rb := gowarc.NewRecordBuilder(rt, recOpts(mem, pol, bdir)...)
			rb.AddWarcHeader("Content-Type", ct)
			rb.AddWarcHeader("WARC-Date", "2020-01-01T00:00:00Z")
			if f[3] != "bad" {
				rb.AddWarcHeader("WARC-Target-URI", "http://example.com/")
			} else {
				rb.AddWarcHeader("WARC-Target-URI", "::not a uri::")
				rb.AddWarcHeader("WARC-Block-Digest", "sha1:AAAAAAAAAAAAAAAAAAAAAAAAAAAAAAAA")
			}
			if f[3] == "http" {
				_, _ = rb.Write([]byte("HTTP/1.1 200 OK\r\nContent-Type: text/plain\r\n\r\n"))
				m = fmt.Sprintf("nb:%d:%d", mem, len("HTTP/1.1 200 OK\r\nContent-Type: text/plain\r\n\r\n"))
			} else {
				m = fmt.Sprintf("nb:%d:0", mem)
			}
			handles = append(handles, &resHandle{closer: rb, bld: rb, dead: new(bool), dir: bdir, built: new(bool)})
		case "w", "rf": // w:<h>:<n>
			h := get(f[1])
			n, _ := strconv.Atoi(f[2])
			if h == nil || h.bld == nil {
				break
			}
			// also into a builder that has been closed, or whose record has been closed: diskbuffer.Close only deals with the file
			// part, a buffer that has not spilled goes on; what it spills afterwards is removed by the next Close THAT TAKES EFFECT:
			// any Close on the builder, the first Close on a record (model: RBuf.shut, RHandle.once)
			data := []byte(strings.Repeat("x", n))
			if f[0] == "w" {
				_, _ = h.bld.Write(data)
			} else {
				_, _ = h.bld.ReadFrom(strings.NewReader(string(data)))
			}
			m = fmt.Sprintf("w:%s:%d", f[1], n)
		case "b": // b:<h>
			h := get(f[1])
			if h == nil || h.bld == nil || *h.dead {
				break
			}
			rec, _, berr := h.bld.Build()
			if rec != nil {
				if h.built != nil {
					*h.built = true
				}
				hd := &resHandle{closer: rec, rec: rec, hasCloser: true, dead: h.dead, dir: h.dir}
				if berr != nil {
					hd.rec = nil
				}
				handles = append(handles, hd)
				m = "b:" + f[1]
			}
		case "um": // um:<mem>:<kind>:<n>:<cut>:<pol>   cut = -1: whole; else the stream fails after that many bytes
			mem, _ := strconv.Atoi(f[1])
			n, _ := strconv.Atoi(f[3])
			cut, _ := strconv.Atoi(f[4])
			pol, _ := strconv.Atoi(f[5])
			data := recordBytes(f[2], n)
			if len(f) > 6 && f[6] != "" {
				// the record as one gzip member; "zc": with a wrong stored checksum, which only surfaces when the member is drained
				data = gzMember(data)
				if f[6] == "zc" {
					data[len(data)-8] ^= 0x55
				}
			}
			s := &gowarc.VerifStream{Data: data}
			if cut >= 0 && cut < len(data) {
				s = &gowarc.VerifStream{Data: data[:cut], Fault: true}
			}
			udir := subdir()
			rec, _, _, uerr := gowarc.NewUnmarshaler(recOpts(mem, pol, udir)...).Unmarshal(bufio.NewReaderSize(s, 32))
			if rec == nil {
				m = "umn"
				break
			}
			hd := &resHandle{closer: rec, rec: rec, hasCloser: true, dir: udir}
			if uerr != nil {
				// a record handed back together with an error must be closed, but is not used any further
				hd.rec = nil
			}
			handles = append(handles, hd)
			m = "um0"
			if b := rec.Block(); b != nil {
				kind := gowarc.VerifBlockKind(b)
				if (kind == "generic" || strings.HasPrefix(kind, "http")) && b.IsCached() {
					cached := b.Size()
					if ph, ok := b.(gowarc.ProtocolHeaderBlock); ok {
						cached -= int64(len(ph.ProtocolHeaderBytes()))
					}
					m = fmt.Sprintf("um:%d:%d", mem, cached)
				}
			}
		case "rev": // rev:<h>
			h := get(f[1])
			if h == nil || h.rec == nil {
				break
			}
			ref, err := h.rec.CreateRevisitRef("http://netpreserve.org/warc/1.1/revisit/server-not-modified")
			if err != nil {
				break
			}
			rv, err := h.rec.ToRevisitRecord(ref)
			if err != nil || rv == nil {
				break
			}
			handles = append(handles, &resHandle{closer: rv, rec: rv})
			m = "dv"
		case "mg": // mg:<hrev>:<horig>
			hr, ho := get(f[1]), get(f[2])
			if hr == nil || ho == nil || hr.rec == nil || ho.rec == nil || hr == ho {
				break
			}
			merged, _ := hr.rec.Merge(ho.rec)
			if merged != nil {
				m = fmt.Sprintf("mg:%s:%s:%s", f[1], f[2], tf(hr.hasCloser))
			}
		case "ms": // ms:<h>:<failAt>
			h := get(f[1])
			if h == nil || h.rec == nil || h.rec.Block() == nil || (h.dead != nil && *h.dead) {
				break
			}
			at, _ := strconv.Atoi(f[2])
			_, _, _ = gowarc.NewMarshaler().Marshal(&failWriter{left: at}, h.rec, 0)
		case "rd": // rd:<mode>
			var rd *gowarc.WarcFileReader
			var err error
			switch f[1] {
			case "ok":
				rd, err = gowarc.NewWarcFileReader(warcFile, 0)
			case "mid":
				rd, err = gowarc.NewWarcFileReader(warcFile, 5)
			case "neg":
				rd, err = gowarc.NewWarcFileReader(warcFile, -1)
			case "dir":
				rd, err = gowarc.NewWarcFileReader(inputs, 0)
			default:
				rd, err = gowarc.NewWarcFileReader(filepath.Join(inputs, "missing.warc"), 0)
			}
			if err == nil && rd != nil {
				if f[1] == "ok" && len(f) > 2 && f[2] == "next" {
					if rec, _, _, e := rd.Next(); e == nil && rec != nil {
						_ = rec.Close()
					}
				}
				handles = append(handles, &resHandle{closer: rd})
				m = "rd"
			}
		case "c": // c:<h>
			h := get(f[1])
			if h == nil {
				break
			}
			_ = h.closer.Close()
			if h.dead != nil {
				*h.dead = true
			}
			// Close on a builder, or the FIRST Close on a record, releases the temp file created on its behalf, whoever else
			// still refers to it (a record's Close takes effect once: record.go drops the closer)
			effective := h.rec == nil && h.bld != nil || !h.closedOnce
			h.closedOnce = true
			if h.dir != "" && leak == "" && effective {
				if n := countFiles(h.dir); n != 0 {
					leak = fmt.Sprintf("VIOL c15-leak after_Close_on_handle_%s_%d_temp_file(s)_remain_ops=%s", f[1], n, sanitize(args[0]))
				}
			}
			m = "c:" + f[1]
		}
		model = append(model, m)
		outs = append(outs, measure())
	}
	// close everything that was returned, in order
	for _, h := range handles {
		_ = h.closer.Close()
	}
	final := measure()
	outs = append(outs, final)
	oracle := "ok"
	if leak != "" {
		oracle = leak
	} else if final != "0/0" {
		oracle = "VIOL c15-leak after_closing_everything_files/fds=" + final + "_ops=" + sanitize(args[0])
	}
	impl := strings.Join(outs, ";")
	if len(args) > 1 {
		return impl, oracle
	}
	return impl + " @@ " + strings.Join(model, ";"), oracle
}

func genRes(r *rng, n int, tier string, emit func(string, ...string)) {
	for i := 0; i < n; i++ {
		var ops []string
		nh := 0
		builders := []int{}
		records := []int{}
		nops := r.rangeInt(2, 12)
		for k := 0; k < nops; k++ {
			mem := pick(r, []int{1, 8, 47, 64, 100, 1000})
			sizeAround := func() int {
				switch r.intn(4) {
				case 0:
					return mem
				case 1:
					return mem + pick(r, []int{-1, 1})
				case 2:
					return r.intn(3 * mem)
				}
				return r.intn(40)
			}
			choice := r.intn(10)
			switch {
			case choice < 2 || nh == 0 && choice < 5:
				ops = append(ops, fmt.Sprintf("nb:%d:%d:%s", mem, r.intn(3), pick(r, []string{"res", "res", "http", "wf", "bad"})))
				builders = append(builders, nh)
				nh++
				stat("res-op", "newBuilder")
			case choice < 4 && len(builders) > 0:
				sz := r.intn(200)
				if r.chance(1, 2) {
					sz = pick(r, []int{1, 8, 47, 64, 100}) + pick(r, []int{-1, 0, 0, 1})
					if sz < 0 {
						sz = 0
					}
				}
				ops = append(ops, fmt.Sprintf("%s:%d:%d", pick(r, []string{"w", "w", "rf"}), pick(r, builders), sz))
				stat("res-op", "write")
			case choice < 5 && len(builders) > 0:
				ops = append(ops, fmt.Sprintf("b:%d", pick(r, builders)))
				records = append(records, nh) // assumed returned; if not, later ops on it are no-ops on both sides
				nh++
				stat("res-op", "build")
			case choice < 7:
				kind := pick(r, []string{"resource", "resource", "http", "http", "wf", "revisit", "badtype"})
				sz := sizeAround()
				if sz < 0 {
					sz = 0
				}
				cut := -1
				gzv := ""
				if r.chance(1, 3) {
					gzv = pick(r, []string{"z", "z", "zc"})
				}
				total := len(recordBytes(kind, sz))
				if gzv != "" {
					total = len(gzMember(recordBytes(kind, sz)))
				}
				if r.chance(1, 2) {
					cut = r.intn(total + 1)
					if gzv != "" && r.chance(1, 2) {
						// the member's trailer (checksum and length) is read last, when the record has been built already
						cut = total - 1 - r.intn(9)
						if cut < 0 {
							cut = 0
						}
					}
				}
				ops = append(ops, fmt.Sprintf("um:%d:%s:%d:%d:%d:%s", mem, kind, sz, cut, r.intn(3), gzv))
				stat("res-op", "unmarshal")
				stat("res-um", fmt.Sprintf("%s,cut=%s,gz=%s", kind, tf(cut >= 0), gzv))
				// whether a record comes back is decided by the implementation; handle numbering follows what was returned
				ops[len(ops)-1] += ""
				records = append(records, nh)
				nh++
			case choice < 8 && len(records) > 0:
				if r.chance(1, 2) {
					ops = append(ops, fmt.Sprintf("rev:%d", pick(r, records)))
					records = append(records, nh)
					nh++
					stat("res-op", "revisit")
				} else if len(records) > 1 {
					ops = append(ops, fmt.Sprintf("mg:%d:%d", pick(r, records), pick(r, records)))
					stat("res-op", "merge")
				}
			case choice < 9:
				mode := pick(r, []string{"ok", "ok", "mid", "neg", "dir", "missing"})
				if mode == "ok" && r.chance(1, 2) {
					mode = "ok:next"
				}
				ops = append(ops, "rd:"+mode)
				nh++
				stat("res-op", "reader-"+mode)
			default:
				if nh > 0 {
					ops = append(ops, fmt.Sprintf("c:%d", r.intn(nh)))
					stat("res-op", "close")
				}
				if len(records) > 0 && r.chance(1, 3) {
					ops = append(ops, fmt.Sprintf("ms:%d:%d", pick(r, records), pick(r, []int{-1, 0, 10, 200})))
					stat("res-op", "marshal")
				}
			}
		}
		if len(ops) == 0 {
			continue
		}
		emit("res", strings.Join(ops, ";"))
	}
}

func init() {
	kinds["res"] = kRes
	gens["C15"] = genRes
}
