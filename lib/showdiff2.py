#!/usr/bin/python3
"""showdiff2.py <rundir> [max] [filter]: mismatching cases, space-separated token diff"""
import sys
d=sys.argv[1]; mx=int(sys.argv[2]) if len(sys.argv)>2 else 10
flt=sys.argv[3] if len(sys.argv)>3 else None
def rd(p):
    r={}
    for l in open(p):
        l=l.rstrip('\n'); i=l.find(' ')
        r[l[:i] if i>=0 else l]=l[i+1:] if i>=0 else ''
    return r
c=rd(d+'/cases.txt'); a=rd(d+'/impl.txt'); m=rd(d+'/model.txt'); o=rd(d+'/oracle.txt')
n=0
from collections import Counter
cnt=Counter()
for k in c:
    if a.get(k)!=m.get(k):
        x=a[k].split(' '); y=m.get(k,'').split(' ')
        diff=[(p,q) for p,q in zip(x,y) if p!=q]
        key=' '.join(p.split('=')[0] for p,q in diff[:2]) if diff else 'len'
        if x[:1]!=y[:1] or (x[0]=='err' and x[1:2]!=y[1:2]): key='outcome %s/%s'%(' '.join(x[:2]) if x[0]=='err' else x[0],' '.join(y[:2]) if y[0]=='err' else y[0])
        cnt[key]+=1
        if flt and flt not in key: continue
        n+=1
        if n>mx: continue
        print('---',k,key)
        print('  case ',c[k][:700])
        for p,q in diff[:3]:
            print('   impl ',p[:400]); print('   model',q[:400])
        print('   oracle',o.get(k,'')[:200])
for k,v in cnt.most_common(40): print(v,k)
