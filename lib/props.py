"""Per-property configuration of /verif/check."""

COMMON_NOTE = "Trusted: Lean kernel, correspondence harness and its canonicalisation (errors reduced to classes). Modelled by hand: unmarshaler.go, warcfieldsparser.go, headerfielddef.go, record.go (parseBlock, ValidateDigest), block kinds as far as bytes and digests go, recordbuilder.go, marshaler.go, digest.go. External code as parameters: hash functions (abstract H in theorems; executable MD5/SHA-1/SHA-256/SHA-512 in the driver, validated against crypto/*), time.Parse, net.ParseIP, whatwg-url, net/http head parsing (verdict tables supplied with each case), bufio.Reader by contract, the gzip codec (per member: decompressed bytes, whether the member ends in an error, compressed length - measured on the implementation and supplied with each case)."

ALLOWED_AXIOMS = {"propext", "Classical.choice", "Quot.sound"}

PROPS = {
    "C18": dict(
        title="WarcFields is an ordered, case-insensitive multimap",
        lean_modules=["Gowarc.Props.C18"],
        n_quick=4000, n_thorough=60000,
        required_theorems=["C18_refines", "C18_set_spec", "C18_sort_stable", "canon_idem", "C18_gen_names_nodup"],
        trivial_outcomes=[],
        model_assumptions=[
            "time formatting of AddTime/SetTime is done by Go's time package and passed to the model as the formatted value",
            "strings.ToLower is modelled exactly only as far as equality with an ASCII key is concerned (ASCII, U+212A, U+0130)",
        ],
        design_ref="DESIGN.md section 5, C18",
        level_text="Refinement theorem C18_refines (every operation sequence, every name spelling) from the model of warcfields.go to a "
                   "reference ordered multimap, plus Set/Delete/Sort/Write characterisations and canon idempotence, all kernel-checked; "
                   "the model is tied to the code by step-wise differential correspondence on seeded op sequences (exhaustive for length <= 4 in the thorough tier) "
                   "and by the regenerated field table",
        level_note="Trusted: Lean kernel; go/ast translator for the field table; correspondence harness. Modelled by hand: warcfields.go, normalizeName, "
                   "http.CanonicalHeaderKey, strings.ToLower (as far as comparison with ASCII keys goes), strconv.ParseInt base 10. Time formatting is outside the model.",
    ),
    "C14": dict(
        title="The spill buffer behaves exactly like an in-memory buffer",
        lean_modules=["Gowarc.Props.C14", "Gowarc.Props.C14slice"],
        audit_namespaces=["Gowarc.Props.C14"],
        n_quick=6000, n_thorough=40000,
        required_theorems=["C14_refines", "C14_step", "C14_no_panic", "C14_slice_read", "C14_slice_line", "C14_eof_sound"],
        model_assumptions=[
            "the OS file API (WriteAt/ReadAt/CreateTemp on the temp file) behaves as an append-only byte array",
            "WithMaxTotalBytes, WriteTo and read-only mode are outside the property and outside the model",
            "sources passed to ReadFrom follow the io.Reader contract (never (0, nil) forever)",
            "slice views: read, peek, size and line reads are proved (C14_slice_read, C14_slice_line); the operation-sequence theorem C14_refines is over the buffer itself",
        ],
        design_ref="DESIGN.md section 5, C14",
        level_text="Refinement theorem C14_refines: for every threshold >= 1 and every sequence of Write/ReadFrom/Read/Peek/ReadBytes/Seek(0)/Size "
                   "the model of internal/diskbuffer returns exactly what a one-list byte buffer returns (bytes, counts, end-of-data), with invariant "
                   "'memory <= threshold and temp file exists iff memory is full'; slice read/peek/size theorems; kernel-checked. Model tied to the code by "
                   "step-wise correspondence on seeded sequences (exhaustive small scope in the thorough tier) including temp-file existence after every step",
        level_note="Trusted: Lean kernel, correspondence harness. Modelled by hand: diskbuffer.go, membuffer.go, filebuffer.go, slice.go. "
                   "Assumed: OS file semantics, well-behaved io.Reader sources.",
    ),
    "C19": dict(
        title="Header text is a fixpoint after one parse (no field smuggling)",
        lean_modules=["Gowarc.Props.C19", "Gowarc.Props.C19pos", "Gowarc.Props.C19write"],
        audit_namespaces=["Gowarc.Props.C19"],
        n_quick=3000, n_thorough=40000,
        required_theorems=["decode_id", "C19_fixpoint_false", "C19_api_false", "C19_clean_roundtrip", "parseLine_clean", "readLine_clean", "parseLoop_field", "cleanField_of_cleanB", "C19_write_all_or_error", "C01_marshal_all_or_error", "writePieces_ok", "writePieces_err", "writePieces_fails"],
        model_assumptions=[
            "bufio.Reader is modelled by its contract (ReadBytes, Peek); the implementation's independence of the underlying chunking is checked by running every case under four read styles",
            "mime.WordDecoder.DecodeHeader, base64 decoding and strings.EqualFold are transcribed from the Go standard library (GOROOT of the pinned toolchain)",
        ],
        design_ref="DESIGN.md section 5, C19",
        level_text="Executable model of the header tokenizer incl. the RFC 2047 decoder, tied by correspondence on seeded header sections under the three syntax policies and a reader fault; "
                   "theorems: the round trip for clean fields (C19_clean_roundtrip: for every non-empty list of fields with canonical names, values without edge white space or LF and no '=?' in the line, every policy and every continuation, parse(write fs) = fs with no findings), decoder is the identity on lines without '=?', and kernel-checked witnesses that the full statement is false exactly through encoded-words and edge white space, both listed findings; "
                   "the fixpoint oracle runs on the implementation for every generated section Session 3: writer-side model (a writer that fails once at any position): C19_write_all_or_error, C01_marshal_all_or_error, tied by kind wfault",
        level_note="Trusted: Lean kernel, correspondence harness. The property as stated is false on the pinned tree (two open findings); what holds is proved: the fixpoint for clean fields, unbounded.",
    ),
    "C01": dict(
        title="Write-then-read round trip is lossless",
        lean_modules=["Gowarc.Props.C01", "Gowarc.Props.C01comp", "Gowarc.Props.C01acc", "Gowarc.Props.C01gz"],
        audit_namespaces=["Gowarc.Props.C01"],
        n_quick=3000, n_thorough=40000,
        required_theorems=["C01_framing", "C01_version_line", "C01_roundtrip", "unmarshal_serialized", "unmarshalTail_rest", "C01_accepts", "accept_core", "readsBack_gzip", "unmarshal_plain_start"],
        model_assumptions=["C01_roundtrip is stated for clean header fields (canonical names, values without edge white space or LF, no '=?' in the line: everything else is exactly the two listed findings C19-F17 / C19-F15), a truthful Content-Length, and the repair options off (with repairs on the reader may rewrite fields by design: C03/C07)",
                           "C01_accepts (validation side): a record that build returned under the strict policy is returned by unmarshal(marshal r ++ tail) under ANY reader policy/options with no error and no finding, same version, type, ordered fields and block, leaving tail; hypotheses: clean fields, caller supplied no digest fields and add-missing-digest on (caller-supplied digests are C03's subject), builder type = WARC-Type, reader skip-parse-block = builder's, unknown type => reader's unknown-type axis at ignore, reader default algorithm supported, hash output has the algorithm's size, decimal Content-Length re-parses to the block length",
                           "gzip: readsBack_gzip carries C01_accepts over to a record in its own gzip member under the codec law GzLaw (for the member g that compressing m produced, followed by anything, the decoder yields m, ends cleanly and has consumed exactly g) - the law is the recorded assumption about klauspost/gzip, validated per case by the harness; the file writer/reader path: C04_offset_reads_back (Props/C04reads.lean)"],
        design_ref="DESIGN.md section 5, C01",
        level_text="Executable model of build -> marshal -> unmarshal compared with the implementation on seeded records x builder options x parser options (incl. strict) x trailing bytes; "
                   "round-trip oracle on the implementation (same version, type, ordered fields, block, no finding, identical re-serialisation, tail untouched); theorems: "
                   "C01_roundtrip (composition over the full Unmarshal model: for every non-empty list of clean fields, any block bytes of the declared length - delimiters, gzip magic, nested records included - any tail, both versions, every policy with repairs off: a record returned for marshal(ver, fs, B) ++ tail has exactly the fields fs and the block B, at offset 0, leaving tail), "
                   "unmarshal_serialized, framing lemmas; C01_accepts (a record the strict builder accepted comes back from Unmarshal under every reader policy with no error, no finding, identical version/type/fields/block, stream left at the tail - composition of C17_strict, the regenerated field table, C03_format_reparse, parser monotonicity and C19_clean_roundtrip)",
        level_note=COMMON_NOTE,
        known_from=["C19"],
    ),
    "C02": dict(
        title="Built records carry truthful Content-Length, digests and record ids",
        lean_modules=["Gowarc.Props.C02", "Gowarc.Props.C02e2e", "Gowarc.Props.C02len", "Gowarc.Props.C02dig", "Gowarc.Props.C02id"],
        audit_namespaces=["Gowarc.Props.C02"],
        n_quick=3000, n_thorough=40000,
        required_theorems=["C02_added_digest", "C02_http_split", "C02_default_digest", "C02_validate_truthful", "C02_build_truthful", "checkDigest_post", "parseBlock_keepsCL",
                           "C02_validate_payload", "C02_http_payload", "checkDigest_has_other",
                           "C02_length_every_policy", "parseBlock_length", "validateDigest_length", "checkDigest_get_other",
                           "C02_digests_every_policy", "validateDigest_adds", "parseBlock_digests", "parseBlock_onlyCL", "newDigest_default_empty",
                           "C02_id_shape", "C02_id_injective", "C02_pool_slices", "hex_pair_inj", "hexHi_lower", "hexLo_lower", "stamp_version_digit", "stamp_variant_digit"],
        model_assumptions=["record ids: the build kind uses a fixed id function (the id is an input of the model); the DEFAULT generator is modelled in Model/RecordId.lean with the random source as input; that crypto/rand does not repeat is an assumption, that the generator hands no draw to two builders is judged on the implementation (kind uuidconc)",
                           "C02_digests_every_policy: when the caller declared neither digest field and add-missing-digest is on, under EVERY policy setting (spec checking off included) and every repair option the returned record's WARC-Block-Digest is name:encode(H alg (exactly the serialized block bytes)) and, for blocks with a payload on records that are neither revisits nor segmented, WARC-Payload-Digest is the same rendering of exactly the payload bytes, in the configured default algorithm and encoding",
                           "C02_length_every_policy: the Content-Length the builder adds itself equals the number of block bytes that get serialized under EVERY policy setting (spec checking off included), every repair option, every block kind and content (shorter than 2^63 - 2 bytes): through the HTTP-terminator repair (+2), the warc-fields block repair (adjusted in Build, fix 06457a1) and ValidateDigest",
                           "C02_id_shape / C02_id_injective (Props/C02id.lean over Model/RecordId.lean, the default id generator uuid.New().URN() through SetId): for EVERY 16 bytes of the random source the stored WARC-Record-ID is <urn:uuid:8-4-4-4-12> in lower-case hex with version digit 4 and variant digit 8/9/a/b, and two ids are equal only if the stamped draws are equal (122 bits); tied by kind `uuid` (google/uuid random source replaced by the case bytes, default builder; 256-byte cases fill the random pool gowarc enables exactly once and sixteen consecutive builders are compared with the sixteen slices, C02_pool_slices: the slices are 16 bytes each and partition the refill); that crypto/rand does not repeat and that no two builders are handed the same draw is judged on the implementation by kind `uuidconc` (concurrent + sequential default builders, no id twice)",
                           "C02_validate_payload: after ValidateDigest (spec warn/fail, default repairs) the WARC-Payload-Digest field is the rendering of the digest of exactly the payload bytes (HTTP: the bytes after the protocol header, C02_http_payload) or a declared value that decodes to it", "see level_note"],
        design_ref="DESIGN.md section 5, C02",
        level_text="Model of Build compared with the implementation on seeded builder inputs x 81 policy combinations x repair flags x algorithms x encodings; the oracle recomputes Content-Length and digests "
                   "from the serialized bytes with crypto/* and re-runs every case with four other feeding manners and thresholds; theorems: C02_build_truthful (every record Build returns without error, under spec warn/fail with the default repair options, has Content-Length = decimal length of its block and a truthful WARC-Block-Digest, for every header, content, type and oracle verdict), C02_validate_truthful (the same postcondition for ValidateDigest on any block), the added digest is name:encode(H(alg, exactly the block / payload bytes)), "
                   "head ++ payload = content, default algorithm/encoding, Set/Get law Session 3: C02_length_every_policy and C02_digests_every_policy (builder-added Content-Length and digests are those of exactly the serialized block and payload under EVERY policy), C02_validate_payload",
        level_note=COMMON_NOTE,
    ),
    "C03": dict(
        title="Length and digest verification is sound and complete",
        lean_modules=["Gowarc.Props.C03", "Gowarc.Props.C03enc", "Gowarc.Props.C03detect", "Gowarc.Props.C03case"],
        audit_namespaces=["Gowarc.Props.C03"],
        n_quick=3000, n_thorough=40000,
        required_theorems=["hex_roundtrip", "validate_iff", "checkDigest_complete", "checkDigest_sound_warn", "checkDigest_sound_fail", "checkDigest_adds",
                           "C03_b32_roundtrip", "C03_b64_roundtrip", "C03_encode_decode", "C03_format_valid", "C03_wrong_digest_rejected",
                           "C03_detect", "C03_newDigest_format", "C03_format_reparse", "newDigest_name", "C03_case_insensitive", "recase_detect", "spelling_facts"],
        model_assumptions=["distinct inputs generated by the harness have distinct digests (cryptographic hash)", "see level_note"],
        design_ref="DESIGN.md section 5, C03",
        level_text="Theorems for an arbitrary hash function: validate accepts exactly the values that decode to the hash; the per-field check never reports a correct value, always reports a wrong one (finding under warn, error under fail) "
                   "and repairs to the true value; base16, base32 and base64 decoding inverts encoding for all byte strings (bit-level proofs over the padded group forms), so the formatted digest is accepted and the encoding of any other hash rejected in every encoding; detectEncoding infers the right encoding for every hash value of the algorithm's size in all 4 x 3 algorithm/encoding combinations whatever the configured default (C03_detect), hence a digest field written by format is read back by newDigest as the same algorithm, encoding and value and validates (C03_newDigest_format, C03_format_reparse); the other letter case of the value (upper-case base16, lower-case base32) and every accepted spelling of the algorithm name (upper case, with hyphen) are read as the SAME digest object (C03_case_insensitive). Correspondence: full algorithm x encoding x case x hyphen grid, every one-character corruption, and records with generator-known truth about declared length/digests on parser and builder path",
        level_note=COMMON_NOTE,
    ),
    "C05": dict(
        title="The parser is total: no panic, no hang, bounded memory",
        lean_modules=["Gowarc.Props.C05", "Gowarc.Props.C05total", "Gowarc.Props.C05progress", "Gowarc.Props.C05skel"],
        audit_namespaces=["Gowarc.Props.C05"],
        n_quick=6000, n_thorough=80000,
        required_theorems=["C05_readline_partition", "C05_readline_progress", "C05_http_split", "C05_junk", "C05_junk_consumes",
                           "C05_parse_total", "C05_cont_total", "C05_no_fuel_marker", "parseLoop_fuel_succ", "contLoop_fuel", "contLoop_rest_le", "readLine_rest_lt",
                           "C05_progress", "C05_read_until_error_terminates", "readLoop_fuel_succ", "readAllRecs_complete", "parseFields_rest_le", "afterMagic_rest_le", "C05_unmarshal_skeleton"],
        model_assumptions=["heap growth and wall-clock are only measured (worker watchdog 10 s, address-space cap), not proved", "panics inside klauspost/gzip, net/http, mime, whatwg-url are outside the model", "see level_note"],
        design_ref="DESIGN.md section 5, C05",
        level_text="All model functions are total Lean functions; the unbounded Go loops of the header parser are modelled with fuel and the fuel is PROVED adequate (C05_parse_total, C05_cont_total: with any larger fuel the result is the same, for every policy, stream and reader fault - so the loops end by themselves within stream length + 2 iterations, each consuming at least one byte); progress and partition lemmas for the line reader, the HTTP head scan and the junk search; C05_progress: whenever Unmarshal returns without error the remaining stream is strictly shorter than the one it was given (every policy, option, stream, end condition, validator verdict; gzip: the decoder reports at least one consumed byte), hence C05_read_until_error_terminates / readAllRecs_complete: the file reader's loop ends by itself with an error item (io.EOF or the first real error) and never for lack of fuel; "
                   "the implementation is run on mutated/truncated/hostile records x option combinations x sticky reader faults in isolated worker processes (panic -> outcome, watchdog -> hang, memory cap) and every case is re-run under four chunking styles Session 3: C05_progress and C05_read_until_error_terminates (every successful call consumes input; reading until the first error terminates), regenerated Unmarshal skeleton (C05_unmarshal_skeleton)",
        level_note=COMMON_NOTE,
    ),
    "C17": dict(
        title="Header validation implements the WARC field table",
        lean_modules=["Gowarc.Props.C17"],
        n_quick=3000, n_thorough=40000,
        required_theorems=["C17_table", "C17_mandatory", "C17_validators", "C17_record_types", "C17_warn", "C17_strict", "C17_strict_result", "C17_occurrence"],
        model_assumptions=["time.Parse(RFC3339), net.ParseIP and the WHATWG URL parser are oracles (their verdicts are supplied with each case)",
                           "the standard's table in Spec/FieldTable.lean is a hand transcription of ISO 28500 (WARC 1.0/1.1); unsupported WARC versions are not judged"],
        design_ref="DESIGN.md section 5, C17",
        level_text="C17_table: the field table extracted from headerfielddef.go on this run equals, cell by cell, the hand-transcribed table of the WARC standards (kernel decide); C17_warn: under warn the findings of validateHeader ARE the defects "
                   "the table defines (one per defect, header untouched, record returned); C17_strict: accepted iff no defect; C17_occurrence: every occurrence is judged by a row of the standard's table with the standard's value types. "
                   "Correspondence on every field x record type x version cell with valid/invalid values, multiplicities 0-3 and random defect mixes; independent Go oracle with its own copy of the table",
        level_note=COMMON_NOTE,
    ),
    "C08": dict(
        title="Error-policy coherence: ignore, warn and fail tell one story",
        lean_modules=["Gowarc.Props.C08", "Gowarc.Props.C08mono", "Gowarc.Props.C05skel"],
        audit_namespaces=["Gowarc.Props.C08"],
        n_quick=1500, n_thorough=20000,
        required_theorems=["C08_ignore_unmarshal", "C08_ignore_build", "C08_fail_clean_unmarshal", "C08_fail_clean_build",
                           "C08_fail_iff_warn_unmarshal", "C08_fail_iff_warn_build", "C08_sites", "C08_switch_shapes", "C08_parser_sim",
                           "C08_monotone_unmarshal", "C08_monotone_build", "C08_axis_syn_unmarshal", "C08_axis_spec_unmarshal",
                           "C08_axis_unk_unmarshal", "C08_axis_blk_unmarshal", "C08_axis_syn_build", "C08_axis_spec_build",
                           "C08_axis_unk_build", "C08_axis_blk_build", "C08_parser_monotone", "C08_unmarshal_skeleton"],
        model_assumptions=["see level_note"],
        design_ref="DESIGN.md section 5, C08",
        level_text="Kernel-checked for every input, reader fault, option setting and codec verdict: no finding unless some axis is at warn (so none under ignore, none under fail); fail returns an error iff warn returns an error or records a finding "
                   "(lock-step simulation of the whole Unmarshal and Build models, incl. the header parser and warc-fields blocks); monotone rejection in the pointwise order of the four axes (what a setting accepts, every setting that is "
                   "at most as strict on each axis accepts), with the four single-axis statements as corollaries, for Unmarshal and Build; the regenerated table of all policy sites of the Go code with the shape of every switch. "
                   "Correspondence: each input under the three uniform levels and all 81 combinations, the four relations evaluated on the implementation",
        level_note=COMMON_NOTE,
    ),
    "C07": dict(
        title="Validation observes, it does not destroy what was archived",
        lean_modules=["Gowarc.Props.C07", "Gowarc.Props.C07parser", "Gowarc.Props.C07repairs", "Gowarc.Props.C07fault", "Gowarc.Props.C05skel"],
        audit_namespaces=["Gowarc.Props.C07"],
        n_quick=1500, n_thorough=20000,
        required_theorems=["C07_validate_keeps_header", "C07_observe", "C07_policy_independent", "C07_block_complete", "C07_parser_policy_independent",
                           "C07_repairs_only", "C07_repairs_only_getAll", "validateDigest_others", "parseBlock_others", "others_set",
                           "C07_fault_explicit", "parseBlock_fault_kind", "validateDigest_fault", "C07_unmarshal_skeleton"],
        model_assumptions=["C07_fault_explicit: a block cut short by a READ ERROR (the stream fails before the declared number of bytes was delivered) is never handed out: Unmarshal returns an error under every policy and option setting, for every block kind (the oracle c07-fault-swallowed judges the same on the implementation for plain streams under all 81 policy combinations)",
                           "C07_repairs_only: with ANY repair options and policies, the header of the record Unmarshal returns equals the parsed header on every field other than Content-Length, WARC-Block-Digest and WARC-Payload-Digest: same names, values, multiplicities and relative order (others r.hdr = others fs)", "see level_note"],
        design_ref="DESIGN.md section 5, C07",
        level_text="Kernel-checked: header validation never alters a field under any policy; the header parser returns the same fields and stops at the same byte under any two syntax policies that accept; with the repair options off a record returned under ANY policy setting carries exactly the parsed fields and exactly the block framed by Content-Length "
                   "(complete, never empty or shortened); protocol header ++ payload = content. Correspondence: every input parsed under all 81 policy combinations with repairs off, headers and drained blocks compared across policies on the implementation Session 3: C07_repairs_only (with any repair options only Content-Length and the two digest fields of the parsed header can differ), C07_fault_explicit (a block cut short by a read error is never handed out), regenerated Unmarshal skeleton (C07_unmarshal_skeleton)",
        level_note=COMMON_NOTE,
    ),
    "C16": dict(
        title="Block accessors give the same answers in any call order",
        lean_modules=["Gowarc.Props.C16"],
        n_quick=4000, n_thorough=20000,
        required_theorems=["C16_any_order", "C16_digest_size", "C16_cached_reads", "C16_uncached_once", "C16_reachable", "step_inv", "C16_cache"],
        model_assumptions=["readers are consumed (fully, partly, not at all) before the next accessor call; a stale reader kept across a later accessor is outside the statement",
                           "warc-fields and revisit blocks hold their bytes in memory (trivial accessors) and are covered by the correspondence of built/parsed records only",
                           "the hash is abstract in the theorems: a digest result is recorded as 'format(H(these bytes))'"],
        design_ref="DESIGN.md section 5, C16",
        level_text="State-machine model of the lazy digest logic of genericBlock / httpRequestBlock / httpResponseBlock with an invariant preserved by every accessor; theorems for arbitrary call sequences: digests and size always describe the complete block, "
                   "every reader of a cached block yields the identical bytes from the start, a further content access on an uncached block fails with the explicit error. Correspondence on blocks built directly over cached / one-shot sources and on blocks of built and parsed records, made with the syntax repair on or off, HTTP heads with and without their terminating blank line (with the repair on the accessors describe the block INCLUDING the appended CRLF)",
        level_note="Trusted: Lean kernel, correspondence harness (blocks are constructed through an overlay export). Modelled by hand: block.go, httpblock.go accessor logic.",
    ),
    "C20": dict(
        title="Revisit creation and merge are mutually consistent",
        lean_modules=["Gowarc.Props.C20"],
        known_from=["C19"],
        n_quick=3000, n_thorough=15000,
        required_theorems=["C20_revisit", "C20_ref_fields", "C20_payload_digest", "C20_merge", "C20_roundtrip", "C20_merge_refuses", "C20_no_ref_of_revisit", "toRevisit_ok"],
        model_assumptions=["http.ReadResponse / http.ReadRequest acceptance of the protocol header is the oracle Ω.http, evaluated by the implementation per case",
                           "the hash is abstract in the theorems (H); the driver runs real MD5/SHA implementations",
                           "the merged Content-Length theorem is stated over the parsed integer of the original's field (contentLengthOf); decimal rendering is intToDec on both sides"],
        design_ref="DESIGN.md section 5, C20",
        level_text="Model of ToRevisitRecord / CreateRevisitRef / Merge over header fields and block bytes; theorems for every original, profile and reference: the revisit's block is exactly the original's protocol header, type revisit, Content-Length and WARC-Block-Digest "
                   "describe that block, reference fields and the payload digest are carried; Merge returns the revisit's header bytes followed by the original's payload with a truthful Content-Length, the original's type in both Type() and WARC-Type, and no reference fields; "
                   "round trip revisit→merge restores the original's block. Correspondence drives the real functions (including serialize + strict re-parse of the revisit) with a clause-by-clause oracle",
        level_note="Trusted: Lean kernel, correspondence harness. Modelled by hand: record.go ToRevisitRecord/CreateRevisitRef/Merge, revisitblock.go.",
    ),
    "C04": dict(
        title="Writer and reader agree on record positions (random access)",
        lean_modules=["Gowarc.Props.C04", "Gowarc.Props.C04junk", "Gowarc.Props.C04reads", "Gowarc.Props.C04skel"],
        audit_namespaces=["Gowarc.Props.C04"],
        n_quick=1500, n_thorough=12000,
        required_theorems=["C04_inv", "C04_tracked_size", "C04_offset", "C04_offset_stable", "C04_sequential", "C04_junk", "core_frame", "unmarshal_eq_core", "step_grows", "write_inv", "close_inv", "writeFailed_inv", "writeFailed_eq", "C04_offset_reads_back", "reads_at",
                           "C04_seg_offset", "writeSeg_inv", "writeSeg_state", "write_grows", "C04_writer_skeleton"],
        model_assumptions=["write histories include records the marshaler fails on (op `failed`: the fit test and a file creation happen, nothing of the record stays in the file); the harness makes the marshaler fail before the first byte, inside the header, inside the block and after the whole record",
                           "member bytes (the marshaler's and the compressor's output) are data: the harness measures each member's length on disk and hands it to the model; everything the writer decides is modelled",
                           "C04_sequential is stated for any self-delimiting codec (dec (enc x ++ rest) = some (x, rest)); that gowarc's marshal/gzip and unmarshal form such a codec is checked by the read-back oracle (independent scanner, fresh reader at every offset, sequential reader under three source behaviours), not proved",
                           "write histories include records the marshaler SEGMENTS (op `seg`: a first segment and a continuation record written by the nested write; one response naming the first segment, byte counts added: C04_seg_offset); the harness uses a segmenting marshaler with cut points anywhere in the block and sizes around the limit",
                           "one worker (deterministic); n workers are C09",
                           "the float multiplication by the expected compression ratio is the parameter `scale`; the harness uses ratios that are exact in binary"],
        design_ref="DESIGN.md section 5, C04",
        level_text="State-machine model of singleWarcFileWriter (fit test, file creation, warcinfo, append, size tracking, close/rename/callback) with a reachable-state invariant: the tracked size equals the open file's length; theorems for every operation sequence: the reported offset is where "
                   "the record's bytes start and they stay there under all later operations, BytesWritten is the serialized length, sequential decoding visits the members at the prefix-sum offsets and ends at the file length; and the junk law for the full Unmarshal model and EVERY stream: reading again from a reported offset returns the same record (C04_junk, via a frame lemma over the validation monad). Correspondence on Write/Rotate/Close sequences through the public API "
                   "with files read back by an independent scanner and by gowarc's reader Session 3: histories also contain records the marshaler fails on and records it segments (C04_seg_offset: one response naming the first segment); C04_offset_reads_back (a fresh reader at the reported offset returns exactly that record, clean); the model is tied to the source of singleWarcFileWriter by the regenerated file-effect skeleton (C04_writer_skeleton)",
        level_note="Trusted: Lean kernel, correspondence harness and its independent scanner. Modelled by hand: warcfile.go singleWarcFileWriter. Reader-side offset arithmetic (countingreader, bufio) is covered by the oracle only.",
    ),
    "C13": dict(
        title="Rotation, naming and warcinfo invariants of written files",
        lean_modules=["Gowarc.Props.C13", "Gowarc.Props.C13names", "Gowarc.Props.C13seg", "Gowarc.Props.C04skel", "Gowarc.Props.C13final"],
        audit_namespaces=["Gowarc.Props.C13"],
        n_quick=1500, n_thorough=12000,
        required_theorems=["C13_info", "C13_no_info", "C13_names", "C13_callback", "C13_fit", "run_inv13", "failed_inv13", "C13_seg_fit", "write_size", "C13_writer_skeleton", "C13_final_name", "C13_final_suffix", "C13_open_differs", "trimSuffix_append",
                           "C13_generator_names_unique", "C13_next_name_differs", "default_name", "default_pattern_tokens", "pad_serial_injective"],
        model_assumptions=["as C04; in the writer model file names are identified with the serial number of the NewWarcfileName call that produced them (the writer scenarios use a counting generator); the real PatternNameGenerator and internal.Sprintt are modelled in Model/NameGen.lean and tied by kind `namegen` (default and custom patterns, flags 0 and -, widths, %s %d %v %%, custom parameters shadowed by built-in ones); C13_generator_names_unique: with the default pattern (regenerated from warcfile.go) names from different serials differ, for any prefix, extension, host and time stamps of equal length; int32 wrap-around of the serial and patterns outside the modelled grammar are outside the model; time formatting, host name and IP are inputs",
                           "a record is never split across files by construction of the model (files are lists of whole members); that the bytes on disk are such lists is judged by the independent scanner"],
        design_ref="DESIGN.md section 5, C13",
        level_text="Same model as C04 with the warcinfo/callback invariant proved for every reachable state: each file starts with exactly its own warcinfo member and every other member is stamped with that file's warcinfo id (none without a generator); a record joins the open non-empty file iff the fit test passes, "
                   "else it starts the next file; ids unique, open suffix iff current; exactly one callback per closed file with its id, true size and warcinfo id. Oracle on the implementation: scanner-whole files, warcinfo position/count/WARC-Filename, stamping, fit rule, suffixes at every step, callback arguments Session 3: C13_seg_fit (the continuation of a segmented record is fitted against the file including the first segment), C13_final_name (the final name is generated name + compression suffix for every generated name), model of PatternNameGenerator with C13_generator_names_unique, regenerated writer skeleton (C13_writer_skeleton)",
        level_note="Trusted: Lean kernel, correspondence harness and its independent scanner. Modelled by hand: warcfile.go singleWarcFileWriter.",
    ),
    "C06": dict(
        title="Truncated files: complete records survive and the cut is visible",
        lean_modules=["Gowarc.Props.C06", "Gowarc.Props.C06built", "Gowarc.Props.C06header", "Gowarc.Props.C06after", "Gowarc.Props.C05skel"],
        audit_namespaces=["Gowarc.Props.C06"],
        model_judged=[("cuts", "wf=f", "wf=t", "c06-survive the-uncut-file-does-not-read-back-as-clean-records-although-the-model-(C06_members_survive)-says-it-does")],
        n_quick=25, n_thorough=300,
        required_theorems=["C06_survive", "C06_survive_cut", "C06_short_tail", "C06_cut_version_line", "C06_trailer_or_finding", "readLoop_succ",
                           "C06_members_survive", "C06_cut_behind_header", "allReadAs_of_readsBack",
                           "C06_cut_in_header", "C06_visible_plain", "C06_nothing_clean_after", "readLoop_no_clean", "unmarshal_short", "unmarshal_cut_version", "C06_unmarshal_skeleton"],
        model_assumptions=["C06_survive is relative to the codec law `ReadsAs` (each complete member reads as a clean record for every continuation); for plain members that are marshalled records of the strict builder the law is now a theorem (C01_accepts, any tail, any end condition) and C06_members_survive states survival for such files without that hypothesis; for gzip members it stays validated per file (`wf=t`: implementation and model read the uncut file as clean records at the generated boundaries)",
                           "C06_visible_plain (all cut positions of a plain record: fewer than five bytes, inside the version line, inside the header section - Lemmas/CutHeader.lean: the header parser never takes a cut section for a complete one -, inside block or trailer) and C06_nothing_clean_after (reading the cut remainder yields no clean record at all): the three clauses of the property are now theorems for plain files of strictly built records; gzip members rest on the codec law (readsBack_gzip) for survival and on the exhaustive enumeration for cuts inside a member",
                           "C06_cut_behind_header: for every record with clean fields and truthful Content-Length, every block content and every cut position inside the block or the four trailer bytes, Unmarshal returns an error or a record carrying the trailer finding (spec policy warn/fail)",
                           "visibility is proved for the reader's own framing (fewer than five bytes left; cut inside the version line) and, for every header and stream, behind the header section (C06_trailer_or_finding: a record returned without error either had its complete trailer behind the declared block or carries the trailer finding; under fail the error); what a cut inside the header lines does before that point, and gzip members, are decided by the exhaustive enumeration of every cut on implementation and model",
                           "gzip (klauspost/compress) is the oracle Ω.gz: for every cut the harness hands the model the decompressor's verdict for each member (content prefix, clean/damaged end, compressed bytes consumed)",
                           "n_quick / n_thorough count FILES; every prefix 0..length of every file is read (quick about 20 000 prefixes)"],
        design_ref="DESIGN.md section 5, C06",
        level_text="Model of WarcFileReader.Next in a loop over the unmarshal model; theorem for any number of records and any tail: members that read as clean records are returned clean, unaltered, at their offsets, and reading continues on the tail alone (so a cut never disturbs the complete records before it); "
                   "visibility theorems for short tails and version-line cuts. Tie and remaining clauses: EVERY cut position of generated well-formed multi-record files (plain and per-record gzip, warn and strict, several spill thresholds) is read by implementation and model and compared, with survive / nothing-clean-after / visible / boundary judged on the implementation",
        level_note="Trusted: Lean kernel, correspondence harness. Modelled by hand: unmarshaler.go, warcfile.go Next. Proof is partial for the visible and nothing-after clauses (see model_assumptions); exhaustive enumeration covers them on the generated files.",
    ),
    "C15": dict(
        title="No temporary file or descriptor outlives Close",
        lean_modules=["Gowarc.Props.C15"],
        n_quick=3000, n_thorough=30000,
        required_theorems=["C15_owned", "C15_close", "C15_scenario", "step_owned", "closed_stays", "run_close_closes", "C15_close_releases", "run_close_noFile", "shut_noFile"],
        model_assumptions=["what an API call returned (a record or nil, the block kind, whether the block was cached and how many bytes) is observed on the implementation and handed to the model; the model decides ownership: which Close releases which buffer, when a buffer has a temp file",
                           "operating system: one descriptor per temp file and per open reader; measured as the descriptors of the process that point into the scenario's private directories",
                           "writing into a builder after its buffer was closed, and using a record that was returned together with an error for anything but Close, are outside the statement"],
        design_ref="DESIGN.md section 5, C15",
        level_text="Ownership model of spill buffers (builder, built record, parsed record, derived and merged records, file reader) with the invariant that every buffer that is not closed is reachable from an open handle, and the theorem that closing every handle - any order, repeated - leaves no temp file and no descriptor, for every scenario. "
                   "Correspondence: after EVERY step of generated scenarios (sizes around the threshold, every block kind, read faults at arbitrary positions of the input, failing marshal targets, rejected reader offsets, Close in any order and twice) the number of temp files and descriptors measured on the implementation must equal the model's; zero after closing everything is judged on the implementation Session 3: Close is not terminal for a buffer that has not spilled and a record's Close takes effect once (RBuf.shut, RHandle.once): Close-Write-Close histories are inside the quantifier; C15_close_releases",
        level_note="Trusted: Lean kernel, correspondence harness (directory listing, /proc/self/fd). Modelled by hand: closers in recordbuilder.go, unmarshaler.go, block.go, httpblock.go, record.go, warcfile.go reader; diskbuffer file lifetime.",
    ),
    "C12": dict(
        title="A killed writer leaves only complete final files and whole-record prefixes",
        lean_modules=["Gowarc.Props.C12", "Gowarc.Props.C12link", "Gowarc.Props.C04skel"],
        audit_namespaces=["Gowarc.Props.C12"],
        n_quick=40, n_thorough=600,
        required_theorems=["C12_all", "C12_shape", "C12_acked", "C12_final_complete", "C12_open", "members_run", "file_run", "files_run", "reachable_closed",
                           "C12_log_is_run", "C12_ack_is_response", "step_log", "write_log", "C12_writer_skeleton"],
        model_assumptions=["the model's effect log is the writer's program order for one worker (create, member bytes, optional fsync, acknowledgement, close, rename); C12_log_is_run proves that it is exactly what the writer model of C04/C13 issues step by step along any run; that the implementation issues these effects in this order is what the strace comparison checks on every generated history; histories include records the marshaler fails on (op F: refused before the first byte, failing inside the header or block): their bytes are written and taken back by ftruncate, which the trace comparison folds away - every crash state in between is still judged",
                           "byte-granular kill points (one effect per byte) are a superset of the real ones (write syscalls of arbitrary chunking, including the compressor's)",
                           "process kill, not power loss: the kernel keeps completed writes and renames atomically; page cache loss is outside the property",
                           "one record per Write call in these workloads (the acknowledgement of a batch comes after all of its records; batches are C04/C09); Rotate concurrent with a Write is C09"],
        design_ref="DESIGN.md section 5, C12",
        level_text="Effect-log model of the writer with an interpreter for what is on disk after any prefix of the log; theorem for every list of files of a reachable writer state and EVERY kill point: earlier files are complete under their final names, at most one in-progress file holds whole members followed by a strict prefix of one member, "
                   "every acknowledged record is completely in its file at its offset. Tie: the workload runs in a child under strace and the traced openat/write/fsync/close/rename/acknowledgement sequence must equal the model's log; every crash state of the trace (effect boundaries and bytes inside writes) is judged by an independent scanner; three real SIGKILLs per case at byte budgets inside records are judged on the real directory",
        level_note="Trusted: Lean kernel, strace, the harness' trace parser and scanner. Modelled by hand: the order of file-system calls in warcfile.go (createFile, writeRecord, createWarcInfoRecord, close).",
    ),
    "C10": dict(
        title="Write, Rotate and Close always return (no deadlock, no lost wake-up)",
        lean_modules=["Gowarc.Props.C10", "Gowarc.Props.C10skel"],
        audit_namespaces=["Gowarc.Props.C10"],
        n_quick=400, n_thorough=6000,
        required_theorems=["C10_no_stuck", "C10_measure", "C10_bounded", "C10_all_return", "C10_maximal_finished", "C10_after_close", "C10_write_after_close", "C10_skeleton", "step_inv", "reach_inv"],
        model_assumptions=["Go's unbuffered channels, close(), select and sync.Mutex / WaitGroup are the model's rendezvous, flags, choice, exclusion and 'all workers ended'",
                           "environment faults in the steered schedules: a marshaler that fails, and an output directory that disappears while every worker holds an open file (every final close/rename fails): only the clause that every call returns is judged then",
                           "the per-file critical section (lock, fit test, append, unlock) is one step: it takes one lock, never nests (after fix 9de3e02) and always releases; a marshaler or name generator that blocks forever is outside the statement",
                           "exit(v,false): close(closed); close(jobs) is one step of the model (no goroutine can be blocked by the state between the two)",
                           "the tie is the regenerated synchronisation skeleton (C10_skeleton): every channel operation, select, close, lock, wait-group operation, goroutine start and protocol call of warcfile.go in order; real schedules are sampled and steered by the harness, not enumerated"],
        design_ref="DESIGN.md section 5, C09/C10",
        level_text="Labelled transition system of the writer's goroutine protocol (n callers with arbitrary programs of Write/Rotate/Close, dispatcher, k workers, rendezvous channels, closed flags, wait group) with a reachable-state invariant; theorems for ALL n, k >= 1, programs and interleavings: no reachable state with an unfinished call is stuck, "
                   "every step decreases an explicit natural measure (so every execution is finite and every maximal one ends with all calls returned, no fairness assumed), when Close returns all workers have ended and the writer stays closed, a later Write returns nil in one step. Tie: skeleton translator + theorem C10_skeleton; "
                   "search/validation: real goroutines with a gating marshaler under steered schedules (Close during a write, job parked in the dispatcher then Close, Write racing Close, double/concurrent Close, Rotate during a half-written record, continuation records) and random ones, with a watchdog",
        level_note="Trusted: Lean kernel, the go/ast skeleton extractor, Go's channel/mutex semantics. Modelled by hand: Proto from the skeleton of warcfile.go.",
    ),
    "C09": dict(
        title="Concurrent writing never loses, duplicates, tears or misplaces records",
        lean_modules=["Gowarc.Props.C09", "Gowarc.Props.C10skel", "Gowarc.Props.C09batch"],
        audit_namespaces=["Gowarc.Props.C09"],
        n_quick=400, n_thorough=6000,
        required_theorems=["C09_exactly_once", "C09_responded_written", "C09_nil_nothing", "C09_single_holder", "C09_skeleton", "step_loginv", "reach_loginv", "results_mono", "C09_batch_adjacent", "C09_batch_next_file", "second_write"],
        model_assumptions=["as C10; the file-level clauses (intact at the reported offset, whole records, one file per record) are those of the sequential writer each worker is (C04, C13), under the worker's own lock",
                           "'the records of one Write lie contiguously in one file' is judged when all its responses name the same file: a size rotation or a concurrent Rotate between two records of a batch moves the rest to the next file (documented: 'if size permits')"],
        design_ref="DESIGN.md section 5, C09/C10",
        level_text="Same protocol model as C10 with a ghost log of what each worker wrote and what each Write returned; theorems for ALL n, k, programs and interleavings: no job is written twice and a job is in the hands of at most one goroutine (linear token), a Write that returned responses had its job written, a Write that returned nil has written nothing and never will. "
                   "Tie: skeleton theorem C09_skeleton; validation and search: real goroutines under steered and random schedules, files read by the independent scanner: exactly once, at the reported file and offset, batches adjacent and in order, whole files, nothing on disk without a response Session 3: C09_batch_adjacent / C09_batch_next_file (consecutive Writes of one worker: adjacent in the same file, or first behind the warcinfo of the next)",
        level_note="Trusted: Lean kernel, the go/ast skeleton extractor, Go's channel/mutex semantics, the harness' scanner. Modelled by hand: Proto.",
    ),
    "C11": dict(
        title="Supported concurrent use is free of data races",
        lean_modules=["Gowarc.Props.C11"],
        race_binary=True,
        n_quick=24, n_thorough=300,
        required_theorems=["C11_table", "C11_closed", "C11_fields_locked", "C11_reads_locked", "C11_pkg_objects", "C11_reader_keeps_nothing", "C11_opts_immutable"],
        model_assumptions=["the Go memory model: accesses ordered by a mutex, by channel operations of the protocol (C10) or by package initialisation do not race",
                           "the table is extracted syntactically (go/ast): assignments through the receiver, calls by method name, package variables by name; accesses reached only through interfaces, closures or third-party code are not in the table and are covered by the race-detector workloads only",
                           "the detector only reports races on the schedules that actually ran: the workloads repeat each supported shape with 2-8 goroutines; supported shapes include the pipeline in which ONE goroutine owns a file reader and hands every record it gets to a worker goroutine that owns it from then on (workload handoff, with and without spilled blocks; a worker that does not get its complete block is a violation too)"],
        design_ref="DESIGN.md section 5, C11",
        level_text="Lock-discipline check over the shared-access table regenerated from /repo on every run (package-variable writes, field writes of the per-file writer with lock holders and call graph, unsafe external calls, generator and writer-struct writes, pool puts): theorem that the table satisfies the discipline, "
                   "a generic soundness theorem for the lock closure, and its corollary that every field write is reached only through a method that takes writeLock. Validation and search: workloads of exactly the supported shape under the Go race detector; any report is a violation Session 3: C11_pkg_objects (package-level objects only from allowed makers), C11_reader_keeps_nothing (WarcFileReader assigns no field except in Close)",
        level_note="Partial by nature: this is the property where the proof carries least. Trusted: Lean kernel, the go/ast extractor, the Go race detector and memory model.",
    ),
}


# properties not (yet) claimed, with the reason shown in MANIFEST.not_applicable
NOT_CLAIMED = {
    "C%02d" % i: "check not built yet in this revision of /verif (work in progress, see DESIGN.md section 9)" for i in range(1, 21)
}

# commits in /repo that add tag-guarded hooks
HOOK_COMMITS = []
