"""Per-property configuration of /verif/check."""

ALLOWED_AXIOMS = {"propext", "Classical.choice", "Quot.sound"}

PROPS = {
    "C18": dict(
        title="WarcFields is an ordered, case-insensitive multimap",
        lean_modules=["Gowarc.Props.C18"],
        n_quick=4000, n_thorough=60000,
        required_theorems=["C18_refines", "C18_set_spec", "C18_sort_stable", "canon_idem", "C18_gen_names_nodup"],
        trivial_outcomes=[],
        model_assumptions=[
            "time formatting of AddTime/SetTime is done by Go's time package and passed to the model as the formatted value",
            "strings.ToLower is modelled exactly only as far as equality with an ASCII key is concerned (ASCII, U+212A, U+0130)",
        ],
        design_ref="DESIGN.md section 5, C18",
        level_text="Refinement theorem C18_refines (every operation sequence, every name spelling) from the model of warcfields.go to a "
                   "reference ordered multimap, plus Set/Delete/Sort/Write characterisations and canon idempotence, all kernel-checked; "
                   "the model is tied to the code by step-wise differential correspondence on seeded op sequences (exhaustive for length <= 4 in the thorough tier) "
                   "and by the regenerated field table",
        level_note="Trusted: Lean kernel; go/ast translator for the field table; correspondence harness. Modelled by hand: warcfields.go, normalizeName, "
                   "http.CanonicalHeaderKey, strings.ToLower (as far as comparison with ASCII keys goes), strconv.ParseInt base 10. Time formatting is outside the model.",
    ),
    "C14": dict(
        title="The spill buffer behaves exactly like an in-memory buffer",
        lean_modules=["Gowarc.Props.C14"],
        n_quick=6000, n_thorough=40000,
        required_theorems=["C14_refines", "C14_step", "C14_no_panic", "C14_slice_read", "C14_eof_sound"],
        model_assumptions=[
            "the OS file API (WriteAt/ReadAt/CreateTemp on the temp file) behaves as an append-only byte array",
            "WithMaxTotalBytes, WriteTo and read-only mode are outside the property and outside the model",
            "sources passed to ReadFrom follow the io.Reader contract (never (0, nil) forever)",
            "slice line reads (Slice.ReadBytes) are covered by the correspondence only (no refinement theorem yet)",
        ],
        design_ref="DESIGN.md section 5, C14",
        level_text="Refinement theorem C14_refines: for every threshold >= 1 and every sequence of Write/ReadFrom/Read/Peek/ReadBytes/Seek(0)/Size "
                   "the model of internal/diskbuffer returns exactly what a one-list byte buffer returns (bytes, counts, end-of-data), with invariant "
                   "'memory <= threshold and temp file exists iff memory is full'; slice read/peek/size theorems; kernel-checked. Model tied to the code by "
                   "step-wise correspondence on seeded sequences (exhaustive small scope in the thorough tier) including temp-file existence after every step",
        level_note="Trusted: Lean kernel, correspondence harness. Modelled by hand: diskbuffer.go, membuffer.go, filebuffer.go, slice.go. "
                   "Assumed: OS file semantics, well-behaved io.Reader sources.",
    ),
    "C19": dict(
        title="Header text is a fixpoint after one parse (no field smuggling)",
        lean_modules=["Gowarc.Props.C19"],
        n_quick=3000, n_thorough=40000,
        required_theorems=["decode_id", "C19_fixpoint_false", "C19_api_false"],
        model_assumptions=[
            "bufio.Reader is modelled by its contract (ReadBytes, Peek); the implementation's independence of the underlying chunking is checked by running every case under four read styles",
            "mime.WordDecoder.DecodeHeader, base64 decoding and strings.EqualFold are transcribed from the Go standard library (GOROOT of the pinned toolchain)",
        ],
        design_ref="DESIGN.md section 5, C19",
        level_text="Executable model of the header tokenizer incl. the RFC 2047 decoder, tied by correspondence on seeded header sections under the three syntax policies and a reader fault; "
                   "theorems: decoder is the identity on lines without '=?', and kernel-checked witnesses that the full statement is false (encoded-word smuggling, edge white space), both listed findings; "
                   "the fixpoint oracle runs on the implementation for every generated section",
        level_note="Trusted: Lean kernel, correspondence harness. The universal round-trip theorem for clean fields (C19_api) is stated in DESIGN.md and proved in Props/C01 (header framing lemmas); here the "
                   "property is decided by witness + partial theorem + correspondence.",
    ),
}


# properties not (yet) claimed, with the reason shown in MANIFEST.not_applicable
NOT_CLAIMED = {
    "C%02d" % i: "check not built yet in this revision of /verif (work in progress, see DESIGN.md section 9)" for i in range(1, 21)
}

# commits in /repo that add tag-guarded hooks
HOOK_COMMITS = []
