#!/bin/sh
# revfix.sh <sha> <prop> [prop...]: undo one fix: commit in /repo's working tree, run the checks, restore. A fix whose
# reversal is not detected by the check of its property would mean the check cannot see the defect the fix repaired.
sha=$1; shift
cd /repo || exit 2
[ -z "$(git status --porcelain)" ] || { echo "/repo not clean"; exit 2; }
git diff $sha^ $sha | git apply -R 2>/dev/null || git diff $sha^ $sha | git apply -R --3way 2>/dev/null || { echo "rev $sha: does not apply in reverse"; git checkout -- . ; exit 0; }
for p in "$@"; do
  cd /verif && ./check $p > /tmp/revfix_${sha}_$p.txt 2>&1; rc=$?
  echo "reversed $sha check=$p exit=$rc $(grep -c '^VIOLATION' /tmp/revfix_${sha}_$p.txt) violation line(s) $(grep -m1 '^VIOLATION' /tmp/revfix_${sha}_$p.txt | sed 's/.*replay=//' | cut -c1-80)"
done
git -C /repo checkout -- .
# the evidence files must describe runs on the unchanged tree: put back what these runs overwrote
git -C /verif checkout -- evidence 2>/dev/null
/verif/go/bin/extract /repo /verif/lean/Gowarc/Gen >/dev/null
