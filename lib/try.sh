#!/bin/sh
# try.sh <prop> <seed> <n> [tier]: build harness, run corr + driver into /verif/.run/t, show mismatch and oracle summary
export GOFLAGS=-mod=mod GOPROXY=off GOSUMDB=off GOTOOLCHAIN=local
cd /verif/go || exit 2
go build -tags verif -overlay overlay.json -o bin/corr ./corr || exit 2
[ "$1" = "C11" ] && { go build -race -tags verif -overlay overlay.json -o bin/corr-race ./corr || exit 2; }
rm -rf /verif/.run/t
./bin/corr run "$1" "$2" "$3" /verif/.run/t ${4:-quick} || exit 2
/verif/lean/.lake/build/bin/driver < /verif/.run/t/cases.txt > /verif/.run/t/model.txt
python3 /verif/lib/showdiff2.py /verif/.run/t ${SHOW:-4}
echo "oracle violations: $(grep -c VIOL /verif/.run/t/oracle.txt)"
grep VIOL /verif/.run/t/oracle.txt | awk '{print $3,$4}' | sort | uniq -c | sort -rn | head -20
