"""Verdict logic, known findings, evidence writer for /verif/check."""
import os, json, re, time, hashlib, subprocess
from props import ALLOWED_AXIOMS

VERIF = os.path.dirname(os.path.dirname(os.path.abspath(__file__)))
GO = os.path.join(VERIF, "go")


def load_known(prop, also=()):
    p = os.path.join(VERIF, "known_findings.json")
    if not os.path.exists(p):
        return []
    d = json.load(open(p))
    props = [prop] + list(also)
    return [e for e in d.get("findings", []) if e.get("property") in props and e.get("status", "open") == "open"]


def match_known(known, case_line, oracle_line):
    """a known finding matches when its signature regex matches the oracle line (and case regex, if any, the case)"""
    for e in known:
        if re.search(e["signature"], oracle_line) and (not e.get("case_regex") or re.search(e["case_regex"], case_line)):
            return e
    return None


def write_replay(prop, tag, header, cases):
    os.makedirs(os.path.join(VERIF, "replay"), exist_ok=True)
    h = hashlib.sha256(("\n".join(cases) + tag).encode()).hexdigest()[:10]
    path = os.path.join(VERIF, "replay", "%s-%s-%s.case" % (prop, tag, h))
    with open(path, "w") as f:
        for l in header:
            f.write("# " + l + "\n")
        for c in cases:
            f.write(c + "\n")
    return path


def decide(prop, cfg, tier, seed, b, rundir, run_driver, read_indexed, sh, ENV):
    res = dict(lines=[], violations=0, known=0, mismatches=0, oracle_viol=0, cases=0, samples=[], stats={},
               distinct_nontrivial=0, proof_ok=False, proof_problems=[])
    known = load_known(prop, cfg.get('known_from', []))

    # ---- proof status
    problems = []
    if not b.get("extract_ok", False):
        problems.append("translator refused: " + b.get("extract_msg", "")[-500:].strip())
    if not b.get("lake_ok", False):
        problems.append("lake build / audit failed: " + first_error(b.get("lake_msg", "")))
    names = {t["name"].split(".")[-1]: t for t in b.get("theorems", [])}
    for req in cfg.get("required_theorems", []):
        if b.get("lake_ok") and req not in names:
            problems.append("required theorem missing: " + req)
    axioms_seen = set()
    for t in b.get("theorems", []):
        axioms_seen.update(t["axioms"])
        extra = set(t["axioms"]) - ALLOWED_AXIOMS
        if extra:
            problems.append("theorem %s depends on axioms %s" % (t["name"], sorted(extra)))
    if b.get("forbidden"):
        problems.append("forbidden construct in Lean sources: " + "; ".join(b["forbidden"][:3]))
    if cfg.get("leanchecker") and not b.get("leanchecker_ok", True):
        problems.append("leanchecker rejected the compiled modules: " + b.get("leanchecker_msg", "")[-300:])
    res["proof_problems"] = problems
    res["proof_ok"] = not problems
    res["axioms_seen"] = sorted(axioms_seen)

    # ---- correspondence + oracle
    n = cfg["n_thorough"] if tier == "thorough" else cfg["n_quick"]
    corpus = []
    cdir = os.path.join(VERIF, "corpus", prop)
    if os.path.isdir(cdir):
        corpus = sorted(os.path.join(cdir, f) for f in os.listdir(cdir) if f.endswith(".case"))
    binary = os.path.join(GO, "bin", cfg.get("binary", "corr"))
    t0 = time.time()
    rc, o = sh([binary, "run", prop, str(seed), str(n), rundir, tier] + corpus, timeout=cfg.get("timeout", 7200))
    if rc != 0:
        print("INFRA-ERROR: harness failed:\n" + o[-3000:])
        raise SystemExit(2)
    res["t_impl"] = time.time() - t0
    t0 = time.time()
    rc, err = run_driver(os.path.join(rundir, "cases.txt"), os.path.join(rundir, "model.txt"))
    if rc != 0:
        print("INFRA-ERROR: driver failed: " + err[-2000:])
        raise SystemExit(2)
    res["t_model"] = time.time() - t0
    cases = read_indexed(os.path.join(rundir, "cases.txt"))
    impl = read_indexed(os.path.join(rundir, "impl.txt"))
    model = read_indexed(os.path.join(rundir, "model.txt"))
    oracle = read_indexed(os.path.join(rundir, "oracle.txt"))
    res["cases"] = len(cases)
    try:
        res["stats"] = json.load(open(os.path.join(rundir, "stats.json")))
    except Exception:
        res["stats"] = {}

    trivial = set(cfg.get("trivial_outcomes", []))
    distinct = set()
    for k, v in impl.items():
        if v not in trivial:
            distinct.add(hashlib.md5((cases[k].split(" ", 1)[0] + v).encode()).digest())
    res["distinct_nontrivial"] = len(distinct)

    mism = [k for k in cases if impl.get(k) != model.get(k) and not cases[k].startswith("nomodel")]
    res["mismatches"] = len(mism)
    # model-judged cases: a disagreement in which the implementation's own outcome is a violation of the property while the
    # model's (proved) outcome is not IS a failing input; cfg["model_judged"] = [(case kind, impl prefix, model prefix, signature)]
    for k in mism:
        if oracle.get(k, "ok") != "ok":
            continue
        kind = cases[k].split(" ", 1)[0]
        for (ck, ip, mp, sig) in cfg.get("model_judged", []):
            if kind == ck and impl.get(k, "").startswith(ip) and model.get(k, "").startswith(mp):
                oracle[k] = "VIOL " + sig
                break
    viol = [k for k in cases if oracle.get(k, "ok") != "ok"]
    res["oracle_viol"] = len(viol)

    # samples for the evidence
    ks = list(cases.keys())
    step = max(1, len(ks) // 5)
    for k in ks[::step][:5]:
        res["samples"].append({"case": trunc(cases[k], 400), "impl": trunc(impl.get(k, ""), 300), "model": trunc(model.get(k, ""), 300),
                               "oracle": trunc(oracle.get(k, ""), 200)})

    # ---- classify oracle violations
    unknown = {}
    known_hit = {}
    for k in viol:
        e = match_known(known, cases[k], oracle[k])
        if e:
            known_hit.setdefault(e["id"], []).append(k)
        else:
            sig = " ".join(oracle[k].split(" ")[1:2])
            unknown.setdefault(sig, []).append(k)
    for fid, ks_ in known_hit.items():
        e = [x for x in known if x["id"] == fid][0]
        res["lines"].append("KNOWN-FINDING: property=%s %s (%s; %d cases this run)" % (prop, e["what"], fid, len(ks_)))
        res["known"] += 1
    # every listed finding's witness is replayed on every run: a listed finding that no longer reproduces is reported
    for e in known:
        if e["id"] not in known_hit and e.get("witness_must_reproduce", False):
            res["lines"].append("NOTE: known finding %s did not reproduce in this run" % e["id"])

    for sig, ks_ in unknown.items():
        hdr = ["property %s violated on the IMPLEMENTATION (oracle signature: %s)" % (prop, sig),
               "replay: /verif/check %s --replay <this file>" % prop]
        body = []
        for k in ks_[:5]:
            hdr.append("case %s oracle: %s" % (k, oracle[k]))
            hdr.append("case %s impl:   %s" % (k, trunc(impl.get(k, ""), 600)))
            hdr.append("case %s model:  %s" % (k, trunc(model.get(k, ""), 600)))
            body.append("%s %s" % (k, cases[k]))
        path = write_replay(prop, "viol", hdr, body)
        res["lines"].append("VIOLATION property=%s replay=%s" % (prop, path))
        res["violations"] += 1

    # mismatches on cases whose oracle reported an UNLISTED violation are already reported above; all others are a broken
    # correspondence -- including cases on which the oracle only saw a listed finding: the model reproduces the listed
    # behaviour, so a disagreement there is something new that a known finding must not hide
    unexplained = [k for k in mism if oracle.get(k, "ok") == "ok" or match_known(known, cases[k], oracle[k]) is not None]
    if unexplained:
        hdr = ["correspondence broken for %s: model and implementation disagree on %d of %d cases" % (prop, len(unexplained), len(cases)),
               "no input was found on which the implementation itself breaks the property" if not unknown else
               "failing inputs for the property were found separately (see other replay files)"]
        body = []
        for k in unexplained[:5]:
            hdr.append("case %s impl:  %s" % (k, trunc(impl.get(k, ""), 600)))
            hdr.append("case %s model: %s" % (k, trunc(model.get(k, ""), 600)))
            body.append("%s %s" % (k, cases[k]))
        path = write_replay(prop, "corr", hdr, body)
        if unknown:
            res["lines"].append("NOTE: correspondence also broken, see %s" % path)
        else:
            res["lines"].append("VIOLATION property=%s replay=%s no-failing-input-found" % (prop, path))
            res["violations"] += 1

    if problems:
        hdr = ["proof obligations of %s no longer check:" % prop] + problems
        path = write_replay(prop, "proof", hdr, [])
        if res["violations"] == 0:
            res["lines"].append("VIOLATION property=%s replay=%s no-failing-input-found" % (prop, path))
            res["violations"] += 1
        else:
            res["lines"].append("NOTE: proof obligations also broken, see %s" % path)
    return res


def first_error(msg):
    for l in msg.splitlines():
        if "error" in l:
            return l.strip()[:400]
    return msg.strip()[-400:]


def trunc(s, n):
    return s if len(s) <= n else s[:n] + "...(%d more)" % (len(s) - n)


def write_evidence(prop, cfg, tier, seed, b, res):
    ths = b.get("theorems", [])
    obligations = len(ths)
    discharged = obligations if res["proof_ok"] else sum(1 for t in ths if not (set(t["axioms"]) - ALLOWED_AXIOMS)) if b.get("lake_ok") else 0
    cov = {
        "obligations": obligations,
        "discharged": discharged,
        "checker_cmd": "cd /verif/lean && lake build %s && lake env lean <audit file with #audit_ns> (axiom audit)%s" % (
            " ".join(cfg["lean_modules"]), " && lake env leanchecker " + " ".join(cfg["lean_modules"]) if cfg.get("leanchecker") else ""),
        "trusted_base": [
            "Lean 4 kernel (lean 4.33.0)",
            "axioms used by the property theorems: " + (", ".join(res.get("axioms_seen", [])) or "none"),
            "translator /verif/go/extract (go/ast) for Gen/*.lean; correspondence harness /verif/go/corr and its canonicalisation",
        ] + cfg.get("model_assumptions", []),
        "theorems": [t["name"].replace("Gowarc.Props.", "") for t in ths],
        "proof_problems": res["proof_problems"],
        "evaluations": res["cases"],
        "distinct_nontrivial": res["distinct_nontrivial"],
        "rule": cfg.get("rule", "cases come from the seeded generators of /verif/go/corr (corpus first); a case counts as distinct "
                        "non-trivial when its (kind, canonical implementation outcome) pair is new and the outcome is not in the property's trivial list"),
        "samples": res["samples"],
        "traces_validated_against_impl": res["cases"] - res["mismatches"],
        "correspondence_mismatches": res["mismatches"],
        "oracle_violations": res["oracle_viol"],
        "known_findings_hit": res["known"],
        "generator_stats": res.get("stats", {}).get("gen_stats", {}),
        "kinds": res.get("stats", {}).get("kinds", {}),
        "outcome_hist": res.get("stats", {}).get("outcome_hist", {}),
        "gen_hashes": b.get("gen_hashes", {}),
        "gen_changed_this_run": b.get("gen_changed", []),
        "timings_s": {k: round(v, 2) for k, v in b.items() if k.startswith("t_")} | {k: round(v, 2) for k, v in res.items() if k.startswith("t_")},
        "exhaustive": False,
    }
    cov.update(res.get("extra_coverage", {}))
    ev = {
        "property_id": prop,
        "tier": tier,
        "seed": seed,
        "level": "proof",
        "coverage": cov,
        "assumptions": cfg.get("model_assumptions", []),
        "wall_s": round(res["wall_s"], 2),
        "violations": res["violations"],
    }
    os.makedirs(os.path.join(VERIF, "evidence"), exist_ok=True)
    with open(os.path.join(VERIF, "evidence", prop + ".json"), "w") as f:
        json.dump(ev, f, indent=1)
