#!/usr/bin/python3
"""showcuts.py <rundir> [max]: per-cut mismatches of `cuts` cases"""
import sys
d=sys.argv[1]; mx=int(sys.argv[2]) if len(sys.argv)>2 else 10
def rd(p):
    r={}
    for l in open(p):
        l=l.rstrip('\n'); i=l.find(' ')
        r[l[:i] if i>=0 else l]=l[i+1:] if i>=0 else ''
    return r
c=rd(d+'/cases.txt'); a=rd(d+'/impl.txt'); m=rd(d+'/model.txt'); o=rd(d+'/oracle.txt')
n=0; bad=0; total=0; wf={}
for k in c:
    f=c[k].split(' ')
    if f[0]!='cuts': continue
    lo=int(f[3]); x=a[k].split('|'); y=m.get(k,'').split('|')
    wf[a[k][:4]]=wf.get(a[k][:4],0)+1
    total+=len(x)
    if len(x)!=len(y):
        print('---',k,'cut count',len(x),len(y)); bad+=1; continue
    for i,(p,q) in enumerate(zip(x,y)):
        if p!=q:
            bad+=1; n+=1
            if n<=mx:
                print('--- case',k,'cut',lo+i,'opts',f[1][:40],'bounds',f[6],'gz',f[7] if len(f)>7 else '')
                print('   impl ',p[:500]); print('   model',q[:500])
print('cuts compared',total,'mismatching',bad,wf)
