#!/bin/sh
# seedrun.sh <seed-name> <prop> [prop...]: apply /verif/seeded/<seed>/patch.diff to /repo, run the quick checks, undo.
seed=$1; shift
cd /repo || exit 2
[ -z "$(git status --porcelain)" ] || { echo "/repo not clean"; exit 2; }
git apply /verif/seeded/$seed/patch.diff || { echo "cannot apply"; exit 2; }
for p in "$@"; do
  cd /verif && VERIF_SEED=${VERIF_SEED:-1} ./check $p > /tmp/seedrun_${seed}_$p.txt 2>&1; rc=$?
  echo "seed=$seed check=$p exit=$rc $(grep -c '^VIOLATION' /tmp/seedrun_${seed}_$p.txt) violation line(s)"
  grep '^VIOLATION\|INFRA' /tmp/seedrun_${seed}_$p.txt | cut -c1-220
done
git -C /repo checkout -- .
# the evidence files must describe runs on the unchanged tree: put back what these runs overwrote
git -C /verif checkout -- evidence 2>/dev/null
# regenerate the Gen files for the unchanged tree
/verif/go/bin/extract /repo /verif/lean/Gowarc/Gen >/dev/null
