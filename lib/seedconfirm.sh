#!/bin/sh
# seedconfirm.sh <worktree-id> <seed-name>: copy an agent's seed into /verif/seeded/<seed-name> after confirming, in the
# scratch worktree /tmp/wt/<id>: patch applies, library builds, existing tests pass with it, demo fails with it, demo passes without it.
export GOFLAGS=-mod=mod GOPROXY=off GOSUMDB=off GOTOOLCHAIN=local
id=$1; name=$2; wt=/tmp/wt/$id; out=$wt/seed_out
[ -f $out/patch.diff ] || { echo "no patch"; exit 1; }
cd $wt || exit 1
git checkout -q -- . ; git clean -fdq -e seed_out
git checkout -q --detach $(git -C /repo rev-parse HEAD)
mkdir -p /tmp/wt/_keep_$id && rm -rf /tmp/wt/_keep_$id/* && cp -r $out/* /tmp/wt/_keep_$id/ && rm -rf $out
git apply /tmp/wt/_keep_$id/patch.diff || { echo "patch does not apply"; exit 1; }
pkgdir=$(git diff --name-only | head -1 | xargs dirname)
go build ./... || { echo "does not build"; exit 1; }
if go test -vet=off -count=1 ./... >/tmp/wt/_t1_$id.log 2>&1; then echo "existing tests pass WITH change"; else echo "existing tests FAIL with change"; tail -5 /tmp/wt/_t1_$id.log; fi
demopkg=$(grep -m1 '^package ' /tmp/wt/_keep_$id/demo_test.go | awk '{print $2}')
case $demopkg in diskbuffer*) ddir=internal/diskbuffer;; *) ddir=.;; esac
cp /tmp/wt/_keep_$id/demo_test.go $ddir/zz_seed_demo_test.go
tests=$(grep -o '^func Test[A-Za-z0-9_]*' /tmp/wt/_keep_$id/demo_test.go | sed 's/func //' | paste -sd'|')
if go test -vet=off -count=1 -run "^($tests)\$" ./$ddir/ >/tmp/wt/_t2_$id.log 2>&1; then echo "demo PASSES with change (bad)"; else echo "demo fails with change (good)"; fi
git checkout -q -- . 
if go test -vet=off -count=1 -run "^($tests)\$" ./$ddir/ >/tmp/wt/_t3_$id.log 2>&1; then echo "demo passes without change (good)"; else echo "demo FAILS without change (bad)"; tail -5 /tmp/wt/_t3_$id.log; fi
rm -f $ddir/zz_seed_demo_test.go
mkdir -p /verif/seeded/$name && cp /tmp/wt/_keep_$id/patch.diff /tmp/wt/_keep_$id/demo_test.go /tmp/wt/_keep_$id/notes.md /verif/seeded/$name/
echo "copied to /verif/seeded/$name"
