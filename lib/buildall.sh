#!/bin/bash
# build every Lean module of the project (models, lemmas, property theorems, driver) and show only errors
cd /verif/lean
mods=$(find Gowarc -name '*.lean' | sed 's/\.lean$//; s#/#.#g' | sort)
timeout 3000 lake build $mods driver 2>&1 | grep -v '^✔' | grep -v 'linter\|Hint\|apply\]\|^$\|unused\|Note' | grep -A${1:-25} 'error' | head -${2:-150}
echo "buildall done"
