#!/usr/bin/python3
"""showdiff.py <rundir> [max]: print first differing ';'-separated step of mismatching cases"""
import sys
d=sys.argv[1]; mx=int(sys.argv[2]) if len(sys.argv)>2 else 10
def rd(p):
    r={}
    for l in open(p):
        l=l.rstrip('\n'); i=l.find(' ')
        r[l[:i] if i>=0 else l]=l[i+1:] if i>=0 else ''
    return r
c=rd(d+'/cases.txt'); a=rd(d+'/impl.txt'); m=rd(d+'/model.txt'); o=rd(d+'/oracle.txt')
n=0
for k in c:
    if a.get(k)!=m.get(k):
        n+=1
        if n>mx: continue
        x=a[k].split(';'); y=m.get(k,'').split(';')
        ops=c[k].split(' ',1)[1].split(';') if ' ' in c[k] else []
        for i,(p,q) in enumerate(zip(x,y)):
            if p!=q:
                print(k,'step',i,'op',ops[i] if i<len(ops) else '?','\n   impl ',p[:300],'\n   model',q[:300],'\n   oracle',o.get(k,'')[:200]); break
        else:
            print(k,'len differs',len(x),len(y), a[k][:200], '|||', m.get(k,'')[:200])
print('mismatches',n,'of',len(c))
