#!/usr/bin/python3
"""Regenerates /verif/MANIFEST.json from lib/props.py (single source of truth for what is claimed)."""
import json, os, sys
sys.path.insert(0, os.path.dirname(os.path.abspath(__file__)))
from props import PROPS, NOT_CLAIMED, HOOK_COMMITS

VERIF = os.path.dirname(os.path.dirname(os.path.abspath(__file__)))
checks = []
for pid in sorted(PROPS):
    c = PROPS[pid]
    checks.append({
        "property_id": pid,
        "quick_cmd": "./check %s --tier quick" % pid,
        "thorough_cmd": "./check %s --tier thorough" % pid,
        "evidence_file": "/verif/evidence/%s.json" % pid,
        "replay_cmd_template": "./check %s --replay {path}" % pid,
        "engine": "lean4-proof+correspondence",
        "level_claimed": {"category": "proof", "text": c["level_text"], "design_ref": c.get("design_ref", "DESIGN.md section 5")},
        "level_note": c["level_note"],
        "technique": c.get("technique", "Lean 4 theorems over an executable model; model tied to /repo by regenerated tables and a differential correspondence check"),
    })
m = {
    "version": 1,
    "setup_cmd": "./setup.sh",
    "hooks": {
        "guard": "verif",
        "enable": "go build -tags verif -overlay /verif/go/overlay.json (export wrappers live in /verif/go/overlay and are compiled into the package through the overlay; schedule points in /repo are guarded by the verif build tag)",
        "baseline_off_cmd": "cd /repo && go build ./... && go test -vet=off -count=1 ./...",
        "source_commits": HOOK_COMMITS,
        "add_only": True,
    },
    "engines": [
        {"name": "lean4-proof+correspondence", "path": "/verif/check",
         "serves_properties": sorted(PROPS),
         "kind_free_text": "Lean 4 (core only) executable model + property theorems (lake build, axiom audit via #audit_ns, leanchecker in the thorough tier); go/ast translator regenerates Gen/*.lean from /repo on every run; Go correspondence harness runs the implementation built from /repo's working tree and the compiled Lean driver on the same seeded cases and diffs canonical outcomes; implementation-level oracles search for failing inputs"},
    ],
    "checks": checks,
    "not_applicable": [{"property_id": k, "reason": v} for k, v in sorted(NOT_CLAIMED.items()) if k not in PROPS],
    "notes": "See DESIGN.md. Every check rebuilds the harness from /repo's working tree, regenerates the extracted tables, re-checks the theorems, runs the correspondence and the oracles. known_findings.json lists open findings (none suppress other violations) and fixed defects.",
}
json.dump(m, open(os.path.join(VERIF, "MANIFEST.json"), "w"), indent=1)
print("wrote MANIFEST.json with", len(checks), "checks,", len(m["not_applicable"]), "not claimed")
