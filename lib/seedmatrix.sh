#!/bin/sh
# seedmatrix.sh: apply every seeded change in turn and run the check(s) named first in its meta.json (caught_by);
# writes one line per seed to seeded/MATRIX.txt. Takes about an hour; /repo must be clean and otherwise unused.
cd /verif || exit 2
out=seeded/MATRIX.txt
: > $out.tmp
for d in seeded/*/; do
  s=$(basename $d)
  [ -f $d/patch.diff ] || continue
  if ! git -C /repo apply --check /verif/$d/patch.diff 2>/dev/null; then echo "$s STALE (patch no longer applies)" >> $out.tmp; continue; fi
  props=$(python3 -c "
import json,re,sys
m=json.load(open('$d/meta.json'))
c=m.get('caught_by',[])
ps=[]
for e in c[:1]:
    ps+=re.findall(r'C\d\d', e)[:2]
if not ps: ps=[m.get('breaks','')]
print(' '.join(dict.fromkeys(ps)))")
  res=$(sh lib/seedrun.sh $s $props 2>&1 | grep '^seed=' | sed 's/^seed=[^ ]* //' | tr '\n' ';')
  echo "$s $res" >> $out.tmp
done
mv $out.tmp $out
