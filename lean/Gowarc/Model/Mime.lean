/-
  Model of mime.WordDecoder{}.DecodeHeader (Go standard library, as used by warcfieldsparser.go parseLine):
  RFC 2047 encoded-words with charsets utf-8, iso-8859-1, us-ascii; B and Q encodings; no CharsetReader.
-/
import Gowarc.Model.Digest
import Gowarc.Model.Buffer
namespace Gowarc

/-- index of the first occurrence of the two-byte pattern `a b` -/
def find2 (a b : UInt8) : Bytes → Option Nat
  | [] => none
  | [_] => none
  | x :: y :: rest => if x == a && y == b then some 0 else (find2 a b (y :: rest)).map (· + 1)

def qHex (b : UInt8) : Option UInt8 :=
  if 48 ≤ b && b ≤ 57 then some (b - 48)
  else if 65 ≤ b && b ≤ 70 then some (b - 55)
  else if 97 ≤ b && b ≤ 102 then some (b - 87)
  else none

/-- mime qDecode -/
def qDecode : Bytes → Option Bytes
  | [] => some []
  | 95 :: rest => (qDecode rest).map (32 :: ·)                       -- '_'
  | 61 :: a :: b :: rest =>                                           -- '=' HH
    match qHex a, qHex b with
    | some x, some y => (qDecode rest).map ((x <<< 4 ||| y) :: ·)
    | _, _ => none
  | 61 :: _ => none
  | c :: rest =>
    if (32 ≤ c && c ≤ 126) || c == 10 || c == 13 || c == 9 then (qDecode rest).map (c :: ·) else none

def decodeWord (encoding : UInt8) (text : Bytes) : Option Bytes :=
  if encoding == 66 || encoding == 98 then b64Dec text
  else if encoding == 81 || encoding == 113 then qDecode text
  else none

/-- strings.EqualFold against an ASCII lower-case target: ASCII letters fold by case, and U+017F (C5 BF) folds to `s`,
    U+212A (E2 84 AA) to `k` -/
def foldEq : Bytes → Bytes → Bool
  | [], [] => true
  | t :: ts, 0xC5 :: 0xBF :: xs => t == 115 && foldEq ts xs
  | t :: ts, 0xE2 :: 0x84 :: 0xAA :: xs => t == 107 && foldEq ts xs
  | t :: ts, x :: xs => x < 128 && toLowerB x == t && foldEq ts xs
  | _, _ => false

def utf8Of (c : UInt8) : Bytes := if c < 128 then [c] else [(0xC0 : UInt8) ||| (c >>> 6), (0x80 : UInt8) ||| (c &&& 0x3F)]

/-- WordDecoder.convert without CharsetReader; none = "unhandled charset" -/
def mimeConvert (charset content : Bytes) : Option Bytes :=
  if foldEq (bs "utf-8") charset then some content
  else if foldEq (bs "iso-8859-1") charset then some (content.flatMap utf8Of)
  else if foldEq (bs "us-ascii") charset then some (content.flatMap (fun c => if c ≥ 128 then [0xEF, 0xBF, 0xBD] else [c]))
  else none

def allLws (l : Bytes) : Bool := l.all (fun b => b == 32 || b == 9 || b == 10 || b == 13)

/-- the `for` loop of DecodeHeader; every iteration drops at least two bytes of `header`, `fuel` ≥ its length suffices -/
def mimeLoop : Nat → Bytes → Bool → Bytes → Option Bytes
  | 0, header, _, buf => some (buf ++ header)
  | fuel + 1, header, between, buf =>
    match find2 61 63 header with
    | none => some (buf ++ header)
    | some start =>
      match Buf.indexOf 63 (header.drop (start + 2)) with
      | none => some (buf ++ header)
      | some i =>
        if header.length < start + 2 + i + 1 + 4 then some (buf ++ header)
        else if header.getD (start + 2 + i + 1 + 1) 0 != 63 then some (buf ++ header)
        else
          match find2 63 61 (header.drop (start + 2 + i + 1 + 2)) with
          | none => some (buf ++ header)
          | some j =>
            match decodeWord (header.getD (start + 2 + i + 1) 0) ((header.drop (start + 2 + i + 1 + 2)).take j) with
            | none => mimeLoop fuel (header.drop (start + 2)) false (buf ++ header.take (start + 2))
            | some content =>
              match mimeConvert ((header.drop (start + 2)).take i) content with
              | none => none
              | some conv =>
                mimeLoop fuel (header.drop (start + 2 + i + 1 + 2 + j + 2)) true
                  ((if start > 0 && (!between || !allLws (header.take start)) then buf ++ header.take start else buf) ++ conv)

/-- mime.WordDecoder{}.DecodeHeader; none = error -/
def decodeHeader (header : Bytes) : Option Bytes :=
  match find2 61 63 header with
  | none => some header
  | some i => mimeLoop (header.length + 1) (header.drop i) false (header.take i)

end Gowarc
