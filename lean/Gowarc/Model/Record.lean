/-
  Model of the record level: options, validateHeader (headerfielddef.go), parseBlock / ValidateDigest (record.go),
  the block kinds (block.go, httpblock.go, warcfieldsblock.go, revisitblock.go) as far as their bytes and digests go,
  Unmarshal (unmarshaler.go), the builder (recordbuilder.go) and the marshaler (marshaler.go).

  External code is a parameter: `H` (hash functions), `Ω` (time / IP / URL / net/http head parsing verdicts).
-/
import Gowarc.Model.HeaderParser
import Gowarc.Gen.Defaults
namespace Gowarc

structure Opts where
  syn : Pol
  spec : Pol
  unk : Pol
  blk : Pol
  skipParseBlock : Bool
  addMissingRecordId : Bool
  addMissingContentLength : Bool
  addMissingDigest : Bool
  fixContentLength : Bool
  fixDigest : Bool
  fixSyntaxErrors : Bool
  fixWarcFieldsBlockErrors : Bool
  defaultAlg : Bytes
  defaultEnc : Enc
  deriving Repr

/-- verdicts of the external validators gowarc calls -/
structure Oracles where
  time : Bytes → Bool        -- time.Parse(time.RFC3339, v) succeeds
  ip   : Bytes → Bool        -- net.ParseIP(v) != nil
  uri  : Bytes → Bool        -- whatwg url parser accepts v
  http : Bool → Bytes → Bool -- http.ReadResponse (true) / http.ReadRequest (false) accepts the head
  /-- the gzip codec on the bytes from the start of a member to the end of the stream (a deterministic decoder's verdict is
      a function of exactly these bytes): `none` = no verdict supplied; `some (.inl tag)` = the member header is rejected;
      `some (.inr (content, bad, consumed))` = decompressed bytes of this member, whether the member then ends in an error
      (truncated / corrupt) instead of cleanly, and the number of compressed bytes up to the end of the member -/
  gz   : Bytes → Option (Sum Tag (Bytes × Bool × Nat)) := fun _ => none

/-- state threaded through validation: the header (repairs rewrite it) and the findings -/
structure St where
  hdr : Fields
  fnd : List Tag

/-- computations that may stop with an error tag; the state survives the error (Go returns the Validation with the error) -/
def M (α : Type) := St → Except Tag α × St

instance : Monad M where
  pure a := fun s => (.ok a, s)
  bind m f := fun s => match m s with
    | (.ok a, s') => f a s'
    | (.error e, s') => (.error e, s')

def M.fail {α} (t : Tag) : M α := fun s => (.error t, s)
def M.get : M St := fun s => (.ok s, s)
def M.hdr : M Fields := fun s => (.ok s.hdr, s)
def M.setHdr (h : Fields) : M Unit := fun s => (.ok (), { s with hdr := h })
def M.finding (t : Tag) : M Unit := fun s => (.ok (), { s with fnd := s.fnd ++ [t] })
def M.addFindings (l : List Tag) : M Unit := fun s => (.ok (), { s with fnd := s.fnd ++ l })

/-- THE policy switch: ignore = nothing, warn = record a finding, fail = return the error -/
def site (p : Pol) (t : Tag) : M Unit :=
  match p with
  | .ignore => pure ()
  | .warn => M.finding t
  | .fail => M.fail t

/-- a policy site behind a condition -/
def condSite (c : Bool) (p : Pol) (t : Tag) : M Unit := if c then site p t else pure ()

/-- an unconditional error behind a condition -/
def condFail (c : Bool) (t : Tag) : M Unit := if c then M.fail t else pure ()

/-! ### headerfielddef.go -/

def recTypeOfName (lc : Bytes) : Nat :=
  match Gen.stringToRecordType.find? (fun p => bs p.1 == lc) with
  | some p => p.2
  | none => 0

def recTypeName (rt : Nat) : Bytes :=
  match Gen.recordTypeString.find? (fun p => p.1 == rt) with
  | some p => bs p.2
  | none => bs "unknown"

def constRT (n : String) : Nat :=
  match Gen.recordTypeConsts.find? (fun p => p.1 == n) with
  | some p => p.2
  | none => 0

def RT_Warcinfo := constRT "Warcinfo"
def RT_Resource := constRT "Resource"
def RT_Revisit := constRT "Revisit"
def RT_Conversion := constRT "Conversion"
def RT_Continuation := constRT "Continuation"

/-- the value of the first WARC-Type field (case-insensitive name), or empty -/
def typeFieldOf (h : Fields) : Bytes :=
  match h.find? (fun nv => lowerKey nv.1 == bs "warc-type") with
  | some nv => nv.2
  | none => []

def rtOf (h : Fields) : Nat := recTypeOfName (lowerKey (typeFieldOf h))

def resolveRecordType (o : Opts) : M Nat := do
  let h ← M.hdr
  condSite (typeFieldOf h).isEmpty o.spec .hdrNoType
  condSite (rtOf h == 0) o.unk .hdrUnknownType
  pure (rtOf h)

def defOf (name : Bytes) : FieldDef :=
  match lookupDef (lowerKey name) with
  | some d => d
  | none => Gen.fieldDefs.headD ⟨"", "pUnknown", true, 255, 3⟩

def validatorOf (d : FieldDef) : Bool × String :=
  match Gen.validators.find? (fun v => v.1 == d.validator) with
  | some v => v.2
  | none => (false, "none")

/-- strconv.ParseUint(value, 10, 63): decimal digits only, value < 2^63 -/
def isUint63 (v : Bytes) : Bool := !v.isEmpty && v.all isDigit && digitsVal v < 9223372036854775808

/-- the value check a validator performs once checkLegal said "validate" -/
def valueOk (Ω : Oracles) (check : String) (v : Bytes) : Bool :=
  match check with
  | "uri" => Ω.uri v
  | "ip" => Ω.ip v
  | "time" => Ω.time v
  | "warcid" => (trim (fun b => b == 60 || b == 62) v).length + 2 == v.length && Ω.uri (trim (fun b => b == 60 || b == 62) v)
  | "uint" => isUint63 v
  | "ulong" => isUint63 v
  | "atoi" => (parseInt10 v).isSome
  | "parseint0" => (parseInt10 v).isSome
  | _ => true

/-- validationFunc of a field incl. checkLegal: true = the field is reported (illegal for the type, or ill-formed) -/
def fieldBad (Ω : Oracles) (verId rt : Nat) (d : FieldDef) (v : Bytes) : Bool :=
  if !(validatorOf d).1 then false
  else if verId &&& d.specMask == 0 then false
  else if rt == 0 then !valueOk Ω (validatorOf d).2 v
  else if rt &&& d.recMask == 0 then true
  else !valueOk Ω (validatorOf d).2 v

/-- the VALUE strconv.ParseInt(s, 10, 64) returns when its error is ignored: 0 on a syntax error, the nearest bound on
    a range error -/
def parseInt10Val (s : Bytes) : Int :=
  match s with
  | 45 :: r => if r.isEmpty || !r.all isDigit then 0 else (if digitsVal r ≤ 9223372036854775808 then -(Int.ofNat (digitsVal r)) else -9223372036854775808)
  | 43 :: r => if r.isEmpty || !r.all isDigit then 0 else (if digitsVal r ≤ 9223372036854775807 then Int.ofNat (digitsVal r) else 9223372036854775807)
  | r => if r.isEmpty || !r.all isDigit then 0 else (if digitsVal r ≤ 9223372036854775807 then Int.ofNat (digitsVal r) else 9223372036854775807)

/-- `l, _ := wf.GetInt64(ContentLength)` -/
def contentLengthOf (h : Fields) : Int :=
  if h.has (bs "Content-Length") then parseInt10Val (h.get (bs "Content-Length")) else 0

/-- int64 wrap-around of `l + 2` -/
def wrap64 (i : Int) : Int := if i > 9223372036854775807 then i - 18446744073709551616 else i

/-- the per-field loop of validateHeader (only run when spec > ignore) -/
def validateFieldsLoop (o : Opts) (Ω : Oracles) (verId rt : Nat) : Fields → M Unit
  | [] => pure ()
  | (n, v) :: rest => do
    condSite (fieldBad Ω verId rt (defOf n) v) o.spec .hdrField
    let h ← M.hdr
    condSite (!(defOf n).repeatable && decide ((h.getAll n).length > 1)) o.spec .hdrDuplicate
    validateFieldsLoop o Ω verId rt rest

def requiredLoop (o : Opts) : List String → M Unit
  | [] => pure ()
  | f :: rest => do
    let h ← M.hdr
    condSite (!h.has (bs f)) o.spec .hdrMissing
    requiredLoop o rest

def ctRule (h : Fields) (rt : Nat) : Bool := rt != RT_Continuation && decide (contentLengthOf h > 0) && !h.has (bs "Content-Type")
def concRule (h : Fields) (rt : Nat) : Bool :=
  (RT_Warcinfo ||| RT_Conversion ||| RT_Continuation) &&& rt != 0 && h.has (bs "WARC-Concurrent-To")

/-- the checks of validateHeader that only run when spec > ignore -/
def validateSpec (o : Opts) (Ω : Oracles) (verId rt : Nat) : M Unit := do
  let h ← M.hdr
  validateFieldsLoop o Ω verId rt h
  requiredLoop o Gen.requiredFields
  let h ← M.hdr
  condSite (ctRule h rt) o.spec .hdrMissingCT
  condSite (concRule h rt) o.spec .hdrConcurrent

def validateHeader (o : Opts) (Ω : Oracles) (verId : Nat) : M Nat := do
  let rt ← resolveRecordType o
  if o.spec != .ignore then validateSpec o Ω verId rt
  pure rt

/-! ### blocks -/

inductive BlockKind | generic | httpReq | httpResp | revisit | warcFields
  deriving DecidableEq, Repr

structure Block where
  kind : BlockKind
  raw : Bytes            -- what RawBytes() yields: protocol header ++ payload, or the content
  headLen : Nat          -- length of the protocol header inside `raw` (http kinds), else 0
  blockDigest : Digest
  payloadDigest : Option Digest
  deriving Repr

/-- httpblock.go headerBytes: lines up to and including the first one shorter than 3 bytes -/
def headerBytesLoop : Nat → Bytes → Bytes → Bytes × Bytes × Bool
  | 0, acc, rest => (acc, rest, false)
  | fuel + 1, acc, rest =>
    if !(readBytesNL rest).2.2 then (acc ++ (readBytesNL rest).1, [], false)        -- read error / EOF: separator not found
    else if (readBytesNL rest).1.length < 3 then (acc ++ (readBytesNL rest).1, (readBytesNL rest).2.1, true)
    else headerBytesLoop fuel (acc ++ (readBytesNL rest).1) (readBytesNL rest).2.1

def headerBytes (content : Bytes) : Bytes × Bytes × Bool := headerBytesLoop (content.length + 1) [] content

def digestFromField (o : Opts) (field : Bytes) : M Digest := do
  let h ← M.hdr
  match (if h.has field then newDigest (h.get field) o.defaultEnc else newDigest o.defaultAlg o.defaultEnc) with
  | some d => pure d
  | none => M.fail .digestAlg

def setInt (h : Fields) (n : Bytes) (i : Int) : Fields := h.set n (intToDec i)

/-- newHttpBlock on the available content bytes -/
def newHttpBlock (o : Opts) (Ω : Oracles) (content : Bytes) (bd pd : Digest) : M Block := do
  condFail (content.length < 4) .notHttp
  let hb := (headerBytes content).1
  let found := (headerBytes content).2.2
  condSite (!found) o.syn .httpEoh
  let hb' := if !found && o.fixSyntaxErrors then hb ++ crlf else hb
  let h ← M.hdr
  M.setHdr (if !found && o.fixSyntaxErrors && h.has (bs "Content-Length") then setInt h (bs "Content-Length") (wrap64 (contentLengthOf h + 2)) else h)
  let isResp := hasPrefix (bs "HTTP") hb'
  let parseInput := if !found && !o.fixSyntaxErrors then hb' ++ crlf else hb'
  condSite (!Ω.http isResp parseInput) o.blk .httpParse
  pure { kind := if isResp then .httpResp else .httpReq, raw := hb' ++ (headerBytes content).2.1, headLen := hb'.length,
         blockDigest := bd, payloadDigest := some pd }

/-- wrap the findings of the inner parse of a warc-fields block -/
def wfFindings : List Tag → M Unit
  | [] => pure ()
  | _ :: rest => do M.finding .wfBlock; wfFindings rest

/-- what the block axis does with the findings of the inner parse -/
def wfReport (blk : Pol) (inner : List Tag) : M Unit :=
  match blk with
  | .ignore => pure ()
  | .warn => wfFindings inner
  | .fail => condFail (!inner.isEmpty) .wfBlock

def ParseRes.fieldsOpt : ParseRes → Option Fields
  | .ok fs _ _ => some fs
  | .err _ _ => none
def ParseRes.findings : ParseRes → List Tag
  | .ok _ f _ => f
  | .err _ f => f
def ParseRes.errTag : ParseRes → Option Tag
  | .ok .. => none
  | .err t _ => some t

/-- newWarcFieldsBlock after the inner parse: report through the block axis, optionally rewrite the content, return the
    inner parse error regardless of the block policy -/
def wfFinish (blk : Pol) (fixWf : Bool) (content : Bytes) (bd : Digest) (res : ParseRes) : M Block := do
  wfReport blk res.findings
  match res.errTag with
  | some t => M.fail t
  | none => pure { kind := .warcFields,
                   raw := (match res.fieldsOpt with
                     | some fs => if fixWf && !res.findings.isEmpty then fs.write else content
                     | none => content),
                   headLen := 0, blockDigest := bd, payloadDigest := none }

/-- under the ignore syntax policy the inner parse reports nothing, so WithFixWarcFieldsBlockErrors finds out whether the
    block needs the rewrite with a second parse that reports (warn); the rewritten block is the serialisation of the
    fields of the FIRST parse -/
def wfDetectFix (content : Bytes) (b : Block) : Block :=
  match parseFields .warn ⟨content, false⟩, parseFields .ignore ⟨content, false⟩ with
  | .ok _ f _, .ok fs _ _ => if !f.isEmpty then { b with raw := fs.write } else b
  | _, _ => b

def newWarcFieldsBlock (o : Opts) (content : Bytes) (fault : Bool) (bd : Digest) : M Block := do
  condSite fault o.syn .reader
  let b ← wfFinish o.blk o.fixWarcFieldsBlockErrors content bd (parseFields o.syn ⟨content, false⟩)
  pure (if o.fixWarcFieldsBlockErrors && o.syn == .ignore then wfDetectFix content b else b)

/-- record.go parseBlock -/
def parseBlock (o : Opts) (Ω : Oracles) (rt : Nat) (content : Bytes) (fault : Bool) : M Block := do
  let bd ← digestFromField o (bs "WARC-Block-Digest")
  let pd ← digestFromField o (bs "WARC-Payload-Digest")
  let h ← M.hdr
  let ct := lowerKey (h.get (bs "Content-Type"))
  if !o.skipParseBlock && rt &&& Gen.httpBlockMask != 0 && hasPrefix (bs Gen.c_ApplicationHttp) ct then
    newHttpBlock o Ω content bd pd
  else if !o.skipParseBlock && rt == RT_Revisit then
    if fault then M.fail .reader
    else pure { kind := .revisit, raw := content, headLen := content.length, blockDigest := bd, payloadDigest := none }
  else if !o.skipParseBlock && hasPrefix (bs Gen.c_ApplicationWarcFields) ct then
    newWarcFieldsBlock o content fault bd
  else
    pure { kind := .generic, raw := content, headLen := 0, blockDigest := bd,
           payloadDigest := if rt == RT_Resource then some pd else none }

section
variable (H : Alg → Bytes → Bytes)

def Block.payload (b : Block) : Bytes := b.raw.drop b.headLen

/-- one digest field: add when missing, check (and repair) when present -/
def checkDigest (o : Opts) (field : Bytes) (tag : Tag) (d : Digest) (data : Bytes) : M Unit := do
  let h ← M.hdr
  if d.hash.isEmpty then
    M.setHdr (if o.addMissingDigest then h.set field (d.format H data) else h)
  else do
    condSite (o.spec != .ignore && !d.valid H data) o.spec tag
    let h ← M.hdr
    M.setHdr (if o.spec != .ignore && !d.valid H data && o.fixDigest then h.set field (d.format H data) else h)

def lengthBad (o : Opts) (h : Fields) (b : Block) : Bool :=
  o.spec != .ignore && h.has (bs "Content-Length") && natToDec b.raw.length != h.get (bs "Content-Length")

/-- record.go ValidateDigest (the block has been read completely; a reader fault while caching it is an error) -/
def validateDigest (o : Opts) (rt : Nat) (b : Block) (fault : Bool) : M Unit := do
  -- Cache(): http kinds and generic blocks read their source; revisit / warc-fields blocks hold their bytes already
  condFail (fault && (b.kind == .generic || b.kind == .httpReq || b.kind == .httpResp)) .reader
  let h ← M.hdr
  condSite (lengthBad o h b) o.spec .length
  let h' ← M.hdr
  M.setHdr (if lengthBad o h b && o.fixContentLength then h'.set (bs "Content-Length") (natToDec b.raw.length) else h')
  checkDigest H o (bs "WARC-Block-Digest") .digestBlock b.blockDigest b.raw
  let h ← M.hdr
  if rt == RT_Revisit || h.has (bs "WARC-Segment-Number") then pure ()
  else match b.payloadDigest with
    | some pd => checkDigest H o (bs "WARC-Payload-Digest") .digestPayload pd b.payload
    | none => pure ()

/-! ### records -/

structure Rec where
  verTxt : Bytes
  verId : Nat
  rt : Nat
  hdr : Fields
  block : Block
  deriving Repr

/-- marshaler.go writeRecord -/
def marshal (verTxt : Bytes) (hdr : Fields) (blockRaw : Bytes) : Bytes :=
  bs "WARC/" ++ verTxt ++ crlf ++ hdr.write ++ crlf ++ blockRaw ++ crlfcrlf

/-- outcome of Unmarshal: record (if one was returned), skipped junk, findings, error, remaining stream -/
structure URes where
  record : Option Rec
  offset : Nat
  fnd : List Tag
  err : Option Tag
  rest : Bytes

def isMagic (m : Bytes) : Bool := (m.take 2 == [0x1f, 0x8b]) || m.take 5 == bs "WARC/"

/-- the search for the start of a record: returns the number of skipped bytes and the stream at the magic, or the
    error when fewer than 5 bytes are left -/
def skipJunk : Nat → Bytes → Nat → Sum Nat (Nat × Bytes)
  | 0, _, off => .inl off
  | fuel + 1, rest, off =>
    if rest.length < 5 then .inl off
    else if isMagic rest then .inr (off, rest)
    else skipJunk fuel (rest.drop 1) (off + 1)

def versionOf (o : Opts) (txt : Bytes) : M (Bytes × Nat) :=
  match Gen.versions.find? (fun p => bs p.1 == txt) with
  | some p => pure (txt, p.2)
  | none => do site o.spec .specVersion; pure (txt, 0)

def endTag (fault : Bool) : Tag := if fault then .reader else .eof

/-- how many of the bytes after the block the trailer check consumes when they are not CR LF CR LF -/
def trailerConsumed (buf : Bytes) : Nat :=
  if buf.length == 0 then 0
  else if buf.length == 1 && buf == [LF] then 1
  else if buf.length == 2 && buf == [LF, LF] then 2
  else if buf.length < 4 then buf.length
  else 0

/-- Unmarshal once the header fields `fs` have been parsed and `s'` is the stream behind the header section:
    validation, block (cut out by Content-Length), digests, trailer. From here on a record object exists. -/
def unmarshalTail (o : Opts) (Ω : Oracles) (vtxt : Bytes) (vid : Nat) (fs : Fields) (s' : Stream) : M (Option Rec × Bytes) := do
  M.setHdr fs
  let rt ← validateHeader o Ω vid
  let h ← M.hdr
  let len := contentLengthOf h
  let content := if len < 0 then s'.rest else s'.rest.take len.toNat
  let after := if len < 0 then [] else s'.rest.drop len.toNat
  let cfault := s'.fault && (decide (len < 0) || decide (s'.rest.length < len.toNat))   -- the content reader hit the end of the stream
  let b ← parseBlock o Ω rt content cfault
  validateDigest H o rt b cfault
  -- "discard any remaining bytes in block": only a warc-fields block can get here with a failing content reader
  condFail (cfault && b.kind == .warcFields) .reader
  -- trailer
  condSite (after.take 4 != crlfcrlf) o.spec .specTrailer
  let h ← M.hdr
  pure (some { verTxt := vtxt, verId := vid, rt := rt, hdr := h, block := b },
        if after.take 4 == crlfcrlf then after.drop 4 else after.drop (trailerConsumed (after.take 4)))

/-- what Unmarshal does with the outcome of the header parser -/
def unmarshalRest (o : Opts) (Ω : Oracles) (vtxt : Bytes) (vid : Nat) (res : ParseRes) : M (Option Rec × Bytes) :=
  match res with
  | .err t fnd => do M.addFindings fnd; M.fail t
  | .ok fs fnd s' => do M.addFindings fnd; unmarshalTail H o Ω vtxt vid fs s'

/-- the record body after the version line: header, validation, block, digests, trailer. Runs in `M`. -/
def unmarshalBody (o : Opts) (Ω : Oracles) (s : Stream) (verLine : Bytes) : M (Option Rec × Bytes) := do
  condSite (decide (verLine.length < 2) || verLine.getD (verLine.length - 2) 0 != CR) o.syn .synMissingCR
  let v ← versionOf o (trim isWs verLine)
  unmarshalRest H o Ω v.1 v.2 (parseFields o.syn s)

/-- the part of Unmarshal after the five magic bytes `WARC/` were read from `r` (the plain stream or a gzip member) -/
def unmarshalAfterMagic (o : Opts) (Ω : Oracles) (off : Nat) (fnd0 : List Tag) (after : Stream) : URes :=
  if !(readBytesNL after.rest).2.2 then ⟨none, off, fnd0, some (endTag after.fault), []⟩
  else
    match unmarshalBody H o Ω ⟨(readBytesNL after.rest).2.1, after.fault⟩ (readBytesNL after.rest).1 ⟨[], fnd0⟩ with
    | (.ok (r, rest), st) => ⟨r, off, st.fnd, none, rest⟩
    | (.error t, st) => ⟨none, off, st.fnd, some t, []⟩

/-- after the record was read from a gzip member: the rest of the member is drained (a damaged member surfaces here at
    the latest), and reading continues after the member -/
def gzFinish (r : URes) (bad : Bool) (restAfterMember : Bytes) : URes :=
  match r.err with
  | some _ => r
  | none => if bad then { r with err := some .reader } else { r with rest := restAfterMember }

/-- Unmarshal -/
def unmarshal (o : Opts) (Ω : Oracles) (s : Stream) : URes :=
  match skipJunk (s.rest.length + 1) s.rest 0 with
  | .inl off =>
    -- fewer than 5 bytes left: Peek fails with the stream's end condition
    if o.syn == .fail && off > 0 then ⟨none, 0, [], some .synStart, s.rest⟩
    else ⟨none, off, [], some (endTag s.fault), []⟩
  | .inr (off, atMagic) =>
    if o.syn == .fail && off > 0 then ⟨none, 0, [], some .synStart, s.rest⟩
    else
      let fnd0 : List Tag := if o.syn != .ignore && off != 0 then [.synJunk] else []
      if atMagic.take 2 == [0x1f, 0x8b] then
        -- one gzip member per record: the record is read from the decompressed member, the rest of the member is drained
        match Ω.gz atMagic with
        | none => ⟨none, off, fnd0, some .other, []⟩
        | some (.inl t) => ⟨none, off, fnd0, some t, []⟩
        | some (.inr (content, bad, consumed)) =>
          if content.length < 5 then ⟨none, off, fnd0, some (if content.isEmpty && !bad then .eof else .reader), []⟩
          else if content.take 5 != bs "WARC/" then ⟨none, off, fnd0, some .versionMissing, []⟩
          else
            gzFinish (unmarshalAfterMagic H o Ω off fnd0 ⟨content.drop 5, bad⟩) bad (atMagic.drop consumed)
      else unmarshalAfterMagic H o Ω off fnd0 ⟨atMagic.drop 5, s.fault⟩

/-! ### builder -/

structure BRes where
  record : Option Rec
  fnd : List Tag
  err : Option Tag

/-- the monadic part of Build: validate the header, parse the block, adjust a length the builder added itself, validate
    length and digests. `cla` = Build added the Content-Length field itself. -/
def buildBody (o : Opts) (Ω : Oracles) (verTxt : Bytes) (verId rt0 : Nat) (cla : Bool) (content : Bytes) : M Rec := do
  let rtv ← validateHeader o Ω verId
  let b ← parseBlock o Ω (if rt0 == 0 then rtv else rt0) content false
  -- the length the builder itself added describes the block that gets serialized (WithFixWarcFieldsBlockErrors may have
  -- rewritten a warc-fields block)
  let h0 ← M.hdr
  M.setHdr (if cla && b.kind == .warcFields && b.raw.length != content.length then setInt h0 (bs "Content-Length") b.raw.length else h0)
  validateDigest H o (if rt0 == 0 then rtv else rt0) b false
  let h ← M.hdr
  pure { verTxt := verTxt, verId := verId, rt := (if rt0 == 0 then rtv else rt0), hdr := h, block := b }

/-- recordbuilder.go Build: `rt0` is the type given to NewRecordBuilder / SetRecordType (0 = by header), `hdr` the
    header as the Add calls left it, `content` the bytes fed to the builder (C14: feeding order and spill threshold are
    invisible), `newId` the id generator's answer. -/
def build (o : Opts) (Ω : Oracles) (verTxt : Bytes) (verId : Nat) (rt0 : Nat) (hdr : Fields) (content : Bytes) (newId : Bytes) : BRes :=
  let hdr1 := if o.addMissingRecordId && !hdr.has (bs "WARC-Record-ID") then hdr.setId (bs "WARC-Record-ID") newId else hdr
  let hdr2 := if o.addMissingContentLength && !hdr1.has (bs "Content-Length") then setInt hdr1 (bs "Content-Length") content.length else hdr1
  match buildBody H o Ω verTxt verId rt0 (o.addMissingContentLength && !hdr1.has (bs "Content-Length")) content ⟨hdr2, []⟩ with
  | (.ok r, st) => ⟨some r, st.fnd, none⟩
  | (.error t, st) => ⟨none, st.fnd, some t⟩

end
end Gowarc
