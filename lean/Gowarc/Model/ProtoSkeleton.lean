/-
  The synchronisation skeleton of warcfile.go that the model `Proto` (Model/Proto.lean) was written from, function by
  function. How the model reads it:

  * NewWarcFileWriter — four unbuffered channels (closing, closed, middleCh, jobs); the dispatcher goroutine: `for { select
    { recv closing -> exit(nil,false) ; recv middleCh -> select { recv closing -> exit(v,true) ; send jobs } } }` is
    DPc.d0 / DPc.d1 with steps cSignal0, wSend, cSignal1, dForward; `exit` = close closed; (if needSend: send jobs);
    close jobs — DPc.dx and step dLast, then DPc.dend; one `go worker` per writer.
  * worker — `range jobs { for records { w.Write } ; send responses }` then deferred `w.Close(); wg.Done()`:
    WPc.k0 → k1 (dForward/dLast) → k2 (kWork) → k0 (kReply); k0 → k3 (kExit, jobs closed) → kend (kClose).
  * WarcFileWriter.Write — `select { recv closed -> return nil ; default }`, createWriteJob (unbuffered result channel),
    `select { recv closed -> return nil ; send middleCh -> return recv result }`: steps wStartClosed / wStart, wGiveUp,
    wSend, kReply.
  * WarcFileWriter.Close — `select { send closing -> recv closed ; recv closed }`, wg.Wait: cSignal0/cSignal1/cStartClosed,
    cDone.
  * WarcFileWriter.Rotate — Close of every single writer in turn: step rotate.
  * singleWarcFileWriter.Write/Close take writeLock and release it by defer; write / close / writeRecord (the continuation
    path calls the lock-free `write`) never touch the lock: the per-file critical sections are finite and never nested,
    which is why kWork and rotate are single steps of the model.

  `C10_skeleton` (Props/C10skel.lean) states that the skeleton regenerated from /repo on this run is this one.
-/
namespace Gowarc.Proto

def expectedSkeleton : List (String × List String) := [
  ("NewWarcFileWriter", ["makechan struct{} buffered=0", "makechan struct{} buffered=0", "makechan *job buffered=0", "makechan *job buffered=0", "wg.add w.shutWriters", "go[", "func[", "func[", "close w.closed", "if[", "send w.jobs", "]", "close w.jobs", "]", "for[", "select[", "case[", "recv w.closing", "]then[", "call exit", "return", "]", "case[", "recv w.middleCh", "]then[", "select[", "case[", "recv w.closing", "]then[", "call exit", "return", "]", "case[", "send w.jobs", "]then[", "]", "]", "]", "]", "]", "]", "]", "for[", "go[", "call worker", "]", "]", "return"]),
  ("worker", ["defer[", "func[", "call w.Close", "wg.done w.shutWriters", "]", "]", "range jobs[", "range j.records[", "call w.Write", "]", "send j.responses", "]"]),
  ("WarcFileWriter.Write", ["select[", "case[", "recv w.closed", "]then[", "return nil", "]", "default[", "]", "]", "call w.createWriteJob", "select[", "case[", "recv w.closed", "]then[", "return nil", "]", "case[", "send w.middleCh", "]then[", "recv result", "return", "]", "]"]),
  ("WarcFileWriter.createWriteJob", ["makechan []WriteResponse buffered=0", "return"]),
  ("WarcFileWriter.Rotate", ["range w.writers[", "call writer.Close", "]", "return nil"]),
  ("WarcFileWriter.Close", ["select[", "case[", "send w.closing", "]then[", "recv w.closed", "]", "case[", "recv w.closed", "]then[", "]", "]", "wg.wait w.shutWriters", "return nil"]),
  ("singleWarcFileWriter.Write", ["lock w.writeLock", "defer[", "unlock w.writeLock", "]", "call w.write", "return"]),
  ("singleWarcFileWriter.write", ["if[", "if[", "if[", "call w.close", "]", "]", "]", "if[", "call w.createFile", "]", "call w.writeRecord", "return"]),
  ("singleWarcFileWriter.Close", ["lock w.writeLock", "defer[", "unlock w.writeLock", "]", "call w.close", "return"]),
  ("singleWarcFileWriter.close", ["return nil"]),
  ("singleWarcFileWriter.writeRecord", ["if[", "call w.gz.Close", "]", "if[", "call w.write", "return", "]", "return"])
]


end Gowarc.Proto
