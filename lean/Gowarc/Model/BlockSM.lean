/-
  Model of the lazy digest state machine of block.go (genericBlock) and httpblock.go (httpRequestBlock /
  httpResponseBlock): which accessor does what to the source reader, the digesting filter reader and the frozen digest
  strings. A generic block is the special case `head = []` without payload digest.

  `full = head ++ payload` is the complete block. The source of `payload` is either a one-shot stream (`cached = false`)
  or a re-readable spill buffer (`cached = true`). Readers handed out by RawBytes / PayloadBytes are consumed — fully,
  partly or not at all — before the next accessor call; `drain` says how many bytes the caller reads.
-/
import Gowarc.Model.Digest
namespace Gowarc

structure BlkSt where
  head : Bytes
  payload : Bytes
  isHttp : Bool
  cached : Bool
  filt : Bool          -- the first (digesting) filter reader has been installed
  pos : Nat            -- bytes of `payload` the source has delivered so far (all through the digesting filter)
  frozen : Bool        -- blockDigestString / payloadDigestString have been set
  deriving DecidableEq, Repr

inductive BOp
  | blockDigest | payloadDigest | size | cache | isCached
  | rawBytes (drain : Nat) | payloadBytes (drain : Nat)
  deriving DecidableEq, Repr

inductive BOut
  | digest (data : Bytes)        -- the returned string is format(H(data)): we record WHICH bytes the digest describes
  | size (n : Nat)
  | flag (b : Bool)
  | ok
  | errReaccessed
  | bytes (b : Bytes)
  deriving DecidableEq, Repr

namespace BlkSt

def full (s : BlkSt) : Bytes := s.head ++ s.payload

/-- BlockDigest(): install the filter if needed, drain whatever the source still has through it, freeze the strings -/
def doDigest (s : BlkSt) : BlkSt :=
  if s.frozen then s else { s with filt := true, pos := s.payload.length, frozen := true }

/-- bytes the digests have seen: the head (fed at construction) and the delivered part of the payload -/
def fedBlock (s : BlkSt) : Bytes := s.head ++ s.payload.take s.pos
def fedPayload (s : BlkSt) : Bytes := s.payload.take s.pos

/-- PayloadBytes() (for a generic block: RawBytes()): new state, and either an error or the bytes a caller draining
    `drain` bytes gets -/
def payloadAccess (s : BlkSt) (drain : Nat) : BlkSt × Option Bytes :=
  if !s.filt then
    -- first content access: the digesting filter over the source, from where the source stands
    ({ s with filt := true, pos := s.pos + min drain (s.payload.length - s.pos) }, some ((s.payload.drop s.pos).take drain))
  else
    -- later access: make sure the digests are complete, then a fresh reader from the start — if the source can seek
    if !(doDigest s).cached then (doDigest s, none)
    else (doDigest s, some (s.payload.take drain))

def step (s : BlkSt) : BOp → BlkSt × BOut
  | .blockDigest => (doDigest s, .digest (fedBlock (doDigest s)))
  | .payloadDigest => (doDigest s, .digest (fedPayload (doDigest s)))
  | .size => (doDigest s, .size (fedBlock (doDigest s)).length)
  | .isCached => (s, .flag s.cached)
  | .cache =>
    if s.cached then (s, .ok)
    else
      match (payloadAccess s s.payload.length).2 with
      | none => ((payloadAccess s s.payload.length).1, .errReaccessed)
      | some _ =>
        -- the whole stream went through the filter into the spill buffer
        ({ (payloadAccess s s.payload.length).1 with cached := true, frozen := true, pos := s.payload.length }, .ok)
  | .payloadBytes d =>
    (match (payloadAccess s d).2 with
     | none => ((payloadAccess s d).1, .errReaccessed)
     | some b => ((payloadAccess s d).1, .bytes b))
  | .rawBytes d =>
    -- RawBytes of an http block: PayloadBytes first, then MultiReader(head, payload reader); a caller draining d bytes
    -- takes them from the head first
    (match (payloadAccess s (d - s.head.length)).2 with
     | none => ((payloadAccess s (d - s.head.length)).1, .errReaccessed)
     | some b => ((payloadAccess s (d - s.head.length)).1, .bytes (s.head.take d ++ b)))

def run (s : BlkSt) : List BOp → List BOut
  | [] => []
  | op :: rest => (step s op).2 :: run (step s op).1 rest

end BlkSt
end Gowarc
