/-
  Model of warcfields.go (WarcFields) and headerfielddef.go normalizeName.
  One definition per Go function, written the way the Go code is.
-/
import Gowarc.Model.Basic
import Gowarc.Gen.FieldTable
namespace Gowarc

/-- Marker byte standing for "a non-ASCII rune that does not lower-case to ASCII". It never occurs in a table key. -/
def NOASCII : UInt8 := 255

/-- `strings.ToLower` as far as it matters for comparing with an ASCII key:
    ASCII bytes are lower-cased; U+212A (E2 84 AA, Kelvin sign) becomes `k`; U+0130 (C4 B0) becomes `i`;
    every other non-ASCII byte becomes a marker that matches nothing (Go yields a non-ASCII rune or U+FFFD). -/
def lowerKey : Bytes → Bytes
  | [] => []
  | 0xE2 :: 0x84 :: 0xAA :: rest => 107 :: lowerKey rest
  | 0xC4 :: 0xB0 :: rest => 105 :: lowerKey rest
  | b :: rest => (if b < 128 then toLowerB b else NOASCII) :: lowerKey rest

/-- token bytes of net/textproto `validHeaderFieldByte`. -/
def isTokenByte (b : UInt8) : Bool :=
  isDigit b || isUpper b || isLower b ||
  b == 33 || b == 35 || b == 36 || b == 37 || b == 38 || b == 39 || b == 42 || b == 43 ||
  b == 45 || b == 46 || b == 94 || b == 95 || b == 96 || b == 124 || b == 126

def canonLoop : Bool → Bytes → Bytes
  | _, [] => []
  | up, b :: rest =>
    (if up && isLower b then b - 32 else if !up && isUpper b then b + 32 else b) ::
      canonLoop ((if up && isLower b then b - 32 else if !up && isUpper b then b + 32 else b) == 45) rest

/-- `http.CanonicalHeaderKey`. -/
def canonicalHeaderKey (s : Bytes) : Bytes :=
  if s.all isTokenByte then canonLoop true s else s

def lookupDef (lc : Bytes) : Option FieldDef :=
  Gen.fieldDefs.find? (fun d => lowerAscii (bs d.name) == lc)

/-- headerfielddef.go normalizeName: canonical name. -/
def canon (name : Bytes) : Bytes :=
  match lookupDef (lowerKey name) with
  | some d => bs d.name
  | none => canonicalHeaderKey name

abbrev NV := Bytes × Bytes
abbrev Fields := List NV

namespace Fields

def get (fs : Fields) (key : Bytes) : Bytes :=
  match fs.find? (fun nv => nv.1 == canon key) with
  | some nv => nv.2
  | none => []

def getAll (fs : Fields) (key : Bytes) : List Bytes :=
  (fs.filter (fun nv => nv.1 == canon key)).map (·.2)

def has (fs : Fields) (key : Bytes) : Bool := fs.any (fun nv => nv.1 == canon key)

def add (fs : Fields) (name value : Bytes) : Fields := fs ++ [(canon name, value)]

/-- The `slices.DeleteFunc` closure of `Set`: keep non-matching entries, overwrite the first match, drop later ones.
    Returns the new list and the final `isSet`. -/
def setLoop (name value : Bytes) : Fields → Bool → Fields × Bool
  | [], isSet => ([], isSet)
  | (n, v) :: rest, isSet =>
    if n != name then ((n, v) :: (setLoop name value rest isSet).1, (setLoop name value rest isSet).2)
    else if isSet then setLoop name value rest true
    else ((n, value) :: (setLoop name value rest true).1, (setLoop name value rest true).2)

def set (fs : Fields) (name value : Bytes) : Fields :=
  if (setLoop (canon name) value fs false).2 then (setLoop (canon name) value fs false).1
  else (setLoop (canon name) value fs false).1 ++ [(canon name, value)]

/-- The bracketing rule shared by AddId / SetId; `none` = the call returns without doing anything. -/
def idValue (value : Bytes) : Option Bytes :=
  match value with
  | [] => none
  | b :: _ =>
    if b != 60 && value.getLast? != some 62 then some (60 :: value ++ [62]) else some value

def addId (fs : Fields) (name value : Bytes) : Fields :=
  match idValue value with
  | none => fs
  | some v => add fs name v

def setId (fs : Fields) (name value : Bytes) : Fields :=
  match idValue value with
  | none => fs
  | some v => set fs name v

def delete (fs : Fields) (key : Bytes) : Fields := fs.filter (fun nv => nv.1 != canon key)

/-- byte-wise lexicographic `<` on names (Go string comparison). -/
def bytesLt : Bytes → Bytes → Bool
  | [], [] => false
  | [], _ :: _ => true
  | _ :: _, [] => false
  | a :: x, b :: y => a < b || (a == b && bytesLt x y)

def insertSorted (nv : NV) : Fields → Fields
  | [] => [nv]
  | h :: t => if bytesLt h.1 nv.1 then h :: insertSorted nv t else nv :: h :: t

/-- `sort.SliceStable` by name: any stable sort produces this list (stable insertion sort: elements are inserted from the right, each before the first element that is not smaller). -/
def sort (fs : Fields) : Fields := fs.foldr insertSorted []

/-- `Write`: every pair as `Name: value CRLF`. -/
def write (fs : Fields) : Bytes := fs.flatMap (fun nv => nv.1 ++ [COLON, SP] ++ nv.2 ++ crlf)

def isCut (cut : Bytes) (b : UInt8) : Bool := cut.contains b

/-- `GetId`: `strings.Trim(Get(name), "<>")`. -/
def getId (fs : Fields) (key : Bytes) : Bytes := trim (fun b => b == 60 || b == 62) (get fs key)

end Fields

/-- `strconv.ParseInt(s, 10, 64)` / `strconv.Atoi` on a 64-bit platform: optional sign, decimal digits only, range check. -/
def parseInt10 (s : Bytes) : Option Int :=
  let (neg, digits) := match s with
    | 43 :: r => (false, r)
    | 45 :: r => (true, r)
    | r => (false, r)
  if digits.isEmpty || !digits.all isDigit then none
  else
    let v := digitsVal digits
    if neg then (if v ≤ 9223372036854775808 then some (-(Int.ofNat v)) else none)
    else (if v ≤ 9223372036854775807 then some (Int.ofNat v) else none)

end Gowarc

namespace Gowarc

/-- The operations of WarcFields the property quantifies over. `addTime`/`setTime` arrive as `add`/`set` with the
    value already formatted by Go's `time` package; `addInt`/`addInt64` carry the integer. -/
inductive FOp where
  | add (n v : Bytes) | addInt (n : Bytes) (i : Int) | addId (n v : Bytes)
  | set (n v : Bytes) | setInt (n : Bytes) (i : Int) | setId (n v : Bytes)
  | del (n : Bytes) | sort
  | get (n : Bytes) | getAll (n : Bytes) | getId (n : Bytes) | has (n : Bytes) | getInt (n : Bytes) | write

inductive FOut where
  | unit | bytes (b : Bytes) | list (l : List Bytes) | bool (b : Bool)
  | int (r : Option (Option Int))      -- none = field missing, some none = not an integer
  deriving DecidableEq

def Fields.step (fs : Fields) : FOp → Fields × FOut
  | .add n v => (fs.add n v, .unit)
  | .addInt n i => (fs.add n (intToDec i), .unit)
  | .addId n v => (fs.addId n v, .unit)
  | .set n v => (fs.set n v, .unit)
  | .setInt n i => (fs.set n (intToDec i), .unit)
  | .setId n v => (fs.setId n v, .unit)
  | .del n => (fs.delete n, .unit)
  | .sort => (fs.sort, .unit)
  | .get n => (fs, .bytes (fs.get n))
  | .getAll n => (fs, .list (fs.getAll n))
  | .getId n => (fs, .bytes (fs.getId n))
  | .has n => (fs, .bool (fs.has n))
  | .getInt n => (fs, .int (if fs.has n then some (parseInt10 (fs.get n)) else none))
  | .write => (fs, .bytes fs.write)

/-- run a sequence from the empty header; every intermediate state's serialisation is observed too -/
def Fields.run : Fields → List FOp → List (FOut × Bytes)
  | _, [] => []
  | fs, op :: rest => ((fs.step op).2, (fs.step op).1.write) :: Fields.run (fs.step op).1 rest

end Gowarc
