/-
  The file-system effects of the sequential writer (Model/Writer.lean) in the order the code issues them, and what a
  kill leaves behind.

  For a file the writer emits: create (O_EXCL, in-progress name); per member its bytes — one `byte` effect per byte, so
  that every prefix of the log is a kill point at byte granularity, a superset of the real ones (write syscalls) —
  then the optional sync and the acknowledgement (Write returns); finally close and rename to the final name.
  Files are written one after the other (one worker), so `byte`, `rename` act on the file created last.
-/
import Gowarc.Model.Writer
namespace Gowarc

inductive Eff
  | create (f : Nat)
  | byte (b : UInt8)
  | sync
  | ack (tok off : Nat) (bytes : Bytes)   -- Write returned: record `tok` at `off` of the current file
  | close
  | rename
  deriving DecidableEq, Repr

structure DFile where
  id : Nat
  content : Bytes
  final : Bool          -- carries its final name
  deriving DecidableEq, Repr

structure Ack where
  file : Nat
  tok : Nat
  off : Nat
  bytes : Bytes
  deriving DecidableEq, Repr

structure Disk where
  files : List DFile    -- in creation order; the last one is the file being written
  acks : List Ack
  deriving DecidableEq, Repr

def modLast {α} (l : List α) (g : α → α) : List α :=
  match l.getLast? with
  | some x => l.dropLast ++ [g x]
  | none => l

def lastId (l : List DFile) : Nat := match l.getLast? with | some x => x.id | none => 0

def Disk.apply (d : Disk) : Eff → Disk
  | .create f => { d with files := d.files ++ [⟨f, [], false⟩] }
  | .byte b => { d with files := modLast d.files (fun x => { x with content := x.content ++ [b] }) }
  | .rename => { d with files := modLast d.files (fun x => { x with final := true }) }
  | .ack tok off bytes => { d with acks := d.acks ++ [⟨lastId d.files, tok, off, bytes⟩] }
  | .sync => d
  | .close => d

def Disk.exec (d : Disk) : List Eff → Disk
  | [] => d
  | e :: rest => (d.apply e).exec rest

/-- effects of one member at offset `off` of its file; warcinfo members (tok 0) are written inside createFile and not acknowledged -/
def memberEffects (flush : Bool) (off : Nat) (m : Member) : List Eff :=
  m.bytes.map Eff.byte ++ (if flush then [Eff.sync] else []) ++ (if m.tok == 0 then [] else [Eff.ack m.tok off m.bytes])

def membersEffects (flush : Bool) : Nat → List Member → List Eff
  | _, [] => []
  | off, m :: rest => memberEffects flush off m ++ membersEffects flush (off + m.bytes.length) rest

def fileEffects (flush : Bool) (f : WFile) : List Eff :=
  [Eff.create f.id] ++ membersEffects flush 0 f.members ++ (if f.isOpen then [] else [Eff.close, Eff.rename])

/-- the complete effect log that leads to the writer state with these files -/
def effectLog (flush : Bool) (files : List WFile) : List Eff := files.flatMap (fileEffects flush)

/-- what is on disk if the process is killed after the first k effects -/
def crashDisk (flush : Bool) (files : List WFile) (k : Nat) : Disk := (⟨[], []⟩ : Disk).exec ((effectLog flush files).take k)

end Gowarc
