/-
  Model of warcfile.go WarcFileReader.Next called in a loop until it returns an error: each call is one `unmarshal` on
  what the previous call left in the stream; the reported offset is the position of the stream before the call plus the
  bytes Unmarshal skipped before the record (`initialOffset + countingReader.N() - bufferedReader.Buffered()` is that
  position: bytes pulled from the source minus bytes not yet handed out).
-/
import Gowarc.Model.Record
namespace Gowarc

structure NextRes where
  offset : Nat
  record : Option Rec
  fnd : List Tag
  err : Option Tag

section
variable (H : Alg → Bytes → Bytes)

def readLoop (o : Opts) (Ω : Oracles) : Nat → Nat → Stream → List NextRes
  | 0, _, _ => []
  | fuel + 1, base, s =>
    match (unmarshal H o Ω s).err with
    | some e => [⟨base + (unmarshal H o Ω s).offset, (unmarshal H o Ω s).record, (unmarshal H o Ω s).fnd, some e⟩]
    | none =>
      ⟨base + (unmarshal H o Ω s).offset, (unmarshal H o Ω s).record, (unmarshal H o Ω s).fnd, none⟩ ::
        readLoop o Ω fuel (base + (s.rest.length - (unmarshal H o Ω s).rest.length)) ⟨(unmarshal H o Ω s).rest, s.fault⟩

/-- read a whole stream from its start -/
def readAllRecs (o : Opts) (Ω : Oracles) (data : Bytes) : List NextRes := readLoop H o Ω (data.length + 2) 0 ⟨data, false⟩

end
end Gowarc
