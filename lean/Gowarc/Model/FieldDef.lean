/-
  Shape of one row of headerfielddef.go `fieldDefs`. The rows themselves are REGENERATED from the Go
  source into `Gowarc/Gen/FieldTable.lean` on every run by /verif/go/extract.
-/
import Gowarc.Model.Basic
namespace Gowarc

structure FieldDef where
  name       : String
  validator  : String      -- identifier of the Go validation function (pLong, pURI, ...)
  repeatable : Bool
  recMask    : Nat         -- bit set of RecordType values the field may appear on
  specMask   : Nat         -- bit set of WarcVersion ids that define the field
  deriving Repr, DecidableEq, BEq

end Gowarc
