/-
  Model of the concurrency protocol of warcfile.go WarcFileWriter: n caller goroutines (each a program of Write, Rotate,
  Close calls), the dispatcher ("middle layer") goroutine, k worker goroutines; unbuffered channels middleCh, jobs,
  closing and the per-job result channel as rendezvous steps; `closed` and `jobs` being closed as flags; the wait group
  as "all workers have ended".

  A caller has at most one job outstanding, so a job is named by its caller (and, in the log, by how many calls the
  caller still had to make when it sent it).

  The per-file Write of a worker (lock, fit test, append, unlock) is one step: it takes only its own lock, always
  releases it (after the fix to continuation records: C10/F11), and Rotate takes the same locks one at a time.
-/
import Gowarc.Model.Basic
namespace Gowarc.Proto

inductive COp | write | rotate | close
  deriving DecidableEq, Repr

inductive CPc
  | start        -- between calls (about to make the first call in `rest`)
  | w1           -- Write: passed the first `select` (closed was open), now offering the job on middleCh
  | w2           -- Write: job handed over, waiting on the result channel
  | c2           -- Close: signalled (or saw closed), waiting for the wait group
  deriving DecidableEq, Repr

structure Caller where
  pc : CPc
  rest : List COp      -- calls still to make; the head is the call in progress unless pc = start
  deriving DecidableEq, Repr

inductive DPc
  | d0                 -- outer select: closing or middleCh
  | d1 (c : Nat)       -- holds caller c's job: inner select: closing or jobs
  | dx (c : Nat)       -- exit(v, true): closed has been closed, the last job is being sent on jobs
  | dend
  deriving DecidableEq, Repr

inductive WPc
  | k0                 -- receiving from jobs
  | k1 (c : Nat)       -- got caller c's job, writing its records
  | k2 (c : Nat)       -- sending the responses
  | k3                 -- jobs was closed: closing the file
  | kend               -- wait group Done
  deriving DecidableEq, Repr

structure LogEntry where
  worker : Nat
  caller : Nat
  seq : Nat            -- length of the caller's `rest` when the job was sent
  deriving DecidableEq, Repr

structure Result where
  seq : Nat
  responded : Bool     -- false: Write returned nil
  deriving DecidableEq, Repr

structure St where
  callers : Nat → Caller
  disp : DPc
  workers : Nat → WPc
  closed : Bool
  jobsClosed : Bool
  log : List LogEntry           -- ghost: which worker wrote which job, in order
  results : Nat → List Result   -- ghost: what each Write call returned
  rotations : Nat

def upd {α} (f : Nat → α) (i : Nat) (v : α) : Nat → α := fun j => if j = i then v else f j

@[simp] theorem upd_same {α} (f : Nat → α) (i : Nat) (v : α) : upd f i v i = v := by simp [upd]
theorem upd_other {α} (f : Nat → α) (i j : Nat) (v : α) (h : j ≠ i) : upd f i v j = f j := by simp [upd, h]

def init (progs : Nat → List COp) : St :=
  { callers := fun c => ⟨.start, progs c⟩, disp := .d0, workers := fun _ => .k0, closed := false, jobsClosed := false,
    log := [], results := fun _ => [], rotations := 0 }

/-- one step of the system with n callers and k workers -/
inductive Step (n k : Nat) : St → St → Prop
  | wStartClosed (s : St) (c : Nat) (r : List COp) : c < n → s.callers c = ⟨.start, .write :: r⟩ → s.closed = true →
      Step n k s { s with callers := upd s.callers c ⟨.start, r⟩, results := upd s.results c (s.results c ++ [⟨r.length + 1, false⟩]) }
  | wStart (s : St) (c : Nat) (r : List COp) : c < n → s.callers c = ⟨.start, .write :: r⟩ → s.closed = false →
      Step n k s { s with callers := upd s.callers c ⟨.w1, .write :: r⟩ }
  | wGiveUp (s : St) (c : Nat) (r : List COp) : c < n → s.callers c = ⟨.w1, .write :: r⟩ → s.closed = true →
      Step n k s { s with callers := upd s.callers c ⟨.start, r⟩, results := upd s.results c (s.results c ++ [⟨r.length + 1, false⟩]) }
  | wSend (s : St) (c : Nat) (r : List COp) : c < n → s.callers c = ⟨.w1, .write :: r⟩ → s.disp = .d0 →
      Step n k s { s with callers := upd s.callers c ⟨.w2, .write :: r⟩, disp := .d1 c }
  | dForward (s : St) (i c : Nat) : i < k → s.disp = .d1 c → s.workers i = .k0 →
      Step n k s { s with disp := .d0, workers := upd s.workers i (.k1 c) }
  | kWork (s : St) (i c : Nat) : i < k → s.workers i = .k1 c →
      Step n k s { s with workers := upd s.workers i (.k2 c), log := s.log ++ [⟨i, c, (s.callers c).rest.length⟩] }
  | kReply (s : St) (i c : Nat) (r : List COp) : i < k → c < n → s.workers i = .k2 c → s.callers c = ⟨.w2, .write :: r⟩ →
      Step n k s { s with workers := upd s.workers i .k0, callers := upd s.callers c ⟨.start, r⟩,
                          results := upd s.results c (s.results c ++ [⟨r.length + 1, true⟩]) }
  | cStartClosed (s : St) (c : Nat) (r : List COp) : c < n → s.callers c = ⟨.start, .close :: r⟩ → s.closed = true →
      Step n k s { s with callers := upd s.callers c ⟨.c2, .close :: r⟩ }
  | cSignal0 (s : St) (c : Nat) (r : List COp) : c < n → s.callers c = ⟨.start, .close :: r⟩ → s.disp = .d0 →
      Step n k s { s with callers := upd s.callers c ⟨.c2, .close :: r⟩, disp := .dend, closed := true, jobsClosed := true }
  | cSignal1 (s : St) (c j : Nat) (r : List COp) : c < n → s.callers c = ⟨.start, .close :: r⟩ → s.disp = .d1 j →
      Step n k s { s with callers := upd s.callers c ⟨.c2, .close :: r⟩, disp := .dx j, closed := true }
  | dLast (s : St) (i j : Nat) : i < k → s.disp = .dx j → s.workers i = .k0 →
      Step n k s { s with disp := .dend, jobsClosed := true, workers := upd s.workers i (.k1 j) }
  | cDone (s : St) (c : Nat) (r : List COp) : c < n → s.callers c = ⟨.c2, .close :: r⟩ → (∀ i, i < k → s.workers i = .kend) →
      Step n k s { s with callers := upd s.callers c ⟨.start, r⟩ }
  | kExit (s : St) (i : Nat) : i < k → s.workers i = .k0 → s.jobsClosed = true →
      Step n k s { s with workers := upd s.workers i .k3 }
  | kClose (s : St) (i : Nat) : i < k → s.workers i = .k3 →
      Step n k s { s with workers := upd s.workers i .kend }
  | rotate (s : St) (c : Nat) (r : List COp) : c < n → s.callers c = ⟨.start, .rotate :: r⟩ →
      Step n k s { s with callers := upd s.callers c ⟨.start, r⟩, rotations := s.rotations + 1 }

inductive Reach (n k : Nat) (progs : Nat → List COp) : St → Prop
  | init : Reach n k progs (init progs)
  | step (s s' : St) : Reach n k progs s → Step n k s s' → Reach n k progs s'

def finished (s : St) (c : Nat) : Prop := s.callers c = ⟨.start, []⟩

end Gowarc.Proto
