/-
  Model of who owns which spill buffer: recordbuilder.go (Build: the record's closer closes the builder's buffer),
  unmarshaler.go (closer closes the block; generic and http blocks get their buffer in Cache(), called from
  ValidateDigest), record.go ToRevisitRecord / Merge (derived records own nothing / take over the referenced record's
  block), warcfile.go NewWarcFileReader / Close (one descriptor), internal/diskbuffer (a temp file exists from the moment
  the memory part is full until Close).

  A handle is something the caller got back from the API and can call Close on.
-/
import Gowarc.Model.Basic
namespace Gowarc

structure RBuf where
  max : Nat          -- memory part, ≥ 1
  size : Nat
  closed : Bool
  deriving DecidableEq, Repr

/-- diskbuffer: the temp file (and its descriptor) exists once the memory part is full, until Close -/
def RBuf.hasFile (b : RBuf) : Bool := !b.closed && b.size ≥ b.max

/-- diskbuffer Close: closes and removes the temp file IF there is one (the file part stays closed for good: later writes
    into it fail and create nothing). A buffer that has not spilled yet is not touched at all: Close is not terminal for
    it — bytes written afterwards may still spill, and only a later Close removes that file. -/
def RBuf.shut (b : RBuf) : RBuf := if b.size ≥ b.max then { b with closed := true } else b

structure RHandle where
  bufs : List Nat     -- buffers its Close closes (indices into `bufs`)
  fd : Bool           -- a file reader's descriptor
  isOpen : Bool
  once : Bool := false  -- a RECORD: its Close takes effect once (record.go Close drops the closer); a builder's Close closes
                        -- its buffer every time it is called, and only a builder can be written to
  deriving DecidableEq, Repr

/-- closing it does something -/
def RHandle.live (hd : RHandle) : Bool := !hd.once || hd.isOpen

structure RState where
  bufs : List RBuf
  handles : List RHandle
  deriving DecidableEq, Repr

inductive ROp
  | newBuilder (max : Nat)                 -- NewRecordBuilder: a buffer and the builder handle
  | write (h : Nat) (n : Nat)              -- Write / ReadFrom n bytes into the builder's buffer
  | build (h : Nat)                        -- Build returning a record (with or without error): its closer closes the builder's buffer
  | unmarshal (cache : Option (Nat × Nat)) -- Unmarshal returning a record; `some (max, n)`: Cache() created a buffer and put n bytes in
  | derive                                 -- ToRevisitRecord: a record that owns nothing
  | merge (hrev horig : Nat) (hasCloser : Bool)  -- Merge: the revisit record now holds the referenced record's block
  | openReader                             -- NewWarcFileReader succeeded
  | close (h : Nat)                        -- Close on a builder, record or reader
  deriving DecidableEq, Repr

namespace RState

def init : RState := ⟨[], []⟩

def closeBuf (bufs : List RBuf) (i : Nat) : List RBuf := bufs.modify i RBuf.shut

def closeBufs (bufs : List RBuf) (is : List Nat) : List RBuf := is.foldl closeBuf bufs

def handleBufs (s : RState) (h : Nat) : List Nat :=
  match s.handles[h]? with
  | some hd => hd.bufs
  | none => []

def handleLive (s : RState) (h : Nat) : Bool :=
  match s.handles[h]? with
  | some hd => hd.live
  | none => false

def handleOnce (s : RState) (h : Nat) : Bool :=
  match s.handles[h]? with
  | some hd => hd.once
  | none => false

def step (s : RState) : ROp → RState
  | .newBuilder max => ⟨s.bufs ++ [⟨max, 0, false⟩], s.handles ++ [⟨[s.bufs.length], false, true, false⟩]⟩
  | .write h n =>
    if s.handleOnce h then s   -- records have no Write
    else ⟨(s.handleBufs h).foldl (fun bs i => bs.modify i (fun b => { b with size := b.size + n })) s.bufs, s.handles⟩
  | .build h => ⟨s.bufs, s.handles ++ [⟨s.handleBufs h, false, true, true⟩]⟩
  | .unmarshal none => ⟨s.bufs, s.handles ++ [⟨[], false, true, true⟩]⟩
  | .unmarshal (some (max, n)) => ⟨s.bufs ++ [⟨max, n, false⟩], s.handles ++ [⟨[s.bufs.length], false, true, true⟩]⟩
  | .derive => ⟨s.bufs, s.handles ++ [⟨[], false, true, true⟩]⟩
  | .merge hrev horig hasCloser =>
    if hasCloser then ⟨s.bufs, s.handles.modify hrev (fun hd => { hd with bufs := hd.bufs ++ s.handleBufs horig })⟩ else s
  | .openReader => ⟨s.bufs, s.handles ++ [⟨[], true, true, false⟩]⟩
  | .close h =>
    -- a record that has been closed already releases nothing a second time (the buffers stay as they are)
    ⟨if s.handleLive h then closeBufs s.bufs (s.handleBufs h) else s.bufs,
     s.handles.modify h (fun hd => { hd with fd := false, isOpen := false })⟩

def run (s : RState) : List ROp → RState
  | [] => s
  | op :: rest => run (step s op) rest

/-- what the operating system shows: temp files, and descriptors (one per temp file, one per open reader) -/
def files (s : RState) : Nat := (s.bufs.filter (·.hasFile)).length
def fds (s : RState) : Nat := s.files + (s.handles.filter (·.fd)).length

/-- close everything the caller holds -/
def closeAll (s : RState) : RState := run s ((List.range s.handles.length).map ROp.close)

end RState
end Gowarc
