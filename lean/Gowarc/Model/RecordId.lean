import Gowarc.Model.Fields
/-!
# The default record-id generator (options.go `defaultIdGenerator` = `uuid.New().URN()`) and what the builder stores

`uuid.New()` reads 16 bytes from the random source, stamps version 4 and the RFC 4122 variant on bytes 6 and 8 and
renders them as lower-case hex in the 8-4-4-4-12 grouping behind `urn:uuid:`; `recordBuilder.Build` hands the result to
`WarcFields.SetId`, which brackets it (`Fields.idValue`). The random source is the input of the model.
-/
namespace Gowarc.RecordId
open Gowarc

def hexDigit (n : UInt8) : UInt8 := if n < 10 then 48 + n else 87 + n
def hexHi (b : UInt8) : UInt8 := hexDigit (b >>> 4)
def hexLo (b : UInt8) : UInt8 := hexDigit (b &&& 15)

/-- version 4 on byte 6 -/
def stampVersion (b : UInt8) : UInt8 := (b &&& 0x0f) ||| 0x40
/-- variant 10xx on byte 8 -/
def stampVariant (b : UInt8) : UInt8 := (b &&& 0x3f) ||| 0x80

/-- `uuid.NewRandom` on the 16 bytes the random source delivered (a source that delivers fewer makes `uuid.New` panic: outside the model, the harness always supplies 16). -/
def stamp : Bytes → Option Bytes
  | [b0, b1, b2, b3, b4, b5, b6, b7, b8, b9, b10, b11, b12, b13, b14, b15] =>
    some [b0, b1, b2, b3, b4, b5, stampVersion b6, b7, stampVariant b8, b9, b10, b11, b12, b13, b14, b15]
  | _ => none

/-- `UUID.URN()`: "urn:uuid:" and the 36-character text form. -/
def urn : Bytes → Option Bytes
  | [b0, b1, b2, b3, b4, b5, b6, b7, b8, b9, b10, b11, b12, b13, b14, b15] =>
    some [117, 114, 110, 58, 117, 117, 105, 100, 58,
      hexHi b0, hexLo b0, hexHi b1, hexLo b1, hexHi b2, hexLo b2, hexHi b3, hexLo b3, 45,
      hexHi b4, hexLo b4, hexHi b5, hexLo b5, 45,
      hexHi b6, hexLo b6, hexHi b7, hexLo b7, 45,
      hexHi b8, hexLo b8, hexHi b9, hexLo b9, 45,
      hexHi b10, hexLo b10, hexHi b11, hexLo b11, hexHi b12, hexLo b12, hexHi b13, hexLo b13, hexHi b14, hexLo b14, hexHi b15, hexLo b15]
  | _ => none

/-- `defaultIdGenerator` on the bytes of the random source. -/
def defaultId (rnd : Bytes) : Option Bytes := (stamp rnd).bind urn

/-- The value of WARC-Record-ID after `Build` added the id itself (`SetId` brackets it). -/
def recordIdField (rnd : Bytes) : Option Bytes := (defaultId rnd).bind Fields.idValue

/-- The random pool gowarc enables (`uuid.EnableRandPool` in options.go): one refill is handed out in consecutive
    16-byte slices, each once. A refill of fewer than 32 bytes is one draw. -/
def draws (pool : Bytes) : List Bytes :=
  if pool.length < 32 then [pool] else (List.range (pool.length / 16)).map (fun k => (pool.drop (16 * k)).take 16)

/-- a lower-case hexadecimal digit -/
def isHexLower (c : UInt8) : Bool := (48 ≤ c && c ≤ 57) || (97 ≤ c && c ≤ 102)

end Gowarc.RecordId
