/-
  Model of warcfile.go singleWarcFileWriter: Write (fit test, createFile, createWarcInfoRecord, writeRecord, Stat),
  Close/close (rename, after-creation callback), as a sequential state machine over files that are lists of members.

  A member is one serialized record as it lies in the file (its own gzip member when compressed). The bytes of a member
  are data (the marshaler's and the compressor's output): the model carries them abstractly as `bytes`, and everything
  the writer decides depends only on their length and on the record's declared Content-Length.

  A record the marshaler fails on is the op `failed`. A record the marshaler splits (it returns a continuation record,
  which the writer hands to its own write path again) is the op `seg`.
-/
import Gowarc.Model.Basic
namespace Gowarc

structure Member where
  tok : Nat            -- which record (0 = the warcinfo record the writer builds itself)
  bytes : Bytes        -- the member as written
  stamp : Option Nat   -- file whose warcinfo id was put into WARC-Warcinfo-ID before marshalling (none = header untouched)
  deriving DecidableEq, Repr

structure WFile where
  id : Nat                 -- n-th name handed out by the name generator (1-based)
  members : List Member
  isOpen : Bool            -- carries the in-progress suffix
  deriving DecidableEq, Repr

def WFile.content (f : WFile) : Bytes := (f.members.map (·.bytes)).flatten
def WFile.size (f : WFile) : Nat := f.content.length

/-- what strconv.ParseInt made of the record's Content-Length field -/
inductive Decl | empty | bad | val (n : Int)
  deriving DecidableEq, Repr

structure WCfg where
  max : Int               -- maxFileSize (≤ 0: unlimited)
  compress : Bool
  info : Bool             -- a warcinfo generator is configured
  deriving DecidableEq, Repr

structure Callback where
  file : Nat
  size : Nat
  infoOf : Option Nat
  deriving DecidableEq, Repr

structure SW where
  cur : Option Nat          -- id of the open file (currentFile != nil)
  curSize : Nat             -- currentFileSize
  infoOf : Option Nat       -- currentWarcInfoId, as the file whose warcinfo record it names
  files : List WFile        -- oldest first
  serial : Nat              -- names handed out so far
  callbacks : List Callback
  deriving DecidableEq, Repr

def SW.init : SW := ⟨none, 0, none, [], 0, []⟩

structure WResp where
  file : Option Nat
  off : Nat
  written : Nat
  err : Bool
  deriving DecidableEq, Repr

/-- one record handed to Write: what the marshaler (and compressor) make of it is data -/
structure WRec where
  tok : Nat
  decl : Decl
  enc : Option Nat → Bytes      -- the member bytes, given the warcinfo stamp put into the header
  ulen : Option Nat → Nat       -- uncompressed serialized length, given the stamp
  infoBytes : Nat → Bytes       -- the warcinfo member of file `id`, should this write create a file

namespace SW

def modFile (fs : List WFile) (id : Nat) (g : WFile → WFile) : List WFile :=
  fs.map (fun f => if f.id == id then g f else f)

def fileSize (fs : List WFile) (id : Nat) : Nat :=
  match fs.find? (fun f => f.id == id) with
  | some f => f.size
  | none => 0

/-- close(): rename to the final name, callback with (name, tracked size, warcinfo id); the tracked size starts again
    at zero -/
def close (s : SW) : SW :=
  match s.cur with
  | none => s
  | some id =>
    { s with cur := none, curSize := 0, files := modFile s.files id (fun f => { f with isOpen := false }),
             callbacks := s.callbacks ++ [⟨id, s.curSize, s.infoOf⟩] }

/-- createFile(): next name, O_EXCL create under the in-progress suffix, optional warcinfo record first -/
def createFile (c : WCfg) (s : SW) (infoBytes : Nat → Bytes) : SW :=
  let id := s.serial + 1
  if c.info then
    { s with cur := some id, serial := id, infoOf := some id, curSize := (infoBytes id).length,
             files := s.files ++ [⟨id, [⟨0, infoBytes id, none⟩], true⟩] }
  else
    { s with cur := some id, serial := id, files := s.files ++ [⟨id, [], true⟩] }

/-- the fit test: does Write close the current file first? `scale` is the float multiplication by the expected
    compression ratio (identity when not compressing). none = strconv error -/
def fitClose (c : WCfg) (scale : Int → Int) (s : SW) (d : Decl) : Option Bool :=
  if s.cur.isSome && c.max > 0 then
    match d with
    | .empty => some false
    | .bad => none
    | .val n => some (s.curSize > 0 && (s.curSize : Int) + (if c.compress then scale n else n) > c.max)
  else some false

/-- Write(record) -/
def write (c : WCfg) (scale : Int → Int) (s : SW) (r : WRec) : SW × WResp :=
  match fitClose c scale s r.decl with
  | none => (s, ⟨none, 0, 0, true⟩)
  | some cl =>
    let s1 := if cl then close s else s
    let s2 := if s1.cur.isNone then createFile c s1 r.infoBytes else s1
    match s2.cur with
    | none => (s2, ⟨none, 0, 0, true⟩)     -- unreachable
    | some id =>
      let m : Member := ⟨r.tok, r.enc s2.infoOf, s2.infoOf⟩
      let files := modFile s2.files id (fun f => { f with members := f.members ++ [m] })
      ({ s2 with files := files, curSize := fileSize files id }, ⟨some id, s2.curSize, r.ulen s2.infoOf, false⟩)

/-- Write(record) when the marshaler fails for the record: the fit test has been made and a file has been created if
    none was open; what the marshaler had written of the record is removed again (the file is truncated back to the
    tracked size), so no member is added and the tracked size stays what it was. The response carries the error. -/
def writeFailed (c : WCfg) (scale : Int → Int) (s : SW) (r : WRec) : SW × WResp :=
  match fitClose c scale s r.decl with
  | none => (s, ⟨none, 0, 0, true⟩)
  | some cl =>
    let s1 := if cl then close s else s
    let s2 := if s1.cur.isNone then createFile c s1 r.infoBytes else s1
    (s2, ⟨none, 0, 0, true⟩)

/-- Write(record) when the marshaler writes a first segment `r` and hands back a continuation record `n`
    (writeRecord calls write(n) while the lock is held). The tracked size is brought up to date before the nested write,
    so the continuation is treated exactly like the next record: its fit test sees the file including the first segment.
    The caller gets ONE response: the position of the first segment (the record that carries the id it wrote), the byte
    counts added. If the continuation is refused by the fit test (unparsable Content-Length) the first segment is
    removed again and the call is a failed Write. -/
def writeSeg (c : WCfg) (scale : Int → Int) (s : SW) (r n : WRec) : SW × WResp :=
  if (write c scale s r).2.err then write c scale s r
  else
    match fitClose c scale (write c scale s r).1 n.decl with
    | none => writeFailed c scale s r
    | some _ =>
      ((write c scale (write c scale s r).1 n).1,
       ⟨(write c scale s r).2.file, (write c scale s r).2.off,
        (write c scale s r).2.written + (write c scale (write c scale s r).1 n).2.written,
        (write c scale (write c scale s r).1 n).2.err⟩)

inductive WOp
  | write (r : WRec)
  | rotate
  | failed (r : WRec)
  | seg (r n : WRec)

def step (c : WCfg) (scale : Int → Int) (s : SW) : WOp → SW × Option WResp
  | .write r => ((write c scale s r).1, some (write c scale s r).2)
  | .rotate => (close s, none)
  | .failed r => ((writeFailed c scale s r).1, some (writeFailed c scale s r).2)
  | .seg r n => ((writeSeg c scale s r n).1, some (writeSeg c scale s r n).2)

def run (c : WCfg) (scale : Int → Int) (s : SW) : List WOp → SW × List (Option WResp)
  | [] => (s, [])
  | op :: rest => ((run c scale (step c scale s op).1 rest).1, (step c scale s op).2 :: (run c scale (step c scale s op).1 rest).2)

end SW
end Gowarc
