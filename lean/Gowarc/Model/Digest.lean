/-
  Model of digest.go: encodings (base16/base32/base64 as in Go's encoding/*), detectEncoding,
  normalizeAlgorithmName, newDigest, format, validate.
-/
import Gowarc.Model.Hash
import Gowarc.Model.Fields
namespace Gowarc

inductive Enc | unknown | b16 | b32 | b64
  deriving DecidableEq, Repr

def Enc.ofCode : Nat → Enc
  | 1 => .b16 | 2 => .b32 | 3 => .b64 | _ => .unknown

/-! ### base16 -/

def hexChar (n : UInt8) : UInt8 := if n < 10 then 48 + n else 87 + n     -- lower case

def hexEnc (b : Bytes) : Bytes := b.flatMap (fun (x : UInt8) => [hexChar (x >>> 4), hexChar (x &&& 15)])

def hexNib (c : UInt8) : Option UInt8 :=
  if 48 ≤ c && c ≤ 57 then some (c - 48)
  else if 97 ≤ c && c ≤ 102 then some (c - 87)
  else if 65 ≤ c && c ≤ 70 then some (c - 55)
  else none

/-- hex.DecodeString: odd length or a non-hex character is an error -/
def hexDec : Bytes → Option Bytes
  | [] => some []
  | [_] => none
  | a :: b :: rest =>
    match hexNib a, hexNib b, hexDec rest with
    | some x, some y, some r => some ((x <<< 4 ||| y) :: r)
    | _, _, _ => none

/-! ### base32 (RFC 4648 standard alphabet, padded) -/

def b32Char (n : UInt8) : UInt8 := if n < 26 then 65 + n else 24 + n    -- 'A'.. / '2'..

def b32Val (c : UInt8) : Option UInt8 :=
  if 65 ≤ c && c ≤ 90 then some (c - 65)
  else if 50 ≤ c && c ≤ 55 then some (c - 24)
  else none

/-- encode one group of up to 5 bytes into 8 characters with padding -/
def b32Group (g : Bytes) : Bytes :=
  let b0 := g.getD 0 0; let b1 := g.getD 1 0; let b2 := g.getD 2 0; let b3 := g.getD 3 0; let b4 := g.getD 4 0
  let cs : List UInt8 := [b0 >>> 3, (b0 <<< 2 ||| b1 >>> 6) &&& 31, (b1 >>> 1) &&& 31, (b1 <<< 4 ||| b2 >>> 4) &&& 31,
    (b2 <<< 1 ||| b3 >>> 7) &&& 31, (b3 >>> 2) &&& 31, (b3 <<< 3 ||| b4 >>> 5) &&& 31, b4 &&& 31]
  let n := match g.length with | 1 => 2 | 2 => 4 | 3 => 5 | 4 => 7 | _ => 8
  (cs.take n).map b32Char ++ List.replicate (8 - n) 61

def b32Enc : Bytes → Bytes
  | [] => []
  | a :: b :: c :: d :: e :: rest => b32Group [a, b, c, d, e] ++ b32Enc rest
  | g => b32Group g

/-- pack the decoded 5-bit values of one quantum (`dlen` of them are meaningful) -/
def b32Pack (d : List UInt8) (dlen : Nat) : Bytes :=
  let v (i : Nat) : UInt8 := d.getD i 0
  let all : Bytes := [v 0 <<< 3 ||| v 1 >>> 2, v 1 <<< 6 ||| v 2 <<< 1 ||| v 3 >>> 4, v 3 <<< 4 ||| v 4 >>> 1,
    v 4 <<< 7 ||| v 5 <<< 2 ||| v 6 >>> 3, v 6 <<< 5 ||| v 7]
  all.take (match dlen with | 8 => 5 | 7 => 4 | 5 => 3 | 4 => 2 | 2 => 1 | _ => 0)

/-- one quantum of base32.decode: `j` values collected so far in `dbuf` (reversed).
    Result: none = CorruptInputError; some (bytes, rest, end). -/
def b32Quantum : Bytes → Nat → List UInt8 → Option (Bytes × Bytes × Bool)
  | [], _, _ => none                                  -- missing padding
  | c :: src, j, dbuf =>
    if c == 61 && j ≥ 2 && src.length < 8 then
      if src.length + j < 7 then none
      else if !(src.take (7 - j)).all (· == 61) then none
      else if j == 1 || j == 3 || j == 6 then none
      else some (b32Pack dbuf.reverse j, src, true)
    else
      match b32Val c with
      | none => none
      | some v =>
        if j == 7 then some (b32Pack (v :: dbuf).reverse 8, src, false)
        else b32Quantum src (j + 1) (v :: dbuf)

def b32DecLoop : Nat → Bytes → Option Bytes
  | 0, _ => some []
  | fuel + 1, src =>
    if src.isEmpty then some []
    else match b32Quantum src 0 [] with
      | none => none
      | some (bytes, rest, fin) =>
        if fin then some bytes
        else (b32DecLoop fuel rest).map (bytes ++ ·)

/-- base32.StdEncoding.DecodeString (newlines are stripped first) -/
def b32Dec (s : Bytes) : Option Bytes :=
  b32DecLoop ((s.filter (fun b => b != 13 && b != 10)).length + 1) (s.filter (fun b => b != 13 && b != 10))

/-! ### base64 (standard alphabet, padded, non-strict) -/

def b64Char (n : UInt8) : UInt8 :=
  if n < 26 then 65 + n else if n < 52 then 71 + n else if n < 62 then n - 4 else if n == 62 then 43 else 47

def b64Val (c : UInt8) : Option UInt8 :=
  if 65 ≤ c && c ≤ 90 then some (c - 65)
  else if 97 ≤ c && c ≤ 122 then some (c - 71)
  else if 48 ≤ c && c ≤ 57 then some (c + 4)
  else if c == 43 then some 62
  else if c == 47 then some 63
  else none

def b64Group (g : Bytes) : Bytes :=
  let b0 := g.getD 0 0; let b1 := g.getD 1 0; let b2 := g.getD 2 0
  let cs : List UInt8 := [b0 >>> 2, (b0 <<< 4 ||| b1 >>> 4) &&& 63, (b1 <<< 2 ||| b2 >>> 6) &&& 63, b2 &&& 63]
  let n := match g.length with | 1 => 2 | 2 => 3 | _ => 4
  (cs.take n).map b64Char ++ List.replicate (4 - n) 61

def b64Enc : Bytes → Bytes
  | [] => []
  | a :: b :: c :: rest => b64Group [a, b, c] ++ b64Enc rest
  | g => b64Group g

def b64Pack (d : List UInt8) (dlen : Nat) : Bytes :=
  let v (i : Nat) : UInt8 := d.getD i 0
  ([v 0 <<< 2 ||| v 1 >>> 4, v 1 <<< 4 ||| v 2 >>> 2, v 2 <<< 6 ||| v 3] : Bytes).take (dlen - 1)

def isNl (b : UInt8) : Bool := b == 10 || b == 13

/-- base64 decodeQuantum. Result: none = error; some (bytes, rest). -/
def b64Quantum : Bytes → Nat → List UInt8 → Option (Bytes × Bytes)
  | [], j, _ => if j == 0 then some ([], []) else none
  | c :: src, j, dbuf =>
    match b64Val c with
    | some v =>
      if j == 3 then some (b64Pack (v :: dbuf).reverse 4, src)
      else b64Quantum src (j + 1) (v :: dbuf)
    | none =>
      if isNl c then b64Quantum src j dbuf
      else if c != 61 then none
      else if j < 2 then none
      else if j == 2 then
        match src.dropWhile isNl with
        | [] => none
        | p :: after =>
          if p != 61 then none
          else if (after.dropWhile isNl).isEmpty then some (b64Pack dbuf.reverse 2, []) else none
      else
        if (src.dropWhile isNl).isEmpty then some (b64Pack dbuf.reverse 3, []) else none

def b64DecLoop : Nat → Bytes → Option Bytes
  | 0, _ => some []
  | fuel + 1, src =>
    if src.isEmpty then some []
    else match b64Quantum src 0 [] with
      | none => none
      | some (bytes, rest) => (b64DecLoop fuel rest).map (bytes ++ ·)

def b64Dec (s : Bytes) : Option Bytes := b64DecLoop (s.length + 1) s

/-! ### digest.go -/

def Enc.encode : Enc → Bytes → Bytes
  | .b16, d => hexEnc d
  | .b32, d => b32Enc d
  | .b64, d => b64Enc d
  | .unknown, d => d

def Enc.decode : Enc → Bytes → Option Bytes
  | .b16, s => hexDec s
  | .b32, s => b32Dec s
  | .b64, s => b64Dec s
  | .unknown, s => some s

def b32EncodedLen (n : Nat) : Nat := (n + 4) / 5 * 8
def b64EncodedLen (n : Nat) : Nat := (n + 2) / 3 * 4

def algOfName (a : Bytes) : Option Alg :=
  if a == bs "md5" then some .md5 else if a == bs "sha1" then some .sha1
  else if a == bs "sha256" then some .sha256 else if a == bs "sha512" then some .sha512 else none

/-- detectEncoding: by the length of the digest value -/
def detectEncoding (algorithm digest : Bytes) (dflt : Enc) : Enc :=
  if algorithm == bs "md5" && digest.length == 32 then
    (if digest.getLast? == some 61 then .b32 else .b16)
  else
    let n := match algOfName algorithm with | some a => a.size | none => 0
    if digest.length == n * 2 then .b16
    else if digest.length == b32EncodedLen n then .b32
    else if digest.length == b64EncodedLen n then .b64
    else dflt

def normalizeAlg (a : Bytes) : Bytes :=
  if lowerKey a == bs "sha-1" then bs "sha1"
  else if lowerKey a == bs "sha-256" then bs "sha256"
  else if lowerKey a == bs "sha-512" then bs "sha512"
  else lowerKey a

structure Digest where
  alg  : Alg
  name : Bytes
  hash : Bytes       -- declared value, normalised (lower case for base16, upper case for base32); [] = none declared
  enc  : Enc
  deriving DecidableEq, Repr

def isCont (b : UInt8) : Bool := 0x80 ≤ b && b ≤ 0xBF

/-- what Go's strings.ToUpper / ToLower do to bytes that are not valid UTF-8: each such byte becomes U+FFFD (EF BF BD).
    Valid multi-byte sequences are kept as they are (their Unicode case mapping is not modelled: a digest value that
    contains one is not decodable in either case). `fuel` ≥ length. -/
def utf8Repair : Nat → Bytes → Bytes
  | 0, l => l
  | _ + 1, [] => []
  | fuel + 1, b0 :: rest =>
    if b0 < 0x80 then b0 :: utf8Repair fuel rest
    else
      match rest with
      | b1 :: r1 =>
        if 0xC2 ≤ b0 && b0 ≤ 0xDF && isCont b1 then b0 :: b1 :: utf8Repair fuel r1
        else
          match r1 with
          | b2 :: r2 =>
            if ((b0 == 0xE0 && 0xA0 ≤ b1 && b1 ≤ 0xBF) || (0xE1 ≤ b0 && b0 ≤ 0xEC && isCont b1) || (b0 == 0xED && 0x80 ≤ b1 && b1 ≤ 0x9F) ||
                (0xEE ≤ b0 && b0 ≤ 0xEF && isCont b1)) && isCont b2 then b0 :: b1 :: b2 :: utf8Repair fuel r2
            else
              match r2 with
              | b3 :: r3 =>
                if ((b0 == 0xF0 && 0x90 ≤ b1 && b1 ≤ 0xBF) || (0xF1 ≤ b0 && b0 ≤ 0xF3 && isCont b1) || (b0 == 0xF4 && 0x80 ≤ b1 && b1 ≤ 0x8F)) &&
                    isCont b2 && isCont b3 then b0 :: b1 :: b2 :: b3 :: utf8Repair fuel r3
                else 0xEF :: 0xBF :: 0xBD :: utf8Repair fuel rest
              | [] => 0xEF :: 0xBF :: 0xBD :: utf8Repair fuel rest
          | [] => 0xEF :: 0xBF :: 0xBD :: utf8Repair fuel rest
      | [] => [0xEF, 0xBF, 0xBD]

/-- newDigest; `none` = "unsupported digest algorithm" -/
def newDigest (s : Bytes) (dflt : Enc) : Option Digest :=
  let algRaw := match splitFirst COLON s with | some (a, _) => a | none => s
  let hash0 := match splitFirst COLON s with | some (_, h) => h | none => []
  let algorithm := normalizeAlg algRaw
  let enc := detectEncoding algorithm hash0 dflt
  let hash := match enc with
    | .b16 => utf8Repair hash0.length (lowerAscii hash0)
    | .b32 => utf8Repair hash0.length (upperAscii hash0)
    | _ => hash0
  if algorithm.isEmpty then some ⟨.sha1, bs "sha1", hash, enc⟩
  else match algOfName algorithm with
    | some a => some ⟨a, algorithm, hash, enc⟩
    | none => none

section
variable (H : Alg → Bytes → Bytes)

def Digest.format (d : Digest) (data : Bytes) : Bytes := d.name ++ [COLON] ++ d.enc.encode (H d.alg data)

/-- validate: the declared value must decode to the computed sum -/
def Digest.valid (d : Digest) (data : Bytes) : Bool := d.enc.decode d.hash == some (H d.alg data)

end
end Gowarc
