/-
  The file-effect skeleton of warcfile.go's per-file writer that the model `SW` (Model/Writer.lean) was written from:
  every assignment to currentFile / currentFileName / currentFileSize / currentWarcInfoId and to the response, every call
  that touches the file or hands control to user code or to another of these functions, the branches that contain them
  (with their conditions) and the returns, in syntactic order. How the model reads it:

  * write — the fit test (`SW.fitClose`): only with an open file and a positive limit; Content-Length through ParseInt
    (`Decl.empty` / `.bad` / `.val`; a parse error is the error response without any effect); `currentFileSize > 0 &&
    currentFileSize + size > maxFileSize` closes the file (`SW.close`). No open file: `SW.createFile`. The response takes
    FileOffset and FileName from the TRACKED size and name BEFORE writeRecord (`⟨some id, s2.curSize, …⟩`). A marshal error
    truncates the file back to the tracked size and seeks there (`SW.writeFailed`: no member, size unchanged; fix 29ef2be).
    Otherwise optional Sync, then Stat: the tracked size becomes the file's length (`curSize := fileSize files id`).
  * writeRecord — own gzip member (Reset … Close), the record is stamped with currentWarcInfoId when that is set
    (`Member.stamp := s2.infoOf`), the marshaler writes it. A continuation record: Stat refreshes the tracked size FIRST
    (fix 54adc48), then the nested write; if that fails in the same file the old size is put back so that the caller
    removes the whole record (`SW.writeSeg`: `write` then `write`, or `writeFailed`).
  * createFile — next name from the generator; the name on disk is generated name ++ compression suffix (when compressing)
    ++ in-progress suffix, below the generator's directory (`SW.onDiskName`); before-hook, O_EXCL create, name and file
    are set, then the warcinfo record if a generator is configured.
  * createWarcInfoRecord — currentWarcInfoId is cleared before the warcinfo record is written (so it is not stamped:
    `⟨0, infoBytes id, none⟩`), set to the new record's id afterwards (`infoOf := some id`), Sync/Stat as in write
    (`curSize := (infoBytes id).length`).
  * close — file, name and size are reset FIRST (the size is captured in a local), then Close, Rename to the final name
    = the name on disk with the in-progress suffix trimmed off its END (`trimSuffix`, theorem `C13_final_name`),
    after-hook with (final name, captured size, currentWarcInfoId) (`Callback ⟨id, s.curSize, s.infoOf⟩`).

  `C04_writer_skeleton` (Props/C04skel.lean) states that the skeleton regenerated from /repo on this run is this one. A
  change of any of these functions breaks that obligation even when it is harmless; the check then searches the writer
  scenarios for an input on which a property fails and reports what it finds (or `no-failing-input-found`).
-/
namespace Gowarc.SW

def expectedWriterSkeleton : List (String × List String) := [
  ("write", ["if w.currentFile != nil && w.opts.maxFileSize > 0 [",
    "call record.WarcHeader().Get",
    "if s != \"\" [",
    "call strconv.ParseInt",
    "if err != nil [",
    "set response.Err = err",
    "return ",
    "]",
    "if w.currentFileSize > 0 && (w.currentFileSize+size) > w.opts.maxFileSize [",
    "call w.close",
    "if err != nil [",
    "set response.Err = err",
    "return ",
    "]",
    "]",
    "]",
    "]",
    "if w.currentFile == nil [",
    "call w.createFile",
    "if err != nil [",
    "set response.Err = err",
    "return ",
    "]",
    "]",
    "set response.FileOffset = w.currentFileSize",
    "set response.FileName = w.currentFileName",
    "call w.writeRecord(w.currentFile, record, maxRecordSize)",
    "set response.BytesWritten, response.Err = w.writeRecord(w.currentFile, record, maxRecordSize)",
    "if response.Err != nil [",
    "if w.currentFile != nil && w.currentFile.Truncate(w.currentFileSize) == nil [",
    "call w.currentFile.Truncate(w.currentFileSize)",
    "call w.currentFile.Seek(w.currentFileSize, io.SeekStart)",
    "let _, _ = w.currentFile.Seek(w.currentFileSize, io.SeekStart)",
    "]",
    "return ",
    "]",
    "if w.opts.flush [",
    "call w.currentFile.Sync",
    "set response.Err = w.currentFile.Sync()",
    "onerr-return",
    "]",
    "call w.currentFile.Stat",
    "let fi, err := w.currentFile.Stat()",
    "if err != nil [",
    "set response.Err = err",
    "return ",
    "]",
    "call fi.Size",
    "set w.currentFileSize = fi.Size()",
    "return "]),
  ("writeRecord", ["if w.opts.compress [",
    "call w.gz.Reset",
    "]",
    "if w.currentWarcInfoId != \"\" [",
    "call record.WarcHeader().SetId(WarcWarcinfoID, w.currentWarcInfoId)",
    "]",
    "call w.opts.marshaler.Marshal",
    "if w.opts.compress [",
    "call w.gz.Close",
    "]",
    "onerr-return",
    "if nextRec != nil [",
    "let start, name := w.currentFileSize, w.currentFileName",
    "call w.currentFile.Stat",
    "let fi, err := w.currentFile.Stat()",
    "onerr-return",
    "call fi.Size",
    "set w.currentFileSize = fi.Size()",
    "call w.write(nextRec)",
    "if res.Err != nil && w.currentFileName == name [",
    "set w.currentFileSize = start",
    "]",
    "set res.BytesWritten += size",
    "return res.BytesWritten, res.Err",
    "]",
    "return size, nil"]),
  ("createFile", ["if w.opts.compress [",
    "set suffix = w.opts.compressSuffix",
    "]",
    "call w.opts.nameGenerator.NewWarcfileName",
    "set dir, fileName := w.opts.nameGenerator.NewWarcfileName()",
    "set fileName += suffix",
    "set path := dir",
    "if path != \"\" && !strings.HasSuffix(path, \"/\") [",
    "set path += \"/\"",
    "]",
    "if w.opts.beforeFileCreationHook != nil [",
    "call w.opts.beforeFileCreationHook",
    "]",
    "set path += fileName + w.opts.openFileSuffix",
    "call os.OpenFile",
    "onerr-return",
    "set w.currentFileName = fileName",
    "set w.currentFile = file",
    "if w.opts.warcInfoFunc != nil [",
    "call w.createWarcInfoRecord",
    "onerr-return",
    "]",
    "return nil"]),
  ("createWarcInfoRecord", ["call w.opts.warcInfoFunc",
    "onerr-return",
    "call r.Build",
    "onerr-return",
    "set w.currentWarcInfoId = \"\"",
    "call w.writeRecord(w.currentFile, warcinfo, 0)",
    "let n, err := w.writeRecord(w.currentFile, warcinfo, 0)",
    "onerr-return",
    "call warcinfo.WarcHeader().GetId",
    "set w.currentWarcInfoId = warcinfo.WarcHeader().GetId(WarcRecordID)",
    "if w.opts.flush [",
    "call w.currentFile.Sync",
    "let err := w.currentFile.Sync()",
    "onerr-return",
    "]",
    "call w.currentFile.Stat",
    "let fi, err := w.currentFile.Stat()",
    "onerr-return",
    "call fi.Size",
    "set w.currentFileSize = fi.Size()",
    "return n, err"]),
  ("close", ["if w.currentFile != nil [",
    "let f := w.currentFile",
    "let size := w.currentFileSize",
    "set w.currentFile = nil",
    "set w.currentFileName = \"\"",
    "set w.currentFileSize = 0",
    "call f.Close",
    "onerr-return",
    "set finalFileName := strings.TrimSuffix(f.Name(), w.opts.openFileSuffix)",
    "call fileutil.Rename(f.Name(), finalFileName)",
    "onerr-return",
    "if w.opts.afterFileCreationHook != nil [",
    "call w.opts.afterFileCreationHook(finalFileName, size, w.currentWarcInfoId)",
    "let _ = w.opts.afterFileCreationHook(finalFileName, size, w.currentWarcInfoId)",
    "]",
    "]",
    "return nil"])
]

end Gowarc.SW
