/-
  Model of internal/diskbuffer: a buffer that keeps up to `max` bytes in memory and spills the rest to a temp file.

  State mirrors the Go structs: `mem` is `memBuf.buf[:memBuf.len]`, `file` is `none` while `fileBuf == nil`,
  `off` is the read position. Reads stitch the two parts the way diskbuffer.go does (memory read, then file read when
  the memory read came back short), ReadBytes has its memory search followed by the 100-byte disk loop.

  Outside the model (and outside property C14): WithMaxTotalBytes, WriteTo, read-only mode, I/O errors of the temp file.
-/
import Gowarc.Model.Basic
namespace Gowarc

structure Buf where
  mem  : Bytes
  max  : Nat              -- memBuf.max, ≥ 1
  file : Option Bytes
  off  : Nat
  deriving Repr, DecidableEq

namespace Buf

def new (max : Nat) : Buf := { mem := [], max := max, file := none, off := 0 }

def memLen (b : Buf) : Nat := b.mem.length
def fileLen (b : Buf) : Nat := match b.file with | none => 0 | some f => f.length
def size (b : Buf) : Nat := b.memLen + b.fileLen
def memHasSpace (b : Buf) : Bool := b.memLen < b.max

/-- buffer.write: fill memory, create the file the moment memory is full, rest goes to the file. -/
def write (b : Buf) (p : Bytes) : Buf :=
  if b.memHasSpace then
    if (b.mem ++ p.take (b.max - b.memLen)).length < b.max then
      { b with mem := b.mem ++ p.take (b.max - b.memLen) }
    else
      { b with mem := b.mem ++ p.take (b.max - b.memLen), file := some (p.drop (b.max - b.memLen)) }
  else
    match b.file with
    | some f => { b with file := some (f ++ p) }
    | none => b      -- unreachable under the invariant (memory full ⇒ file exists); Go would dereference nil here

/-- does `write` hit the nil file buffer? (memory full, no file) -/
def writeFaults (b : Buf) : Bool := !b.memHasSpace && b.file.isNone

/-- buffer.ReadFrom for a source that delivers `p` and then ends (io.EOF or, if `srcErr`, another error):
    the split between memory and file does not depend on how the source chunks its data. Returns the new
    state; the Go return values are `(p.length, srcErr)`. -/
def readFrom (b : Buf) (p : Bytes) : Buf := b.write p

/-- memBuffer.read / fileBuffer.read over their data: both are coded the same way — nothing (and io.EOF unless the
    request is empty) when the part is empty or `off` is at or past its end, otherwise a copy that reports io.EOF when
    it came back short (os.File.ReadAt does the same). -/
def partRead (data : Bytes) (off n : Nat) : Bytes × Bool :=
  if data.length == 0 || off ≥ data.length then ([], n != 0)
  else ((data.drop off).take n, n > ((data.drop off).take n).length)

def memRead (b : Buf) (off n : Nat) : Bytes × Bool := partRead b.mem off n

/-- a nil file buffer reads as empty (`fileBuffer.empty()` is nil-safe) -/
def fileRead (b : Buf) (off n : Nat) : Bytes × Bool :=
  match b.file with
  | none => ([], n != 0)
  | some f => partRead f off n

/-- buffer.ReadAtOffset(off, n) -/
def readAt (b : Buf) (off n : Nat) : Bytes × Bool :=
  if b.size ≤ off then ([], n != 0)
  else
    if (b.memRead off n).2 && n > (b.memRead off n).1.length && b.file.isSome then
      ((b.memRead off n).1 ++ (b.fileRead (off + (b.memRead off n).1.length - b.memLen) (n - (b.memRead off n).1.length)).1,
       (b.fileRead (off + (b.memRead off n).1.length - b.memLen) (n - (b.memRead off n).1.length)).2)
    else b.memRead off n

/-- buffer.Read(n): bytes, eof flag, new state -/
def read (b : Buf) (n : Nat) : (Bytes × Bool) × Buf :=
  (b.readAt b.off n, { b with off := b.off + (b.readAt b.off n).1.length })

/-- buffer.Peek(n) -/
def peek (b : Buf) (n : Nat) : Bytes × Bool := b.readAt b.off n

/-- index of the first `d` in `l` -/
def indexOf (d : UInt8) : Bytes → Option Nat
  | [] => none
  | x :: xs => if x == d then some 0 else (indexOf d xs).map (· + 1)

/-- The 100-byte disk loop of ReadBytes over the data `f` starting at `foff`: collected line, eof flag, new foff.
    `fuel` bounds the iterations (one more than the number of chunks). -/
def diskLoop (f : Bytes) (d : UInt8) : Nat → Nat → Bytes → Bytes × Bool × Nat
  | 0, foff, acc => (acc, true, foff)
  | fuel + 1, foff, acc =>
    if f.length == 0 || foff ≥ f.length then (acc, true, foff)          -- read returns (0, EOF)
    else
      match indexOf d ((f.drop foff).take 100) with
      | some i => (acc ++ ((f.drop foff).take 100).take (i + 1), false, foff + i + 1)
      | none =>
        if ((f.drop foff).take 100).length < 100 then (acc ++ (f.drop foff).take 100, true, foff + ((f.drop foff).take 100).length)
        else diskLoop f d fuel (foff + 100) (acc ++ (f.drop foff).take 100)

/-- buffer.ReadBytes(delim): line, eof flag, new state -/
def readBytes (b : Buf) (d : UInt8) : (Bytes × Bool) × Buf :=
  if b.size ≤ b.off then (([], true), b)
  else if b.off < b.memLen then
    match indexOf d (b.mem.drop b.off) with
    | some i => (((b.mem.drop b.off).take (i + 1), false), { b with off := b.off + i + 1 })
    | none =>
      if b.memHasSpace then ((b.mem.drop b.off, true), { b with off := b.memLen })
      else
        ((b.mem.drop b.off ++ (diskLoop (b.file.getD []) d (b.fileLen / 100 + 2) 0 []).1,
          (diskLoop (b.file.getD []) d (b.fileLen / 100 + 2) 0 []).2.1),
         { b with off := b.memLen + (diskLoop (b.file.getD []) d (b.fileLen / 100 + 2) 0 []).2.2 })
  else
    (((diskLoop (b.file.getD []) d (b.fileLen / 100 + 2) (b.off - b.memLen) []).1,
      (diskLoop (b.file.getD []) d (b.fileLen / 100 + 2) (b.off - b.memLen) []).2.1),
     { b with off := b.memLen + (diskLoop (b.file.getD []) d (b.fileLen / 100 + 2) (b.off - b.memLen) []).2.2 })

def seekStart (b : Buf) : Buf := { b with off := 0 }

end Buf

/-- slice.go: a read-only view. `len = none` is the unlimited slice (`len <= 0` in the call). -/
structure Slice where
  soff : Nat
  len  : Option Nat
  pos  : Nat
  deriving Repr, DecidableEq

namespace Slice

/-- slice.ReadAtOffset(off, n) -/
def readAt (s : Slice) (b : Buf) (off n : Nat) : Bytes × Bool :=
  match s.len with
  | none => b.readAt (s.soff + off) n
  | some l =>
    if l ≤ off then ([], true)
    else b.readAt (s.soff + off) (min n (l - off))

def read (s : Slice) (b : Buf) (n : Nat) : (Bytes × Bool) × Slice :=
  (s.readAt b s.pos n, { s with pos := s.pos + (s.readAt b s.pos n).1.length })

def peek (s : Slice) (b : Buf) (n : Nat) : Bytes × Bool := s.readAt b s.pos n

def size (s : Slice) (b : Buf) : Int :=
  match s.len with
  | none => (b.size : Int) - s.soff
  | some l => l

/-- the 100-byte loop of slice.ReadBytes -/
def lineLoop (s : Slice) (b : Buf) (d : UInt8) : Nat → Nat → Bytes → Bytes × Bool × Nat
  | 0, off, acc => (acc, true, off)
  | fuel + 1, off, acc =>
    if (s.readAt b off 100).1.length > 0 then
      match Buf.indexOf d (s.readAt b off 100).1 with
      | some i => (acc ++ (s.readAt b off 100).1.take (i + 1), false, off + i + 1)
      | none =>
        if (s.readAt b off 100).2 then (acc ++ (s.readAt b off 100).1, true, off + (s.readAt b off 100).1.length)
        else lineLoop s b d fuel (off + (s.readAt b off 100).1.length) (acc ++ (s.readAt b off 100).1)
    else
      if (s.readAt b off 100).2 then (acc, true, off)
      else lineLoop s b d fuel off acc     -- (0, nil): cannot happen for n = 100

def readBytes (s : Slice) (b : Buf) (d : UInt8) : (Bytes × Bool) × Slice :=
  match s.len with
  | some l =>
    if l ≤ s.pos then (([], true), s)
    else (((lineLoop s b d (b.size / 100 + 2) s.pos []).1, (lineLoop s b d (b.size / 100 + 2) s.pos []).2.1),
          { s with pos := (lineLoop s b d (b.size / 100 + 2) s.pos []).2.2 })
  | none =>
    (((lineLoop s b d (b.size / 100 + 2) s.pos []).1, (lineLoop s b d (b.size / 100 + 2) s.pos []).2.1),
     { s with pos := (lineLoop s b d (b.size / 100 + 2) s.pos []).2.2 })

def seekStart (s : Slice) : Slice := { s with pos := 0 }

end Slice
end Gowarc
