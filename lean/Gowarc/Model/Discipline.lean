/-
  The lock discipline of the library's shared state, as a decidable check over the table the translator extracts
  (Gen/SharedAccess.lean):

  * package-level variables are written only during package initialisation;
  * the mutable fields of singleWarcFileWriter (those some method assigns) are written AND read only by methods that run
    under writeLock: a method runs under the lock if no call path from outside the type reaches it without passing a
    method that takes the lock; a method that takes the lock but has statements outside the locked region (before
    Lock(), after an explicit Unlock()) appears twice: `m` for the locked part, `m!` for the rest, and `m!` is entered
    by whoever enters `m`;
  * calls that the callee's documentation declares not thread-safe happen only in `init`;
  * the name generator and the WarcFileWriter do not assign their own fields in methods that workers/callers run
    concurrently (the serial number is bumped atomically);
  * an object handed to a sync.Pool is not kept.
-/
namespace Gowarc.Discipline

structure Table where
  pkgVarWrites : List (String × String × String)
  writerFieldWrites : List (String × String)
  writerFieldReads : List (String × String)
  lockHolders : List String
  innerCalls : List (String × String)
  outerCalls : List (String × String)
  unsafeExternalCalls : List (String × String)
  generatorFieldWrites : List (String × String)
  writerStructWrites : List (String × String)
  poolPuts : List (String × String × String)
  pkgObjects : List (String × String × String) := []
  readerFieldWrites : List (String × String) := []
  optsFieldWrites : List (String × String) := []

/-- makers of package-level objects whose results are immutable after package initialisation (error values, version
    descriptors, tables and slices no function assigns to — assignments are `pkgVarWrites`) or documented as safe for
    concurrent use (sync.Pool). Anything else held in a package-level variable — a buffer, a reader, a cache — is state
    that every goroutine using the package shares behind the API. -/
def allowedMakers : List String :=
  ["call errors.New", "call fmt.Errorf", "lit sync.Pool", "lit WarcVersion", "call make"]

/-- a maker is allowed when it is in the list, or a slice or map literal of any element type: a table. Tables are read-only
    after package initialisation because no function assigns to them or into them, sorts, clears or deletes from them
    (`pkgVarWrites`, which must name `init` only). A struct literal of any other type stays refused: it may be a buffer,
    a reader or a cache. -/
def allowedMaker (m : String) : Bool :=
  allowedMakers.contains m || "lit []".toList.isPrefixOf m.toList || "lit map[".toList.isPrefixOf m.toList

/-- one round: methods reached from an unlocked method through a call that does not enter a lock holder -/
def expand (t : Table) (u : List String) : List String :=
  u ++ (t.innerCalls.filter (fun c => u.contains c.1 && !t.lockHolders.contains c.2 && !u.contains c.2)).map (·.2)

def iterate (t : Table) : Nat → List String → List String
  | 0, u => u
  | n + 1, u => iterate t n (expand t u)

/-- methods that some call path from outside reaches without the lock -/
def unlocked (t : Table) : List String :=
  iterate t (t.innerCalls.length + 1) ((t.outerCalls.filter (fun c => !t.lockHolders.contains c.2)).map (·.2)).eraseDups

/-- `u` contains every unlocked entry and is closed under unlocked calls -/
def Closed (t : Table) (u : List String) : Bool :=
  t.outerCalls.all (fun c => t.lockHolders.contains c.2 || u.contains c.2) &&
  t.innerCalls.all (fun c => !u.contains c.1 || t.lockHolders.contains c.2 || u.contains c.2)

def RaceFree (t : Table) : Bool :=
  t.pkgVarWrites.all (fun w => w.2.2 == "init") &&
  Closed t (unlocked t) &&
  t.writerFieldWrites.all (fun w => !(unlocked t).contains w.2) &&
  t.writerFieldReads.all (fun w => !(unlocked t).contains w.2) &&
  t.unsafeExternalCalls.all (fun c => c.1 == "init") &&
  t.generatorFieldWrites.isEmpty &&
  t.writerStructWrites.isEmpty &&
  t.poolPuts.all (fun p => p.2.2 == "niled") &&
  t.pkgObjects.all (fun o => allowedMaker o.2.2) &&
  -- a file reader keeps nothing between calls: the only field its methods assign is the pooled input buffer, in Close.
  -- In particular Next does not keep the record it returns (which belongs to whoever received it)
  t.readerFieldWrites.all (fun w => w == ("bufferedReader", "Close")) &&
  -- an options object is written only while it is being constructed (by the option appliers): a reader, unmarshaler or
  -- builder shares it with every record it produces, and those may be in other goroutines' hands
  t.optsFieldWrites.isEmpty

/-- a call path inside the type: consecutive methods are caller/callee, and no method after the first takes the lock -/
def UnlockedPath (t : Table) : List String → Prop
  | [] => True
  | [_] => True
  | a :: b :: rest => (a, b) ∈ t.innerCalls ∧ t.lockHolders.contains b = false ∧ UnlockedPath t (b :: rest)

/-- **soundness of the closure**: if `u` is closed, every method at the end of a call path that enters the type without
    the lock and never passes a lock holder is in `u` — so a field written only by methods outside `u` is written only
    under the lock -/
theorem closed_sound (t : Table) (u : List String) (hc : Closed t u = true) (f : String) (path : List String) (m : String)
    (hentry : (f, path.head?.getD m) ∈ t.outerCalls) (hnl : t.lockHolders.contains (path.head?.getD m) = false)
    (hpath : UnlockedPath t path) (hlast : path.getLast? = some m) : u.contains m = true := by
  unfold Closed at hc
  simp only [Bool.and_eq_true, List.all_eq_true, Bool.or_eq_true, Bool.not_eq_true'] at hc
  obtain ⟨hout, hin⟩ := hc
  induction path generalizing f with
  | nil => simp at hlast
  | cons a rest ih =>
    have ha : u.contains a = true := by
      have := hout (f, a) (by simpa using hentry)
      simp only at this
      rcases this with h | h
      · simp only [List.head?_cons, Option.getD_some] at hnl; rw [hnl] at h; cases h
      · exact h
    -- walk along the path keeping membership in u
    clear hentry hnl ih
    induction rest generalizing a with
    | nil => simp at hlast; subst hlast; exact ha
    | cons b rest' ih2 =>
      obtain ⟨hcall, hnlb, hrest⟩ := hpath
      have hb : u.contains b = true := by
        have := hin (a, b) hcall
        simp only at this
        rcases this with (h | h) | h
        · rw [ha] at h; cases h
        · rw [hnlb] at h; cases h
        · exact h
      exact ih2 b hrest (by simpa using hlast) hb

end Gowarc.Discipline
