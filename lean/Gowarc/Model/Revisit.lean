/-
  Model of record.go ToRevisitRecord / CreateRevisitRef / Merge and revisitblock.go newRevisitBlock, over header
  fields and block bytes. A record is (type, header, protocol header bytes, payload bytes); for a generic block the
  protocol header is empty and `isHttp = false`.
-/
import Gowarc.Model.Record
namespace Gowarc

structure RRec where
  rt : Nat
  hdr : Fields
  isHttp : Bool
  revisitable : Bool   -- the block is an http block or a generic block (newRevisitBlock refuses the others)
  head : Bytes        -- ProtocolHeaderBytes (http kinds)
  payload : Bytes
  payloadDigest : Bytes   -- what PayloadDigest() returns (http kinds)
  cached : Bool
  blockDigestStr : Bytes  -- what BlockDigest() returns
  deriving Repr, DecidableEq

structure RevisitRef where
  profile : Bytes
  targetRecordId : Bytes
  targetUri : Bytes
  targetDate : Bytes
  deriving Repr, DecidableEq

def profileIPD10 := bs "http://netpreserve.org/warc/1.0/revisit/identical-payload-digest"
def profileIPD11 := bs "http://netpreserve.org/warc/1.1/revisit/identical-payload-digest"
def profileSNM10 := bs "http://netpreserve.org/warc/1.0/revisit/server-not-modified"
def profileSNM11 := bs "http://netpreserve.org/warc/1.1/revisit/server-not-modified"

inductive RevErr | needPayloadDigest | unknownProfile | notRevisit | segmented | badLength | notHttp | httpParse | unsupportedBlock | refOfRevisit
  deriving DecidableEq, Repr

def RRec.raw (r : RRec) : Bytes := r.head ++ r.payload

section
variable (H : Alg → Bytes → Bytes)

/-- CreateRevisitRef -/
def createRevisitRef (r : RRec) (profile : Bytes) : Except RevErr RevisitRef :=
  if r.rt == RT_Revisit then .error .refOfRevisit
  else .ok ⟨profile, r.hdr.getId (bs "WARC-Record-ID"), r.hdr.get (bs "WARC-Target-URI"), r.hdr.get (bs "WARC-Date")⟩

def setIfNonEmpty (h : Fields) (n v : Bytes) : Fields := if v.isEmpty then h else h.set n v

def isIPD (p : Bytes) : Bool := p == profileIPD10 || p == profileIPD11
def isSNM (p : Bytes) : Bool := p == profileSNM10 || p == profileSNM11

/-- the header clone after the profile-specific step: a resource record's block digest stands in for a missing
    payload digest under the identical-payload-digest profiles -/
def revisitBase (r : RRec) (ref : RevisitRef) : Fields :=
  if isIPD ref.profile && !r.hdr.has (bs "WARC-Payload-Digest") && r.rt == RT_Resource && r.hdr.has (bs "WARC-Block-Digest")
  then r.hdr.set (bs "WARC-Payload-Digest") (r.hdr.get (bs "WARC-Block-Digest")) else r.hdr

/-- the header of the revisit record -/
def revisitHdr (base : Fields) (ref : RevisitRef) (bdStr : Bytes) (headLen : Nat) : Fields :=
  (((setIfNonEmpty (setIfNonEmpty
      (if ref.targetRecordId.isEmpty then (base.set (bs "WARC-Type") (recTypeName RT_Revisit)).set (bs "WARC-Profile") ref.profile
       else ((base.set (bs "WARC-Type") (recTypeName RT_Revisit)).set (bs "WARC-Profile") ref.profile).setId (bs "WARC-Refers-To") ref.targetRecordId)
      (bs "WARC-Refers-To-Target-URI") ref.targetUri) (bs "WARC-Refers-To-Date") ref.targetDate).set
    (bs "WARC-Truncated") (bs "length")).set (bs "WARC-Block-Digest") bdStr).set (bs "Content-Length") (natToDec headLen)

def revisitHead (r : RRec) : Bytes := if r.isHttp then r.head else []

/-- ToRevisitRecord -/
def toRevisit (o : Opts) (r : RRec) (ref : RevisitRef) : Except RevErr RRec :=
  if isIPD ref.profile && !(revisitBase r ref).has (bs "WARC-Payload-Digest") then .error .needPayloadDigest
  else if !isIPD ref.profile && !isSNM ref.profile then .error .unknownProfile
  else if !r.revisitable then .error .unsupportedBlock
  else
    match newDigest o.defaultAlg o.defaultEnc with
    | none => .error .unknownProfile      -- unreachable for the supported algorithms (Go ignores the error and would crash)
    | some d =>
      .ok { rt := RT_Revisit, hdr := revisitHdr (revisitBase r ref) ref (d.format H (revisitHead r)) (revisitHead r).length,
            isHttp := false, revisitable := false, head := revisitHead r, payload := [],
            payloadDigest := if r.isHttp then r.payloadDigest else [], cached := true,
            blockDigestStr := d.format H (revisitHead r) }

/-- Merge (revisit `rev` with the referenced record `orig`); `isResp`: the referenced block is a response block -/
def merge (Ω : Oracles) (syn : Pol) (isResp : Bool) (rev orig : RRec) : Except RevErr RRec :=
  if rev.hdr.get (bs "WARC-Segment-Number") == bs "1" then .error .segmented
  else if rev.rt != RT_Revisit then .error .notRevisit
  else if !orig.isHttp then .error .notHttp
  else if !orig.hdr.has (bs "Content-Length") || (parseInt10 (orig.hdr.get (bs "Content-Length"))).isNone then .error .badLength
  else
    let h1 := rev.hdr.set (bs "WARC-Type") (orig.hdr.get (bs "WARC-Type"))
    let h2 := (((h1.delete (bs "WARC-Refers-To")).delete (bs "WARC-Refers-To-Target-URI")).delete (bs "WARC-Refers-To-Date")).delete (bs "WARC-Profile")
    let h3 := if orig.hdr.has (bs "WARC-Truncated") then h2.set (bs "WARC-Truncated") (orig.hdr.get (bs "WARC-Truncated")) else h2.delete (bs "WARC-Truncated")
    let size : Int := (rev.head.length : Int) + contentLengthOf orig.hdr - (orig.head.length : Int)
    let h4 := setInt h3 (bs "Content-Length") size
    let h5 := if orig.cached then h4.set (bs "WARC-Block-Digest") orig.blockDigestStr else h4.delete (bs "WARC-Block-Digest")
    -- the protocol header taken from the revisit is parsed again; if that fails it is retried with CR LF appended
    -- (unless the syntax policy is fail) and the appended bytes stay in the block
    if Ω.http isResp rev.head then
      .ok { rt := orig.rt, hdr := h5, isHttp := true, revisitable := true, head := rev.head, payload := orig.payload,
            payloadDigest := orig.payloadDigest, cached := orig.cached, blockDigestStr := orig.blockDigestStr }
    else if syn == .fail then .error .httpParse
    else if Ω.http isResp (rev.head ++ crlf) then
      .ok { rt := orig.rt, hdr := h5, isHttp := true, revisitable := true, head := rev.head ++ crlf, payload := orig.payload,
            payloadDigest := orig.payloadDigest, cached := orig.cached, blockDigestStr := orig.blockDigestStr }
    else .error .httpParse

end
end Gowarc
