/-
  Serialization against a writer that can fail: `WarcFields.Write` (warcfields.go) and `defaultMarshaler.writeRecord`
  (marshaler.go) write piece by piece and stop at the first error the writer reports.

  The writer of the model (`FW`) is the one the harness uses: it accepts `budget` bytes in total, fails ONCE on the write
  that would go beyond them — after taking the part that still fits — and accepts everything afterwards (a volume that is
  full for a moment, an interrupted write). A serializer that swallowed the error would go on writing behind the hole.
-/
import Gowarc.Model.Record
namespace Gowarc

structure FW where
  got : Bytes
  budget : Nat
  failed : Bool
  deriving Repr

/-- one Write call: (writer afterwards, bytes taken, error reported) -/
def FW.write (w : FW) (p : Bytes) : FW × Nat × Bool :=
  if !w.failed && w.got.length + p.length > w.budget then
    ({ w with got := w.got ++ p.take (w.budget - w.got.length), failed := true }, (p.take (w.budget - w.got.length)).length, true)
  else ({ w with got := w.got ++ p }, p.length, false)

/-- the writer has not yet run out of room (true of a fresh writer, kept by every successful write) -/
def FW.Inv (w : FW) : Prop := w.failed = true ∨ w.got.length ≤ w.budget

/-- a sequence of pieces, each handed to the writer in one call; stop at the first error. Returns the writer, the byte
    count reported to the caller and whether an error is returned. -/
def writePieces : List Bytes → FW → FW × Nat × Bool
  | [], w => (w, 0, false)
  | p :: rest, w =>
    if (w.write p).2.2 then ((w.write p).1, (w.write p).2.1, true)
    else ((writePieces rest (w.write p).1).1, (w.write p).2.1 + (writePieces rest (w.write p).1).2.1, (writePieces rest (w.write p).1).2.2)

/-- WarcFields.Write: one Fprintf (= one Write call) per field -/
def Fields.pieces (fs : Fields) : List Bytes := fs.map (fun nv => nv.1 ++ [COLON, SP] ++ nv.2 ++ crlf)

def Fields.writeTo (fs : Fields) (w : FW) : FW × Nat × Bool := writePieces fs.pieces w

/-- writeRecord: version line, header fields, separator, block, end-of-record marker -/
def marshalPieces (verTxt : Bytes) (hdr : Fields) (blockRaw : Bytes) : List Bytes :=
  [bs "WARC/" ++ verTxt ++ crlf] ++ hdr.pieces ++ [crlf, blockRaw, crlfcrlf]

def marshalTo (verTxt : Bytes) (hdr : Fields) (blockRaw : Bytes) (w : FW) : FW × Nat × Bool :=
  writePieces (marshalPieces verTxt hdr blockRaw) w

end Gowarc
