/-
  Model of warcfieldsparser.go (parseLine, readLine, Parse) over a byte stream with an optional sticky reader fault.

  The bufio.Reader is modelled by its contract: `ReadBytes('\n')` returns the bytes up to and including the next LF, or
  everything that is left together with the stream's end condition (io.EOF, or the reader's error); `Peek(1)` returns
  the next byte or the end condition.
-/
import Gowarc.Model.Mime
namespace Gowarc

inductive Pol | ignore | warn | fail
  deriving DecidableEq, Repr

def Pol.ofCode : Nat → Pol | 0 => .ignore | 1 => .warn | _ => .fail
def Pol.code : Pol → Nat | .ignore => 0 | .warn => 1 | .fail => 2

/-- how the stream ends once its bytes are used up: io.EOF, or a sticky non-EOF error of the underlying reader -/
structure Stream where
  rest  : Bytes
  fault : Bool
  deriving DecidableEq, Repr

/-- validation findings and errors, reduced to the class the correspondence compares -/
inductive Tag
  | synMissingCR | synMissingNewline | synDecode | synMissingColon | eoh | missingEofMarker | reader
  | synJunk | synStart | versionMissing | specVersion | specTrailer | eof | unexpectedEof
  | hdrField | hdrDuplicate | hdrMissing | hdrMissingCT | hdrConcurrent | hdrNoType | hdrUnknownType
  | length | digestBlock | digestPayload | digestAlg | notHttp | httpEoh | httpParse | wfBlock | other
  deriving DecidableEq, Repr

/-- `ReadBytes('\n')`: line, remaining stream, and whether the delimiter was found -/
def readBytesNL : Bytes → Bytes × Bytes × Bool
  | [] => ([], [], false)
  | b :: rest =>
    if b == LF then ([b], rest, true)
    else ((b :: (readBytesNL rest).1), (readBytesNL rest).2.1, (readBytesNL rest).2.2)

/-- result of readLine: trimmed line, whether Go's slice is nil (all-white-space, non-empty input), next char, error -/
structure LineRes where
  line  : Bytes
  isNil : Bool
  nc    : UInt8
  err   : Option Tag
  rest  : Bytes

def trimIsNil (l : Bytes) : Bool := !l.isEmpty && (trim isWs l).isEmpty

def missingCR (line : Bytes) : Bool := line.length < 2 || line.getD (line.length - 2) 0 != CR

/-- warcfieldsparser.go readLine -/
def readLine (syn : Pol) (s : Stream) : LineRes :=
  if !(readBytesNL s.rest).2.2 then
    -- no LF before the end of the stream
    if s.fault then ⟨[], true, 0, some .reader, []⟩
    else ⟨trim isWs (readBytesNL s.rest).1, trimIsNil (readBytesNL s.rest).1, 0, some .eoh, []⟩
  else if syn != .ignore && missingCR (readBytesNL s.rest).1 && syn == .fail then
    ⟨trim isWs (readBytesNL s.rest).1, trimIsNil (readBytesNL s.rest).1, 0, some .synMissingCR, (readBytesNL s.rest).2.1⟩
  else
    match (readBytesNL s.rest).2.1 with
    | [] =>
      if s.fault then ⟨[], true, 0, some .reader, []⟩
      else ⟨trim isWs (readBytesNL s.rest).1, trimIsNil (readBytesNL s.rest).1, 0,
            (if syn != .ignore && missingCR (readBytesNL s.rest).1 then some .synMissingCR else none), []⟩
    | c :: more =>
      ⟨trim isWs (readBytesNL s.rest).1, trimIsNil (readBytesNL s.rest).1, c,
       (if syn != .ignore && missingCR (readBytesNL s.rest).1 then some .synMissingCR else none), c :: more⟩

/-- warcfieldsparser.go parseLine: `inl tag` = syntax error, `inr (name, value)` = the pair that is added -/
def parseLine (line : Bytes) : Sum Tag (Bytes × Bytes) :=
  match decodeHeader (trimRight isWs line) with
  | none => .inl .synDecode
  | some l =>
    match splitFirst COLON l with
    | none => .inl .synMissingColon
    | some (n, v) => .inr (trim isWs n, trim isWs v)

/-- outcome of Parse -/
inductive ParseRes
  | ok (fs : Fields) (findings : List Tag) (rest : Stream)
  | err (t : Tag) (findings : List Tag)
  deriving DecidableEq

/-- the continuation loop: `for nc == sp || nc == ht`. Returns: (error tag, findings), or (line, nc, eoh, findings, rest). -/
def contLoop (syn : Pol) : Nat → Bytes → UInt8 → Bool → List Tag → Stream → Sum (Tag × List Tag) (Bytes × UInt8 × Bool × List Tag × Stream)
  | 0, line, nc, eoh, fnd, s => .inr (line, nc, eoh, fnd, s)
  | fuel + 1, line, nc, eoh, fnd, s =>
    if nc == SP || nc == HT then
      match (readLine syn s).err with
      | none => contLoop syn fuel (line ++ [SP] ++ (readLine syn s).line) (readLine syn s).nc eoh fnd ⟨(readLine syn s).rest, s.fault⟩
      | some e =>
        if (readLine syn s).isNil then .inl (e, fnd)
        else
          match syn with
          | .fail => .inl (if e == .eoh then .synMissingNewline else e, fnd)
          | .warn => contLoop syn fuel (line ++ [SP] ++ (readLine syn s).line) (readLine syn s).nc (eoh || e == .eoh)
                       (fnd ++ [if e == .eoh then .synMissingNewline else e]) ⟨(readLine syn s).rest, s.fault⟩
          | .ignore => contLoop syn fuel (line ++ [SP] ++ (readLine syn s).line) (readLine syn s).nc (eoh || e == .eoh)
                       fnd ⟨(readLine syn s).rest, s.fault⟩
    else .inr (line, nc, eoh, fnd, s)

/-- the terminator reads after a field line: `nc == cr` needs a line of exactly 2 bytes, `nc == lf` one of at most 2.
    none = not at a terminator; some none = "missing End of WARC-Fields marker"; some (some s') = consumed -/
def endMarker (nc : UInt8) (s : Stream) : Option (Option Stream) :=
  if nc == CR then
    some (if (readBytesNL s.rest).2.2 && (readBytesNL s.rest).1.length == 2 then some ⟨(readBytesNL s.rest).2.1, s.fault⟩ else none)
  else if nc == LF then
    some (if (readBytesNL s.rest).2.2 && (readBytesNL s.rest).1.length ≤ 2 then some ⟨(readBytesNL s.rest).2.1, s.fault⟩ else none)
  else none

/-- after parseLine: stop at end of headers or at the terminator, else go round the loop again (`k`) -/
def afterLine (k : Fields → List Tag → Stream → ParseRes) (wf : Fields) (fnd : List Tag) (nc : UInt8) (eoh : Bool) (s : Stream) : ParseRes :=
  if eoh then .ok wf fnd s
  else match endMarker nc s with
    | some none => .err .missingEofMarker fnd
    | some (some s') => .ok wf fnd s'
    | none => k wf fnd s

/-- after the first line of a field: continuations, parseLine, terminator -/
def parseRest (syn : Pol) (k : Fields → List Tag → Stream → ParseRes) (wf : Fields) (fnd : List Tag) (lr : LineRes) (eoh : Bool) (fault : Bool) : ParseRes :=
  match contLoop syn (lr.rest.length + 1) lr.line lr.nc eoh fnd ⟨lr.rest, fault⟩ with
  | .inl (e, fnd') => .err e fnd'
  | .inr (line, nc, eoh', fnd', s') =>
    match parseLine line with
    | .inl e =>
      (match syn with
       | .fail => .err e fnd'
       | .warn => afterLine k wf (fnd' ++ [e]) nc eoh' s'
       | .ignore => afterLine k wf fnd' nc eoh' s')
    | .inr (n, v) => afterLine k (wf.add n v) fnd' nc eoh' s'

/-- warcfieldsparser.go Parse: the main loop, one field line (with its continuations) per iteration -/
def parseLoop (syn : Pol) : Nat → Fields → List Tag → Stream → ParseRes
  | 0, _, fnd, _ => .err .other fnd          -- out of fuel: shown unreachable (C05)
  | fuel + 1, wf, fnd, s =>
    match (readLine syn s).err with
    | none => parseRest syn (parseLoop syn fuel) wf fnd (readLine syn s) false s.fault
    | some e =>
      if e == .reader then .err .reader fnd
      else if e == .eoh then
        (if (readLine syn s).line.isEmpty then .ok wf fnd ⟨[], s.fault⟩
         else
          match syn with
          | .fail => .err .synMissingNewline fnd
          | .warn => parseRest syn (parseLoop syn fuel) wf (fnd ++ [.synMissingNewline]) (readLine syn s) true s.fault
          | .ignore => parseRest syn (parseLoop syn fuel) wf fnd (readLine syn s) true s.fault)
      else
        match syn with
        | .fail => .err e fnd
        | .warn => parseRest syn (parseLoop syn fuel) wf (fnd ++ [e]) (readLine syn s) false s.fault
        | .ignore => parseRest syn (parseLoop syn fuel) wf fnd (readLine syn s) false s.fault

/-- Parse on a stream -/
def parseFields (syn : Pol) (s : Stream) : ParseRes := parseLoop syn (s.rest.length + 2) [] [] s

end Gowarc
