/-
  Basic byte-string vocabulary shared by every model file.

  Go strings and []byte are byte strings; Lean `String` is not, so data is `List UInt8`.
  Everything here is total and executable (core Lean only, no Mathlib).
-/
namespace Gowarc

abbrev Bytes := List UInt8

/-- ASCII literal → bytes (only used on ASCII literals). -/
def bs (s : String) : Bytes := s.toList.map (fun c => UInt8.ofNat c.toNat)

def SP : UInt8 := 32
def HT : UInt8 := 9
def CR : UInt8 := 13
def LF : UInt8 := 10
def COLON : UInt8 := 58

/-- The cut set `sphtcrlf = " \t\r\n"` of record.go. -/
def isWs (b : UInt8) : Bool := b == 32 || b == 9 || b == 13 || b == 10

def crlf : Bytes := [13, 10]
def crlfcrlf : Bytes := [13, 10, 13, 10]

def trimLeft (p : UInt8 → Bool) (l : Bytes) : Bytes := l.dropWhile p
def trimRight (p : UInt8 → Bool) (l : Bytes) : Bytes := (l.reverse.dropWhile p).reverse
/-- `bytes.Trim(l, cutset)` with `p` the membership test of the cut set. -/
def trim (p : UInt8 → Bool) (l : Bytes) : Bytes := trimRight p (trimLeft p l)

def isUpper (b : UInt8) : Bool := 65 ≤ b && b ≤ 90
def isLower (b : UInt8) : Bool := 97 ≤ b && b ≤ 122
def toLowerB (b : UInt8) : UInt8 := if isUpper b then b + 32 else b
def toUpperB (b : UInt8) : UInt8 := if isLower b then b - 32 else b
/-- ASCII-only lower-casing (byte-wise). -/
def lowerAscii (l : Bytes) : Bytes := l.map toLowerB
def upperAscii (l : Bytes) : Bytes := l.map toUpperB

/-- Split at the first occurrence of `c`: `bytes.SplitN(l, c, 2)` when it yields two parts. -/
def splitFirst (c : UInt8) : Bytes → Option (Bytes × Bytes)
  | [] => none
  | b :: rest =>
    if b == c then some ([], rest)
    else match splitFirst c rest with
      | none => none
      | some (x, y) => some (b :: x, y)

def hasPrefix (p l : Bytes) : Bool := l.take p.length == p
def hasSuffix (s l : Bytes) : Bool := l.drop (l.length - s.length) == s && s.length ≤ l.length

/-- Does `pat` occur in `l` as a contiguous sub-list? -/
def containsSub (pat : Bytes) : Bytes → Bool
  | [] => pat.isEmpty
  | b :: rest => hasPrefix pat (b :: rest) || containsSub pat rest

/-- Decimal rendering of a natural number, as `strconv.Itoa`/`FormatInt` do for n ≥ 0. -/
def natToDec (n : Nat) : Bytes := (Nat.toDigits 10 n).map (fun c => UInt8.ofNat c.toNat)

def intToDec (i : Int) : Bytes :=
  match i with
  | Int.ofNat n => natToDec n
  | Int.negSucc n => 45 :: natToDec (n + 1)

def isDigit (b : UInt8) : Bool := 48 ≤ b && b ≤ 57

/-- value of a digit string (no validation) -/
def digitsVal (l : Bytes) : Nat := l.foldl (fun acc b => acc * 10 + (b.toNat - 48)) 0

/- Hex for the line protocol (lower case; "-" denotes the empty string). -/
def hexDigit (n : Nat) : Char := if n < 10 then Char.ofNat (48 + n) else Char.ofNat (87 + n)

def toHex (l : Bytes) : String :=
  if l.isEmpty then "-" else
  String.ofList (l.flatMap (fun b => [hexDigit (b.toNat / 16), hexDigit (b.toNat % 16)]))

def hexVal (c : Char) : Option Nat :=
  if '0' ≤ c && c ≤ '9' then some (c.toNat - 48)
  else if 'a' ≤ c && c ≤ 'f' then some (c.toNat - 87)
  else if 'A' ≤ c && c ≤ 'F' then some (c.toNat - 55)
  else none

def fromHexChars : List Char → Option Bytes
  | [] => some []
  | [_] => none
  | a :: b :: rest =>
    match hexVal a, hexVal b, fromHexChars rest with
    | some x, some y, some r => some (UInt8.ofNat (x * 16 + y) :: r)
    | _, _, _ => none

def fromHex (s : String) : Option Bytes :=
  if s == "-" then some [] else fromHexChars s.toList

end Gowarc
