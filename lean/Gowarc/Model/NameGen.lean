/-
  Model of PatternNameGenerator.NewWarcfileName (warcfile.go) and internal.Sprintt (internal/namedformat.go):
  file names from a pattern with named fields, `%<flags><width>{name}<verb>`.

  Sprintt rewrites every `{name}` that is a key of the parameter map into an explicit argument index `[k]` and hands the
  result to fmt.Sprintf; for patterns whose verbs all carry a known name that is the same as looking the argument up by
  name. The model covers the verbs and flags file-name patterns use: `%s`, `%d`, `%v`, flags `0` and `-`, a decimal width,
  `%%`. Anything else (unknown names, other flags or verbs, a verb without a name, a type mismatch) is `none`: the
  harness does not generate such patterns and the model never guesses what fmt prints for them.

  Inputs from outside the model: the 14-digit time stamp (time formatting), the host name / IP address (os, net).
-/
import Gowarc.Model.Basic
import Gowarc.Gen.Defaults
namespace Gowarc.NameGen

inductive Arg | str (b : Bytes) | int (i : Int)
  deriving DecidableEq, Repr

structure Spec where
  zero : Bool
  minus : Bool
  width : Nat
  name : Bytes
  verb : UInt8
  deriving DecidableEq, Repr

inductive Tok | lit (b : UInt8) | spec (s : Spec)
  deriving DecidableEq, Repr

def takeDigits : Bytes → Bytes × Bytes
  | [] => ([], [])
  | b :: r => if isDigit b then (b :: (takeDigits r).1, (takeDigits r).2) else ([], b :: r)

def takeFlags : Bytes → Bool → Bool → Bool × Bool × Bytes
  | 48 :: r, _, m => takeFlags r true m          -- '0'
  | 45 :: r, z, _ => takeFlags r z true          -- '-'
  | r, z, m => (z, m, r)

/-- the verb specification behind a `%`: flags, width, `{name}`, verb -/
def parseSpec (r : Bytes) : Option (Spec × Bytes) :=
  match (takeDigits (takeFlags r false false).2.2).2 with
  | 123 :: r2 =>                                  -- '{'
    match splitFirst 125 r2 with                  -- '}'
    | some (name, v :: rest) =>
      if v == 115 || v == 100 || v == 118 then
        some (⟨(takeFlags r false false).1, (takeFlags r false false).2.1,
               digitsVal (takeDigits (takeFlags r false false).2.2).1, name, v⟩, rest)
      else none
    | _ => none
  | _ => none

def tokenize : Nat → Bytes → Option (List Tok)
  | 0, _ => none
  | _ + 1, [] => some []
  | fuel + 1, 37 :: 37 :: r => (tokenize fuel r).map (Tok.lit 37 :: ·)      -- %%
  | fuel + 1, 37 :: r =>
    match parseSpec r with
    | some (s, rest) => (tokenize fuel rest).map (Tok.spec s :: ·)
    | none => none
  | fuel + 1, b :: r => (tokenize fuel r).map (Tok.lit b :: ·)

/-- fmt's padding: to the left with spaces or zeros, to the right with spaces (`-` wins over `0`) -/
def pad (zero minus : Bool) (w : Nat) (s : Bytes) : Bytes :=
  if minus then s ++ List.replicate (w - s.length) 32
  else List.replicate (w - s.length) (if zero then 48 else 32) ++ s

/-- `%d` with the flags above: zeros go between the sign and the digits -/
def fmtInt (zero minus : Bool) (w : Nat) (i : Int) : Bytes :=
  match i with
  | Int.ofNat n => pad zero minus w (natToDec n)
  | Int.negSucc n =>
    if zero && !minus then 45 :: pad true false (w - 1) (natToDec (n + 1))
    else pad false minus w (45 :: natToDec (n + 1))

def renderSpec (s : Spec) (a : Arg) : Option Bytes :=
  match a with
  | .str b => if s.verb == 115 || s.verb == 118 then some (pad s.zero s.minus s.width b) else none
  | .int i => if s.verb == 100 || s.verb == 118 then some (fmtInt s.zero s.minus s.width i) else none

def lookup (params : List (Bytes × Arg)) (name : Bytes) : Option Arg :=
  (params.find? (fun p => p.1 == name)).map (·.2)

def render (params : List (Bytes × Arg)) : List Tok → Option Bytes
  | [] => some []
  | .lit b :: r => (render params r).map (b :: ·)
  | .spec s :: r =>
    match lookup params s.name, render params r with
    | some a, some rest => (renderSpec s a).map (· ++ rest)
    | _, _ => none

/-- internal.Sprintt on the supported patterns -/
def sprintt (pattern : Bytes) (params : List (Bytes × Arg)) : Option Bytes :=
  match tokenize (pattern.length + 1) pattern with
  | some toks => render params toks
  | none => none

structure Gen where
  prefix_ : Bytes
  serial : Int
  pattern : Bytes
  extension : Bytes
  custom : List (Bytes × Arg)

/-- the built-in parameters, which win over custom ones of the same name -/
def builtins (g : Gen) (ts hostOrIp host ip : Bytes) : List (Bytes × Arg) :=
  [(bs "ts", .str ts), (bs "serial", .int (g.serial + 1)), (bs "prefix", .str g.prefix_),
   (bs "ext", .str (if g.extension.isEmpty then bs Gowarc.Gen.w_defaultExtension else g.extension)),
   (bs "ip", .str ip), (bs "host", .str host), (bs "hostOrIp", .str hostOrIp)]

/-- NewWarcfileName: the name, and the generator with its serial advanced -/
def newName (g : Gen) (ts hostOrIp host ip : Bytes) : Option Bytes × Gen :=
  (sprintt (if g.pattern.isEmpty then bs Gowarc.Gen.w_defaultPattern else g.pattern) (builtins g ts hostOrIp host ip ++ g.custom),
   { g with serial := g.serial + 1 })

end Gowarc.NameGen
