/-
  `#audit_ns Gowarc.Props.Cnn` lists every theorem declared in that namespace together with the axioms it
  depends on (as JSON, one line, prefixed AUDIT). Used by /verif/check on every run.
-/
import Lean
open Lean Elab Command

elab "#audit_ns " ns:ident : command => do
  let env ← getEnv
  let nsName := ns.getId
  let mut items : Array (Name × Array Name × String) := #[]
  let consts := env.constants.fold (fun acc n ci => (n, ci) :: acc) []
  for (n, ci) in consts do
    if nsName.isPrefixOf n && !n.isInternal then
      match ci with
      | .thmInfo _ =>
        -- projections of a Prop-valued structure (e.g. the fields of a hypothesis bundle) are not proof obligations
        if env.isProjectionFn n then continue
        let axs ← liftCoreM (collectAxioms n)
        items := items.push (n, axs, "theorem")
      | _ => pure ()
  let sorted := items.qsort (fun a b => a.1.toString < b.1.toString)
  let js := sorted.map (fun (n, axs, k) =>
    Json.mkObj [("name", Json.str n.toString), ("kind", Json.str k),
                ("axioms", Json.arr (axs.map (fun a => Json.str a.toString)))])
  IO.println ("AUDIT " ++ (Json.arr js).compress)
