/-
  The field table of the WARC standards (ISO 28500: WARC 1.0 and WARC 1.1), transcribed BY HAND from the text of the
  standards: value type, repeatable, record types on which the field may appear, versions that define it.
  Record type bits: warcinfo 1, response 2, resource 4, request 8, metadata 16, revisit 32, conversion 64, continuation 128.
  Version bits: WARC 1.0 = 1, WARC 1.1 = 2. The three Browsertrix extension fields are not part of the standard (version mask 0: never checked).
-/
import Gowarc.Model.Basic
namespace Gowarc.Spec

inductive VType | string | nat | time | ip | id | uri
  deriving DecidableEq, Repr

structure Row where
  name : String
  typ : VType
  repeatable : Bool
  recs : Nat
  vers : Nat
  deriving DecidableEq, Repr

def all : Nat := 255
def notWarcinfo : Nat := 254

/-- rows in the order of their names (the translator emits the Go table in that order: the Go code reaches a row by name only) -/
def warcFieldTable : List Row := [
  ⟨"", .string, true, all, 3⟩,                                   -- any other (unknown) field: free text, may repeat
  ⟨"Content-Length", .nat, false, all, 3⟩,
  ⟨"Content-Type", .string, false, all, 3⟩,
  ⟨"WARC-Block-Digest", .string, false, all, 3⟩,
  ⟨"WARC-Concurrent-To", .id, true, 2 + 4 + 8 + 16 + 32, 3⟩,      -- not warcinfo, conversion, continuation; the only repeatable field
  ⟨"WARC-Date", .time, false, all, 3⟩,
  ⟨"WARC-Filename", .string, false, 1, 3⟩,                       -- warcinfo only
  ⟨"WARC-IP-Address", .ip, false, 2 + 4 + 8 + 16 + 32, 3⟩,
  ⟨"WARC-Identified-Payload-Type", .string, false, all, 3⟩,
  ⟨"WARC-JSON-Metadata", .string, false, notWarcinfo, 0⟩,
  ⟨"WARC-Page-ID", .string, false, notWarcinfo, 0⟩,
  ⟨"WARC-Payload-Digest", .string, false, all, 3⟩,
  ⟨"WARC-Profile", .uri, false, 32, 3⟩,                          -- revisit
  ⟨"WARC-Record-ID", .id, false, all, 3⟩,
  ⟨"WARC-Refers-To", .id, false, 16 + 32 + 64, 3⟩,               -- metadata, revisit, conversion
  ⟨"WARC-Refers-To-Date", .time, false, 32, 2⟩,                  -- WARC 1.1, revisit
  ⟨"WARC-Refers-To-Target-URI", .uri, false, 32, 2⟩,             -- WARC 1.1, revisit
  ⟨"WARC-Resource-Type", .string, false, notWarcinfo, 0⟩,
  ⟨"WARC-Segment-Number", .nat, false, all, 3⟩,
  ⟨"WARC-Segment-Origin-ID", .id, false, 128, 3⟩,                -- continuation
  ⟨"WARC-Segment-Total-Length", .nat, false, 128, 3⟩,            -- continuation
  ⟨"WARC-Target-URI", .uri, false, notWarcinfo, 3⟩,              -- "shall not be used in warcinfo records"
  ⟨"WARC-Truncated", .string, false, all, 3⟩,
  ⟨"WARC-Type", .string, false, all, 3⟩,
  ⟨"WARC-Warcinfo-ID", .id, false, notWarcinfo, 3⟩
]

/-- the four mandatory fields -/
def mandatory : List String := ["WARC-Record-ID", "Content-Length", "WARC-Date", "WARC-Type"]

end Gowarc.Spec
