/-
  The plain in-memory byte buffer that C14 compares the spill buffer with: all data in one list, a read offset.
  End-of-data convention (DESIGN.md 5.0): a read of `n` bytes returns the next `min n remaining` bytes and signals
  end-of-data exactly when it returned fewer than `n`.
-/
import Gowarc.Model.Basic
namespace Gowarc.Spec

structure SBuf where
  data : Bytes
  off  : Nat

namespace SBuf

def write (s : SBuf) (p : Bytes) : SBuf := { s with data := s.data ++ p }

def readAt (data : Bytes) (off n : Nat) : Bytes × Bool :=
  ((data.drop off).take n, decide (((data.drop off).take n).length < n))

def read (s : SBuf) (n : Nat) : (Bytes × Bool) × SBuf :=
  (readAt s.data s.off n, { s with off := s.off + (readAt s.data s.off n).1.length })

def peek (s : SBuf) (n : Nat) : Bytes × Bool := readAt s.data s.off n

def size (s : SBuf) : Nat := s.data.length

/-- a read-only view `[soff, soff+len)` (or to the end when `len = none`) -/
def view (data : Bytes) (soff : Nat) (len : Option Nat) : Bytes :=
  match len with
  | none => data.drop soff
  | some l => (data.drop soff).take l

end SBuf
end Gowarc.Spec
