/-
  Reference ordered multimap keyed by canonical field name (the specification side of C18).
  Written with list combinators only; it does not look at how warcfields.go does things.
-/
import Gowarc.Model.Basic
namespace Gowarc.Spec

abbrev MM := List (Bytes × Bytes)

namespace MM

def add (m : MM) (k v : Bytes) : MM := m ++ [(k, v)]

/-- exactly one value, at the position of the first occurrence; appended if there was none -/
def set : MM → Bytes → Bytes → MM
  | [], k, v => [(k, v)]
  | (k', v') :: rest, k, v =>
    if k' = k then (k, v) :: rest.filter (fun p => p.1 ≠ k)
    else (k', v') :: set rest k v

def delete (m : MM) (k : Bytes) : MM := m.filter (fun p => p.1 ≠ k)

def getAll (m : MM) (k : Bytes) : List Bytes := (m.filter (fun p => p.1 = k)).map (·.2)

def has (m : MM) (k : Bytes) : Bool := (getAll m k) ≠ []

/-- first value, or the empty string (Go's `Get` contract) -/
def get (m : MM) (k : Bytes) : Bytes :=
  match getAll m k with
  | [] => []
  | v :: _ => v

def write (m : MM) : Bytes := m.flatMap (fun p => p.1 ++ [58, 32] ++ p.2 ++ [13, 10])

end MM
end Gowarc.Spec
