/-
  C06 — Truncated files: complete records survive and the cut is visible.

  Model: `readLoop` / `readAllRecs` (Model/Reader.lean): WarcFileReader.Next in a loop over `unmarshal`.
  Tie: correspondence kind `cuts` — EVERY prefix (cut 0 … length) of generated well-formed multi-record files, plain and
  per-record gzip, warn and strict policy, several spill thresholds, is read by the implementation and by the model, and
  the three clauses of the property are judged on the implementation for every cut.

  Theorems (about the real model functions):
  * `C06_survive` — complete records survive whatever follows them: if every member of a file reads as a clean record
    for every continuation of the stream (the codec law: what C01 states for one record), then reading the members
    followed by ANY tail — in particular the cut remainder of the next record — returns exactly those records, clean,
    at their offsets, and then whatever reading the tail alone returns. No bound on the number or size of records.
  * `C06_short_tail`, `C06_cut_version_line` — the cut is visible at the two places where visibility rests on the
    reader's own framing: fewer than five bytes left (io.EOF at the offset where they start, which is smaller than the
    stream length) and a cut inside the version line (same).
  Not proved here: the codec law itself for all marshalled records (C01's composition) and visibility for cuts inside
  the header and block of the model's full `unmarshal`; both are covered by the exhaustive cut enumeration.
-/
import Gowarc.Model.Reader
import Gowarc.Lemmas.StreamLemmas
import Gowarc.Lemmas.KeepHdr
namespace Gowarc.Props.C06
open Gowarc

section
variable (H : Alg → Bytes → Bytes)

/-- the member `m`, placed at stream position `base`, reads as the clean record `r` whatever follows it -/
def ReadsAs (o : Opts) (Ω : Oracles) (base : Nat) (m : Bytes) (r : Rec) : Prop :=
  ∀ (rest : Bytes) (fault : Bool),
    (unmarshal H o Ω ⟨m ++ rest, fault⟩).err = none ∧
    (unmarshal H o Ω ⟨m ++ rest, fault⟩).record = some r ∧
    (unmarshal H o Ω ⟨m ++ rest, fault⟩).offset = 0 ∧
    (unmarshal H o Ω ⟨m ++ rest, fault⟩).fnd = [] ∧
    (unmarshal H o Ω ⟨m ++ rest, fault⟩).rest = rest

/-- every member of the list reads as its record at the position where it lies -/
def AllReadAs (o : Opts) (Ω : Oracles) : Nat → List (Bytes × Rec) → Prop
  | _, [] => True
  | base, (m, r) :: ms => ReadsAs H o Ω base m r ∧ AllReadAs o Ω (base + m.length) ms

def cleanItems : Nat → List (Bytes × Rec) → List NextRes
  | _, [] => []
  | base, (m, r) :: ms => ⟨base, some r, [], none⟩ :: cleanItems (base + m.length) ms

def totalLen (ms : List (Bytes × Rec)) : Nat := ((ms.map (·.1)).flatten).length

theorem readLoop_succ (o : Opts) (Ω : Oracles) (fuel base : Nat) (s : Stream)
    (h : (unmarshal H o Ω s).err = none) :
    readLoop H o Ω (fuel + 1) base s =
      ⟨base + (unmarshal H o Ω s).offset, (unmarshal H o Ω s).record, (unmarshal H o Ω s).fnd, none⟩ ::
        readLoop H o Ω fuel (base + (s.rest.length - (unmarshal H o Ω s).rest.length)) ⟨(unmarshal H o Ω s).rest, s.fault⟩ := by
  rw [readLoop]; simp only [h]

/-- **complete records survive**: members that read as clean records are returned, unaltered and without findings, at
    their offsets, whatever tail follows; reading then continues on the tail alone -/
theorem C06_survive (o : Opts) (Ω : Oracles) (ms : List (Bytes × Rec)) (base : Nat) (tail : Bytes) (fault : Bool) (fuel : Nat)
    (hall : AllReadAs H o Ω base ms) :
    readLoop H o Ω (fuel + ms.length) base ⟨(ms.map (·.1)).flatten ++ tail, fault⟩ =
      cleanItems base ms ++ readLoop H o Ω fuel (base + totalLen ms) ⟨tail, fault⟩ := by
  induction ms generalizing base with
  | nil => simp [cleanItems, totalLen]
  | cons mr rest ih =>
    obtain ⟨m, r⟩ := mr
    obtain ⟨hm, hrest⟩ := hall
    have hs : (List.map (·.1) ((m, r) :: rest)).flatten ++ tail = m ++ ((rest.map (·.1)).flatten ++ tail) := by
      simp [List.append_assoc]
    obtain ⟨e1, e2, e3, e4, e5⟩ := hm ((rest.map (·.1)).flatten ++ tail) fault
    rw [hs, List.length_cons, ← Nat.add_assoc, readLoop_succ H o Ω _ base _ e1, e2, e3, e4, e5]
    simp only [Nat.add_zero, cleanItems, List.cons_append, List.length_append]
    rw [show base + (m.length + ((rest.map (·.1)).flatten.length + tail.length) - ((rest.map (·.1)).flatten.length + tail.length)) = base + m.length by omega]
    rw [ih (base + m.length) hrest]
    simp only [totalLen, List.map_cons, List.flatten_cons, List.length_append]
    rw [Nat.add_assoc]

/-- in particular for a cut file: the complete records, then the outcome of reading the partial record alone -/
theorem C06_survive_cut (o : Opts) (Ω : Oracles) (ms : List (Bytes × Rec)) (next : Bytes) (k : Nat) (fuel : Nat)
    (hall : AllReadAs H o Ω 0 ms) :
    readLoop H o Ω (fuel + ms.length) 0 ⟨(ms.map (·.1)).flatten ++ next.take k, false⟩ =
      cleanItems 0 ms ++ readLoop H o Ω fuel (totalLen ms) ⟨next.take k, false⟩ := by
  have := C06_survive H o Ω ms 0 (next.take k) false fuel hall
  simpa using this

/-- **visible, short tail**: with one to four bytes left the reader reports io.EOF at the offset where they start —
    an end-of-file offset smaller than the stream length -/
theorem C06_short_tail (o : Opts) (Ω : Oracles) (fuel base : Nat) (tail : Bytes) (h1 : tail ≠ []) (h5 : tail.length < 5) :
    ∃ it, readLoop H o Ω (fuel + 1) base ⟨tail, false⟩ = [it] ∧ it.err = some .eof ∧ it.record = none ∧
      it.offset = base ∧ it.offset < base + tail.length := by
  have hu : unmarshal H o Ω ⟨tail, false⟩ = ⟨none, 0, [], some .eof, []⟩ := by
    unfold unmarshal
    have : skipJunk (tail.length + 1) tail 0 = .inl 0 := by
      rw [skipJunk]; simp [h5]
    simp only [this]
    simp [endTag]
  refine ⟨⟨base + 0, none, [], some .eof⟩, ?_, rfl, rfl, rfl, ?_⟩
  · rw [readLoop]; simp only [hu]
  · have : 0 < tail.length := by cases tail with | nil => exact absurd rfl h1 | cons a t => simp
    simp only [Nat.add_zero]; omega

/-- **visible, cut inside the version line**: a plain record cut before the end of its first line is reported as
    io.EOF at the offset where the partial record starts -/
theorem C06_cut_version_line (o : Opts) (Ω : Oracles) (fuel base : Nat) (after : Bytes) (hnl : LF ∉ after) :
    ∃ it, readLoop H o Ω (fuel + 1) base ⟨bs "WARC/" ++ after, false⟩ = [it] ∧ it.err = some .eof ∧ it.record = none ∧
      it.offset = base ∧ it.offset < base + (bs "WARC/" ++ after).length := by
  have hnf : (readBytesNL after).2.2 = false := by
    induction after with
    | nil => rfl
    | cons b t ih =>
      have hb : (b == LF) = false := by
        simp only [List.mem_cons, not_or] at hnl
        simp [Ne.symm hnl.1]
      rw [readBytesNL]; simp only [hb, Bool.false_eq_true, ↓reduceIte]
      exact ih (by intro hm; exact hnl (List.mem_cons_of_mem _ hm))
  have hu : unmarshal H o Ω ⟨bs "WARC/" ++ after, false⟩ = ⟨none, 0, [], some .eof, []⟩ := by
    unfold unmarshal
    have hlen : ¬ (bs "WARC/" ++ after).length < 5 := by simp [bs]
    have hmagic : isMagic (bs "WARC/" ++ after) = true := by
      simp [isMagic, bs, List.take]
    have : skipJunk ((bs "WARC/" ++ after).length + 1) (bs "WARC/" ++ after) 0 = .inr (0, bs "WARC/" ++ after) := by
      rw [skipJunk]; simp only [hlen, ↓reduceIte, hmagic]
    simp only [this]
    have hgz : ((bs "WARC/" ++ after).take 2 == [0x1f, 0x8b]) = false := by simp [bs, List.take]
    have hdrop : (bs "WARC/" ++ after).drop 5 = after := by simp [bs]
    simp only [hgz, Bool.false_eq_true, ↓reduceIte, hdrop]
    unfold unmarshalAfterMagic
    simp [hnf, endTag]
  refine ⟨⟨base + 0, none, [], some .eof⟩, ?_, rfl, rfl, rfl, ?_⟩
  · rw [readLoop]; simp only [hu]
  · simp [bs]

/-- **visible, anywhere behind the header section**: whatever the header fields and the remaining stream are, if the
    spec policy is warn or fail and Unmarshal gets as far as returning a record without error, then either the record
    trailer CR LF CR LF stood completely in the stream right behind the declared block — the record was not cut — or the
    returned validation contains the trailer finding. (Under fail the trailer site returns the error instead.) -/
theorem C06_trailer_or_finding (o : Opts) (Ω : Oracles) (vt : Bytes) (vi : Nat) (fs : Fields) (s' : Stream) (st st' : St)
    (r : Option Rec) (rest : Bytes) (hspec : o.spec ≠ .ignore)
    (h : unmarshalTail H o Ω vt vi fs s' st = (.ok (r, rest), st')) :
    ((if contentLengthOf fs < 0 then [] else s'.rest.drop (contentLengthOf fs).toNat).take 4 = crlfcrlf) ∨ Tag.specTrailer ∈ st'.fnd := by
  unfold unmarshalTail at h
  obtain ⟨_, s1, h1, g1⟩ := bind_ok _ _ _ _ _ h
  simp only [M.setHdr_def, Prod.mk.injEq, Except.ok.injEq, true_and] at h1
  obtain ⟨rt, s2, h2, g2⟩ := bind_ok _ _ _ _ _ g1
  have k2 : s2.hdr = s1.hdr := by have := (validateHeader_keep o Ω vi).h s1; rw [h2] at this; exact this
  obtain ⟨hd, s3, h3, g3⟩ := bind_ok _ _ _ _ _ g2
  simp only [M.hdr_def, Prod.mk.injEq, Except.ok.injEq] at h3
  obtain ⟨b, s4, h4, g4⟩ := bind_ok _ _ _ _ _ g3
  obtain ⟨_, s5, h5, g5⟩ := bind_ok _ _ _ _ _ g4
  obtain ⟨_, s5b, h5b, g6⟩ := bind_ok _ _ _ _ _ g5
  obtain ⟨_, s6, h6, g7⟩ := bind_ok _ _ _ _ _ g6
  obtain ⟨hd2, s7, h7, g8⟩ := bind_ok _ _ _ _ _ g7
  simp only [M.hdr_def, Prod.mk.injEq, Except.ok.injEq] at h7
  simp only [M.pure_def, Prod.mk.injEq, Except.ok.injEq] at g8
  have hfs : s1.hdr = fs := by rw [← h1]
  have hhd : hd = fs := by rw [← h3.1, k2, hfs]
  rw [hhd] at h6
  -- the trailer site
  by_cases htr : ((if contentLengthOf fs < 0 then [] else s'.rest.drop (contentLengthOf fs).toNat).take 4 = crlfcrlf)
  · exact Or.inl htr
  · right
    have hc : ((if contentLengthOf fs < 0 then [] else s'.rest.drop (contentLengthOf fs).toNat).take 4 != crlfcrlf) = true := by
      simp [htr]
    rw [hc] at h6
    simp only [condSite_true] at h6
    cases hp : o.spec with
    | ignore => exact absurd hp hspec
    | fail => rw [hp] at h6; simp at h6
    | warn =>
      rw [hp] at h6
      simp only [site_warn, Prod.mk.injEq, Except.ok.injEq, true_and] at h6
      rw [← g8.2, ← h7.2, ← h6]
      simp

end

end Gowarc.Props.C06
