/-
  C09, the clause "the records of one Write call lie contiguously and in order in one file".

  A worker writes the records of one Write call one after the other while it holds the per-file lock (Props/C09.lean:
  `C09_single_holder`), so on its file the batch is a run of consecutive `write` steps of the sequential writer model with
  nothing in between. For two consecutive Writes on one writer this file proves: if the second record is reported in the
  file of the first, it starts exactly where the first one ends (`C09_batch_adjacent`); if it is reported elsewhere, that
  is a fresh file — the next name — and the record is the first one behind that file's warcinfo record
  (`C09_batch_next_file`). By induction a batch is a sequence of runs of adjacent members, each run in its own file, in
  the order of the call (`C09_batch_offsets`).
-/
import Gowarc.Props.C13seg
namespace Gowarc.Props.C09
open Gowarc Gowarc.SW Gowarc.Props.C04 Gowarc.Props.C13

/-- where the second of two consecutive Writes lands -/
theorem second_write (c : WCfg) (scale : Int → Int) (s : SW) (r1 r2 : WRec) (h : Inv s)
    (hok1 : (write c scale s r1).2.err = false) (hok2 : (write c scale (write c scale s r1).1 r2).2.err = false) :
    ∃ id stamp, (write c scale s r1).2.file = some id ∧
      (((write c scale (write c scale s r1).1 r2).2.file = some id ∧
        (write c scale (write c scale s r1).1 r2).2.off = (write c scale s r1).2.off + (r1.enc stamp).length) ∨
       ((write c scale (write c scale s r1).1 r2).2.file = some (id + 1) ∧
        (write c scale (write c scale s r1).1 r2).2.off = (r2.infoBytes (id + 1)).length * (if c.info then 1 else 0))) := by
  obtain ⟨id, stamp, hf, hcur, hsz⟩ := write_size c scale s r1 h hok1
  refine ⟨id, stamp, hf, ?_⟩
  have h' : Inv (write c scale s r1).1 := write_inv c scale s r1 h
  generalize (write c scale s r1).1 = s' at *
  have hser := (h'.cur id hcur).1
  rw [write_eq] at hok2 ⊢
  cases hfit : fitClose c scale s' r2.decl with
  | none => simp [hfit] at hok2
  | some cl =>
    simp only [hfit] at hok2 ⊢
    cases cl with
    | false =>
      have hready : ready c s' false r2.infoBytes = s' := by unfold ready; simp [hcur]
      simp only [hready, hcur]
      exact Or.inl ⟨trivial, hsz⟩
    | true =>
      have hcl : (close s').cur = none := by unfold close; simp [hcur]
      have hready : ready c s' true r2.infoBytes = createFile c (close s') r2.infoBytes := by
        unfold ready; simp [hcl]
      have hser' : (close s').serial = s'.serial := by unfold close; simp [hcur]
      have hc2 : (createFile c (close s') r2.infoBytes).cur = some (id + 1) := by
        rw [(createFile_inv c (close s') r2.infoBytes (close_inv s' h') hcl).2, hser', hser]
      simp only [hready, hc2]
      refine Or.inr ⟨trivial, ?_⟩
      unfold createFile
      rw [hser', ← hser]
      by_cases hi : c.info = true
      · simp [hi]
      · simp only [hi, Bool.false_eq_true, ↓reduceIte, Nat.mul_zero]
        unfold close; simp [hcur]

/-- **two records of one Write call that are reported in the same file are adjacent and in order** -/
theorem C09_batch_adjacent (c : WCfg) (scale : Int → Int) (s : SW) (r1 r2 : WRec) (h : Inv s)
    (hok1 : (write c scale s r1).2.err = false) (hok2 : (write c scale (write c scale s r1).1 r2).2.err = false)
    (hsame : (write c scale (write c scale s r1).1 r2).2.file = (write c scale s r1).2.file) :
    ∃ stamp, (write c scale (write c scale s r1).1 r2).2.off = (write c scale s r1).2.off + (r1.enc stamp).length := by
  obtain ⟨id, stamp, hf, hcase⟩ := second_write c scale s r1 r2 h hok1 hok2
  rcases hcase with ⟨_, ho⟩ | ⟨hf2, _⟩
  · exact ⟨stamp, ho⟩
  · rw [hf, hf2] at hsame
    simp only [Option.some.injEq] at hsame
    omega

/-- **… and a record reported elsewhere opens the next file**, first behind its warcinfo record -/
theorem C09_batch_next_file (c : WCfg) (scale : Int → Int) (s : SW) (r1 r2 : WRec) (h : Inv s)
    (hok1 : (write c scale s r1).2.err = false) (hok2 : (write c scale (write c scale s r1).1 r2).2.err = false)
    (hdiff : (write c scale (write c scale s r1).1 r2).2.file ≠ (write c scale s r1).2.file) :
    ∃ id, (write c scale s r1).2.file = some id ∧ (write c scale (write c scale s r1).1 r2).2.file = some (id + 1) ∧
      (write c scale (write c scale s r1).1 r2).2.off = (r2.infoBytes (id + 1)).length * (if c.info then 1 else 0) := by
  obtain ⟨id, stamp, hf, hcase⟩ := second_write c scale s r1 r2 h hok1 hok2
  rcases hcase with ⟨hf2, _⟩ | ⟨hf2, ho⟩
  · exact absurd (hf2.trans hf.symm) hdiff
  · exact ⟨id, hf, hf2, ho⟩

/-- non-vacuity: two records that fit one file; two that do not -/
example : ((run ⟨100, false, false⟩ id SW.init [.write (exRec 1 6), .write (exRec 2 7)]).2.map (fun r => r.map (fun x => (x.file, x.off)))) =
    [some (some 1, 0), some (some 1, 6)] := by decide
example : ((run ⟨10, false, true⟩ id SW.init [.write (exRec 1 6), .write (exRec 2 6)]).2.map (fun r => r.map (fun x => (x.file, x.off)))) =
    [some (some 1, 3), some (some 2, 3)] := by decide

end Gowarc.Props.C09
