/-
  C17 — Header validation implements the WARC field table.

  * `C17_table`: the table extracted from headerfielddef.go on this run (Gen.fieldDefs, Gen.validators, Gen.requiredFields)
    IS the table of the WARC 1.0/1.1 standards transcribed by hand in Spec/FieldTable.lean — cell by cell (`decide`).
  * `C17_warn`, `C17_strict`: the model of validateHeader reports exactly the defects that table defines.
  Tie: translator (table), correspondence kind `valhdr` over every field × record type × version cell with valid and
  invalid values, all multiplicities 0–3, random defect mixes; independent Go oracle with its own copy of the standard's table.
-/
import Gowarc.Lemmas.MonadLemmas
import Gowarc.Spec.FieldTable
namespace Gowarc.Props.C17
open Gowarc

/-- how the value check of a Go validator reads as a value type of the standard -/
def typeOfCheck : String → Spec.VType
  | "uint" => .nat | "ulong" => .nat | "time" => .time | "ip" => .ip | "warcid" => .id | "uri" => .uri | _ => .string

def toSpecRow (d : FieldDef) : Spec.Row := ⟨d.name, typeOfCheck (validatorOf d).2, d.repeatable, d.recMask, d.specMask⟩

/-- **regenerated obligation**: every cell of the Go table equals the standard's table -/
theorem C17_table : Gen.fieldDefs.map toSpecRow = Spec.warcFieldTable := by decide

theorem C17_mandatory : Gen.requiredFields = Spec.mandatory := by decide

/-- every validator of a named field goes through checkLegal, and performs one of the known value checks -/
theorem C17_validators : Gen.fieldDefs.all (fun d => (d.name == "" || (validatorOf d).1) &&
    ["none", "uri", "ip", "time", "warcid", "uint", "ulong"].contains (validatorOf d).2) = true := by decide

/-- the record type names and numbers of the standard -/
theorem C17_record_types : Gen.stringToRecordType = [("warcinfo", 1), ("response", 2), ("resource", 4), ("request", 8),
    ("metadata", 16), ("revisit", 32), ("conversion", 64), ("continuation", 128)] ∧
    Gen.recordTypeString = Gen.stringToRecordType.map (fun p => (p.2, p.1)) := by decide

/-! ### what the standard's table demands of a header set -/

def bracketed (v : Bytes) : Bool := (trim (fun b => b == 60 || b == 62) v).length + 2 == v.length

/-- typed values: non-negative decimal integers, timestamps, IP addresses, angle-bracketed URIs, URIs -/
def wellTyped (Ω : Oracles) : Spec.VType → Bytes → Bool
  | .string, _ => true
  | .nat, v => isUint63 v
  | .time, v => Ω.time v
  | .ip, v => Ω.ip v
  | .uri, v => Ω.uri v
  | .id, v => bracketed v && Ω.uri (trim (fun b => b == 60 || b == 62) v)

/-- one occurrence of a field is defective when the field is defined in the record's version and is either not permitted
    for the record's type or ill-typed (for an unknown type every field is permitted, values are still typed) -/
def occurrenceBad (Ω : Oracles) (ver rt : Nat) (r : Spec.Row) (v : Bytes) : Bool :=
  r.name != "" && ver &&& r.vers != 0 && (if rt != 0 && rt &&& r.recs == 0 then true else !wellTyped Ω r.typ v)

def fieldTags (Ω : Oracles) (ver rt : Nat) (h : Fields) (nv : NV) : List Tag :=
  (if fieldBad Ω ver rt (defOf nv.1) nv.2 then [Tag.hdrField] else []) ++
  (if !(defOf nv.1).repeatable && decide ((h.getAll nv.1).length > 1) then [Tag.hdrDuplicate] else [])

/-- all spec-axis defects of a header set, one tag per defect, in the order they are examined -/
def specDefects (Ω : Oracles) (ver : Nat) (h : Fields) : List Tag :=
  h.flatMap (fieldTags Ω ver (rtOf h) h) ++
  (Gen.requiredFields.filter (fun f => !h.has (bs f))).map (fun _ => Tag.hdrMissing) ++
  (if ctRule h (rtOf h) then [Tag.hdrMissingCT] else []) ++
  (if concRule h (rtOf h) then [Tag.hdrConcurrent] else [])

/-- the model's per-occurrence test IS the standard's, read through `toSpecRow` -/
theorem fieldBad_spec (Ω : Oracles) (ver rt : Nat) (d : FieldDef) (v : Bytes)
    (hd : ((d.name == "" || (validatorOf d).1) && ["none", "uri", "ip", "time", "warcid", "uint", "ulong"].contains (validatorOf d).2) = true)
    (hname : d.name = "" → (validatorOf d).1 = false) :
    fieldBad Ω ver rt d v = occurrenceBad Ω ver rt (toSpecRow d) v := by
  unfold fieldBad occurrenceBad toSpecRow
  simp only [Bool.and_eq_true, Bool.or_eq_true, beq_iff_eq, List.contains_eq_mem, List.mem_cons, List.mem_nil_iff,
    or_false, decide_eq_true_eq] at hd
  obtain ⟨hl, hc⟩ := hd
  by_cases hn : d.name = ""
  · simp [hn, hname hn]
  · have hlegal : (validatorOf d).1 = true := by rcases hl with h | h; exact absurd h hn; exact h
    have hv : valueOk Ω (validatorOf d).2 v = wellTyped Ω (typeOfCheck (validatorOf d).2) v := by
      rcases hc with h | h | h | h | h | h | h <;> rw [h] <;> simp [valueOk, typeOfCheck, wellTyped, bracketed]
    simp only [hlegal, Bool.not_true, Bool.false_eq_true, ↓reduceIte, bne_iff_ne, ne_eq, hn, not_false_eq_true,
      decide_true, Bool.true_and, hv]
    by_cases h1 : ver &&& d.specMask = 0
    · simp [h1]
    · by_cases h2 : rt = 0
      · simp [h1, h2, hn]
      · by_cases h3 : rt &&& d.recMask = 0 <;> simp [h1, h2, h3, hn]

/-! ### the loops of validateHeader -/

theorem loop_warn (o : Opts) (Ω : Oracles) (ver rt : Nat) (hw : o.spec = .warn) (l : Fields) (h : Fields) (f : List Tag) :
    validateFieldsLoop o Ω ver rt l ⟨h, f⟩ = (.ok (), ⟨h, f ++ l.flatMap (fieldTags Ω ver rt h)⟩) := by
  induction l generalizing f with
  | nil => simp [validateFieldsLoop]
  | cons nv rest ih =>
    obtain ⟨n, v⟩ := nv
    unfold validateFieldsLoop
    simp only [M.bind_def, hw, condSite_warn, M.hdr_def, ih, List.flatMap_cons, fieldTags, List.append_assoc]

theorem loop_fail (o : Opts) (Ω : Oracles) (ver rt : Nat) (hf : o.spec = .fail) (l : Fields) (st : St) :
    validateFieldsLoop o Ω ver rt l st =
      (match l.flatMap (fieldTags Ω ver rt st.hdr) with
       | [] => (.ok (), st)
       | t :: _ => (.error t, st)) := by
  induction l with
  | nil => simp [validateFieldsLoop]
  | cons nv rest ih =>
    obtain ⟨n, v⟩ := nv
    unfold validateFieldsLoop
    simp only [M.bind_def, hf, condSite_fail, M.hdr_def, List.flatMap_cons, fieldTags]
    by_cases hb : fieldBad Ω ver rt (defOf n) v = true
    · simp [hb]
    · by_cases hd : (!(defOf n).repeatable && decide ((st.hdr.getAll n).length > 1)) = true
      · simp only [hb, Bool.false_eq_true, ↓reduceIte, hd, List.nil_append, List.cons_append]
      · simp only [hb, Bool.false_eq_true, ↓reduceIte, hd, List.nil_append, ih]

theorem required_warn (o : Opts) (hw : o.spec = .warn) (l : List String) (h : Fields) (f : List Tag) :
    requiredLoop o l ⟨h, f⟩ = (.ok (), ⟨h, f ++ (l.filter (fun x => !h.has (bs x))).map (fun _ => Tag.hdrMissing)⟩) := by
  induction l generalizing f with
  | nil => simp [requiredLoop]
  | cons x rest ih =>
    unfold requiredLoop
    simp only [M.bind_def, M.hdr_def, hw, condSite_warn, ih, List.filter_cons]
    by_cases hx : h.has (bs x) = true <;> simp [hx, List.append_assoc]

theorem required_fail (o : Opts) (hf : o.spec = .fail) (l : List String) (st : St) :
    requiredLoop o l st =
      (match (l.filter (fun x => !st.hdr.has (bs x))).map (fun _ => Tag.hdrMissing) with
       | [] => (.ok (), st)
       | t :: _ => (.error t, st)) := by
  induction l with
  | nil => simp [requiredLoop]
  | cons x rest ih =>
    unfold requiredLoop
    simp only [M.bind_def, M.hdr_def, hf, condSite_fail, List.filter_cons]
    by_cases hx : st.hdr.has (bs x) = true <;> simp [hx, ih]

/-- the spec-axis part under warn: header untouched, findings = the defects -/
theorem validateSpec_warn (o : Opts) (Ω : Oracles) (ver : Nat) (hw : o.spec = .warn) (h : Fields) (f : List Tag) :
    validateSpec o Ω ver (rtOf h) ⟨h, f⟩ = (.ok (), ⟨h, f ++ specDefects Ω ver h⟩) := by
  unfold validateSpec specDefects
  simp only [M.bind_def, M.hdr_def, loop_warn o Ω ver _ hw, required_warn o hw, hw, condSite_warn, List.append_assoc]

/-- the spec-axis part under fail: accepted exactly when there is no defect; the first defect is the error -/
theorem validateSpec_fail (o : Opts) (Ω : Oracles) (ver : Nat) (hf : o.spec = .fail) (st : St) :
    validateSpec o Ω ver (rtOf st.hdr) st =
      (match specDefects Ω ver st.hdr with
       | [] => (.ok (), st)
       | t :: _ => (.error t, st)) := by
  unfold validateSpec specDefects
  simp only [M.bind_def, M.hdr_def, loop_fail o Ω ver _ hf, required_fail o hf, hf, condSite_fail]
  cases h1 : st.hdr.flatMap (fieldTags Ω ver (rtOf st.hdr) st.hdr) with
  | cons t r => simp
  | nil =>
    simp only [List.nil_append]
    cases h2 : (Gen.requiredFields.filter (fun f => !st.hdr.has (bs f))).map (fun _ => Tag.hdrMissing) with
    | cons t r => simp
    | nil =>
      simp only [List.nil_append]
      by_cases h3 : ctRule st.hdr (rtOf st.hdr) = true
      · simp [h3]
      · by_cases h4 : concRule st.hdr (rtOf st.hdr) = true <;> simp [h3, h4]

/-- **C17 under warn**: the record is always returned (no error from the spec axis), the header is left untouched, and
    the findings are exactly the defects of the header set according to the table: one finding per defect — so there are
    findings iff the set is defective. (Unknown-type axis at ignore or warn.) -/
theorem C17_warn (o : Opts) (Ω : Oracles) (ver : Nat) (h : Fields) (hw : o.spec = .warn) (hu : o.unk ≠ .fail) :
    validateHeader o Ω ver ⟨h, []⟩ =
      (.ok (rtOf h), ⟨h, (if (typeFieldOf h).isEmpty then [Tag.hdrNoType] else []) ++
                         (if rtOf h == 0 && o.unk == .warn then [Tag.hdrUnknownType] else []) ++ specDefects Ω ver h⟩) := by
  unfold validateHeader resolveRecordType
  have hne : (o.spec != Pol.ignore) = true := by rw [hw]; decide
  simp only [M.bind_def, M.hdr_def, hw, condSite_warn, hne, ↓reduceIte, List.nil_append]
  cases hunk : o.unk with
  | fail => exact absurd hunk hu
  | ignore => simp [condSite_ignore, validateSpec_warn o Ω ver hw, List.append_assoc]
  | warn => simp [condSite_warn, validateSpec_warn o Ω ver hw, List.append_assoc]

theorem validateSpec_fail' (o : Opts) (Ω : Oracles) (ver : Nat) (hf : o.spec = .fail) (h : Fields) (f : List Tag) :
    validateSpec o Ω ver (rtOf h) ⟨h, f⟩ =
      (match specDefects Ω ver h with
       | [] => (.ok (), ⟨h, f⟩)
       | t :: _ => (.error t, ⟨h, f⟩)) := validateSpec_fail o Ω ver hf ⟨h, f⟩

/-- the whole of validateHeader under the strict spec policy, case by case -/
theorem validateHeader_fail (o : Opts) (Ω : Oracles) (ver : Nat) (h : Fields) (hf : o.spec = .fail) :
    validateHeader o Ω ver ⟨h, []⟩ =
      (if (typeFieldOf h).isEmpty then (.error .hdrNoType, ⟨h, []⟩)
       else if rtOf h == 0 && o.unk == .fail then (.error .hdrUnknownType, ⟨h, []⟩)
       else match specDefects Ω ver h with
         | [] => (.ok (rtOf h), ⟨h, if rtOf h == 0 && o.unk == .warn then [Tag.hdrUnknownType] else []⟩)
         | t :: _ => (.error t, ⟨h, if rtOf h == 0 && o.unk == .warn then [Tag.hdrUnknownType] else []⟩)) := by
  unfold validateHeader resolveRecordType
  have hne' : (Pol.fail != Pol.ignore) = true := by decide
  simp only [M.bind_def, M.hdr_def, M.pure_def, hf, condSite_fail, hne', ↓reduceIte]
  by_cases ht : (typeFieldOf h).isEmpty = true
  · simp [ht]
  · simp only [ht, Bool.false_eq_true, ↓reduceIte]
    cases hunk : o.unk with
    | ignore =>
      simp only [condSite_ignore, validateSpec_fail' o Ω ver hf, M.pure_def, M.bind_def]
      cases specDefects Ω ver h <;> simp
    | warn =>
      simp only [condSite_warn, validateSpec_fail' o Ω ver hf, M.pure_def, M.bind_def, List.nil_append]
      by_cases hr : (rtOf h == 0) = true <;> cases specDefects Ω ver h <;> simp [hr]
    | fail =>
      by_cases hr : (rtOf h == 0) = true
      · simp [condSite_fail, hr]
      · simp only [condSite_fail, hr, Bool.false_eq_true, ↓reduceIte, validateSpec_fail' o Ω ver hf, M.pure_def, M.bind_def]
        cases specDefects Ω ver h <;> simp

/-- **C17 under strict spec policy**: a header set is accepted (a record type is returned, no error) exactly when
    WARC-Type is present, the unknown-type axis does not object, and the set has no defect according to the table;
    the header is unchanged. -/
theorem C17_strict (o : Opts) (Ω : Oracles) (ver : Nat) (h : Fields) (hf : o.spec = .fail) :
    (∃ rt st, validateHeader o Ω ver ⟨h, []⟩ = (.ok rt, st)) ↔
      ((typeFieldOf h).isEmpty = false ∧ ¬(rtOf h = 0 ∧ o.unk = .fail) ∧ specDefects Ω ver h = []) := by
  rw [validateHeader_fail o Ω ver h hf]
  by_cases ht : (typeFieldOf h).isEmpty = true
  · simp [ht]
  · by_cases hr : (rtOf h == 0 && o.unk == .fail) = true
    · have : rtOf h = 0 ∧ o.unk = .fail := by simpa using hr
      simp [ht, hr, this]
    · have hr2 : ¬(rtOf h = 0 ∧ o.unk = .fail) := by simpa using hr
      simp only [ht, Bool.false_eq_true, ↓reduceIte, hr, true_and, hr2, not_false_eq_true]
      cases specDefects Ω ver h <;> simp

/-- accepted sets keep their header and the returned type is the type named by WARC-Type -/
theorem C17_strict_result (o : Opts) (Ω : Oracles) (ver : Nat) (h : Fields) (hf : o.spec = .fail) (rt : Nat) (st : St)
    (hok : validateHeader o Ω ver ⟨h, []⟩ = (.ok rt, st)) : rt = rtOf h ∧ st.hdr = h := by
  rw [validateHeader_fail o Ω ver h hf] at hok
  by_cases ht : (typeFieldOf h).isEmpty = true
  · simp [ht] at hok
  · by_cases hr : (rtOf h == 0 && o.unk == .fail) = true
    · simp [ht, hr] at hok
    · simp only [ht, Bool.false_eq_true, ↓reduceIte, hr] at hok
      cases hs : specDefects Ω ver h with
      | nil => simp [hs] at hok; exact ⟨hok.1.symm, by rw [← hok.2]⟩
      | cons t r => simp [hs] at hok

theorem defOf_mem (n : Bytes) : defOf n ∈ Gen.fieldDefs := by
  unfold defOf
  cases h : lookupDef (lowerKey n) with
  | some d => exact List.mem_of_find?_eq_some h
  | none =>
    simp only
    cases hfd : Gen.fieldDefs with
    | nil => exact absurd hfd (by decide)
    | cons a r => simp

theorem C17_rows_ok : ∀ d ∈ Gen.fieldDefs, ((d.name == "" || (validatorOf d).1) &&
    ["none", "uri", "ip", "time", "warcid", "uint", "ulong"].contains (validatorOf d).2) = true ∧
    (d.name = "" → (validatorOf d).1 = false) := by decide

/-- every occurrence of a field is judged by a row OF THE STANDARD'S TABLE, with the standard's value types -/
theorem C17_occurrence (Ω : Oracles) (ver rt : Nat) (n v : Bytes) :
    fieldBad Ω ver rt (defOf n) v = occurrenceBad Ω ver rt (toSpecRow (defOf n)) v ∧
    toSpecRow (defOf n) ∈ Spec.warcFieldTable := by
  have hm := defOf_mem n
  have hr := C17_rows_ok (defOf n) hm
  refine ⟨fieldBad_spec Ω ver rt (defOf n) v hr.1 hr.2, ?_⟩
  rw [← C17_table]
  exact List.mem_map_of_mem hm

/-- non-vacuity: a concrete defective set (Target-URI on a warcinfo, duplicate WARC-Date, missing Content-Length) has
    exactly three defects, a clean one has none -/
example : specDefects ⟨fun _ => true, fun _ => true, fun _ => true, fun _ _ => true, fun _ => none⟩ 2
    [(bs "WARC-Type", bs "warcinfo"), (bs "WARC-Record-ID", bs "<urn:uuid:1>"), (bs "WARC-Date", bs "x"), (bs "WARC-Date", bs "y"),
     (bs "WARC-Target-URI", bs "http://x/")] = [.hdrDuplicate, .hdrDuplicate, .hdrField, .hdrMissing] := by decide
example : specDefects ⟨fun _ => true, fun _ => true, fun _ => true, fun _ _ => true, fun _ => none⟩ 2
    [(bs "WARC-Type", bs "warcinfo"), (bs "WARC-Record-ID", bs "<urn:uuid:1>"), (bs "WARC-Date", bs "x"), (bs "Content-Length", bs "0")] = [] := by decide

end Gowarc.Props.C17
