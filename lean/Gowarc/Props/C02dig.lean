/-
  C02, "under every error-policy setting": the digests the builder adds itself.

  When the caller declared no WARC-Block-Digest (no WARC-Payload-Digest) and the add-missing-digest option is on (the
  default), every record Build returns without error — under EVERY policy setting, spec checking off included, and every
  repair option — carries

    WARC-Block-Digest   = name ":" encode(H alg (exactly the block bytes that get serialized))
    WARC-Payload-Digest = name ":" encode(H alg (exactly the payload bytes))      (block kinds with a payload; not for
                                                                                   revisit records / segmented records)

  in the configured default algorithm and encoding. `C02_build_truthful` / `C02_validate_payload` need spec checking on;
  this theorem follows the two fields from the header the caller handed in to the header of the returned record.
-/
import Gowarc.Props.C02len
import Gowarc.Props.C02
import Gowarc.Lemmas.Accept
namespace Gowarc.Props.C02
open Gowarc Gowarc.Props.C20
set_option linter.unusedSimpArgs false

/-! ### steps that leave every field other than Content-Length alone -/

structure OnlyCL {α} (m : M α) : Prop where
  h : ∀ s k, canon k ≠ canon (bs "Content-Length") →
    (m s).2.hdr.has k = s.hdr.has k ∧ (m s).2.hdr.get k = s.hdr.get k

namespace OnlyCL
theorem of_keep {α} {m : M α} (hk : KeepHdr m) : OnlyCL m := ⟨fun s k _ => by rw [hk.h s]; exact ⟨rfl, rfl⟩⟩
theorem bind {α β} {m : M α} {f : α → M β} (hm : OnlyCL m) (hf : ∀ a, OnlyCL (f a)) : OnlyCL (m >>= f) := by
  constructor
  intro s k hk
  simp only [M.bind_def]
  have h1 := hm.h s k hk
  cases hr : m s with
  | mk r s' =>
    rw [hr] at h1
    cases r with
    | ok a =>
      have h2 := (hf a).h s' k hk
      exact ⟨h2.1.trans h1.1, h2.2.trans h1.2⟩
    | error e => exact h1
theorem ite {α} {c : Prop} [Decidable c] {m1 m2 : M α} (h1 : OnlyCL m1) (h2 : OnlyCL m2) : OnlyCL (if c then m1 else m2) := by
  split <;> assumption
theorem setCL (c : Bool) (f : Fields → Int) : OnlyCL (do let h ← M.hdr; M.setHdr (if c then setInt h (bs "Content-Length") (f h) else h)) := by
  constructor
  intro s k hk
  simp only [M.bind_def, M.hdr_def, M.setHdr_def]
  split
  · unfold setInt; exact ⟨has_set_other _ _ _ _ hk, get_set_other _ _ _ _ hk⟩
  · exact ⟨rfl, rfl⟩
end OnlyCL

theorem newHttpBlock_onlyCL (o : Opts) (Ω : Oracles) (c : Bytes) (bd pd : Digest) : OnlyCL (newHttpBlock o Ω c bd pd) := by
  unfold newHttpBlock
  apply OnlyCL.bind (OnlyCL.of_keep (KeepHdr.condFail _ _)); intro _
  apply OnlyCL.bind (OnlyCL.of_keep (KeepHdr.condSite _ _ _)); intro _
  constructor
  intro s k hk
  simp only [M.bind_def, M.hdr_def, M.setHdr_def]
  have hset : (if (!(headerBytes c).2.2 && o.fixSyntaxErrors && s.hdr.has (bs "Content-Length")) = true
      then setInt s.hdr (bs "Content-Length") (wrap64 (contentLengthOf s.hdr + 2)) else s.hdr).has k = s.hdr.has k ∧
      (if (!(headerBytes c).2.2 && o.fixSyntaxErrors && s.hdr.has (bs "Content-Length")) = true
      then setInt s.hdr (bs "Content-Length") (wrap64 (contentLengthOf s.hdr + 2)) else s.hdr).get k = s.hdr.get k := by
    split
    · unfold setInt; exact ⟨has_set_other _ _ _ _ hk, get_set_other _ _ _ _ hk⟩
    · exact ⟨rfl, rfl⟩
  generalize (if (!(headerBytes c).2.2 && o.fixSyntaxErrors && s.hdr.has (bs "Content-Length")) = true
      then setInt s.hdr (bs "Content-Length") (wrap64 (contentLengthOf s.hdr + 2)) else s.hdr) = h2 at hset
  have := (KeepHdr.condSite (!Ω.http (hasPrefix (bs "HTTP") (if (!(headerBytes c).2.2 && o.fixSyntaxErrors) = true then (headerBytes c).1 ++ crlf else (headerBytes c).1))
      (if (!(headerBytes c).2.2 && !o.fixSyntaxErrors) = true then (if (!(headerBytes c).2.2 && o.fixSyntaxErrors) = true then (headerBytes c).1 ++ crlf else (headerBytes c).1) ++ crlf
       else (if (!(headerBytes c).2.2 && o.fixSyntaxErrors) = true then (headerBytes c).1 ++ crlf else (headerBytes c).1))) o.blk .httpParse).h ⟨h2, s.fnd⟩
  cases hc : condSite (!Ω.http (hasPrefix (bs "HTTP") (if (!(headerBytes c).2.2 && o.fixSyntaxErrors) = true then (headerBytes c).1 ++ crlf else (headerBytes c).1))
      (if (!(headerBytes c).2.2 && !o.fixSyntaxErrors) = true then (if (!(headerBytes c).2.2 && o.fixSyntaxErrors) = true then (headerBytes c).1 ++ crlf else (headerBytes c).1) ++ crlf
       else (if (!(headerBytes c).2.2 && o.fixSyntaxErrors) = true then (headerBytes c).1 ++ crlf else (headerBytes c).1))) o.blk .httpParse ⟨h2, s.fnd⟩ with
  | mk r s' =>
    rw [hc] at this
    cases r with
    | ok u => simp only [M.pure_def]; rw [this]; exact hset
    | error e => simp only; rw [this]; exact hset

theorem parseBlock_onlyCL (o : Opts) (Ω : Oracles) (rt : Nat) (c : Bytes) (fault : Bool) : OnlyCL (parseBlock o Ω rt c fault) := by
  unfold parseBlock
  apply OnlyCL.bind (OnlyCL.of_keep (digestFromField_keep o _)); intro bd
  apply OnlyCL.bind (OnlyCL.of_keep (digestFromField_keep o _)); intro pd
  apply OnlyCL.bind (OnlyCL.of_keep KeepHdr.hdr); intro h
  apply OnlyCL.ite
  · exact newHttpBlock_onlyCL o Ω c bd pd
  · apply OnlyCL.ite
    · apply OnlyCL.ite
      · exact OnlyCL.of_keep (KeepHdr.fail _)
      · exact OnlyCL.of_keep (KeepHdr.pure _)
    · apply OnlyCL.ite
      · exact OnlyCL.of_keep (newWarcFieldsBlock_keep o _ _ _)
      · exact OnlyCL.of_keep (KeepHdr.pure _)

/-! ### the digest objects of the block are the ones derived from the header parseBlock started from -/

theorem newHttpBlock_digests (o : Opts) (Ω : Oracles) (c : Bytes) (bd pd : Digest) (s s' : St) (b : Block)
    (h : newHttpBlock o Ω c bd pd s = (.ok b, s')) : b.blockDigest = bd ∧ b.payloadDigest = some pd := by
  unfold newHttpBlock at h
  obtain ⟨_, t1, _, h⟩ := bind_ok _ _ _ _ _ h
  obtain ⟨_, t2, _, h⟩ := bind_ok _ _ _ _ _ h
  obtain ⟨_, t3, _, h⟩ := bind_ok _ _ _ _ _ h
  obtain ⟨_, t4, _, h⟩ := bind_ok _ _ _ _ _ h
  obtain ⟨_, t5, _, h⟩ := bind_ok _ _ _ _ _ h
  simp only [M.pure_def, Prod.mk.injEq, Except.ok.injEq] at h
  rw [← h.1]
  exact ⟨rfl, rfl⟩

theorem wfDetectFix_digests (c : Bytes) (b : Block) :
    (wfDetectFix c b).blockDigest = b.blockDigest ∧ (wfDetectFix c b).payloadDigest = b.payloadDigest := by
  unfold wfDetectFix
  split
  · split <;> exact ⟨rfl, rfl⟩
  · exact ⟨rfl, rfl⟩

theorem newWarcFieldsBlock_digests (o : Opts) (c : Bytes) (fault : Bool) (bd : Digest) (s s' : St) (b : Block)
    (h : newWarcFieldsBlock o c fault bd s = (.ok b, s')) : b.blockDigest = bd ∧ b.payloadDigest = none := by
  unfold newWarcFieldsBlock at h
  obtain ⟨_, t1, _, h⟩ := bind_ok _ _ _ _ _ h
  obtain ⟨b0, t2, h2, h⟩ := bind_ok _ _ _ _ _ h
  obtain ⟨fs, f, st, _, hb0, _, _⟩ := wfFinish_ok _ _ _ _ _ _ _ _ h2
  simp only [M.pure_def, Prod.mk.injEq, Except.ok.injEq] at h
  rw [← h.1]
  have h0 : b0.blockDigest = bd ∧ b0.payloadDigest = none := by rw [hb0]; exact ⟨rfl, rfl⟩
  split
  · rw [(wfDetectFix_digests c b0).1, (wfDetectFix_digests c b0).2]; exact h0
  · exact h0

/-- the block's digest objects come from the two digest fields of the header (or the configured default) -/
theorem parseBlock_digests (o : Opts) (Ω : Oracles) (rt : Nat) (c : Bytes) (fault : Bool) (s s' : St) (b : Block)
    (h : parseBlock o Ω rt c fault s = (.ok b, s')) :
    digestOfField o s.hdr (bs "WARC-Block-Digest") = some b.blockDigest ∧
    ∀ pd, b.payloadDigest = some pd → digestOfField o s.hdr (bs "WARC-Payload-Digest") = some pd := by
  unfold parseBlock at h
  obtain ⟨bd0, s1, h1, hx⟩ := bind_ok _ _ _ _ _ h
  obtain ⟨pd0, s2, h2, hy⟩ := bind_ok _ _ _ _ _ hx
  obtain ⟨hd, s3, h3, hz⟩ := bind_ok _ _ _ _ _ hy
  clear h hx hy
  have h := hz
  clear hz
  dsimp only at h
  obtain ⟨e1, hb0⟩ := digestFromField_ok _ _ _ _ _ h1
  subst e1
  obtain ⟨e2, hp0⟩ := digestFromField_ok _ _ _ _ _ h2
  subst e2
  rw [hb0, hp0]
  simp only [M.hdr_def, Prod.mk.injEq, Except.ok.injEq] at h3
  by_cases c1 : (!o.skipParseBlock && rt &&& Gen.httpBlockMask != 0 && hasPrefix (bs Gen.c_ApplicationHttp) (lowerKey (hd.get (bs "Content-Type")))) = true
  · simp only [c1, ↓reduceIte] at h
    obtain ⟨hbd, hpd⟩ := newHttpBlock_digests _ _ _ _ _ _ _ _ h
    exact ⟨by rw [hbd], fun pd hh => by rw [hpd] at hh; exact hh⟩
  · simp only [c1, Bool.false_eq_true, ↓reduceIte] at h
    by_cases c2 : (!o.skipParseBlock && rt == RT_Revisit) = true
    · simp only [c2, ↓reduceIte] at h
      by_cases c3 : fault = true
      · simp [c3, M.fail] at h
      · simp only [c3, Bool.false_eq_true, ↓reduceIte, M.pure_def, Prod.mk.injEq, Except.ok.injEq] at h
        rw [← h.1]
        exact ⟨rfl, fun pd hh => by cases hh⟩
    · simp only [c2, Bool.false_eq_true, ↓reduceIte] at h
      by_cases c3 : (!o.skipParseBlock && hasPrefix (bs Gen.c_ApplicationWarcFields) (lowerKey (hd.get (bs "Content-Type")))) = true
      · simp only [c3, ↓reduceIte] at h
        obtain ⟨hbd, hpd⟩ := newWarcFieldsBlock_digests _ _ _ _ _ _ _ h
        exact ⟨by rw [hbd], fun pd hh => by rw [hpd] at hh; cases hh⟩
      · simp only [c3, Bool.false_eq_true, ↓reduceIte, M.pure_def, Prod.mk.injEq, Except.ok.injEq] at h
        rw [← h.1]
        refine ⟨rfl, fun pd hh => ?_⟩
        simp only at hh
        split at hh
        · exact hh
        · cases hh

/-- a configured default algorithm without a colon yields a digest object without a declared value -/
theorem splitFirst_none (c : UInt8) (s : Bytes) (h : c ∉ s) : splitFirst c s = none := by
  induction s with
  | nil => rfl
  | cons b r ih =>
    have hb : (b == c) = false := by
      simp only [beq_eq_false_iff_ne, ne_eq]; intro e; exact h (by rw [e]; exact List.mem_cons_self)
    have hr : c ∉ r := fun hm => h (List.mem_cons_of_mem _ hm)
    simp only [splitFirst, hb, Bool.false_eq_true, ↓reduceIte, ih hr]

theorem newDigest_default_empty (s : Bytes) (dflt : Enc) (d : Digest) (hc : COLON ∉ s) (h : newDigest s dflt = some d) :
    d.hash = [] := by
  unfold newDigest at h
  simp only [splitFirst_none COLON s hc] at h
  generalize detectEncoding (normalizeAlg s) [] dflt = e at h
  split at h
  · simp only [Option.some.injEq] at h; rw [← h]; cases e <;> rfl
  · split at h
    · simp only [Option.some.injEq] at h; rw [← h]; cases e <;> rfl
    · cases h

section
variable (H : Alg → Bytes → Bytes)

/-- what one digest step leaves in its own field when the digest object has no declared value -/
theorem checkDigest_adds_get (o : Opts) (field : Bytes) (tag : Tag) (d : Digest) (data : Bytes) (st st' : St)
    (hempty : d.hash = []) (hadd : o.addMissingDigest = true)
    (h : checkDigest H o field tag d data st = (.ok (), st')) : st'.hdr.get field = d.format H data := by
  have := C02_added_digest H o field tag d data st hempty hadd
  rw [h] at this
  simp only at this
  rw [this, get_set_same]
  rfl

/-- ValidateDigest writes the digests of exactly the block and payload bytes into digest fields that were not declared -/
theorem validateDigest_adds (o : Opts) (rt : Nat) (b : Block) (fault : Bool) (st st' : St)
    (hadd : o.addMissingDigest = true) (hbd : b.blockDigest.hash = [])
    (h : validateDigest H o rt b fault st = (.ok (), st')) :
    st'.hdr.get (bs "WARC-Block-Digest") = b.blockDigest.format H b.raw ∧
    (∀ pd, b.payloadDigest = some pd → pd.hash = [] → (rt == RT_Revisit) = false → st.hdr.has (bs "WARC-Segment-Number") = false →
      st'.hdr.get (bs "WARC-Payload-Digest") = pd.format H b.payload) ∧
    st'.hdr.has (bs "WARC-Segment-Number") = st.hdr.has (bs "WARC-Segment-Number") := by
  unfold validateDigest at h
  simp only [M.bind_def, M.hdr_def, M.setHdr_def] at h
  cases h1 : condFail (fault && (b.kind == .generic || b.kind == .httpReq || b.kind == .httpResp)) .reader st with
  | mk r1 s1 =>
    rw [h1] at h
    cases r1 with
    | error e => simp at h
    | ok u1 =>
      have e1 : s1 = st := by
        unfold condFail at h1
        split at h1
        · simp at h1
        · simp only [M.pure_def, Prod.mk.injEq] at h1; exact h1.2.symm
      subst e1
      simp only at h
      cases h3 : condSite (lengthBad o s1.hdr b) o.spec .length s1 with
      | mk r3 s3 =>
        rw [h3] at h
        cases r3 with
        | error e => simp at h
        | ok u3 =>
          simp only at h
          have k3 : s3.hdr = s1.hdr := keep_of_eq (KeepHdr.condSite _ _ _) h3
          generalize hs5 : ({ hdr := if (lengthBad o s1.hdr b && o.fixContentLength) = true then s3.hdr.set (bs "Content-Length") (natToDec b.raw.length) else s3.hdr, fnd := s3.fnd } : St) = s5 at h
          have hseg5 : s5.hdr.has (bs "WARC-Segment-Number") = s1.hdr.has (bs "WARC-Segment-Number") := by
            rw [← hs5]; simp only
            split
            · rw [has_set_other _ _ _ _ (by decide), k3]
            · rw [k3]
          cases h6 : checkDigest H o (bs "WARC-Block-Digest") .digestBlock b.blockDigest b.raw s5 with
          | mk r6 s6 =>
            rw [h6] at h
            cases r6 with
            | error e => simp at h
            | ok u6 =>
              simp only at h
              have hseg6 : s6.hdr.has (bs "WARC-Segment-Number") = s1.hdr.has (bs "WARC-Segment-Number") := by
                rw [checkDigest_has_other H o _ _ _ _ s5 s6 h6 _ (by decide)]; exact hseg5
              have hbd6 : s6.hdr.get (bs "WARC-Block-Digest") = b.blockDigest.format H b.raw :=
                checkDigest_adds_get H o _ _ _ _ s5 s6 hbd hadd h6
              by_cases hrv : (rt == RT_Revisit || s6.hdr.has (bs "WARC-Segment-Number")) = true
              · simp only [hrv, ↓reduceIte, M.pure_def, Prod.mk.injEq, Except.ok.injEq, true_and] at h
                subst h
                refine ⟨hbd6, ?_, hseg6⟩
                intro pd _ _ hnr hseg
                rw [hseg6, hseg, hnr] at hrv
                cases hrv
              · simp only [hrv, Bool.false_eq_true, ↓reduceIte] at h
                cases hpd : b.payloadDigest with
                | none =>
                  simp only [hpd, M.pure_def, Prod.mk.injEq, Except.ok.injEq, true_and] at h
                  subst h
                  exact ⟨hbd6, fun pd hh => (by cases hh), hseg6⟩
                | some pd =>
                  simp only [hpd] at h
                  refine ⟨?_, ?_, ?_⟩
                  · rw [checkDigest_get_other H o _ _ _ _ s6 st' h _ (by decide)]; exact hbd6
                  · intro pd' hh hpe _ _
                    simp only [Option.some.injEq] at hh
                    subst hh
                    exact checkDigest_adds_get H o _ _ _ _ s6 st' hpe hadd h
                  · rw [checkDigest_has_other H o _ _ _ _ s6 st' h _ (by decide)]; exact hseg6

/-- **the digests the builder adds are the digests of the serialized block and of its payload, under every policy**:
    the caller declared neither digest field, add-missing-digest is on, the configured default algorithm is one
    `newDigest` knows (`d0`) and contains no colon. Then for every policy setting, every repair option, every block kind
    and content, a record Build returns without error has WARC-Block-Digest = `d0.format` of exactly `r.block.raw`, and —
    when the block has a payload, the record is not a revisit and not segmented — WARC-Payload-Digest = `d0.format` of
    exactly `r.block.payload` -/
theorem C02_digests_every_policy (o : Opts) (Ω : Oracles) (verTxt : Bytes) (verId rt0 : Nat) (hdr : Fields) (content newId : Bytes) (r : Rec)
    (hadd : o.addMissingDigest = true)
    (d0 : Digest) (hd0 : newDigest o.defaultAlg o.defaultEnc = some d0) (hcolon : COLON ∉ o.defaultAlg)
    (hnoBD : hdr.has (bs "WARC-Block-Digest") = false) (hnoPD : hdr.has (bs "WARC-Payload-Digest") = false)
    (hb : (build H o Ω verTxt verId rt0 hdr content newId).record = some r)
    (he : (build H o Ω verTxt verId rt0 hdr content newId).err = none) :
    r.hdr.get (bs "WARC-Block-Digest") = d0.format H r.block.raw ∧
    (∀ pd, r.block.payloadDigest = some pd → (r.rt == RT_Revisit) = false → hdr.has (bs "WARC-Segment-Number") = false →
      r.hdr.get (bs "WARC-Payload-Digest") = d0.format H r.block.payload) := by
  have hd0e : d0.hash = [] := newDigest_default_empty _ _ _ hcolon hd0
  unfold build at hb he
  simp only at hb he
  -- the two header preparations touch neither digest field nor the segment number
  have hprep1 : ∀ k, canon k ≠ canon (bs "WARC-Record-ID") →
      (if (o.addMissingRecordId && !hdr.has (bs "WARC-Record-ID")) = true then hdr.setId (bs "WARC-Record-ID") newId else hdr).has k = hdr.has k := by
    intro k hk1
    split
    · exact has_setId_other _ _ _ _ hk1
    · rfl
  generalize (if (o.addMissingRecordId && !hdr.has (bs "WARC-Record-ID")) = true then hdr.setId (bs "WARC-Record-ID") newId else hdr) = hdr1 at hb he hprep1
  generalize (o.addMissingContentLength && !hdr1.has (bs "Content-Length")) = cla at hb he
  have hprep : ∀ k, canon k ≠ canon (bs "WARC-Record-ID") → canon k ≠ canon (bs "Content-Length") →
      (if cla = true then setInt hdr1 (bs "Content-Length") content.length else hdr1).has k = hdr.has k := by
    intro k hk1 hk2
    split
    · unfold setInt; rw [has_set_other _ _ _ _ hk2]; exact hprep1 k hk1
    · exact hprep1 k hk1
  generalize (if cla = true then setInt hdr1 (bs "Content-Length") content.length else hdr1) = hdr2 at hb he hprep
  have hbd2 : hdr2.has (bs "WARC-Block-Digest") = false := by rw [hprep _ (by decide) (by decide)]; exact hnoBD
  have hpd2 : hdr2.has (bs "WARC-Payload-Digest") = false := by rw [hprep _ (by decide) (by decide)]; exact hnoPD
  have hseg2 : hdr2.has (bs "WARC-Segment-Number") = hdr.has (bs "WARC-Segment-Number") := hprep _ (by decide) (by decide)
  unfold buildBody at hb he
  simp only [M.bind_def] at hb he
  cases hv : validateHeader o Ω verId ⟨hdr2, []⟩ with
  | mk rv sv =>
    rw [hv] at hb he
    cases rv with
    | error e => simp at he
    | ok rtv =>
      simp only at hb he
      have kv : sv.hdr = hdr2 := by
        have := (validateHeader_keep o Ω verId).h ⟨hdr2, []⟩
        rw [hv] at this; exact this
      cases hp : parseBlock o Ω (if (rt0 == 0) = true then rtv else rt0) content false sv with
      | mk rp sp =>
        rw [hp] at hb he
        cases rp with
        | error e => simp at he
        | ok b =>
          simp only [M.hdr_def, M.setHdr_def] at hb he
          obtain ⟨hbdo, hpdo⟩ := parseBlock_digests o Ω _ content false sv sp b hp
          have hbd : b.blockDigest = d0 := by
            unfold digestOfField at hbdo
            rw [kv, hbd2] at hbdo
            simp only [Bool.false_eq_true, ↓reduceIte, hd0, Option.some.injEq] at hbdo
            exact hbdo.symm
          have hpdd : ∀ pd, b.payloadDigest = some pd → pd = d0 := by
            intro pd hh
            have := hpdo pd hh
            unfold digestOfField at this
            rw [kv, hpd2] at this
            simp only [Bool.false_eq_true, ↓reduceIte, hd0, Option.some.injEq] at this
            exact this.symm
          have hsegp : sp.hdr.has (bs "WARC-Segment-Number") = hdr.has (bs "WARC-Segment-Number") := by
            have := ((parseBlock_onlyCL o Ω (if (rt0 == 0) = true then rtv else rt0) content false).h sv (bs "WARC-Segment-Number") (by decide)).1
            rw [hp] at this
            rw [this, kv]; exact hseg2
          generalize hsq : ({ hdr := if (cla && b.kind == BlockKind.warcFields && b.raw.length != content.length) = true then setInt sp.hdr (bs "Content-Length") b.raw.length else sp.hdr, fnd := sp.fnd } : St) = sq at hb he
          have hsegq : sq.hdr.has (bs "WARC-Segment-Number") = hdr.has (bs "WARC-Segment-Number") := by
            rw [← hsq]; simp only
            split
            · unfold setInt; rw [has_set_other _ _ _ _ (by decide)]; exact hsegp
            · exact hsegp
          cases hd : validateDigest H o (if (rt0 == 0) = true then rtv else rt0) b false sq with
          | mk rd sd =>
            rw [hd] at hb he
            cases rd with
            | error e => simp at he
            | ok u =>
              simp only [M.pure_def, Option.some.injEq] at hb
              subst hb
              obtain ⟨g1, g2, _⟩ := validateDigest_adds H o _ b false sq sd hadd (by rw [hbd]; exact hd0e) hd
              simp only
              refine ⟨by rw [g1, hbd], ?_⟩
              intro pd hh hnr hseg
              have e := hpdd pd hh
              subst e
              exact g2 pd hh hd0e hnr (by rw [hsegq]; exact hseg)

end

/-! ### non-vacuity: a record built with every policy axis at ignore (the case the older theorems do not reach) -/

def dgH : Alg → Bytes → Bytes := fun a _ => List.replicate a.size 7
def dgΩ : Oracles := ⟨fun _ => true, fun _ => true, fun _ => true, fun _ _ => true, fun _ => none⟩
def dgO : Opts := ⟨.ignore, .ignore, .ignore, .ignore, false, true, true, true, true, true, true, false, bs "sha1", .b32⟩
def dgHdr : Fields := [(bs "WARC-Type", bs "resource"), (bs "WARC-Date", bs "2020-01-02T03:04:05Z"),
  (bs "WARC-Target-URI", bs "http://example.com/"), (bs "Content-Type", bs "text/plain")]

example : (build dgH dgO dgΩ (bs "1.1") 2 4 dgHdr (bs "hello") (bs "urn:uuid:1")).err = none ∧
    ((build dgH dgO dgΩ (bs "1.1") 2 4 dgHdr (bs "hello") (bs "urn:uuid:1")).record.map
      (fun r => r.block.payloadDigest.isSome && r.rt != RT_Revisit)) = some true ∧
    dgO.addMissingDigest = true ∧ newDigest dgO.defaultAlg dgO.defaultEnc = some ⟨.sha1, bs "sha1", [], .b32⟩ ∧
    COLON ∉ dgO.defaultAlg ∧
    dgHdr.has (bs "WARC-Block-Digest") = false ∧ dgHdr.has (bs "WARC-Payload-Digest") = false ∧
    dgHdr.has (bs "WARC-Segment-Number") = false := by
  refine ⟨by decide, by decide, rfl, by decide, by decide, by decide, by decide, by decide⟩

end Gowarc.Props.C02
