/-
  C11 — Supported concurrent use is free of data races.

  Model: the lock discipline (Model/Discipline.lean) over the shared-access table regenerated from /repo on every run
  (Gen/SharedAccess.lean: writes to package variables, writes to and reads of the writer's mutable fields with the lock
  holders, their locked regions and the call graph over ALL methods of the type, not-thread-safe external calls, name-generator and writer-struct writes, pool puts).
  Theorems: the regenerated table satisfies the discipline (`C11_table`), the unlocked set is closed (`C11_closed`), and
  — generic, for every table — a closed set contains every method that can be reached without the lock
  (`Discipline.closed_sound`), hence every field write of the table happens under writeLock (`C11_fields_locked`).
  Validation and search: workloads of the supported shape (distinct builders, unmarshalers, readers — also closed twice —
  and records per goroutine; one shared writer with a shared PatternNameGenerator, 1–4 workers, Rotate and Close in
  flight; default and customised options) run in the -race build of the harness; every report of the detector is a
  violation with the two conflicting functions as the replay.
  Partial: the Go memory model, the extractor's syntactic call graph and third-party internals are trusted; accesses
  the table does not describe (anything reached only through interfaces or closures) are covered by the detector runs only.
-/
import Gowarc.Model.Discipline
import Gowarc.Gen.SharedAccess
namespace Gowarc.Props.C11
open Gowarc.Discipline

def table : Table :=
  { pkgVarWrites := Gowarc.Gen.pkgVarWrites, writerFieldWrites := Gowarc.Gen.writerFieldWrites, writerFieldReads := Gowarc.Gen.writerFieldReads, lockHolders := Gowarc.Gen.lockHolders,
    innerCalls := Gowarc.Gen.innerCalls, outerCalls := Gowarc.Gen.outerCalls, unsafeExternalCalls := Gowarc.Gen.unsafeExternalCalls,
    generatorFieldWrites := Gowarc.Gen.generatorFieldWrites, writerStructWrites := Gowarc.Gen.writerStructWrites, poolPuts := Gowarc.Gen.poolPuts,
    pkgObjects := Gowarc.Gen.pkgObjects, readerFieldWrites := Gowarc.Gen.readerFieldWrites,
    optsFieldWrites := Gowarc.Gen.optsFieldWrites }

/-- **the extracted table satisfies the discipline** -/
theorem C11_table : RaceFree table = true := by decide

theorem C11_closed : Closed table (unlocked table) = true := by decide

/-- **options are immutable once constructed**: no function assigns a field of an options object through an `.opts`
    field: the object a reader, unmarshaler or builder shares with all the records it produces is only ever read after
    construction (seed C11-k: ToRevisitRecord adjusting the default digest algorithm in place) -/
theorem C11_opts_immutable : table.optsFieldWrites = [] := by decide

/-- **a file reader keeps nothing of what it hands out**: no method of WarcFileReader assigns a field except Close
    (which gives the input buffer back to its pool); a record returned by Next is referenced by its receiver alone (seed
    C11-g: a reader that remembers and later closes the record it returned) -/
theorem C11_reader_keeps_nothing : table.readerFieldWrites.all (fun w => w == ("bufferedReader", "Close")) = true := by decide

/-- **no package-level variable holds a mutable object**: every object created at package level is made by one of the
    allowed makers (error values, version descriptors, sync.Pool, and slice and map literals: tables that nothing outside
    `init` assigns into, sorts, clears or deletes from: `pkgVarWrites`) — in particular no buffer, reader or
    cache is shared behind the API by all users of the package (seed C11-i: a sentinel disk buffer) -/
theorem C11_pkg_objects : table.pkgObjects.all (fun o => allowedMaker o.2.2) = true := by decide

/-- every method that assigns a field of the per-file writer runs under writeLock on every call path from outside -/
theorem C11_fields_locked (field m f : String) (path : List String) (hw : (field, m) ∈ table.writerFieldWrites)
    (hentry : (f, path.head?.getD m) ∈ table.outerCalls) (hpath : UnlockedPath table path) (hlast : path.getLast? = some m) :
    table.lockHolders.contains (path.head?.getD m) = true := by
  cases hnl : table.lockHolders.contains (path.head?.getD m) with
  | true => rfl
  | false =>
    exfalso
    have hin := closed_sound table (unlocked table) C11_closed f path m hentry hnl hpath hlast
    have hall : table.writerFieldWrites.all (fun w => !(unlocked table).contains w.2) = true := by decide
    rw [List.all_eq_true] at hall
    have := hall (field, m) hw
    simp only [Bool.not_eq_true'] at this
    rw [hin] at this; cases this

/-- … and so does every method that reads a field some method assigns -/
theorem C11_reads_locked (field m f : String) (path : List String) (hw : (field, m) ∈ table.writerFieldReads)
    (hentry : (f, path.head?.getD m) ∈ table.outerCalls) (hpath : UnlockedPath table path) (hlast : path.getLast? = some m) :
    table.lockHolders.contains (path.head?.getD m) = true := by
  cases hnl : table.lockHolders.contains (path.head?.getD m) with
  | true => rfl
  | false =>
    exfalso
    have hin := closed_sound table (unlocked table) C11_closed f path m hentry hnl hpath hlast
    have hall : table.writerFieldReads.all (fun w => !(unlocked table).contains w.2) = true := by decide
    rw [List.all_eq_true] at hall
    have := hall (field, m) hw
    simp only [Bool.not_eq_true'] at this
    rw [hin] at this; cases this

/-- non-vacuity: the table is not empty and the closure computation sees the entry points -/
example : table.writerFieldWrites.length > 0 ∧ table.writerFieldReads.length > 0 ∧ table.outerCalls.length > 0 ∧ table.lockHolders = ["Write", "Close"] := by decide

end Gowarc.Props.C11
