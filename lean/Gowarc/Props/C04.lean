/-
  C04 — Writer and reader agree on record positions (random access).

  Model: `SW` (Model/Writer.lean) — one singleWarcFileWriter as a state machine over files that are lists of members.
  Tie: correspondence kind `writer` (public API, one worker; responses, files as read back by an independent scanner,
  callbacks), with the property's clauses judged on the implementation: every reported (file, offset) is the start of
  exactly that record for the scanner and for a freshly opened gowarc reader, sequential reading reports the same
  offsets under three chunking behaviours of the source, EOF is reported at the file length.

  Theorems here: the tracked size is the length of the open file in every reachable state (the `currentFileSize`
  anchor), the reported offset is where the record's bytes start — in the state right after the write and in every
  later state (files only grow at the end, closed files never change) — and sequential decoding of a file with any
  self-delimiting codec visits exactly the members at their prefix-sum offsets and ends at the file length.
-/
import Gowarc.Lemmas.WriterLemmas
namespace Gowarc.Props.C04
open Gowarc Gowarc.SW

/-- reachable-state invariant of the sequential writer -/
structure Inv (s : SW) : Prop where
  ord : Ordered s.files s.serial
  cur : ∀ id, s.cur = some id → id = s.serial ∧ 0 < s.serial ∧ s.curSize = fileSize s.files id
  idle : s.cur = none → s.curSize = 0
  opn : ∀ f ∈ s.files, (f.isOpen = true ↔ s.cur = some f.id)

theorem inv_init : Inv SW.init :=
  ⟨rfl, (by intro id h; cases h), fun _ => rfl, (by intro f hf; cases hf)⟩

theorem close_inv (s : SW) (h : Inv s) : Inv (close s) := by
  unfold close
  cases hc : s.cur with
  | none => simpa [hc] using h
  | some id =>
    simp only
    refine ⟨?_, (by intro id' h'; cases h'), fun _ => rfl, ?_⟩
    · show Ordered (modFile s.files id _) s.serial
      unfold Ordered; rw [modFile_ids]; exact h.ord; intro f; rfl
    · intro f' hf'
      replace hf' : f' ∈ modFile s.files id (fun f => { f with isOpen := false }) := hf'
      rw [mem_modFile] at hf'
      obtain ⟨f, hf, rfl⟩ := hf'
      constructor
      · intro ho
        exfalso
        by_cases hid : (f.id == id) = true
        · simp [hid] at ho
        · simp only [hid, Bool.false_eq_true, ↓reduceIte] at ho
          have := (h.opn f hf).1 ho
          rw [hc] at this
          simp at hid
          exact hid (Option.some.inj this).symm
      · intro h'; cases h'

theorem createFile_inv (c : WCfg) (s : SW) (ib : Nat → Bytes) (h : Inv s) (hn : s.cur = none) :
    Inv (createFile c s ib) ∧ (createFile c s ib).cur = some (s.serial + 1) := by
  have hfresh : ∀ f ∈ s.files, f.id ≠ s.serial + 1 := by
    intro f hf; have := h.ord.mem_le f hf; omega
  have hclosed : ∀ f ∈ s.files, f.isOpen = false := by
    intro f hf
    cases ho : f.isOpen with
    | false => rfl
    | true => have := (h.opn f hf).1 ho; rw [hn] at this; cases this
  unfold createFile
  by_cases hi : c.info = true
  · simp only [hi, ↓reduceIte]
    refine ⟨⟨h.ord.snoc _ rfl, ?_, (by intro h'; cases h'), ?_⟩, trivial⟩
    · intro id hid
      simp only [Option.some.injEq] at hid
      subst hid
      refine ⟨rfl, Nat.succ_pos _, ?_⟩
      have := fileSize_append_last s.files ⟨s.serial + 1, [⟨0, ib (s.serial + 1), none⟩], true⟩ hfresh
      simp only at this
      rw [this]; simp [WFile.size, WFile.content]
    · intro f hf
      rw [List.mem_append, List.mem_singleton] at hf
      rcases hf with hf | rfl
      · rw [hclosed f hf]; simp only [Bool.false_eq_true, false_iff]
        intro e; exact hfresh f hf (Option.some.inj e).symm
      · simp
  · simp only [hi, Bool.false_eq_true, ↓reduceIte]
    refine ⟨⟨h.ord.snoc _ rfl, ?_, (by intro h'; cases h'), ?_⟩, trivial⟩
    · intro id hid
      simp only [Option.some.injEq] at hid
      subst hid
      refine ⟨rfl, Nat.succ_pos _, ?_⟩
      have := fileSize_append_last s.files ⟨s.serial + 1, [], true⟩ hfresh
      simp only at this
      rw [this, h.idle hn]; simp [WFile.size, WFile.content]
    · intro f hf
      rw [List.mem_append, List.mem_singleton] at hf
      rcases hf with hf | rfl
      · rw [hclosed f hf]; simp only [Bool.false_eq_true, false_iff]
        intro e; exact hfresh f hf (Option.some.inj e).symm
      · simp

/-- the state in which the record is appended: after the fit test and, if needed, the creation of a file -/
def ready (c : WCfg) (s : SW) (cl : Bool) (ib : Nat → Bytes) : SW :=
  let s1 := if cl then close s else s
  if s1.cur.isNone then createFile c s1 ib else s1

theorem ready_inv (c : WCfg) (s : SW) (cl : Bool) (ib : Nat → Bytes) (h : Inv s) :
    Inv (ready c s cl ib) ∧ ∃ id, (ready c s cl ib).cur = some id := by
  unfold ready
  have h1 : Inv (if cl then close s else s) := by split; exact close_inv s h; exact h
  generalize (if cl then close s else s) = s1 at h1
  cases hc : s1.cur with
  | none =>
    simp only [hc, Option.isNone_none, ↓reduceIte]
    exact ⟨(createFile_inv c s1 ib h1 hc).1, _, (createFile_inv c s1 ib h1 hc).2⟩
  | some id => rw [if_neg (by simp [hc])]; exact ⟨h1, id, hc⟩

theorem write_eq (c : WCfg) (scale : Int → Int) (s : SW) (r : WRec) :
    write c scale s r =
      match fitClose c scale s r.decl with
      | none => (s, ⟨none, 0, 0, true⟩)
      | some cl =>
        match (ready c s cl r.infoBytes).cur with
        | none => (ready c s cl r.infoBytes, ⟨none, 0, 0, true⟩)
        | some id =>
          ({ ready c s cl r.infoBytes with
              files := modFile (ready c s cl r.infoBytes).files id (fun f => { f with members := f.members ++ [⟨r.tok, r.enc (ready c s cl r.infoBytes).infoOf, (ready c s cl r.infoBytes).infoOf⟩] }),
              curSize := fileSize (modFile (ready c s cl r.infoBytes).files id (fun f => { f with members := f.members ++ [⟨r.tok, r.enc (ready c s cl r.infoBytes).infoOf, (ready c s cl r.infoBytes).infoOf⟩] })) id },
           ⟨some id, (ready c s cl r.infoBytes).curSize, r.ulen (ready c s cl r.infoBytes).infoOf, false⟩) := by
  unfold write ready
  cases fitClose c scale s r.decl <;> rfl

/-- appending a member to the open file keeps the invariant -/
theorem append_inv (s : SW) (id : Nat) (m : Member) (h : Inv s) (hc : s.cur = some id) :
    Inv { s with files := modFile s.files id (fun f => { f with members := f.members ++ [m] }),
                 curSize := fileSize (modFile s.files id (fun f => { f with members := f.members ++ [m] })) id } := by
  refine ⟨?_, ?_, ?_, ?_⟩
  · show Ordered (modFile s.files id _) s.serial
    unfold Ordered; rw [modFile_ids]; exact h.ord; intro f; rfl
  · intro id' hid'
    replace hid' : s.cur = some id' := hid'
    rw [hc] at hid'
    cases hid'
    exact ⟨(h.cur id hc).1, (h.cur id hc).2.1, rfl⟩
  · intro hn; replace hn : s.cur = none := hn; rw [hc] at hn; cases hn
  · intro f' hf'
    replace hf' : f' ∈ modFile s.files id (fun f => { f with members := f.members ++ [m] }) := hf'
    show f'.isOpen = true ↔ s.cur = some f'.id
    rw [mem_modFile] at hf'
    obtain ⟨f, hf, rfl⟩ := hf'
    have := h.opn f hf
    split <;> simpa using this

theorem write_inv (c : WCfg) (scale : Int → Int) (s : SW) (r : WRec) (h : Inv s) : Inv (write c scale s r).1 := by
  rw [write_eq]
  cases fitClose c scale s r.decl with
  | none => exact h
  | some cl =>
    simp only
    obtain ⟨hr, id, hid⟩ := ready_inv c s cl r.infoBytes h
    rw [hid]
    have := append_inv _ id ⟨r.tok, r.enc (ready c s cl r.infoBytes).infoOf, (ready c s cl r.infoBytes).infoOf⟩ hr hid
    rw [hid] at this
    exact this

theorem writeFailed_eq (c : WCfg) (scale : Int → Int) (s : SW) (r : WRec) :
    writeFailed c scale s r =
      match fitClose c scale s r.decl with
      | none => (s, ⟨none, 0, 0, true⟩)
      | some cl => (ready c s cl r.infoBytes, ⟨none, 0, 0, true⟩) := by
  unfold writeFailed ready
  cases fitClose c scale s r.decl <;> rfl

/-- a record that fails to marshal leaves the invariant alone: nothing of it stays in the file -/
theorem writeFailed_inv (c : WCfg) (scale : Int → Int) (s : SW) (r : WRec) (h : Inv s) : Inv (writeFailed c scale s r).1 := by
  rw [writeFailed_eq]
  cases fitClose c scale s r.decl with
  | none => exact h
  | some cl => exact (ready_inv c s cl r.infoBytes h).1

/-- the state a segmented Write ends in is that of two Writes in a row, or of a failed Write -/
theorem writeSeg_state (c : WCfg) (scale : Int → Int) (s : SW) (r n : WRec) :
    (writeSeg c scale s r n).1 = (write c scale s r).1 ∨
    (writeSeg c scale s r n).1 = (writeFailed c scale s r).1 ∨
    (writeSeg c scale s r n).1 = (write c scale (write c scale s r).1 n).1 := by
  unfold writeSeg
  split
  · exact Or.inl rfl
  · split
    · exact Or.inr (Or.inl rfl)
    · exact Or.inr (Or.inr rfl)

theorem writeSeg_inv (c : WCfg) (scale : Int → Int) (s : SW) (r n : WRec) (h : Inv s) : Inv (writeSeg c scale s r n).1 := by
  rcases writeSeg_state c scale s r n with e | e | e <;> rw [e]
  · exact write_inv c scale s r h
  · exact writeFailed_inv c scale s r h
  · exact write_inv c scale _ n (write_inv c scale s r h)

theorem step_inv (c : WCfg) (scale : Int → Int) (s : SW) (op : WOp) (h : Inv s) : Inv (step c scale s op).1 := by
  cases op with
  | write r => exact write_inv c scale s r h
  | rotate => exact close_inv s h
  | failed r => exact writeFailed_inv c scale s r h
  | seg r n => exact writeSeg_inv c scale s r n h

/-- **the invariant holds in every reachable state**: in particular the tracked size is the length of the open file -/
theorem C04_inv (c : WCfg) (scale : Int → Int) (ops : List WOp) : Inv (run c scale SW.init ops).1 := by
  suffices ∀ s, Inv s → Inv (run c scale s ops).1 from this _ inv_init
  induction ops with
  | nil => intro s h; exact h
  | cons op rest ih => intro s h; exact ih _ (step_inv c scale s op h)

theorem C04_tracked_size (c : WCfg) (scale : Int → Int) (ops : List WOp) (id : Nat)
    (h : (run c scale SW.init ops).1.cur = some id) :
    ∃ f ∈ (run c scale SW.init ops).1.files, f.id = id ∧ f.isOpen = true ∧ (run c scale SW.init ops).1.curSize = f.size := by
  have hi := C04_inv c scale ops
  generalize (run c scale SW.init ops).1 = s at *
  obtain ⟨hid, hpos, hsz⟩ := hi.cur id h
  obtain ⟨n, hn⟩ : ∃ n, s.serial = n + 1 := ⟨s.serial - 1, by omega⟩
  have ho := hi.ord
  rw [hn] at ho
  obtain ⟨init, l, hfs, hl, hinit⟩ := ho.last
  have hfresh : ∀ f ∈ init, f.id ≠ l.id := by intro f hf; have := hinit.mem_le f hf; omega
  refine ⟨l, by rw [hfs]; simp, by omega, ?_, ?_⟩
  · exact (hi.opn l (by rw [hfs]; simp)).2 (by rw [h]; congr 1; omega)
  · rw [hsz, hfs, hid, hn, ← hl, fileSize_append_last _ _ hfresh]

/-- the bytes `b` lie in file `id` at offset `off` -/
def At (s : SW) (id off : Nat) (b : Bytes) : Prop :=
  ∃ f ∈ s.files, f.id = id ∧ ∃ pre post, f.content = pre ++ b ++ post ∧ pre.length = off

theorem at_modFile (fs : List WFile) (id0 : Nat) (m : Member) (f : WFile) (hf : f ∈ fs) :
    ∃ f' ∈ modFile fs id0 (fun f => { f with members := f.members ++ [m] }), f'.id = f.id ∧ ∃ post, f'.content = f.content ++ post := by
  by_cases hid : (f.id == id0) = true
  · refine ⟨{ f with members := f.members ++ [m] }, ?_, rfl, m.bytes, size_append_member f m⟩
    rw [mem_modFile]; exact ⟨f, hf, by simp [hid]⟩
  · refine ⟨f, ?_, rfl, [], by simp⟩
    rw [mem_modFile]; exact ⟨f, hf, by simp [hid]⟩

/-- files only ever grow at the end -/
theorem close_grows (s : SW) (f : WFile) (hf : f ∈ s.files) :
    ∃ f' ∈ (close s).files, f'.id = f.id ∧ ∃ post, f'.content = f.content ++ post := by
  unfold close
  cases hc : s.cur with
  | none => exact ⟨f, hf, rfl, [], by simp⟩
  | some id =>
    simp only
    by_cases hid : (f.id == id) = true
    · exact ⟨{ f with isOpen := false }, by rw [mem_modFile]; exact ⟨f, hf, by simp [hid]⟩, rfl, [], by simp [WFile.content]⟩
    · exact ⟨f, by rw [mem_modFile]; exact ⟨f, hf, by simp [hid]⟩, rfl, [], by simp⟩

theorem ready_grows (c : WCfg) (s : SW) (cl : Bool) (ib : Nat → Bytes) (f : WFile) (hf : f ∈ s.files) :
    ∃ f' ∈ (ready c s cl ib).files, f'.id = f.id ∧ ∃ post, f'.content = f.content ++ post := by
  have hcreate : ∀ s : SW, ∀ ib, ∀ f ∈ s.files, f ∈ (createFile c s ib).files := by
    intro s ib f hf; unfold createFile; split <;> simp [hf]
  unfold ready
  have h1 : ∃ f' ∈ (if cl then close s else s).files, f'.id = f.id ∧ ∃ post, f'.content = f.content ++ post := by
    split
    · exact close_grows s f hf
    · exact ⟨f, hf, rfl, [], by simp⟩
  generalize (if cl then close s else s) = s1 at h1
  obtain ⟨f1, hf1, hid1, post1, hp1⟩ := h1
  simp only
  split
  · exact ⟨f1, hcreate s1 ib f1 hf1, hid1, post1, hp1⟩
  · exact ⟨f1, hf1, hid1, post1, hp1⟩

theorem failed_grows (c : WCfg) (scale : Int → Int) (s : SW) (r : WRec) (f : WFile) (hf : f ∈ s.files) :
    ∃ f' ∈ (writeFailed c scale s r).1.files, f'.id = f.id ∧ ∃ post, f'.content = f.content ++ post := by
  rw [writeFailed_eq]
  cases fitClose c scale s r.decl with
  | none => exact ⟨f, hf, rfl, [], by simp⟩
  | some cl => exact ready_grows c s cl r.infoBytes f hf

theorem write_grows (c : WCfg) (scale : Int → Int) (s : SW) (r : WRec) (f : WFile) (hf : f ∈ s.files) :
    ∃ f' ∈ (write c scale s r).1.files, f'.id = f.id ∧ ∃ post, f'.content = f.content ++ post := by
  rw [write_eq]
  cases fitClose c scale s r.decl with
  | none => exact ⟨f, hf, rfl, [], by simp⟩
  | some cl =>
    simp only
    obtain ⟨f1, hf1, hid1, post1, hp1⟩ := ready_grows c s cl r.infoBytes f hf
    cases hcur : (ready c s cl r.infoBytes).cur with
    | none => exact ⟨f1, hf1, hid1, post1, hp1⟩
    | some id =>
      simp only
      obtain ⟨f2, hf2, hid2, post2, hp2⟩ := at_modFile _ id ⟨r.tok, r.enc (ready c s cl r.infoBytes).infoOf, (ready c s cl r.infoBytes).infoOf⟩ f1 hf1
      exact ⟨f2, hf2, by rw [hid2, hid1], post1 ++ post2, by rw [hp2, hp1, List.append_assoc]⟩

theorem step_grows (c : WCfg) (scale : Int → Int) (s : SW) (op : WOp) (f : WFile) (hf : f ∈ s.files) :
    ∃ f' ∈ (step c scale s op).1.files, f'.id = f.id ∧ ∃ post, f'.content = f.content ++ post := by
  cases op with
  | rotate => exact close_grows s f hf
  | failed r => exact failed_grows c scale s r f hf
  | write r => exact write_grows c scale s r f hf
  | seg r n =>
    show ∃ f' ∈ (writeSeg c scale s r n).1.files, _
    rcases writeSeg_state c scale s r n with e | e | e <;> rw [e]
    · exact write_grows c scale s r f hf
    · exact failed_grows c scale s r f hf
    · obtain ⟨f1, hf1, hid1, post1, hp1⟩ := write_grows c scale s r f hf
      obtain ⟨f2, hf2, hid2, post2, hp2⟩ := write_grows c scale (write c scale s r).1 n f1 hf1
      exact ⟨f2, hf2, by rw [hid2, hid1], post1 ++ post2, by rw [hp2, hp1, List.append_assoc]⟩

theorem at_step (c : WCfg) (scale : Int → Int) (s : SW) (op : WOp) (id off : Nat) (b : Bytes) (h : At s id off b) :
    At (step c scale s op).1 id off b := by
  obtain ⟨f, hf, hid, pre, post, hc, hl⟩ := h
  obtain ⟨f', hf', hid', post', hc'⟩ := step_grows c scale s op f hf
  exact ⟨f', hf', by rw [hid', hid], pre, post ++ post', by rw [hc', hc, List.append_assoc], hl⟩

theorem at_run (c : WCfg) (scale : Int → Int) (ops : List WOp) (s : SW) (id off : Nat) (b : Bytes) (h : At s id off b) :
    At (run c scale s ops).1 id off b := by
  induction ops generalizing s with
  | nil => exact h
  | cons op rest ih => exact ih _ (at_step c scale s op id off b h)

/-- **the reported offset is where the record starts**: right after a successful Write the member's bytes lie in the
    reported file at the reported offset, and BytesWritten is the uncompressed serialized length -/
theorem C04_offset (c : WCfg) (scale : Int → Int) (s : SW) (r : WRec) (h : Inv s) (hok : (write c scale s r).2.err = false) :
    ∃ id stamp, (write c scale s r).2.file = some id ∧ (write c scale s r).2.written = r.ulen stamp ∧
      At (write c scale s r).1 id (write c scale s r).2.off (r.enc stamp) := by
  rw [write_eq] at hok ⊢
  cases hfit : fitClose c scale s r.decl with
  | none => simp [hfit] at hok
  | some cl =>
    simp only [hfit] at hok ⊢
    obtain ⟨hr, id, hid⟩ := ready_inv c s cl r.infoBytes h
    simp only [hid]
    generalize ready c s cl r.infoBytes = s2 at *
    refine ⟨id, s2.infoOf, rfl, rfl, ?_⟩
    obtain ⟨hser, hpos, hsz⟩ := hr.cur id hid
    obtain ⟨n, hn⟩ : ∃ n, s2.serial = n + 1 := ⟨s2.serial - 1, by omega⟩
    have ho := hr.ord
    rw [hn] at ho
    obtain ⟨init, l, hfs, hl, hinit⟩ := ho.last
    have hfresh : ∀ f ∈ init, f.id ≠ l.id := by intro f hf; have := hinit.mem_le f hf; omega
    have hidl : id = l.id := by omega
    subst hidl
    refine ⟨{ l with members := l.members ++ [⟨r.tok, r.enc s2.infoOf, s2.infoOf⟩] }, ?_, rfl, l.content, [], ?_, ?_⟩
    · show _ ∈ modFile s2.files l.id _
      rw [hfs, modFile_append_last _ _ _ hfresh]; simp
    · rw [size_append_member]; simp
    · show l.content.length = s2.curSize
      rw [hsz, hfs, fileSize_append_last _ _ hfresh]; rfl

/-- … **and it stays there**: whatever is written, rotated or closed afterwards -/
theorem C04_offset_stable (c : WCfg) (scale : Int → Int) (s : SW) (r : WRec) (later : List WOp) (h : Inv s)
    (hok : (write c scale s r).2.err = false) :
    ∃ id stamp, (write c scale s r).2.file = some id ∧
      At (run c scale (write c scale s r).1 later).1 id (write c scale s r).2.off (r.enc stamp) := by
  obtain ⟨id, stamp, hf, _, hat⟩ := C04_offset c scale s r h hok
  exact ⟨id, stamp, hf, at_run c scale later _ id _ _ hat⟩

/-- **a segmented record is reported where its first segment starts**: when the marshaler splits a record, the single
    response names the file and offset at which the FIRST segment (the record carrying the id the caller wrote) lies —
    not the continuation — the byte count is the sum of both serialized lengths, and the position stays valid through
    the nested write of the continuation (which may rotate) and everything written later -/
theorem C04_seg_offset (c : WCfg) (scale : Int → Int) (s : SW) (r n : WRec) (later : List WOp) (h : Inv s)
    (hok : (writeSeg c scale s r n).2.err = false) :
    ∃ id stamp stamp2, (writeSeg c scale s r n).2.file = some id ∧
      (writeSeg c scale s r n).2.written = r.ulen stamp + n.ulen stamp2 ∧
      At (run c scale (writeSeg c scale s r n).1 later).1 id (writeSeg c scale s r n).2.off (r.enc stamp) := by
  unfold writeSeg at hok ⊢
  by_cases h1 : (write c scale s r).2.err = true
  · simp only [h1, ↓reduceIte] at hok; cases hok
  · have h1' : (write c scale s r).2.err = false := by simpa using h1
    simp only [h1', Bool.false_eq_true, ↓reduceIte] at hok ⊢
    cases hfit : fitClose c scale (write c scale s r).1 n.decl with
    | none =>
      simp only [hfit] at hok
      have : (writeFailed c scale s r).2.err = true := by
        rw [writeFailed_eq]; cases fitClose c scale s r.decl <;> rfl
      rw [this] at hok; cases hok
    | some cl =>
      simp only [hfit] at hok ⊢
      obtain ⟨id, stamp, hf, hw, hat⟩ := C04_offset c scale s r h h1'
      obtain ⟨id2, stamp2, _, hw2, _⟩ := C04_offset c scale (write c scale s r).1 n (write_inv c scale s r h) hok
      refine ⟨id, stamp, stamp2, hf, by rw [hw, hw2], ?_⟩
      have hat2 : At (write c scale (write c scale s r).1 n).1 id (write c scale s r).2.off (r.enc stamp) :=
        at_step c scale (write c scale s r).1 (.write n) id _ _ hat
      exact at_run c scale later _ id _ _ hat2

/-! ### sequential reading of a file of members -/

section
variable {α : Type} (dec : Bytes → Option (α × Bytes))

/-- read records until the input is used up or the decoder stops; reports (offset, record) pairs and the end offset -/
def readAll : Nat → Nat → Bytes → List (Nat × α) × Nat
  | 0, off, _ => ([], off)
  | fuel + 1, off, inp =>
    if inp.isEmpty then ([], off)
    else match dec inp with
      | none => ([], off)
      | some (x, rest) => ((off, x) :: (readAll fuel (off + (inp.length - rest.length)) rest).1, (readAll fuel (off + (inp.length - rest.length)) rest).2)

/-- offsets of a list of members laid end to end -/
def offsets : Nat → List Bytes → List Nat
  | _, [] => []
  | off, b :: rest => off :: offsets (off + b.length) rest

/-- for ANY self-delimiting codec (`dec (enc x ++ rest) = some (x, rest)`, members non-empty): reading the concatenation
    of the members sequentially returns exactly the records, at the prefix-sum offsets, and ends at the total length -/
theorem C04_sequential (enc : α → Bytes) (hcodec : ∀ x rest, dec (enc x ++ rest) = some (x, rest)) (hpos : ∀ x, enc x ≠ [])
    (xs : List α) (off : Nat) (fuel : Nat) (hfuel : xs.length < fuel) :
    readAll dec fuel off ((xs.map enc).flatten) =
      ((offsets off (xs.map enc)).zip xs, off + ((xs.map enc).flatten).length) := by
  induction xs generalizing off fuel with
  | nil =>
    cases fuel with
    | zero => simp at hfuel
    | succ f => simp [readAll, offsets]
  | cons x rest ih =>
    cases fuel with
    | zero => simp at hfuel
    | succ f =>
      have hne : (enc x ++ (rest.map enc).flatten).isEmpty = false := by
        cases he : enc x with
        | nil => exact absurd he (hpos x)
        | cons a t => rfl
      simp only [List.map_cons, List.flatten_cons, readAll, hne, Bool.false_eq_true, ↓reduceIte, hcodec, offsets, List.zip_cons_cons]
      have hlen : (enc x ++ (rest.map enc).flatten).length - ((rest.map enc).flatten).length = (enc x).length := by
        simp
      rw [hlen, ih (off + (enc x).length) f (by simp at hfuel; omega)]
      simp only [List.length_append]
      congr 1
      omega

end

/-! ### non-vacuity: a concrete run with a rotation -/
def exRec (tok n : Nat) : WRec := ⟨tok, .val n, fun _ => List.replicate n 7, fun _ => n, fun _ => [1, 2, 3]⟩
example : ((run ⟨10, false, true⟩ id SW.init [.write (exRec 1 6), .write (exRec 2 6), .rotate, .write (exRec 3 2)]).2.map (fun o => o.map (fun r => (r.file, r.off)))) =
    [some (some 1, 3), some (some 2, 3), none, some (some 3, 3)] := by decide

end Gowarc.Props.C04
