/-
  C14, slice views: line reads. `slice.ReadBytes` / `ReadString` (a loop of 100-byte `ReadAtOffset` calls) return exactly
  the line a plain in-memory buffer holding the slice's bytes returns, and leave the position behind it — for every
  threshold, offset and length of the view and every delimiter position.
-/
import Gowarc.Lemmas.SliceLine
namespace Gowarc.Props.C14
open Gowarc Spec

theorem C14_slice_line (s : Slice) (b : Buf) (d : UInt8) (h : b.Inv) :
    (s.readBytes b d).1 = ((specLine (SBuf.view b.data s.soff s.len) s.pos d).1, (specLine (SBuf.view b.data s.soff s.len) s.pos d).2.1) ∧
    (s.readBytes b d).2.pos = (specLine (SBuf.view b.data s.soff s.len) s.pos d).2.2 :=
  Slice.readBytes_spec s b d h

end Gowarc.Props.C14
