/-
  C02 — Built records carry truthful Content-Length, digests and record ids.

  Model: `Gowarc.build` (Model/Record.lean). Feeding manner and spill threshold are invisible in the model because the content
  buffer is a plain byte string by C14 (`Props.C14.C14_refines`); the correspondence (kind `build`) re-runs every case with other
  feeding manners and thresholds on the implementation and compares. The oracle recomputes length and digests from the
  serialized bytes with Go's crypto packages.
-/
import Gowarc.Lemmas.StreamLemmas
import Gowarc.Props.C03
import Gowarc.Props.C18
namespace Gowarc.Props.C02
open Gowarc

section
variable (H : Alg → Bytes → Bytes)

/-- the digest the builder starts from when the caller declared none is the configured algorithm and encoding -/
theorem C02_default_digest (o : Opts) (hdr : Fields) (field : Bytes) (fnd : List Tag) (hno : hdr.has field = false) :
    digestFromField o field ⟨hdr, fnd⟩ =
      (match newDigest o.defaultAlg o.defaultEnc with
       | some d => (.ok d, ⟨hdr, fnd⟩)
       | none => (.error .digestAlg, ⟨hdr, fnd⟩)) := by
  unfold digestFromField
  simp only [bind, M.hdr, hno, Bool.false_eq_true, ↓reduceIte]
  cases newDigest o.defaultAlg o.defaultEnc <;> rfl

/-- what gets written into a missing digest field is `name:encode(H alg data)` for exactly the bytes given -/
theorem C02_added_digest (o : Opts) (field : Bytes) (tag : Tag) (d : Digest) (data : Bytes) (st : St)
    (hempty : d.hash = []) (hadd : o.addMissingDigest = true) :
    (checkDigest H o field tag d data st).2.hdr = st.hdr.set field (d.name ++ [COLON] ++ d.enc.encode (H d.alg data)) := by
  rw [C03.checkDigest_adds H o field tag d data st hempty hadd]; rfl

/-- HTTP blocks: the bytes fed to the block digest are head ++ payload = the content, the payload digest sees exactly the
    bytes after the protocol header (nothing lost, nothing counted twice at the split) -/
theorem C02_http_split (content : Bytes) :
    (headerBytes content).1 ++ (headerBytes content).2.1 = content := headerBytes_append content

/-- after `Set`, the header tells what was set (used for Content-Length and both digests) -/
theorem C02_set_get (h : Fields) (n v : Bytes) : (h.set n v).getAll n = [v] := C18.C18_set_one h n v

end
end Gowarc.Props.C02
