/-
  C13 for a record the marshaler segments (Model/Writer.lean `writeSeg`, fix 54adc48 in /repo): the continuation record is
  judged by the fit rule against the file INCLUDING the first segment.

  `write_size`: after a successful Write the tracked size is the reported offset plus the length of the member just
  written. `C13_seg_fit`: the continuation stays in the file of the first segment exactly when that size plus its declared
  (ratio-scaled) length fits the limit; otherwise it starts a fresh file, behind that file's warcinfo record if there is one.
-/
import Gowarc.Props.C13
namespace Gowarc.Props.C13
open Gowarc Gowarc.SW Gowarc.Props.C04

/-- after a successful Write: the file of the response is the current file, and the tracked size is the offset of the
    response plus the length of the member written -/
theorem write_size (c : WCfg) (scale : Int → Int) (s : SW) (r : WRec) (h : Inv s) (hok : (write c scale s r).2.err = false) :
    ∃ id stamp, (write c scale s r).2.file = some id ∧ (write c scale s r).1.cur = some id ∧
      (write c scale s r).1.curSize = (write c scale s r).2.off + (r.enc stamp).length := by
  rw [write_eq] at hok ⊢
  cases hfit : fitClose c scale s r.decl with
  | none => simp [hfit] at hok
  | some cl =>
    simp only [hfit] at hok ⊢
    obtain ⟨hr, id, hid⟩ := ready_inv c s cl r.infoBytes h
    simp only [hid]
    generalize ready c s cl r.infoBytes = s2 at *
    refine ⟨id, s2.infoOf, rfl, rfl, ?_⟩
    obtain ⟨hser, hpos, hsz⟩ := hr.cur id hid
    obtain ⟨n, hn⟩ : ∃ n, s2.serial = n + 1 := ⟨s2.serial - 1, by omega⟩
    have ho := hr.ord
    rw [hn] at ho
    obtain ⟨init, l, hfs, hl, hinit⟩ := ho.last
    have hfresh : ∀ f ∈ init, f.id ≠ l.id := by intro f hf; have := hinit.mem_le f hf; omega
    have hidl : id = l.id := by omega
    subst hidl
    show fileSize (modFile s2.files l.id _) l.id = s2.curSize + _
    rw [hsz, hfs, modFile_append_last _ _ _ hfresh, fileSize_append_last _ _ hfresh,
      fileSize_append_last _ _ (by intro f hf; exact hfresh f hf)]
    show (WFile.content _).length = _
    rw [size_append_member]
    simp [WFile.size]

/-- **the continuation of a segmented record is fitted against the file including the first segment** -/
theorem C13_seg_fit (c : WCfg) (scale : Int → Int) (s : SW) (r n : WRec) (k : Int) (h : Inv s)
    (hmax : c.max > 0) (hd : n.decl = .val k) (hok : (write c scale s r).2.err = false) (hne : ∀ st, r.enc st ≠ []) :
    ∃ id stamp, (write c scale s r).2.file = some id ∧
      (((write c scale (write c scale s r).1 n).2.file = some id) ↔
        (((write c scale s r).2.off + (r.enc stamp).length : Nat) : Int) + (if c.compress then scale k else k) ≤ c.max) ∧
      ((((write c scale s r).2.off + (r.enc stamp).length : Nat) : Int) + (if c.compress then scale k else k) > c.max →
        (write c scale (write c scale s r).1 n).2.file = some (id + 1) ∧
        (write c scale (write c scale s r).1 n).2.off = (n.infoBytes (id + 1)).length * (if c.info then 1 else 0)) := by
  obtain ⟨id, stamp, hf, hcur, hsz⟩ := write_size c scale s r h hok
  have hpos : (write c scale s r).1.curSize > 0 := by
    rw [hsz]
    have : (r.enc stamp).length > 0 := List.length_pos_iff.mpr (hne stamp)
    omega
  have := C13_fit c scale (write c scale s r).1 n k id (write_inv c scale s r h) hmax hd hcur hpos
  rw [hsz] at this
  exact ⟨id, stamp, hf, this.1, this.2⟩

end Gowarc.Props.C13
