/-
  C08, last sentence — "Axis by axis, with the other axes held fixed, an input rejected with an error under a more
  lenient setting is also rejected under every stricter one."

  Proved in the stronger, pointwise form: if every one of the four axes of setting L is at most as strict as the same
  axis of setting S (ignore ≤ warn ≤ fail), then whatever S accepts, L accepts — for Unmarshal on every stream (plain or
  gzip, any reader fault, any codec verdict) and for Build on every header and content, under every setting of the
  repair options. The four single-axis statements of the property are corollaries.

  The proof is a simulation over the validation monad (Lemmas/MonoPol.lean, RecordMono.lean): up to the block, the
  lenient run returns the SAME values and the same header as the strict one (`Mono`), which needs the header parser to
  return the same fields under a more lenient syntax policy (Lemmas/ParserMono.lean) and the warc-fields repair to
  produce the same block whichever policy accepted it (`wfDetect_agree` — this is what was false before the repair
  recorded as `fixed: property=C08` in known_findings.json); from ValidateDigest on, the headers may differ by repairs
  made under warn but not under ignore, and only acceptance is carried on (`Acc`).
-/
import Gowarc.Lemmas.RecordMono
namespace Gowarc.Props.C08
open Gowarc

section
variable (H : Alg → Bytes → Bytes)

/-- **monotone rejection, parser**: with `L ≤ S` axis by axis, an error under `L` is an error under `S` -/
theorem C08_monotone_unmarshal (o : Opts) (Ω : Oracles) (L S : Pols) (hle : Pols.le L S) (s : Stream)
    (h : (unmarshal H (o.withPol L) Ω s).err ≠ none) : (unmarshal H (o.withPol S) Ω s).err ≠ none :=
  fun hS => h (unmarshal_mono o Ω L S hle H s hS)

/-- **monotone rejection, builder** -/
theorem C08_monotone_build (o : Opts) (Ω : Oracles) (L S : Pols) (hle : Pols.le L S) (vt : Bytes) (vi rt0 : Nat) (hdr : Fields) (c id : Bytes)
    (h : (build H (o.withPol L) Ω vt vi rt0 hdr c id).err ≠ none) : (build H (o.withPol S) Ω vt vi rt0 hdr c id).err ≠ none :=
  fun hS => h (build_mono o Ω L S hle H vt vi rt0 hdr c id hS)

/-! #### axis by axis, the other axes held fixed at whatever `o` has -/

theorem C08_axis_syn_unmarshal (o : Opts) (Ω : Oracles) (p q : Pol) (hpq : p.le q = true) (s : Stream)
    (h : (unmarshal H { o with syn := p } Ω s).err ≠ none) : (unmarshal H { o with syn := q } Ω s).err ≠ none :=
  C08_monotone_unmarshal H o Ω ⟨p, o.spec, o.unk, o.blk⟩ ⟨q, o.spec, o.unk, o.blk⟩
    ⟨hpq, Pol.le_refl _, Pol.le_refl _, Pol.le_refl _⟩ s h

theorem C08_axis_spec_unmarshal (o : Opts) (Ω : Oracles) (p q : Pol) (hpq : p.le q = true) (s : Stream)
    (h : (unmarshal H { o with spec := p } Ω s).err ≠ none) : (unmarshal H { o with spec := q } Ω s).err ≠ none :=
  C08_monotone_unmarshal H o Ω ⟨o.syn, p, o.unk, o.blk⟩ ⟨o.syn, q, o.unk, o.blk⟩
    ⟨Pol.le_refl _, hpq, Pol.le_refl _, Pol.le_refl _⟩ s h

theorem C08_axis_unk_unmarshal (o : Opts) (Ω : Oracles) (p q : Pol) (hpq : p.le q = true) (s : Stream)
    (h : (unmarshal H { o with unk := p } Ω s).err ≠ none) : (unmarshal H { o with unk := q } Ω s).err ≠ none :=
  C08_monotone_unmarshal H o Ω ⟨o.syn, o.spec, p, o.blk⟩ ⟨o.syn, o.spec, q, o.blk⟩
    ⟨Pol.le_refl _, Pol.le_refl _, hpq, Pol.le_refl _⟩ s h

theorem C08_axis_blk_unmarshal (o : Opts) (Ω : Oracles) (p q : Pol) (hpq : p.le q = true) (s : Stream)
    (h : (unmarshal H { o with blk := p } Ω s).err ≠ none) : (unmarshal H { o with blk := q } Ω s).err ≠ none :=
  C08_monotone_unmarshal H o Ω ⟨o.syn, o.spec, o.unk, p⟩ ⟨o.syn, o.spec, o.unk, q⟩
    ⟨Pol.le_refl _, Pol.le_refl _, Pol.le_refl _, hpq⟩ s h

theorem C08_axis_syn_build (o : Opts) (Ω : Oracles) (p q : Pol) (hpq : p.le q = true) (vt : Bytes) (vi rt0 : Nat) (hdr : Fields) (c id : Bytes)
    (h : (build H { o with syn := p } Ω vt vi rt0 hdr c id).err ≠ none) : (build H { o with syn := q } Ω vt vi rt0 hdr c id).err ≠ none :=
  C08_monotone_build H o Ω ⟨p, o.spec, o.unk, o.blk⟩ ⟨q, o.spec, o.unk, o.blk⟩
    ⟨hpq, Pol.le_refl _, Pol.le_refl _, Pol.le_refl _⟩ vt vi rt0 hdr c id h

theorem C08_axis_spec_build (o : Opts) (Ω : Oracles) (p q : Pol) (hpq : p.le q = true) (vt : Bytes) (vi rt0 : Nat) (hdr : Fields) (c id : Bytes)
    (h : (build H { o with spec := p } Ω vt vi rt0 hdr c id).err ≠ none) : (build H { o with spec := q } Ω vt vi rt0 hdr c id).err ≠ none :=
  C08_monotone_build H o Ω ⟨o.syn, p, o.unk, o.blk⟩ ⟨o.syn, q, o.unk, o.blk⟩
    ⟨Pol.le_refl _, hpq, Pol.le_refl _, Pol.le_refl _⟩ vt vi rt0 hdr c id h

theorem C08_axis_unk_build (o : Opts) (Ω : Oracles) (p q : Pol) (hpq : p.le q = true) (vt : Bytes) (vi rt0 : Nat) (hdr : Fields) (c id : Bytes)
    (h : (build H { o with unk := p } Ω vt vi rt0 hdr c id).err ≠ none) : (build H { o with unk := q } Ω vt vi rt0 hdr c id).err ≠ none :=
  C08_monotone_build H o Ω ⟨o.syn, o.spec, p, o.blk⟩ ⟨o.syn, o.spec, q, o.blk⟩
    ⟨Pol.le_refl _, Pol.le_refl _, hpq, Pol.le_refl _⟩ vt vi rt0 hdr c id h

theorem C08_axis_blk_build (o : Opts) (Ω : Oracles) (p q : Pol) (hpq : p.le q = true) (vt : Bytes) (vi rt0 : Nat) (hdr : Fields) (c id : Bytes)
    (h : (build H { o with blk := p } Ω vt vi rt0 hdr c id).err ≠ none) : (build H { o with blk := q } Ω vt vi rt0 hdr c id).err ≠ none :=
  C08_monotone_build H o Ω ⟨o.syn, o.spec, o.unk, p⟩ ⟨o.syn, o.spec, o.unk, q⟩
    ⟨Pol.le_refl _, Pol.le_refl _, Pol.le_refl _, hpq⟩ vt vi rt0 hdr c id h

end

/-- the header parser alone along the syntax axis: what a stricter policy accepts, a more lenient one accepts with the
    same fields and the same remaining stream -/
theorem C08_parser_monotone (p q : Pol) (hpq : p.le q = true) (s : Stream) (fs : Fields) (f : List Tag) (s' : Stream)
    (h : parseFields q s = .ok fs f s') : ∃ f', parseFields p s = .ok fs f' s' :=
  (parseFields_le p q hpq s fs f s' h).imp (fun _ h => h.1)

/-- the order is the intended one and the premises are satisfiable: ignore ≤ warn ≤ fail, strictly -/
example : Pol.le .ignore .warn = true ∧ Pol.le .warn .fail = true ∧ Pol.le .fail .warn = false ∧ Pol.le .warn .ignore = false := by decide

/-- the hypothesis "rejected under the lenient setting" is met by real inputs: an empty stream is rejected under every setting -/
example (H : Alg → Bytes → Bytes) (o : Opts) (Ω : Oracles) : (unmarshal H o Ω ⟨[], false⟩).err ≠ none := by
  simp [unmarshal, skipJunk]

end Gowarc.Props.C08
