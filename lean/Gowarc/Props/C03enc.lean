/-
  C03, all three encodings: decoding inverts encoding for every byte string (base16 in C03.lean, base32 and base64
  here), so what `format` writes is accepted by `validate` and a different hash is rejected, whatever the encoding.
-/
import Gowarc.Props.C03
import Gowarc.Lemmas.Base32
namespace Gowarc.Props.C03
open Gowarc

/-- **base32**: DecodeString (EncodeToString b) = b, every b -/
theorem C03_b32_roundtrip (b : Bytes) : b32Dec (b32Enc b) = some b := b32_roundtrip b

/-- **base64**: DecodeString (EncodeToString b) = b, every b -/
theorem C03_b64_roundtrip (b : Bytes) : b64Dec (b64Enc b) = some b := b64_roundtrip b

/-- every encoding digest.go knows -/
theorem C03_encode_decode (e : Enc) (b : Bytes) : e.decode (e.encode b) = some b := by
  cases e with
  | unknown => rfl
  | b16 => exact hex_roundtrip b
  | b32 => exact b32_roundtrip b
  | b64 => exact b64_roundtrip b

section
variable (H : Alg → Bytes → Bytes)

/-- **completeness**: the value `format` produces is accepted by `validate`, in every encoding -/
theorem C03_format_valid (alg : Alg) (name : Bytes) (e : Enc) (data : Bytes) :
    (⟨alg, name, e.encode (H alg data), e⟩ : Digest).valid H data = true := by
  rw [validate_iff]; exact C03_encode_decode e _

/-- **soundness**: the well-formed encoding of any other hash value is rejected, in every encoding -/
theorem C03_wrong_digest_rejected (alg : Alg) (name : Bytes) (e : Enc) (data other : Bytes) (hne : H alg other ≠ H alg data) :
    (⟨alg, name, e.encode (H alg other), e⟩ : Digest).valid H data = false := by
  unfold Digest.valid
  rw [C03_encode_decode]
  simp [hne]

end

/-- non-vacuity: lengths 0..6 exercise every padding form of both encodings -/
example : b32Enc (bs "fooba") = bs "MZXW6YTB" ∧ b32Enc (bs "foob") = bs "MZXW6YQ=" ∧ b32Enc (bs "f") = bs "MY======"
    ∧ b64Enc (bs "fo") = bs "Zm8=" ∧ b64Enc (bs "f") = bs "Zg==" ∧ b64Dec (bs "Zm9v\nYmFy") = some (bs "foobar") := by decide

end Gowarc.Props.C03
