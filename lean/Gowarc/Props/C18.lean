/-
  C18 — WarcFields is an ordered, case-insensitive multimap.

  Property theorems only. The model (`Gowarc.Fields.*`, `canon`) transcribes warcfields.go / normalizeName;
  it is tied to /repo by the correspondence harness (kind `fields`, `canon`) and by the regenerated field
  table `Gen.fieldDefs`. The specification is `Gowarc.Spec.MM`.
-/
import Gowarc.Lemmas.FieldsLemmas
import Gowarc.Lemmas.CanonLemmas
namespace Gowarc.Props.C18
open Gowarc Gowarc.Fields

/-- Names are canonicalised on every access, and canonicalisation is idempotent: a name that went through `canon`
    once is a key that later lookups find unchanged. -/
theorem canon_idem (n : Bytes) : canon (canon n) = canon n := Gowarc.canon_idem n

/-- Regenerated obligation: the names of the extracted field table are pairwise distinct case-insensitively,
    so the Go map `lcHdrNameToDef` built from it has exactly one entry per row (first = last). -/
theorem C18_gen_names_nodup : (Gen.fieldDefs.map (fun d => lowerAscii (bs d.name))).Nodup := by decide

/-- Regenerated obligation: every table name is its own canonical form. -/
theorem C18_gen_names_canonical : Gen.fieldDefs.all (fun d => canon (bs d.name) == bs d.name) = true :=
  Gowarc.canon_table_fixed

/-- `Set` as coded (closure over `isSet` inside `slices.DeleteFunc`, then append if nothing was set)
    equals the reference multimap's `set` under the canonical key. -/
theorem C18_set_spec (fs : Fields) (n v : Bytes) : fs.set n v = Spec.MM.set fs (canon n) v := by
  unfold Fields.set; exact set_eq_spec_aux (canon n) v fs

/-- `Set` leaves exactly one value for the key … -/
theorem C18_set_one (fs : Fields) (n v : Bytes) : (fs.set n v).getAll n = [v] := by
  rw [C18_set_spec]
  unfold Fields.getAll
  generalize canon n = k
  induction fs with
  | nil => simp [Spec.MM.set]
  | cons h t ih =>
    obtain ⟨a, b⟩ := h
    by_cases hk : a = k
    · subst hk
      simp only [Spec.MM.set, ↓reduceIte, List.filter_cons, beq_self_eq_true, List.map_cons, List.cons.injEq, true_and]
      rw [List.filter_filter]; simp
    · simp [Spec.MM.set, hk, ih]

/-- … at the position of the first occurrence (everything before it is untouched) … -/
theorem C18_set_position (fs : Fields) (n v : Bytes) :
    (fs.set n v).takeWhile (fun p => p.1 != canon n) = fs.takeWhile (fun p => p.1 != canon n) := by
  rw [C18_set_spec]
  generalize canon n = k
  induction fs with
  | nil => simp [Spec.MM.set]
  | cons h t ih =>
    obtain ⟨a, b⟩ := h
    by_cases hk : a = k
    · subst hk; simp [Spec.MM.set]
    · simp [Spec.MM.set, hk, ih]

/-- … and keeps all other fields, in order. -/
theorem C18_set_others (fs : Fields) (n v : Bytes) :
    (fs.set n v).filter (fun p => p.1 != canon n) = fs.filter (fun p => p.1 != canon n) := by
  rw [C18_set_spec]
  generalize canon n = k
  induction fs with
  | nil => simp [Spec.MM.set]
  | cons h t ih =>
    obtain ⟨a, b⟩ := h
    by_cases hk : a = k
    · subst hk
      simp only [Spec.MM.set, ↓reduceIte, List.filter_cons, bne_self_eq_false, Bool.false_eq_true]
      rw [List.filter_filter]; congr 1; funext p; simp
    · simp [Spec.MM.set, hk, ih]

/-- `Delete` removes all occurrences and nothing else. -/
theorem C18_delete (fs : Fields) (n : Bytes) :
    (fs.delete n).has n = false ∧ fs.delete n = Spec.MM.delete fs (canon n) := by
  constructor
  · simp [Fields.delete, Fields.has]
  · unfold Fields.delete Spec.MM.delete; congr 1; funext p; cases h : decide (p.1 = canon n) <;> simp_all

/-- `Add` appends (insertion order is kept). -/
theorem C18_add (fs : Fields) (n v : Bytes) : fs.add n v = Spec.MM.add fs (canon n) v := rfl

/-- `Sort` is a stable sort by name: the result is ordered by name, is a permutation of the input, and the
    values of each name keep their relative order. -/
theorem C18_sort_stable (fs : Fields) :
    SortedByName fs.sort ∧ fs.sort.Perm fs ∧ ∀ k, fs.sort.filter (fun p => p.1 = k) = fs.filter (fun p => p.1 = k) :=
  ⟨sorted_sort fs, perm_sort fs, sort_stable fs⟩

/-- The order used by `Sort` is Go's string order: irreflexive, transitive, total. -/
theorem C18_order : (∀ a, bytesLt a a = false) ∧ (∀ a b c, bytesLt a b = true → bytesLt b c = true → bytesLt a c = true)
    ∧ (∀ a b, bytesLt a b = false → bytesLt b a = false → a = b) :=
  ⟨bytesLt_irrefl, fun _ _ _ => bytesLt_trans, fun _ _ => bytesLt_total⟩

/-- Serialisation lists the pairs as `Name: value CRLF`, in order. -/
theorem C18_write (fs : Fields) : fs.write = Spec.MM.write fs := rfl

theorem C18_write_cons (n v : Bytes) (fs : Fields) :
    Fields.write ((n, v) :: fs) = n ++ [COLON, SP] ++ v ++ crlf ++ Fields.write fs := by
  simp [Fields.write]

/-- lookups agree with the reference -/
theorem C18_getAll (fs : Fields) (n : Bytes) : fs.getAll n = Spec.MM.getAll fs (canon n) := by
  unfold Fields.getAll Spec.MM.getAll; congr 2; funext p; cases h : decide (p.1 = canon n) <;> simp_all

theorem C18_has (fs : Fields) (n : Bytes) : fs.has n = Spec.MM.has fs (canon n) := by
  unfold Fields.has Spec.MM.has Spec.MM.getAll
  induction fs with
  | nil => simp
  | cons h t ih =>
    by_cases hk : h.1 = canon n
    · simp [hk]
    · have hk' : (h.1 == canon n) = false := by simp [hk]
      rw [List.any_cons, hk', Bool.false_or, ih, List.filter_cons]
      simp [hk]

theorem C18_get (fs : Fields) (n : Bytes) : fs.get n = Spec.MM.get fs (canon n) := by
  unfold Fields.get Spec.MM.get Spec.MM.getAll
  induction fs with
  | nil => simp
  | cons h t ih =>
    by_cases hk : h.1 = canon n
    · simp [hk]
    · have hk' : (h.1 == canon n) = false := by simp [hk]
      rw [List.find?_cons, hk', List.filter_cons]
      simp only [hk, decide_false, Bool.false_eq_true, ↓reduceIte]
      exact ih

/-! ### Refinement over arbitrary operation sequences -/

/-- the reference machine: same operations, keys already canonical, on `Spec.MM` -/
def specStep (m : Spec.MM) : FOp → Spec.MM × FOut
  | .add n v => (Spec.MM.add m (canon n) v, .unit)
  | .addInt n i => (Spec.MM.add m (canon n) (intToDec i), .unit)
  | .addId n v => (match idValue v with | none => m | some w => Spec.MM.add m (canon n) w, .unit)
  | .set n v => (Spec.MM.set m (canon n) v, .unit)
  | .setInt n i => (Spec.MM.set m (canon n) (intToDec i), .unit)
  | .setId n v => (match idValue v with | none => m | some w => Spec.MM.set m (canon n) w, .unit)
  | .del n => (Spec.MM.delete m (canon n), .unit)
  | .sort => (Fields.sort m, .unit)
  | .get n => (m, .bytes (Spec.MM.get m (canon n)))
  | .getAll n => (m, .list (Spec.MM.getAll m (canon n)))
  | .getId n => (m, .bytes (trim (fun b => b == 60 || b == 62) (Spec.MM.get m (canon n))))
  | .has n => (m, .bool (Spec.MM.has m (canon n)))
  | .getInt n => (m, .int (if Spec.MM.has m (canon n) then some (parseInt10 (Spec.MM.get m (canon n))) else none))
  | .write => (m, .bytes (Spec.MM.write m))

def specRun : Spec.MM → List FOp → List (FOut × Bytes)
  | _, [] => []
  | m, op :: rest => ((specStep m op).2, Spec.MM.write (specStep m op).1) :: specRun (specStep m op).1 rest

theorem step_refines (fs : Fields) (op : FOp) : fs.step op = specStep fs op := by
  cases op <;> simp only [Fields.step, specStep, C18_set_spec, C18_add, C18_getAll, C18_has, C18_get, C18_write,
    Fields.getId, Fields.addId, Fields.setId, (C18_delete _ _).2]
  all_goals first | rfl | (split <;> simp [C18_set_spec, C18_add])

/-- **C18** — for every sequence of operations, with names in any letter case, every returned value and every
    intermediate serialisation of WarcFields equals that of the reference ordered multimap keyed by canonical
    name. (The model has no partial step: no call can panic.) -/
theorem C18_refines (ops : List FOp) (fs : Fields) : Fields.run fs ops = specRun fs ops := by
  induction ops generalizing fs with
  | nil => rfl
  | cons op rest ih => simp only [Fields.run, specRun, step_refines, ih, C18_write]

/-- non-vacuity: three case-colliding occurrences followed by another field, then `Set` -/
example : Fields.run [] [.add (bs "x-foo") (bs "1"), .add (bs "X-FOO") (bs "2"), .add (bs "X-Foo") (bs "3"),
    .add (bs "b") (bs "4"), .set (bs "x-Foo") (bs "5"), .getAll (bs "X-foo")]
    |>.getLast? |> (· = some (.list [bs "5"], bs "X-Foo: 5\r\nB: 4\r\n")) := by decide

end Gowarc.Props.C18
