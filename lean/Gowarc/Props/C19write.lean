/-
  C19 / C01, the writer side of "serialize": `WarcFields.Write` and the marshaler either report an error or have delivered
  exactly the serialization, with the right count — against a writer that fails once at ANY position and accepts
  everything afterwards. (Seed C19-h: a buffered writer whose deferred Flush drops the error returns success with a hole in
  the header; the payload lines are then read back as header fields.)
-/
import Gowarc.Model.WriteTo
namespace Gowarc.Props.C19
open Gowarc

theorem write_ok (w : FW) (p : Bytes) (hi : w.Inv) (h : (w.write p).2.2 = false) :
    (w.write p).1.got = w.got ++ p ∧ (w.write p).2.1 = p.length ∧ (w.write p).1.Inv := by
  unfold FW.write at h ⊢
  split
  · rename_i hc; simp [hc] at h
  · rename_i hc
    refine ⟨rfl, rfl, ?_⟩
    unfold FW.Inv at hi ⊢
    simp only [Bool.and_eq_true, Bool.not_eq_true', decide_eq_true_eq, not_and, Nat.not_lt] at hc
    rcases hi with e | e
    · exact Or.inl e
    · by_cases hf : w.failed = true
      · exact Or.inl hf
      · right
        have := hc (by simpa using hf)
        simp only [List.length_append]
        exact this

theorem write_err (w : FW) (p : Bytes) (hi : w.Inv) (h : (w.write p).2.2 = true) :
    (w.write p).1.got = w.got ++ p.take (w.write p).2.1 ∧ (w.write p).2.1 < p.length := by
  unfold FW.write at h ⊢
  split
  · rename_i hc
    simp only [Bool.and_eq_true, Bool.not_eq_true', decide_eq_true_eq] at hc
    have hle : w.got.length ≤ w.budget := by
      rcases hi with e | e
      · rw [hc.1] at e; cases e
      · exact e
    refine ⟨by simp, ?_⟩
    simp only [List.length_take]
    omega
  · rename_i hc; simp [hc] at h

/-- no error ⇒ every piece reached the writer, in order, and the count is their total length -/
theorem writePieces_ok (ps : List Bytes) (w : FW) (hi : w.Inv) (h : (writePieces ps w).2.2 = false) :
    (writePieces ps w).1.got = w.got ++ ps.flatten ∧ (writePieces ps w).2.1 = ps.flatten.length := by
  induction ps generalizing w with
  | nil => simp [writePieces]
  | cons p rest ih =>
    unfold writePieces at h ⊢
    by_cases he : (w.write p).2.2 = true
    · simp [he] at h
    · have he' : (w.write p).2.2 = false := by simpa using he
      simp only [he', Bool.false_eq_true, ↓reduceIte] at h ⊢
      obtain ⟨g1, n1, i1⟩ := write_ok w p hi he'
      obtain ⟨g2, n2⟩ := ih (w.write p).1 i1 h
      refine ⟨by rw [g2, g1]; simp, by rw [n2, n1]; simp⟩

theorem take_append_len (p q : Bytes) (k : Nat) : (p ++ q).take (p.length + k) = p ++ q.take k := by
  induction p with
  | nil => simp
  | cons x xs ih =>
    have : (x :: xs).length + k = (xs.length + k) + 1 := by simp; omega
    rw [this, List.cons_append, List.take_succ_cons, ih, List.cons_append]

/-- an error ⇒ what reached the writer is a strict prefix of the output, and the count is the length of that prefix:
    the caller is told exactly how much was written -/
theorem writePieces_err (ps : List Bytes) (w : FW) (hi : w.Inv) (h : (writePieces ps w).2.2 = true) :
    (writePieces ps w).1.got = w.got ++ ps.flatten.take (writePieces ps w).2.1 ∧ (writePieces ps w).2.1 < ps.flatten.length := by
  induction ps generalizing w with
  | nil => simp [writePieces] at h
  | cons p rest ih =>
    unfold writePieces at h ⊢
    by_cases he : (w.write p).2.2 = true
    · simp only [he, ↓reduceIte]
      obtain ⟨g, n⟩ := write_err w p hi he
      refine ⟨?_, by simp only [List.flatten_cons, List.length_append]; omega⟩
      rw [g]
      congr 1
      simp only [List.flatten_cons]
      rw [List.take_append_of_le_length (by omega)]
    · have he' : (w.write p).2.2 = false := by simpa using he
      simp only [he', Bool.false_eq_true, ↓reduceIte] at h ⊢
      obtain ⟨g1, n1, i1⟩ := write_ok w p hi he'
      obtain ⟨g2, n2⟩ := ih (w.write p).1 i1 h
      generalize (writePieces rest (w.write p).1).2.1 = k at g2 n2 ⊢
      generalize (writePieces rest (w.write p).1).1.got = gg at g2 ⊢
      rw [n1]
      refine ⟨?_, by simp only [List.flatten_cons, List.length_append]; omega⟩
      rw [g2, g1, List.flatten_cons, take_append_len, List.append_assoc]

theorem pieces_flatten (fs : Fields) : fs.pieces.flatten = fs.write := rfl

/-- **WarcFields.Write reports an error or has delivered the whole serialization**, for every field list, every writer
    state and every position of the fault -/
theorem C19_write_all_or_error (fs : Fields) (w : FW) (hi : w.Inv) :
    ((fs.writeTo w).2.2 = false → (fs.writeTo w).1.got = w.got ++ fs.write ∧ (fs.writeTo w).2.1 = fs.write.length) ∧
    ((fs.writeTo w).2.2 = true → (fs.writeTo w).1.got = w.got ++ fs.write.take (fs.writeTo w).2.1 ∧ (fs.writeTo w).2.1 < fs.write.length) := by
  unfold Fields.writeTo
  rw [← pieces_flatten]
  exact ⟨writePieces_ok _ w hi, writePieces_err _ w hi⟩

theorem marshalPieces_flatten (v : Bytes) (hdr : Fields) (blk : Bytes) : (marshalPieces v hdr blk).flatten = marshal v hdr blk := by
  unfold marshalPieces marshal
  simp [pieces_flatten, List.append_assoc]

/-- **the marshaler reports an error or has delivered the whole record** (C01: what is read back is what `marshal`
    describes — provided Marshal said it succeeded) -/
theorem C01_marshal_all_or_error (v : Bytes) (hdr : Fields) (blk : Bytes) (w : FW) (hi : w.Inv) :
    ((marshalTo v hdr blk w).2.2 = false → (marshalTo v hdr blk w).1.got = w.got ++ marshal v hdr blk ∧ (marshalTo v hdr blk w).2.1 = (marshal v hdr blk).length) ∧
    ((marshalTo v hdr blk w).2.2 = true → (marshalTo v hdr blk w).1.got = w.got ++ (marshal v hdr blk).take (marshalTo v hdr blk w).2.1 ∧ (marshalTo v hdr blk w).2.1 < (marshal v hdr blk).length) := by
  unfold marshalTo
  rw [← marshalPieces_flatten]
  exact ⟨writePieces_ok _ w hi, writePieces_err _ w hi⟩

/-- the fault does strike: a fresh writer with a budget below the output length makes the serializer return an error -/
theorem writePieces_fails (ps : List Bytes) (w : FW) (hf : w.failed = false) (hle : w.got.length ≤ w.budget)
    (hb : w.budget < w.got.length + ps.flatten.length) : (writePieces ps w).2.2 = true := by
  induction ps generalizing w with
  | nil => simp at hb; omega
  | cons p rest ih =>
    unfold writePieces
    by_cases he : (w.write p).2.2 = true
    · simp [he]
    · have he' : (w.write p).2.2 = false := by simpa using he
      simp only [he', Bool.false_eq_true, ↓reduceIte]
      have hw : (w.write p).1 = { w with got := w.got ++ p } ∧ w.got.length + p.length ≤ w.budget := by
        unfold FW.write at he' ⊢
        split
        · rename_i hc; simp [hc] at he'
        · rename_i hc
          simp only [hf, Bool.not_false, Bool.true_and, decide_eq_true_eq, Nat.not_lt] at hc
          exact ⟨rfl, hc⟩
      rw [hw.1]
      apply ih
      · exact hf
      · simp only [List.length_append]; exact hw.2
      · simp only [List.flatten_cons, List.length_append] at hb ⊢
        omega

example : FW.Inv ⟨[], 7, false⟩ := Or.inr (by decide)
example : (Fields.writeTo [(bs "A", bs "b"), (bs "C", bs "d")] ⟨[], 7, false⟩).2 = (7, true) := by decide
example : (Fields.writeTo [(bs "A", bs "b"), (bs "C", bs "d")] ⟨[], 100, false⟩).2 = (12, false) := by decide

end Gowarc.Props.C19
