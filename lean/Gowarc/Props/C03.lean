/-
  C03 — Length and digest verification is sound and complete.

  Model: Model/Digest.lean (encodings, detectEncoding, newDigest, validate, format), Model/Record.lean (validateDigest,
  checkDigest, trailer check in unmarshal). The hash is an arbitrary `H : Alg → Bytes → Bytes`.
  Tie: correspondence kinds `digest`, `enc`, `dec`, `hash` (function level, full algorithm × encoding × case × hyphen grid and
  every one-character corruption) and `unmarshal` / `build` with generator-known truth about the declared values.
-/
import Gowarc.Lemmas.StreamLemmas
import Gowarc.Lemmas.MonadLemmas
namespace Gowarc.Props.C03
open Gowarc

/-! ### base16 -/

theorem hexNib_hexChar : ∀ n : UInt8, n < 16 → hexNib (hexChar n) = some n := by decide
theorem hi_lt : ∀ x : UInt8, x >>> 4 < 16 := by decide
theorem lo_lt : ∀ x : UInt8, x &&& 15 < 16 := by decide
theorem nib_join : ∀ x : UInt8, (x >>> 4) <<< 4 ||| (x &&& 15) = x := by decide

/-- base16 decoding inverts encoding, for every byte string -/
theorem hex_roundtrip (b : Bytes) : hexDec (hexEnc b) = some b := by
  induction b with
  | nil => rfl
  | cons x rest ih =>
    have : hexEnc (x :: rest) = hexChar (x >>> 4) :: hexChar (x &&& 15) :: hexEnc rest := by
      simp [hexEnc]
    rw [this, hexDec, hexNib_hexChar _ (hi_lt x), hexNib_hexChar _ (lo_lt x)]
    have ih' : hexDec (hexEnc rest) = some rest := ih
    simp only [ih', nib_join]

theorem hex_length (b : Bytes) : (hexEnc b).length = 2 * b.length := by
  induction b with
  | nil => rfl
  | cons x rest ih =>
    have : hexEnc (x :: rest) = hexChar (x >>> 4) :: hexChar (x &&& 15) :: hexEnc rest := by simp [hexEnc]
    rw [this]; simp [ih]; omega

/-- encoded base16 is lower case already: the lower-casing done by newDigest does not change it -/
theorem hexChar_lower : ∀ n : UInt8, n < 16 → toLowerB (hexChar n) = hexChar n := by decide

/-- a declared base16 value in ANY letter case normalises to the canonical encoding -/
theorem hexNib_case : ∀ c : UInt8, hexNib (toLowerB c) = hexNib c := by decide

theorem hexDec_lower : ∀ s : Bytes, hexDec (lowerAscii s) = hexDec s
  | [] => rfl
  | [x] => by simp [lowerAscii, hexDec]
  | a :: b :: rest => by
    have ih := hexDec_lower rest
    simp only [lowerAscii, List.map_cons] at ih ⊢
    rw [hexDec, hexDec, hexNib_case, hexNib_case, ih]

/-! ### validate / format (any hash function) -/

section
variable (H : Alg → Bytes → Bytes)

/-- soundness and completeness of `validate` in one line: a declared value is accepted exactly when it decodes,
    in the encoding inferred for it, to the hash of the bytes -/
theorem validate_iff (d : Digest) (data : Bytes) :
    d.valid H data = true ↔ d.enc.decode d.hash = some (H d.alg data) := by
  unfold Digest.valid; simp

/-- what `format` writes is always accepted by `validate` for base16 (the builder's own value is truthful) -/
theorem format_valid_b16 (alg : Alg) (name : Bytes) (data : Bytes) :
    (⟨alg, name, lowerAscii (hexEnc (H alg data)), .b16⟩ : Digest).valid H data = true := by
  rw [validate_iff]; simp only [Enc.decode]; rw [hexDec_lower, hex_roundtrip]

/-- a different hash is never accepted (base16): soundness, given that the hash function separates the two inputs -/
theorem wrong_digest_rejected_b16 (alg : Alg) (name : Bytes) (data other : Bytes) (hne : H alg other ≠ H alg data) :
    (⟨alg, name, hexEnc (H alg other), .b16⟩ : Digest).valid H data = false := by
  unfold Digest.valid
  simp only [Enc.decode, hex_roundtrip]
  simp [hne]

/-- checkDigest: a missing declared value is added (when asked to), and then it is the formatted true digest -/
theorem checkDigest_adds (o : Opts) (field : Bytes) (tag : Tag) (d : Digest) (data : Bytes) (st : St)
    (hempty : d.hash = []) (hadd : o.addMissingDigest = true) :
    checkDigest H o field tag d data st = (.ok (), { st with hdr := st.hdr.set field (d.format H data) }) := by
  simp [checkDigest, hempty, hadd]

/-- checkDigest: a correct declared value is never reported and never rewritten, under any policy and any repair setting -/
theorem checkDigest_complete (o : Opts) (field : Bytes) (tag : Tag) (d : Digest) (data : Bytes) (st : St)
    (hne : d.hash ≠ []) (hok : d.valid H data = true) :
    checkDigest H o field tag d data st = (.ok (), st) := by
  have : d.hash.isEmpty = false := by cases h : d.hash <;> simp_all
  simp [checkDigest, this, hok]

/-- checkDigest: a wrong declared value is ALWAYS reported when spec checking is on: a finding under warn, and with the
    repair option the header afterwards carries the true digest … -/
theorem checkDigest_sound_warn (o : Opts) (field : Bytes) (tag : Tag) (d : Digest) (data : Bytes) (st : St)
    (hne : d.hash ≠ []) (hbad : d.valid H data = false) (hw : o.spec = .warn) :
    checkDigest H o field tag d data st =
      (.ok (), ⟨if o.fixDigest then st.hdr.set field (d.format H data) else st.hdr, st.fnd ++ [tag]⟩) := by
  have : d.hash.isEmpty = false := by cases h : d.hash <;> simp_all
  have hne' : (Pol.warn != Pol.ignore) = true := by decide
  cases hf : o.fixDigest <;> simp [checkDigest, this, hbad, hw, hf, hne']

/-- … and the error under fail -/
theorem checkDigest_sound_fail (o : Opts) (field : Bytes) (tag : Tag) (d : Digest) (data : Bytes) (st : St)
    (hne : d.hash ≠ []) (hbad : d.valid H data = false) (hf : o.spec = .fail) :
    checkDigest H o field tag d data st = (.error tag, st) := by
  have : d.hash.isEmpty = false := by cases h : d.hash <;> simp_all
  have hne' : (Pol.fail != Pol.ignore) = true := by decide
  simp [checkDigest, this, hbad, hf, hne']

/-- the length check: a Content-Length that differs from the number of block bytes is always reported when spec checking
    is on, a correct one never -/
theorem lengthBad_iff (o : Opts) (h : Fields) (b : Block) (hs : o.spec ≠ .ignore) (hcl : h.has (bs "Content-Length") = true) :
    lengthBad o h b = true ↔ h.get (bs "Content-Length") ≠ natToDec b.raw.length := by
  unfold lengthBad
  have : (o.spec != Pol.ignore) = true := by cases hsp : o.spec <;> simp_all
  rw [this, hcl]
  simp only [Bool.and_self, Bool.true_and, bne_iff_ne, ne_eq]
  exact ⟨fun h e => h e.symm, fun h e => h e.symm⟩

end

/-- non-vacuity: a concrete encode/decode instance, upper-case spelling included -/
example : hexDec (upperAscii (hexEnc [0xAB, 0x01, 0xFF])) = some [0xAB, 0x01, 0xFF] := by decide

end Gowarc.Props.C03
