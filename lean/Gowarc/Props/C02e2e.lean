/-
  C02, end to end — what ValidateDigest leaves in the header.

  For every block and every header that has a Content-Length field, when the spec policy is warn or fail and the repair
  options are on (the defaults: fix Content-Length, fix digests, add missing digests): if ValidateDigest returns without
  an error, the header's Content-Length is the decimal rendering of the true block length and the WARC-Block-Digest field
  is truthful — it is the rendering of the digest of the block's bytes, or it is the declared value and that value
  decodes to the digest of the block's bytes. The builder (`build`) ends with ValidateDigest and returns the header as it
  stands afterwards; the parser does the same.
-/
import Gowarc.Props.C20
import Gowarc.Lemmas.KeepHdr
namespace Gowarc.Props.C02
open Gowarc Gowarc.Props.C20

section
variable (H : Alg → Bytes → Bytes)

/-- what checkDigest leaves for its own field, and that it leaves every other field alone -/
theorem checkDigest_post (o : Opts) (field : Bytes) (tag : Tag) (d : Digest) (data : Bytes) (st st' : St)
    (hspec : o.spec ≠ .ignore) (hfix : o.fixDigest = true) (hadd : o.addMissingDigest = true)
    (h : checkDigest H o field tag d data st = (.ok (), st')) :
    (st'.hdr.get field = d.format H data ∨ (st'.hdr.get field = st.hdr.get field ∧ d.valid H data = true)) ∧
    (∀ k, canon k ≠ canon field → st'.hdr.get k = st.hdr.get k) := by
  unfold checkDigest at h
  simp only [M.bind_def, M.hdr_def] at h
  by_cases he : d.hash.isEmpty = true
  · simp only [he, ↓reduceIte, hadd, M.setHdr_def, Prod.mk.injEq, Except.ok.injEq, true_and] at h
    subst h
    exact ⟨Or.inl (get_set_same _ _ _), fun k hk => get_set_other _ _ _ _ hk⟩
  · simp only [he, Bool.false_eq_true, ↓reduceIte, M.bind_def, M.hdr_def, M.setHdr_def] at h
    have hs : (o.spec != .ignore) = true := by simp [hspec]
    by_cases hv : d.valid H data = true
    · simp only [hs, hv, Bool.not_true, Bool.and_false, condSite_false, Bool.false_and, Bool.false_eq_true, ↓reduceIte,
        Prod.mk.injEq, Except.ok.injEq, true_and] at h
      subst h
      exact ⟨Or.inr ⟨rfl, hv⟩, fun _ _ => rfl⟩
    · have hv' : d.valid H data = false := by simpa using hv
      simp only [hs, hv', Bool.not_false, Bool.and_true, condSite_true, hfix] at h
      -- under fail the site returns the error; under warn it records the finding and the field is repaired
      cases hp : o.spec with
      | ignore => exact absurd hp hspec
      | fail => rw [hp] at h; simp at h
      | warn =>
        rw [hp] at h
        simp only [site_warn, Prod.mk.injEq, Except.ok.injEq, true_and] at h
        subst h
        exact ⟨Or.inl (get_set_same _ _ _), fun k hk => get_set_other _ _ _ _ hk⟩

/-- **after ValidateDigest the header tells the truth about length and block digest** -/
theorem C02_validate_truthful (o : Opts) (rt : Nat) (b : Block) (fault : Bool) (st st' : St)
    (hspec : o.spec ≠ .ignore) (hfixcl : o.fixContentLength = true) (hfix : o.fixDigest = true) (hadd : o.addMissingDigest = true)
    (hcl : st.hdr.has (bs "Content-Length") = true)
    (h : validateDigest H o rt b fault st = (.ok (), st')) :
    st'.hdr.get (bs "Content-Length") = natToDec b.raw.length ∧
    (st'.hdr.get (bs "WARC-Block-Digest") = b.blockDigest.format H b.raw ∨ b.blockDigest.valid H b.raw = true) := by
  unfold validateDigest at h
  simp only [M.bind_def, M.hdr_def, M.setHdr_def] at h
  -- step 1: the cache step did not fail
  cases h1 : condFail (fault && (b.kind == .generic || b.kind == .httpReq || b.kind == .httpResp)) .reader st with
  | mk r1 s1 =>
    rw [h1] at h
    cases r1 with
    | error e => simp at h
    | ok u1 =>
      have e1 : s1 = st := by
        unfold condFail at h1
        split at h1
        · simp at h1
        · simp only [M.pure_def, Prod.mk.injEq] at h1; exact h1.2.symm
      subst e1
      simp only at h
      -- step 2: the length check
      cases h3 : condSite (lengthBad o s1.hdr b) o.spec .length s1 with
      | mk r3 s3 =>
        rw [h3] at h
        cases r3 with
        | error e => simp at h
        | ok u3 =>
          simp only at h
          have k3 : s3.hdr = s1.hdr := keep_of_eq (KeepHdr.condSite _ _ _) h3
          -- the header after the length repair
          have hlen5 : (if (lengthBad o s1.hdr b && o.fixContentLength) = true then s3.hdr.set (bs "Content-Length") (natToDec b.raw.length) else s3.hdr).get (bs "Content-Length") = natToDec b.raw.length := by
            simp only [hfixcl, Bool.and_true]
            by_cases hbad : lengthBad o s1.hdr b = true
            · simp only [hbad, ↓reduceIte]; exact get_set_same _ _ _
            · simp only [hbad, Bool.false_eq_true, ↓reduceIte]
              rw [k3]
              unfold lengthBad at hbad
              have hs : (o.spec != .ignore) = true := by simp [hspec]
              simp only [hs, hcl, Bool.true_and, bne_iff_ne, ne_eq, Decidable.not_not, Bool.not_eq_true, bne_eq_false_iff_eq] at hbad
              exact hbad.symm
          -- step 3: the block digest
          generalize hs5 : ({ hdr := if (lengthBad o s1.hdr b && o.fixContentLength) = true then s3.hdr.set (bs "Content-Length") (natToDec b.raw.length) else s3.hdr, fnd := s3.fnd } : St) = s5 at h
          have hlen5' : s5.hdr.get (bs "Content-Length") = natToDec b.raw.length := by rw [← hs5]; exact hlen5
          cases h6 : checkDigest H o (bs "WARC-Block-Digest") .digestBlock b.blockDigest b.raw s5 with
          | mk r6 s6 =>
            rw [h6] at h
            cases r6 with
            | error e => simp at h
            | ok u6 =>
              simp only at h
              obtain ⟨hbd, hother⟩ := checkDigest_post H o (bs "WARC-Block-Digest") .digestBlock b.blockDigest b.raw s5 s6 hspec hfix hadd h6
              have hlen6 : s6.hdr.get (bs "Content-Length") = natToDec b.raw.length := by
                rw [hother _ (by decide)]; exact hlen5'
              -- step 4: the payload digest touches neither field
              have hfinal : st'.hdr.get (bs "Content-Length") = s6.hdr.get (bs "Content-Length") ∧
                  st'.hdr.get (bs "WARC-Block-Digest") = s6.hdr.get (bs "WARC-Block-Digest") := by
                by_cases hrv : (rt == RT_Revisit || s6.hdr.has (bs "WARC-Segment-Number")) = true
                · simp only [hrv, ↓reduceIte, M.pure_def, Prod.mk.injEq, Except.ok.injEq, true_and] at h; subst h; exact ⟨rfl, rfl⟩
                · simp only [hrv, Bool.false_eq_true, ↓reduceIte] at h
                  cases hpd : b.payloadDigest with
                  | none =>
                    simp only [hpd, M.pure_def, Prod.mk.injEq, Except.ok.injEq, true_and] at h; subst h; exact ⟨rfl, rfl⟩
                  | some pd =>
                    simp only [hpd] at h
                    have := (checkDigest_post H o (bs "WARC-Payload-Digest") .digestPayload pd b.payload s6 st' hspec hfix hadd h).2
                    exact ⟨this _ (by decide), this _ (by decide)⟩
              refine ⟨by rw [hfinal.1]; exact hlen6, ?_⟩
              rcases hbd with hb | ⟨_, hv⟩
              · exact Or.inl (by rw [hfinal.2]; exact hb)
              · exact Or.inr hv


/-! ### the payload digest -/

theorem checkDigest_has_other (o : Opts) (field : Bytes) (tag : Tag) (d : Digest) (data : Bytes) (st st' : St)
    (h : checkDigest H o field tag d data st = (.ok (), st')) :
    ∀ k, canon k ≠ canon field → st'.hdr.has k = st.hdr.has k := by
  intro k hk
  unfold checkDigest at h
  simp only [M.bind_def, M.hdr_def] at h
  by_cases he : d.hash.isEmpty = true
  · simp only [he, ↓reduceIte, M.setHdr_def, Prod.mk.injEq, Except.ok.injEq, true_and] at h
    subst h
    simp only
    split
    · exact has_set_other _ _ _ _ hk
    · rfl
  · simp only [he, Bool.false_eq_true, ↓reduceIte, M.bind_def, M.hdr_def, M.setHdr_def] at h
    cases hc : condSite (o.spec != Pol.ignore && !d.valid H data) o.spec tag st with
    | mk r1 s1 =>
      rw [hc] at h
      cases r1 with
      | error e => simp at h
      | ok u1 =>
        have k1 : s1.hdr = st.hdr := keep_of_eq (KeepHdr.condSite _ _ _) hc
        simp only [Prod.mk.injEq, Except.ok.injEq, true_and] at h
        subst h
        simp only
        split
        · rw [has_set_other _ _ _ _ hk, k1]
        · rw [k1]

/-- **after ValidateDigest the header tells the truth about the payload digest**: when the block kind has a payload
    (HTTP blocks: the bytes after the protocol header; resource records: the block) and ValidateDigest looks at it (not a
    revisit, no WARC-Segment-Number), the WARC-Payload-Digest field is the rendering of the digest of exactly the payload
    bytes, or it is the declared value and that value decodes to the digest of the payload bytes -/
theorem C02_validate_payload (o : Opts) (rt : Nat) (b : Block) (fault : Bool) (st st' : St)
    (hspec : o.spec ≠ .ignore) (hfix : o.fixDigest = true) (hadd : o.addMissingDigest = true)
    (pd : Digest) (hpd : b.payloadDigest = some pd) (hnr : (rt == RT_Revisit) = false)
    (hseg : st.hdr.has (bs "WARC-Segment-Number") = false)
    (h : validateDigest H o rt b fault st = (.ok (), st')) :
    st'.hdr.get (bs "WARC-Payload-Digest") = pd.format H b.payload ∨ pd.valid H b.payload = true := by
  unfold validateDigest at h
  simp only [M.bind_def, M.hdr_def, M.setHdr_def] at h
  cases h1 : condFail (fault && (b.kind == .generic || b.kind == .httpReq || b.kind == .httpResp)) .reader st with
  | mk r1 s1 =>
    rw [h1] at h
    cases r1 with
    | error e => simp at h
    | ok u1 =>
      have e1 : s1 = st := by
        unfold condFail at h1
        split at h1
        · simp at h1
        · simp only [M.pure_def, Prod.mk.injEq] at h1; exact h1.2.symm
      subst e1
      simp only at h
      cases h3 : condSite (lengthBad o s1.hdr b) o.spec .length s1 with
      | mk r3 s3 =>
        rw [h3] at h
        cases r3 with
        | error e => simp at h
        | ok u3 =>
          simp only at h
          have k3 : s3.hdr = s1.hdr := keep_of_eq (KeepHdr.condSite _ _ _) h3
          generalize hs5 : ({ hdr := if (lengthBad o s1.hdr b && o.fixContentLength) = true then s3.hdr.set (bs "Content-Length") (natToDec b.raw.length) else s3.hdr, fnd := s3.fnd } : St) = s5 at h
          have hseg5 : s5.hdr.has (bs "WARC-Segment-Number") = false := by
            rw [← hs5]; simp only
            split
            · rw [has_set_other _ _ _ _ (by decide), k3]; exact hseg
            · rw [k3]; exact hseg
          cases h6 : checkDigest H o (bs "WARC-Block-Digest") .digestBlock b.blockDigest b.raw s5 with
          | mk r6 s6 =>
            rw [h6] at h
            cases r6 with
            | error e => simp at h
            | ok u6 =>
              simp only at h
              have hseg6 : s6.hdr.has (bs "WARC-Segment-Number") = false := by
                rw [checkDigest_has_other H o _ _ _ _ s5 s6 h6 _ (by decide)]; exact hseg5
              simp only [hnr, hseg6, Bool.or_self, Bool.false_eq_true, ↓reduceIte, hpd] at h
              exact (checkDigest_post H o (bs "WARC-Payload-Digest") .digestPayload pd b.payload s6 st' hspec hfix hadd h).1.elim
                Or.inl (fun hh => Or.inr hh.2)

/-- for an HTTP block the payload is exactly the bytes after the protocol header, whatever the head contains -/
theorem C02_http_payload (o : Opts) (Ω : Oracles) (c : Bytes) (bd pd : Digest) (s s' : St) (b : Block)
    (hfix : o.fixSyntaxErrors = false) (h : newHttpBlock o Ω c bd pd s = (.ok b, s')) :
    b.payload = (headerBytes c).2.1 ∧ b.payloadDigest = some pd ∧ b.raw = c := by
  unfold newHttpBlock at h
  simp only [hfix, Bool.and_false, Bool.false_and, Bool.false_eq_true, ↓reduceIte] at h
  obtain ⟨_, t1, _, h⟩ := bind_ok _ _ _ _ _ h
  obtain ⟨_, t2, _, h⟩ := bind_ok _ _ _ _ _ h
  obtain ⟨_, t3, _, h⟩ := bind_ok _ _ _ _ _ h
  obtain ⟨_, t4, _, h⟩ := bind_ok _ _ _ _ _ h
  obtain ⟨_, t5, _, h⟩ := bind_ok _ _ _ _ _ h
  simp only [M.pure_def, Prod.mk.injEq, Except.ok.injEq] at h
  rw [← h.1]
  refine ⟨?_, rfl, headerBytes_append c⟩
  unfold Block.payload
  simp

/-! ### the builder: a Content-Length field, once present, stays present until ValidateDigest -/

structure KeepsCL {α} (m : M α) : Prop where
  h : ∀ s, s.hdr.has (bs "Content-Length") = true → (m s).2.hdr.has (bs "Content-Length") = true

namespace KeepsCL
theorem of_keep {α} {m : M α} (hk : KeepHdr m) : KeepsCL m := ⟨fun s hs => by rw [hk.h s]; exact hs⟩
theorem bind {α β} {m : M α} {f : α → M β} (hm : KeepsCL m) (hf : ∀ a, KeepsCL (f a)) : KeepsCL (m >>= f) := by
  constructor
  intro s hs
  simp only [M.bind_def]
  have h1 := hm.h s hs
  cases hr : m s with
  | mk r s' =>
    rw [hr] at h1
    cases r with
    | ok a => exact (hf a).h s' h1
    | error e => exact h1
theorem ite {α} {c : Prop} [Decidable c] {m1 m2 : M α} (h1 : KeepsCL m1) (h2 : KeepsCL m2) : KeepsCL (if c then m1 else m2) := by
  split <;> assumption
end KeepsCL

theorem newHttpBlock_keepsCL (o : Opts) (Ω : Oracles) (c : Bytes) (bd pd : Digest) : KeepsCL (newHttpBlock o Ω c bd pd) := by
  unfold newHttpBlock
  apply KeepsCL.bind (KeepsCL.of_keep (KeepHdr.condFail _ _)); intro _
  apply KeepsCL.bind (KeepsCL.of_keep (KeepHdr.condSite _ _ _)); intro _
  constructor
  intro s hs
  simp only [M.bind_def, M.hdr_def, M.setHdr_def]
  have hset : (if (!(headerBytes c).2.2 && o.fixSyntaxErrors && s.hdr.has (bs "Content-Length")) = true
      then setInt s.hdr (bs "Content-Length") (wrap64 (contentLengthOf s.hdr + 2)) else s.hdr).has (bs "Content-Length") = true := by
    split
    · unfold setInt; exact has_set_same _ _ _
    · exact hs
  generalize (if (!(headerBytes c).2.2 && o.fixSyntaxErrors && s.hdr.has (bs "Content-Length")) = true
      then setInt s.hdr (bs "Content-Length") (wrap64 (contentLengthOf s.hdr + 2)) else s.hdr) = h2 at hset
  have := (KeepHdr.condSite (!Ω.http (hasPrefix (bs "HTTP") (if (!(headerBytes c).2.2 && o.fixSyntaxErrors) = true then (headerBytes c).1 ++ crlf else (headerBytes c).1))
      (if (!(headerBytes c).2.2 && !o.fixSyntaxErrors) = true then (if (!(headerBytes c).2.2 && o.fixSyntaxErrors) = true then (headerBytes c).1 ++ crlf else (headerBytes c).1) ++ crlf
       else (if (!(headerBytes c).2.2 && o.fixSyntaxErrors) = true then (headerBytes c).1 ++ crlf else (headerBytes c).1))) o.blk .httpParse).h ⟨h2, s.fnd⟩
  cases hc : condSite (!Ω.http (hasPrefix (bs "HTTP") (if (!(headerBytes c).2.2 && o.fixSyntaxErrors) = true then (headerBytes c).1 ++ crlf else (headerBytes c).1))
      (if (!(headerBytes c).2.2 && !o.fixSyntaxErrors) = true then (if (!(headerBytes c).2.2 && o.fixSyntaxErrors) = true then (headerBytes c).1 ++ crlf else (headerBytes c).1) ++ crlf
       else (if (!(headerBytes c).2.2 && o.fixSyntaxErrors) = true then (headerBytes c).1 ++ crlf else (headerBytes c).1))) o.blk .httpParse ⟨h2, s.fnd⟩ with
  | mk r s' =>
    rw [hc] at this
    cases r with
    | ok u => simp only [M.pure_def]; rw [this]; exact hset
    | error e => simp only; rw [this]; exact hset

theorem parseBlock_keepsCL (o : Opts) (Ω : Oracles) (rt : Nat) (c : Bytes) (fault : Bool) : KeepsCL (parseBlock o Ω rt c fault) := by
  unfold parseBlock
  apply KeepsCL.bind (KeepsCL.of_keep (digestFromField_keep o _)); intro bd
  apply KeepsCL.bind (KeepsCL.of_keep (digestFromField_keep o _)); intro pd
  apply KeepsCL.bind (KeepsCL.of_keep KeepHdr.hdr); intro h
  apply KeepsCL.ite
  · exact newHttpBlock_keepsCL o Ω c bd pd
  · apply KeepsCL.ite
    · apply KeepsCL.ite
      · exact KeepsCL.of_keep (KeepHdr.fail _)
      · exact KeepsCL.of_keep (KeepHdr.pure _)
    · apply KeepsCL.ite
      · exact KeepsCL.of_keep (newWarcFieldsBlock_keep o _ _ _)
      · exact KeepsCL.of_keep (KeepHdr.pure _)

/-- **a built record tells the truth about its length and block digest**: with the spec policy at warn or fail and the
    default repair options, if the builder adds a missing Content-Length (or the caller supplied one), every record that
    Build returns without error has Content-Length = the decimal length of its block, and its WARC-Block-Digest is the
    rendering of the digest of its block (or the caller's value, which then decodes to that digest) -/
theorem C02_build_truthful (o : Opts) (Ω : Oracles) (verTxt : Bytes) (verId rt0 : Nat) (hdr : Fields) (content newId : Bytes) (r : Rec)
    (hspec : o.spec ≠ .ignore) (hfixcl : o.fixContentLength = true) (hfix : o.fixDigest = true) (hadd : o.addMissingDigest = true)
    (haddcl : o.addMissingContentLength = true)
    (hb : (build H o Ω verTxt verId rt0 hdr content newId).record = some r)
    (he : (build H o Ω verTxt verId rt0 hdr content newId).err = none) :
    r.hdr.get (bs "Content-Length") = natToDec r.block.raw.length ∧
    (r.hdr.get (bs "WARC-Block-Digest") = r.block.blockDigest.format H r.block.raw ∨ r.block.blockDigest.valid H r.block.raw = true) := by
  unfold build at hb he
  simp only at hb he
  -- the header the validation starts from has a Content-Length
  generalize hh1 : (if (o.addMissingRecordId && !hdr.has (bs "WARC-Record-ID")) = true then hdr.setId (bs "WARC-Record-ID") newId else hdr) = hdr1 at hb he
  have hcl2 : (if (o.addMissingContentLength && !hdr1.has (bs "Content-Length")) = true then setInt hdr1 (bs "Content-Length") content.length else hdr1).has (bs "Content-Length") = true := by
    simp only [haddcl, Bool.true_and]
    cases hh : hdr1.has (bs "Content-Length") with
    | true => simp [hh]
    | false => simp only [Bool.not_false, ↓reduceIte]; unfold setInt; exact has_set_same _ _ _
  generalize (o.addMissingContentLength && !hdr1.has (bs "Content-Length")) = cla at hb he hcl2
  generalize (if cla = true then setInt hdr1 (bs "Content-Length") content.length else hdr1) = hdr2 at hb he hcl2
  unfold buildBody at hb he
  simp only [M.bind_def] at hb he
  cases hv : validateHeader o Ω verId ⟨hdr2, []⟩ with
  | mk rv sv =>
    rw [hv] at hb he
    cases rv with
    | error e => simp at he
    | ok rtv =>
      simp only at hb he
      have kv : sv.hdr.has (bs "Content-Length") = true := by
        have := (validateHeader_keep o Ω verId).h ⟨hdr2, []⟩
        rw [hv] at this; simp only at this; rw [this]; exact hcl2
      cases hp : parseBlock o Ω (if (rt0 == 0) = true then rtv else rt0) content false sv with
      | mk rp sp =>
        rw [hp] at hb he
        cases rp with
        | error e => simp at he
        | ok b =>
          simp only [M.hdr_def, M.setHdr_def] at hb he
          have kp : sp.hdr.has (bs "Content-Length") = true := by
            have := (parseBlock_keepsCL o Ω (if (rt0 == 0) = true then rtv else rt0) content false).h sv kv
            rw [hp] at this; exact this
          -- the adjustment of a length the builder added keeps the field
          generalize hsq : ({ hdr := if (cla && b.kind == BlockKind.warcFields && b.raw.length != content.length) = true then setInt sp.hdr (bs "Content-Length") b.raw.length else sp.hdr, fnd := sp.fnd } : St) = sq at hb he
          have kq : sq.hdr.has (bs "Content-Length") = true := by
            rw [← hsq]; simp only
            split
            · unfold setInt; exact has_set_same _ _ _
            · exact kp
          cases hd : validateDigest H o (if (rt0 == 0) = true then rtv else rt0) b false sq with
          | mk rd sd =>
            rw [hd] at hb he
            cases rd with
            | error e => simp at he
            | ok u =>
              simp only [M.pure_def, Option.some.injEq] at hb
              subst hb
              exact C02_validate_truthful H o _ b false sq sd hspec hfixcl hfix hadd kq hd

end
end Gowarc.Props.C02
