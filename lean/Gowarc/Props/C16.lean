/-
  C16 — Block accessors give the same answers in any call order.

  Model: `BlkSt.step` (Model/BlockSM.lean), the lazy digest state machine of genericBlock / httpRequestBlock /
  httpResponseBlock. Tie: correspondence kind `block` on blocks constructed directly over cached and one-shot sources and
  on blocks of built and parsed records, with arbitrary accessor sequences and drain amounts; exhaustive sequences of
  length ≤ 4 in the thorough tier.
-/
import Gowarc.Model.BlockSM
namespace Gowarc.Props.C16
open Gowarc BlkSt

/-- what every reachable state satisfies -/
structure Inv (s : BlkSt) : Prop where
  pos_le : s.pos ≤ s.payload.length
  frozen_all : s.frozen = true → s.pos = s.payload.length ∧ s.filt = true
  fresh : s.filt = false → s.pos = 0

/-- blocks as the library creates them: nothing consumed yet … -/
theorem inv_fresh (head payload : Bytes) (isHttp cached : Bool) :
    Inv ⟨head, payload, isHttp, cached, false, 0, false⟩ :=
  ⟨Nat.zero_le _, fun h => by simp at h, fun _ => rfl⟩

/-- … or, for records returned by Build / Unmarshal, cached with the digests complete -/
theorem inv_api (head payload : Bytes) (isHttp : Bool) :
    Inv ⟨head, payload, isHttp, true, true, payload.length, true⟩ :=
  ⟨Nat.le_refl _, fun _ => ⟨rfl, rfl⟩, fun h => by simp at h⟩

theorem doDigest_inv (s : BlkSt) (h : Inv s) : Inv (doDigest s) := by
  unfold doDigest
  split
  · exact h
  · exact ⟨Nat.le_refl _, fun _ => ⟨rfl, rfl⟩, fun hf => by simp at hf⟩

theorem doDigest_complete (s : BlkSt) (h : Inv s) : (doDigest s).pos = s.payload.length ∧ (doDigest s).payload = s.payload ∧
    (doDigest s).head = s.head ∧ (doDigest s).cached = s.cached := by
  unfold doDigest
  split
  · rename_i hf; exact ⟨(h.frozen_all hf).1, rfl, rfl, rfl⟩
  · exact ⟨rfl, rfl, rfl, rfl⟩

theorem payloadAccess_inv (s : BlkSt) (d : Nat) (h : Inv s) : Inv (payloadAccess s d).1 := by
  unfold payloadAccess
  split
  · refine ⟨?_, ?_, fun hf => by simp at hf⟩
    · have := h.pos_le; simp only; omega
    · intro hf
      rename_i hfilt
      have : s.frozen = true := hf
      have := (h.frozen_all this).2
      simp [this] at hfilt
  · split <;> exact doDigest_inv s h

theorem payloadAccess_data (s : BlkSt) (d : Nat) :
    (payloadAccess s d).1.head = s.head ∧ (payloadAccess s d).1.payload = s.payload := by
  simp only [payloadAccess, doDigest]
  split
  · exact ⟨rfl, rfl⟩
  · split <;> split <;> exact ⟨rfl, rfl⟩

/-- the invariant is preserved by every accessor -/
theorem step_inv (s : BlkSt) (op : BOp) (h : Inv s) : Inv (step s op).1 := by
  cases op with
  | blockDigest => exact doDigest_inv s h
  | payloadDigest => exact doDigest_inv s h
  | size => exact doDigest_inv s h
  | isCached => exact h
  | cache =>
    simp only [step]
    split
    · exact h
    · split
      · exact payloadAccess_inv s _ h
      · have hpl := (payloadAccess_data s s.payload.length).2
        refine ⟨by simp only [hpl]; exact Nat.le_refl _, fun _ => ⟨by simp only [hpl], ?_⟩, fun hf => ?_⟩
        · simp only [payloadAccess]
          split
          · rfl
          · split <;> (simp only [doDigest]; split <;> simp_all)
        · exfalso
          revert hf
          simp only [payloadAccess]
          split
          · simp
          · split <;> (simp only [doDigest]; split <;> simp_all)
  | rawBytes d => simp only [step]; split <;> exact payloadAccess_inv s _ h
  | payloadBytes d => simp only [step]; split <;> exact payloadAccess_inv s _ h

/-- the data of a block never changes -/
theorem step_data (s : BlkSt) (op : BOp) : (step s op).1.head = s.head ∧ (step s op).1.payload = s.payload := by
  cases op <;> simp only [step, doDigest, payloadAccess] <;> (repeat' split) <;> simp

/-- **digests and size always describe the complete block**, whatever was called before, in any order -/
theorem C16_digest_size (s : BlkSt) (h : Inv s) :
    (step s .blockDigest).2 = .digest s.full ∧ (step s .payloadDigest).2 = .digest s.payload ∧
    (step s .size).2 = .size s.full.length := by
  obtain ⟨hp, hpl, hh, _⟩ := doDigest_complete s h
  simp only [step, fedBlock, fedPayload, hp, hpl, hh, full, List.take_length, and_self]

/-- **every reader obtained from a cached block yields the identical bytes from the start** (a caller draining `d` bytes
    gets the first `d` bytes of the complete block / payload), any number of times -/
theorem C16_cached_reads (s : BlkSt) (d : Nat) (h : Inv s) (hc : s.cached = true) :
    (step s (.rawBytes d)).2 = .bytes (s.full.take d) ∧ (step s (.payloadBytes d)).2 = .bytes (s.payload.take d) := by
  have hcd : (doDigest s).cached = true := by rw [(doDigest_complete s h).2.2.2]; exact hc
  constructor
  · unfold step payloadAccess
    by_cases hf : s.filt = true
    · simp only [hf, Bool.not_true, Bool.false_eq_true, ↓reduceIte, hcd, full, List.take_append]
    · have hf' : s.filt = false := by simpa using hf
      simp only [hf', Bool.not_false, ↓reduceIte, h.fresh hf', List.drop_zero, full, List.take_append]
  · unfold step payloadAccess
    by_cases hf : s.filt = true
    · simp only [hf, Bool.not_true, Bool.false_eq_true, ↓reduceIte, hcd]
    · have hf' : s.filt = false := by simpa using hf
      simp only [hf', Bool.not_false, ↓reduceIte, h.fresh hf', List.drop_zero]

/-- **a further content access on an uncached block fails with the explicit error** (and so does Cache after a read) -/
theorem C16_uncached_once (s : BlkSt) (d : Nat) (h : Inv s) (hu : s.cached = false) (hf : s.filt = true) :
    (step s (.rawBytes d)).2 = .errReaccessed ∧ (step s (.payloadBytes d)).2 = .errReaccessed ∧
    (step s .cache).2 = .errReaccessed := by
  have hcd : (doDigest s).cached = false := by rw [(doDigest_complete s h).2.2.2]; exact hu
  refine ⟨?_, ?_, ?_⟩ <;> simp [step, payloadAccess, hf, hcd, hu]

/-- Cache on an untouched uncached block succeeds and makes it cached; on a cached block it is a no-op -/
theorem C16_cache (s : BlkSt) (hfresh : s.filt = false) (hu : s.cached = false) :
    (step s .cache).2 = .ok ∧ (step s .cache).1.cached = true ∧ (step s .cache).1.frozen = true := by
  simp [step, payloadAccess, hfresh, hu]

/-- lifted over arbitrary accessor sequences: every state reached satisfies the invariant -/
theorem C16_reachable (s : BlkSt) (ops : List BOp) (h : Inv s) : Inv (ops.foldl (fun st op => (step st op).1) s) := by
  induction ops generalizing s with
  | nil => exact h
  | cons op rest ih => exact ih _ (step_inv s op h)

/-- **C16**: after ANY sequence of accessor calls (with readers drained fully, partly or not at all), digests and size
    describe the complete block, and a cached block still reads completely from the start -/
theorem C16_any_order (s : BlkSt) (ops : List BOp) (h : Inv s) :
    let s' := ops.foldl (fun st op => (step st op).1) s
    (step s' .blockDigest).2 = .digest s.full ∧ (step s' .size).2 = .size s.full.length ∧
    (s'.cached = true → ∀ d, (step s' (.rawBytes d)).2 = .bytes (s.full.take d)) := by
  intro s'
  have hinv := C16_reachable s ops h
  have hdata : s'.head = s.head ∧ s'.payload = s.payload := by
    show (ops.foldl (fun st op => (step st op).1) s).head = s.head ∧ (ops.foldl (fun st op => (step st op).1) s).payload = s.payload
    induction ops generalizing s with
    | nil => exact ⟨rfl, rfl⟩
    | cons op rest ih =>
      have := ih (step s op).1 (step_inv s op h) (C16_reachable _ rest (step_inv s op h))
      have hd := step_data s op
      exact ⟨this.1.trans hd.1, this.2.trans hd.2⟩
  have hfull : s'.full = s.full := by simp [full, hdata.1, hdata.2]
  have := C16_digest_size s' hinv
  refine ⟨by rw [this.1, hfull], by rw [this.2.2, hfull], fun hc d => ?_⟩
  rw [(C16_cached_reads s' d hinv hc).1, hfull]

/-- non-vacuity: an uncached http block, partial read, digest, then the second access fails and Cache fails; the digest
    still describes everything -/
example : BlkSt.run ⟨bs "HEAD\r\n\r\n", bs "payload", true, false, false, 0, false⟩
    [.rawBytes 10, .blockDigest, .size, .payloadBytes 3, .cache, .isCached] =
    [.bytes (bs "HEAD\r\n\r\npa"), .digest (bs "HEAD\r\n\r\npayload"), .size 15, .errReaccessed, .errReaccessed, .flag false] := by decide

end Gowarc.Props.C16
