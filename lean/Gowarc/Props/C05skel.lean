/-
  The tie of the Unmarshal model to the source text of unmarshaler.go, regenerated on every run.
-/
import Gowarc.Gen.UnmarshalSkeleton
import Gowarc.Model.UnmarshalSkeleton
namespace Gowarc.Props.C05
set_option maxRecDepth 20000 in
theorem C05_unmarshal_skeleton : Gowarc.Gen.unmarshalSkeleton = Gowarc.expectedUnmarshalSkeleton := by decide
end Gowarc.Props.C05
namespace Gowarc.Props.C06
theorem C06_unmarshal_skeleton : Gowarc.Gen.unmarshalSkeleton = Gowarc.expectedUnmarshalSkeleton := Gowarc.Props.C05.C05_unmarshal_skeleton
end Gowarc.Props.C06
namespace Gowarc.Props.C07
theorem C07_unmarshal_skeleton : Gowarc.Gen.unmarshalSkeleton = Gowarc.expectedUnmarshalSkeleton := Gowarc.Props.C05.C05_unmarshal_skeleton
end Gowarc.Props.C07
namespace Gowarc.Props.C08
theorem C08_unmarshal_skeleton : Gowarc.Gen.unmarshalSkeleton = Gowarc.expectedUnmarshalSkeleton := Gowarc.Props.C05.C05_unmarshal_skeleton
end Gowarc.Props.C08
