/-
  C04 ∘ C01: the offset a Write reports is a position from which a fresh reader returns that record.

  `C04_offset` / `C04_offset_stable` say that after a successful Write the member's bytes lie in the reported file at the
  reported offset and stay there whatever is written, rotated or closed later. `C01_accepts` says that the marshalled
  bytes of a record the strict builder produced are read back as that record by every reader, whatever follows them.
  Together: for an uncompressed writer, every reader opened at the reported offset of the reported file returns exactly
  that record, clean, and is left at the byte behind it — for every later history of the writer (records failing to
  marshal included).
-/
import Gowarc.Props.C04
import Gowarc.Props.C06built
namespace Gowarc.Props.C04
open Gowarc Gowarc.SW Gowarc.Props.C06

section
variable (H : Alg → Bytes → Bytes)

/-- a reader positioned at `off` in a file that holds member `b` there returns what reading `b` returns -/
theorem reads_at (o : Opts) (Ω : Oracles) (s : SW) (id off : Nat) (b : Bytes) (r : Rec) (fault : Bool)
    (hat : At s id off b) (hrb : ReadsBack H o Ω b r) :
    ∃ f ∈ s.files, f.id = id ∧ ∃ post, unmarshal H o Ω ⟨f.content.drop off, fault⟩ = ⟨some r, 0, [], none, post⟩ ∧
      f.content.length = off + b.length + post.length := by
  obtain ⟨f, hf, hid, pre, post, hc, hl⟩ := hat
  refine ⟨f, hf, hid, post, ?_, ?_⟩
  · rw [hc, ← hl, List.append_assoc, List.drop_left]
    exact hrb post fault
  · rw [hc, ← hl]; simp [Nat.add_assoc]

/-- **random access**: the record of a successful Write is returned by every reader opened at the reported offset of the
    reported file, after any later history of the writer -/
theorem C04_offset_reads_back (o : Opts) (Ω : Oracles) (c : WCfg) (scale : Int → Int) (s : SW) (r : WRec) (later : List WOp)
    (h : Inv s) (hok : (write c scale s r).2.err = false) (rec : Option Nat → Rec)
    (hrb : ∀ stamp, ReadsBack H o Ω (r.enc stamp) (rec stamp)) (fault : Bool) :
    ∃ id stamp, (write c scale s r).2.file = some id ∧
      ∃ f ∈ (run c scale (write c scale s r).1 later).1.files, f.id = id ∧
        ∃ post, unmarshal H o Ω ⟨f.content.drop (write c scale s r).2.off, fault⟩ = ⟨some (rec stamp), 0, [], none, post⟩ := by
  obtain ⟨id, stamp, hf, hat⟩ := C04_offset_stable c scale s r later h hok
  obtain ⟨f, hfm, hid, post, hu, _⟩ := reads_at H o Ω _ id _ _ (rec stamp) fault hat (hrb stamp)
  exact ⟨id, stamp, hf, f, hfm, hid, post, hu⟩

end
end Gowarc.Props.C04
