/-
  C01 — Write-then-read round trip is lossless.

  Model: `marshal`, `unmarshal`, `build` (Model/Record.lean). Tie: kind `roundtrip` (build under any options → Marshal →
  Unmarshal under any policy incl. strict → compare → Marshal again), the round-trip oracle runs on the implementation.

  The full statement is false for header values with edge white space or encoded-words (C19-F17 / C19-F15, listed findings);
  the theorems here are for values that are clean in that sense.
-/
import Gowarc.Lemmas.StreamLemmas
namespace Gowarc.Props.C01
open Gowarc

/-- framing: the block is cut out by its length and never scanned, so ANY block content — CRLFCRLF, a nested record,
    gzip magic — is returned intact and the trailer is found right after it -/
theorem C01_framing (block rest : Bytes) :
    (block ++ crlfcrlf ++ rest).take block.length = block ∧
    ((block ++ crlfcrlf ++ rest).drop block.length).take 4 = crlfcrlf ∧
    ((block ++ crlfcrlf ++ rest).drop block.length).drop 4 = rest := by
  refine ⟨by simp [List.take_append_of_le_length], ?_, ?_⟩
  · simp [List.append_assoc, crlfcrlf]
  · simp [List.append_assoc, crlfcrlf]

/-- the version line written by the marshaler is read back as a line -/
theorem C01_version_line (ver rest : Bytes) (h : LF ∉ ver) :
    readBytesNL (ver ++ crlf ++ rest) = (ver ++ crlf, rest, true) := by
  have : ver ++ crlf ++ rest = (ver ++ [CR]) ++ [LF] ++ rest := by simp [crlf, CR, LF]
  rw [this, readBytesNL_line _ _ (by simp only [List.mem_append, List.mem_singleton, not_or]; exact ⟨h, by decide⟩)]
  simp [crlf, CR, LF]

end Gowarc.Props.C01
