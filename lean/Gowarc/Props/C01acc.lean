/-
  C01, the validation side of the round trip — a record the strict builder accepts is accepted SILENTLY by every reader.

  `C01_roundtrip` (C01comp.lean) says that what Unmarshal returns for a serialized record is exactly what was written.
  This file adds the other half of the property: for a record that `build` returned under the strict policy (syntax, spec
  and block axes at fail) without error, `unmarshal (marshal r ++ tail)` under ANY policy setting, any repair and
  add-missing options, any default digest algorithm/encoding of the reader, returns a record — no error, NO validation
  finding — at offset 0, with the same version, type, ordered header fields and block bytes, leaving exactly `tail`.
  Every block content (delimiter imitations included), every record type incl. unknown, both versions.

  Proof: the header set the builder validated has no spec defect (C17_strict); the digest fields the builder appends are
  legal on every record type (regenerated table) and keep it so; a digest value written by `format` is read back by
  `newDigest` as the same algorithm/encoding/value under every reader default and validates (C03_format_reparse); the block
  the strict builder accepted (HTTP head terminated and accepted by net/http, warc-fields block accepted by the strict header
  parser) is taken without finding under every policy (parser monotonicity, C08); the header text is the identity on clean
  fields (C19_clean_roundtrip); the block is cut out by its declared length and never scanned (C01_framing).

  Hypotheses, each one a reading fixed in DESIGN 5.0 or a listed finding:
  * header fields clean in the sense of C19 (canonical names, no edge white space / LF / `=?`: findings C19-F15, C19-F17);
  * the caller supplied no digest fields of its own and the builder's add-missing-digest option is on (the default) —
    caller-supplied digests are C03's subject;
  * the type given to NewRecordBuilder, if any, is the one named by WARC-Type;
  * the reader's skip-parse-block option equals the builder's (with different settings the payload digest of a resource
    record is judged against different bytes by design);
  * for an unknown record type the reader's unknown-type axis is at ignore (at warn it reports the type: its job);
  * the reader's default digest algorithm is one it supports;
  * the block is no longer than an int64 can count (the decimal Content-Length then re-parses to the block length:
    `parseInt10Val_natToDec`, Lemmas/Decimal.lean).
-/
import Gowarc.Lemmas.Accept
import Gowarc.Lemmas.Decimal
import Gowarc.Props.C01comp
namespace Gowarc.Props.C01
open Gowarc Gowarc.Props.C19 Gowarc.Props.C17 Gowarc.Props.C20 Gowarc.Props.C03

/-- "the builder accepts under strict policy", with the default add-missing-digest option -/
structure StrictBuilder (ob : Opts) : Prop where
  syn : ob.syn = .fail
  spec : ob.spec = .fail
  blk : ob.blk = .fail
  addDig : ob.addMissingDigest = true
  enc : ob.defaultEnc ≠ .unknown
  /-- the configured digest algorithm is a bare name (no `:value` part) -/
  bare : ∀ d, newDigest ob.defaultAlg ob.defaultEnc = some d → d.hash = []

section
variable (H : Alg → Bytes → Bytes)

/-- the reader's side, for any header `hfin` with the facts the builder establishes -/
theorem accept_core (ob op : Opts) (Ω : Oracles) (ver : String) (vid : Nat) (hver : (ver, vid) ∈ Gen.versions)
    (hfind : Gen.versions.find? (fun p => bs p.1 == bs ver) = some (ver, vid))
    (hnolf : LF ∉ bs ver) (htrim : trim isWs (bs ver ++ crlf) = bs ver)
    (hfin : Fields) (content : Bytes) (rt : Nat) (b : Block) (sp : St)
    (hne : hfin ≠ []) (hclean : ∀ nv ∈ hfin, CleanField nv) (hok : HdrOK op Ω vid hfin) (hrtfin : rtOf hfin = rt)
    (hcl : contentLengthOf hfin = (content.length : Int)) (hclv : hfin.get (bs "Content-Length") = natToDec content.length)
    (hsyn : ob.syn = .fail) (hblk : ob.blk = .fail) (hskip : op.skipParseBlock = ob.skipParseBlock)
    (hpb : parseBlock ob Ω rt content false sp = (.ok b, sp)) (hct : hfin.get (bs "Content-Type") = sp.hdr.get (bs "Content-Type"))
    (bd pd : Digest) (hbd : digestOfField op hfin (bs "WARC-Block-Digest") = some bd)
    (hpd : digestOfField op hfin (bs "WARC-Payload-Digest") = some pd)
    (hbdS : SilentDigest H op bd content)
    (hpdS : (rt == RT_Revisit || hfin.has (bs "WARC-Segment-Number")) = false → b.payloadDigest.isSome = true →
            SilentDigest H op pd (content.drop b.headLen)) :
    ∃ r', (∀ (tail : Bytes) (fault : Bool),
        unmarshal H op Ω ⟨marshal (bs ver) hfin content ++ tail, fault⟩ = ⟨some r', 0, [], none, tail⟩) ∧
      r'.hdr = hfin ∧ r'.block.raw = content ∧ r'.rt = rt ∧ r'.verTxt = bs ver ∧ r'.verId = vid := by
  obtain ⟨_, _, _, b', hpb', hraw', hhl', _, hbd', hpd'⟩ :=
    parseBlock_reaccept ob op Ω rt content sp sp b hsyn hblk hskip hpb hfin [] hct bd pd hbd hpd
  refine ⟨{ verTxt := bs ver, verId := vid, rt := rt, hdr := hfin, block := b' }, ?_, rfl, hraw', rfl, rfl, rfl⟩
  intro tail fault
  have hm : marshal (bs ver) hfin content ++ tail = bs "WARC/" ++ bs ver ++ crlf ++ Fields.write hfin ++ crlf ++ (content ++ crlfcrlf ++ tail) := by
    unfold marshal; simp [List.append_assoc]
  rw [hm, unmarshal_serialized H op Ω ver vid hver hfind hnolf htrim hfin hne hclean _ fault]
  obtain ⟨f1, f2, f3⟩ := C01_framing content tail
  have hshort : decide ((content ++ crlfcrlf ++ tail).length < content.length) = false := by
    simp only [List.length_append, decide_eq_false_iff_not]; omega
  have hneg : ¬ ((content.length : Int) < 0) := by omega
  have hvdS : validateDigest H op rt b' false ⟨hfin, []⟩ = (.ok (), ⟨hfin, []⟩) := by
    apply validateDigest_silent H op rt b' hfin [] (by rw [hraw']; exact hclv) (by rw [hbd', hraw']; exact hbdS)
    intro hsk pdx hpx
    rw [hpd'] at hpx
    cases hbp : b.payloadDigest with
    | none => rw [hbp] at hpx; cases hpx
    | some q =>
      rw [hbp] at hpx
      simp only [Option.map_some, Option.some.injEq] at hpx
      subst hpx
      unfold Block.payload
      rw [hraw', hhl']
      exact hpdS hsk (by rw [hbp]; rfl)
  have htail : unmarshalTail H op Ω (bs ver) vid hfin ⟨content ++ crlfcrlf ++ tail, fault⟩ ⟨[], []⟩ =
      (.ok (some { verTxt := bs ver, verId := vid, rt := rt, hdr := hfin, block := b' }, tail), ⟨hfin, []⟩) := by
    unfold unmarshalTail
    simp only [M.bind_def, M.setHdr_def, validateHeader_silent op Ω vid hfin [] hok, M.hdr_def, hcl, hneg, ↓reduceIte, Int.toNat_natCast,
      f1, f2, f3, hrtfin, Bool.false_and, hpb', hvdS, condFail, Bool.false_eq_true, M.pure_def, bne_self_eq_false, condSite_false,
      beq_self_eq_true, decide_false, Bool.or_false, hshort, Bool.and_false, Bool.false_or]
  rw [htail]

/-- **a record the strict builder accepted is accepted silently by every reader, unaltered** -/
theorem C01_accepts (ob op : Opts) (Ω : Oracles) (ver : String) (vid : Nat) (hver : (ver, vid) ∈ Gen.versions)
    (hfind : Gen.versions.find? (fun p => bs p.1 == bs ver) = some (ver, vid))
    (hnolf : LF ∉ bs ver) (htrim : trim isWs (bs ver ++ crlf) = bs ver)
    (rt0 : Nat) (hdr : Fields) (content newId : Bytes) (r : Rec)
    (hsb : StrictBuilder ob)
    (hnoBD : hdr.has (bs "WARC-Block-Digest") = false) (hnoPD : hdr.has (bs "WARC-Payload-Digest") = false)
    (hH : ∀ a x, (H a x).length = a.size)
    (hrec : (build H ob Ω (bs ver) vid rt0 hdr content newId).record = some r)
    (herr : (build H ob Ω (bs ver) vid rt0 hdr content newId).err = none)
    (hrt : rt0 = 0 ∨ rt0 = rtOf r.hdr)
    (hclean : ∀ nv ∈ r.hdr, CleanField nv)
    (hsize : content.length ≤ 9223372036854775807)
    (hskip : op.skipParseBlock = ob.skipParseBlock)
    (hunk : rtOf r.hdr = 0 → op.unk = .ignore)
    (hdflt : ∃ d, newDigest op.defaultAlg op.defaultEnc = some d) :
    ∃ r', (∀ (tail : Bytes) (fault : Bool),
        unmarshal H op Ω ⟨marshal (bs ver) r.hdr r.block.raw ++ tail, fault⟩ = ⟨some r', 0, [], none, tail⟩) ∧
      r'.hdr = r.hdr ∧ r'.block.raw = r.block.raw ∧ r.block.raw = content ∧ r'.rt = r.rt ∧ r'.verTxt = r.verTxt ∧ r'.verId = r.verId := by
  unfold build at hrec herr
  simp only at hrec herr
  generalize hh1 : (if (ob.addMissingRecordId && !hdr.has (bs "WARC-Record-ID")) = true then hdr.setId (bs "WARC-Record-ID") newId else hdr) = hdr1 at hrec herr
  have hnoBD1 : hdr1.has (bs "WARC-Block-Digest") = false := by
    rw [← hh1]; split
    · rw [has_setId_other _ _ _ _ (by decide)]; exact hnoBD
    · exact hnoBD
  have hnoPD1 : hdr1.has (bs "WARC-Payload-Digest") = false := by
    rw [← hh1]; split
    · rw [has_setId_other _ _ _ _ (by decide)]; exact hnoPD
    · exact hnoPD
  generalize hh2 : (if (ob.addMissingContentLength && !hdr1.has (bs "Content-Length")) = true then setInt hdr1 (bs "Content-Length") content.length else hdr1) = hdr2 at hrec herr
  have hnoBD2 : hdr2.has (bs "WARC-Block-Digest") = false := by
    rw [← hh2]; split
    · unfold setInt; rw [has_set_other _ _ _ _ (by decide)]; exact hnoBD1
    · exact hnoBD1
  have hnoPD2 : hdr2.has (bs "WARC-Payload-Digest") = false := by
    rw [← hh2]; split
    · unfold setInt; rw [has_set_other _ _ _ _ (by decide)]; exact hnoPD1
    · exact hnoPD1
  -- the stages of the builder
  unfold buildBody at hrec herr
  simp only [M.bind_def] at hrec herr
  cases hv : validateHeader ob Ω vid ⟨hdr2, []⟩ with
  | mk rv sv =>
  rw [hv] at hrec herr
  cases rv with
  | error e => simp at herr
  | ok rtv =>
  simp only at hrec herr
  obtain ⟨hrtv, hsvh⟩ := C17_strict_result ob Ω vid hdr2 hsb.spec rtv sv hv
  obtain ⟨htype, _, hdef⟩ := (C17_strict ob Ω vid hdr2 hsb.spec).mp ⟨rtv, sv, hv⟩
  generalize hrtdef : (if (rt0 == 0) = true then rtv else rt0) = rt at hrec herr
  cases hpb : parseBlock ob Ω rt content false sv with
  | mk rp sp =>
  rw [hpb] at hrec herr
  cases rp with
  | error e => simp at herr
  | ok b =>
  simp only [M.hdr_def, M.setHdr_def] at hrec herr
  -- builder facts
  obtain ⟨bd0, pd0, hbd0, hpd0⟩ := parseBlock_needs_digests ob Ω rt content false sv sp b hpb
  obtain ⟨hsp, hraw, ⟨bd0', pd0', hbd0', hpd0', hbdig, hpdig⟩, _⟩ :=
    parseBlock_reaccept ob ob Ω rt content sv sp b hsb.syn hsb.blk rfl hpb sv.hdr [] rfl bd0 pd0 hbd0 hpd0
  rw [hbd0] at hbd0'; rw [hpd0] at hpd0'
  simp only [Option.some.injEq] at hbd0' hpd0'
  subst hbd0'; subst hpd0'
  subst hsp
  -- under the strict policy the block is the content as given: the builder has no length to adjust
  have hcond : (ob.addMissingContentLength && !hdr1.has (bs "Content-Length") && b.kind == BlockKind.warcFields && b.raw.length != content.length) = false := by
    rw [hraw]; simp
  simp only [hcond, Bool.false_eq_true, ↓reduceIte] at hrec herr
  have hsp_eta : ({ hdr := sp.hdr, fnd := sp.fnd } : St) = sp := rfl
  rw [hsp_eta] at hrec herr
  subst hraw
  cases hvd : validateDigest H ob rt b false sp with
  | mk rd sd =>
  rw [hvd] at hrec herr
  cases rd with
  | error e => simp at herr
  | ok u =>
  simp only [M.hdr_def, M.pure_def, Option.some.injEq] at hrec
  rw [hsvh] at hbd0 hpd0
  -- the default digests of the builder
  have hbdef : newDigest ob.defaultAlg ob.defaultEnc = some bd0 := by
    unfold digestOfField at hbd0; rw [hnoBD2] at hbd0; simpa using hbd0
  have hpdef : newDigest ob.defaultAlg ob.defaultEnc = some pd0 := by
    unfold digestOfField at hpd0; rw [hnoPD2] at hpd0; simpa using hpd0
  have hsame : bd0 = pd0 := by rw [hbdef] at hpdef; simpa using hpdef
  subst hsame
  have hbare := hsb.bare bd0 hbdef
  have hreq : sp.hdr.has (bs "Content-Length") = true := by
    rw [hsvh]; exact ((specDefects_nil_iff Ω vid hdr2).mp hdef).2.1 "Content-Length" (by decide)
  obtain ⟨_, hclv, hfinEq⟩ := validateDigest_strict_fresh H ob rt b sp sd hsb.spec hsb.addDig (by rw [hbdig]; exact hbare)
      (by intro pdx hpx
          rcases hpdig with h | h
          · rw [h] at hpx; cases hpx
          · rw [h] at hpx; simp only [Option.some.injEq] at hpx; subst hpx; exact hbare) hreq hvd
  rw [hsvh] at hclv hfinEq
  subst hrec
  simp only at hclean hunk hrt ⊢
  -- the record type
  have hrtEq : ∀ hf : Fields, rtOf hf = rtOf hdr2 → sd.hdr = hf → rtOf hf = rt := by
    intro hf h1 h2
    rw [← hrtdef, hrtv]
    rcases hrt with h0 | h0
    · simp [h0, h1]
    · by_cases hz : (rt0 == 0) = true
      · simp [hz, h1]
      · simp only [hz, Bool.false_eq_true, ↓reduceIte]; rw [h0, h2, h1]
  -- the header after the block digest was set
  have hm1 : bs "WARC-Block-Digest" ∈ [bs "WARC-Block-Digest", bs "WARC-Payload-Digest"] := by simp
  have hm2 : bs "WARC-Payload-Digest" ∈ [bs "WARC-Block-Digest", bs "WARC-Payload-Digest"] := by simp
  obtain ⟨a1, a2, a3, a4, a5, a6, a7, a8, a9⟩ := set_digest_facts Ω vid hdr2 (bs "WARC-Block-Digest") (b.blockDigest.format H b.raw) hm1 hnoBD2
  have hnoPDh1 : (hdr2.set (bs "WARC-Block-Digest") (b.blockDigest.format H b.raw)).has (bs "WARC-Payload-Digest") = false := by
    rw [has_set_other _ _ _ _ (by decide)]; exact hnoPD2
  obtain ⟨dB, hdB, hsB⟩ := written_digest_silent H ob op bd0 b.raw hbdef hsb.enc hH
  obtain ⟨dflt, hdfl⟩ := hdflt
  have hv1 : b.blockDigest.format H b.raw = bd0.format H b.raw := by rw [hbdig]
  have hspRt : sp.hdr.get (bs "Content-Type") = hdr2.get (bs "Content-Type") := by rw [hsvh]
  have hcl2 : contentLengthOf hdr2 = (b.raw.length : Int) :=
    contentLengthOf_natToDec hdr2 _ hsize (by rw [← hsvh]; exact hreq) hclv
  unfold finalHdr at hfinEq
  by_cases hsk : (rt == RT_Revisit || (hdr2.set (bs "WARC-Block-Digest") (b.blockDigest.format H b.raw)).has (bs "WARC-Segment-Number")) = true
  · -- no payload digest is looked at
    simp only [hsk, ↓reduceIte] at hfinEq
    rw [hfinEq] at hclean hunk hrt ⊢
    have hne : hdr2.set (bs "WARC-Block-Digest") (b.blockDigest.format H b.raw) ≠ [] := by
      intro he; rw [he] at a8; simp [Fields.has] at a8
    obtain ⟨r', h1, h2, h3, h4, h5, h6⟩ := accept_core H ob op Ω ver vid hver hfind hnolf htrim _ b.raw rt b sp hne hclean
      ⟨by rw [a5]; exact htype, hunk, a7 hdef⟩ (hrtEq _ a6 hfinEq) (by rw [a4]; exact hcl2) (by rw [a2]; exact hclv) hsb.syn hsb.blk hskip hpb
      (by rw [a1, hspRt]) dB dflt
      (by unfold digestOfField; rw [a8, a9, hv1]; simpa using hdB)
      (by unfold digestOfField; rw [hnoPDh1]; simpa using hdfl)
      hsB (by intro hc; rw [hsk] at hc; cases hc)
    exact ⟨r', h1, h2, h3, trivial, h4, h5, h6⟩
  · have hsk' : (rt == RT_Revisit || (hdr2.set (bs "WARC-Block-Digest") (b.blockDigest.format H b.raw)).has (bs "WARC-Segment-Number")) = false := by simpa using hsk
    simp only [hsk', Bool.false_eq_true, ↓reduceIte] at hfinEq
    rcases hpdig with hpn | hps
    · -- the block kind has no payload digest
      simp only [hpn] at hfinEq
      rw [hfinEq] at hclean hunk hrt ⊢
      have hne : hdr2.set (bs "WARC-Block-Digest") (b.blockDigest.format H b.raw) ≠ [] := by
        intro he; rw [he] at a8; simp [Fields.has] at a8
      obtain ⟨r', h1, h2, h3, h4, h5, h6⟩ := accept_core H ob op Ω ver vid hver hfind hnolf htrim _ b.raw rt b sp hne hclean
        ⟨by rw [a5]; exact htype, hunk, a7 hdef⟩ (hrtEq _ a6 hfinEq) (by rw [a4]; exact hcl2) (by rw [a2]; exact hclv) hsb.syn hsb.blk hskip hpb
        (by rw [a1, hspRt]) dB dflt
        (by unfold digestOfField; rw [a8, a9, hv1]; simpa using hdB)
        (by unfold digestOfField; rw [hnoPDh1]; simpa using hdfl)
        hsB (by intro _ hc; rw [hpn] at hc; cases hc)
      exact ⟨r', h1, h2, h3, trivial, h4, h5, h6⟩
    · -- the payload digest was added too
      simp only [hps] at hfinEq
      obtain ⟨c1, c2, c3, c4, c5, c6, c7, c8, c9⟩ := set_digest_facts Ω vid (hdr2.set (bs "WARC-Block-Digest") (b.blockDigest.format H b.raw))
        (bs "WARC-Payload-Digest") (bd0.format H b.payload) hm2 hnoPDh1
      rw [hfinEq] at hclean hunk hrt ⊢
      have hne : (hdr2.set (bs "WARC-Block-Digest") (b.blockDigest.format H b.raw)).set (bs "WARC-Payload-Digest") (bd0.format H b.payload) ≠ [] := by
        intro he; rw [he] at c8; simp [Fields.has] at c8
      obtain ⟨dP, hdP, hsP⟩ := written_digest_silent H ob op bd0 (b.raw.drop b.headLen) hbdef hsb.enc hH
      have hpl : b.payload = b.raw.drop b.headLen := rfl
      obtain ⟨r', h1, h2, h3, h4, h5, h6⟩ := accept_core H ob op Ω ver vid hver hfind hnolf htrim _ b.raw rt b sp hne hclean
        ⟨by rw [c5, a5]; exact htype, hunk, c7 (a7 hdef)⟩ (hrtEq _ (by rw [c6, a6]) hfinEq) (by rw [c4, a4]; exact hcl2)
        (by rw [c2, a2]; exact hclv) hsb.syn hsb.blk hskip hpb
        (by rw [c1, a1, hspRt]) dB dP
        (by unfold digestOfField
            rw [has_set_other _ _ _ _ (by decide), get_set_other _ _ _ _ (by decide), a8, a9, hv1]; simpa using hdB)
        (by unfold digestOfField; rw [c8, c9, hpl]; simpa using hdP)
        hsB (by intro _ _; exact hsP)
      exact ⟨r', h1, h2, h3, trivial, h4, h5, h6⟩

end

/-! ### non-vacuity: the hypotheses are met by a concrete record -/

def exH : Alg → Bytes → Bytes := fun a _ => List.replicate a.size 7
def exΩ : Oracles := ⟨fun _ => true, fun _ => true, fun _ => true, fun _ _ => true, fun _ => none⟩
def exOb : Opts := ⟨.fail, .fail, .fail, .fail, false, true, true, true, true, true, true, false, bs "sha1", .b32⟩
def exHdr : Fields := [(bs "WARC-Type", bs "resource"), (bs "WARC-Date", bs "2020-01-02T03:04:05Z"),
  (bs "WARC-Target-URI", bs "http://example.com/"), (bs "Content-Type", bs "text/plain")]

example : StrictBuilder exOb := by
  refine ⟨rfl, rfl, rfl, rfl, by decide, ?_⟩
  intro d h
  have h' : newDigest exOb.defaultAlg exOb.defaultEnc = some ⟨.sha1, bs "sha1", [], .b32⟩ := by decide
  rw [h'] at h
  simp only [Option.some.injEq] at h
  rw [← h]

example : (build exH exOb exΩ (bs "1.1") 2 4 exHdr (bs "WARC/1.1\r\n\r\n") (bs "urn:uuid:1")).err = none ∧
    ((build exH exOb exΩ (bs "1.1") 2 4 exHdr (bs "WARC/1.1\r\n\r\n") (bs "urn:uuid:1")).record.map
      (fun r => r.hdr.all cleanB && r.hdr.length == 8 && rtOf r.hdr == 4)) = some true ∧
    exHdr.has (bs "WARC-Block-Digest") = false ∧ exHdr.has (bs "WARC-Payload-Digest") = false ∧
    (∀ a x, (exH a x).length = a.size) := by
  refine ⟨by decide, by decide, by decide, by decide, fun a x => by simp [exH]⟩

end Gowarc.Props.C01
