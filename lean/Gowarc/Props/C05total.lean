/-
  C05, totality of the header parser: the fuel of the model's loops is never what stops them.

  The Go loops (`for { readLine … }`, `for nc == sp || nc == ht { … }`) have no bound; the model gives them fuel
  (stream length + 2, resp. + 1). These theorems show that the fuel is adequate: with any larger fuel the loops return
  the very same result, for every policy and every stream, with or without a reader fault. So the model's result IS the
  result of the unbounded loop, the out-of-fuel marker is unreachable, and the parser terminates after at most
  (stream length + 2) iterations — every iteration consumes at least one byte.
-/
import Gowarc.Lemmas.StreamLemmas
namespace Gowarc.Props.C05
open Gowarc

theorem readLine_rest_lt (syn : Pol) (s : Stream) (h : s.rest ≠ []) : (readLine syn s).rest.length < s.rest.length := by
  have hp := readBytesNL_progress s.rest h
  have hpos : 0 < s.rest.length := by cases hs : s.rest with | nil => exact absurd hs h | cons a t => simp
  unfold readLine
  split
  · split <;> simpa using hpos
  · split
    · exact hp
    · split
      · rename_i hr
        split <;> simpa using hpos
      · rename_i c more hr
        simp only
        rw [← hr]; exact hp

theorem readLine_rest_le (syn : Pol) (s : Stream) : (readLine syn s).rest.length ≤ s.rest.length := by
  by_cases h : s.rest = []
  · unfold readLine
    simp [h, readBytesNL]
    split <;> simp
  · exact Nat.le_of_lt (readLine_rest_lt syn s h)

theorem readLine_nc_shape (syn : Pol) (s : Stream) :
    (readLine syn s).nc = 0 ∨ ∃ more, (readLine syn s).rest = (readLine syn s).nc :: more := by
  unfold readLine
  split
  · split <;> exact Or.inl rfl
  · split
    · exact Or.inl rfl
    · split
      · split <;> exact Or.inl rfl
      · rename_i c more _
        exact Or.inr ⟨more, rfl⟩

/-- the next-character a line read reports is SP/HT only if something is left in the stream -/
theorem readLine_nc (syn : Pol) (s : Stream) (h : ((readLine syn s).nc == SP || (readLine syn s).nc == HT) = true) :
    (readLine syn s).rest ≠ [] := by
  rcases readLine_nc_shape syn s with h0 | ⟨more, hm⟩
  · rw [h0] at h; simp [SP, HT] at h
  · rw [hm]; simp

def spht (nc : UInt8) : Nat := if (nc == SP || nc == HT) = true then 1 else 0

/-- **the continuation loop does not depend on its fuel** once the fuel covers what is left of the stream -/
theorem contLoop_fuel (syn : Pol) (fuel : Nat) : ∀ (line : Bytes) (nc : UInt8) (eoh : Bool) (fnd : List Tag) (s : Stream),
    s.rest.length + spht nc ≤ fuel → contLoop syn fuel line nc eoh fnd s = contLoop syn (fuel + 1) line nc eoh fnd s := by
  induction fuel with
  | zero =>
    intro line nc eoh fnd s h
    have hn : (nc == SP || nc == HT) = false := by
      unfold spht at h
      cases hq : (nc == SP || nc == HT) with
      | false => rfl
      | true => simp [hq] at h
    rw [contLoop, contLoop]; simp [hn]
  | succ f ih =>
    intro line nc eoh fnd s h
    rw [contLoop, contLoop]
    by_cases hn : (nc == SP || nc == HT) = true
    · simp only [hn, ↓reduceIte]
      -- the recursive calls run on what readLine left, with the next character it reported
      have hrec : ∀ (l : Bytes) (e : Bool) (fd : List Tag),
          contLoop syn f l (readLine syn s).nc e fd ⟨(readLine syn s).rest, s.fault⟩ =
          contLoop syn (f + 1) l (readLine syn s).nc e fd ⟨(readLine syn s).rest, s.fault⟩ := by
        intro l e fd
        apply ih
        simp only
        unfold spht at h ⊢
        simp only [hn, ↓reduceIte] at h
        by_cases hs : s.rest = []
        · have hle := readLine_rest_le syn s
          have h0 : (readLine syn s).rest = [] := by
            cases hr : (readLine syn s).rest with
            | nil => rfl
            | cons a t => rw [hr, hs] at hle; simp at hle
          have hnc : ((readLine syn s).nc == SP || (readLine syn s).nc == HT) = false := by
            cases hq : ((readLine syn s).nc == SP || (readLine syn s).nc == HT) with
            | false => rfl
            | true => exact absurd h0 (readLine_nc syn s hq)
          simp [h0, hnc]
        · have := readLine_rest_lt syn s hs
          split <;> omega
      cases (readLine syn s).err with
      | none => simp only; exact hrec _ _ _
      | some e =>
        simp only
        split
        · rfl
        · cases syn with
          | fail => rfl
          | warn => simp only; exact hrec _ _ _
          | ignore => simp only; exact hrec _ _ _
    · simp [hn]

/-- the stream the continuation loop hands back is a suffix of the one it got -/
theorem contLoop_rest_le (syn : Pol) (fuel : Nat) : ∀ (line : Bytes) (nc : UInt8) (eoh : Bool) (fnd : List Tag) (s : Stream)
    (line' : Bytes) (nc' : UInt8) (eoh' : Bool) (fnd' : List Tag) (s' : Stream),
    contLoop syn fuel line nc eoh fnd s = .inr (line', nc', eoh', fnd', s') → s'.rest.length ≤ s.rest.length := by
  induction fuel with
  | zero =>
    intro line nc eoh fnd s line' nc' eoh' fnd' s' h
    rw [contLoop] at h
    simp only [Sum.inr.injEq, Prod.mk.injEq] at h
    rw [← h.2.2.2.2]; exact Nat.le_refl _
  | succ f ih =>
    intro line nc eoh fnd s line' nc' eoh' fnd' s' h
    rw [contLoop] at h
    split at h
    · have hle := readLine_rest_le syn s
      have step : ∀ (l : Bytes) (e : Bool) (fd : List Tag),
          contLoop syn f l (readLine syn s).nc e fd ⟨(readLine syn s).rest, s.fault⟩ = .inr (line', nc', eoh', fnd', s') →
          s'.rest.length ≤ s.rest.length := by
        intro l e fd hh
        have := ih l _ e fd _ line' nc' eoh' fnd' s' hh
        exact Nat.le_trans this hle
      split at h
      · exact step _ _ _ h
      · split at h
        · cases h
        · cases syn with
          | fail => simp at h
          | warn => exact step _ _ _ h
          | ignore => exact step _ _ _ h
    · simp only [Sum.inr.injEq, Prod.mk.injEq] at h
      rw [← h.2.2.2.2]; exact Nat.le_refl _

theorem afterLine_congr (k k' : Fields → List Tag → Stream → ParseRes) (wf : Fields) (fnd : List Tag) (nc : UInt8) (eoh : Bool) (s : Stream)
    (h : k wf fnd s = k' wf fnd s) : afterLine k wf fnd nc eoh s = afterLine k' wf fnd nc eoh s := by
  unfold afterLine
  split
  · rfl
  · split <;> first | rfl | exact h

theorem parseRest_congr (syn : Pol) (k k' : Fields → List Tag → Stream → ParseRes) (wf : Fields) (fnd : List Tag) (lr : LineRes) (eoh fault : Bool)
    (h : ∀ wf' fnd' (s' : Stream), s'.rest.length ≤ lr.rest.length → k wf' fnd' s' = k' wf' fnd' s') :
    parseRest syn k wf fnd lr eoh fault = parseRest syn k' wf fnd lr eoh fault := by
  unfold parseRest
  cases hc : contLoop syn (lr.rest.length + 1) lr.line lr.nc eoh fnd ⟨lr.rest, fault⟩ with
  | inl e => rfl
  | inr v =>
    obtain ⟨line, nc, eoh', fnd', s'⟩ := v
    have hle := contLoop_rest_le syn _ _ _ _ _ _ _ _ _ _ _ hc
    simp only at hle
    simp only
    cases parseLine line with
    | inl e =>
      cases syn with
      | fail => rfl
      | warn => exact afterLine_congr k k' _ _ _ _ _ (h _ _ _ hle)
      | ignore => exact afterLine_congr k k' _ _ _ _ _ (h _ _ _ hle)
    | inr nv => obtain ⟨n, v⟩ := nv; exact afterLine_congr k k' _ _ _ _ _ (h _ _ _ hle)

theorem readLine_empty (syn : Pol) (s : Stream) (h : s.rest = []) :
    readLine syn s = (if s.fault then ⟨[], true, 0, some .reader, []⟩ else ⟨[], false, 0, some .eoh, []⟩) := by
  unfold readLine
  simp [h, readBytesNL, trim, trimLeft, trimRight, trimIsNil]

theorem parseLoop_succ (syn : Pol) (fuel : Nat) (wf : Fields) (fnd : List Tag) (s : Stream) :
    parseLoop syn (fuel + 1) wf fnd s =
      (match (readLine syn s).err with
       | none => parseRest syn (parseLoop syn fuel) wf fnd (readLine syn s) false s.fault
       | some e =>
         if e == .reader then .err .reader fnd
         else if e == .eoh then
           (if (readLine syn s).line.isEmpty then .ok wf fnd ⟨[], s.fault⟩
            else
             match syn with
             | .fail => .err .synMissingNewline fnd
             | .warn => parseRest syn (parseLoop syn fuel) wf (fnd ++ [.synMissingNewline]) (readLine syn s) true s.fault
             | .ignore => parseRest syn (parseLoop syn fuel) wf fnd (readLine syn s) true s.fault)
         else
           match syn with
           | .fail => .err e fnd
           | .warn => parseRest syn (parseLoop syn fuel) wf (fnd ++ [e]) (readLine syn s) false s.fault
           | .ignore => parseRest syn (parseLoop syn fuel) wf fnd (readLine syn s) false s.fault) := by
  rfl

/-- **the main loop does not depend on its fuel** once the fuel covers the stream: one more unit changes nothing -/
theorem parseLoop_fuel_succ (syn : Pol) (fuel : Nat) : ∀ (wf : Fields) (fnd : List Tag) (s : Stream),
    s.rest.length + 1 ≤ fuel → parseLoop syn fuel wf fnd s = parseLoop syn (fuel + 1) wf fnd s := by
  induction fuel with
  | zero => intro wf fnd s h; omega
  | succ f ih =>
    intro wf fnd s h
    by_cases hs : s.rest = []
    · -- nothing left: this iteration ends the loop without calling the continuation
      rw [parseLoop_succ, parseLoop_succ]
      rw [readLine_empty syn s hs]
      cases s.fault <;> simp
    · have hlt := readLine_rest_lt syn s hs
      have hk : ∀ wf' fnd' (s' : Stream), s'.rest.length ≤ (readLine syn s).rest.length →
          parseLoop syn f wf' fnd' s' = parseLoop syn (f + 1) wf' fnd' s' := by
        intro wf' fnd' s' hle
        apply ih
        omega
      have hpr : ∀ (wf' : Fields) (fnd' : List Tag) (eoh : Bool),
          parseRest syn (parseLoop syn f) wf' fnd' (readLine syn s) eoh s.fault =
          parseRest syn (parseLoop syn (f + 1)) wf' fnd' (readLine syn s) eoh s.fault :=
        fun wf' fnd' eoh => parseRest_congr syn _ _ wf' fnd' _ eoh _ hk
      rw [parseLoop_succ, parseLoop_succ]
      cases (readLine syn s).err with
      | none => simp only; exact hpr _ _ _
      | some e =>
        simp only
        split
        · rfl
        · split
          · split
            · rfl
            · cases syn with
              | fail => rfl
              | warn => simp only; exact hpr _ _ _
              | ignore => simp only; exact hpr _ _ _
          · cases syn with
            | fail => rfl
            | warn => simp only; exact hpr _ _ _
            | ignore => simp only; exact hpr _ _ _

theorem parseLoop_fuel (syn : Pol) (extra fuel : Nat) (wf : Fields) (fnd : List Tag) (s : Stream) (h : s.rest.length + 1 ≤ fuel) :
    parseLoop syn (fuel + extra) wf fnd s = parseLoop syn fuel wf fnd s := by
  induction extra with
  | zero => rfl
  | succ e ih => rw [← Nat.add_assoc, ← parseLoop_fuel_succ syn (fuel + e) wf fnd s (by omega)]; exact ih

/-- **the header parser is total and its model is exact**: for every policy and every stream (with or without a reader
    fault) the result of `parseFields` — which runs the loop with fuel = stream length + 2 — is the result of the loop
    with ANY larger fuel: the loop always ends by itself, after at most (stream length + 2) iterations -/
theorem C05_parse_total (syn : Pol) (s : Stream) (fuel : Nat) (h : s.rest.length + 2 ≤ fuel) :
    parseLoop syn fuel [] [] s = parseFields syn s := by
  unfold parseFields
  obtain ⟨e, rfl⟩ : ∃ e, fuel = (s.rest.length + 2) + e := ⟨fuel - (s.rest.length + 2), by omega⟩
  exact parseLoop_fuel syn e _ _ _ _ (by omega)

/-- the continuation loop as called by the parser (fuel = what is left + 1) equals the loop with any larger fuel -/
theorem C05_cont_total (syn : Pol) (extra : Nat) (line : Bytes) (nc : UInt8) (eoh : Bool) (fnd : List Tag) (s : Stream) :
    contLoop syn (s.rest.length + 1 + extra) line nc eoh fnd s = contLoop syn (s.rest.length + 1) line nc eoh fnd s := by
  induction extra with
  | zero => rfl
  | succ e ih =>
    rw [← Nat.add_assoc, ← contLoop_fuel syn (s.rest.length + 1 + e) line nc eoh fnd s (by unfold spht; split <;> omega)]
    exact ih

/-- the out-of-fuel marker of the model is unreachable: it could only be produced by fuel 0, and fuel 0 is never reached
    with the parser's initial fuel -/
theorem C05_no_fuel_marker (syn : Pol) (s : Stream) : parseFields syn s = parseLoop syn (s.rest.length + 3) [] [] s :=
  (C05_parse_total syn s (s.rest.length + 3) (by omega)).symm

end Gowarc.Props.C05
