/-
  C14 — The spill buffer behaves exactly like an in-memory buffer.

  Model: `Gowarc.Buf`, `Gowarc.Slice` (Model/Buffer.lean), a transcription of internal/diskbuffer tied to /repo by the
  step-wise correspondence (kind `buf`, which also compares the model's `file.isSome` with the existence of the temp file).
  Specification: `Spec.SBuf` — one byte list and an offset.
-/
import Gowarc.Lemmas.BufferLemmas
namespace Gowarc.Props.C14
open Gowarc Gowarc.Spec

/-- operations of the property: writes (Write/WriteString/ReadFrom deliver bytes; ReadFrom's chunking is invisible in the
    model because the memory/file split does not depend on it), then reads -/
inductive Op where
  | write (p : Bytes) | read (n : Nat) | peek (n : Nat) | readBytes (d : UInt8) | seekStart | size

inductive Out where
  | n (k : Nat) | rd (bytes : Bytes) (eof : Bool) | unit
  deriving DecidableEq

def step (b : Buf) : Op → Buf × Out
  | .write p => (b.write p, .n p.length)
  | .read n => ((b.read n).2, .rd (b.read n).1.1 (b.read n).1.2)
  | .peek n => (b, .rd (b.peek n).1 (b.peek n).2)
  | .readBytes d => ((b.readBytes d).2, .rd (b.readBytes d).1.1 (b.readBytes d).1.2)
  | .seekStart => (b.seekStart, .unit)
  | .size => (b, .n b.size)

def specStep (s : SBuf) : Op → SBuf × Out
  | .write p => (s.write p, .n p.length)
  | .read n => ((s.read n).2, .rd (s.read n).1.1 (s.read n).1.2)
  | .peek n => (s, .rd (s.peek n).1 (s.peek n).2)
  | .readBytes d => ({ s with off := (specLine s.data s.off d).2.2 }, .rd (specLine s.data s.off d).1 (specLine s.data s.off d).2.1)
  | .seekStart => ({ s with off := 0 }, .unit)
  | .size => (s, .n s.size)

def run (b : Buf) : List Op → List Out
  | [] => []
  | op :: rest => (step b op).2 :: run (step b op).1 rest

def specRun (s : SBuf) : List Op → List Out
  | [] => []
  | op :: rest => (specStep s op).2 :: specRun (specStep s op).1 rest

/-- abstraction function -/
def abs (b : Buf) : SBuf := ⟨b.data, b.off⟩

/-- the invariant: memory never exceeds the threshold and the temp file exists exactly when memory is full -/
theorem C14_inv_init (max : Nat) (h : 0 < max) : (Buf.new max).Inv := Buf.inv_new max h

/-- one step: same output as the plain buffer, abstraction commutes, invariant preserved — for every threshold. -/
theorem C14_step (b : Buf) (op : Op) (h : b.Inv) :
    (step b op).2 = (specStep (abs b) op).2 ∧ abs (step b op).1 = (specStep (abs b) op).1 ∧ (step b op).1.Inv := by
  cases op with
  | write p =>
    refine ⟨rfl, ?_, Buf.write_inv b p h⟩
    have hoff : (b.write p).off = b.off := by
      unfold Buf.write; split <;> (try split) <;> (try rfl)
    simp only [step, specStep, abs, SBuf.write, Buf.write_data b p h, hoff]
  | read n =>
    have hs := Buf.read_spec b n h
    refine ⟨?_, ?_, ?_⟩
    · simp only [step, specStep, abs, SBuf.read, hs.1]
    · simp only [step, specStep, abs, SBuf.read, hs.2]; rfl
    · show (b.read n).2.Inv
      rw [hs.2]; exact ⟨h.pos, h.le, h.file_iff⟩
  | peek n =>
    refine ⟨?_, rfl, h⟩
    simp only [step, specStep, abs, SBuf.peek, Buf.peek_spec b n h]
  | readBytes d =>
    have hs := Buf.readBytes_spec b d h
    refine ⟨?_, ?_, ?_⟩
    · simp only [step, specStep, abs, hs]
    · simp only [step, specStep, abs, hs]; rfl
    · show (b.readBytes d).2.Inv
      rw [hs]; exact ⟨h.pos, h.le, h.file_iff⟩
  | seekStart => exact ⟨rfl, rfl, ⟨h.pos, h.le, h.file_iff⟩⟩
  | size =>
    refine ⟨?_, rfl, h⟩
    simp only [step, specStep, abs, SBuf.size, Buf.size_eq]

/-- **C14** — for every threshold ≥ 1 and every sequence of writes and reads (any sizes, line reads, peeks, seek to
    start, size) the spill buffer returns exactly the bytes, counts and end-of-data signals of a plain in-memory buffer. -/
theorem C14_refines (ops : List Op) (b : Buf) (h : b.Inv) : run b ops = specRun (abs b) ops := by
  induction ops generalizing b with
  | nil => rfl
  | cons op rest ih =>
    have hs := C14_step b op h
    simp only [run, specRun]
    rw [hs.1, ih _ hs.2.2, hs.2.1]

theorem C14_from_new (max : Nat) (hmax : 0 < max) (ops : List Op) :
    run (Buf.new max) ops = specRun ⟨[], 0⟩ ops := by
  have := C14_refines ops (Buf.new max) (C14_inv_init max hmax)
  simpa [abs, Buf.data, Buf.new] using this

/-- no write can hit the nil file buffer (the Go code would dereference nil there) -/
theorem C14_no_panic (b : Buf) (h : b.Inv) : b.writeFaults = false := Buf.write_no_fault b h

/-- end-of-data is signalled only when nothing remains, and always when a non-empty request returns nothing -/
theorem C14_eof_sound (data : Bytes) (off n : Nat) :
    ((SBuf.readAt data off n).2 = true → data.length ≤ off + (SBuf.readAt data off n).1.length) ∧
    ((SBuf.readAt data off n).1 = [] → 0 < n → (SBuf.readAt data off n).2 = true) := by
  unfold SBuf.readAt
  simp only [decide_eq_true_eq, List.length_take, List.length_drop]
  refine ⟨fun h => by omega, fun he hn => ?_⟩
  have : ((data.drop off).take n).length = 0 := by rw [he]; rfl
  simp at this; omega

/-- read-only slice views (read, peek): bytes of the view, sound end-of-data -/
theorem C14_slice_read (s : Slice) (b : Buf) (off n : Nat) (h : b.Inv) :
    (s.readAt b off n).1 = (SBuf.readAt (SBuf.view b.data s.soff s.len) off n).1 ∧
    ((s.readAt b off n).2 = true → (SBuf.view b.data s.soff s.len).length ≤ off + (s.readAt b off n).1.length) ∧
    ((s.readAt b off n).1 = [] → 0 < n → (s.readAt b off n).2 = true) := Slice.readAt_spec s b off n h

/-- Size of a slice view that lies inside the buffer -/
theorem C14_slice_size (s : Slice) (b : Buf) (hin : s.soff + (s.len.getD 0) ≤ b.data.length) :
    s.size b = ((SBuf.view b.data s.soff s.len).length : Int) := by
  unfold Slice.size SBuf.view
  cases hl : s.len with
  | none => simp [hl] at hin ⊢; rw [Buf.size_eq]; omega
  | some l => simp [hl] at hin ⊢; omega

/- Line reads on slices (`Slice.readBytes`, the 100-byte loop over `readAt`): see `C14_slice_line` in Props/C14slice.lean. -/

/-- non-vacuity: threshold 3 falls inside the first write and inside the line -/
example : run (Buf.new 3) [.write (bs "ab\ncd"), .write (bs "e\nf"), .readBytes 10, .read 2, .peek 9, .readBytes 10, .readBytes 10]
    = [.n 5, .n 3, .rd (bs "ab\n") false, .rd (bs "cd") false, .rd (bs "e\nf") true, .rd (bs "e\n") false, .rd (bs "f") true] := by
  decide

end Gowarc.Props.C14
