/-
  C05, progress — "every call either consumes input or returns an error, so reading any finite input until the first
  error terminates".

  * `parseFields_rest_le` — what the header parser leaves is never longer than what it got.
  * `C05_progress` — whenever Unmarshal returns without an error, the remaining stream is STRICTLY shorter than the
    stream it was given: at least the five magic bytes are gone. For every policy, every option setting, every stream
    and end condition, every verdict of the external validators. (For a gzip member: provided the decoder reports that
    the member has at least one byte — `GzConsumes`, true of any decoder since a member starts with its magic bytes.)
  * `C05_read_until_error_terminates` — the reading loop of the file reader ends by itself: with fuel = stream length
    + 1 it never stops for lack of fuel; any larger fuel returns the same list of results.
-/
import Gowarc.Props.C05total
import Gowarc.Model.Reader
import Gowarc.Lemmas.KeepHdr
namespace Gowarc.Props.C05
open Gowarc

theorem endMarker_rest_le (nc : UInt8) (s s' : Stream) (h : endMarker nc s = some (some s')) : s'.rest.length ≤ s.rest.length := by
  unfold endMarker at h
  have hle : (readBytesNL s.rest).2.1.length ≤ s.rest.length := by
    have := readBytesNL_append s.rest
    have h2 := congrArg List.length this
    simp only [List.length_append] at h2
    omega
  split at h
  · simp only [Option.some.injEq] at h
    split at h
    · simp only [Option.some.injEq] at h; rw [← h]; exact hle
    · cases h
  · split at h
    · simp only [Option.some.injEq] at h
      split at h
      · simp only [Option.some.injEq] at h; rw [← h]; exact hle
      · cases h
    · cases h

theorem afterLine_rest_le (k : Fields → List Tag → Stream → ParseRes) (bound : Nat)
    (hk : ∀ wf fnd (s : Stream) fs f s', s.rest.length ≤ bound → k wf fnd s = .ok fs f s' → s'.rest.length ≤ s.rest.length)
    (wf : Fields) (fnd : List Tag) (nc : UInt8) (eoh : Bool) (s : Stream) (hb : s.rest.length ≤ bound)
    (fs : Fields) (f : List Tag) (s' : Stream) (h : afterLine k wf fnd nc eoh s = .ok fs f s') : s'.rest.length ≤ s.rest.length := by
  unfold afterLine at h
  split at h
  · simp only [ParseRes.ok.injEq] at h; rw [← h.2.2]; exact Nat.le_refl _
  · split at h
    · cases h
    · rename_i s'' hem
      simp only [ParseRes.ok.injEq] at h
      rw [← h.2.2]; exact endMarker_rest_le nc s s'' hem
    · exact hk _ _ _ _ _ _ hb h

theorem parseRest_rest_le (syn : Pol) (k : Fields → List Tag → Stream → ParseRes)
    (wf : Fields) (fnd : List Tag) (lr : LineRes) (eoh fault : Bool)
    (hk : ∀ wf fnd (s : Stream) fs f s', s.rest.length ≤ lr.rest.length → k wf fnd s = .ok fs f s' → s'.rest.length ≤ s.rest.length)
    (fs : Fields) (f : List Tag) (s' : Stream) (h : parseRest syn k wf fnd lr eoh fault = .ok fs f s') :
    s'.rest.length ≤ lr.rest.length := by
  unfold parseRest at h
  cases hc : contLoop syn (lr.rest.length + 1) lr.line lr.nc eoh fnd ⟨lr.rest, fault⟩ with
  | inl e => rw [hc] at h; obtain ⟨e1, e2⟩ := e; cases h
  | inr v =>
    obtain ⟨line, nc, eoh', fnd', s1⟩ := v
    rw [hc] at h
    have hle : s1.rest.length ≤ lr.rest.length := contLoop_rest_le syn _ _ _ _ _ _ _ _ _ _ _ hc
    simp only at h
    have fin : ∀ wf' fnd'', afterLine k wf' fnd'' nc eoh' s1 = .ok fs f s' → s'.rest.length ≤ lr.rest.length := by
      intro wf' fnd'' hh
      exact Nat.le_trans (afterLine_rest_le k lr.rest.length hk wf' fnd'' nc eoh' s1 hle fs f s' hh) hle
    split at h
    · cases syn with
      | fail => cases h
      | warn => exact fin _ _ h
      | ignore => exact fin _ _ h
    · exact fin _ _ h

theorem parseLoop_rest_le (syn : Pol) (fuel : Nat) : ∀ (wf : Fields) (fnd : List Tag) (s : Stream) (fs : Fields) (f : List Tag) (s' : Stream),
    parseLoop syn fuel wf fnd s = .ok fs f s' → s'.rest.length ≤ s.rest.length := by
  induction fuel with
  | zero => intro wf fnd s fs f s' h; rw [parseLoop] at h; cases h
  | succ n ih =>
    intro wf fnd s fs f s' h
    rw [parseLoop_succ] at h
    have hle := readLine_rest_le syn s
    have hk : ∀ wf fnd (s0 : Stream) fs f s', s0.rest.length ≤ (readLine syn s).rest.length → parseLoop syn n wf fnd s0 = .ok fs f s' →
        s'.rest.length ≤ s0.rest.length := fun wf fnd s0 fs f s' _ hh => ih wf fnd s0 fs f s' hh
    have fin : ∀ wf' fnd' eoh, parseRest syn (parseLoop syn n) wf' fnd' (readLine syn s) eoh s.fault = .ok fs f s' →
        s'.rest.length ≤ s.rest.length := fun wf' fnd' eoh hh =>
      Nat.le_trans (parseRest_rest_le syn _ wf' fnd' _ eoh _ hk fs f s' hh) hle
    cases he : (readLine syn s).err with
    | none => rw [he] at h; exact fin _ _ _ h
    | some e =>
      rw [he] at h
      simp only at h
      split at h
      · cases h
      · split at h
        · split at h
          · simp only [ParseRes.ok.injEq] at h; rw [← h.2.2]; exact Nat.zero_le _
          · cases syn with
            | fail => cases h
            | warn => exact fin _ _ _ h
            | ignore => exact fin _ _ _ h
        · cases syn with
          | fail => cases h
          | warn => exact fin _ _ _ h
          | ignore => exact fin _ _ _ h

/-- what the header parser leaves is never longer than what it was given -/
theorem parseFields_rest_le (syn : Pol) (s : Stream) (fs : Fields) (f : List Tag) (s' : Stream)
    (h : parseFields syn s = .ok fs f s') : s'.rest.length ≤ s.rest.length :=
  parseLoop_rest_le syn _ _ _ _ _ _ _ h

section
variable (H : Alg → Bytes → Bytes)

theorem trailer_rest_le (after : Bytes) :
    (if after.take 4 == crlfcrlf then after.drop 4 else after.drop (trailerConsumed (after.take 4))).length ≤ after.length := by
  split <;> simp only [List.length_drop] <;> omega

theorem unmarshalTail_rest_le (o : Opts) (Ω : Oracles) (vt : Bytes) (vi : Nat) (fs : Fields) (s' : Stream) (st st' : St)
    (r : Option Rec) (rest : Bytes) (h : unmarshalTail H o Ω vt vi fs s' st = (.ok (r, rest), st')) :
    rest.length ≤ s'.rest.length := by
  unfold unmarshalTail at h
  obtain ⟨_, s1, _, h⟩ := bind_ok _ _ _ _ _ h
  obtain ⟨_, s2, _, h⟩ := bind_ok _ _ _ _ _ h
  obtain ⟨hd, s3, _, h⟩ := bind_ok _ _ _ _ _ h
  obtain ⟨_, s4, _, h⟩ := bind_ok _ _ _ _ _ h
  obtain ⟨_, s5, _, h⟩ := bind_ok _ _ _ _ _ h
  obtain ⟨_, s5b, _, h⟩ := bind_ok _ _ _ _ _ h
  obtain ⟨_, s6, _, h⟩ := bind_ok _ _ _ _ _ h
  obtain ⟨_, s7, _, h⟩ := bind_ok _ _ _ _ _ h
  simp only [M.pure_def, Prod.mk.injEq, Except.ok.injEq] at h
  rw [← h.1.2]
  refine Nat.le_trans (trailer_rest_le _) ?_
  split
  · simp
  · simp only [List.length_drop]; omega

/-- the record reader behind the five magic bytes never hands back more than it was given -/
theorem afterMagic_rest_le (o : Opts) (Ω : Oracles) (off : Nat) (fnd0 : List Tag) (after : Stream)
    (h : (unmarshalAfterMagic H o Ω off fnd0 after).err = none) :
    (unmarshalAfterMagic H o Ω off fnd0 after).rest.length ≤ after.rest.length := by
  unfold unmarshalAfterMagic at h ⊢
  split
  · simp
  · have hnl : (readBytesNL after.rest).2.1.length ≤ after.rest.length := by
      have h2 := congrArg List.length (readBytesNL_append after.rest)
      simp only [List.length_append] at h2
      omega
    rename_i hfound
    simp only [hfound, ↓reduceIte] at h
    cases hb : unmarshalBody H o Ω ⟨(readBytesNL after.rest).2.1, after.fault⟩ (readBytesNL after.rest).1 ⟨[], fnd0⟩ with
    | mk res st =>
      rw [hb] at h
      cases res with
      | error t => simp at h
      | ok v =>
        obtain ⟨r, rest⟩ := v
        simp only
        unfold unmarshalBody at hb
        obtain ⟨_, t1, _, hb⟩ := bind_ok _ _ _ _ _ hb
        obtain ⟨v, t2, _, hb⟩ := bind_ok _ _ _ _ _ hb
        unfold unmarshalRest at hb
        cases hp : parseFields o.syn ⟨(readBytesNL after.rest).2.1, after.fault⟩ with
        | err t f =>
          rw [hp] at hb
          obtain ⟨_, t3, _, hb⟩ := bind_ok _ _ _ _ _ hb
          simp at hb
        | ok fs f s' =>
          rw [hp] at hb
          obtain ⟨_, t3, _, hb⟩ := bind_ok _ _ _ _ _ hb
          have h1 := unmarshalTail_rest_le H o Ω _ _ fs s' t3 st r rest hb
          have h2 := parseFields_rest_le o.syn _ fs f s' hp
          simp only at h2
          omega

/-- the gzip decoder reports at least one consumed byte for a member it accepts (a member starts with its two magic bytes) -/
def GzConsumes (Ω : Oracles) : Prop := ∀ b c bad n, Ω.gz b = some (.inr (c, bad, n)) → 0 < n

/-- **progress**: a call that returns no error has consumed input -/
theorem C05_progress (o : Opts) (Ω : Oracles) (hgz : GzConsumes Ω) (s : Stream) (h : (unmarshal H o Ω s).err = none) :
    (unmarshal H o Ω s).rest.length < s.rest.length := by
  unfold unmarshal at h ⊢
  cases hsk : skipJunk (s.rest.length + 1) s.rest 0 with
  | inl off =>
    rw [hsk] at h
    simp only at h
    split at h <;> simp at h
  | inr v =>
    obtain ⟨off, atMagic⟩ := v
    rw [hsk] at h
    simp only at h ⊢
    obtain ⟨hsuf, hlen5⟩ : atMagic.length + off = s.rest.length ∧ 5 ≤ atMagic.length := by
      obtain ⟨_, hd, _, h5⟩ := skipJunk_sound (s.rest.length + 1) s.rest 0 off atMagic hsk
      refine ⟨?_, h5⟩
      have hl := congrArg List.length hd
      simp only [List.length_drop, Nat.sub_zero] at hl
      omega
    by_cases c1 : (o.syn == Pol.fail && decide (off > 0)) = true
    · simp [c1] at h
    · simp only [c1, Bool.false_eq_true, ↓reduceIte] at h ⊢
      by_cases c2 : (atMagic.take 2 == [0x1f, 0x8b]) = true
      · -- gzip member
        simp only [c2, ↓reduceIte] at h ⊢
        cases hv : Ω.gz atMagic with
        | none => rw [hv] at h; simp at h
        | some w =>
          rw [hv] at h
          cases w with
          | inl t => simp at h
          | inr trip =>
            obtain ⟨content, bad, consumed⟩ := trip
            simp only at h ⊢
            have hpos := hgz atMagic content bad consumed hv
            by_cases c3 : content.length < 5
            · simp [c3] at h
            · simp only [c3, ↓reduceIte] at h ⊢
              by_cases c4 : (content.take 5 != bs "WARC/") = true
              · simp [c4] at h
              · simp only [c4, Bool.false_eq_true, ↓reduceIte] at h ⊢
                generalize (if (o.syn != Pol.ignore && off != 0) = true then [Tag.synJunk] else []) = fnd0 at h ⊢
                unfold gzFinish at h ⊢
                cases he : (unmarshalAfterMagic H o Ω off fnd0 ⟨content.drop 5, bad⟩).err with
                | some e =>
                  simp only [he] at h
                  cases h
                | none =>
                  simp only [he] at h ⊢
                  by_cases c5 : bad = true
                  · simp [c5] at h
                  · simp only [c5, Bool.false_eq_true, ↓reduceIte, List.length_drop]
                    omega
      · simp only [c2, Bool.false_eq_true, ↓reduceIte] at h ⊢
        have := afterMagic_rest_le H o Ω off (if (o.syn != Pol.ignore && off != 0) = true then [Tag.synJunk] else []) ⟨atMagic.drop 5, s.fault⟩ h
        simp only [List.length_drop] at this
        omega

/-- **reading until the first error terminates**: with fuel = stream length + 1 the reading loop never stops for lack of
    fuel — one more unit of fuel changes nothing -/
theorem readLoop_fuel_succ (o : Opts) (Ω : Oracles) (hgz : GzConsumes Ω) (fuel : Nat) : ∀ (base : Nat) (s : Stream),
    s.rest.length + 1 ≤ fuel → readLoop H o Ω fuel base s = readLoop H o Ω (fuel + 1) base s := by
  induction fuel with
  | zero => intro base s h; omega
  | succ n ih =>
    intro base s h
    rw [readLoop, readLoop]
    cases he : (unmarshal H o Ω s).err with
    | some e => rfl
    | none =>
      simp only
      have hp := C05_progress H o Ω hgz s he
      rw [ih _ ⟨(unmarshal H o Ω s).rest, s.fault⟩ (by simp only; omega)]

/-- … and it ends with an error item (io.EOF at the end of the input, or the first real error): every item before the
    last carries no error, the last one does -/
theorem C05_read_until_error_terminates (o : Opts) (Ω : Oracles) (hgz : GzConsumes Ω) (fuel : Nat) : ∀ (base : Nat) (s : Stream),
    s.rest.length + 1 ≤ fuel →
    ∃ items last, readLoop H o Ω fuel base s = items ++ [last] ∧ last.err ≠ none ∧ ∀ x ∈ items, x.err = none := by
  induction fuel with
  | zero => intro base s h; omega
  | succ n ih =>
    intro base s h
    rw [readLoop]
    cases he : (unmarshal H o Ω s).err with
    | some e => exact ⟨[], _, rfl, by simp, by simp⟩
    | none =>
      simp only
      have hp := C05_progress H o Ω hgz s he
      obtain ⟨items, last, hl, hlast, hall⟩ := ih (base + (s.rest.length - (unmarshal H o Ω s).rest.length)) ⟨(unmarshal H o Ω s).rest, s.fault⟩ (by simp only; omega)
      refine ⟨_ :: items, last, by rw [hl]; rfl, hlast, ?_⟩
      intro x hx
      simp only [List.mem_cons] at hx
      rcases hx with rfl | hx
      · rfl
      · exact hall x hx

/-- the file reader's loop (`readAllRecs`: fuel = length + 2) is therefore the complete reading of the stream -/
theorem readAllRecs_complete (o : Opts) (Ω : Oracles) (hgz : GzConsumes Ω) (data : Bytes) :
    ∃ items last, readAllRecs H o Ω data = items ++ [last] ∧ last.err ≠ none ∧ ∀ x ∈ items, x.err = none :=
  C05_read_until_error_terminates H o Ω hgz _ 0 ⟨data, false⟩ (by simp)

end

/-- non-vacuity: an oracle without gzip verdicts consumes -/
example : GzConsumes ⟨fun _ => true, fun _ => true, fun _ => true, fun _ _ => true, fun _ => none⟩ := by
  intro b c bad n h; cases h

end Gowarc.Props.C05
