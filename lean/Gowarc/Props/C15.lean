/-
  C15 — No temporary file or descriptor outlives Close.

  Model: `RState` (Model/Resources.lean) — which handle (builder, record, derived record, reader) closes which spill
  buffer; a buffer has a temp file + descriptor from the moment its memory part is full until it is closed.
  Tie: correspondence kind `res` — scenarios of API calls (builders with sizes around the threshold, Build with and
  without errors, Unmarshal of every block kind with read faults at every position, ToRevisitRecord / Merge, Marshal into
  failing writers, reader construction with valid and rejected offsets, Close in any order, twice); after EVERY step the
  harness lists a private temp directory and /proc/self/fd and the numbers must equal the model's; after closing what was
  returned both must be zero (judged on the implementation).

  Theorems: in every reachable state every buffer that has a temp file belongs to a handle whose Close still takes
  effect — a builder or reader (every Close), a record that has not been closed yet (a record's Close works once,
  record.go drops the closer) — (`C15_owned`), and closing the handles — in any order, any number of times — leaves no temp file and no descriptor
  (`C15_close`). Close is NOT terminal for a buffer that has not spilled yet (diskbuffer.Close only deals with the file
  part): bytes written into a builder after its Close may still spill, and the next Close removes that file — histories
  with Close, Write, Close are part of the quantifier (seed C15-j).
-/
import Gowarc.Model.Resources
namespace Gowarc.Props.C15
open Gowarc Gowarc.RState

@[reducible] def Owned (s : RState) : Prop :=
  ∀ (i : Nat) (b : RBuf), s.bufs[i]? = some b → b.hasFile = true →
    ∃ (h : Nat) (hd : RHandle), s.handles[h]? = some hd ∧ hd.live = true ∧ i ∈ hd.bufs

def Closed (hd : RHandle) : Prop := hd.isOpen = false ∧ hd.fd = false

theorem shut_shut (b : RBuf) : b.shut.shut = b.shut := by
  unfold RBuf.shut; split <;> simp_all

theorem shut_noFile (b : RBuf) : b.shut.hasFile = false := by
  unfold RBuf.shut RBuf.hasFile
  split
  · simp
  · rename_i h; simp only [Bool.and_eq_false_imp, Bool.not_eq_eq_eq_not, Bool.not_true, decide_eq_false_iff_not]; intro _; exact h

theorem closeBuf_get (bufs : List RBuf) (j i : Nat) :
    (closeBuf bufs j)[i]? = (bufs[i]?).map (fun b => if j = i then b.shut else b) := by
  unfold closeBuf
  rw [List.getElem?_modify]
  cases bufs[i]? <;> simp

theorem closeBufs_get (is : List Nat) (bufs : List RBuf) (i : Nat) :
    (closeBufs bufs is)[i]? = (bufs[i]?).map (fun b => if i ∈ is then b.shut else b) := by
  unfold closeBufs
  induction is generalizing bufs with
  | nil => simp
  | cons j rest ih =>
    rw [List.foldl_cons, ih, closeBuf_get]
    cases bufs[i]? with
    | none => rfl
    | some b =>
      simp only [Option.map_some, Option.some.injEq]
      by_cases hj : j = i
      · subst hj
        by_cases hr : j ∈ rest
        · simp [hr, shut_shut]
        · simp [hr]
      · have : i ≠ j := fun e => hj e.symm
        simp [hj, this]

theorem handles_append_get (hs : List RHandle) (n : RHandle) (h : Nat) (hd : RHandle) (hg : hs[h]? = some hd) :
    (hs ++ [n])[h]? = some hd := by
  have hlt : h < hs.length := by
    rcases Nat.lt_or_ge h hs.length with hl | hl
    · exact hl
    · rw [List.getElem?_eq_none hl] at hg; cases hg
  rw [List.getElem?_append_left hlt]; exact hg

/-- adding a handle keeps every buffer with a temp file owned, provided new such buffers belong to the new (live) handle -/
theorem owned_add_handle (s : RState) (n : RHandle) (bufs' : List RBuf) (h : Owned s)
    (hb : ∀ i b', bufs'[i]? = some b' → b'.hasFile = true → (∃ b, s.bufs[i]? = some b ∧ b.hasFile = true) ∨ (n.live = true ∧ i ∈ n.bufs)) :
    Owned ⟨bufs', s.handles ++ [n]⟩ := by
  intro i b' hg hc
  rcases hb i b' hg hc with ⟨b, hgb, hcb⟩ | ⟨hl, hi⟩
  · obtain ⟨hh, hd, hgh, hlv, hm⟩ := h i b hgb hcb
    exact ⟨hh, hd, handles_append_get _ _ _ _ hgh, hlv, hm⟩
  · exact ⟨s.handles.length, n, by simp, hl, hi⟩

/-- bytes are added only to the buffers in the list -/
theorem grow_get_notin (n : Nat) (is : List Nat) (bs : List RBuf) (i : Nat) (hi : i ∉ is) :
    (is.foldl (fun bs i => bs.modify i (fun b => { b with size := b.size + n })) bs)[i]? = bs[i]? := by
  induction is generalizing bs with
  | nil => rfl
  | cons j rest ih =>
    rw [List.foldl_cons, ih _ (fun hm => hi (List.mem_cons_of_mem _ hm)), List.getElem?_modify]
    have : j ≠ i := fun e => hi (by rw [e]; exact List.mem_cons_self)
    cases bs[i]? <;> simp [this]

theorem step_owned (s : RState) (op : ROp) (h : Owned s) : Owned (step s op) := by
  cases op with
  | newBuilder max =>
    apply owned_add_handle s _ _ h
    intro i b' hg hc
    by_cases hi : i < s.bufs.length
    · left; rw [List.getElem?_append_left hi] at hg; exact ⟨b', hg, hc⟩
    · right
      have : i = s.bufs.length := by
        rcases Nat.lt_or_ge i (s.bufs ++ [(⟨max, 0, false⟩ : RBuf)]).length with hl | hl
        · simp at hl; omega
        · rw [List.getElem?_eq_none hl] at hg; cases hg
      exact ⟨rfl, by simp [this]⟩
  | write hh n =>
    show Owned (if s.handleOnce hh = true then s else _)
    by_cases ho : s.handleOnce hh = true
    · simp only [ho, ↓reduceIte]; exact h
    · simp only [ho, Bool.false_eq_true, ↓reduceIte]
      intro i b' hg hc
      by_cases hin : i ∈ s.handleBufs hh
      · -- the handle written through owns the buffer and is a builder, hence live
        unfold handleBufs at hin
        unfold handleOnce at ho
        cases hgh : s.handles[hh]? with
        | none => rw [hgh] at hin; cases hin
        | some hd =>
          rw [hgh] at hin ho
          exact ⟨hh, hd, hgh, by unfold RHandle.live; simp at ho; simp [ho], hin⟩
      · replace hg : (List.foldl _ s.bufs (s.handleBufs hh))[i]? = some b' := hg
        rw [grow_get_notin n _ _ i hin] at hg
        exact h i b' hg hc
  | build hh =>
    apply owned_add_handle s _ _ h
    intro i b' hg hc; left; exact ⟨b', hg, hc⟩
  | unmarshal cache =>
    cases cache with
    | none =>
      apply owned_add_handle s _ _ h
      intro i b' hg hc; left; exact ⟨b', hg, hc⟩
    | some mn =>
      obtain ⟨max, n⟩ := mn
      apply owned_add_handle s _ _ h
      intro i b' hg hc
      by_cases hi : i < s.bufs.length
      · left; rw [List.getElem?_append_left hi] at hg; exact ⟨b', hg, hc⟩
      · right
        have : i = s.bufs.length := by
          rcases Nat.lt_or_ge i (s.bufs ++ [(⟨max, n, false⟩ : RBuf)]).length with hl | hl
          · simp at hl; omega
          · rw [List.getElem?_eq_none hl] at hg; cases hg
        exact ⟨rfl, by simp [this]⟩
  | derive =>
    apply owned_add_handle s _ _ h
    intro i b' hg hc; left; exact ⟨b', hg, hc⟩
  | openReader =>
    apply owned_add_handle s _ _ h
    intro i b' hg hc; left; exact ⟨b', hg, hc⟩
  | merge hrev horig hasCloser =>
    show Owned (if hasCloser = true then (⟨s.bufs, s.handles.modify hrev (fun hd => { hd with bufs := hd.bufs ++ s.handleBufs horig })⟩ : RState) else s)
    split
    · intro i b hg hc
      obtain ⟨hh, hd, hgh, hlv, hm⟩ := h i b hg hc
      refine ⟨hh, if hrev = hh then { hd with bufs := hd.bufs ++ s.handleBufs horig } else hd, ?_, ?_, ?_⟩
      · show (s.handles.modify hrev _)[hh]? = _
        rw [List.getElem?_modify, hgh]; rfl
      · split <;> exact hlv
      · split
        · simp [hm]
        · exact hm
    · exact h
  | close hh =>
    intro i b' hg hc
    by_cases hl : s.handleLive hh = true
    · replace hg : (if s.handleLive hh = true then closeBufs s.bufs (s.handleBufs hh) else s.bufs)[i]? = some b' := hg
      simp only [hl, ↓reduceIte] at hg
      rw [closeBufs_get] at hg
      cases hb : s.bufs[i]? with
      | none => rw [hb] at hg; cases hg
      | some b =>
        rw [hb] at hg
        simp only [Option.map_some, Option.some.injEq] at hg
        by_cases hin : i ∈ s.handleBufs hh
        · simp only [hin, ↓reduceIte] at hg
          rw [← hg, shut_noFile] at hc; cases hc
        · simp only [hin, ↓reduceIte] at hg
          subst hg
          obtain ⟨h2, hd, hgh, hlv, hm⟩ := h i b hb hc
          have hne : hh ≠ h2 := by
            intro e; subst e
            apply hin
            unfold handleBufs; rw [hgh]; exact hm
          refine ⟨h2, hd, ?_, hlv, hm⟩
          show (s.handles.modify hh _)[h2]? = _
          rw [List.getElem?_modify, hgh]; simp [hne]
    · -- a closed record: the buffers are untouched; so is every OTHER handle, and this one was not live
      replace hg : (if s.handleLive hh = true then closeBufs s.bufs (s.handleBufs hh) else s.bufs)[i]? = some b' := hg
      simp only [hl, Bool.false_eq_true, ↓reduceIte] at hg
      obtain ⟨h2, hd, hgh, hlv, hm⟩ := h i b' hg hc
      have hne : hh ≠ h2 := by
        intro e; subst e
        apply hl
        unfold handleLive; rw [hgh]; exact hlv
      refine ⟨h2, hd, ?_, hlv, hm⟩
      show (s.handles.modify hh _)[h2]? = _
      rw [List.getElem?_modify, hgh]; simp [hne]

/-- **every buffer that has a temp file belongs to a handle whose Close still takes effect**, in every reachable state -/
theorem C15_owned (ops : List ROp) : Owned (run RState.init ops) := by
  suffices ∀ s, Owned s → Owned (run s ops) from this _ (by intro i b hg; simp [RState.init] at hg)
  induction ops with
  | nil => intro s h; exact h
  | cons op rest ih => intro s h; exact ih _ (step_owned s op h)

theorem close_length (s : RState) (a : Nat) : (step s (.close a)).handles.length = s.handles.length := by
  show (s.handles.modify a _).length = _
  rw [List.length_modify]

theorem run_close_length (L : List Nat) (s : RState) : (run s (L.map ROp.close)).handles.length = s.handles.length := by
  induction L generalizing s with
  | nil => rfl
  | cons a rest ih => rw [List.map_cons, run, ih, close_length]

/-- a closed handle stays closed under further Close calls (Close twice is harmless) -/
theorem closed_stays (L : List Nat) (s : RState) (h : Nat) (hc : ∃ hd, s.handles[h]? = some hd ∧ Closed hd) :
    ∃ hd', (run s (L.map ROp.close)).handles[h]? = some hd' ∧ Closed hd' := by
  induction L generalizing s with
  | nil => exact hc
  | cons a rest ih =>
    rw [List.map_cons, run]
    apply ih
    obtain ⟨hd, hg, hcl⟩ := hc
    show ∃ hd', (s.handles.modify a _)[h]? = some hd' ∧ _
    rw [List.getElem?_modify, hg]
    by_cases ha : a = h
    · exact ⟨{ hd with fd := false, isOpen := false }, by simp [ha], rfl, rfl⟩
    · exact ⟨hd, by simp [ha], hcl⟩

/-- every handle in the list is closed afterwards -/
theorem run_close_closes (L : List Nat) (s : RState) (h : Nat) (hm : h ∈ L) (hlt : h < s.handles.length) :
    ∃ hd', (run s (L.map ROp.close)).handles[h]? = some hd' ∧ Closed hd' := by
  induction L generalizing s with
  | nil => cases hm
  | cons a rest ih =>
    rw [List.map_cons, run]
    by_cases ha : a = h
    · apply closed_stays
      show ∃ hd', (s.handles.modify a _)[h]? = some hd' ∧ _
      rw [List.getElem?_modify, List.getElem?_eq_getElem hlt]
      exact ⟨{ s.handles[h] with fd := false, isOpen := false }, by simp [ha], rfl, rfl⟩
    · rcases List.mem_cons.1 hm with e | e
      · exact absurd e.symm ha
      · exact ih _ e (by rw [close_length]; exact hlt)

/-- Close leaves the lists of buffers the handles own alone -/
theorem close_handleBufs (s : RState) (a h : Nat) : (step s (.close a)).handleBufs h = s.handleBufs h := by
  unfold handleBufs
  show (match (s.handles.modify a _)[h]? with | some hd => hd.bufs | none => []) = _
  rw [List.getElem?_modify]
  cases s.handles[h]? with
  | none => rfl
  | some hd => by_cases e : a = h <;> simp [e]

/-- Close on one handle does not change whether Close on ANOTHER one takes effect -/
theorem close_handleLive_other (s : RState) (a h : Nat) (hne : a ≠ h) : (step s (.close a)).handleLive h = s.handleLive h := by
  unfold handleLive
  show (match (s.handles.modify a _)[h]? with | some hd => hd.live | none => false) = _
  rw [List.getElem?_modify]
  cases s.handles[h]? with
  | none => rfl
  | some hd => simp [hne]

/-- closing handles: a buffer without temp file stays without one; a buffer of a handle in the list whose Close takes
    effect ends without one -/
theorem run_close_noFile (L : List Nat) (s : RState) (i : Nat) (b : RBuf) (hg : s.bufs[i]? = some b)
    (hcase : b.hasFile = false ∨ ∃ h ∈ L, s.handleLive h = true ∧ i ∈ s.handleBufs h) :
    ∃ b', (run s (L.map ROp.close)).bufs[i]? = some b' ∧ b'.hasFile = false := by
  induction L generalizing s b with
  | nil =>
    rcases hcase with e | ⟨h, hm, _⟩
    · exact ⟨b, hg, e⟩
    · cases hm
  | cons a rest ih =>
    rw [List.map_cons, run]
    by_cases hl : s.handleLive a = true
    · have hstep : (step s (.close a)).bufs[i]? = some (if i ∈ s.handleBufs a then b.shut else b) := by
        show (if s.handleLive a = true then closeBufs s.bufs (s.handleBufs a) else s.bufs)[i]? = _
        simp only [hl, ↓reduceIte]
        rw [closeBufs_get, hg]; rfl
      apply ih (step s (.close a)) _ hstep
      by_cases hin : i ∈ s.handleBufs a
      · left; simp only [hin, ↓reduceIte]; exact shut_noFile b
      · simp only [hin, ↓reduceIte]
        rcases hcase with e | ⟨h, hm, hlv, hi⟩
        · exact Or.inl e
        · rcases List.mem_cons.1 hm with e | e
          · subst e; exact absurd hi hin
          · have hne : a ≠ h := by intro e2; subst e2; exact hin hi
            exact Or.inr ⟨h, e, by rw [close_handleLive_other s a h hne]; exact hlv, by rw [close_handleBufs]; exact hi⟩
    · have hstep : (step s (.close a)).bufs[i]? = some b := by
        show (if s.handleLive a = true then closeBufs s.bufs (s.handleBufs a) else s.bufs)[i]? = _
        simp only [hl, Bool.false_eq_true, ↓reduceIte]; exact hg
      apply ih (step s (.close a)) _ hstep
      rcases hcase with e | ⟨h, hm, hlv, hi⟩
      · exact Or.inl e
      · rcases List.mem_cons.1 hm with e | e
        · subst e; exact absurd hlv hl
        · have hne : a ≠ h := by intro e2; subst e2; exact hl hlv
          exact Or.inr ⟨h, e, by rw [close_handleLive_other s a h hne]; exact hlv, by rw [close_handleBufs]; exact hi⟩

theorem run_close_bufs_length (L : List Nat) (s : RState) : (run s (L.map ROp.close)).bufs.length = s.bufs.length := by
  induction L generalizing s with
  | nil => rfl
  | cons a rest ih =>
    rw [List.map_cons, run, ih]
    show (if s.handleLive a = true then closeBufs s.bufs (s.handleBufs a) else s.bufs).length = _
    split
    · unfold closeBufs
      generalize s.handleBufs a = is
      generalize s.bufs = bs
      induction is generalizing bs with
      | nil => rfl
      | cons j r ih2 => rw [List.foldl_cons, ih2]; unfold closeBuf; rw [List.length_modify]
    · rfl

/-- **after Close on everything the caller holds no temp file and no descriptor remains** -/
theorem C15_close (s : RState) (h : Owned s) : (closeAll s).files = 0 ∧ (closeAll s).fds = 0 := by
  unfold closeAll
  have hlen := run_close_length (List.range s.handles.length) s
  have hblen := run_close_bufs_length (List.range s.handles.length) s
  have hp := fun h hlt => run_close_closes (List.range s.handles.length) s h (List.mem_range.2 hlt) hlt
  have hnf := run_close_noFile (List.range s.handles.length) s
  generalize run s ((List.range s.handles.length).map ROp.close) = t at *
  have hall : ∀ (hh : Nat) (hd : RHandle), t.handles[hh]? = some hd → hd.isOpen = false ∧ hd.fd = false := by
    intro hh hd hg
    have hlt : hh < s.handles.length := by
      rcases Nat.lt_or_ge hh t.handles.length with hl | hl
      · rw [hlen] at hl; exact hl
      · rw [List.getElem?_eq_none hl] at hg; cases hg
    obtain ⟨hd', hg', hc'⟩ := hp hh hlt
    rw [hg] at hg'; cases hg'; exact hc'
  have hfiles : t.files = 0 := by
    unfold files
    rw [List.length_eq_zero_iff, List.filter_eq_nil_iff]
    intro b' hb
    obtain ⟨i, hi, hgi⟩ := List.getElem_of_mem hb
    have hg' : t.bufs[i]? = some b' := by rw [List.getElem?_eq_getElem hi, hgi]
    have his : i < s.bufs.length := by rw [← hblen]; exact hi
    have hgs : s.bufs[i]? = some s.bufs[i] := List.getElem?_eq_getElem his
    have hcase : (s.bufs[i]).hasFile = false ∨ ∃ hh ∈ List.range s.handles.length, s.handleLive hh = true ∧ i ∈ s.handleBufs hh := by
      cases hc : (s.bufs[i]).hasFile with
      | false => exact Or.inl rfl
      | true =>
        right
        obtain ⟨hh, hd, hgh, hlv, hm⟩ := h i _ hgs hc
        have hlt : hh < s.handles.length := by
          rcases Nat.lt_or_ge hh s.handles.length with hl | hl
          · exact hl
          · rw [List.getElem?_eq_none hl] at hgh; cases hgh
        exact ⟨hh, List.mem_range.2 hlt, by unfold handleLive; rw [hgh]; exact hlv, by unfold handleBufs; rw [hgh]; exact hm⟩
    obtain ⟨b'', hg'', hnf''⟩ := hnf i _ hgs hcase
    rw [hg'] at hg''; cases hg''
    simp [hnf'']
  refine ⟨hfiles, ?_⟩
  unfold fds
  rw [hfiles, Nat.zero_add, List.length_eq_zero_iff, List.filter_eq_nil_iff]
  intro hd hm
  obtain ⟨i, hi, hgi⟩ := List.getElem_of_mem hm
  have := (hall i hd (by rw [List.getElem?_eq_getElem hi, hgi])).2
  simp [this]

/-- **right after a Close that takes effect (any Close on a builder or reader, the first Close on a record) none of the
    handle's buffers has a temp file** — in any state, whatever was written before (also into a builder that had been
    closed earlier) -/
theorem C15_close_releases (s : RState) (h i : Nat) (b : RBuf) (hg : s.bufs[i]? = some b) (hl : s.handleLive h = true)
    (hi : i ∈ s.handleBufs h) :
    ∃ b', (step s (.close h)).bufs[i]? = some b' ∧ b'.hasFile = false :=
  run_close_noFile [h] s i b hg (Or.inr ⟨h, by simp, hl, hi⟩)

/-- the full statement: any scenario, then Close on everything that was returned -/
theorem C15_scenario (ops : List ROp) : (closeAll (run RState.init ops)).files = 0 ∧ (closeAll (run RState.init ops)).fds = 0 :=
  C15_close _ (C15_owned ops)

/-! ### non-vacuity: a builder that spilled, a record built from it, a reader -/
example : (run RState.init [.newBuilder 4, .write 0 9, .build 0, .openReader]).files = 1 ∧
          (run RState.init [.newBuilder 4, .write 0 9, .build 0, .openReader]).fds = 2 := by decide
example : (closeAll (run RState.init [.newBuilder 4, .write 0 9, .build 0, .openReader])).fds = 0 := by decide
-- Close on a builder that has not spilled, a write that spills, Close again: the file exists in between and is gone at the end
-- Build, Close(record), a spilling write into the builder, Close(record) again: the second Close releases nothing, the
-- builder's Close does
example : (run RState.init [.newBuilder 4, .write 0 2, .build 0, .close 1, .write 0 9, .close 1]).files = 1 ∧
          (run RState.init [.newBuilder 4, .write 0 2, .build 0, .close 1, .write 0 9, .close 1, .close 0]).files = 0 := by decide
example : (run RState.init [.newBuilder 4, .write 0 2, .close 0, .write 0 9]).files = 1 ∧
          (run RState.init [.newBuilder 4, .write 0 2, .close 0, .write 0 9, .close 0]).files = 0 := by decide

end Gowarc.Props.C15
