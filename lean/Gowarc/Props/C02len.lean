/-
  C02, "under every error-policy setting": the Content-Length the builder adds itself equals the exact number of block
  bytes that get serialized — for EVERY policy setting (spec checking off included) and every repair option, every block
  kind, every content (shorter than 2^63 - 2 bytes).

  `C02_build_truthful` needs spec checking on (the length is then checked and repaired by ValidateDigest). This theorem
  follows the field from the moment the builder adds it: the HTTP-terminator repair adds the two bytes it appends, the
  warc-fields block repair is followed by the adjustment made in Build (fix 06457a1), ValidateDigest never disagrees.
-/
import Gowarc.Props.C02e2e
import Gowarc.Lemmas.Decimal
namespace Gowarc.Props.C02
open Gowarc Gowarc.Props.C20

section
variable (H : Alg → Bytes → Bytes)

theorem checkDigest_get_other (o : Opts) (field : Bytes) (tag : Tag) (d : Digest) (data : Bytes) (st st' : St)
    (h : checkDigest H o field tag d data st = (.ok (), st')) :
    ∀ k, canon k ≠ canon field → st'.hdr.get k = st.hdr.get k := by
  intro k hk
  unfold checkDigest at h
  simp only [M.bind_def, M.hdr_def] at h
  by_cases he : d.hash.isEmpty = true
  · simp only [he, ↓reduceIte, M.setHdr_def, Prod.mk.injEq, Except.ok.injEq, true_and] at h
    subst h
    simp only
    split
    · exact get_set_other _ _ _ _ hk
    · rfl
  · simp only [he, Bool.false_eq_true, ↓reduceIte, M.bind_def, M.hdr_def, M.setHdr_def] at h
    cases hc : condSite (o.spec != Pol.ignore && !d.valid H data) o.spec tag st with
    | mk r1 s1 =>
      rw [hc] at h
      cases r1 with
      | error e => simp at h
      | ok u1 =>
        have k1 : s1.hdr = st.hdr := keep_of_eq (KeepHdr.condSite _ _ _) hc
        simp only [Prod.mk.injEq, Except.ok.injEq, true_and] at h
        subst h
        simp only
        split
        · rw [get_set_other _ _ _ _ hk, k1]
        · rw [k1]

/-- ValidateDigest leaves a truthful Content-Length alone, whatever the options are -/
theorem validateDigest_length (o : Opts) (rt : Nat) (b : Block) (fault : Bool) (st st' : St)
    (hget : st.hdr.get (bs "Content-Length") = natToDec b.raw.length)
    (h : validateDigest H o rt b fault st = (.ok (), st')) :
    st'.hdr.get (bs "Content-Length") = natToDec b.raw.length := by
  unfold validateDigest at h
  simp only [M.bind_def, M.hdr_def, M.setHdr_def] at h
  have hlb : lengthBad o st.hdr b = false := by unfold lengthBad; rw [hget]; simp
  cases h1 : condFail (fault && (b.kind == .generic || b.kind == .httpReq || b.kind == .httpResp)) .reader st with
  | mk r1 s1 =>
    rw [h1] at h
    cases r1 with
    | error e => simp at h
    | ok u1 =>
      have e1 : s1 = st := by
        unfold condFail at h1
        split at h1
        · simp at h1
        · simp only [M.pure_def, Prod.mk.injEq] at h1; exact h1.2.symm
      subst e1
      simp only [hlb, condSite_false, Bool.false_and, Bool.false_eq_true, ↓reduceIte] at h
      cases h6 : checkDigest H o (bs "WARC-Block-Digest") .digestBlock b.blockDigest b.raw ⟨s1.hdr, s1.fnd⟩ with
      | mk r6 s6 =>
        rw [h6] at h
        cases r6 with
        | error e => simp at h
        | ok u6 =>
          simp only at h
          have g6 : s6.hdr.get (bs "Content-Length") = natToDec b.raw.length := by
            rw [checkDigest_get_other H o _ _ _ _ _ s6 h6 _ (by decide)]; exact hget
          by_cases hrv : (rt == RT_Revisit || s6.hdr.has (bs "WARC-Segment-Number")) = true
          · simp only [hrv, ↓reduceIte, M.pure_def, Prod.mk.injEq, Except.ok.injEq, true_and] at h; subst h; exact g6
          · simp only [hrv, Bool.false_eq_true, ↓reduceIte] at h
            cases hpd : b.payloadDigest with
            | none => simp only [hpd, M.pure_def, Prod.mk.injEq, Except.ok.injEq, true_and] at h; subst h; exact g6
            | some pd =>
              simp only [hpd] at h
              rw [checkDigest_get_other H o _ _ _ _ s6 st' h _ (by decide)]; exact g6

/-- the length field through parseBlock: it follows the HTTP-terminator repair; a warc-fields block may have been
    rewritten (its length is then adjusted by Build) -/
theorem parseBlock_length (o : Opts) (Ω : Oracles) (rt : Nat) (content : Bytes) (s s' : St) (b : Block)
    (hsz : content.length + 2 ≤ 9223372036854775807)
    (hcl : s.hdr.has (bs "Content-Length") = true) (hget : s.hdr.get (bs "Content-Length") = natToDec content.length)
    (h : parseBlock o Ω rt content false s = (.ok b, s')) :
    (b.kind ≠ .warcFields → s'.hdr.get (bs "Content-Length") = natToDec b.raw.length) ∧
    (b.kind = .warcFields → s'.hdr.get (bs "Content-Length") = natToDec content.length) := by
  unfold parseBlock at h
  obtain ⟨bd, s1, h1, h⟩ := bind_ok _ _ _ _ _ h
  obtain ⟨pd, s2, h2, h⟩ := bind_ok _ _ _ _ _ h
  obtain ⟨hd, s3, h3, h⟩ := bind_ok _ _ _ _ _ h
  have k1 : s1.hdr = s.hdr := keep_of_eq (digestFromField_keep o _) h1
  have k2 : s2.hdr = s1.hdr := keep_of_eq (digestFromField_keep o _) h2
  simp only [M.hdr_def, Prod.mk.injEq, Except.ok.injEq] at h3
  obtain ⟨e3, e4⟩ := h3
  subst e4
  have hcl2 : s2.hdr.has (bs "Content-Length") = true := by rw [k2, k1]; exact hcl
  have hget2 : s2.hdr.get (bs "Content-Length") = natToDec content.length := by rw [k2, k1]; exact hget
  by_cases c1 : (!o.skipParseBlock && rt &&& Gen.httpBlockMask != 0 && hasPrefix (bs Gen.c_ApplicationHttp) (lowerKey (hd.get (bs "Content-Type")))) = true
  · simp only [c1, ↓reduceIte] at h
    unfold newHttpBlock at h
    simp only [M.bind_def, M.hdr_def, M.setHdr_def, M.pure_def] at h
    by_cases g1 : decide (content.length < 4) = true
    · simp [condFail, g1] at h
    · simp only [condFail, g1, Bool.false_eq_true, ↓reduceIte, M.pure_def] at h
      cases q2 : condSite (!(headerBytes content).2.2) o.syn .httpEoh s2 with
      | mk r2 t2 =>
        rw [q2] at h
        cases r2 with
        | error e => simp at h
        | ok u2 =>
          have j2 : t2.hdr = s2.hdr := keep_of_eq (KeepHdr.condSite _ _ _) q2
          simp only at h
          generalize hst : (St.mk (if (!(headerBytes content).2.2 && o.fixSyntaxErrors && t2.hdr.has (bs "Content-Length")) = true then setInt t2.hdr (bs "Content-Length") (wrap64 (contentLengthOf t2.hdr + 2)) else t2.hdr) t2.fnd) = t4 at h
          generalize (!Ω.http _ _) = cb at h
          cases q5 : condSite cb o.blk .httpParse t4 with
          | mk r5 t5 =>
            rw [q5] at h
            cases r5 with
            | error e => simp at h
            | ok u5 =>
              have j5 : t5.hdr = t4.hdr := keep_of_eq (KeepHdr.condSite _ _ _) q5
              simp only [Prod.mk.injEq, Except.ok.injEq] at h
              obtain ⟨hb, hs'⟩ := h
              have hsplit := headerBytes_append content
              have hlen : (headerBytes content).1.length + (headerBytes content).2.1.length = content.length := by
                have := congrArg List.length hsplit; simpa using this
              have hcl3 : t2.hdr.has (bs "Content-Length") = true := by rw [j2]; exact hcl2
              have hget3 : t2.hdr.get (bs "Content-Length") = natToDec content.length := by rw [j2]; exact hget2
              constructor
              · intro _
                rw [← hs', j5, ← hst, ← hb]
                simp only
                by_cases hrep : (!(headerBytes content).2.2 && o.fixSyntaxErrors) = true
                · simp only [hrep, hcl3, Bool.and_self, ↓reduceIte]
                  unfold setInt
                  rw [get_set_same]
                  have hclo : contentLengthOf t2.hdr = (content.length : Int) :=
                    contentLengthOf_natToDec _ _ (by omega) hcl3 hget3
                  rw [hclo]
                  have hw : wrap64 ((content.length : Int) + 2) = ((content.length + 2 : Nat) : Int) := by
                    unfold wrap64
                    have : ¬ ((content.length : Int) + 2 > 9223372036854775807) := by omega
                    simp only [this, ↓reduceIte]; omega
                  rw [hw]
                  simp only [intToDec, List.length_append, crlf, List.length_cons, List.length_nil]
                  congr 1
                  omega
                · simp only [hrep, Bool.false_eq_true, ↓reduceIte, Bool.false_and]
                  rw [hget3]
                  simp only [List.length_append]
                  rw [hlen]
              · intro hk
                rw [← hb] at hk
                simp only at hk
                generalize hasPrefix (bs "HTTP") _ = isResp at hk
                cases isResp <;> simp at hk
  · simp only [c1, Bool.false_eq_true, ↓reduceIte] at h
    by_cases c2 : (!o.skipParseBlock && rt == RT_Revisit) = true
    · simp only [c2, ↓reduceIte, Bool.false_eq_true, M.pure_def, Prod.mk.injEq, Except.ok.injEq] at h
      obtain ⟨hb, hs'⟩ := h
      constructor
      · intro _; rw [← hs', ← hb]; exact hget2
      · intro hk; rw [← hb] at hk; cases hk
    · simp only [c2, Bool.false_eq_true, ↓reduceIte] at h
      by_cases c3 : (!o.skipParseBlock && hasPrefix (bs Gen.c_ApplicationWarcFields) (lowerKey (hd.get (bs "Content-Type")))) = true
      · simp only [c3, ↓reduceIte] at h
        have kw : s'.hdr = s2.hdr := keep_of_eq (newWarcFieldsBlock_keep o _ _ _) h
        constructor
        · intro hne
          exfalso
          apply hne
          -- the warc-fields constructor only returns warc-fields blocks
          unfold newWarcFieldsBlock wfFinish at h
          obtain ⟨_, t1, _, h⟩ := bind_ok _ _ _ _ _ h
          obtain ⟨b', t3, hw, h⟩ := bind_ok _ _ _ _ _ h
          simp only [M.pure_def, Prod.mk.injEq, Except.ok.injEq] at h
          obtain ⟨_, t2, _, hw⟩ := bind_ok _ _ _ _ _ hw
          cases he : (parseFields o.syn ⟨content, false⟩).errTag with
          | some t => simp [he] at hw
          | none =>
            simp only [he, M.pure_def, Prod.mk.injEq, Except.ok.injEq] at hw
            rw [← h.1]
            split
            · unfold wfDetectFix; rw [← hw.1]; (repeat' split) <;> rfl
            · rw [← hw.1]
        · intro _; rw [kw]; exact hget2
      · simp only [c3, Bool.false_eq_true, ↓reduceIte, M.pure_def, Prod.mk.injEq, Except.ok.injEq] at h
        obtain ⟨hb, hs'⟩ := h
        constructor
        · intro _; rw [← hs', ← hb]; exact hget2
        · intro hk; rw [← hb] at hk; cases hk

/-- **the Content-Length the builder adds is the length of the serialized block, under every policy** -/
theorem C02_length_every_policy (o : Opts) (Ω : Oracles) (verTxt : Bytes) (verId rt0 : Nat) (hdr : Fields) (content newId : Bytes) (r : Rec)
    (hadd : o.addMissingContentLength = true)
    (hno : (if (o.addMissingRecordId && !hdr.has (bs "WARC-Record-ID")) = true then hdr.setId (bs "WARC-Record-ID") newId else hdr).has (bs "Content-Length") = false)
    (hsz : content.length + 2 ≤ 9223372036854775807)
    (hb : (build H o Ω verTxt verId rt0 hdr content newId).record = some r)
    (he : (build H o Ω verTxt verId rt0 hdr content newId).err = none) :
    r.hdr.get (bs "Content-Length") = natToDec r.block.raw.length := by
  unfold build at hb he
  simp only at hb he
  generalize hh1 : (if (o.addMissingRecordId && !hdr.has (bs "WARC-Record-ID")) = true then hdr.setId (bs "WARC-Record-ID") newId else hdr) = hdr1 at hb he hno
  simp only [hadd, hno, Bool.not_false, Bool.and_self, ↓reduceIte] at hb he
  have hcl2 : (setInt hdr1 (bs "Content-Length") content.length).has (bs "Content-Length") = true := by unfold setInt; exact has_set_same _ _ _
  have hget2 : (setInt hdr1 (bs "Content-Length") content.length).get (bs "Content-Length") = natToDec content.length := by
    unfold setInt; rw [get_set_same]; rfl
  generalize setInt hdr1 (bs "Content-Length") content.length = hdr2 at hb he hcl2 hget2
  unfold buildBody at hb he
  simp only [M.bind_def] at hb he
  cases hv : validateHeader o Ω verId ⟨hdr2, []⟩ with
  | mk rv sv =>
    rw [hv] at hb he
    cases rv with
    | error e => simp at he
    | ok rtv =>
      simp only at hb he
      have kv : sv.hdr = hdr2 := by
        have := (validateHeader_keep o Ω verId).h ⟨hdr2, []⟩
        rw [hv] at this; exact this
      cases hp : parseBlock o Ω (if (rt0 == 0) = true then rtv else rt0) content false sv with
      | mk rp sp =>
        rw [hp] at hb he
        cases rp with
        | error e => simp at he
        | ok b =>
          simp only [M.hdr_def, M.setHdr_def, Bool.true_and] at hb he
          obtain ⟨hnwf, hwf⟩ := parseBlock_length o Ω _ content sv sp b hsz (by rw [kv]; exact hcl2) (by rw [kv]; exact hget2) hp
          generalize hsq : ({ hdr := if (b.kind == BlockKind.warcFields && b.raw.length != content.length) = true then setInt sp.hdr (bs "Content-Length") b.raw.length else sp.hdr, fnd := sp.fnd } : St) = sq at hb he
          have gq : sq.hdr.get (bs "Content-Length") = natToDec b.raw.length := by
            rw [← hsq]; simp only
            by_cases hk : b.kind = .warcFields
            · by_cases hl : b.raw.length = content.length
              · have : (b.kind == BlockKind.warcFields && b.raw.length != content.length) = false := by simp [hk, hl]
                simp only [this, Bool.false_eq_true, ↓reduceIte]
                rw [hwf hk, hl]
              · have : (b.kind == BlockKind.warcFields && b.raw.length != content.length) = true := by simp [hk, hl]
                simp only [this, ↓reduceIte]
                unfold setInt; rw [get_set_same]; rfl
            · have : (b.kind == BlockKind.warcFields && b.raw.length != content.length) = false := by simp [hk]
              simp only [this, Bool.false_eq_true, ↓reduceIte]
              exact hnwf hk
          cases hd : validateDigest H o (if (rt0 == 0) = true then rtv else rt0) b false sq with
          | mk rd sd =>
            rw [hd] at hb he
            cases rd with
            | error e => simp at he
            | ok u =>
              simp only [M.pure_def, Option.some.injEq] at hb
              subst hb
              exact validateDigest_length H o _ b false sq sd gq hd

end
end Gowarc.Props.C02
