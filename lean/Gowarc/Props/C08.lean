/-
  C08 — Error-policy coherence: ignore, warn and fail tell one story.

  Model: `unmarshal`, `build` (Model/Record.lean) with every policy decision going through `site` / `condSite`
  (ignore = nothing, warn = record a finding, fail = return the error) or the explicit policy switches of the header
  parser. Tie: correspondence kinds `xpol`, `xpolb` (each input under the three uniform levels and all 81 combinations),
  the four relations evaluated on the implementation, and the regenerated table of policy sites `Gen.policySites`.
-/
import Gowarc.Lemmas.RecordSim
import Gowarc.Gen.PolicySites
namespace Gowarc.Props.C08
open Gowarc

section
variable (H : Alg → Bytes → Bytes)

/-- **under ignore no validation finding is produced** — parser, every input, every reader fault, every option setting -/
theorem C08_ignore_unmarshal (o : Opts) (Ω : Oracles) (s : Stream) : (unmarshal H (o.uni .ignore) Ω s).fnd = [] :=
  unmarshal_nofind H _ Ω s ⟨by simp, by simp, by simp, by simp⟩

/-- … and the builder -/
theorem C08_ignore_build (o : Opts) (Ω : Oracles) (vt : Bytes) (vi rt0 : Nat) (hdr : Fields) (c id : Bytes) :
    (build H (o.uni .ignore) Ω vt vi rt0 hdr c id).fnd = [] :=
  build_nofind H _ Ω vt vi rt0 hdr c id ⟨by simp, by simp, by simp, by simp⟩

/-- **under fail a nil error comes with an empty validation** (in fact the validation is always empty under fail) -/
theorem C08_fail_clean_unmarshal (o : Opts) (Ω : Oracles) (s : Stream) : (unmarshal H (o.uni .fail) Ω s).fnd = [] :=
  unmarshal_nofind H _ Ω s ⟨by simp, by simp, by simp, by simp⟩

theorem C08_fail_clean_build (o : Opts) (Ω : Oracles) (vt : Bytes) (vi rt0 : Nat) (hdr : Fields) (c id : Bytes) :
    (build H (o.uni .fail) Ω vt vi rt0 hdr c id).fnd = [] :=
  build_nofind H _ Ω vt vi rt0 hdr c id ⟨by simp, by simp, by simp, by simp⟩

/-- more generally: findings appear only when some axis is at warn (every mixture of ignore and fail is silent) -/
theorem C08_findings_need_warn (o : Opts) (Ω : Oracles) (s : Stream) (h : NoWarn o) : (unmarshal H o Ω s).fnd = [] :=
  unmarshal_nofind H o Ω s h

/-- **fail returns an error exactly when warn produces at least one finding or an error** — parser -/
theorem C08_fail_iff_warn_unmarshal (o : Opts) (Ω : Oracles) (s : Stream) :
    (unmarshal H (o.uni .fail) Ω s).err.isSome = true ↔
      ((unmarshal H (o.uni .warn) Ω s).err.isSome = true ∨ (unmarshal H (o.uni .warn) Ω s).fnd ≠ []) :=
  unmarshal_fail_iff_warn H o Ω s

/-- … and the builder -/
theorem C08_fail_iff_warn_build (o : Opts) (Ω : Oracles) (vt : Bytes) (vi rt0 : Nat) (hdr : Fields) (c id : Bytes) :
    (build H (o.uni .fail) Ω vt vi rt0 hdr c id).err.isSome = true ↔
      ((build H (o.uni .warn) Ω vt vi rt0 hdr c id).err.isSome = true ∨ (build H (o.uni .warn) Ω vt vi rt0 hdr c id).fnd ≠ []) :=
  build_fail_iff_warn H o Ω vt vi rt0 hdr c id

/-- consequence (uniform levels): an input rejected with an error under warn is rejected under fail -/
theorem C08_warn_error_implies_fail_error (o : Opts) (Ω : Oracles) (s : Stream)
    (h : (unmarshal H (o.uni .warn) Ω s).err.isSome = true) : (unmarshal H (o.uni .fail) Ω s).err.isSome = true :=
  (unmarshal_fail_iff_warn H o Ω s).mpr (.inl h)

end

/-- the header parser alone: same story (used by warc-fields blocks as well) -/
theorem C08_parser_sim (s : Stream) : PSim [] (parseFields .warn s) (parseFields .fail s) := parseFields_sim s

/-- **regenerated obligation**: the places where the Go code consults an error policy, function by function, with the
    shape of every policy switch: the fail arm returns, the warn arm adds a finding (and possibly repairs), an ignore arm
    does nothing. A site that starts adding a finding under ignore, stops returning under fail, or a new site, changes this
    table. -/
theorem C08_sites : Gen.policySites = [
  ("Merge", "syn", "cmp:>ErrWarn"), ("Merge", "syn", "cmp:>ErrWarn"),
  ("Parse", "syn", "switch:Fr,I-,Wa"), ("Parse", "syn", "switch:Fr,I-,Wa"), ("Parse", "syn", "switch:Fr,I-,Wa"), ("Parse", "syn", "switch:Fr,I-,Wa"),
  ("Unmarshal", "syn", "cmp:>=ErrFail"), ("Unmarshal", "syn", "cmp:>=ErrWarn"), ("Unmarshal", "-", "addError-outside-switch"), ("Unmarshal", "syn", "switch:Fr,Wa"), ("Unmarshal", "spec", "switch:Fr,Wa"),
  ("ValidateDigest", "spec", "cmp:>ErrIgnore"), ("ValidateDigest", "spec", "switch:Fr,Was"), ("ValidateDigest", "spec", "cmp:>ErrIgnore"), ("ValidateDigest", "spec", "switch:Fr,I-,Was"), ("ValidateDigest", "spec", "cmp:>ErrIgnore"), ("ValidateDigest", "spec", "switch:Fr,I-,Was"),
  ("checkLegal", "spec", "cmp:>ErrIgnore"), ("checkLegal", "spec", "cmp:>ErrIgnore"),
  ("newHttpBlock", "syn", "switch:Fr,Wa"), ("newHttpBlock", "blk", "cmp:>ErrIgnore"), ("newHttpBlock", "blk", "cmp:==ErrWarn"), ("newHttpBlock", "-", "addError-outside-switch"), ("newHttpBlock", "blk", "cmp:>ErrIgnore"), ("newHttpBlock", "blk", "cmp:==ErrWarn"), ("newHttpBlock", "-", "addError-outside-switch"),
  ("newWarcFieldsBlock", "syn", "cmp:>ErrIgnore"), ("newWarcFieldsBlock", "syn", "switch:Fr,Wa"), ("newWarcFieldsBlock", "blk", "cmp:>ErrIgnore"), ("newWarcFieldsBlock", "blk", "switch:Fr,Wa"), ("newWarcFieldsBlock", "syn", "cmp:==ErrIgnore"),
  ("readLine", "syn", "cmp:>ErrIgnore"), ("readLine", "syn", "cmp:==ErrFail"),
  ("resolveRecordType", "spec", "switch:Fr,I-,Wa"), ("resolveRecordType", "unk", "switch:Fr,I-,Wa"),
  ("resolveRecordVersion", "spec", "switch:Dr,Fr,War"),
  ("validateHeader", "spec", "cmp:>ErrIgnore"), ("validateHeader", "spec", "switch:Fr,Wa"), ("validateHeader", "spec", "switch:Fr,Wa"), ("validateHeader", "spec", "switch:Fr,Wa"), ("validateHeader", "spec", "switch:Fr,Wa"), ("validateHeader", "spec", "switch:Fr,Wa")] := by
  decide

/-- every policy switch has the canonical shape -/
theorem C08_switch_shapes : Gen.policySites.all (fun s =>
    s.2.2.toList.take 7 != "switch:".toList || ["switch:Fr,Wa", "switch:Fr,I-,Wa", "switch:Fr,Was", "switch:Fr,I-,Was", "switch:Dr,Fr,War"].contains s.2.2) = true := by
  decide

/- Axis-by-axis monotonicity with the other axes held at arbitrary levels: Props/C08mono.lean. -/

end Gowarc.Props.C08
