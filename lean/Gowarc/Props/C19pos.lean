/-
  C19, the positive half: header text IS a fixpoint for clean fields.

  A field is clean when its name is canonical, non-empty and free of white space and colons, its value has no edge white
  space and no LF, and the written line contains no `=?` (no RFC 2047 encoded-word can start in it). For every non-empty
  list of clean fields, every syntax policy, every continuation of the stream: parsing what `Fields.write` produces,
  followed by the blank line, returns exactly those fields, no findings, and leaves exactly the continuation. Together
  with the two counterexamples of Props/C19.lean this locates the failure of the full statement: encoded-words and edge
  white space, nothing else.
-/
import Gowarc.Props.C19
import Gowarc.Lemmas.StreamLemmas
import Gowarc.Lemmas.CanonLemmas
namespace Gowarc.Props.C19
open Gowarc

/-! ### trimming -/

theorem dropWhile_append_all (p : UInt8 → Bool) (a r : Bytes) (ha : ∀ b ∈ a, p b = true) : (a ++ r).dropWhile p = r.dropWhile p := by
  induction a with
  | nil => rfl
  | cons b t ih =>
    have hb : p b = true := ha b (by simp)
    simp only [List.cons_append, List.dropWhile_cons, hb, ↓reduceIte]
    exact ih (fun x hx => ha x (by simp [hx]))

theorem trimRight_append_ws (p : UInt8 → Bool) (l w : Bytes) (hw : ∀ b ∈ w, p b = true) : trimRight p (l ++ w) = trimRight p l := by
  unfold trimRight
  rw [List.reverse_append, dropWhile_append_all p w.reverse l.reverse (by intro b hb; exact hw b (by simpa using hb))]

theorem trimRight_snoc (p : UInt8 → Bool) (i : Bytes) (x : UInt8) (hx : p x = false) : trimRight p (i ++ [x]) = i ++ [x] := by
  unfold trimRight
  simp [List.reverse_append, List.dropWhile_cons, hx]

theorem trimLeft_cons (p : UInt8 → Bool) (b : UInt8) (t : Bytes) (hb : p b = false) : trimLeft p (b :: t) = b :: t := by
  simp [trimLeft, List.dropWhile_cons, hb]

theorem trimRight_nil (p : UInt8 → Bool) : trimRight p [] = [] := rfl

theorem trim_nows (p : UInt8 → Bool) (l : Bytes) (h : ∀ b ∈ l, p b = false) : trim p l = l := by
  cases l with
  | nil => rfl
  | cons b t =>
    unfold trim
    rw [trimLeft_cons p b t (h b (by simp))]
    -- the last byte is not white space either
    have hne : (b :: t) ≠ [] := by simp
    have hl := List.dropLast_concat_getLast hne
    rw [← hl]
    exact trimRight_snoc p _ _ (h _ (List.getLast_mem hne))

/-! ### splitting and decoding -/

theorem splitFirst_append (c : UInt8) (a r : Bytes) (h : c ∉ a) : splitFirst c (a ++ c :: r) = some (a, r) := by
  induction a with
  | nil => simp [splitFirst]
  | cons b t ih =>
    simp only [List.mem_cons, not_or] at h
    have hb : (b == c) = false := by simp; exact fun e => h.1 e.symm
    simp only [List.cons_append, splitFirst, hb, Bool.false_eq_true, ↓reduceIte, ih h.2]

theorem find2_prefix (a b : UInt8) (l r : Bytes) (h : find2 a b (l ++ r) = none) : find2 a b l = none := by
  induction l with
  | nil => rfl
  | cons x t ih =>
    cases t with
    | nil => rfl
    | cons y t' =>
      simp only [List.cons_append, find2] at h ⊢
      split at h
      · cases h
      · rename_i hxy
        simp only [hxy, Bool.false_eq_true, ↓reduceIte]
        have h' : find2 a b (y :: t' ++ r) = none := by
          cases hq : find2 a b (y :: (t' ++ r)) with
          | none => simpa using hq
          | some v => simp [hq] at h
        have := ih h'
        simp [this]

/-! ### clean fields -/

structure CleanField (nv : Bytes × Bytes) : Prop where
  canon : canon nv.1 = nv.1
  ne : nv.1 ≠ []
  nows : ∀ b ∈ nv.1, isWs b = false
  nocolon : COLON ∉ nv.1
  vhead : ∀ b t, nv.2 = b :: t → isWs b = false
  vlast : ∀ i x, nv.2 = i ++ [x] → isWs x = false
  vnolf : LF ∉ nv.2
  noword : find2 61 63 (nv.1 ++ [COLON, SP] ++ nv.2) = none

def lineOf (nv : Bytes × Bytes) : Bytes := nv.1 ++ [COLON, SP] ++ nv.2

theorem write_cons (nv : Bytes × Bytes) (rest : Fields) : Fields.write (nv :: rest) = lineOf nv ++ crlf ++ Fields.write rest := by
  simp [Fields.write, lineOf]

theorem line_nolf (nv : Bytes × Bytes) (h : CleanField nv) : LF ∉ lineOf nv := by
  unfold lineOf
  simp only [List.mem_append, List.mem_cons, not_or]
  refine ⟨⟨fun hm => ?_, ?_⟩, h.vnolf⟩
  · have := h.nows LF hm; simp [isWs, LF] at this
  · simp [LF, COLON, SP]

/-- the trimmed line as readLine returns it -/
theorem trim_line (nv : Bytes × Bytes) (h : CleanField nv) : trim isWs (lineOf nv ++ crlf) = trimRight isWs (lineOf nv) := by
  obtain ⟨n, v⟩ := nv
  cases hn : n with
  | nil => exact absurd hn h.ne
  | cons b t =>
    have hb : isWs b = false := h.nows b (by simp [hn])
    unfold trim lineOf
    simp only [List.cons_append]
    rw [trimLeft_cons isWs b _ hb]
    have : b :: (t ++ [COLON, SP] ++ v ++ crlf) = (b :: (t ++ [COLON, SP] ++ v)) ++ crlf := by simp
    rw [this, trimRight_append_ws isWs _ crlf (by intro x hx; simp [crlf] at hx; rcases hx with rfl | rfl <;> decide)]

/-- … and what parseLine makes of it -/
theorem parseLine_clean (nv : Bytes × Bytes) (h : CleanField nv) : parseLine (trimRight isWs (lineOf nv)) = .inr nv := by
  obtain ⟨n, v⟩ := nv
  have hcolon : isWs COLON = false := by decide
  -- the shape of the right-trimmed line
  have shape : ∃ x, trimRight isWs (lineOf (n, v)) = n ++ COLON :: x ∧ trim isWs x = v := by
    rcases List.eq_nil_or_concat v with hv | ⟨i, x, hv⟩
    all_goals try rw [List.concat_eq_append] at hv
    · subst hv
      refine ⟨[], ?_, rfl⟩
      unfold lineOf
      have : n ++ [COLON, SP] ++ [] = (n ++ [COLON]) ++ [SP] := by simp
      rw [this, trimRight_append_ws isWs _ [SP] (by intro b hb; simp at hb; subst hb; decide), trimRight_snoc isWs n COLON hcolon]
    · have hx : isWs x = false := h.vlast i x (by simpa using hv)
      refine ⟨SP :: v, ?_, ?_⟩
      · unfold lineOf
        have : n ++ [COLON, SP] ++ v = (n ++ [COLON, SP] ++ i) ++ [x] := by rw [hv]; simp
        rw [this, trimRight_snoc isWs _ x hx, hv]; simp
      · -- trim (SP :: v) = v
        unfold trim
        have hsp : trimLeft isWs (SP :: v) = trimLeft isWs v := by simp [trimLeft, List.dropWhile_cons, isWs, SP]
        rw [hsp]
        cases hvv : v with
        | nil => rw [hvv] at hv; simp at hv
        | cons b t =>
          have hb : isWs b = false := h.vhead b t hvv
          rw [trimLeft_cons isWs b t hb, ← hvv, hv, trimRight_snoc isWs i x hx]
  obtain ⟨x, hshape, hx⟩ := shape
  unfold parseLine
  -- right-trimming again changes nothing
  have hidem : trimRight isWs (trimRight isWs (lineOf (n, v))) = trimRight isWs (lineOf (n, v)) := by
    rw [hshape]
    rcases List.eq_nil_or_concat x with hx0 | ⟨i, y, hxy⟩
    all_goals try rw [List.concat_eq_append] at hxy
    · subst hx0
      have : n ++ [COLON] = n ++ [COLON] := rfl
      exact trimRight_snoc isWs n COLON hcolon
    · -- the last byte of x is the last byte of the trimmed line, hence not white space
      have hlast : isWs y = false := by
        -- trimRight never ends in white space
        have htr := hshape
        unfold trimRight at htr
        have : (n ++ COLON :: x).reverse = (lineOf (n, v)).reverse.dropWhile isWs := by rw [← htr]; simp
        rw [hxy] at this
        simp only [List.reverse_append, List.reverse_cons, List.append_assoc, List.cons_append, List.nil_append, List.reverse_nil] at this
        -- the head of a dropWhile result does not satisfy the predicate
        cases hd : (lineOf (n, v)).reverse.dropWhile isWs with
        | nil => rw [hd] at this; simp at this
        | cons z zs =>
          rw [hd] at this
          have hz := List.head_dropWhile_not isWs (l := (lineOf (n, v)).reverse) (by rw [hd]; simp)
          simp only [hd, List.head_cons] at hz
          simp at this
          rw [this.1]; simpa using hz
      have : n ++ COLON :: x = (n ++ COLON :: i) ++ [y] := by rw [hxy]; simp
      rw [this]; exact trimRight_snoc isWs _ y hlast
  rw [hidem]
  have hnoword : find2 61 63 (trimRight isWs (lineOf (n, v))) = none := by
    -- the trimmed line is a prefix of the line
    have hpre : ∃ r, lineOf (n, v) = trimRight isWs (lineOf (n, v)) ++ r := by
      unfold trimRight
      refine ⟨((lineOf (n, v)).reverse.takeWhile isWs).reverse, ?_⟩
      rw [← List.reverse_append, List.takeWhile_append_dropWhile, List.reverse_reverse]
    obtain ⟨r, hr⟩ := hpre
    have := h.noword
    unfold lineOf at hr
    simp only at this
    rw [show n ++ [COLON, SP] ++ v = lineOf (n, v) from rfl, show lineOf (n, v) = trimRight isWs (lineOf (n, v)) ++ r from hr] at this
    exact find2_prefix 61 63 _ r this
  rw [decode_id _ hnoword, hshape]
  simp only [splitFirst_append COLON n x h.nocolon]
  rw [trim_nows isWs n h.nows, hx]

/-! ### one field line -/

theorem readLine_clean (syn : Pol) (nv : Bytes × Bytes) (h : CleanField nv) (c : UInt8) (more : Bytes) (fault : Bool) :
    (readLine syn ⟨lineOf nv ++ crlf ++ c :: more, fault⟩).line = trimRight isWs (lineOf nv) ∧
    (readLine syn ⟨lineOf nv ++ crlf ++ c :: more, fault⟩).nc = c ∧
    (readLine syn ⟨lineOf nv ++ crlf ++ c :: more, fault⟩).err = none ∧
    (readLine syn ⟨lineOf nv ++ crlf ++ c :: more, fault⟩).rest = c :: more := by
  have hrb : readBytesNL (lineOf nv ++ crlf ++ c :: more) = (lineOf nv ++ crlf, c :: more, true) := by
    have : lineOf nv ++ crlf ++ c :: more = (lineOf nv ++ [CR]) ++ [LF] ++ (c :: more) := by simp [crlf, CR, LF]
    rw [this, readBytesNL_line _ _ (by
      simp only [List.mem_append, List.mem_singleton, not_or]; exact ⟨line_nolf nv h, by decide⟩)]
    simp [crlf, CR, LF]
  have hcr : missingCR (lineOf nv ++ crlf) = false := by
    unfold missingCR
    have hl : (lineOf nv ++ crlf).length = (lineOf nv).length + 2 := by simp [crlf]
    have hget : (lineOf nv ++ crlf).getD ((lineOf nv ++ crlf).length - 2) 0 = CR := by
      rw [hl]; simp [crlf, CR, List.getD_eq_getElem?_getD, List.getElem?_append_right]
    rw [hget, hl]; simp
  unfold readLine
  simp only [hrb, Bool.not_true, Bool.false_eq_true, ↓reduceIte, hcr, Bool.and_false, Bool.false_and]
  exact ⟨trim_line nv h, trivial, trivial, trivial⟩

/-- reading one clean field line: the loop body adds exactly that field and hands over to `afterLine` -/
theorem parseLoop_field (syn : Pol) (fuel : Nat) (wf : Fields) (nv : Bytes × Bytes) (h : CleanField nv) (c : UInt8) (more : Bytes) (fault : Bool)
    (hc : (c == SP || c == HT) = false) :
    parseLoop syn (fuel + 1) wf [] ⟨lineOf nv ++ crlf ++ c :: more, fault⟩ =
      afterLine (parseLoop syn fuel) (wf ++ [nv]) [] c false ⟨c :: more, fault⟩ := by
  obtain ⟨h1, h2, h3, h4⟩ := readLine_clean syn nv h c more fault
  unfold parseLoop
  simp only [h3]
  unfold parseRest
  simp only [h1, h2, h4]
  have hcont : contLoop syn ((c :: more).length + 1) (trimRight isWs (lineOf nv)) c false [] ⟨c :: more, fault⟩ =
      .inr (trimRight isWs (lineOf nv), c, false, [], ⟨c :: more, fault⟩) := by
    rw [contLoop]; simp [hc]
  rw [hcont]
  simp only [parseLine_clean nv h]
  -- Add canonicalises the name, which is canonical already
  have : Fields.add wf nv.1 nv.2 = wf ++ [nv] := by
    unfold Fields.add; rw [h.canon]
  rw [this]

/-- after the last field line the blank line ends the header section -/
theorem afterLine_end (k : Fields → List Tag → Stream → ParseRes) (wf : Fields) (tail : Bytes) (fault : Bool) :
    afterLine k wf [] CR false ⟨crlf ++ tail, fault⟩ = .ok wf [] ⟨tail, fault⟩ := by
  unfold afterLine endMarker
  have : readBytesNL (crlf ++ tail) = ([CR, LF], tail, true) := by
    have := readBytesNL_line [CR] tail (by decide)
    simpa [crlf, CR, LF] using this
  simp [this]

/-- between two field lines nothing ends -/
theorem afterLine_next (k : Fields → List Tag → Stream → ParseRes) (wf : Fields) (c : UInt8) (more : Bytes) (fault : Bool)
    (hc : isWs c = false) : afterLine k wf [] c false ⟨c :: more, fault⟩ = k wf [] ⟨c :: more, fault⟩ := by
  unfold afterLine endMarker
  have h1 : (c == CR) = false := by
    cases hcr : c == CR with
    | false => rfl
    | true => simp at hcr; subst hcr; simp [isWs, CR] at hc
  have h2 : (c == LF) = false := by
    cases hlf : c == LF with
    | false => rfl
    | true => simp at hlf; subst hlf; simp [isWs, LF] at hc
  simp [h1, h2]

/-- **clean headers are a fixpoint**: for every non-empty list of clean fields, syntax policy and continuation, parsing
    the written header section gives back exactly the fields, without findings, and leaves the continuation untouched -/
theorem C19_clean_roundtrip (syn : Pol) (fs : Fields) (hne : fs ≠ []) (hclean : ∀ nv ∈ fs, CleanField nv) (tail : Bytes) (fault : Bool) :
    parseFields syn ⟨Fields.write fs ++ crlf ++ tail, fault⟩ = .ok fs [] ⟨tail, fault⟩ := by
  -- generalise the accumulator and the fuel
  have main : ∀ (fs : Fields) (wf : Fields) (fuel : Nat), fs ≠ [] → (∀ nv ∈ fs, CleanField nv) → fs.length ≤ fuel →
      parseLoop syn fuel wf [] ⟨Fields.write fs ++ crlf ++ tail, fault⟩ = .ok (wf ++ fs) [] ⟨tail, fault⟩ := by
    intro fs
    induction fs with
    | nil => intro _ _ h; exact absurd rfl h
    | cons nv rest ih =>
      intro wf fuel _ hc hf
      obtain ⟨f, rfl⟩ : ∃ f, fuel = f + 1 := ⟨fuel - 1, by simp at hf; omega⟩
      have hnv := hc nv (by simp)
      cases rest with
      | nil =>
        have hw : Fields.write [nv] ++ crlf ++ tail = lineOf nv ++ crlf ++ CR :: (LF :: tail) := by
          rw [write_cons]; simp [Fields.write, crlf, CR, LF]
        rw [hw, parseLoop_field syn f wf nv hnv CR (LF :: tail) fault (by decide)]
        have := afterLine_end (parseLoop syn f) (wf ++ [nv]) tail fault
        simpa [crlf, CR, LF] using this
      | cons nv2 rest2 =>
        have hnv2 := hc nv2 (by simp)
        -- the next line starts with the first byte of the next name
        obtain ⟨n2, v2⟩ := nv2
        cases hn2 : n2 with
        | nil => exact absurd hn2 hnv2.ne
        | cons b t =>
          have hb : isWs b = false := hnv2.nows b (by simp [hn2])
          have hbsp : (b == SP || b == HT) = false := by
            cases hq : (b == SP || b == HT) with
            | false => rfl
            | true =>
              simp at hq
              rcases hq with e | e <;> (subst e; simp [isWs, SP, HT] at hb)
          subst hn2
          have hw : Fields.write (nv :: (b :: t, v2) :: rest2) ++ crlf ++ tail =
              lineOf nv ++ crlf ++ b :: (t ++ [COLON, SP] ++ v2 ++ crlf ++ Fields.write rest2 ++ crlf ++ tail) := by
            rw [write_cons, write_cons]; simp [lineOf]
          rw [hw, parseLoop_field syn f wf nv hnv b _ fault hbsp, afterLine_next _ _ b _ fault hb]
          have hback : b :: (t ++ [COLON, SP] ++ v2 ++ crlf ++ Fields.write rest2 ++ crlf ++ tail) =
              Fields.write ((b :: t, v2) :: rest2) ++ crlf ++ tail := by
            rw [write_cons]; simp [lineOf]
          rw [hback, ih (wf ++ [nv]) f (by simp) (fun x hx => hc x (by simp [hx])) (by simp at hf ⊢; omega)]
          simp [List.append_assoc]
  unfold parseFields
  have hlen : fs.length ≤ (Fields.write fs ++ crlf ++ tail).length + 2 := by
    have : ∀ l : Fields, l.length ≤ (Fields.write l).length := by
      intro l
      induction l with
      | nil => simp
      | cons a r ih => rw [write_cons]; simp [crlf]; omega
    have := this fs
    simp only [List.length_append]; omega
  have := main fs [] _ hne hclean hlen
  simpa using this

/-- the decidable form of cleanliness -/
def cleanB (nv : Bytes × Bytes) : Bool :=
  canon nv.1 == nv.1 && !nv.1.isEmpty && nv.1.all (fun b => !isWs b) && !nv.1.contains COLON &&
  (match nv.2.head? with | some b => !isWs b | none => true) && (match nv.2.getLast? with | some b => !isWs b | none => true) &&
  !nv.2.contains LF && (find2 61 63 (nv.1 ++ [COLON, SP] ++ nv.2)).isNone

theorem cleanField_of_cleanB (nv : Bytes × Bytes) (h : cleanB nv = true) : CleanField nv := by
  unfold cleanB at h
  simp only [Bool.and_eq_true, beq_iff_eq, Bool.not_eq_true', List.all_eq_true, Option.isNone_iff_eq_none] at h
  obtain ⟨⟨⟨⟨⟨⟨⟨h1, h2⟩, h3⟩, h4⟩, h5⟩, h6⟩, h7⟩, h8⟩ := h
  refine ⟨h1, by intro e; simp [e] at h2, by intro b hb; simpa using h3 b hb, by intro hm; simp [List.contains_iff_mem, hm] at h4, ?_, ?_,
    by intro hm; simp [List.contains_iff_mem, hm] at h7, h8⟩
  · intro b t hv; rw [hv] at h5; simpa using h5
  · intro i x hv; rw [hv] at h6; simpa using h6

/-- non-vacuity: the fields of an ordinary record are clean, so the theorem applies to them -/
example : ∀ nv ∈ [(bs "WARC-Type", bs "response"), (bs "WARC-Target-URI", bs "http://example.com/a?b=c"), (bs "X-Empty", ([] : Bytes)),
    (bs "Content-Length", bs "42")], CleanField nv := by
  intro nv hm
  apply cleanField_of_cleanB
  revert nv
  decide

end Gowarc.Props.C19
