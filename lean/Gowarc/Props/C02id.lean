import Gowarc.Model.RecordId
/-!
# C02, record-id clause: ids the builder generates are well-formed bracketed URNs, and distinct random draws give distinct ids

Quantifier: every 16 bytes the random source can deliver. "Never repeat" is, in the model, injectivity of
random bytes ↦ header value on the 122 bits the stamping keeps; that the source itself does not repeat is the
assumption named in the trusted base (crypto/rand), and that no two builders are handed the SAME draw is what the
repeat oracle of kind `build`/`uuid` watches on the implementation (sequential and concurrent builders).
-/
namespace Gowarc.Props.C02
open Gowarc Gowarc.RecordId

private theorem bv_hi_lower : ∀ b : BitVec 8, isHexLower (hexHi ⟨b⟩) = true := by decide
private theorem bv_lo_lower : ∀ b : BitVec 8, isHexLower (hexLo ⟨b⟩) = true := by decide
private theorem bv_pair_inj : ∀ b : BitVec 8,
    (if hexHi ⟨b⟩ < 58 then hexHi ⟨b⟩ - 48 else hexHi ⟨b⟩ - 87) <<< 4 |||
    (if hexLo ⟨b⟩ < 58 then hexLo ⟨b⟩ - 48 else hexLo ⟨b⟩ - 87) = (⟨b⟩ : UInt8) := by decide
private theorem bv_version : ∀ b : BitVec 8, hexHi (stampVersion ⟨b⟩) = 52 := by decide
private theorem bv_variant : ∀ b : BitVec 8,
    hexHi (stampVariant ⟨b⟩) = 56 ∨ hexHi (stampVariant ⟨b⟩) = 57 ∨ hexHi (stampVariant ⟨b⟩) = 97 ∨ hexHi (stampVariant ⟨b⟩) = 98 := by decide
private theorem bv_lo_ne : ∀ b : BitVec 8, hexLo ⟨b⟩ ≠ 62 := by decide

theorem hexHi_lower (b : UInt8) : isHexLower (hexHi b) = true := bv_hi_lower b.toBitVec
theorem hexLo_lower (b : UInt8) : isHexLower (hexLo b) = true := bv_lo_lower b.toBitVec
theorem hexLo_ne_gt (b : UInt8) : hexLo b ≠ 62 := bv_lo_ne b.toBitVec

/-- the two digits determine the byte -/
theorem hex_pair_inj {a b : UInt8} (h1 : hexHi a = hexHi b) (h2 : hexLo a = hexLo b) : a = b := by
  have ha := bv_pair_inj a.toBitVec
  have hb := bv_pair_inj b.toBitVec
  have ea : (⟨a.toBitVec⟩ : UInt8) = a := rfl
  have eb : (⟨b.toBitVec⟩ : UInt8) = b := rfl
  rw [ea] at ha; rw [eb] at hb
  rw [← ha, ← hb, h1, h2]

/-- the version digit of a generated id is `4`, the variant digit one of `8 9 a b` -/
theorem stamp_version_digit (b : UInt8) : hexHi (stampVersion b) = 52 := bv_version b.toBitVec
theorem stamp_variant_digit (b : UInt8) :
    hexHi (stampVariant b) = 56 ∨ hexHi (stampVariant b) = 57 ∨ hexHi (stampVariant b) = 97 ∨ hexHi (stampVariant b) = 98 :=
  bv_variant b.toBitVec

/-- **Shape.** For every 16 bytes of randomness the WARC-Record-ID the builder stores is
    `<urn:uuid:` 8-4-4-4-12 `>` with the digits of the stamped bytes (all lower-case hex by `hexHi_lower`/`hexLo_lower`,
    version digit `4`, variant digit in `8 9 a b`). -/
theorem C02_id_shape (b0 b1 b2 b3 b4 b5 b6 b7 b8 b9 b10 b11 b12 b13 b14 b15 : UInt8) :
    recordIdField [b0, b1, b2, b3, b4, b5, b6, b7, b8, b9, b10, b11, b12, b13, b14, b15] =
      some ([60, 117, 114, 110, 58, 117, 117, 105, 100, 58,
        hexHi b0, hexLo b0, hexHi b1, hexLo b1, hexHi b2, hexLo b2, hexHi b3, hexLo b3, 45,
        hexHi b4, hexLo b4, hexHi b5, hexLo b5, 45,
        52, hexLo (stampVersion b6), hexHi b7, hexLo b7, 45,
        hexHi (stampVariant b8), hexLo (stampVariant b8), hexHi b9, hexLo b9, 45,
        hexHi b10, hexLo b10, hexHi b11, hexLo b11, hexHi b12, hexLo b12, hexHi b13, hexLo b13,
        hexHi b14, hexLo b14, hexHi b15, hexLo b15, 62]) := by
  have hne := hexLo_ne_gt b15
  simp [recordIdField, defaultId, stamp, urn, Fields.idValue, stamp_version_digit, hne]

/-- **Ids never repeat unless the random draws coincide** (on the 122 bits that survive the stamping):
    equal header values come from equal stamped uuids. -/
theorem C02_id_injective (a0 a1 a2 a3 a4 a5 a6 a7 a8 a9 a10 a11 a12 a13 a14 a15
    b0 b1 b2 b3 b4 b5 b6 b7 b8 b9 b10 b11 b12 b13 b14 b15 : UInt8)
    (h : recordIdField [a0, a1, a2, a3, a4, a5, a6, a7, a8, a9, a10, a11, a12, a13, a14, a15] =
         recordIdField [b0, b1, b2, b3, b4, b5, b6, b7, b8, b9, b10, b11, b12, b13, b14, b15]) :
    stamp [a0, a1, a2, a3, a4, a5, a6, a7, a8, a9, a10, a11, a12, a13, a14, a15] =
    stamp [b0, b1, b2, b3, b4, b5, b6, b7, b8, b9, b10, b11, b12, b13, b14, b15] := by
  rw [C02_id_shape, C02_id_shape] at h
  simp only [Option.some.injEq, List.cons.injEq, true_and, and_true] at h
  obtain ⟨h0h, h0l, h1h, h1l, h2h, h2l, h3h, h3l, h4h, h4l, h5h, h5l, h6l, h7h, h7l, h8h, h8l, h9h, h9l,
    h10h, h10l, h11h, h11l, h12h, h12l, h13h, h13l, h14h, h14l, h15h, h15l⟩ := h
  have e6 : stampVersion a6 = stampVersion b6 :=
    hex_pair_inj (by rw [stamp_version_digit, stamp_version_digit]) h6l
  simp only [stamp, Option.some.injEq, List.cons.injEq, and_true]
  exact ⟨hex_pair_inj h0h h0l, hex_pair_inj h1h h1l, hex_pair_inj h2h h2l, hex_pair_inj h3h h3l,
    hex_pair_inj h4h h4l, hex_pair_inj h5h h5l, e6, hex_pair_inj h7h h7l, hex_pair_inj h8h h8l,
    hex_pair_inj h9h h9l, hex_pair_inj h10h h10l, hex_pair_inj h11h h11l, hex_pair_inj h12h h12l,
    hex_pair_inj h13h h13l, hex_pair_inj h14h h14l, hex_pair_inj h15h h15l⟩

/-- The slices of one pool refill are 16 bytes each and, put together, are the refill: no byte of the pool is handed
    to two builders and none is skipped. -/
theorem C02_pool_slices (pool : Bytes) (h : 32 ≤ pool.length) (h16 : pool.length % 16 = 0) :
    (∀ d ∈ draws pool, d.length = 16) ∧ (draws pool).flatten = pool := by
  have hlt : ¬ pool.length < 32 := by omega
  constructor
  · intro d hd
    simp only [draws, hlt, if_false, List.mem_map, List.mem_range] at hd
    obtain ⟨k, hk, rfl⟩ := hd
    simp only [List.length_take, List.length_drop]
    have : 16 * k + 16 ≤ pool.length := by
      have := Nat.div_mul_cancel (Nat.dvd_of_mod_eq_zero h16)
      have : (k + 1) * 16 ≤ pool.length / 16 * 16 := Nat.mul_le_mul_right 16 hk
      omega
    omega
  · simp only [draws, hlt, if_false]
    have key : ∀ n (l : Bytes), l.length = 16 * n →
        ((List.range n).map (fun k => (l.drop (16 * k)).take 16)).flatten = l := by
      intro n
      induction n with
      | zero => intro l hl; simp at hl; simp [hl]
      | succ n ih =>
        intro l hl
        rw [List.range_succ_eq_map, List.map_cons, List.flatten_cons, List.map_map]
        have h1 : ((List.range n).map ((fun k => (l.drop (16 * k)).take 16) ∘ Nat.succ)) =
            (List.range n).map (fun k => ((l.drop 16).drop (16 * k)).take 16) := by
          apply List.map_congr_left
          intro k _
          simp only [Function.comp, List.drop_drop]
          congr 2
          omega
        rw [h1, ih (l.drop 16) (by simp; omega)]
        simp
    exact key (pool.length / 16) pool (by omega)

/-- non-vacuity: a concrete draw and the id it gives -/
example : recordIdField [0, 1, 2, 3, 4, 5, 6, 7, 8, 9, 10, 11, 12, 13, 14, 255] =
    some [60, 117, 114, 110, 58, 117, 117, 105, 100, 58, 48, 48, 48, 49, 48, 50, 48, 51, 45, 48, 52, 48, 53, 45, 52, 54, 48, 55, 45, 56, 56, 48, 57, 45, 48, 97, 48, 98, 48, 99, 48, 100, 48, 101, 102, 102, 62] := by decide   -- "<urn:uuid:00010203-0405-4607-8809-0a0b0c0d0eff>"

end Gowarc.Props.C02
