/-
  C06 on top of C01: files made of records the strict builder produced.

  * `C06_members_survive` — the hypothesis of `C06_survive` ("every member reads as a clean record whatever follows") is
    exactly what `C01_accepts` proves for `marshal ver r.hdr r.block.raw` of every record the strict builder returned: so
    for a file that is the concatenation of such members, cut anywhere, every reader returns the complete members
    unaltered, without findings, at their offsets, and then goes on with the cut remainder alone.
  * `C06_cut_behind_header` — visibility for every cut that falls behind the header section (inside the block or inside
    the four trailer bytes) of a plain record with clean fields and a truthful Content-Length, for every block content:
    Unmarshal returns an error, or the record it returns carries the trailer finding. Together with `C06_short_tail`
    (fewer than five bytes left) and `C06_cut_version_line` (cut inside the first line) this leaves only cuts inside the
    header section to the exhaustive cut enumeration of the correspondence.
-/
import Gowarc.Props.C06
import Gowarc.Props.C01acc
namespace Gowarc.Props.C06
open Gowarc Gowarc.Props.C19 Gowarc.Props.C01

section
variable (H : Alg → Bytes → Bytes)

/-- what `C01_accepts` establishes for one serialized record -/
def ReadsBack (o : Opts) (Ω : Oracles) (m : Bytes) (r : Rec) : Prop :=
  ∀ (tail : Bytes) (fault : Bool), unmarshal H o Ω ⟨m ++ tail, fault⟩ = ⟨some r, 0, [], none, tail⟩

theorem allReadAs_of_readsBack (o : Opts) (Ω : Oracles) (ms : List (Bytes × Rec)) (h : ∀ p ∈ ms, ReadsBack H o Ω p.1 p.2) :
    ∀ base, AllReadAs H o Ω base ms := by
  induction ms with
  | nil => intro base; trivial
  | cons p rest ih =>
    intro base
    obtain ⟨m, r⟩ := p
    refine ⟨?_, ih (fun q hq => h q (by simp [hq])) _⟩
    intro tail fault
    have := h (m, r) (by simp) tail fault
    simp only at this
    rw [this]
    exact ⟨rfl, rfl, rfl, rfl, rfl⟩

/-- **complete records of a built file survive any cut**: the members before the cut come back unaltered, clean, at
    their offsets; reading then continues on what is left of the cut record -/
theorem C06_members_survive (o : Opts) (Ω : Oracles) (ms : List (Bytes × Rec)) (next : Bytes) (k fuel : Nat)
    (h : ∀ p ∈ ms, ReadsBack H o Ω p.1 p.2) :
    readLoop H o Ω (fuel + ms.length) 0 ⟨(ms.map (·.1)).flatten ++ next.take k, false⟩ =
      cleanItems 0 ms ++ readLoop H o Ω fuel (totalLen ms) ⟨next.take k, false⟩ :=
  C06_survive_cut H o Ω ms next k fuel (allReadAs_of_readsBack H o Ω ms h 0)

/-- **the cut is visible behind the header section**: a record with clean fields and a truthful Content-Length, cut
    anywhere inside its block or its trailer, is never returned as a clean record when spec checking is on -/
theorem C06_cut_behind_header (o : Opts) (Ω : Oracles) (hspec : o.spec ≠ .ignore)
    (ver : String) (vid : Nat) (hver : (ver, vid) ∈ Gen.versions)
    (hfind : Gen.versions.find? (fun p => bs p.1 == bs ver) = some (ver, vid))
    (hnolf : LF ∉ bs ver) (htrim : trim isWs (bs ver ++ crlf) = bs ver)
    (fs : Fields) (hne : fs ≠ []) (hclean : ∀ nv ∈ fs, CleanField nv)
    (B : Bytes) (hcl : contentLengthOf fs = (B.length : Int)) (k : Nat) (hk : k < B.length + 4) :
    (unmarshal H o Ω ⟨bs "WARC/" ++ bs ver ++ crlf ++ Fields.write fs ++ crlf ++ (B ++ crlfcrlf).take k, false⟩).err ≠ none ∨
    Tag.specTrailer ∈ (unmarshal H o Ω ⟨bs "WARC/" ++ bs ver ++ crlf ++ Fields.write fs ++ crlf ++ (B ++ crlfcrlf).take k, false⟩).fnd := by
  rw [unmarshal_serialized H o Ω ver vid hver hfind hnolf htrim fs hne hclean]
  cases ht : unmarshalTail H o Ω (bs ver) vid fs ⟨(B ++ crlfcrlf).take k, false⟩ ⟨[], []⟩ with
  | mk res st =>
    cases res with
    | error t => left; simp
    | ok v =>
      obtain ⟨ro, rest⟩ := v
      right
      simp only
      rcases C06_trailer_or_finding H o Ω (bs ver) vid fs ⟨(B ++ crlfcrlf).take k, false⟩ ⟨[], []⟩ st ro rest hspec ht with h | h
      · exfalso
        have hneg : ¬ ((B.length : Int) < 0) := by omega
        simp only [hcl, hneg, ↓reduceIte, Int.toNat_natCast] at h
        have hlen : ((((B ++ crlfcrlf).take k).drop B.length).take 4).length < 4 := by
          simp only [List.length_take, List.length_drop, List.length_append, crlfcrlf, List.length_cons, List.length_nil]
          omega
        rw [h] at hlen
        simp [crlfcrlf] at hlen
      · exact h

end
end Gowarc.Props.C06
