/-
  C07, last sentence: "Under every policy the complete declared block can be read once from the returned record, or an
  explicit error is returned - it is never silently empty or shortened."

  Proved here for the case in which the block is cut short by a READ ERROR (the stream ends in a fault, not in EOF, before
  the declared number of bytes was delivered): under EVERY policy setting and every option, Unmarshal returns an error —
  never a record. Every block kind has its own place where the fault surfaces:
    generic and HTTP blocks  : ValidateDigest caches the block and meets the error;
    revisit blocks           : the block constructor reads the protocol header itself;
    warc-fields blocks       : the constructor reports it through the SYNTAX policy (so under ignore it is dropped there),
                               and the drain of the block behind ValidateDigest meets it again.
  Removing that last step (seed C07-h) falsifies the theorem for warc-fields blocks under syntax = ignore.
-/
import Gowarc.Props.C07repairs
namespace Gowarc.Props.C07
open Gowarc Gowarc.Props.C02
set_option linter.unusedSimpArgs false

theorem ite_kind (c : Bool) : (if c = true then BlockKind.httpResp else BlockKind.httpReq) = .httpResp ∨
    (if c = true then BlockKind.httpResp else BlockKind.httpReq) = .httpReq := by cases c <;> simp

theorem newHttpBlock_kind (o : Opts) (Ω : Oracles) (c : Bytes) (bd pd : Digest) (s s' : St) (b : Block)
    (h : newHttpBlock o Ω c bd pd s = (.ok b, s')) : b.kind = .httpResp ∨ b.kind = .httpReq := by
  unfold newHttpBlock at h
  obtain ⟨_, t1, _, h⟩ := bind_ok _ _ _ _ _ h
  obtain ⟨_, t2, _, h⟩ := bind_ok _ _ _ _ _ h
  obtain ⟨_, t3, _, h⟩ := bind_ok _ _ _ _ _ h
  obtain ⟨_, t4, _, h⟩ := bind_ok _ _ _ _ _ h
  obtain ⟨_, t5, _, h⟩ := bind_ok _ _ _ _ _ h
  simp only [M.pure_def, Prod.mk.injEq, Except.ok.injEq] at h
  rw [← h.1]
  exact ite_kind _

theorem wfDetectFix_kind (c : Bytes) (b : Block) : (wfDetectFix c b).kind = b.kind := by
  unfold wfDetectFix
  split
  · split <;> rfl
  · rfl

theorem newWarcFieldsBlock_kind (o : Opts) (c : Bytes) (fault : Bool) (bd : Digest) (s s' : St) (b : Block)
    (h : newWarcFieldsBlock o c fault bd s = (.ok b, s')) : b.kind = .warcFields := by
  unfold newWarcFieldsBlock at h
  obtain ⟨_, t1, _, h⟩ := bind_ok _ _ _ _ _ h
  obtain ⟨b0, t2, h2, h⟩ := bind_ok _ _ _ _ _ h
  obtain ⟨fs, f, st, _, hb0, _, _⟩ := wfFinish_ok _ _ _ _ _ _ _ _ h2
  simp only [M.pure_def, Prod.mk.injEq, Except.ok.injEq] at h
  rw [← h.1]
  have h0 : b0.kind = .warcFields := by rw [hb0]; rfl
  split
  · rw [wfDetectFix_kind]; exact h0
  · exact h0

/-- with a failing content reader the block parser never hands out a revisit block -/
theorem parseBlock_fault_kind (o : Opts) (Ω : Oracles) (rt : Nat) (c : Bytes) (s s' : St) (b : Block)
    (h : parseBlock o Ω rt c true s = (.ok b, s')) :
    b.kind = .httpResp ∨ b.kind = .httpReq ∨ b.kind = .warcFields ∨ b.kind = .generic := by
  unfold parseBlock at h
  obtain ⟨bd0, s1, h1, hx⟩ := bind_ok _ _ _ _ _ h
  obtain ⟨pd0, s2, h2, hy⟩ := bind_ok _ _ _ _ _ hx
  obtain ⟨hd, s3, h3, hz⟩ := bind_ok _ _ _ _ _ hy
  clear h hx hy
  have h := hz
  clear hz
  dsimp only at h
  by_cases c1 : (!o.skipParseBlock && rt &&& Gen.httpBlockMask != 0 && hasPrefix (bs Gen.c_ApplicationHttp) (lowerKey (hd.get (bs "Content-Type")))) = true
  · simp only [c1, ↓reduceIte] at h
    rcases newHttpBlock_kind _ _ _ _ _ _ _ _ h with e | e
    · exact Or.inl e
    · exact Or.inr (Or.inl e)
  · simp only [c1, Bool.false_eq_true, ↓reduceIte] at h
    by_cases c2 : (!o.skipParseBlock && rt == RT_Revisit) = true
    · simp [c2, M.fail] at h
    · simp only [c2, Bool.false_eq_true, ↓reduceIte] at h
      by_cases c3 : (!o.skipParseBlock && hasPrefix (bs Gen.c_ApplicationWarcFields) (lowerKey (hd.get (bs "Content-Type")))) = true
      · simp only [c3, ↓reduceIte] at h
        exact Or.inr (Or.inr (Or.inl (newWarcFieldsBlock_kind _ _ _ _ _ _ _ h)))
      · simp only [c3, Bool.false_eq_true, ↓reduceIte, M.pure_def, Prod.mk.injEq, Except.ok.injEq] at h
        rw [← h.1]
        exact Or.inr (Or.inr (Or.inr rfl))

section
variable (H : Alg → Bytes → Bytes)

/-- ValidateDigest meets the read error of every block it has to cache -/
theorem validateDigest_fault (o : Opts) (rt : Nat) (b : Block) (s s' : St)
    (hk : b.kind = .generic ∨ b.kind = .httpReq ∨ b.kind = .httpResp)
    (h : validateDigest H o rt b true s = (.ok (), s')) : False := by
  unfold validateDigest at h
  obtain ⟨_, s1, h1, _⟩ := bind_ok _ _ _ _ _ h
  have hc : (true && (b.kind == .generic || b.kind == .httpReq || b.kind == .httpResp)) = true := by
    rcases hk with e | e | e <;> simp [e]
  simp [hc, condFail, M.fail] at h1

/-- **a block cut short by a read error is never handed out**: the stream fails (not: ends) before the declared block
    is complete ⇒ Unmarshal returns an error under every policy and option setting -/
theorem C07_fault_explicit (o : Opts) (Ω : Oracles) (vt : Bytes) (vi : Nat) (fs : Fields) (s' : Stream) (st st' : St)
    (r : Option Rec) (rest : Bytes) (hf : s'.fault = true)
    (hshort : contentLengthOf fs < 0 ∨ s'.rest.length < (contentLengthOf fs).toNat) :
    unmarshalTail H o Ω vt vi fs s' st ≠ (.ok (r, rest), st') := by
  intro h0
  unfold unmarshalTail at h0
  obtain ⟨_, s1, h1, ha⟩ := bind_ok _ _ _ _ _ h0
  simp only [M.setHdr_def, Prod.mk.injEq, Except.ok.injEq, true_and] at h1
  obtain ⟨rt, s2, h2, hb⟩ := bind_ok _ _ _ _ _ ha
  obtain ⟨hd, s3, h3, hc⟩ := bind_ok _ _ _ _ _ hb
  clear h0 ha hb
  simp only [M.hdr_def, Prod.mk.injEq, Except.ok.injEq] at h3
  have e2 : s2.hdr = s1.hdr := keep_of_eq (validateHeader_keep o Ω vi) h2
  have ehd : fs = hd := by rw [← h3.1, e2, ← h1]
  have hcf : (s'.fault && (decide (contentLengthOf hd < 0) || decide (s'.rest.length < (contentLengthOf hd).toNat))) = true := by
    rw [← ehd]
    rcases hshort with e | e <;> simp [hf, e]
  dsimp only at hc
  rw [hcf] at hc
  obtain ⟨b, s4, h4, hd1⟩ := bind_ok _ _ _ _ _ hc
  obtain ⟨_, s5, h5, hd2⟩ := bind_ok _ _ _ _ _ hd1
  obtain ⟨_, s6, h6, _⟩ := bind_ok _ _ _ _ _ hd2
  rcases parseBlock_fault_kind o Ω rt _ s3 s4 b h4 with e | e | e | e
  · exact validateDigest_fault H o rt b s4 s5 (Or.inr (Or.inr e)) h5
  · exact validateDigest_fault H o rt b s4 s5 (Or.inr (Or.inl e)) h5
  · simp [e, condFail, M.fail] at h6
  · exact validateDigest_fault H o rt b s4 s5 (Or.inl e) h5

end
end Gowarc.Props.C07
