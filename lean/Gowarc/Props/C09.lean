/-
  C09 — Concurrent writing never loses, duplicates, tears or misplaces records.

  Protocol level (this file): over the model of C10 (`Proto`), for any number of callers and workers and every
  interleaving: a job is written by exactly one worker, exactly once (`C09_exactly_once`); a Write that returned
  responses had its job written (`C09_responded_written`); a Write that returned nil has written nothing and never will
  (`C09_nil_nothing`).
  File level: each worker is a sequential writer (C04, C13: offsets, whole records, one file per record), the records of
  one job are written back to back by one worker (`Step.kWork` is the loop over the job's records under the worker's own
  file lock).
  Tie: the regenerated synchronisation skeleton of warcfile.go (Gen/SyncSkeleton.lean) must equal the skeleton this model
  was written from (`C09_skeleton` / `C10_skeleton`); the stress harness (kind `conc`) runs real goroutines with a gating
  marshaler under seeded schedules and judges every clause of the property on the files and responses.
-/
import Gowarc.Props.C10
namespace Gowarc.Props.C09
open Gowarc.Proto Gowarc.Props.C10

def sameJob (a b : LogEntry) : Prop := a.caller = b.caller ∧ a.seq = b.seq

structure LogInv (n k : Nat) (s : St) : Prop where
  distinct : s.log.Pairwise (fun a b => ¬ sameJob a b)
  entries : ∀ e, e ∈ s.log → e.caller < n ∧ e.worker < k ∧
      (e.seq > (s.callers e.caller).rest.length ∨ (e.seq = (s.callers e.caller).rest.length ∧ s.workers e.worker = .k2 e.caller))
  replying : ∀ i c, i < k → s.workers i = .k2 c → ∃ e, e ∈ s.log ∧ e.worker = i ∧ e.caller = c ∧ e.seq = (s.callers c).rest.length
  results : ∀ c, c < n → ∀ r, r ∈ s.results c → r.seq > (s.callers c).rest.length ∧
      (r.responded = true → ∃ e, e ∈ s.log ∧ e.caller = c ∧ e.seq = r.seq) ∧
      (r.responded = false → ∀ e, e ∈ s.log → ¬ (e.caller = c ∧ e.seq = r.seq))

theorem loginv_init (n k : Nat) (progs : Nat → List COp) : LogInv n k (init progs) := by
  constructor <;> simp [init]

section
variable (n k : Nat) (s s' : St) (hi : Inv n k s) (h : LogInv n k s) (hs : Step n k s s')
include hi h hs

theorem step_distinct : s'.log.Pairwise (fun a b => ¬ sameJob a b) := by
  obtain ⟨g1, g2, g3, g4⟩ := h
  obtain ⟨h1, h2, h3, h4, h5, h6, h7, h8, h9, h10, h11⟩ := hi
  cases hs <;> simp only [sameJob, List.pairwise_append, List.mem_singleton, List.pairwise_cons, List.Pairwise.nil] at * <;> try assumption
  case kWork i c hik hw =>
    refine ⟨g1, ⟨(by intro a ha; cases ha), trivial⟩, ?_⟩
    intro a ha b hb
    subst hb
    intro ⟨hc, hsq⟩
    simp only at hc hsq
    obtain ⟨_, hwk, hor⟩ := g2 a ha
    rcases hor with hgt | ⟨_, hk2⟩
    · rw [hc] at hgt; omega
    · rw [hc] at hk2
      have := h8 a.worker i c hwk hik (Or.inr hk2) (Or.inl hw)
      rw [this, hw] at hk2
      cases hk2


theorem step_entries : ∀ e, e ∈ s'.log → e.caller < n ∧ e.worker < k ∧
      (e.seq > (s'.callers e.caller).rest.length ∨ (e.seq = (s'.callers e.caller).rest.length ∧ s'.workers e.worker = .k2 e.caller)) := by
  obtain ⟨g1, g2, g3, g4⟩ := h
  obtain ⟨h1, h2, h3, h4, h5, h6, h7, h8, h9, h10, h11⟩ := hi
  cases hs <;> simp only [dHolds, wHolds, upd, List.mem_append, List.mem_singleton, List.length_cons] at * <;> try grind


theorem step_replying : ∀ i c, i < k → s'.workers i = .k2 c → ∃ e, e ∈ s'.log ∧ e.worker = i ∧ e.caller = c ∧ e.seq = (s'.callers c).rest.length := by
  obtain ⟨g1, g2, g3, g4⟩ := h
  obtain ⟨h1, h2, h3, h4, h5, h6, h7, h8, h9, h10, h11⟩ := hi
  cases hs <;> simp only [dHolds, wHolds, upd, List.mem_append, List.mem_singleton, List.length_cons] at * <;> try grind
  case kWork i0 c0 hik hw =>
    intro i c hi' hk2
    by_cases hii : i = i0
    · subst hii
      simp only [↓reduceIte, WPc.k2.injEq] at hk2
      subst hk2
      exact ⟨⟨i, c0, (s.callers c0).rest.length⟩, Or.inr rfl, rfl, rfl, rfl⟩
    · simp only [hii, ↓reduceIte] at hk2
      obtain ⟨e, he, r⟩ := g3 i c hi' hk2
      exact ⟨e, Or.inl he, r⟩


theorem step_results : ∀ c, c < n → ∀ r, r ∈ s'.results c → r.seq > (s'.callers c).rest.length ∧
      (r.responded = true → ∃ e, e ∈ s'.log ∧ e.caller = c ∧ e.seq = r.seq) ∧
      (r.responded = false → ∀ e, e ∈ s'.log → ¬ (e.caller = c ∧ e.seq = r.seq)) := by
  obtain ⟨g1, g2, g3, g4⟩ := h
  obtain ⟨h1, h2, h3, h4, h5, h6, h7, h8, h9, h10, h11⟩ := hi
  cases hs <;> simp only [dHolds, wHolds, upd, List.mem_append, List.mem_singleton, List.length_cons] at * <;> try grind


end

theorem step_loginv (n k : Nat) (s s' : St) (hi : Inv n k s) (h : LogInv n k s) (hs : Step n k s s') : LogInv n k s' :=
  ⟨step_distinct n k s s' hi h hs, step_entries n k s s' hi h hs, step_replying n k s s' hi h hs, step_results n k s s' hi h hs⟩

theorem reach_loginv (n k : Nat) (progs : Nat → List COp) (s : St) (h : Reach n k progs s) : LogInv n k s := by
  induction h with
  | init => exact loginv_init n k progs
  | step s s' hr hs ih => exact step_loginv n k s s' (reach_inv n k progs s hr) ih hs

/-- **exactly once**: in every reachable state no job occurs twice in the log of what the workers have written — under
    every interleaving of any number of callers, the dispatcher and any number of workers -/
theorem C09_exactly_once (n k : Nat) (progs : Nat → List COp) (s : St) (hr : Reach n k progs s) :
    s.log.Pairwise (fun a b => ¬ (a.caller = b.caller ∧ a.seq = b.seq)) :=
  (reach_loginv n k progs s hr).distinct

/-- **a Write that returned responses had its job written** (by exactly one worker, by the theorem above) -/
theorem C09_responded_written (n k : Nat) (progs : Nat → List COp) (s : St) (hr : Reach n k progs s) (c : Nat) (hc : c < n)
    (r : Result) (hres : r ∈ s.results c) (hresp : r.responded = true) : ∃ e, e ∈ s.log ∧ e.caller = c ∧ e.seq = r.seq :=
  ((reach_loginv n k progs s hr).results c hc r hres).2.1 hresp

/-- **a Write that returned no responses has written nothing** — in this state and, because the statement holds in
    every reachable state and results are never retracted, in every later one -/
theorem C09_nil_nothing (n k : Nat) (progs : Nat → List COp) (s : St) (hr : Reach n k progs s) (c : Nat) (hc : c < n)
    (r : Result) (hres : r ∈ s.results c) (hresp : r.responded = false) : ∀ e, e ∈ s.log → ¬ (e.caller = c ∧ e.seq = r.seq) :=
  ((reach_loginv n k progs s hr).results c hc r hres).2.2 hresp

/-- results are never retracted -/
theorem results_mono (n k : Nat) (s s' : St) (hs : Step n k s s') (c : Nat) (r : Result) (h : r ∈ s.results c) : r ∈ s'.results c := by
  cases hs <;> simp_all [upd] <;> grind

/-- every log entry names a real caller and a real worker, and a job is in the hands of at most one goroutine at a time
    (the linear-token invariant behind exactly-once) -/
theorem C09_single_holder (n k : Nat) (progs : Nat → List COp) (s : St) (hr : Reach n k progs s) (c : Nat) :
    (dHolds s c → ∀ i, i < k → ¬ wHolds s i c) ∧ (∀ i i', i < k → i' < k → wHolds s i c → wHolds s i' c → i = i') :=
  ⟨fun hd i hi' => (reach_inv n k progs s hr).uniq_dw i c hi' hd, fun i i' hi' hi'' => (reach_inv n k progs s hr).uniq_ww i i' c hi' hi''⟩

end Gowarc.Props.C09
