/-
  C06, the last gap: cuts inside the header section, and the umbrella theorem for plain records.

  * `C06_cut_in_header` — a record with clean fields cut anywhere inside its header section (field lines and the blank
    line): the header parser never takes the cut for the end of the section (`cut_header_endsEmpty`), so what is left for the
    block is the empty stream, and a record that is returned nevertheless carries the trailer finding.
  * `C06_visible_plain` — for EVERY strict non-empty prefix of a plain serialized record with clean fields and a truthful
    Content-Length, for every block content, under every policy with spec checking on: Unmarshal returns an error (io.EOF
    counts: it is reported at the offset where the partial record starts, which is smaller than the stream length) or a
    record that carries the trailer finding. Never a clean record.
-/
import Gowarc.Lemmas.CutHeader
import Gowarc.Props.C01gz
namespace Gowarc.Props.C06
open Gowarc Gowarc.Props.C19 Gowarc.Props.C01

section
variable (H : Alg → Bytes → Bytes)

/-- Unmarshal of a plain stream whose version line is complete: the rest is `unmarshalBody` -/
theorem unmarshal_after_version (o : Opts) (Ω : Oracles) (ver X : Bytes) (hnolf : LF ∉ ver) :
    unmarshal H o Ω ⟨bs "WARC/" ++ ver ++ crlf ++ X, false⟩ =
      (match unmarshalBody H o Ω ⟨X, false⟩ (ver ++ crlf) ⟨[], []⟩ with
       | (.ok (r, rest), st) => ⟨r, 0, st.fnd, none, rest⟩
       | (.error t, st) => ⟨none, 0, st.fnd, some t, []⟩) := by
  have hs : bs "WARC/" ++ ver ++ crlf ++ X = bs "WARC/" ++ (ver ++ crlf ++ X) := by simp [List.append_assoc]
  rw [hs, unmarshal_plain_start]
  unfold unmarshalAfterMagic
  simp only [C01_version_line ver X hnolf, Bool.not_true, Bool.false_eq_true, ↓reduceIte]
  rfl

/-- **visible, cut inside the header section** -/
theorem C06_cut_in_header (o : Opts) (Ω : Oracles) (hspec : o.spec ≠ .ignore) (ver : Bytes) (hnolf : LF ∉ ver)
    (fs : Fields) (hne : fs ≠ []) (hclean : ∀ nv ∈ fs, CleanField nv) (k : Nat) (hk : k < (headerText fs).length) :
    (unmarshal H o Ω ⟨bs "WARC/" ++ ver ++ crlf ++ (headerText fs).take k, false⟩).err ≠ none ∨
    Tag.specTrailer ∈ (unmarshal H o Ω ⟨bs "WARC/" ++ ver ++ crlf ++ (headerText fs).take k, false⟩).fnd := by
  rw [unmarshal_after_version H o Ω ver _ hnolf]
  -- the header parser on the cut section
  have hpe : (parseFields o.syn ⟨(headerText fs).take k, false⟩).endsEmpty := by
    have hfuel := C05.C05_parse_total o.syn ⟨(headerText fs).take k, false⟩ (((headerText fs).take k).length + 2 + (fs.length + 1)) (by simp only; omega)
    rw [← hfuel]
    exact cut_header_endsEmpty o.syn fs [] _ k hne hclean (by omega) hk
  cases hb : unmarshalBody H o Ω ⟨(headerText fs).take k, false⟩ (ver ++ crlf) ⟨[], []⟩ with
  | mk res st =>
    cases res with
    | error t => left; simp
    | ok v =>
      obtain ⟨r, rest⟩ := v
      right
      simp only
      unfold unmarshalBody at hb
      obtain ⟨_, t1, _, hb⟩ := bind_ok _ _ _ _ _ hb
      obtain ⟨vv, t2, _, hb⟩ := bind_ok _ _ _ _ _ hb
      unfold unmarshalRest at hb
      cases hp : parseFields o.syn ⟨(headerText fs).take k, false⟩ with
      | err t f =>
        rw [hp] at hb
        obtain ⟨_, t3, _, hb⟩ := bind_ok _ _ _ _ _ hb
        simp at hb
      | ok fs' f s' =>
        rw [hp] at hb hpe
        obtain ⟨_, t3, _, hb⟩ := bind_ok _ _ _ _ _ hb
        have hempty : s'.rest = [] := hpe
        rcases C06_trailer_or_finding H o Ω _ _ fs' s' t3 st r rest hspec hb with h | h
        · exfalso
          rw [hempty] at h
          split at h <;> simp [crlfcrlf] at h
        · exact h

/-- a stream of fewer than five bytes is never a record -/
theorem unmarshal_short (o : Opts) (Ω : Oracles) (p : Bytes) (h : p.length < 5) : (unmarshal H o Ω ⟨p, false⟩).err ≠ none := by
  unfold unmarshal
  have : skipJunk (p.length + 1) p 0 = .inl 0 := by rw [skipJunk]; simp [h]
  simp only [this]
  split <;> simp

/-- a stream cut inside the version line is never a record -/
theorem unmarshal_cut_version (o : Opts) (Ω : Oracles) (after : Bytes) (hnl : LF ∉ after) :
    (unmarshal H o Ω ⟨bs "WARC/" ++ after, false⟩).err ≠ none := by
  rw [unmarshal_plain_start]
  unfold unmarshalAfterMagic
  simp [readBytesNL_nolf after hnl]

/-- **the cut is always visible (plain records)**: every strict, non-empty prefix of a serialized record with clean
    fields and a truthful Content-Length — whatever the block contains — makes Unmarshal return an error or a record that
    carries the trailer finding, under every policy with spec checking on -/
theorem C06_visible_plain (o : Opts) (Ω : Oracles) (hspec : o.spec ≠ .ignore)
    (ver : String) (vid : Nat) (hver : (ver, vid) ∈ Gen.versions)
    (hfind : Gen.versions.find? (fun p => bs p.1 == bs ver) = some (ver, vid))
    (hnolf : LF ∉ bs ver) (htrim : trim isWs (bs ver ++ crlf) = bs ver)
    (fs : Fields) (hne : fs ≠ []) (hclean : ∀ nv ∈ fs, CleanField nv)
    (B : Bytes) (hcl : contentLengthOf fs = (B.length : Int)) (k : Nat)
    (hk : k < (bs "WARC/" ++ (bs ver ++ crlf) ++ headerText fs ++ (B ++ crlfcrlf)).length) :
    (unmarshal H o Ω ⟨(bs "WARC/" ++ (bs ver ++ crlf) ++ headerText fs ++ (B ++ crlfcrlf)).take k, false⟩).err ≠ none ∨
    Tag.specTrailer ∈ (unmarshal H o Ω ⟨(bs "WARC/" ++ (bs ver ++ crlf) ++ headerText fs ++ (B ++ crlfcrlf)).take k, false⟩).fnd := by
  have h5 : (bs "WARC/").length = 5 := by simp [bs]
  have hvl : (bs ver ++ crlf).length = (bs ver).length + 2 := by simp [crlf]
  simp only [List.length_append, h5] at hk
  by_cases c1 : k < 5
  · left
    apply unmarshal_short
    simp only [List.length_take, List.length_append, h5]; omega
  · by_cases c2 : k < 5 + (bs ver ++ crlf).length
    · -- inside the version line
      left
      have hp : (bs "WARC/" ++ (bs ver ++ crlf) ++ headerText fs ++ (B ++ crlfcrlf)).take k = bs "WARC/" ++ (bs ver ++ crlf).take (k - 5) := by
        rw [List.append_assoc, List.append_assoc, List.take_append, List.take_of_length_le (by rw [h5]; omega), h5,
          List.take_append_of_le_length (by omega)]
      rw [hp]
      apply unmarshal_cut_version
      intro hm
      have hsub : (bs ver ++ crlf).take (k - 5) = (bs ver ++ [CR]).take (k - 5) := by
        have : bs ver ++ crlf = (bs ver ++ [CR]) ++ [LF] := by simp [crlf, CR, LF]
        rw [this, List.take_append_of_le_length (by simp only [List.length_append, List.length_singleton]; omega)]
      rw [hsub] at hm
      have := List.mem_of_mem_take hm
      simp only [List.mem_append, List.mem_singleton] at this
      rcases this with h1 | h1
      · exact hnolf h1
      · exact absurd h1 (by decide)
    · by_cases c3 : k < 5 + (bs ver ++ crlf).length + (headerText fs).length
      · -- inside the header section
        have hp : (bs "WARC/" ++ (bs ver ++ crlf) ++ headerText fs ++ (B ++ crlfcrlf)).take k =
            bs "WARC/" ++ bs ver ++ crlf ++ (headerText fs).take (k - (5 + (bs ver ++ crlf).length)) := by
          have hpre : (bs "WARC/" ++ (bs ver ++ crlf)).length = 5 + (bs ver ++ crlf).length := by simp only [List.length_append, h5]
          rw [List.append_assoc (bs "WARC/" ++ (bs ver ++ crlf)), List.take_append, List.take_of_length_le (by rw [hpre]; omega), hpre,
            List.take_append_of_le_length (by omega)]
          simp [List.append_assoc]
        rw [hp]
        exact C06_cut_in_header H o Ω hspec (bs ver) hnolf fs hne hclean _ (by omega)
      · -- behind the header section
        have hp : (bs "WARC/" ++ (bs ver ++ crlf) ++ headerText fs ++ (B ++ crlfcrlf)).take k =
            bs "WARC/" ++ bs ver ++ crlf ++ Fields.write fs ++ crlf ++ (B ++ crlfcrlf).take (k - (5 + (bs ver ++ crlf).length + (headerText fs).length)) := by
          have hpre : (bs "WARC/" ++ (bs ver ++ crlf) ++ headerText fs).length = 5 + (bs ver ++ crlf).length + (headerText fs).length := by
            simp only [List.length_append, h5]
          rw [List.take_append, List.take_of_length_le (by rw [hpre]; omega), hpre]
          simp [headerText, List.append_assoc]
        rw [hp]
        exact C06_cut_behind_header H o Ω hspec ver vid hver hfind hnolf htrim fs hne hclean B hcl _
          (by simp only [List.length_append, crlfcrlf, List.length_cons, List.length_nil] at hk ⊢; omega)

end
end Gowarc.Props.C06
