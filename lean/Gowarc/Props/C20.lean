/-
  C20 — Revisit creation and merge are mutually consistent.

  Model: `toRevisit`, `merge`, `createRevisitRef` (Model/Revisit.lean) over header fields and block bytes.
  Tie: correspondence kind `revisit` (build an original, derive the revisit under each profile, serialize + strict re-parse,
  merge back), every clause of the property judged on the implementation.
-/
import Gowarc.Model.Revisit
import Gowarc.Props.C18
namespace Gowarc.Props.C20
open Gowarc

/-! ### header lemmas: what Set leaves behind -/

theorem get_eq_head_getAll (h : Fields) (n : Bytes) : h.get n = (match h.getAll n with | [] => [] | v :: _ => v) := by
  rw [C18.C18_get, C18.C18_getAll]; rfl

theorem get_set_same (h : Fields) (n v : Bytes) : (h.set n v).get n = v := by
  rw [get_eq_head_getAll, C18.C18_set_one]

theorem has_set_same (h : Fields) (n v : Bytes) : (h.set n v).has n = true := by
  rw [C18.C18_has, Spec.MM.has, ← C18.C18_getAll, C18.C18_set_one]; simp

theorem find?_filter_imp {α} (l : List α) (p q : α → Bool) (himp : ∀ x, p x = true → q x = true) :
    (l.filter q).find? p = l.find? p := by
  induction l with
  | nil => rfl
  | cons a t ih =>
    by_cases hq : q a = true
    · simp only [List.filter_cons, hq, ↓reduceIte, List.find?_cons, ih]
    · have hp : p a = false := by
        cases hpa : p a with
        | false => rfl
        | true => exact absurd (himp a hpa) hq
      simp only [List.filter_cons, hq, Bool.false_eq_true, ↓reduceIte, List.find?_cons, hp, ih]

/-- Set on one name leaves the first value of every other name alone -/
theorem get_set_other (h : Fields) (n m v : Bytes) (hne : canon m ≠ canon n) : (h.set n v).get m = h.get m := by
  unfold Fields.get
  have key : ∀ l : Fields, l.find? (fun nv => nv.1 == canon m) = (l.filter (fun p => p.1 != canon n)).find? (fun nv => nv.1 == canon m) := by
    intro l
    rw [find?_filter_imp]
    intro x hx
    simp only [beq_iff_eq] at hx
    simp [hx, hne]
  rw [key (h.set n v), C18.C18_set_others, ← key h]

theorem get_delete_other (h : Fields) (n m : Bytes) (hne : canon m ≠ canon n) : (h.delete n).get m = h.get m := by
  unfold Fields.get Fields.delete
  rw [find?_filter_imp]
  intro x hx
  simp only [beq_iff_eq] at hx
  simp [hx, hne]

theorem any_filter_imp {α} (l : List α) (p q : α → Bool) (himp : ∀ x, p x = true → q x = true) :
    (l.filter q).any p = l.any p := by
  induction l with
  | nil => rfl
  | cons a t ih =>
    by_cases hq : q a = true
    · simp only [List.filter_cons, hq, ↓reduceIte, List.any_cons, ih]
    · have hp : p a = false := by
        cases hpa : p a with
        | false => rfl
        | true => exact absurd (himp a hpa) hq
      simp only [List.filter_cons, hq, Bool.false_eq_true, ↓reduceIte, List.any_cons, hp, ih, Bool.false_or]

theorem has_set_other (h : Fields) (n m v : Bytes) (hne : canon m ≠ canon n) : (h.set n v).has m = h.has m := by
  unfold Fields.has
  have key : ∀ l : Fields, l.any (fun nv => nv.1 == canon m) = (l.filter (fun p => p.1 != canon n)).any (fun nv => nv.1 == canon m) := by
    intro l
    rw [any_filter_imp]
    intro x hx
    simp only [beq_iff_eq] at hx
    simp [hx, hne]
  rw [key (h.set n v), C18.C18_set_others, ← key h]

theorem has_delete_other (h : Fields) (n m : Bytes) (hne : canon m ≠ canon n) : (h.delete n).has m = h.has m := by
  unfold Fields.has Fields.delete
  rw [any_filter_imp]
  intro x hx
  simp only [beq_iff_eq] at hx
  simp [hx, hne]

theorem has_delete_same (h : Fields) (n : Bytes) : (h.delete n).has n = false := (C18.C18_delete h n).1

macro "peel_has" : tactic => `(tactic| repeat (first | rw [has_set_other _ _ _ _ (by decide)] | rw [has_delete_other _ _ _ (by decide)] | unfold setInt))

theorem setId_eq (h : Fields) (n v : Bytes) (hv : v ≠ []) : ∃ w, Fields.idValue v = some w ∧ h.setId n v = h.set n w := by
  unfold Fields.setId
  cases hid : Fields.idValue v with
  | none =>
    unfold Fields.idValue at hid
    cases v with
    | nil => exact absurd rfl hv
    | cons b t => simp only at hid; split at hid <;> cases hid
  | some w => exact ⟨w, rfl, by simp only [hid]⟩

section
variable (H : Alg → Bytes → Bytes)

/-- the shape of every successful ToRevisitRecord -/
theorem toRevisit_ok (o : Opts) (r : RRec) (ref : RevisitRef) (rev : RRec) (h : toRevisit H o r ref = .ok rev) :
    ∃ d, newDigest o.defaultAlg o.defaultEnc = some d ∧
      rev = { rt := RT_Revisit, hdr := revisitHdr (revisitBase r ref) ref (d.format H (revisitHead r)) (revisitHead r).length,
              isHttp := false, revisitable := false, head := revisitHead r, payload := [],
              payloadDigest := if r.isHttp then r.payloadDigest else [], cached := true,
              blockDigestStr := d.format H (revisitHead r) } := by
  unfold toRevisit at h
  by_cases c1 : (isIPD ref.profile && !(revisitBase r ref).has (bs "WARC-Payload-Digest")) = true
  · simp [c1] at h
  · simp only [c1, Bool.false_eq_true, ↓reduceIte] at h
    by_cases c2 : (!isIPD ref.profile && !isSNM ref.profile) = true
    · simp [c2] at h
    · simp only [c2, Bool.false_eq_true, ↓reduceIte] at h
      by_cases c3 : (!r.revisitable) = true
      · simp [c3] at h
      · simp only [c3, Bool.false_eq_true, ↓reduceIte] at h
        cases hd : newDigest o.defaultAlg o.defaultEnc with
        | none => simp [hd] at h
        | some d => simp only [hd, Except.ok.injEq] at h; exact ⟨d, rfl, h.symm⟩

/-- **the revisit's block is exactly the original's protocol header; its type is revisit; Content-Length and
    WARC-Block-Digest are truthful for that block** -/
theorem C20_revisit (o : Opts) (r : RRec) (ref : RevisitRef) (rev : RRec) (h : toRevisit H o r ref = .ok rev) :
    rev.raw = revisitHead r ∧
    rev.rt = RT_Revisit ∧
    rev.hdr.get (bs "Content-Length") = natToDec rev.raw.length ∧
    (∃ d, newDigest o.defaultAlg o.defaultEnc = some d ∧
       rev.hdr.get (bs "WARC-Block-Digest") = d.name ++ [COLON] ++ d.enc.encode (H d.alg rev.raw)) := by
  obtain ⟨d, hd, hrev⟩ := toRevisit_ok H o r ref rev h
  subst hrev
  refine ⟨by simp [RRec.raw], rfl, ?_, d, hd, ?_⟩
  · simp only [RRec.raw, List.append_nil, revisitHdr]; exact get_set_same _ _ _
  · simp only [RRec.raw, List.append_nil, revisitHdr]
    rw [get_set_other _ _ _ _ (by decide), get_set_same]; rfl

/-- the reference fields of the RevisitRef and the type name are in the header -/
theorem C20_ref_fields (o : Opts) (r : RRec) (ref : RevisitRef) (rev : RRec) (h : toRevisit H o r ref = .ok rev) :
    rev.hdr.get (bs "WARC-Type") = bs "revisit" ∧
    rev.hdr.get (bs "WARC-Profile") = ref.profile ∧
    (ref.targetUri ≠ [] → rev.hdr.get (bs "WARC-Refers-To-Target-URI") = ref.targetUri) ∧
    (ref.targetDate ≠ [] → rev.hdr.get (bs "WARC-Refers-To-Date") = ref.targetDate) ∧
    (ref.targetRecordId ≠ [] → some (rev.hdr.get (bs "WARC-Refers-To")) = Fields.idValue ref.targetRecordId) ∧
    rev.hdr.get (bs "WARC-Truncated") = bs "length" := by
  obtain ⟨d, hd, hrev⟩ := toRevisit_ok H o r ref rev h
  subst hrev
  simp only [revisitHdr]
  have ne : ∀ a b : String, canon (bs a) ≠ canon (bs b) → canon (bs a) ≠ canon (bs b) := fun _ _ h => h
  -- peel the outer Sets (Content-Length, Block-Digest, Truncated) off any other key
  have peel : ∀ (base : Fields) (k : Bytes), canon k ≠ canon (bs "Content-Length") → canon k ≠ canon (bs "WARC-Block-Digest") →
      canon k ≠ canon (bs "WARC-Truncated") →
      (((base.set (bs "WARC-Truncated") (bs "length")).set (bs "WARC-Block-Digest") (d.format H (revisitHead r))).set
          (bs "Content-Length") (natToDec (revisitHead r).length)).get k = base.get k := by
    intro base k h1 h2 h3
    rw [get_set_other _ _ _ _ h1, get_set_other _ _ _ _ h2, get_set_other _ _ _ _ h3]
  have sine_same : ∀ (b : Fields) (n v : Bytes), v ≠ [] → (setIfNonEmpty b n v).get n = v := by
    intro b n v hv; unfold setIfNonEmpty; cases v with
    | nil => exact absurd rfl hv
    | cons x t => simp [get_set_same]
  have sine_other : ∀ (b : Fields) (n m v : Bytes), canon m ≠ canon n → (setIfNonEmpty b n v).get m = b.get m := by
    intro b n m v hne; unfold setIfNonEmpty; split
    · rfl
    · exact get_set_other _ _ _ _ hne
  refine ⟨?_, ?_, ?_, ?_, ?_, ?_⟩
  · rw [peel _ _ (by decide) (by decide) (by decide), sine_other _ _ _ _ (by decide), sine_other _ _ _ _ (by decide)]
    split
    · rw [get_set_other _ _ _ _ (by decide), get_set_same]; decide
    · rename_i hne
      obtain ⟨w, _, hw⟩ := setId_eq ((((revisitBase r ref).set (bs "WARC-Type") (recTypeName RT_Revisit)).set (bs "WARC-Profile") ref.profile))
        (bs "WARC-Refers-To") ref.targetRecordId (by intro e; apply hne; simp [e])
      rw [hw, get_set_other _ _ _ _ (by decide), get_set_other _ _ _ _ (by decide), get_set_same]; decide
  · rw [peel _ _ (by decide) (by decide) (by decide), sine_other _ _ _ _ (by decide), sine_other _ _ _ _ (by decide)]
    split
    · rw [get_set_same]
    · rename_i hne
      obtain ⟨w, _, hw⟩ := setId_eq ((((revisitBase r ref).set (bs "WARC-Type") (recTypeName RT_Revisit)).set (bs "WARC-Profile") ref.profile))
        (bs "WARC-Refers-To") ref.targetRecordId (by intro e; apply hne; simp [e])
      rw [hw, get_set_other _ _ _ _ (by decide), get_set_same]
  · intro hu
    rw [peel _ _ (by decide) (by decide) (by decide), sine_other _ _ _ _ (by decide), sine_same _ _ _ hu]
  · intro hdte
    rw [peel _ _ (by decide) (by decide) (by decide), sine_same _ _ _ hdte]
  · intro hid
    rw [peel _ _ (by decide) (by decide) (by decide), sine_other _ _ _ _ (by decide), sine_other _ _ _ _ (by decide)]
    have hne : ¬ (ref.targetRecordId.isEmpty = true) := by intro e; apply hid; cases hx : ref.targetRecordId <;> simp_all
    simp only [hne, Bool.false_eq_true, ↓reduceIte]
    obtain ⟨w, hw1, hw⟩ := setId_eq ((((revisitBase r ref).set (bs "WARC-Type") (recTypeName RT_Revisit)).set (bs "WARC-Profile") ref.profile))
      (bs "WARC-Refers-To") ref.targetRecordId hid
    rw [hw, get_set_same, hw1]
  · rw [get_set_other _ _ _ _ (by decide), get_set_other _ _ _ _ (by decide), get_set_same]

/-- the original's payload digest is carried over unchanged -/
theorem C20_payload_digest (o : Opts) (r : RRec) (ref : RevisitRef) (rev : RRec) (h : toRevisit H o r ref = .ok rev)
    (hpd : r.hdr.has (bs "WARC-Payload-Digest") = true) :
    rev.hdr.get (bs "WARC-Payload-Digest") = r.hdr.get (bs "WARC-Payload-Digest") := by
  obtain ⟨d, hd, hrev⟩ := toRevisit_ok H o r ref rev h
  subst hrev
  have hbase : revisitBase r ref = r.hdr := by simp [revisitBase, hpd]
  simp only [revisitHdr, hbase]
  rw [get_set_other _ _ _ _ (by decide), get_set_other _ _ _ _ (by decide), get_set_other _ _ _ _ (by decide)]
  have sine_other : ∀ (b : Fields) (n m v : Bytes), canon m ≠ canon n → (setIfNonEmpty b n v).get m = b.get m := by
    intro b n m v hne; unfold setIfNonEmpty; split
    · rfl
    · exact get_set_other _ _ _ _ hne
  rw [sine_other _ _ _ _ (by decide), sine_other _ _ _ _ (by decide)]
  split
  · rw [get_set_other _ _ _ _ (by decide), get_set_other _ _ _ _ (by decide)]
  · rename_i hne
    obtain ⟨w, _, hw⟩ := setId_eq (((r.hdr.set (bs "WARC-Type") (recTypeName RT_Revisit)).set (bs "WARC-Profile") ref.profile))
      (bs "WARC-Refers-To") ref.targetRecordId (by intro e; apply hne; simp [e])
    rw [hw, get_set_other _ _ _ _ (by decide), get_set_other _ _ _ _ (by decide), get_set_other _ _ _ _ (by decide)]

end

/-- **merging a revisit with the original gives the revisit's protocol header followed by the original's payload, a
    Content-Length that is truthful for those bytes whenever the original's was truthful, and a record whose Type()
    agrees with its WARC-Type field as the original's did** (protocol header that parses as it is) -/
theorem C20_merge (Ω : Oracles) (syn : Pol) (isResp : Bool) (rev orig m : RRec)
    (hparse : Ω.http isResp rev.head = true)
    (h : merge Ω syn isResp rev orig = .ok m) :
    m.raw = rev.head ++ orig.payload ∧ m.rt = orig.rt ∧
    m.hdr.get (bs "WARC-Type") = orig.hdr.get (bs "WARC-Type") ∧
    (contentLengthOf orig.hdr = (orig.raw.length : Int) → m.hdr.get (bs "Content-Length") = intToDec (m.raw.length : Int)) ∧
    (m.hdr.has (bs "WARC-Refers-To") = false ∧ m.hdr.has (bs "WARC-Refers-To-Target-URI") = false ∧
     m.hdr.has (bs "WARC-Refers-To-Date") = false ∧ m.hdr.has (bs "WARC-Profile") = false) := by
  unfold merge at h
  by_cases c1 : (rev.hdr.get (bs "WARC-Segment-Number") == bs "1") = true
  · simp [c1] at h
  · simp only [c1, Bool.false_eq_true, ↓reduceIte] at h
    by_cases c2 : (rev.rt != RT_Revisit) = true
    · simp [c2] at h
    · simp only [c2, Bool.false_eq_true, ↓reduceIte] at h
      by_cases c3 : (!orig.isHttp) = true
      · simp [c3] at h
      · simp only [c3, Bool.false_eq_true, ↓reduceIte] at h
        by_cases c4 : (!orig.hdr.has (bs "Content-Length") || (parseInt10 (orig.hdr.get (bs "Content-Length"))).isNone) = true
        · simp [c4] at h
        · simp only [c4, Bool.false_eq_true, ↓reduceIte, hparse] at h
          simp only [Except.ok.injEq] at h
          subst h
          refine ⟨rfl, rfl, ?_, ?_, ?_, ?_, ?_, ?_⟩
          rotate_left 2
          all_goals try (simp only; split <;> peel_has <;> split <;> peel_has <;> exact has_delete_same _ _)
          · simp only
            split
            · rw [get_set_other _ _ _ _ (by decide)]; unfold setInt; rw [get_set_other _ _ _ _ (by decide)]
              split
              · rw [get_set_other _ _ _ _ (by decide), get_delete_other _ _ _ (by decide), get_delete_other _ _ _ (by decide),
                    get_delete_other _ _ _ (by decide), get_delete_other _ _ _ (by decide), get_set_same]
              · rw [get_delete_other _ _ _ (by decide), get_delete_other _ _ _ (by decide), get_delete_other _ _ _ (by decide),
                    get_delete_other _ _ _ (by decide), get_delete_other _ _ _ (by decide), get_set_same]
            · rw [get_delete_other _ _ _ (by decide)]; unfold setInt; rw [get_set_other _ _ _ _ (by decide)]
              split
              · rw [get_set_other _ _ _ _ (by decide), get_delete_other _ _ _ (by decide), get_delete_other _ _ _ (by decide),
                    get_delete_other _ _ _ (by decide), get_delete_other _ _ _ (by decide), get_set_same]
              · rw [get_delete_other _ _ _ (by decide), get_delete_other _ _ _ (by decide), get_delete_other _ _ _ (by decide),
                    get_delete_other _ _ _ (by decide), get_delete_other _ _ _ (by decide), get_set_same]
          · intro hcl
            have hsz : ((rev.head.length : Int) + contentLengthOf orig.hdr - (orig.head.length : Int)) = ((rev.head ++ orig.payload).length : Int) := by
              rw [hcl]; simp only [RRec.raw, List.length_append]; omega
            simp only [RRec.raw]
            split
            · rw [get_set_other _ _ _ _ (by decide)]; unfold setInt; rw [get_set_same, hsz]
            · rw [get_delete_other _ _ _ (by decide)]; unfold setInt; rw [get_set_same, hsz]

/-- **round trip**: the revisit made from an http record, merged with that record again, has the record's full block -/
theorem C20_roundtrip (H : Alg → Bytes → Bytes) (Ω : Oracles) (o : Opts) (syn : Pol) (isResp : Bool) (orig rev m : RRec) (ref : RevisitRef)
    (hhttp : orig.isHttp = true) (hrev : toRevisit H o orig ref = .ok rev)
    (hparse : Ω.http isResp orig.head = true)
    (h : merge Ω syn isResp rev orig = .ok m) :
    m.raw = orig.raw ∧ m.rt = orig.rt ∧ m.hdr.get (bs "WARC-Type") = orig.hdr.get (bs "WARC-Type") ∧
    (contentLengthOf orig.hdr = (orig.raw.length : Int) → m.hdr.get (bs "Content-Length") = intToDec (orig.raw.length : Int)) := by
  obtain ⟨d, _, hr⟩ := toRevisit_ok H o orig ref rev hrev
  have hhead : rev.head = orig.head := by rw [hr]; simp [revisitHead, hhttp]
  obtain ⟨h1, h2, h3, h4, _⟩ := C20_merge Ω syn isResp rev orig m (by rw [hhead]; exact hparse) h
  have hraw : m.raw = orig.raw := by rw [h1, hhead]; rfl
  exact ⟨hraw, h2, h3, fun hc => by rw [← hraw]; exact h4 hc⟩

/-- the errors of Merge: a segmented or non-revisit record, a non-http original, an original without usable length -/
theorem C20_merge_refuses (Ω : Oracles) (syn : Pol) (isResp : Bool) (rev orig : RRec) :
    (rev.rt ≠ RT_Revisit → ∃ e, merge Ω syn isResp rev orig = .error e) ∧
    (orig.isHttp = false → ∃ e, merge Ω syn isResp rev orig = .error e) := by
  constructor
  · intro hne
    unfold merge
    split
    · exact ⟨_, rfl⟩
    · have : (rev.rt != RT_Revisit) = true := by simp [hne]
      simp only [this, ↓reduceIte]; exact ⟨_, rfl⟩
  · intro hh
    unfold merge
    split
    · exact ⟨_, rfl⟩
    · split
      · exact ⟨_, rfl⟩
      · simp only [hh, Bool.not_false, ↓reduceIte]; exact ⟨_, rfl⟩

/-- a reference can never be made of a revisit record -/
theorem C20_no_ref_of_revisit (r : RRec) (p : Bytes) (h : r.rt = RT_Revisit) : createRevisitRef r p = .error .refOfRevisit := by
  simp [createRevisitRef, h]

/-! ### non-vacuity -/
def exOpts : Opts := ⟨.warn, .warn, .warn, .warn, false, true, true, true, true, true, true, true, bs "sha1", .b32⟩
def exOrig : RRec := { rt := RT_Resource, hdr := Fields.set (Fields.set ([] : Fields) (bs "WARC-Type") (bs "resource")) (bs "WARC-Payload-Digest") (bs "sha1:AA"), isHttp := true, revisitable := true, head := bs "HTTP/1.1 200 OK", payload := bs "body", payloadDigest := bs "sha1:AA", cached := true, blockDigestStr := bs "sha1:BB" }

example : (toRevisit (fun _ b => b) exOpts exOrig ⟨profileIPD11, [], [], []⟩).isOk = true := by decide

end Gowarc.Props.C20
