/-
  C07, the part that was only compared before: the FIELDS the header parser returns, and the point where it stops, do not
  depend on the syntax policy. Any two policies that both accept a header section return the same fields (names,
  values, order) and leave the same stream behind; only the findings differ.
-/
import Gowarc.Lemmas.RecordMono
namespace Gowarc.Props.C07
open Gowarc

theorem Pol.le_total (p q : Pol) : p.le q = true ∨ q.le p = true := by cases p <;> cases q <;> simp [Pol.le]

/-- **the parsed header does not depend on the syntax policy** -/
theorem C07_parser_policy_independent (p q : Pol) (s : Stream) (fs fs' : Fields) (f f' : List Tag) (s' s'' : Stream)
    (hp : parseFields p s = .ok fs f s') (hq : parseFields q s = .ok fs' f' s'') : fs = fs' ∧ s' = s'' := by
  rcases Pol.le_total p q with h | h
  · obtain ⟨g, hg, _⟩ := parseFields_le p q h s fs' f' s'' hq
    rw [hp] at hg
    simp only [ParseRes.ok.injEq] at hg
    exact ⟨hg.1, hg.2.2⟩
  · obtain ⟨g, hg, _⟩ := parseFields_le q p h s fs f s' hp
    rw [hq] at hg
    simp only [ParseRes.ok.injEq] at hg
    exact ⟨hg.1.symm, hg.2.2.symm⟩

/-- non-vacuous: one field line with a bare LF ending is accepted under ignore and under warn (with a finding) -/
example : ∃ fs f f' s', parseFields .ignore ⟨bs "a: b\n\r\n", false⟩ = .ok fs f s' ∧ parseFields .warn ⟨bs "a: b\n\r\n", false⟩ = .ok fs f' s' ∧ f ≠ f' := by
  refine ⟨[(bs "A", bs "b")], [], [.synMissingCR], ⟨[], false⟩, ?_, ?_, by decide⟩ <;> decide

end Gowarc.Props.C07
