/-
  C03, completeness across the three encodings: what `format` writes is READ BACK by `newDigest` as the same algorithm,
  the same encoding and the same value, whatever default encoding the reading side is configured with — so a digest field
  written by this library is never reported by this library, in any supported algorithm and encoding.

  `detectEncoding` infers the encoding from the length of the value (and, for MD5, where base16 and base32 both have 32
  characters, from a trailing `=`); the theorem says that inference is right for every hash value of the algorithm's size.
-/
import Gowarc.Lemmas.DigestDetect
import Gowarc.Props.C19pos
namespace Gowarc.Props.C03
open Gowarc Gowarc.Props.C19
set_option linter.unusedSimpArgs false

/-- **the encoding of a well-formed digest value is inferred correctly**, for all four algorithms, all three encodings,
    every hash value of the algorithm's size, independent of the configured default -/
theorem C03_detect (alg : Alg) (e : Enc) (he : e ≠ .unknown) (hash : Bytes) (hlen : hash.length = alg.size) (dflt : Enc) :
    detectEncoding alg.name (e.encode hash) dflt = e := by
  unfold detectEncoding
  cases alg <;> cases e <;> first | exact absurd rfl he | skip
  all_goals simp only [Alg.name, Alg.size, Enc.encode] at hlen ⊢
  -- md5
  · have h1 : (bs "md5" == bs "md5") = true := by decide
    have h2 : (hexEnc hash).length = 32 := by rw [hex_length, hlen]
    simp only [h1, h2, beq_self_eq_true, Bool.and_self, ↓reduceIte]
    have := hexEnc_last_ne_pad hash
    simp [this]
  · have h1 : (bs "md5" == bs "md5") = true := by decide
    have h2 : (b32Enc hash).length = 32 := by rw [b32Enc_length, hlen]; rfl
    simp only [h1, h2, beq_self_eq_true, Bool.and_self, ↓reduceIte]
    simp [b32Enc_last_pad hash (by rw [hlen]; decide)]
  · have h1 : (bs "md5" == bs "md5") = true := by decide
    have h2 : (b64Enc hash).length = 24 := by rw [b64Enc_length, hlen]; rfl
    have h3 : algOfName (bs "md5") = some .md5 := by decide
    simp [h2, h3, Alg.size, b32EncodedLen, b64EncodedLen]
  -- sha1
  · have h1 : (bs "sha1" == bs "md5") = false := by decide
    have h2 : (hexEnc hash).length = 40 := by rw [hex_length, hlen]
    have h3 : algOfName (bs "sha1") = some .sha1 := by decide
    simp [h1, h2, h3, Alg.size]
  · have h1 : (bs "sha1" == bs "md5") = false := by decide
    have h2 : (b32Enc hash).length = 32 := by rw [b32Enc_length, hlen]; rfl
    have h3 : algOfName (bs "sha1") = some .sha1 := by decide
    simp [h1, h2, h3, Alg.size, b32EncodedLen]
  · have h1 : (bs "sha1" == bs "md5") = false := by decide
    have h2 : (b64Enc hash).length = 28 := by rw [b64Enc_length, hlen]; rfl
    have h3 : algOfName (bs "sha1") = some .sha1 := by decide
    simp [h1, h2, h3, Alg.size, b32EncodedLen, b64EncodedLen]
  -- sha256
  · have h1 : (bs "sha256" == bs "md5") = false := by decide
    have h2 : (hexEnc hash).length = 64 := by rw [hex_length, hlen]
    have h3 : algOfName (bs "sha256") = some .sha256 := by decide
    simp [h1, h2, h3, Alg.size]
  · have h1 : (bs "sha256" == bs "md5") = false := by decide
    have h2 : (b32Enc hash).length = 56 := by rw [b32Enc_length, hlen]; rfl
    have h3 : algOfName (bs "sha256") = some .sha256 := by decide
    simp [h1, h2, h3, Alg.size, b32EncodedLen]
  · have h1 : (bs "sha256" == bs "md5") = false := by decide
    have h2 : (b64Enc hash).length = 44 := by rw [b64Enc_length, hlen]; rfl
    have h3 : algOfName (bs "sha256") = some .sha256 := by decide
    simp [h1, h2, h3, Alg.size, b32EncodedLen, b64EncodedLen]
  -- sha512
  · have h1 : (bs "sha512" == bs "md5") = false := by decide
    have h2 : (hexEnc hash).length = 128 := by rw [hex_length, hlen]
    have h3 : algOfName (bs "sha512") = some .sha512 := by decide
    simp [h1, h2, h3, Alg.size]
  · have h1 : (bs "sha512" == bs "md5") = false := by decide
    have h2 : (b32Enc hash).length = 104 := by rw [b32Enc_length, hlen]; rfl
    have h3 : algOfName (bs "sha512") = some .sha512 := by decide
    simp [h1, h2, h3, Alg.size, b32EncodedLen]
  · have h1 : (bs "sha512" == bs "md5") = false := by decide
    have h2 : (b64Enc hash).length = 88 := by rw [b64Enc_length, hlen]; rfl
    have h3 : algOfName (bs "sha512") = some .sha512 := by decide
    simp [h1, h2, h3, Alg.size, b32EncodedLen, b64EncodedLen]

theorem alg_name_facts : ∀ a : Alg, COLON ∉ a.name ∧ normalizeAlg a.name = a.name ∧ a.name.isEmpty = false ∧
    algOfName a.name = some a := by
  intro a; cases a <;> decide

/-- **a written digest field is read back as itself**: `newDigest` applied to `name:encode(hash)` yields the same
    algorithm, name, encoding and (already normalised) value, for every default encoding of the reader -/
theorem C03_newDigest_format (alg : Alg) (e : Enc) (he : e ≠ .unknown) (hash : Bytes) (hlen : hash.length = alg.size) (dflt : Enc) :
    newDigest (alg.name ++ [COLON] ++ e.encode hash) dflt = some ⟨alg, alg.name, e.encode hash, e⟩ := by
  obtain ⟨hc, hn, hne, ha⟩ := alg_name_facts alg
  have hsplit : splitFirst COLON (alg.name ++ [COLON] ++ e.encode hash) = some (alg.name, e.encode hash) := by
    have : alg.name ++ [COLON] ++ e.encode hash = alg.name ++ COLON :: e.encode hash := by simp
    rw [this]; exact splitFirst_append COLON _ _ hc
  unfold newDigest
  simp only [hsplit, hn, C03_detect alg e he hash hlen dflt, hne, Bool.false_eq_true, ↓reduceIte, ha]
  cases e with
  | unknown => exact absurd rfl he
  | b16 => simp only [Enc.encode, hexEnc_normal]
  | b32 => simp only [Enc.encode, b32Enc_normal]
  | b64 => rfl

theorem algOfName_name (x : Bytes) (a : Alg) (h : algOfName x = some a) : x = a.name := by
  unfold algOfName at h
  split at h
  · rename_i h1; simp only [Option.some.injEq] at h; subst h; exact (by simpa using h1 : x = bs _)
  · split at h
    · rename_i h1; simp only [Option.some.injEq] at h; subst h; exact (by simpa using h1 : x = bs _)
    · split at h
      · rename_i h1; simp only [Option.some.injEq] at h; subst h; exact (by simpa using h1 : x = bs _)
      · split at h
        · rename_i h1; simp only [Option.some.injEq] at h; subst h; exact (by simpa using h1 : x = bs _)
        · cases h

theorem newDigest_core_name (algRaw hash : Bytes) (enc : Enc) (d : Digest)
    (h : (if (normalizeAlg algRaw).isEmpty then some (⟨.sha1, bs "sha1", hash, enc⟩ : Digest)
          else match algOfName (normalizeAlg algRaw) with
            | some a => some ⟨a, normalizeAlg algRaw, hash, enc⟩
            | none => none) = some d) : d.name = d.alg.name := by
  by_cases he : (normalizeAlg algRaw).isEmpty = true
  · simp only [he, ↓reduceIte, Option.some.injEq] at h; subst h; rfl
  · simp only [he, Bool.false_eq_true, ↓reduceIte] at h
    cases ha : algOfName (normalizeAlg algRaw) with
    | none => rw [ha] at h; cases h
    | some a =>
      rw [ha] at h
      simp only [Option.some.injEq] at h
      subst h
      exact algOfName_name _ _ ha

/-- whatever `newDigest` returns carries the canonical name of its algorithm -/
theorem newDigest_name (s : Bytes) (dflt : Enc) (d : Digest) (h : newDigest s dflt = some d) : d.name = d.alg.name := by
  unfold newDigest at h
  cases hs : splitFirst COLON s with
  | none => simp only [hs] at h; exact newDigest_core_name _ _ _ _ h
  | some p => obtain ⟨a, hh⟩ := p; simp only [hs] at h; exact newDigest_core_name _ _ _ _ h

section
variable (H : Alg → Bytes → Bytes)

/-- **completeness, end to end for one field**: the value `format` writes for a digest object obtained from `newDigest`
    is parsed by any reader into a digest that is non-empty and valid for the same data -/
theorem C03_format_reparse (d : Digest) (hname : d.name = d.alg.name) (he : d.enc ≠ .unknown) (data : Bytes)
    (hH : (H d.alg data).length = d.alg.size) (dflt : Enc) :
    ∃ d', newDigest (d.format H data) dflt = some d' ∧ d'.hash ≠ [] ∧ d'.valid H data = true := by
  refine ⟨⟨d.alg, d.alg.name, d.enc.encode (H d.alg data), d.enc⟩, ?_, ?_, ?_⟩
  · unfold Digest.format; rw [hname]; exact C03_newDigest_format d.alg d.enc he _ hH dflt
  · intro hnil
    have hl : (d.enc.encode (H d.alg data)).length = 0 := by simp only at hnil; rw [hnil]; rfl
    have hpos : 0 < d.alg.size := by cases d.alg <;> decide
    cases hd : d.enc with
    | unknown => exact he hd
    | b16 => rw [hd] at hl; simp only [Enc.encode, hex_length, hH] at hl; omega
    | b32 => rw [hd] at hl; simp only [Enc.encode, b32Enc_length, hH, b32EncodedLen] at hl; omega
    | b64 => rw [hd] at hl; simp only [Enc.encode, b64Enc_length, hH, b64EncodedLen] at hl; omega
  · exact C03_format_valid H d.alg d.alg.name d.enc data

end

/-- non-vacuity: a concrete SHA-1 value in base32, read back under a base16 default -/
example : newDigest (bs "sha1:" ++ b32Enc (List.replicate 20 7)) .b16 = some ⟨.sha1, bs "sha1", b32Enc (List.replicate 20 7), .b32⟩ := by decide

end Gowarc.Props.C03
