/-
  C01, composition — reading back what the marshaler writes.

  For every non-empty list of clean header fields `fs` (Props/C19pos.lean), every block `B` whose length is the declared
  Content-Length, every continuation `tail`, WARC version 1.0 or 1.1, every policy setting with the repair options off:
  if Unmarshal, applied to `marshal ver fs B ++ tail`, returns a record, that record has EXACTLY the header fields `fs`
  and EXACTLY the block bytes `B`, it is found at offset 0, and the stream is left at `tail`. Whether validation accepts
  the record (findings, errors) is the business of C17/C03; what this theorem excludes is any alteration of what was
  written. No bound on the number of fields or the size or content of the block (the block may contain record
  delimiters, gzip magic, a nested record).
-/
import Gowarc.Props.C19pos
import Gowarc.Props.C01
import Gowarc.Lemmas.KeepHdr
namespace Gowarc.Props.C01
open Gowarc Gowarc.Props.C19

section
variable (H : Alg → Bytes → Bytes)

/-- where Unmarshal leaves the stream: behind the record trailer -/
theorem unmarshalTail_rest (o : Opts) (Ω : Oracles) (vt : Bytes) (vi : Nat) (fs : Fields) (s' : Stream) (st st' : St)
    (r : Option Rec) (rest : Bytes) (hrep : RepairsOff o)
    (h : unmarshalTail H o Ω vt vi fs s' st = (.ok (r, rest), st')) :
    let len := contentLengthOf fs
    let after := if len < 0 then [] else s'.rest.drop len.toNat
    rest = (if after.take 4 == crlfcrlf then after.drop 4 else after.drop (trailerConsumed (after.take 4))) := by
  unfold unmarshalTail at h
  obtain ⟨_, s1, h1, h⟩ := bind_ok _ _ _ _ _ h
  simp only [M.setHdr_def, Prod.mk.injEq, Except.ok.injEq, true_and] at h1
  obtain ⟨rt, s2, h2, h⟩ := bind_ok _ _ _ _ _ h
  have k2 : s2.hdr = s1.hdr := by have := (validateHeader_keep o Ω vi).h s1; rw [h2] at this; exact this
  obtain ⟨hd, s3, h3, h⟩ := bind_ok _ _ _ _ _ h
  simp only [M.hdr_def, Prod.mk.injEq, Except.ok.injEq] at h3
  obtain ⟨b, s4, h4, h⟩ := bind_ok _ _ _ _ _ h
  obtain ⟨_, s5, h5, h⟩ := bind_ok _ _ _ _ _ h
  obtain ⟨_, s5b, h5b, h⟩ := bind_ok _ _ _ _ _ h
  obtain ⟨_, s6, h6, h⟩ := bind_ok _ _ _ _ _ h
  obtain ⟨hd2, s7, h7, h⟩ := bind_ok _ _ _ _ _ h
  simp only [M.pure_def, Prod.mk.injEq, Except.ok.injEq] at h
  have hfs : s1.hdr = fs := by rw [← h1]
  have hhd : hd = fs := by rw [← h3.1, k2, hfs]
  intro len after
  rw [← h.1.2, hhd]

/-- the version line and the header section are read back exactly: Unmarshal of a serialized record reduces to the
    validation of exactly the written fields, positioned exactly at the block -/
theorem unmarshal_serialized (o : Opts) (Ω : Oracles) (ver : String) (vid : Nat) (hver : (ver, vid) ∈ Gen.versions)
    (hfind : Gen.versions.find? (fun p => bs p.1 == bs ver) = some (ver, vid))
    (hnolf : LF ∉ bs ver) (htrim : trim isWs (bs ver ++ crlf) = bs ver)
    (fs : Fields) (hne : fs ≠ []) (hclean : ∀ nv ∈ fs, CleanField nv) (body : Bytes) (fault : Bool := false) :
    unmarshal H o Ω ⟨bs "WARC/" ++ bs ver ++ crlf ++ Fields.write fs ++ crlf ++ body, fault⟩ =
      (match unmarshalTail H o Ω (bs ver) vid fs ⟨body, fault⟩ ⟨[], []⟩ with
       | (.ok (r, rest), st) => ⟨r, 0, st.fnd, none, rest⟩
       | (.error t, st) => ⟨none, 0, st.fnd, some t, []⟩) := by
  have hstream : bs "WARC/" ++ bs ver ++ crlf ++ Fields.write fs ++ crlf ++ body = bs "WARC/" ++ (bs ver ++ crlf ++ (Fields.write fs ++ crlf ++ body)) := by
    simp [List.append_assoc]
  rw [hstream]
  generalize hX : Fields.write fs ++ crlf ++ body = X
  have hlen : 5 ≤ (bs "WARC/" ++ (bs ver ++ crlf ++ X)).length := by simp [bs]
  have hmagic : isMagic (bs "WARC/" ++ (bs ver ++ crlf ++ X)) = true := by simp [isMagic, bs, List.take]
  unfold unmarshal
  have hsk : skipJunk ((bs "WARC/" ++ (bs ver ++ crlf ++ X)).length + 1) (bs "WARC/" ++ (bs ver ++ crlf ++ X)) 0 = .inr (0, bs "WARC/" ++ (bs ver ++ crlf ++ X)) := by
    rw [skipJunk]
    have : ¬ (bs "WARC/" ++ (bs ver ++ crlf ++ X)).length < 5 := by omega
    rw [if_neg this, if_pos hmagic]
  simp only [hsk]
  have hgz : ((bs "WARC/" ++ (bs ver ++ crlf ++ X)).take 2 == [0x1f, 0x8b]) = false := by simp [bs, List.take]
  have hdrop : (bs "WARC/" ++ (bs ver ++ crlf ++ X)).drop 5 = bs ver ++ crlf ++ X := by simp [bs]
  simp only [Nat.lt_irrefl, decide_false, Bool.and_false, Bool.false_eq_true, ↓reduceIte, hgz, hdrop, bne_self_eq_false]
  unfold unmarshalAfterMagic
  have hrb : readBytesNL (bs ver ++ crlf ++ X) = (bs ver ++ crlf, X, true) := by
    have : bs ver ++ crlf ++ X = (bs ver ++ [CR]) ++ [LF] ++ X := by simp [crlf, CR, LF]
    rw [this, readBytesNL_line _ _ (by simp only [List.mem_append, List.mem_singleton, not_or]; exact ⟨hnolf, by decide⟩)]
    simp [crlf, CR, LF]
  simp only [hrb, Bool.not_true, Bool.false_eq_true, ↓reduceIte]
  -- the body of Unmarshal behind the version line
  have hbody : unmarshalBody H o Ω ⟨X, fault⟩ (bs ver ++ crlf) ⟨[], []⟩ = unmarshalTail H o Ω (bs ver) vid fs ⟨body, fault⟩ ⟨[], []⟩ := by
    unfold unmarshalBody
    have hcr : (decide ((bs ver ++ crlf).length < 2) || (bs ver ++ crlf).getD ((bs ver ++ crlf).length - 2) 0 != CR) = false := by
      have hl : (bs ver ++ crlf).length = (bs ver).length + 2 := by simp [crlf]
      have hget : (bs ver ++ crlf).getD ((bs ver ++ crlf).length - 2) 0 = CR := by
        rw [hl]; simp [crlf, CR, List.getD_eq_getElem?_getD, List.getElem?_append_right]
      rw [hget, hl]; simp
    simp only [hcr, condSite_false, M.bind_def, htrim]
    have hv : versionOf o (bs ver) ⟨[], []⟩ = (.ok (bs ver, vid), ⟨[], []⟩) := by
      unfold versionOf; rw [hfind]; rfl
    simp only [hv]
    rw [← hX, C19_clean_roundtrip o.syn fs hne hclean body fault]
    unfold unmarshalRest
    simp only [M.bind_def, M.addFindings_def, List.append_nil]
  rw [hbody]
  cases unmarshalTail H o Ω (bs ver) vid fs ⟨body, fault⟩ ⟨[], []⟩ with
  | mk res st => cases res with
    | ok v => rfl
    | error t => rfl

/-- **round trip, lossless part** -/
theorem C01_roundtrip (o : Opts) (Ω : Oracles) (hrep : RepairsOff o) (hwf : o.fixWarcFieldsBlockErrors = false)
    (ver : String) (vid : Nat) (hver : (ver, vid) ∈ Gen.versions)
    (hfind : Gen.versions.find? (fun p => bs p.1 == bs ver) = some (ver, vid))
    (hnolf : LF ∉ bs ver) (htrim : trim isWs (bs ver ++ crlf) = bs ver)
    (fs : Fields) (hne : fs ≠ []) (hclean : ∀ nv ∈ fs, CleanField nv)
    (B tail : Bytes) (hcl : contentLengthOf fs = (B.length : Int)) (r : Rec)
    (hrec : (unmarshal H o Ω ⟨bs "WARC/" ++ bs ver ++ crlf ++ Fields.write fs ++ crlf ++ (B ++ crlfcrlf ++ tail), false⟩).record = some r)
    (herr : (unmarshal H o Ω ⟨bs "WARC/" ++ bs ver ++ crlf ++ Fields.write fs ++ crlf ++ (B ++ crlfcrlf ++ tail), false⟩).err = none) :
    r.hdr = fs ∧ r.block.raw = B ∧ r.verTxt = bs ver ∧
    (unmarshal H o Ω ⟨bs "WARC/" ++ bs ver ++ crlf ++ Fields.write fs ++ crlf ++ (B ++ crlfcrlf ++ tail), false⟩).offset = 0 ∧
    (unmarshal H o Ω ⟨bs "WARC/" ++ bs ver ++ crlf ++ Fields.write fs ++ crlf ++ (B ++ crlfcrlf ++ tail), false⟩).rest = tail := by
  rw [unmarshal_serialized H o Ω ver vid hver hfind hnolf htrim fs hne hclean] at hrec herr ⊢
  cases ht : unmarshalTail H o Ω (bs ver) vid fs ⟨B ++ crlfcrlf ++ tail, false⟩ ⟨[], []⟩ with
  | mk res st =>
    cases res with
    | error t => rw [ht] at herr; cases herr
    | ok v =>
      obtain ⟨ro, rest⟩ := v
      rw [ht] at hrec
      simp only at hrec ⊢
      subst hrec
      obtain ⟨hh, hb⟩ := unmarshalTail_observes H o Ω (bs ver) vid fs ⟨B ++ crlfcrlf ++ tail, false⟩ ⟨[], []⟩ st r rest hrep hwf ht
      have hr := unmarshalTail_rest H o Ω (bs ver) vid fs ⟨B ++ crlfcrlf ++ tail, false⟩ ⟨[], []⟩ st (some r) rest hrep ht
      obtain ⟨f1, f2, f3⟩ := C01_framing B tail
      have hneg : ¬ (contentLengthOf fs < 0) := by rw [hcl]; omega
      refine ⟨hh, ?_, ?_, trivial, ?_⟩
      · rw [hb]; unfold declaredBlock; simp only [hneg, ↓reduceIte, hcl, Int.toNat_natCast]; exact f1
      · -- the version text of the record
        unfold unmarshalTail at ht
        obtain ⟨_, s1, _, h⟩ := bind_ok _ _ _ _ _ ht
        obtain ⟨_, s2, _, h⟩ := bind_ok _ _ _ _ _ h
        obtain ⟨_, s3, _, h⟩ := bind_ok _ _ _ _ _ h
        obtain ⟨_, s4, _, h⟩ := bind_ok _ _ _ _ _ h
        obtain ⟨_, s5, _, h⟩ := bind_ok _ _ _ _ _ h
        obtain ⟨_, s5b, _, h⟩ := bind_ok _ _ _ _ _ h
        obtain ⟨_, s6, _, h⟩ := bind_ok _ _ _ _ _ h
        obtain ⟨_, s7, _, h⟩ := bind_ok _ _ _ _ _ h
        simp only [M.pure_def, Prod.mk.injEq, Except.ok.injEq, Option.some.injEq] at h
        rw [← h.1.1]
      · have hneg' : ¬ ((B.length : Int) < 0) := by omega
        simp only [hcl, hneg', ↓reduceIte, Int.toNat_natCast] at hr
        rw [hr, f2]; simp only [beq_self_eq_true, ↓reduceIte]; exact f3

end

/-- the two versions the marshaler can write satisfy the side conditions -/
example : ∀ p ∈ [("1.0", 1), ("1.1", 2)], p ∈ Gen.versions ∧ Gen.versions.find? (fun q => bs q.1 == bs p.1) = some p ∧
    LF ∉ bs p.1 ∧ trim isWs (bs p.1 ++ crlf) = bs p.1 := by decide

end Gowarc.Props.C01
