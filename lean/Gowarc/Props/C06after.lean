/-
  C06, "returns nothing after them as a clean record" — for plain records.

  After the complete members of a cut file, reading goes on with the cut remainder alone (`C06_members_survive`). This file
  shows what that reading yields: at most one record (which then carries the trailer finding) followed by an error item, or
  an error item at once; in particular NO item of the result is a clean record (no error and no finding).
-/
import Gowarc.Props.C06header
import Gowarc.Props.C05progress
namespace Gowarc.Props.C06
open Gowarc Gowarc.Props.C19 Gowarc.Props.C01 Gowarc.Props.C05

section
variable (H : Alg → Bytes → Bytes)

/-- where Unmarshal leaves the stream behind a record (no hypothesis on the options) -/
theorem unmarshalTail_rest_eq (o : Opts) (Ω : Oracles) (vt : Bytes) (vi : Nat) (fs : Fields) (s' : Stream) (st st' : St)
    (r : Option Rec) (rest : Bytes) (h : unmarshalTail H o Ω vt vi fs s' st = (.ok (r, rest), st')) :
    rest = (if (if contentLengthOf fs < 0 then [] else s'.rest.drop (contentLengthOf fs).toNat).take 4 == crlfcrlf
            then (if contentLengthOf fs < 0 then [] else s'.rest.drop (contentLengthOf fs).toNat).drop 4
            else (if contentLengthOf fs < 0 then [] else s'.rest.drop (contentLengthOf fs).toNat).drop
              (trailerConsumed ((if contentLengthOf fs < 0 then [] else s'.rest.drop (contentLengthOf fs).toNat).take 4))) := by
  unfold unmarshalTail at h
  obtain ⟨_, s1, h1, h⟩ := bind_ok _ _ _ _ _ h
  simp only [M.setHdr_def, Prod.mk.injEq, Except.ok.injEq, true_and] at h1
  obtain ⟨rt, s2, h2, h⟩ := bind_ok _ _ _ _ _ h
  have k2 : s2.hdr = s1.hdr := by have := (validateHeader_keep o Ω vi).h s1; rw [h2] at this; exact this
  obtain ⟨hd, s3, h3, h⟩ := bind_ok _ _ _ _ _ h
  simp only [M.hdr_def, Prod.mk.injEq, Except.ok.injEq] at h3
  obtain ⟨b, s4, h4, h⟩ := bind_ok _ _ _ _ _ h
  obtain ⟨_, s5, h5, h⟩ := bind_ok _ _ _ _ _ h
  obtain ⟨_, s5b, h5b, h⟩ := bind_ok _ _ _ _ _ h
  obtain ⟨_, s6, h6, h⟩ := bind_ok _ _ _ _ _ h
  obtain ⟨hd2, s7, h7, h⟩ := bind_ok _ _ _ _ _ h
  simp only [M.pure_def, Prod.mk.injEq, Except.ok.injEq] at h
  have hfs : s1.hdr = fs := by rw [← h1]
  have hhd : hd = fs := by rw [← h3.1, k2, hfs]
  rw [← h.1.2, hhd]

/-- a record cut behind its header section: if Unmarshal returns a record at all, fewer than four bytes are left -/
theorem cut_behind_header_rest (o : Opts) (Ω : Oracles)
    (ver : String) (vid : Nat) (hver : (ver, vid) ∈ Gen.versions)
    (hfind : Gen.versions.find? (fun p => bs p.1 == bs ver) = some (ver, vid))
    (hnolf : LF ∉ bs ver) (htrim : trim isWs (bs ver ++ crlf) = bs ver)
    (fs : Fields) (hne : fs ≠ []) (hclean : ∀ nv ∈ fs, CleanField nv)
    (B : Bytes) (hcl : contentLengthOf fs = (B.length : Int)) (k : Nat) (hk : k < B.length + 4)
    (he : (unmarshal H o Ω ⟨bs "WARC/" ++ bs ver ++ crlf ++ Fields.write fs ++ crlf ++ (B ++ crlfcrlf).take k, false⟩).err = none) :
    (unmarshal H o Ω ⟨bs "WARC/" ++ bs ver ++ crlf ++ Fields.write fs ++ crlf ++ (B ++ crlfcrlf).take k, false⟩).rest.length < 4 := by
  rw [unmarshal_serialized H o Ω ver vid hver hfind hnolf htrim fs hne hclean] at he ⊢
  cases ht : unmarshalTail H o Ω (bs ver) vid fs ⟨(B ++ crlfcrlf).take k, false⟩ ⟨[], []⟩ with
  | mk res st =>
    rw [ht] at he
    cases res with
    | error t => simp at he
    | ok v =>
      obtain ⟨ro, rest⟩ := v
      simp only
      have hr := unmarshalTail_rest_eq H o Ω (bs ver) vid fs ⟨(B ++ crlfcrlf).take k, false⟩ ⟨[], []⟩ st ro rest ht
      have hneg : ¬ ((B.length : Int) < 0) := by omega
      simp only [hcl, hneg, ↓reduceIte, Int.toNat_natCast] at hr
      have hal : (((B ++ crlfcrlf).take k).drop B.length).length < 4 := by
        simp only [List.length_drop, List.length_take, List.length_append, crlfcrlf, List.length_cons, List.length_nil]
        omega
      generalize ((B ++ crlfcrlf).take k).drop B.length = after at hr hal
      rw [hr]
      split <;> simp only [List.length_drop] <;> omega

/-- a record cut inside its header section: if Unmarshal returns a record at all, nothing is left -/
theorem cut_in_header_rest (o : Opts) (Ω : Oracles) (ver : Bytes) (hnolf : LF ∉ ver)
    (fs : Fields) (hne : fs ≠ []) (hclean : ∀ nv ∈ fs, CleanField nv) (k : Nat) (hk : k < (headerText fs).length)
    (he : (unmarshal H o Ω ⟨bs "WARC/" ++ ver ++ crlf ++ (headerText fs).take k, false⟩).err = none) :
    (unmarshal H o Ω ⟨bs "WARC/" ++ ver ++ crlf ++ (headerText fs).take k, false⟩).rest.length < 4 := by
  rw [unmarshal_after_version H o Ω ver _ hnolf] at he ⊢
  have hpe : (parseFields o.syn ⟨(headerText fs).take k, false⟩).endsEmpty := by
    have hfuel := C05.C05_parse_total o.syn ⟨(headerText fs).take k, false⟩ (((headerText fs).take k).length + 2 + (fs.length + 1)) (by simp only; omega)
    rw [← hfuel]
    exact cut_header_endsEmpty o.syn fs [] _ k hne hclean (by omega) hk
  cases hb : unmarshalBody H o Ω ⟨(headerText fs).take k, false⟩ (ver ++ crlf) ⟨[], []⟩ with
  | mk res st =>
    rw [hb] at he
    cases res with
    | error t => simp at he
    | ok v =>
      obtain ⟨r, rest⟩ := v
      simp only
      unfold unmarshalBody at hb
      obtain ⟨_, t1, _, hb⟩ := bind_ok _ _ _ _ _ hb
      obtain ⟨vv, t2, _, hb⟩ := bind_ok _ _ _ _ _ hb
      unfold unmarshalRest at hb
      cases hp : parseFields o.syn ⟨(headerText fs).take k, false⟩ with
      | err t f =>
        rw [hp] at hb
        obtain ⟨_, t3, _, hb⟩ := bind_ok _ _ _ _ _ hb
        simp at hb
      | ok fs' f s' =>
        rw [hp] at hb hpe
        obtain ⟨_, t3, _, hb⟩ := bind_ok _ _ _ _ _ hb
        have hempty : s'.rest = [] := hpe
        have := unmarshalTail_rest_le H o Ω _ _ fs' s' t3 st r rest hb
        rw [hempty] at this
        simp only [List.length_nil] at this
        omega

/-- what reading a stream yields when its first Unmarshal is an error, or a record with a finding that leaves fewer than
    five bytes: no item is a clean record -/
theorem readLoop_no_clean (o : Opts) (Ω : Oracles) (fuel base : Nat) (p : Bytes)
    (hvis : (unmarshal H o Ω ⟨p, false⟩).err ≠ none ∨ Tag.specTrailer ∈ (unmarshal H o Ω ⟨p, false⟩).fnd)
    (hrest : (unmarshal H o Ω ⟨p, false⟩).err = none → (unmarshal H o Ω ⟨p, false⟩).rest.length < 5) :
    ∀ it ∈ readLoop H o Ω fuel base ⟨p, false⟩, it.err ≠ none ∨ it.fnd ≠ [] := by
  cases fuel with
  | zero => intro it hit; simp [readLoop] at hit
  | succ n =>
    intro it hit
    rw [readLoop] at hit
    cases he : (unmarshal H o Ω ⟨p, false⟩).err with
    | some e =>
      rw [he] at hit
      simp only [List.mem_singleton] at hit
      subst hit
      left; simp
    | none =>
      rw [he] at hit
      simp only [List.mem_cons] at hit
      rcases hit with rfl | hit
      · right
        rcases hvis with h | h
        · exact absurd he h
        · simp only; intro hnil; rw [hnil] at h; cases h
      · -- what follows is shorter than five bytes: the next call is an error and ends the loop
        have hshort := hrest he
        cases n with
        | zero => simp [readLoop] at hit
        | succ m =>
          rw [readLoop] at hit
          have herr := unmarshal_short H o Ω (unmarshal H o Ω ⟨p, false⟩).rest hshort
          cases he2 : (unmarshal H o Ω ⟨(unmarshal H o Ω ⟨p, false⟩).rest, false⟩).err with
          | none => exact absurd he2 herr
          | some e2 =>
            rw [he2] at hit
            simp only [List.mem_singleton] at hit
            subst hit
            left; simp

/-- **nothing after the complete records is a clean record** (plain records): reading any strict non-empty prefix of a
    serialized record with clean fields and truthful Content-Length yields no clean record at all -/
theorem C06_nothing_clean_after (o : Opts) (Ω : Oracles) (hspec : o.spec ≠ .ignore)
    (ver : String) (vid : Nat) (hver : (ver, vid) ∈ Gen.versions)
    (hfind : Gen.versions.find? (fun p => bs p.1 == bs ver) = some (ver, vid))
    (hnolf : LF ∉ bs ver) (htrim : trim isWs (bs ver ++ crlf) = bs ver)
    (fs : Fields) (hne : fs ≠ []) (hclean : ∀ nv ∈ fs, CleanField nv)
    (B : Bytes) (hcl : contentLengthOf fs = (B.length : Int)) (k fuel base : Nat)
    (hk : k < (bs "WARC/" ++ (bs ver ++ crlf) ++ headerText fs ++ (B ++ crlfcrlf)).length) :
    ∀ it ∈ readLoop H o Ω fuel base ⟨(bs "WARC/" ++ (bs ver ++ crlf) ++ headerText fs ++ (B ++ crlfcrlf)).take k, false⟩,
      it.err ≠ none ∨ it.fnd ≠ [] := by
  apply readLoop_no_clean H o Ω fuel base _ (C06_visible_plain H o Ω hspec ver vid hver hfind hnolf htrim fs hne hclean B hcl k hk)
  intro he
  -- only the two cases in which a record can be returned at all leave something to measure
  have h5 : (bs "WARC/").length = 5 := by simp [bs]
  have hk' := hk
  simp only [List.length_append, h5] at hk'
  by_cases c1 : k < 5
  · exact absurd he (unmarshal_short H o Ω _ (by simp only [List.length_take, List.length_append, h5]; omega))
  · by_cases c2 : k < 5 + (bs ver ++ crlf).length
    · exfalso
      have hp : (bs "WARC/" ++ (bs ver ++ crlf) ++ headerText fs ++ (B ++ crlfcrlf)).take k = bs "WARC/" ++ (bs ver ++ crlf).take (k - 5) := by
        rw [List.append_assoc, List.append_assoc, List.take_append, List.take_of_length_le (by rw [h5]; omega), h5,
          List.take_append_of_le_length (by omega)]
      rw [hp] at he
      refine unmarshal_cut_version H o Ω _ ?_ he
      intro hm
      have hvl : (bs ver ++ crlf).length = (bs ver).length + 2 := by simp [crlf]
      have hsub : (bs ver ++ crlf).take (k - 5) = (bs ver ++ [CR]).take (k - 5) := by
        have : bs ver ++ crlf = (bs ver ++ [CR]) ++ [LF] := by simp [crlf, CR, LF]
        rw [this, List.take_append_of_le_length (by simp only [List.length_append, List.length_singleton]; omega)]
      rw [hsub] at hm
      have := List.mem_of_mem_take hm
      simp only [List.mem_append, List.mem_singleton] at this
      rcases this with h1 | h1
      · exact hnolf h1
      · exact absurd h1 (by decide)
    · by_cases c3 : k < 5 + (bs ver ++ crlf).length + (headerText fs).length
      · have hp : (bs "WARC/" ++ (bs ver ++ crlf) ++ headerText fs ++ (B ++ crlfcrlf)).take k =
            bs "WARC/" ++ bs ver ++ crlf ++ (headerText fs).take (k - (5 + (bs ver ++ crlf).length)) := by
          have hpre : (bs "WARC/" ++ (bs ver ++ crlf)).length = 5 + (bs ver ++ crlf).length := by simp only [List.length_append, h5]
          rw [List.append_assoc (bs "WARC/" ++ (bs ver ++ crlf)), List.take_append, List.take_of_length_le (by rw [hpre]; omega), hpre,
            List.take_append_of_le_length (by omega)]
          simp [List.append_assoc]
        rw [hp] at he ⊢
        have := cut_in_header_rest H o Ω (bs ver) hnolf fs hne hclean _ (by omega) he
        omega
      · have hp : (bs "WARC/" ++ (bs ver ++ crlf) ++ headerText fs ++ (B ++ crlfcrlf)).take k =
            bs "WARC/" ++ bs ver ++ crlf ++ Fields.write fs ++ crlf ++ (B ++ crlfcrlf).take (k - (5 + (bs ver ++ crlf).length + (headerText fs).length)) := by
          have hpre : (bs "WARC/" ++ (bs ver ++ crlf) ++ headerText fs).length = 5 + (bs ver ++ crlf).length + (headerText fs).length := by
            simp only [List.length_append, h5]
          rw [List.take_append, List.take_of_length_le (by rw [hpre]; omega), hpre]
          simp [headerText, List.append_assoc]
        rw [hp] at he ⊢
        have := cut_behind_header_rest H o Ω ver vid hver hfind hnolf htrim fs hne hclean B hcl _
          (by simp only [List.length_append, crlfcrlf, List.length_cons, List.length_nil] at hk' ⊢; omega) he
        omega

end
end Gowarc.Props.C06
