/-
  The regenerated tie for C09 / C10: the synchronisation skeleton extracted from /repo/warcfile.go on this run
  (Gen/SyncSkeleton.lean, written by /verif/go/extract) is the one the protocol model was built from.
-/
import Gowarc.Gen.SyncSkeleton
import Gowarc.Model.ProtoSkeleton
namespace Gowarc.Props.C10
theorem C10_skeleton : Gowarc.Gen.syncSkeleton = Gowarc.Proto.expectedSkeleton := by decide
end Gowarc.Props.C10
namespace Gowarc.Props.C09
theorem C09_skeleton : Gowarc.Gen.syncSkeleton = Gowarc.Proto.expectedSkeleton := Gowarc.Props.C10.C10_skeleton
end Gowarc.Props.C09
