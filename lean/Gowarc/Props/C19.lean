/-
  C19 — Header text is a fixpoint after one parse (no field smuggling).

  Model: `Gowarc.parseFields` (Model/HeaderParser.lean, transcription of warcfieldsparser.go incl. the RFC 2047 decoder
  of Go's mime package in Model/Mime.lean) and `Fields.write`. Tie: correspondence kinds `hdrparse`, `dechdr`, `apiparse`.

  The full statement is FALSE of the code (and of the model): the parser decodes encoded-words in the whole line before
  splitting it, and trims edge white space of values. Both are listed findings (known_findings.json C19-F15, C19-F17);
  the witnesses below are proved about the model by evaluation and are replayed against the implementation on every run.
-/
import Gowarc.Model.HeaderParser
namespace Gowarc.Props.C19
open Gowarc

/-- a line without `=?` is returned unchanged by the RFC 2047 decoder: decoding can only affect lines containing `=?` -/
theorem decode_id (l : Bytes) (h : find2 61 63 l = none) : decodeHeader l = some l := by
  unfold decodeHeader; rw [h]

/-- serialising never produces `=?` out of nothing: if no pair contains it and the separator cannot complete one,
    a written field line is decoded to itself -/
theorem C19_line_stable (n v : Bytes) (h : find2 61 63 (n ++ [COLON, SP] ++ v) = none) :
    decodeHeader (n ++ [COLON, SP] ++ v) = some (n ++ [COLON, SP] ++ v) := decode_id _ h

def smuggle : Bytes := bs "X: =?utf-8?q?a=0D=0AWARC-Evil:_x?=\r\n\r\n"

/-- **full statement false (F15)**: a header section accepted under the strict syntax policy whose single parsed value
    contains CR LF; written out and parsed again it yields two fields. -/
theorem C19_fixpoint_false :
    ∃ fs, parseFields .fail ⟨smuggle, false⟩ = .ok fs [] ⟨[], false⟩ ∧ fs.length = 1 ∧
      ∃ fs', parseFields .fail ⟨fs.write, false⟩ = .ok fs' [] ⟨[], false⟩ ∧ fs'.length = 2 := by
  refine ⟨[(bs "X", bs "a\r\nWARC-Evil: x")], by decide, rfl, [(bs "X", bs "a"), (bs "Warc-Evil", bs "x")], by decide, rfl⟩

/-- **full statement false (F17)**: a CR/LF-free value with edge white space does not survive serialize-then-parse -/
theorem C19_api_false :
    parseFields .fail ⟨Fields.write (Fields.add [] (bs "X-Foo") (bs " v ")), false⟩ = .ok [(bs "X-Foo", bs "v")] [] ⟨[], false⟩ := by
  decide

/-- non-trivial positive instance: three fields, one with an empty value, one with colons inside, parse back unchanged
    under every syntax policy, with rest of stream preserved -/
example : ∀ π ∈ [Pol.ignore, Pol.warn, Pol.fail],
    parseFields π ⟨Fields.write [(bs "WARC-Type", bs "response"), (bs "X-Empty", []), (bs "X-Foo", bs "a: b:c")] ++ crlf ++ bs "rest", false⟩
      = .ok [(bs "WARC-Type", bs "response"), (bs "X-Empty", []), (bs "X-Foo", bs "a: b:c")] [] ⟨bs "rest", false⟩ := by
  decide

end Gowarc.Props.C19
