/-
  C07 — Validation observes, it does not destroy what was archived.

  Model: `validateHeader`, `unmarshalTail` (Model/Record.lean). Tie: kind `xpol` (every input parsed under all 81 policy
  combinations with the repair options off, headers and drained block compared across policies), kind `valhdr`
  (header before/after validation), kind `unmarshal` (block read from the returned record).
-/
import Gowarc.Lemmas.KeepHdr
namespace Gowarc.Props.C07
open Gowarc

/-- **header validation never alters a field**, under any policy: the value of a field that fails its check stays what
    was archived -/
theorem C07_validate_keeps_header (o : Opts) (Ω : Oracles) (v : Nat) (st : St) :
    (validateHeader o Ω v st).2.hdr = st.hdr := (validateHeader_keep o Ω v).h st

section
variable (H : Alg → Bytes → Bytes)

/-- **repairs off ⇒ what the caller gets is what was archived, under every policy**: the returned record carries exactly
    the parsed header fields and exactly the block framed by Content-Length — complete, not empty, not shortened -/
theorem C07_observe (o : Opts) (Ω : Oracles) (vt : Bytes) (vi : Nat) (fs : Fields) (s' : Stream) (st st' : St)
    (r : Rec) (rest : Bytes) (hrep : RepairsOff o) (hwf : o.fixWarcFieldsBlockErrors = false)
    (h : unmarshalTail H o Ω vt vi fs s' st = (.ok (some r, rest), st')) :
    r.hdr = fs ∧ r.block.raw = declaredBlock fs s' :=
  unmarshalTail_observes H o Ω vt vi fs s' st st' r rest hrep hwf h

/-- hence two policy settings that both return a record for the same parsed header return the same header and block -/
theorem C07_policy_independent (o₁ o₂ : Opts) (Ω : Oracles) (vt : Bytes) (vi : Nat) (fs : Fields) (s' : Stream)
    (st₁ st₁' st₂ st₂' : St) (r₁ r₂ : Rec) (rest₁ rest₂ : Bytes)
    (h₁r : RepairsOff o₁) (h₂r : RepairsOff o₂) (h₁w : o₁.fixWarcFieldsBlockErrors = false) (h₂w : o₂.fixWarcFieldsBlockErrors = false)
    (h₁ : unmarshalTail H o₁ Ω vt vi fs s' st₁ = (.ok (some r₁, rest₁), st₁'))
    (h₂ : unmarshalTail H o₂ Ω vt vi fs s' st₂ = (.ok (some r₂, rest₂), st₂')) :
    r₁.hdr = r₂.hdr ∧ r₁.block.raw = r₂.block.raw := by
  have a := C07_observe H o₁ Ω vt vi fs s' st₁ st₁' r₁ rest₁ h₁r h₁w h₁
  have b := C07_observe H o₂ Ω vt vi fs s' st₂ st₂' r₂ rest₂ h₂r h₂w h₂
  exact ⟨a.1.trans b.1.symm, a.2.trans b.2.symm⟩

end

/-- the block a successful block parse returns holds exactly the content bytes it was given (no syntax repair): for HTTP
    blocks protocol header ++ payload = content -/
theorem C07_block_complete (o : Opts) (Ω : Oracles) (rt : Nat) (c : Bytes) (fault : Bool) (s s' : St) (b : Block)
    (hfix : o.fixSyntaxErrors = false) (hwf : o.fixWarcFieldsBlockErrors = false)
    (h : parseBlock o Ω rt c fault s = (.ok b, s')) : b.raw = c := parseBlock_raw o Ω rt c fault s s' b hfix hwf h

/- Not proved here: that the header parser returns the same fields under every syntax policy whenever it returns fields
   at all (it does on all generated inputs: kind `xpol`). C07_observe is relative to the parsed fields. With repair options
   on, which fields may differ is characterised in Props/C03 (checkDigest_sound_warn, lengthBad_iff) and C02. -/

end Gowarc.Props.C07
