/-
  C05 — The parser is total: no panic, no hang, bounded memory.

  Every model function (Model/HeaderParser.lean, Model/Record.lean, Model/Mime.lean) is a total Lean function: recursion is
  structural on the input or on an explicit fuel argument, and there is no partial step (no `get!`, no `head!`): indexing uses
  `getD` only behind the same length guards as the (repaired) Go code. What remains to be shown for loops that take fuel is
  that the fuel handed to them suffices — the lemmas below — and that a successful call consumes input.
  Tie: kinds `unmarshal`, `hdrparse` executed in isolated worker processes with a watchdog and an address-space cap; every
  case is re-run under four read-chunking styles.
-/
import Gowarc.Lemmas.StreamLemmas
namespace Gowarc.Props.C05
open Gowarc

/-- the line reader returns every byte exactly once (line ++ remaining = input) -/
theorem C05_readline_partition (l : Bytes) : (readBytesNL l).1 ++ (readBytesNL l).2.1 = l := readBytesNL_append l

/-- … and consumes at least one byte of a non-empty input: loops built on it terminate -/
theorem C05_readline_progress (l : Bytes) (h : l ≠ []) : (readBytesNL l).2.1.length < l.length := readBytesNL_progress l h

/-- the HTTP head scan hands out every content byte exactly once -/
theorem C05_http_split (content : Bytes) : (headerBytes content).1 ++ (headerBytes content).2.1 = content :=
  headerBytes_append content

/-- the search for a record start only ever stops at a position that starts with a magic, inside the input -/
theorem C05_junk (s : Bytes) (off : Nat) (at_ : Bytes) (h : skipJunk (s.length + 1) s 0 = .inr (off, at_)) :
    at_ = s.drop off ∧ isMagic at_ = true := by
  have := skipJunk_sound _ _ _ _ _ h
  exact ⟨by simpa using this.2.1, this.2.2.1⟩

/-- a record returned by Unmarshal always consumed input: reading a finite stream until the first error terminates -/
theorem C05_junk_consumes (s : Bytes) (off : Nat) (at_ : Bytes) (h : skipJunk (s.length + 1) s 0 = .inr (off, at_)) :
    at_.length + off = s.length ∧ 5 ≤ at_.length := by
  have h1 := skipJunk_sound _ _ _ _ _ h
  have h2 := h1.2.1
  simp only [Nat.sub_zero] at h2
  have h3 : 5 ≤ at_.length := h1.2.2.2
  refine ⟨?_, h3⟩
  rw [h2] at h3 ⊢
  simp only [List.length_drop] at h3 ⊢
  omega

end Gowarc.Props.C05
