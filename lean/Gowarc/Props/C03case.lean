/-
  C03, "… in base16/base32/base64 and in either letter case": a declared digest value written in the other letter case
  (upper-case base16, lower-case base32), and an algorithm name in upper case or with the hyphen (SHA-1, sha-256, …),
  is read by `newDigest` as the SAME digest object as the canonical spelling — so it validates exactly when the canonical
  spelling does. Base64 is case-sensitive by nature and has only its canonical spelling.
-/
import Gowarc.Props.C03detect
namespace Gowarc.Props.C03
open Gowarc Gowarc.Props.C19

/-- the spellings of an algorithm name digest.go accepts -/
def spellings : Alg → List Bytes
  | .md5 => [bs "md5", bs "MD5", bs "Md5"]
  | .sha1 => [bs "sha1", bs "SHA1", bs "sha-1", bs "SHA-1", bs "Sha-1"]
  | .sha256 => [bs "sha256", bs "SHA256", bs "sha-256", bs "SHA-256"]
  | .sha512 => [bs "sha512", bs "SHA512", bs "sha-512", bs "SHA-512"]

theorem spelling_facts : ∀ a : Alg, ∀ s ∈ spellings a, COLON ∉ s ∧ normalizeAlg s = a.name := by
  intro a; cases a <;> decide

theorem hexChar_up_low : ∀ n : UInt8, n < 16 → toLowerB (toUpperB (hexChar n)) = hexChar n := by decide
theorem hexChar_up_lt128 : ∀ n : UInt8, n < 16 → toUpperB (hexChar n) < 128 := by decide
theorem b32Char_low_up : ∀ n : UInt8, n < 32 → toUpperB (toLowerB (b32Char n)) = b32Char n := by decide
theorem b32Char_low_lt128 : ∀ n : UInt8, n < 32 → toLowerB (b32Char n) < 128 := by decide

theorem map_map_id {f g : UInt8 → UInt8} (l : Bytes) (h : ∀ x ∈ l, f (g x) = x) : (l.map g).map f = l := by
  induction l with
  | nil => rfl
  | cons a r ih => simp [h a (by simp), ih (fun x hx => h x (by simp [hx]))]

/-- upper-case base16 is normalised back to what `format` writes -/
theorem hex_upper_normal (h : Bytes) :
    utf8Repair (upperAscii (hexEnc h)).length (lowerAscii (upperAscii (hexEnc h))) = hexEnc h := by
  have hl : lowerAscii (upperAscii (hexEnc h)) = hexEnc h :=
    map_map_id _ (hexEnc_all (fun x => toLowerB (toUpperB x) = x) hexChar_up_low h)
  rw [hl]
  exact utf8Repair_ascii _ (hexEnc_all (fun x => x < 128) hexChar_lt128 h) _

/-- lower-case base32 is normalised back to what `format` writes -/
theorem b32_lower_normal (h : Bytes) :
    utf8Repair (lowerAscii (b32Enc h)).length (upperAscii (lowerAscii (b32Enc h))) = b32Enc h := by
  have hl : upperAscii (lowerAscii (b32Enc h)) = b32Enc h :=
    map_map_id _ (b32Enc_all (fun x => toUpperB (toLowerB x) = x) b32Char_low_up (by decide) h)
  rw [hl]
  exact utf8Repair_ascii _ (b32Enc_all (fun x => x < 128) b32Char_lt128 (by decide) h) _

/-- detectEncoding looks at the length of the value and at whether its last character is the padding character -/
theorem detectEncoding_congr (a d1 d2 : Bytes) (dflt : Enc) (hl : d1.length = d2.length)
    (hp : (d1.getLast? == some 61) = (d2.getLast? == some 61)) : detectEncoding a d1 dflt = detectEncoding a d2 dflt := by
  unfold detectEncoding
  simp only [hl, hp]

theorem beq_false_of_ne {α} [BEq α] [LawfulBEq α] {a b : α} (h : a ≠ b) : (a == b) = false := by
  cases hq : (a == b) with
  | false => rfl
  | true => exact absurd (by simpa using hq) h

/-- the other letter case of a value has the same length and the same last-character class -/
theorem recase_detect (alg : Alg) (hash : Bytes) (hlen : hash.length = alg.size) (dflt : Enc) :
    detectEncoding alg.name (upperAscii (hexEnc hash)) dflt = .b16 ∧
    detectEncoding alg.name (lowerAscii (b32Enc hash)) dflt = .b32 := by
  have h16 := C03_detect alg .b16 (by decide) hash hlen dflt
  have h32 := C03_detect alg .b32 (by decide) hash hlen dflt
  simp only [Enc.encode] at h16 h32
  constructor
  · rw [detectEncoding_congr alg.name (upperAscii (hexEnc hash)) (hexEnc hash) dflt (by simp [upperAscii]) ?_]
    · exact h16
    · have h1 : (upperAscii (hexEnc hash)).getLast? ≠ some 61 := by
        intro hh
        have hm : (61 : UInt8) ∈ upperAscii (hexEnc hash) := List.mem_of_getLast? hh
        unfold upperAscii at hm
        rw [List.mem_map] at hm
        obtain ⟨c, hc, hcu⟩ := hm
        have : ∀ n : UInt8, n < 16 → toUpperB (hexChar n) ≠ 61 := by decide
        exact hexEnc_all (fun x => toUpperB x ≠ 61) this hash c hc hcu
      rw [beq_false_of_ne h1, beq_false_of_ne (hexEnc_last_ne_pad hash)]
  · rw [detectEncoding_congr alg.name (lowerAscii (b32Enc hash)) (b32Enc hash) dflt (by simp [lowerAscii]) ?_]
    · exact h32
    · -- lower-casing leaves the padding character alone and never produces one
      unfold lowerAscii
      rw [List.getLast?_map]
      cases hq : (b32Enc hash).getLast? with
      | none => rfl
      | some c =>
        simp only [Option.map_some]
        have : ∀ x : UInt8, (toLowerB x == 61) = (x == 61) := by decide
        have := this c
        simpa using this

/-- **either letter case, any accepted spelling of the algorithm**: the value is read as the canonical digest object -/
theorem C03_case_insensitive (alg : Alg) (sp : Bytes) (hsp : sp ∈ spellings alg) (hash : Bytes) (hlen : hash.length = alg.size) (dflt : Enc) :
    newDigest (sp ++ [COLON] ++ upperAscii (hexEnc hash)) dflt = some ⟨alg, alg.name, hexEnc hash, .b16⟩ ∧
    newDigest (sp ++ [COLON] ++ hexEnc hash) dflt = some ⟨alg, alg.name, hexEnc hash, .b16⟩ ∧
    newDigest (sp ++ [COLON] ++ lowerAscii (b32Enc hash)) dflt = some ⟨alg, alg.name, b32Enc hash, .b32⟩ ∧
    newDigest (sp ++ [COLON] ++ b32Enc hash) dflt = some ⟨alg, alg.name, b32Enc hash, .b32⟩ ∧
    newDigest (sp ++ [COLON] ++ b64Enc hash) dflt = some ⟨alg, alg.name, b64Enc hash, .b64⟩ := by
  obtain ⟨hc, hn⟩ := spelling_facts alg sp hsp
  obtain ⟨_, _, hne, ha⟩ := alg_name_facts alg
  obtain ⟨hd16, hd32⟩ := recase_detect alg hash hlen dflt
  have hsplit : ∀ v : Bytes, splitFirst COLON (sp ++ [COLON] ++ v) = some (sp, v) := by
    intro v
    have : sp ++ [COLON] ++ v = sp ++ COLON :: v := by simp
    rw [this]; exact splitFirst_append COLON _ _ hc
  have c16 := C03_detect alg .b16 (by decide) hash hlen dflt
  have c32 := C03_detect alg .b32 (by decide) hash hlen dflt
  have c64 := C03_detect alg .b64 (by decide) hash hlen dflt
  simp only [Enc.encode] at c16 c32 c64
  refine ⟨?_, ?_, ?_, ?_, ?_⟩
  · unfold newDigest
    simp only [hsplit, hn, hd16, hne, Bool.false_eq_true, ↓reduceIte, ha, hex_upper_normal]
  · unfold newDigest
    simp only [hsplit, hn, c16, hne, Bool.false_eq_true, ↓reduceIte, ha, hexEnc_normal]
  · unfold newDigest
    simp only [hsplit, hn, hd32, hne, Bool.false_eq_true, ↓reduceIte, ha, b32_lower_normal]
  · unfold newDigest
    simp only [hsplit, hn, c32, hne, Bool.false_eq_true, ↓reduceIte, ha, b32Enc_normal]
  · unfold newDigest
    simp only [hsplit, hn, c64, hne, Bool.false_eq_true, ↓reduceIte, ha]

/-- non-vacuity -/
example : newDigest (bs "SHA-1:" ++ upperAscii (hexEnc (List.replicate 20 0xab))) .b32 = some ⟨.sha1, bs "sha1", hexEnc (List.replicate 20 0xab), .b16⟩ := by decide

end Gowarc.Props.C03
