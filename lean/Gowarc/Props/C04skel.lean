/-
  The tie of the sequential writer model to the source text of warcfile.go, regenerated on every run:
  the file-effect skeleton extracted from /repo equals the one the model `SW` was written from.
-/
import Gowarc.Gen.WriterSkeleton
import Gowarc.Model.WriterSkeleton
namespace Gowarc.Props.C04
theorem C04_writer_skeleton : Gowarc.Gen.writerSkeleton = Gowarc.SW.expectedWriterSkeleton := by decide
end Gowarc.Props.C04
namespace Gowarc.Props.C13
theorem C13_writer_skeleton : Gowarc.Gen.writerSkeleton = Gowarc.SW.expectedWriterSkeleton := Gowarc.Props.C04.C04_writer_skeleton
end Gowarc.Props.C13
namespace Gowarc.Props.C12
theorem C12_writer_skeleton : Gowarc.Gen.writerSkeleton = Gowarc.SW.expectedWriterSkeleton := Gowarc.Props.C04.C04_writer_skeleton
end Gowarc.Props.C12
