/-
  C10 — Write, Rotate and Close always return (no deadlock, no lost wake-up).
  (C09's protocol-level clauses — exactly once, nil means nothing written — are in Props/C09.lean over the same model.)
-/
import Gowarc.Model.Proto
namespace Gowarc.Props.C10
open Gowarc.Proto

def dHolds (s : St) (c : Nat) : Prop := s.disp = .d1 c ∨ s.disp = .dx c
def wHolds (s : St) (i c : Nat) : Prop := s.workers i = .k1 c ∨ s.workers i = .k2 c

structure Inv (n k : Nat) (s : St) : Prop where
  closed_iff : s.closed = true ↔ (s.disp = .dend ∨ ∃ j, s.disp = .dx j)
  jobs_iff : s.jobsClosed = true ↔ s.disp = .dend
  ended : ∀ i, i < k → (s.workers i = .k3 ∨ s.workers i = .kend) → s.jobsClosed = true
  dheld : ∀ c, dHolds s c → c < n ∧ (s.callers c).pc = .w2
  wheld : ∀ i c, i < k → wHolds s i c → c < n ∧ (s.callers c).pc = .w2
  held : ∀ c, c < n → (s.callers c).pc = .w2 → dHolds s c ∨ ∃ i, i < k ∧ wHolds s i c
  uniq_dw : ∀ i c, i < k → dHolds s c → ¬ wHolds s i c
  uniq_ww : ∀ i i' c, i < k → i' < k → wHolds s i c → wHolds s i' c → i = i'
  c2closed : ∀ c, c < n → (s.callers c).pc = .c2 → s.closed = true
  shapeW : ∀ c, c < n → ((s.callers c).pc = .w1 ∨ (s.callers c).pc = .w2) → ∃ r, (s.callers c).rest = .write :: r
  shapeC : ∀ c, c < n → (s.callers c).pc = .c2 → ∃ r, (s.callers c).rest = .close :: r

theorem inv_init (n k : Nat) (progs : Nat → List COp) : Inv n k (init progs) := by
  constructor <;> simp [init, dHolds, wHolds]

theorem step_inv (n k : Nat) (s s' : St) (h : Inv n k s) (hs : Step n k s s') : Inv n k s' := by
  obtain ⟨h1, h2, h3, h4, h5, h6, h7, h8, h9, h10, h11⟩ := h
  cases hs <;> constructor <;> simp only [dHolds, wHolds, upd] at * <;> grind

theorem reach_inv (n k : Nat) (progs : Nat → List COp) (s : St) (h : Reach n k progs s) : Inv n k s := by
  induction h with
  | init => exact inv_init n k progs
  | step s s' _ hs ih => exact step_inv n k s s' ih hs

/-- **no state is stuck while a call is outstanding**: from every reachable state in which some caller has not finished
    its program, some goroutine can take a step — for any number of callers and workers (at least one) and any programs -/
theorem C10_no_stuck (n k : Nat) (hk : 0 < k) (progs : Nat → List COp) (s : St) (hr : Reach n k progs s)
    (c : Nat) (hc : c < n) (hnf : ¬ finished s c) : ∃ s', Step n k s s' := by
  have hi := reach_inv n k progs s hr
  -- progress by a worker that holds a job or is ending
  have workerProgress : ∀ i, i < k → s.workers i ≠ .k0 → s.workers i ≠ .kend → ∃ s', Step n k s s' := by
    intro i hi' h0 he
    cases hw : s.workers i with
    | k0 => exact absurd hw h0
    | kend => exact absurd hw he
    | k1 j => exact ⟨_, Step.kWork s i j hi' hw⟩
    | k3 => exact ⟨_, Step.kClose s i hi' hw⟩
    | k2 j =>
      obtain ⟨hj, hpc⟩ := hi.wheld i j hi' (Or.inr hw)
      obtain ⟨r, hr'⟩ := hi.shapeW j hj (Or.inr hpc)
      have : s.callers j = ⟨.w2, .write :: r⟩ := by
        cases hcj : s.callers j with
        | mk pc rest => simp [hcj] at hpc hr'; simp [hpc, hr']
      exact ⟨_, Step.kReply s i j r hi' hj hw this⟩
  -- the dispatcher holds a job: a free worker takes it, or a busy worker makes progress
  have dispProgress : ∀ j, dHolds s j → ∃ s', Step n k s s' := by
    intro j hd
    by_cases hfree : ∃ i, i < k ∧ s.workers i = .k0
    · obtain ⟨i, hi', hw⟩ := hfree
      rcases hd with hd | hd
      · exact ⟨_, Step.dForward s i j hi' hd hw⟩
      · exact ⟨_, Step.dLast s i j hi' hd hw⟩
    · have h0 : s.workers 0 ≠ .k0 := fun e => hfree ⟨0, hk, e⟩
      by_cases he : s.workers 0 = .kend
      · -- a worker has ended only after jobs was closed, i.e. the dispatcher is done: it holds nothing
        have hj := hi.ended 0 hk (Or.inr he)
        have := hi.jobs_iff.1 hj
        rcases hd with hd | hd <;> rw [this] at hd <;> cases hd
      · exact workerProgress 0 hk h0 he
  cases hcc : s.callers c with
  | mk pc rest =>
    cases pc with
    | start =>
      cases rest with
      | nil => exact absurd hcc hnf
      | cons op r =>
        cases op with
        | write =>
          by_cases hcl : s.closed = true
          · exact ⟨_, Step.wStartClosed s c r hc hcc hcl⟩
          · exact ⟨_, Step.wStart s c r hc hcc (by simpa using hcl)⟩
        | rotate => exact ⟨_, Step.rotate s c r hc hcc⟩
        | close =>
          by_cases hcl : s.closed = true
          · exact ⟨_, Step.cStartClosed s c r hc hcc hcl⟩
          · cases hd : s.disp with
            | d0 => exact ⟨_, Step.cSignal0 s c r hc hcc hd⟩
            | d1 j => exact ⟨_, Step.cSignal1 s c j r hc hcc hd⟩
            | dx j => exact absurd (hi.closed_iff.2 (Or.inr ⟨j, hd⟩)) hcl
            | dend => exact absurd (hi.closed_iff.2 (Or.inl hd)) hcl
    | w1 =>
      obtain ⟨r, hr'⟩ := hi.shapeW c hc (Or.inl (by simp [hcc]))
      have hcc' : s.callers c = ⟨.w1, .write :: r⟩ := by simp [hcc] at hr'; simp [hcc, hr']
      by_cases hcl : s.closed = true
      · exact ⟨_, Step.wGiveUp s c r hc hcc' hcl⟩
      · cases hd : s.disp with
        | d0 => exact ⟨_, Step.wSend s c r hc hcc' hd⟩
        | d1 j => exact dispProgress j (Or.inl hd)
        | dx j => exact absurd (hi.closed_iff.2 (Or.inr ⟨j, hd⟩)) hcl
        | dend => exact absurd (hi.closed_iff.2 (Or.inl hd)) hcl
    | w2 =>
      rcases hi.held c hc (by simp [hcc]) with hd | ⟨i, hi', hw⟩
      · exact dispProgress c hd
      · exact workerProgress i hi' (by rcases hw with h | h <;> simp [h]) (by rcases hw with h | h <;> simp [h])
    | c2 =>
      obtain ⟨r, hr'⟩ := hi.shapeC c hc (by simp [hcc])
      have hcc' : s.callers c = ⟨.c2, .close :: r⟩ := by simp [hcc] at hr'; simp [hcc, hr']
      by_cases hall : ∀ i, i < k → s.workers i = .kend
      · exact ⟨_, Step.cDone s c r hc hcc' hall⟩
      · have : ∃ i, i < k ∧ s.workers i ≠ .kend := by
          apply Classical.byContradiction
          intro hne
          apply hall
          intro i hi'
          apply Classical.byContradiction
          intro hw
          exact hne ⟨i, hi', hw⟩
        obtain ⟨i, hi', hne⟩ := this
        by_cases h0 : s.workers i = .k0
        · by_cases hj : s.jobsClosed = true
          · exact ⟨_, Step.kExit s i hi' h0 hj⟩
          · -- closed is closed (this caller is past its signal) but jobs not yet: the dispatcher is sending its last job
            have hcl := hi.c2closed c hc (by simp [hcc])
            rcases hi.closed_iff.1 hcl with hd | ⟨j, hd⟩
            · exact absurd (hi.jobs_iff.2 hd) hj
            · exact ⟨_, Step.dLast s i j hi' hd h0⟩
        · exact workerProgress i hi' h0 hne

/-! ### termination: a measure that every step decreases -/

def rw : List COp → Nat
  | [] => 0
  | .write :: r => 7 + rw r
  | .close :: r => 3 + rw r
  | .rotate :: r => 1 + rw r

def wc (c : Caller) : Nat :=
  match c.pc, c.rest with
  | .start, r => rw r
  | .w1, _ :: r => 6 + rw r
  | .w2, _ :: r => 1 + rw r
  | .c2, _ :: r => 1 + rw r
  | _, [] => 0

def wd : DPc → Nat
  | .d0 => 1 | .d1 _ => 4 | .dx _ => 4 | .dend => 0

def ww : WPc → Nat
  | .k0 => 2 | .k1 _ => 4 | .k2 _ => 3 | .k3 => 1 | .kend => 0

def sumTo {α} (g : α → Nat) (f : Nat → α) : Nat → Nat
  | 0 => 0
  | n + 1 => sumTo g f n + g (f n)

theorem sumTo_upd {α} (g : α → Nat) (f : Nat → α) (i : Nat) (v : α) (n : Nat) (hi : i < n) :
    sumTo g (upd f i v) n + g (f i) = sumTo g f n + g v := by
  induction n with
  | zero => omega
  | succ m ih =>
    by_cases him : i = m
    · subst him
      have hsame : ∀ m', m' ≤ i → sumTo g (upd f i v) m' = sumTo g f m' := by
        intro m' hm'
        induction m' with
        | zero => rfl
        | succ q ihq => simp only [sumTo]; rw [ihq (by omega), upd_other _ _ _ _ (by omega)]
      simp only [sumTo, upd_same, hsame i (Nat.le_refl _)]; omega
    · simp only [sumTo, upd_other _ _ _ _ (Ne.symm him)]
      have := ih (by omega)
      omega

def mu (n k : Nat) (s : St) : Nat := sumTo wc s.callers n + wd s.disp + sumTo ww s.workers k

/-- **every step decreases the measure**: there is no infinite execution, whatever the scheduler does -/
theorem C10_measure (n k : Nat) (s s' : St) (hs : Step n k s s') : mu n k s' < mu n k s := by
  cases hs with
  | wStartClosed c r hc hcc _ =>
    have := sumTo_upd wc s.callers c ⟨.start, r⟩ n hc
    simp only [mu, hcc, wc, rw] at *; omega
  | wStart c r hc hcc _ =>
    have := sumTo_upd wc s.callers c ⟨.w1, .write :: r⟩ n hc
    simp only [mu, hcc, wc, rw] at *; omega
  | wGiveUp c r hc hcc _ =>
    have := sumTo_upd wc s.callers c ⟨.start, r⟩ n hc
    simp only [mu, hcc, wc, rw] at *; omega
  | wSend c r hc hcc hd =>
    have := sumTo_upd wc s.callers c ⟨.w2, .write :: r⟩ n hc
    simp only [mu, hcc, wc, rw, hd, wd] at *; omega
  | dForward i c hi hd hw =>
    have := sumTo_upd ww s.workers i (.k1 c) k hi
    simp only [mu, hd, hw, wd, ww] at *; omega
  | kWork i c hi hw =>
    have := sumTo_upd ww s.workers i (.k2 c) k hi
    simp only [mu, hw, ww] at *; omega
  | kReply i c r hi hc hw hcc =>
    have h1 := sumTo_upd ww s.workers i .k0 k hi
    have h2 := sumTo_upd wc s.callers c ⟨.start, r⟩ n hc
    simp only [mu, hw, hcc, ww, wc, rw] at *; omega
  | cStartClosed c r hc hcc _ =>
    have := sumTo_upd wc s.callers c ⟨.c2, .close :: r⟩ n hc
    simp only [mu, hcc, wc, rw] at *; omega
  | cSignal0 c r hc hcc hd =>
    have := sumTo_upd wc s.callers c ⟨.c2, .close :: r⟩ n hc
    simp only [mu, hcc, wc, rw, hd, wd] at *; omega
  | cSignal1 c j r hc hcc hd =>
    have := sumTo_upd wc s.callers c ⟨.c2, .close :: r⟩ n hc
    simp only [mu, hcc, wc, rw, hd, wd] at *; omega
  | dLast i j hi hd hw =>
    have := sumTo_upd ww s.workers i (.k1 j) k hi
    simp only [mu, hd, hw, wd, ww] at *; omega
  | cDone c r hc hcc _ =>
    have := sumTo_upd wc s.callers c ⟨.start, r⟩ n hc
    simp only [mu, hcc, wc, rw] at *; omega
  | kExit i hi hw _ =>
    have := sumTo_upd ww s.workers i .k3 k hi
    simp only [mu, hw, ww] at *; omega
  | kClose i hi hw =>
    have := sumTo_upd ww s.workers i .kend k hi
    simp only [mu, hw, ww] at *; omega
  | rotate c r hc hcc =>
    have := sumTo_upd wc s.callers c ⟨.start, r⟩ n hc
    simp only [mu, hcc, wc, rw] at *; omega

/-- executions are bounded: a run of m steps needs mu ≥ m at its start -/
inductive Run (n k : Nat) : St → Nat → St → Prop
  | nil (s : St) : Run n k s 0 s
  | cons (s s' t : St) (m : Nat) : Step n k s s' → Run n k s' m t → Run n k s (m + 1) t

theorem C10_bounded (n k : Nat) (s t : St) (m : Nat) (h : Run n k s m t) : m + mu n k t ≤ mu n k s := by
  induction h with
  | nil s => omega
  | cons s s' t m hs _ ih => have := C10_measure n k s s' hs; omega

/-- **every call returns**: any execution from any reachable state can be extended to one in which every caller has
    finished its program, and no execution is longer than the measure — so, with no fairness assumption at all, every
    maximal execution ends with every Write, Rotate and Close returned -/
theorem C10_all_return (n k : Nat) (hk : 0 < k) (progs : Nat → List COp) (s : St) (hr : Reach n k progs s) :
    ∃ t m, Run n k s m t ∧ ∀ c, c < n → finished t c := by
  -- strong induction on the measure
  generalize hm : mu n k s = m
  induction m using Nat.strongRecOn generalizing s with
  | _ m ih =>
    by_cases hall : ∀ c, c < n → finished s c
    · exact ⟨s, 0, Run.nil s, hall⟩
    · have : ∃ c, c < n ∧ ¬ finished s c := by
        apply Classical.byContradiction
        intro hne
        apply hall
        intro c hc
        apply Classical.byContradiction
        intro hf
        exact hne ⟨c, hc, hf⟩
      obtain ⟨c, hc, hnf⟩ := this
      obtain ⟨s', hs⟩ := C10_no_stuck n k hk progs s hr c hc hnf
      have hlt := C10_measure n k s s' hs
      obtain ⟨t, m', hrun, hfin⟩ := ih (mu n k s') (by omega) s' (Reach.step s s' hr hs) rfl
      exact ⟨t, m' + 1, Run.cons s s' t m' hs hrun, hfin⟩

/-- a maximal execution (one that cannot be extended) has every call returned -/
theorem C10_maximal_finished (n k : Nat) (hk : 0 < k) (progs : Nat → List COp) (s : St) (hr : Reach n k progs s)
    (hmax : ¬ ∃ s', Step n k s s') : ∀ c, c < n → finished s c := by
  intro c hc
  apply Classical.byContradiction
  intro hnf
  exact hmax (C10_no_stuck n k hk progs s hr c hc hnf)

/-! ### after Close -/

/-- `closed` stays closed, a worker that has ended stays ended -/
theorem closed_mono (n k : Nat) (s s' : St) (hs : Step n k s s') (h : s.closed = true) : s'.closed = true := by
  cases hs <;> simp_all

theorem kend_mono (n k : Nat) (s s' : St) (hs : Step n k s s') (i : Nat) (h : s.workers i = .kend) : s'.workers i = .kend := by
  cases hs <;> simp_all [upd] <;> grind

/-- **when Close returns every worker has ended (its file closed under its final name, step kClose), and the writer is
    closed for good**: the step in which a Close call returns requires all workers to be at their end, and from then on
    every Write takes the `closed` branch and returns nil in one step -/
theorem C10_after_close (n k : Nat) (hk : 0 < k) (progs : Nat → List COp) (s : St) (hr : Reach n k progs s) (c : Nat) (r : List COp)
    (hc : c < n) (hcc : s.callers c = ⟨.c2, .close :: r⟩) (hall : ∀ i, i < k → s.workers i = .kend) :
    s.closed = true ∧ s.jobsClosed = true ∧ s.disp = .dend := by
  have hi := reach_inv n k progs s hr
  have hcl := hi.c2closed c hc (by simp [hcc])
  refine ⟨hcl, ?_⟩
  rcases hi.closed_iff.1 hcl with hd | ⟨j, hd⟩
  · exact ⟨hi.jobs_iff.2 hd, hd⟩
  · -- the dispatcher would still hold job j: its caller waits in w2 and nobody else holds it — but then
    -- a worker must still take it, and all workers have ended: with at least one worker this cannot be
    exfalso
    obtain ⟨hj, hpc⟩ := hi.dheld j (Or.inr hd)
    -- jobs not closed, yet ended workers imply jobs closed
    have := hi.ended 0 hk (Or.inr (hall 0 hk))
    have := hi.jobs_iff.1 this
    rw [this] at hd; cases hd

/-- once closed, a Write that starts returns nil at once and hands nothing to any worker -/
theorem C10_write_after_close (n k : Nat) (s : St) (c : Nat) (r : List COp) (hc : c < n)
    (hcc : s.callers c = ⟨.start, .write :: r⟩) (hcl : s.closed = true) :
    ∃ s', Step n k s s' ∧ s'.callers c = ⟨.start, r⟩ ∧ s'.log = s.log ∧ s'.results c = s.results c ++ [⟨r.length + 1, false⟩] :=
  ⟨_, Step.wStartClosed s c r hc hcc hcl, by simp, rfl, by simp⟩

/-! ### non-vacuity: two callers, one worker -/
example : ∃ s', Step 2 1 (init (fun c => if c = 0 then [.write, .close] else [.write])) s' :=
  ⟨_, Step.wStart _ 0 [.close] (by decide) rfl rfl⟩

end Gowarc.Props.C10
