/-
  C13, names — "names are unique": the file names PatternNameGenerator hands out.

  The sequential writer model (Model/Writer.lean, Props/C13.lean) identifies a file by the serial its generator call
  returned. This file closes the gap to the real generator: for the DEFAULT pattern (regenerated from warcfile.go) the model
  of NewWarcfileName / Sprintt (Model/NameGen.lean, tied by correspondence kind `namegen`) yields
      prefix ++ ts ++ "-" ++ zero-padded serial ++ "-" ++ hostOrIp ++ "." ++ extension
  and two calls of one generator never return the same name: the serial is strictly increased by every call and the
  rendering of the serial is injective, whatever the prefix, the extension, the host name and the time stamps (14 digits
  each, `timestamp.UTC14`) are. int32 wrap-around of the serial after 2^31 files is outside the model.
-/
import Gowarc.Model.NameGen
import Gowarc.Lemmas.Decimal
namespace Gowarc.Props.C13
open Gowarc Gowarc.NameGen

theorem digitsVal_zeros (k : Nat) (s : Bytes) : digitsVal (List.replicate k 48 ++ s) = digitsVal s := by
  unfold digitsVal
  induction k with
  | zero => rfl
  | succ n ih => simp only [List.replicate_succ, List.cons_append, List.foldl_cons]; exact ih

/-- the zero-padded rendering of a serial determines the serial -/
theorem pad_serial_injective (w n m : Nat) (h : pad true false w (natToDec n) = pad true false w (natToDec m)) : n = m := by
  have hn : digitsVal (pad true false w (natToDec n)) = n := by
    unfold pad; simp only [Bool.false_eq_true, ↓reduceIte]; rw [digitsVal_zeros, digitsVal_natToDec]
  have hm : digitsVal (pad true false w (natToDec m)) = m := by
    unfold pad; simp only [Bool.false_eq_true, ↓reduceIte]; rw [digitsVal_zeros, digitsVal_natToDec]
  rw [h] at hn
  rw [← hn, hm]

/-- the default pattern, as extracted from warcfile.go on this run, tokenizes to five named fields -/
theorem default_pattern_tokens :
    tokenize ((bs Gen.w_defaultPattern).length + 1) (bs Gen.w_defaultPattern) =
      some [.spec ⟨false, false, 0, bs "prefix", 115⟩, .spec ⟨false, false, 0, bs "ts", 115⟩, .lit 45,
            .spec ⟨true, false, 4, bs "serial", 100⟩, .lit 45, .spec ⟨false, false, 0, bs "hostOrIp", 115⟩, .lit 46,
            .spec ⟨false, false, 0, bs "ext", 115⟩] := by decide

def extOf (g : NameGen.Gen) : Bytes := if g.extension.isEmpty then bs Gen.w_defaultExtension else g.extension

/-- **the default file name** -/
theorem default_name (g : NameGen.Gen) (hp : g.pattern = []) (hs : 0 ≤ g.serial) (ts hostOrIp host ip : Bytes) :
    (newName g ts hostOrIp host ip).1 =
      some (g.prefix_ ++ (ts ++ (45 :: (pad true false 4 (natToDec (g.serial + 1).toNat) ++ (45 :: (hostOrIp ++ (46 :: extOf g))))))) := by
  obtain ⟨n, hn⟩ := Int.eq_ofNat_of_zero_le (show 0 ≤ g.serial + 1 by omega)
  have htn : (g.serial + 1).toNat = n := by rw [hn]; rfl
  rw [htn]
  unfold newName sprintt
  simp only [hp, List.isEmpty_nil, ↓reduceIte, default_pattern_tokens]
  simp only [render, lookup, builtins, List.find?, List.cons_append, Option.map, renderSpec, hn]
  simp [fmtInt, pad, extOf, bs]

theorem newName_serial (g : NameGen.Gen) (ts hostOrIp host ip : Bytes) : (newName g ts hostOrIp host ip).2.serial = g.serial + 1 := rfl

/-- **names are unique**: two names of the default pattern that come from different serials differ — for any prefix,
    extension and host, and any two time stamps of the same length -/
theorem C13_generator_names_unique (g1 g2 : NameGen.Gen) (hp1 : g1.pattern = []) (hp2 : g2.pattern = [])
    (hpre : g1.prefix_ = g2.prefix_) (hext : g1.extension = g2.extension) (hs1 : 0 ≤ g1.serial) (hs2 : 0 ≤ g2.serial)
    (ts1 ts2 hostOrIp host ip : Bytes) (hts : ts1.length = ts2.length)
    (hname : (newName g1 ts1 hostOrIp host ip).1 = (newName g2 ts2 hostOrIp host ip).1) : g1.serial = g2.serial := by
  rw [default_name g1 hp1 hs1, default_name g2 hp2 hs2, hpre] at hname
  simp only [Option.some.injEq] at hname
  have h1 := List.append_cancel_left hname
  obtain ⟨_, h2⟩ := List.append_inj h1 hts
  simp only [List.cons.injEq, true_and] at h2
  have hsuf : extOf g1 = extOf g2 := by unfold extOf; rw [hext]
  rw [hsuf] at h2
  have h3 := List.append_cancel_right h2
  have h4 := pad_serial_injective 4 _ _ h3
  omega

/-- consecutive calls of one generator: the serial grows, so no name is handed out twice -/
theorem C13_next_name_differs (g : NameGen.Gen) (hp : g.pattern = []) (hs : 0 ≤ g.serial) (ts1 ts2 hostOrIp host ip : Bytes)
    (hts : ts1.length = ts2.length) :
    (newName g ts1 hostOrIp host ip).1 ≠ (newName (newName g ts1 hostOrIp host ip).2 ts2 hostOrIp host ip).1 := by
  intro h
  have := C13_generator_names_unique g (newName g ts1 hostOrIp host ip).2 hp hp rfl rfl hs (by rw [newName_serial]; omega)
    ts1 ts2 hostOrIp host ip hts h
  rw [newName_serial] at this
  omega

/-- non-vacuity: the first two names of a fresh default generator -/
example : (newName ⟨bs "p-", 0, [], [], []⟩ (bs "20200102030405") (bs "h") (bs "h") (bs "i")).1 = some (bs "p-20200102030405-0001-h.warc") ∧
    (newName (newName ⟨bs "p-", 0, [], [], []⟩ (bs "20200102030405") (bs "h") (bs "h") (bs "i")).2 (bs "20200102030405") (bs "h") (bs "h") (bs "i")).1
      = some (bs "p-20200102030405-0002-h.warc") := by decide

end Gowarc.Props.C13
