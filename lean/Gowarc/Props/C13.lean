/-
  C13 — Rotation, naming and warcinfo invariants of written files.

  Model and tie: as C04 (`SW`, kind `writer`); the oracle additionally judges on the implementation: every file scans as
  whole records, warcinfo first / exactly one / names the file, every other record carries that id, the fit rule,
  name suffixes at every step, callback arguments.

  Theorems, for every reachable state of the writer: with a generator every file starts with its warcinfo member and
  every other member is stamped with that file's warcinfo id (without one nothing is stamped); a record is appended to
  the open non-empty file only if the fit test passed, and starts a fresh file otherwise; file ids are unique, a file is
  open exactly when it is the current one; there is exactly one callback per closed file, with that file's id, true
  size and warcinfo id.
-/
import Gowarc.Props.C04
namespace Gowarc.Props.C13
open Gowarc Gowarc.SW Gowarc.Props.C04

theorem Inv.decomp {s : SW} (h : Inv s) (id : Nat) (hc : s.cur = some id) :
    ∃ init l, s.files = init ++ [l] ∧ l.id = id ∧ (∀ f ∈ init, f.id ≠ id ∧ f.isOpen = false) ∧ l.isOpen = true ∧ s.curSize = l.size := by
  obtain ⟨hid, hpos, hsz⟩ := h.cur id hc
  obtain ⟨n, hn⟩ : ∃ n, s.serial = n + 1 := ⟨s.serial - 1, by omega⟩
  have ho := h.ord
  rw [hn] at ho
  obtain ⟨init, l, hfs, hl, hinit⟩ := ho.last
  have hlid : l.id = id := by omega
  have hfresh : ∀ f ∈ init, f.id ≠ id := by intro f hf; have := hinit.mem_le f hf; omega
  refine ⟨init, l, hfs, hlid, ?_, ?_, ?_⟩
  · intro f hf
    refine ⟨hfresh f hf, ?_⟩
    cases ho' : f.isOpen with
    | false => rfl
    | true =>
      have := (h.opn f (by rw [hfs]; simp [hf])).1 ho'
      rw [hc] at this
      exact absurd (Option.some.inj this).symm (hfresh f hf)
  · exact (h.opn l (by rw [hfs]; simp)).2 (by rw [hc, hlid])
  · rw [hsz, hfs, ← hlid, fileSize_append_last _ _ (by intro f hf; rw [hlid]; exact hfresh f hf)]

theorem Inv.closed {s : SW} (h : Inv s) (hc : s.cur = none) : ∀ f ∈ s.files, f.isOpen = false := by
  intro f hf
  cases ho : f.isOpen with
  | false => rfl
  | true => have := (h.opn f hf).1 ho; rw [hc] at this; cases this

/-- the warcinfo / callback part of the reachable-state invariant -/
structure Inv13 (c : WCfg) (s : SW) : Prop where
  inf_cur : c.info = true → ∀ id, s.cur = some id → s.infoOf = some id
  inf_files : c.info = true → ∀ f ∈ s.files, ∃ b rest, f.members = ⟨0, b, none⟩ :: rest ∧ ∀ m ∈ rest, m.stamp = some f.id
  noinf : c.info = false → s.infoOf = none ∧ ∀ f ∈ s.files, ∀ m ∈ f.members, m.stamp = none
  cbs : ∀ cb ∈ s.callbacks, ∃ f ∈ s.files, f.id = cb.file ∧ f.isOpen = false ∧ f.size = cb.size ∧
          cb.infoOf = (if c.info then some cb.file else none)
  cbcount : s.callbacks.map (·.file) = (s.files.filter (fun f => !f.isOpen)).map (·.id)

theorem inv13_init (c : WCfg) : Inv13 c SW.init :=
  ⟨(by intro _ id h; cases h), (by intro _ f hf; cases hf), (by intro _; exact ⟨rfl, by intro f hf; cases hf⟩),
   (by intro cb h; cases h), rfl⟩

theorem filter_closed_all (l : List WFile) (h : ∀ f ∈ l, f.isOpen = false) : l.filter (fun f => !f.isOpen) = l := by
  rw [List.filter_eq_self]; intro f hf; simp [h f hf]

theorem close_inv13 (c : WCfg) (s : SW) (h : Inv s) (h13 : Inv13 c s) : Inv13 c (close s) := by
  unfold close
  cases hc : s.cur with
  | none => simpa [hc] using h13
  | some id =>
    obtain ⟨init, l, hfs, hlid, hinit, hlopen, hsz⟩ := Inv.decomp h id hc
    have hmod : modFile s.files id (fun f => { f with isOpen := false }) = init ++ [{ l with isOpen := false }] := by
      rw [hfs, ← hlid]; exact modFile_append_last _ _ _ (by intro f hf; rw [hlid]; exact (hinit f hf).1)
    simp only [hmod]
    refine ⟨(by intro _ id' h'; cases h'), ?_, ?_, ?_, ?_⟩
    · intro hi f hf
      rw [List.mem_append, List.mem_singleton] at hf
      rcases hf with hf | rfl
      · exact h13.inf_files hi f (by rw [hfs]; simp [hf])
      · exact h13.inf_files hi l (by rw [hfs]; simp)
    · intro hi
      refine ⟨(h13.noinf hi).1, ?_⟩
      intro f hf
      rw [List.mem_append, List.mem_singleton] at hf
      rcases hf with hf | rfl
      · exact (h13.noinf hi).2 f (by rw [hfs]; simp [hf])
      · exact (h13.noinf hi).2 l (by rw [hfs]; simp)
    · intro cb hcb
      rw [List.mem_append, List.mem_singleton] at hcb
      rcases hcb with hcb | rfl
      · obtain ⟨f, hf, hfid, hfo, hfs', hfi⟩ := h13.cbs cb hcb
        rw [hfs, List.mem_append, List.mem_singleton] at hf
        rcases hf with hf | rfl
        · exact ⟨f, by simp [hf], hfid, hfo, hfs', hfi⟩
        · rw [hlopen] at hfo; cases hfo
      · refine ⟨{ l with isOpen := false }, by simp, hlid, rfl, ?_, ?_⟩
        · show l.size = s.curSize
          exact hsz.symm
        · show s.infoOf = _
          by_cases hi : c.info = true
          · simp only [hi, ↓reduceIte]; exact h13.inf_cur hi id hc
          · simp only [hi, Bool.false_eq_true, ↓reduceIte]; exact (h13.noinf (by simpa using hi)).1
    · show (s.callbacks ++ [(⟨id, s.curSize, s.infoOf⟩ : Callback)]).map (fun cb => cb.file) = _
      rw [List.map_append, h13.cbcount, hfs, List.filter_append, List.filter_append, filter_closed_all init (fun f hf => (hinit f hf).2)]
      simp [hlopen, hlid]

theorem createFile_inv13 (c : WCfg) (s : SW) (ib : Nat → Bytes) (h : Inv s) (h13 : Inv13 c s) (hn : s.cur = none) :
    Inv13 c (createFile c s ib) := by
  unfold createFile
  by_cases hi : c.info = true
  · simp only [hi, ↓reduceIte]
    refine ⟨?_, ?_, (by intro h'; rw [hi] at h'; cases h'), ?_, ?_⟩
    · intro _ id hid; simp only [Option.some.injEq] at hid; subst hid; rfl
    · intro _ f hf
      rw [List.mem_append, List.mem_singleton] at hf
      rcases hf with hf | rfl
      · exact h13.inf_files hi f hf
      · exact ⟨_, [], rfl, by intro m hm; cases hm⟩
    · intro cb hcb
      obtain ⟨f, hf, r⟩ := h13.cbs cb hcb
      exact ⟨f, by simp [hf], by simpa [hi] using r⟩
    · show s.callbacks.map (·.file) = _
      rw [h13.cbcount, List.filter_append]; simp
  · have hi' : c.info = false := by simpa using hi
    simp only [hi', Bool.false_eq_true, ↓reduceIte]
    refine ⟨(by intro h'; rw [hi'] at h'; cases h'), (by intro h'; rw [hi'] at h'; cases h'), ?_, ?_, ?_⟩
    · intro _
      refine ⟨(h13.noinf hi').1, ?_⟩
      intro f hf
      rw [List.mem_append, List.mem_singleton] at hf
      rcases hf with hf | rfl
      · exact (h13.noinf hi').2 f hf
      · intro m hm; cases hm
    · intro cb hcb
      obtain ⟨f, hf, r⟩ := h13.cbs cb hcb
      exact ⟨f, by simp [hf], by simpa [hi'] using r⟩
    · show s.callbacks.map (·.file) = _
      rw [h13.cbcount, List.filter_append]; simp

theorem ready_inv13 (c : WCfg) (s : SW) (cl : Bool) (ib : Nat → Bytes) (h : Inv s) (h13 : Inv13 c s) : Inv13 c (ready c s cl ib) := by
  unfold ready
  have h1 : Inv (if cl then close s else s) := by split; exact close_inv s h; exact h
  have h1' : Inv13 c (if cl then close s else s) := by split; exact close_inv13 c s h h13; exact h13
  generalize (if cl then close s else s) = s1 at h1 h1'
  cases hc : s1.cur with
  | none => rw [if_pos (by simp [hc])]; exact createFile_inv13 c s1 ib h1 h1' hc
  | some id => rw [if_neg (by simp [hc])]; exact h1'

theorem append_inv13 (c : WCfg) (s : SW) (id tok : Nat) (b : Bytes) (h : Inv s) (h13 : Inv13 c s) (hc : s.cur = some id) :
    Inv13 c { s with files := modFile s.files id (fun f => { f with members := f.members ++ [⟨tok, b, s.infoOf⟩] }),
                     curSize := fileSize (modFile s.files id (fun f => { f with members := f.members ++ [⟨tok, b, s.infoOf⟩] })) id } := by
  obtain ⟨init, l, hfs, hlid, hinit, hlopen, hsz⟩ := Inv.decomp h id hc
  have hmod : modFile s.files id (fun f => { f with members := f.members ++ [⟨tok, b, s.infoOf⟩] }) = init ++ [{ l with members := l.members ++ [⟨tok, b, s.infoOf⟩] }] := by
    rw [hfs, ← hlid]; exact modFile_append_last _ _ _ (by intro f hf; rw [hlid]; exact (hinit f hf).1)
  simp only [hmod]
  refine ⟨?_, ?_, ?_, ?_, ?_⟩
  · intro hi id' hid'; exact h13.inf_cur hi id' hid'
  · intro hi f hf
    rw [List.mem_append, List.mem_singleton] at hf
    rcases hf with hf | rfl
    · exact h13.inf_files hi f (by rw [hfs]; simp [hf])
    · obtain ⟨b0, rest, hm, hr⟩ := h13.inf_files hi l (by rw [hfs]; simp)
      refine ⟨b0, rest ++ [⟨tok, b, s.infoOf⟩], by simp [hm], ?_⟩
      intro m hmem
      rw [List.mem_append, List.mem_singleton] at hmem
      rcases hmem with hmem | rfl
      · exact hr m hmem
      · show s.infoOf = some l.id
        rw [hlid]; exact h13.inf_cur hi id hc
  · intro hi
    refine ⟨(h13.noinf hi).1, ?_⟩
    intro f hf
    rw [List.mem_append, List.mem_singleton] at hf
    rcases hf with hf | rfl
    · exact (h13.noinf hi).2 f (by rw [hfs]; simp [hf])
    · intro m hmem
      replace hmem : m ∈ l.members ++ [⟨tok, b, s.infoOf⟩] := hmem
      rw [List.mem_append, List.mem_singleton] at hmem
      rcases hmem with hmem | rfl
      · exact (h13.noinf hi).2 l (by rw [hfs]; simp) m hmem
      · exact (h13.noinf hi).1
  · intro cb hcb
    obtain ⟨f, hf, hfid, hfo, hfs', hfi⟩ := h13.cbs cb hcb
    rw [hfs, List.mem_append, List.mem_singleton] at hf
    rcases hf with hf | rfl
    · exact ⟨f, by simp [hf], hfid, hfo, hfs', hfi⟩
    · rw [hlopen] at hfo; cases hfo
  · show s.callbacks.map (·.file) = _
    rw [h13.cbcount, hfs, List.filter_append, List.filter_append]
    simp [hlopen]

theorem write_inv13 (c : WCfg) (scale : Int → Int) (s : SW) (r : WRec) (h : Inv s) (h13 : Inv13 c s) : Inv13 c (write c scale s r).1 := by
  rw [write_eq]
  cases fitClose c scale s r.decl with
  | none => exact h13
  | some cl =>
    simp only
    obtain ⟨hr, id, hid⟩ := ready_inv c s cl r.infoBytes h
    have hr13 := ready_inv13 c s cl r.infoBytes h h13
    rw [hid]
    have := append_inv13 c _ id r.tok (r.enc (ready c s cl r.infoBytes).infoOf) hr hr13 hid
    rw [hid] at this
    exact this

theorem failed_inv13 (c : WCfg) (scale : Int → Int) (s : SW) (r : WRec) (h : Inv s) (h13 : Inv13 c s) : Inv13 c (writeFailed c scale s r).1 := by
  rw [writeFailed_eq]
  cases fitClose c scale s r.decl with
  | none => exact h13
  | some cl => exact ready_inv13 c s cl r.infoBytes h h13

theorem step_inv13 (c : WCfg) (scale : Int → Int) (s : SW) (op : WOp) (h : Inv s) (h13 : Inv13 c s) : Inv13 c (step c scale s op).1 := by
  cases op with
  | write r => exact write_inv13 c scale s r h h13
  | rotate => exact close_inv13 c s h h13
  | failed r => exact failed_inv13 c scale s r h h13
  | seg r n =>
    show Inv13 c (writeSeg c scale s r n).1
    rcases writeSeg_state c scale s r n with e | e | e <;> rw [e]
    · exact write_inv13 c scale s r h h13
    · exact failed_inv13 c scale s r h h13
    · exact write_inv13 c scale _ n (write_inv c scale s r h) (write_inv13 c scale s r h h13)

theorem run_inv13 (c : WCfg) (scale : Int → Int) (ops : List WOp) : Inv13 c (run c scale SW.init ops).1 := by
  suffices ∀ s, C04.Inv s → Inv13 c s → Inv13 c (run c scale s ops).1 from this _ inv_init (inv13_init c)
  induction ops with
  | nil => intro s _ h; exact h
  | cons op rest ih => intro s h h13; exact ih _ (step_inv c scale s op h) (step_inv13 c scale s op h h13)

/-- **warcinfo linkage**: with a generator, in every reachable state every file starts with its warcinfo member
    (written before the id is set, so unstamped) and every other member carries that file's warcinfo id -/
theorem C13_info (c : WCfg) (scale : Int → Int) (ops : List WOp) (hi : c.info = true) :
    ∀ f ∈ (run c scale SW.init ops).1.files, ∃ b rest, f.members = ⟨0, b, none⟩ :: rest ∧ ∀ m ∈ rest, m.stamp = some f.id :=
  (run_inv13 c scale ops).inf_files hi

/-- without a generator no record header is touched -/
theorem C13_no_info (c : WCfg) (scale : Int → Int) (ops : List WOp) (hi : c.info = false) :
    ∀ f ∈ (run c scale SW.init ops).1.files, ∀ m ∈ f.members, m.stamp = none :=
  ((run_inv13 c scale ops).noinf hi).2

/-- **names**: ids (serial numbers of the name generator) are unique, and a file carries the in-progress suffix exactly
    while it is the current file -/
theorem C13_names (c : WCfg) (scale : Int → Int) (ops : List WOp) :
    ((run c scale SW.init ops).1.files.map (·.id)).Nodup ∧
    ∀ f ∈ (run c scale SW.init ops).1.files, (f.isOpen = true ↔ (run c scale SW.init ops).1.cur = some f.id) := by
  have h := C04_inv c scale ops
  refine ⟨?_, h.opn⟩
  rw [h.ord]; exact List.nodup_range'

/-- **callbacks**: one per closed file, in closing order, with the file's id, its true size and its warcinfo id -/
theorem C13_callback (c : WCfg) (scale : Int → Int) (ops : List WOp) :
    ((run c scale SW.init ops).1.callbacks.map (·.file) = ((run c scale SW.init ops).1.files.filter (fun f => !f.isOpen)).map (·.id)) ∧
    ∀ cb ∈ (run c scale SW.init ops).1.callbacks, ∃ f ∈ (run c scale SW.init ops).1.files,
      f.id = cb.file ∧ f.isOpen = false ∧ f.size = cb.size ∧ cb.infoOf = (if c.info then some cb.file else none) :=
  ⟨(run_inv13 c scale ops).cbcount, (run_inv13 c scale ops).cbs⟩

/-- **fit rule**: a Write that lands in the file that was already open and non-empty passed the fit test; one that
    fails it lands in a fresh file -/
theorem C13_fit (c : WCfg) (scale : Int → Int) (s : SW) (r : WRec) (n : Int) (id : Nat) (h : Inv s)
    (hmax : c.max > 0) (hd : r.decl = .val n) (hc : s.cur = some id) (hpos : s.curSize > 0) :
    ((write c scale s r).2.file = some id ↔ (s.curSize : Int) + (if c.compress then scale n else n) ≤ c.max) ∧
    ((s.curSize : Int) + (if c.compress then scale n else n) > c.max → (write c scale s r).2.file = some (id + 1) ∧ (write c scale s r).2.off = (r.infoBytes (id + 1)).length * (if c.info then 1 else 0)) := by
  have hfit : fitClose c scale s r.decl = some (decide ((s.curSize : Int) + (if c.compress then scale n else n) > c.max)) := by
    unfold fitClose
    simp only [hc, Option.isSome_some, Bool.true_and, decide_eq_true hmax, ↓reduceIte, hd, decide_eq_true hpos]
  have hser := (h.cur id hc).1
  rw [write_eq, hfit]
  by_cases hgt : (s.curSize : Int) + (if c.compress then scale n else n) > c.max
  · have hcl : (close s).cur = none := by unfold close; simp [hc]
    have hready : ready c s true r.infoBytes = createFile c (close s) r.infoBytes := by
      unfold ready; simp [hcl]
    have hser' : (close s).serial = s.serial := by unfold close; simp [hc]
    simp only [decide_eq_true hgt, hready]
    have hcur : (createFile c (close s) r.infoBytes).cur = some (id + 1) := by
      rw [(createFile_inv c (close s) r.infoBytes (close_inv s h) hcl).2, hser', hser]
    simp only [hcur]
    refine ⟨⟨fun e => by simp at e, fun e => absurd e (by omega)⟩, fun _ => ⟨trivial, ?_⟩⟩
    unfold createFile
    rw [hser', ← hser]
    by_cases hi : c.info = true
    · simp [hi]
    · simp only [hi, Bool.false_eq_true, ↓reduceIte, Nat.mul_zero]
      unfold close; simp [hc]
  · have hready : ready c s false r.infoBytes = s := by unfold ready; simp [hc]
    simp only [decide_eq_false hgt, hready, hc]
    exact ⟨⟨fun _ => by omega, fun _ => trivial⟩, fun e => absurd e hgt⟩

/-! ### non-vacuity: warcinfo generator, limit 10, two records that do not fit together -/
example : (run ⟨10, false, true⟩ id SW.init [.write (exRec 1 6), .write (exRec 2 6), .rotate]).1.callbacks =
    [⟨1, 9, some 1⟩, ⟨2, 9, some 2⟩] := by decide
example : ((run ⟨10, false, true⟩ id SW.init [.write (exRec 1 6), .write (exRec 2 6)]).1.files.map (fun f => (f.id, f.isOpen, f.members.map (fun m => (m.tok, m.stamp))))) =
    [(1, false, [(0, none), (1, some 1)]), (2, true, [(0, none), (2, some 2)])] := by decide

end Gowarc.Props.C13
