/-
  C04, last clause — "for any input stream, whatever offset the reader reports for a record — also after skipping junk
  between records — is a position from which a fresh reader returns that same record".

  Proved here for the full `unmarshal` model and EVERY stream (no well-formedness assumption, plain or gzip, any
  policy): reading again from the reported offset gives the same record, the same error status, leaves the same rest, at
  offset 0, with the same findings except the "junk before the record" finding the first read had put in front. The
  gzip decoder is the oracle `Ω.gz`, seen from the new position (`Oracles.shift`).
-/
import Gowarc.Lemmas.Frame
import Gowarc.Model.Reader
namespace Gowarc.Props.C04
open Gowarc

section
variable (H : Alg → Bytes → Bytes)

/-- starting at a position that carries the magic bytes, nothing is skipped -/
theorem skipJunk_at_magic (a : Bytes) (hm : isMagic a = true) (hl : 5 ≤ a.length) : skipJunk (a.length + 1) a 0 = .inr (0, a) := by
  rw [skipJunk]
  have : ¬ a.length < 5 := by omega
  simp [this, hm]

/-- the findings an initial junk skip contributes -/
def junkFinding (o : Opts) (off : Nat) : List Tag := if o.syn != .ignore && off != 0 then [.synJunk] else []

theorem afterMagic_frame (o : Opts) (Ω : Oracles) (off : Nat) (f0 : List Tag) (after : Stream) :
    unmarshalAfterMagic H o Ω off f0 after =
      { unmarshalAfterMagic H o Ω 0 [] after with offset := off, fnd := f0 ++ (unmarshalAfterMagic H o Ω 0 [] after).fnd } := by
  unfold unmarshalAfterMagic
  split
  · simp
  · have hfr := (unmarshalBody_frame H o Ω ⟨(readBytesNL after.rest).2.1, after.fault⟩ (readBytesNL after.rest).1).h [] f0 []
    rw [List.append_nil] at hfr
    rw [hfr]
    cases hb : unmarshalBody H o Ω ⟨(readBytesNL after.rest).2.1, after.fault⟩ (readBytesNL after.rest).1 ⟨[], []⟩ with
    | mk r st =>
      cases r with
      | ok v => obtain ⟨rec, rest⟩ := v; simp
      | error t => simp

theorem gzFinish_frame (r : URes) (off : Nat) (f0 : List Tag) (bad : Bool) (rest : Bytes) :
    gzFinish { r with offset := off, fnd := f0 ++ r.fnd } bad rest = { gzFinish r bad rest with offset := off, fnd := f0 ++ (gzFinish r bad rest).fnd } := by
  unfold gzFinish
  cases he : r.err with
  | some e => simp [he]
  | none => simp only [he]; split <;> simp [he]

/-- what Unmarshal does once it stands at the magic bytes `a`, having skipped `off` bytes and collected `f0` -/
def core (o : Opts) (Ω : Oracles) (off : Nat) (f0 : List Tag) (a : Bytes) (fault : Bool) : URes :=
  if a.take 2 == [0x1f, 0x8b] then
    match Ω.gz a with
    | none => ⟨none, off, f0, some .other, []⟩
    | some (.inl t) => ⟨none, off, f0, some t, []⟩
    | some (.inr (content, bad, consumed)) =>
      if content.length < 5 then ⟨none, off, f0, some (if content.isEmpty && !bad then .eof else .reader), []⟩
      else if content.take 5 != bs "WARC/" then ⟨none, off, f0, some .versionMissing, []⟩
      else gzFinish (unmarshalAfterMagic H o Ω off f0 ⟨content.drop 5, bad⟩) bad (a.drop consumed)
  else unmarshalAfterMagic H o Ω off f0 ⟨a.drop 5, fault⟩

theorem unmarshal_eq_core (o : Opts) (Ω : Oracles) (s : Stream) (off : Nat) (a : Bytes)
    (hsk : skipJunk (s.rest.length + 1) s.rest 0 = .inr (off, a)) (hnf : (o.syn == .fail && decide (off > 0)) = false) :
    unmarshal H o Ω s = core H o Ω off (junkFinding o off) a s.fault := by
  unfold unmarshal core
  simp only [hsk, hnf, Bool.false_eq_true, ↓reduceIte, junkFinding]
  split
  · cases Ω.gz a with
    | none => rfl
    | some v =>
      cases v with
      | inl t => rfl
      | inr p => rfl
  · rfl

theorem core_frame (o : Opts) (Ω : Oracles) (off : Nat) (f0 : List Tag) (a : Bytes) (fault : Bool) :
    core H o Ω off f0 a fault = { core H o Ω 0 [] a fault with offset := off, fnd := f0 ++ (core H o Ω 0 [] a fault).fnd } := by
  unfold core
  split
  · cases Ω.gz a with
    | none => simp
    | some v =>
      cases v with
      | inl t => simp
      | inr p =>
        obtain ⟨content, bad, consumed⟩ := p
        simp only
        split
        · simp
        · split
          · simp
          · rw [afterMagic_frame, gzFinish_frame]
  · rw [afterMagic_frame]

/-- **the junk law**: if Unmarshal returned a record at offset `off` of a stream, Unmarshal on the stream from `off`
    returns the same record at offset 0 — same error status, same rest, same findings apart from the junk finding -/
theorem C04_junk (o : Opts) (Ω : Oracles) (s : Stream) (r : Rec) (hrec : (unmarshal H o Ω s).record = some r) :
    (unmarshal H o Ω ⟨s.rest.drop (unmarshal H o Ω s).offset, s.fault⟩).record = some r ∧
    (unmarshal H o Ω ⟨s.rest.drop (unmarshal H o Ω s).offset, s.fault⟩).offset = 0 ∧
    (unmarshal H o Ω ⟨s.rest.drop (unmarshal H o Ω s).offset, s.fault⟩).err = (unmarshal H o Ω s).err ∧
    (unmarshal H o Ω ⟨s.rest.drop (unmarshal H o Ω s).offset, s.fault⟩).rest = (unmarshal H o Ω s).rest ∧
    (unmarshal H o Ω s).fnd = junkFinding o (unmarshal H o Ω s).offset ++ (unmarshal H o Ω ⟨s.rest.drop (unmarshal H o Ω s).offset, s.fault⟩).fnd := by
  -- the first read found the magic bytes after `off` bytes of junk
  have key : ∃ off a, skipJunk (s.rest.length + 1) s.rest 0 = .inr (off, a) ∧ (o.syn == .fail && decide (off > 0)) = false := by
    cases hsk : skipJunk (s.rest.length + 1) s.rest 0 with
    | inl off =>
      exfalso
      have : (unmarshal H o Ω s).record = none := by
        unfold unmarshal; simp only [hsk]; split <;> rfl
      rw [this] at hrec; cases hrec
    | inr p =>
      obtain ⟨off, a⟩ := p
      refine ⟨off, a, rfl, ?_⟩
      cases hf : (o.syn == .fail && decide (off > 0)) with
      | false => rfl
      | true =>
        exfalso
        have : (unmarshal H o Ω s).record = none := by
          unfold unmarshal; simp only [hsk, hf, ↓reduceIte]
        rw [this] at hrec; cases hrec
  obtain ⟨off, a, hsk, hnf⟩ := key
  obtain ⟨_, ha, hmagic, hlen⟩ := skipJunk_sound _ _ _ _ _ hsk
  simp only [Nat.sub_zero] at ha
  have h1 := unmarshal_eq_core H o Ω s off a hsk hnf
  rw [core_frame] at h1
  have hoff : (unmarshal H o Ω s).offset = off := by rw [h1]
  have h2 : unmarshal H o Ω ⟨s.rest.drop off, s.fault⟩ = core H o Ω 0 [] a s.fault := by
    rw [← ha]
    have := unmarshal_eq_core H o Ω ⟨a, s.fault⟩ 0 a (skipJunk_at_magic a hmagic hlen) (by simp)
    rw [this]
    simp [junkFinding]
  rw [hoff, h2]
  rw [h1] at hrec ⊢
  exact ⟨hrec, by
    -- offset of a fresh read at the magic bytes
    have := core_frame H o Ω 0 [] a s.fault
    unfold core
    split
    · cases Ω.gz a with
      | none => rfl
      | some v =>
        cases v with
        | inl t => rfl
        | inr p =>
          obtain ⟨content, bad, consumed⟩ := p
          simp only
          split
          · rfl
          · split
            · rfl
            · rw [afterMagic_frame, gzFinish_frame]
    · rw [afterMagic_frame], rfl, rfl, rfl⟩

/-- non-vacuity of the junk finding: with a warn policy and junk in front the first read reports it, the second does not -/
example : junkFinding ⟨.warn, .warn, .warn, .ignore, false, true, true, true, true, true, true, false, bs "sha1", .b32⟩ 3 = [.synJunk] := by decide

end
end Gowarc.Props.C04
