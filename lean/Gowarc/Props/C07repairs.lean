/-
  C07, the clause about repair options: "with repair options on, only the documented repairs (Content-Length, block and
  payload digest fields, a missing HTTP header terminator) may differ".

  For the header this is proved here at full strength and for every policy and option setting: the record Unmarshal
  returns carries the parsed header with every field other than Content-Length, WARC-Block-Digest and WARC-Payload-Digest
  UNTOUCHED — same names, same values, same multiplicities, same relative order (`others r.hdr = others fs`). What the
  three repairable fields hold afterwards is the subject of C02 / C03.
-/
import Gowarc.Props.C02dig
namespace Gowarc.Props.C07
open Gowarc Gowarc.Props.C20 Gowarc.Props.C02
set_option linter.unusedSimpArgs false

/-- the three fields a repair option may rewrite -/
def repairable (k : Bytes) : Bool :=
  k == canon (bs "Content-Length") || k == canon (bs "WARC-Block-Digest") || k == canon (bs "WARC-Payload-Digest")

/-- the header without the repairable fields, order kept -/
def others (fs : Fields) : Fields := fs.filter (fun p => !repairable p.1)

theorem setLoop_filter (keep : Bytes → Bool) (name v : Bytes) (hk : keep name = false) (fs : Fields) (b : Bool) :
    (Fields.setLoop name v fs b).1.filter (fun p => keep p.1) = fs.filter (fun p => keep p.1) := by
  induction fs generalizing b with
  | nil => rfl
  | cons x rest ih =>
    obtain ⟨n, w⟩ := x
    unfold Fields.setLoop
    by_cases hn : (n != name) = true
    · simp only [hn, ↓reduceIte, List.filter_cons, ih b]
    · have hn' : n = name := by simpa using hn
      subst hn'
      simp only [hn, Bool.false_eq_true, ↓reduceIte, List.filter_cons, hk]
      cases b
      · simp only [Bool.false_eq_true, ↓reduceIte, List.filter_cons, hk, ih true]
      · simp only [↓reduceIte, ih true]

theorem others_set (fs : Fields) (n v : Bytes) (hn : repairable (canon n) = true) : others (fs.set n v) = others fs := by
  unfold others Fields.set
  have hk : (fun k => !repairable k) (canon n) = false := by simp [hn]
  split
  · exact setLoop_filter (fun k => !repairable k) (canon n) v hk fs false
  · rw [List.filter_append, setLoop_filter (fun k => !repairable k) (canon n) v hk fs false]
    simp [hn]

theorem others_setInt_CL (fs : Fields) (i : Int) : others (setInt fs (bs "Content-Length") i) = others fs := by
  unfold setInt; exact others_set _ _ _ (by decide)

/-! ### steps that leave the non-repairable part of the header alone -/

structure Others {α} (m : M α) : Prop where
  h : ∀ s, others (m s).2.hdr = others s.hdr

namespace Others
theorem of_keep {α} {m : M α} (hk : KeepHdr m) : Others m := ⟨fun s => by rw [hk.h s]⟩
theorem bind {α β} {m : M α} {f : α → M β} (hm : Others m) (hf : ∀ a, Others (f a)) : Others (m >>= f) := by
  constructor
  intro s
  simp only [M.bind_def]
  have h1 := hm.h s
  cases hr : m s with
  | mk r s' =>
    rw [hr] at h1
    cases r with
    | ok a => exact ((hf a).h s').trans h1
    | error e => exact h1
theorem ite {α} {c : Prop} [Decidable c] {m1 m2 : M α} (h1 : Others m1) (h2 : Others m2) : Others (if c then m1 else m2) := by
  split <;> assumption
/-- read the header, write back either the same header or one with a repairable field set -/
theorem setField (n : Bytes) (hn : repairable (canon n) = true) (c : Fields → Bool) (f : Fields → Bytes) :
    Others (do let h ← M.hdr; M.setHdr (if c h then h.set n (f h) else h)) := by
  constructor
  intro s
  simp only [M.bind_def, M.hdr_def, M.setHdr_def]
  split
  · exact others_set _ _ _ hn
  · rfl
end Others

theorem others_of_eq {α} {m : M α} (hk : Others m) {s : St} {r : Except Tag α} {s' : St} (h : m s = (r, s')) :
    others s'.hdr = others s.hdr := by
  have := hk.h s
  rw [h] at this
  exact this

theorem newHttpBlock_others (o : Opts) (Ω : Oracles) (c : Bytes) (bd pd : Digest) : Others (newHttpBlock o Ω c bd pd) := by
  unfold newHttpBlock
  apply Others.bind (Others.of_keep (KeepHdr.condFail _ _)); intro _
  apply Others.bind (Others.of_keep (KeepHdr.condSite _ _ _)); intro _
  constructor
  intro s
  simp only [M.bind_def, M.hdr_def, M.setHdr_def]
  have hset : others (if (!(headerBytes c).2.2 && o.fixSyntaxErrors && s.hdr.has (bs "Content-Length")) = true
      then setInt s.hdr (bs "Content-Length") (wrap64 (contentLengthOf s.hdr + 2)) else s.hdr) = others s.hdr := by
    split
    · exact others_setInt_CL _ _
    · rfl
  generalize (if (!(headerBytes c).2.2 && o.fixSyntaxErrors && s.hdr.has (bs "Content-Length")) = true
      then setInt s.hdr (bs "Content-Length") (wrap64 (contentLengthOf s.hdr + 2)) else s.hdr) = h2 at hset
  have := (KeepHdr.condSite (!Ω.http (hasPrefix (bs "HTTP") (if (!(headerBytes c).2.2 && o.fixSyntaxErrors) = true then (headerBytes c).1 ++ crlf else (headerBytes c).1))
      (if (!(headerBytes c).2.2 && !o.fixSyntaxErrors) = true then (if (!(headerBytes c).2.2 && o.fixSyntaxErrors) = true then (headerBytes c).1 ++ crlf else (headerBytes c).1) ++ crlf
       else (if (!(headerBytes c).2.2 && o.fixSyntaxErrors) = true then (headerBytes c).1 ++ crlf else (headerBytes c).1))) o.blk .httpParse).h ⟨h2, s.fnd⟩
  cases hc : condSite (!Ω.http (hasPrefix (bs "HTTP") (if (!(headerBytes c).2.2 && o.fixSyntaxErrors) = true then (headerBytes c).1 ++ crlf else (headerBytes c).1))
      (if (!(headerBytes c).2.2 && !o.fixSyntaxErrors) = true then (if (!(headerBytes c).2.2 && o.fixSyntaxErrors) = true then (headerBytes c).1 ++ crlf else (headerBytes c).1) ++ crlf
       else (if (!(headerBytes c).2.2 && o.fixSyntaxErrors) = true then (headerBytes c).1 ++ crlf else (headerBytes c).1))) o.blk .httpParse ⟨h2, s.fnd⟩ with
  | mk r s' =>
    rw [hc] at this
    cases r with
    | ok u => simp only [M.pure_def]; rw [this]; exact hset
    | error e => simp only; rw [this]; exact hset

theorem parseBlock_others (o : Opts) (Ω : Oracles) (rt : Nat) (c : Bytes) (fault : Bool) : Others (parseBlock o Ω rt c fault) := by
  unfold parseBlock
  apply Others.bind (Others.of_keep (digestFromField_keep o _)); intro bd
  apply Others.bind (Others.of_keep (digestFromField_keep o _)); intro pd
  apply Others.bind (Others.of_keep KeepHdr.hdr); intro h
  apply Others.ite
  · exact newHttpBlock_others o Ω c bd pd
  · apply Others.ite
    · apply Others.ite
      · exact Others.of_keep (KeepHdr.fail _)
      · exact Others.of_keep (KeepHdr.pure _)
    · apply Others.ite
      · exact Others.of_keep (newWarcFieldsBlock_keep o _ _ _)
      · exact Others.of_keep (KeepHdr.pure _)

section
variable (H : Alg → Bytes → Bytes)

theorem checkDigest_others (o : Opts) (field : Bytes) (tag : Tag) (d : Digest) (data : Bytes)
    (hf : repairable (canon field) = true) : Others (checkDigest H o field tag d data) := by
  constructor
  intro s
  unfold checkDigest
  simp only [M.bind_def, M.hdr_def]
  by_cases he : d.hash.isEmpty = true
  · simp only [he, ↓reduceIte, M.setHdr_def]
    split
    · exact others_set _ _ _ hf
    · rfl
  · simp only [he, Bool.false_eq_true, ↓reduceIte, M.bind_def, M.hdr_def, M.setHdr_def]
    have k := (KeepHdr.condSite (o.spec != Pol.ignore && !d.valid H data) o.spec tag).h s
    cases hc : condSite (o.spec != Pol.ignore && !d.valid H data) o.spec tag s with
    | mk r1 s1 =>
      rw [hc] at k
      cases r1 with
      | error e => simp only; rw [k]
      | ok u1 =>
        simp only
        split
        · rw [others_set _ _ _ hf, k]
        · rw [k]


theorem validateDigest_others (o : Opts) (rt : Nat) (b : Block) (fault : Bool) : Others (validateDigest H o rt b fault) := by
  constructor
  intro st
  unfold validateDigest
  simp only [M.bind_def, M.hdr_def, M.setHdr_def]
  have k1 := (KeepHdr.condFail (fault && (b.kind == .generic || b.kind == .httpReq || b.kind == .httpResp)) .reader).h st
  cases h1 : condFail (fault && (b.kind == .generic || b.kind == .httpReq || b.kind == .httpResp)) .reader st with
  | mk r1 s1 =>
    rw [h1] at k1
    simp only at k1
    cases r1 with
    | error e => simp only; rw [k1]
    | ok u1 =>
      simp only
      have k3 := (KeepHdr.condSite (lengthBad o s1.hdr b) o.spec .length).h s1
      cases h3 : condSite (lengthBad o s1.hdr b) o.spec .length s1 with
      | mk r3 s3 =>
        rw [h3] at k3
        simp only at k3
        cases r3 with
        | error e => simp only; rw [k3, k1]
        | ok u3 =>
          simp only
          have h5 : others (if (lengthBad o s1.hdr b && o.fixContentLength) = true then s3.hdr.set (bs "Content-Length") (natToDec b.raw.length) else s3.hdr) = others st.hdr := by
            split
            · rw [others_set _ _ _ (by decide), k3, k1]
            · rw [k3, k1]
          generalize hs5 : ({ hdr := if (lengthBad o s1.hdr b && o.fixContentLength) = true then s3.hdr.set (bs "Content-Length") (natToDec b.raw.length) else s3.hdr, fnd := s3.fnd } : St) = s5
          replace h5 : others s5.hdr = others st.hdr := by rw [← hs5]; exact h5
          have k6 := (checkDigest_others H o (bs "WARC-Block-Digest") .digestBlock b.blockDigest b.raw (by decide)).h s5
          cases h6 : checkDigest H o (bs "WARC-Block-Digest") .digestBlock b.blockDigest b.raw s5 with
          | mk r6 s6 =>
            rw [h6] at k6
            simp only at k6
            cases r6 with
            | error e => simp only; rw [k6]; exact h5
            | ok u6 =>
              simp only
              split
              · simp only [M.pure_def]; rw [k6]; exact h5
              · cases hpd : b.payloadDigest with
                | none => simp only [M.pure_def]; rw [k6]; exact h5
                | some pd =>
                  simp only
                  rw [(checkDigest_others H o (bs "WARC-Payload-Digest") .digestPayload pd b.payload (by decide)).h s6, k6]
                  exact h5

/-- **only the documented repairs touch the header**: under every policy and every repair-option setting, the record
    Unmarshal returns carries the parsed header with every field other than Content-Length, WARC-Block-Digest and
    WARC-Payload-Digest untouched: same names, values, multiplicities and relative order -/
theorem C07_repairs_only (o : Opts) (Ω : Oracles) (vt : Bytes) (vi : Nat) (fs : Fields) (s' : Stream) (st st' : St)
    (r : Rec) (rest : Bytes)
    (h : unmarshalTail H o Ω vt vi fs s' st = (.ok (some r, rest), st')) :
    others r.hdr = others fs := by
  unfold unmarshalTail at h
  obtain ⟨_, s1, h1, h⟩ := bind_ok _ _ _ _ _ h
  simp only [M.setHdr_def, Prod.mk.injEq, Except.ok.injEq, true_and] at h1
  obtain ⟨rt, s2, h2, h⟩ := bind_ok _ _ _ _ _ h
  obtain ⟨hd, s3, h3, h⟩ := bind_ok _ _ _ _ _ h
  simp only [M.hdr_def, Prod.mk.injEq, Except.ok.injEq] at h3
  obtain ⟨b, s4, h4, h⟩ := bind_ok _ _ _ _ _ h
  obtain ⟨_, s5, h5, h⟩ := bind_ok _ _ _ _ _ h
  obtain ⟨_, s6, h6, h⟩ := bind_ok _ _ _ _ _ h
  obtain ⟨_, s7, h7, h⟩ := bind_ok _ _ _ _ _ h
  obtain ⟨hd', s8, h8, h⟩ := bind_ok _ _ _ _ _ h
  simp only [M.hdr_def, Prod.mk.injEq, Except.ok.injEq] at h8
  simp only [M.pure_def, Prod.mk.injEq, Except.ok.injEq, Option.some.injEq] at h
  have e1 : s1.hdr = fs := by rw [← h1]
  have e2 : s2.hdr = s1.hdr := keep_of_eq (validateHeader_keep o Ω vi) h2
  have e3 : s3 = s2 := h3.2.symm
  have e4 : others s4.hdr = others s3.hdr := others_of_eq (parseBlock_others o Ω rt _ _) h4
  have e5 : others s5.hdr = others s4.hdr := others_of_eq (validateDigest_others H o rt b _) h5
  have e6 : s6.hdr = s5.hdr := keep_of_eq (KeepHdr.condFail _ _) h6
  have e7 : s7.hdr = s6.hdr := keep_of_eq (KeepHdr.condSite _ _ _) h7
  rw [← h.1.1]
  simp only
  rw [← h8.1, e7, e6, e5, e4, e3, e2, e1]

/-- consequence for the accessors: every value list of a non-repairable field is what was parsed -/
theorem others_getAll (a b : Fields) (h : others a = others b) (k : Bytes) (hk : repairable (canon k) = false) :
    a.getAll k = b.getAll k := by
  have key : ∀ fs : Fields, fs.getAll k = (others fs).getAll k := by
    intro fs
    unfold Fields.getAll others
    rw [List.filter_filter]
    congr 1
    apply List.filter_congr
    intro p _
    by_cases hp : (p.1 == canon k) = true
    · have : p.1 = canon k := by simpa using hp
      simp [hp, this, hk]
    · simp [hp]
  rw [key a, key b, h]

theorem C07_repairs_only_getAll (o : Opts) (Ω : Oracles) (vt : Bytes) (vi : Nat) (fs : Fields) (s' : Stream) (st st' : St)
    (r : Rec) (rest : Bytes) (k : Bytes) (hk : repairable (canon k) = false)
    (h : unmarshalTail H o Ω vt vi fs s' st = (.ok (some r, rest), st')) :
    r.hdr.getAll k = fs.getAll k :=
  others_getAll _ _ (C07_repairs_only H o Ω vt vi fs s' st st' r rest h) k hk

end

/-- non-vacuity: the filter keeps e.g. WARC-Type and WARC-Date and drops exactly the three repairable fields -/
example : others [(bs "WARC-Type", bs "response"), (bs "Content-Length", bs "5"), (bs "WARC-Block-Digest", bs "sha1:X"),
    (bs "WARC-Date", bs "d"), (bs "WARC-Payload-Digest", bs "sha1:Y")] = [(bs "WARC-Type", bs "response"), (bs "WARC-Date", bs "d")] := by decide

end Gowarc.Props.C07
