/-
  C01 through gzip: one record per gzip member.

  The gzip codec is outside the model: `Ω.gz` is the decoder's verdict on the bytes from the start of a member to the end
  of the stream. The CODEC LAW assumed of it here is the one DESIGN section 3 records for the compressor/decompressor pair:
  for the member `g` that compressing `m` produced, followed by anything, the decoder yields exactly `m`, ends cleanly,
  and has consumed exactly `g` (`GzLaw`). Under that law, everything `C01_accepts` says about a plain serialized record
  carries over to the record inside its own gzip member: every reader returns it, no error, no finding, at offset 0,
  and is left at the first byte behind the member. (What the real klauspost/gzip does is supplied per case by the
  harness and compared; this theorem is about what gowarc does with it.)
-/
import Gowarc.Props.C06built
namespace Gowarc.Props.C01
open Gowarc Gowarc.Props.C06

/-- the decoder's verdict for the member `g` of content `m`, whatever follows the member -/
def GzLaw (Ω : Oracles) (g m : Bytes) : Prop :=
  ∀ rest, Ω.gz (g ++ rest) = some (.inr (m, false, g.length))

section
variable (H : Alg → Bytes → Bytes)

/-- a plain stream that starts with the record magic is handed to the record reader as it is -/
theorem unmarshal_plain_start (o : Opts) (Ω : Oracles) (x : Bytes) (fault : Bool) :
    unmarshal H o Ω ⟨bs "WARC/" ++ x, fault⟩ = unmarshalAfterMagic H o Ω 0 [] ⟨x, fault⟩ := by
  unfold unmarshal
  have hlen : ¬ (bs "WARC/" ++ x).length < 5 := by simp [bs]
  have hmagic : isMagic (bs "WARC/" ++ x) = true := by simp [isMagic, bs, List.take]
  have hsk : skipJunk ((bs "WARC/" ++ x).length + 1) (bs "WARC/" ++ x) 0 = .inr (0, bs "WARC/" ++ x) := by
    rw [skipJunk]; simp only [hlen, ↓reduceIte, hmagic]
  simp only [hsk]
  have hgz : ((bs "WARC/" ++ x).take 2 == [0x1f, 0x8b]) = false := by simp [bs, List.take]
  have hdrop : (bs "WARC/" ++ x).drop 5 = x := by simp [bs]
  simp [hgz, hdrop]

/-- **a record in its own gzip member is read back like the plain record** -/
theorem readsBack_gzip (o : Opts) (Ω : Oracles) (x : Bytes) (r : Rec) (g : Bytes)
    (hplain : ReadsBack H o Ω (bs "WARC/" ++ x) r)
    (hmagic : g.take 2 = [0x1f, 0x8b]) (hg5 : 5 ≤ g.length) (hlaw : GzLaw Ω g (bs "WARC/" ++ x)) :
    ReadsBack H o Ω g r := by
  intro tail fault
  -- what the record reader makes of the member's content
  have hin : unmarshalAfterMagic H o Ω 0 [] ⟨x, false⟩ = ⟨some r, 0, [], none, []⟩ := by
    have := hplain [] false
    rw [List.append_nil, unmarshal_plain_start] at this
    exact this
  have hglen : 2 ≤ g.length := by omega
  unfold unmarshal
  have htake : (g ++ tail).take 2 = [0x1f, 0x8b] := by
    rw [List.take_append_of_le_length hglen]; exact hmagic
  have hmag : isMagic (g ++ tail) = true := by simp [isMagic, htake]
  have hshort : ¬ (g ++ tail).length < 5 := by simp only [List.length_append]; omega
  have hsk : skipJunk ((g ++ tail).length + 1) (g ++ tail) 0 = .inr (0, g ++ tail) := by
    rw [skipJunk]; simp only [hshort, ↓reduceIte, hmag]
  simp only [hsk, htake, beq_self_eq_true, ↓reduceIte, hlaw tail]
  have hc5 : ¬ (bs "WARC/" ++ x).length < 5 := by simp [bs]
  have ht5 : (bs "WARC/" ++ x).take 5 = bs "WARC/" := by simp [bs]
  have hd5 : (bs "WARC/" ++ x).drop 5 = x := by simp [bs]
  simp only [hc5, ↓reduceIte, ht5, bne_self_eq_false, Bool.false_eq_true, hd5, Nat.lt_irrefl, gt_iff_lt, decide_false, Bool.and_false,
    bne_self_eq_false, ne_eq, not_true_eq_false]
  unfold gzFinish
  rw [hin]
  simp

end
end Gowarc.Props.C01
